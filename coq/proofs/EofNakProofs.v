(* EofNakProofs.v — proofs for props/C06c.v: the EOF phase of property C06 through the real entry points of the
   receiver (Dest.state_machine), composing the tracker invariant over histories (TrackInvProofs.v, props/C06b.v) with
   the NAK-issue lemmas (NakProofs.v, props/C06.v).
   Method: the states of the phases considered are written in constructor form ([DST], [RS] receiving, [ES] after the
   EOF, [WS] waiting for missing data, [TC]/[FSQ] completion) and each call is executed symbolically with a head-directed
   interpreter ([hrun], as in PerfectLinkProofs.v); the bookkeeping call lost_segment_handling stays folded: its frame
   ([lsh_shape]: only tracker, frontier and - in immediate mode - the queue change) is proved once and its effect on
   the tracker comes from TrackInvProofs.good_step / st_below.  No axioms. *)
From CFDP Require Import Base LostSeg LostSegSpec Fs Crc Checksum Handler Dest HandlerSpec.
From CFDP.gen Require Import Tables.
From CFDP.proofs Require Import ChecksumProofs LostSegProofs FsProofs NakProofs TrackInvProofs.
From RecordUpdate Require Import RecordSet.
Import RecordSetNotations.
Open Scope monad_scope.

Arguments Z.add : simpl never. Arguments Z.sub : simpl never. Arguments Z.mul : simpl never.
Arguments Z.div : simpl never. Arguments Z.max : simpl never. Arguments Z.min : simpl never.
Arguments Z.of_nat : simpl never. Arguments Z.to_nat : simpl never.
Arguments Z.ltb !x !y : simpl nomatch. Arguments Z.leb !x !y : simpl nomatch.
Arguments Z.eqb !x !y : simpl nomatch.
Arguments timed_out : simpl never.
Arguments write_at : simpl never. Arguments set_node : simpl never. Arguments lookup : simpl never.
Arguments max_seg_reqs : simpl never.
Arguments lost_segment_handling : simpl never.
Arguments LostSeg.add : simpl never. Arguments coalesce : simpl never.
Arguments fs_file_exists : simpl never. Arguments fs_truncate_file : simpl never. Arguments fs_create_file : simpl never.
Arguments fs_is_directory : simpl never.

(* ------------------------------------------------------------------ same bodies as props/C06c.v *)
Definition drain_d (s : dst) : dst * list pdu :=
  (s <| d_queue := [] |> <| d_ready := d_ready s - zlen (d_queue s) |>, d_queue s).
Definition tick (dt : Z) (s : dst) : dst := s <| d_env ::= (fun e => e <| e_now ::= Z.add dt |>) |>.
Definition call_d (c : Z * option pdu) (s : dst) : dst * res Z (list pdu) :=
  match state_machine (snd c) (tick (fst c) s) with
  | (s', Ok _) => let '(s'', ps) := drain_d s' in (s'', Ok ps)
  | (s', Err e) => (s', Err e)
  end.


Fixpoint calls_d (cs : list (Z * option pdu)) (s : dst) : dst * res Z (list (list pdu)) :=
  match cs with
  | [] => (s, Ok [])
  | c :: t => match call_d c s with
              | (s', Ok ps) => match calls_d t s' with
                               | (s'', Ok rest) => (s'', Ok (ps :: rest))
                               | (s'', Err e) => (s'', Err e)
                               end
              | (s', Err e) => (s', Err e)
              end
  end.
Definition dst_fresh (c : lcfg) (fs : tree) : dst := (dst_init c) <| d_env ::= (fun e => e <| e_fs := fs |>) |>.


(* one File Data PDU of the history: clock advance before the call, offset, data *)
Definition fd_call (hd : hdr) (x : Z * (Z * bytes)) : Z * option pdu :=
  (fst x, Some (PFileData hd (fst (snd x)) (snd (snd x)))).
Definition fd_len (x : Z * (Z * bytes)) : Z * Z := (fst (snd x), zlen (snd (snd x))).
(* the NAK sent at once when a File Data PDU arrives beyond the extent received so far (immediate NAK mode) *)
Definition gap_nak (imm : bool) (hd : hdr) (ext off len : Z) : list pdu :=
  if imm && (ext <? off) then [PNak hd 0 (off + len) [(ext, off)]] else [].
Fixpoint gap_naks (imm : bool) (hd : hdr) (ext : Z) (hist : list (Z * Z)) : list (list pdu) :=
  match hist with
  | [] => []
  | fd :: t => gap_nak imm hd ext (fst fd) (snd fd) :: gap_naks imm hd (Z.max ext (fst fd + snd fd)) t
  end.
(* the name of the destination file (dest.py _init_vfs_handling) and the condition under which it can be written *)
Definition dest_name (fs : tree) (sn dn : path) : path :=
  if fs_is_directory fs dn then (match rev sn with b :: _ => dn ++ [b] | [] => dn end) else dn.
Definition dest_writable (fs : tree) (p : path) : Prop :=
  (exists d, lookup fs p = Some (File d)) \/ (lookup fs p = None /\ parent_is_dir fs p = true).

(* the NAK sequence issued when the EOF (no error) arrived before the Metadata: the metadata request (0,0) first, then
   the whole file; one request per PDU when only one fits *)
Definition md_naks (hd : hdr) (size maxn : Z) : list pdu :=
  if 0 <? size then
    (if 1 =? maxn then [PNak hd 0 size [(0, 0)]; PNak hd 0 size [(0, size)]] else [PNak hd 0 size [(0, 0); (0, size)]])
  else [PNak hd 0 size [(0, 0)]].

Definition not_nak (p : pdu) : Prop := match p with PNak _ _ _ _ => False | _ => True end.

Ltac ddst s :=
  destruct s as [cfg st step stid ready q p env]; destruct env as [nw fs rw lg];
  destruct p as [tid rc ckt ckc clo ckty fin disp cf pr crc fsz fname fse mdo trk mdm ls le dfr prt nakc ackt ackc];
  destruct fin as [deliv fstat fcond ffl].

(* ------------------------------------------------------------------ frame of lost_segment_handling *)
Definition updT (s : dst) (tr : tracker) (ls le : Z) (q : list pdu) (rd : Z) : dst :=
  s <| d_p ::= (fun p => p <| p_tracker := tr |> <| p_last_start := ls |> <| p_last_end := le |>) |>
    <| d_queue := q |> <| d_ready := rd |>.

(* only the tracker and the frontier change *)
Definition fr0 (s s' : dst) : Prop :=
  s' = updT s (p_tracker (d_p s')) (p_last_start (d_p s')) (p_last_end (d_p s')) (d_queue s) (d_ready s).
Definition Fr0 {A} (m : D A) : Prop := forall s s' r, m s = (s', r) -> fr0 s s'.

Lemma fr0_refl : forall s, fr0 s s.
Proof. intros s. ddst s. reflexivity. Qed.
Lemma fr0_trans : forall s1 s2 s3, fr0 s1 s2 -> fr0 s2 s3 -> fr0 s1 s3.
Proof. intros s1 s2 s3 H1 H2. unfold fr0 in *. rewrite H2. rewrite H1. ddst s1. reflexivity. Qed.

Lemma Fr0_ret : forall A (a : A), Fr0 (ret a).
Proof. intros A a s s' r H. injection H as <- _. apply fr0_refl. Qed.
Lemma Fr0_raise : forall A e, Fr0 (@raise dst A e).
Proof. intros A e s s' r H. injection H as <- _. apply fr0_refl. Qed.
Lemma Fr0_gp : forall A (f : dparams -> A), Fr0 (gp f).
Proof. intros A f s s' r H. injection H as <- _. apply fr0_refl. Qed.
Lemma Fr0_bind : forall A B (m : D A) (f : A -> D B), Fr0 m -> (forall a, Fr0 (f a)) -> Fr0 (bind m f).
Proof.
  intros A B m f Hm Hf s s' r H. unfold bind in H. destruct (m s) as [s1 [a|e]] eqn:E.
  - eapply fr0_trans; [exact (Hm _ _ _ E) | exact (Hf a _ _ _ H)].
  - injection H as <- _. exact (Hm _ _ _ E).
Qed.
Lemma Fr0_when : forall b (m : D unit), Fr0 m -> Fr0 (when b m).
Proof. intros [|] m H; [exact H | apply Fr0_ret]. Qed.
Lemma Fr0_set_tracker : forall f, Fr0 (setp (fun p => p <| p_tracker ::= f |>)).
Proof. intros f s s' r H. injection H as <- _. ddst s. reflexivity. Qed.
Lemma Fr0_set_front : forall a b, Fr0 (setp (fun p => p <| p_last_start := a |> <| p_last_end := b |>)).
Proof. intros a b s s' r H. injection H as <- _. ddst s. reflexivity. Qed.

Lemma Fr0_remove_covered : forall off e sg, Fr0 (remove_covered off e sg).
Proof.
  intros off e sg. unfold remove_covered. destruct ((fst sg <? e) && (off <? snd sg)); [|apply Fr0_ret].
  apply Fr0_bind; [apply Fr0_gp|]. intros tr.
  destruct (LostSeg.remove _ tr) as [[tr' b]|x]; [|apply Fr0_raise].
  intros s s' r H. injection H as <- _. ddst s. reflexivity.
Qed.
Lemma Fr0_rc_fold : forall off e l (m : D unit), Fr0 m ->
  Fr0 (fold_left (fun m sg => m ;;; remove_covered off e sg) l m).
Proof.
  intros off e l. induction l as [|sg t IH]; intros m Hm; cbn [fold_left]; [exact Hm|].
  apply IH. apply Fr0_bind; [exact Hm | intros _; apply Fr0_remove_covered].
Qed.

(* the part of lost_segment_handling after the gap detection *)
Definition lsh_tail (offset len : Z) : D unit :=
  last_end <- gp p_last_end ;;
  when (last_end <=? offset)
    (setp (fun p => p <| p_last_start := offset |> <| p_last_end := offset + len |>)) ;;;
  last_start <- gp p_last_start ;;
  when (offset + len <=? last_start)
    (tr <- gp p_tracker ;;
     fold_left (fun m sg => m ;;; remove_covered offset (offset + len) sg) tr (ret tt)).
Lemma Fr0_lsh_tail : forall off len, Fr0 (lsh_tail off len).
Proof.
  intros off len. unfold lsh_tail.
  apply Fr0_bind; [apply Fr0_gp|]. intros le.
  apply Fr0_bind; [apply Fr0_when, Fr0_set_front|]. intros _.
  apply Fr0_bind; [apply Fr0_gp|]. intros ls.
  apply Fr0_when. apply Fr0_bind; [apply Fr0_gp|]. intros tr. apply Fr0_rc_fold, Fr0_ret.
Qed.

Lemma lsh_shape : forall off len s s' res r,
  p_rcfg (d_p s) = Some r -> lost_segment_handling off len s = (s', res) ->
  s' = updT s (p_tracker (d_p s')) (p_last_start (d_p s')) (p_last_end (d_p s'))
         (d_queue s ++ gap_nak (r_imm_nak r) (set_dir TOWARDS_SENDER (p_conf (d_p s))) (p_last_end (d_p s)) off len)
         (d_ready s + zlen (gap_nak (r_imm_nak r) (set_dir TOWARDS_SENDER (p_conf (d_p s))) (p_last_end (d_p s)) off len)).
Proof.
  intros off len s s' res r Hr H.
  change (lost_segment_handling off len s) with
    (bind (last_end <- gp p_last_end ;;
           when (last_end <? off)
             (tracker_add (last_end, off) ;;;
              r <- rcfg_or_assert ;;
              when (r_imm_nak r)
                (h <- conf ;; add_packet (PNak (set_dir TOWARDS_SENDER h) 0 (off + len) [(last_end, off)]))))
          (fun _ => lsh_tail off len) s) in H.
  rewrite bind_assoc, bind_gp in H. unfold gap_nak.
  destruct (p_last_end (d_p s) <? off) eqn:E.
  - unfold tracker_add, conf in H. rewrite bind_when_true, bind_assoc, bind_setp, bind_assoc, bind_rcfg in H.
    cbn [d_p] in H. change (p_rcfg (d_p (s <| d_p ::= (fun p => p <| p_tracker ::= add (p_last_end (d_p s), off) |>) |>)))
      with (p_rcfg (d_p s)) in H. rewrite Hr in H.
    destruct (r_imm_nak r).
    + rewrite bind_when_true, bind_assoc, bind_gp, bind_add_packet in H.
      apply Fr0_lsh_tail in H. unfold fr0 in H. rewrite H. cbn [andb]. ddst s. reflexivity.
    + rewrite bind_when_false in H. apply Fr0_lsh_tail in H. unfold fr0 in H. rewrite H. cbn [andb].
      ddst s. cbn. rewrite app_nil_r, Z.add_0_r. reflexivity.
  - rewrite bind_when_false in H. apply Fr0_lsh_tail in H. unfold fr0 in H. rewrite H.
    rewrite andb_false_r. ddst s. cbn. rewrite app_nil_r, Z.add_0_r. reflexivity.
Qed.

Ltac msimp := repeat (cbn; unfold bind, ret, raise, get, put, gets, modify, when, catch).

Ltac nrm := cbv beta iota delta [set d_cfg d_state d_step d_states_tid d_ready d_queue d_p d_env
    p_tid p_rcfg p_check_timer p_check_count p_closure p_cktype p_fin p_disp p_conf p_progress p_crc32 p_file_size
    p_file_name p_file_size_eof p_md_only p_tracker p_md_missing p_last_start p_last_end p_deferred p_proc_timer
    p_nak_counter p_ack_timer p_ack_counter f_deliv f_fstatus f_cond f_fl e_now e_fs e_reject_writes e_log].

(* head-directed symbolic interpreter for the receiver monad on states in constructor form (as in PerfectLinkProofs.v) *)
Ltac pc t :=
  eval cbv beta iota delta
    [set d_cfg d_state d_step d_states_tid d_ready d_queue d_p d_env
     p_tid p_rcfg p_check_timer p_check_count p_closure p_cktype p_fin p_disp p_conf p_progress p_crc32 p_file_size
     p_file_name p_file_size_eof p_md_only p_tracker p_md_missing p_last_start p_last_end p_deferred p_proc_timer
     p_nak_counter p_ack_timer p_ack_counter f_deliv f_fstatus f_cond f_fl e_now e_fs e_reject_writes e_log
     h_dir h_mode h_crc h_large h_src h_dst h_idw h_seq h_seqw set_dir fst snd] in t.
Ltac cl t := let v1 := pc t in let v2 := eval cbv in v1 in v2.
Ltac hstep :=
  lazymatch goal with
  | |- bind (bind _ _) _ _ = _ => etransitivity; [apply bind_assoc|]
  | |- bind (ret ?a) ?k ?s = ?r => change (k a s = r)
  | |- bind (gets ?f) ?k ?s = ?r => let v := pc (f s) in change (k v s = r)
  | |- bind (gp ?f) ?k ?s = ?r => let v := pc (f (d_p s)) in change (k v s = r)
  | |- bind (modify ?f) ?k ?s = ?r => let s' := pc (f s) in change (k tt s' = r)
  | |- bind (setp ?f) ?k ?s = ?r => let s' := pc (s <| d_p ::= f |>) in change (k tt s' = r)
  | |- bind (set_step ?v) ?k ?s = ?r => let s' := pc (s <| d_step := v |>) in change (k tt s' = r)
  | |- bind (emit ?e) ?k ?s = ?r =>
      let s' := pc (s <| d_env ::= (fun en => en <| e_log ::= cons e |>) |>) in change (k tt s' = r)
  | |- bind (add_packet ?p) ?k ?s = ?r =>
      let s' := pc (s <| d_queue ::= (fun q => q ++ [p]) |> <| d_ready ::= (fun n => n + 1) |>) in change (k tt s' = r)
  | |- bind tmode ?k ?s = ?r =>
      let v := cl (if d_state s =? ST_IDLE then None else Some (h_mode (p_conf (d_p s)))) in change (k v s = r)
  | |- bind get_step ?k ?s = ?r => let v := pc (d_step s) in change (k v s = r)
  | |- bind (step_is ?v) ?k ?s = ?r => let b := cl (d_step s =? v) in change (k b s = r)
  | |- bind (mode_is ?m) ?k ?s = ?r =>
      let b := cl (match (if d_state s =? ST_IDLE then None else Some (h_mode (p_conf (d_p s)))) with
                   | Some x => x =? m | None => false end) in change (k b s = r)
  | |- bind get ?k ?s = ?r => change (k s s = r)
  | |- bind (put ?s') ?k ?s = ?r => let s'' := pc s' in change (k tt s'' = r)
  | |- bind (if ?c then _ else _) _ _ = _ =>
      let b := cl c in lazymatch b with true => change c with true | false => change c with false end
  | |- (if ?c then _ else _) _ = _ =>
      let b := cl c in lazymatch b with true => change c with true | false => change c with false end
  end; cbv beta iota zeta delta [when].
Ltac hrun := repeat hstep.
Ltac prj :=
  cbn [d_cfg d_state d_step d_states_tid d_ready d_queue d_p d_env
       p_tid p_rcfg p_check_timer p_check_count p_closure p_cktype p_fin p_disp p_conf p_progress p_crc32 p_file_size
       p_file_name p_file_size_eof p_md_only p_tracker p_md_missing p_last_start p_last_end p_deferred p_proc_timer
       p_nak_counter p_ack_timer p_ack_counter f_deliv f_fstatus f_cond f_fl e_now e_fs e_reject_writes e_log
       h_dir h_mode h_crc h_large h_src h_dst h_idw h_seq h_seqw fst snd opt_z negb andb orb].

Section Run.
Variables (c : lcfg) (r : rcfg) (crc large : bool) (srcid idw seq seqw : Z) (closure : bool) (ck msize : Z) (name : path).
Hypothesis Hrem : get_remote (l_remotes c) srcid = Some r.

Definition h : hdr := mkHdr TOWARDS_RECEIVER ACKED crc large srcid (l_id c) idw seq seqw.
Definition hh : hdr := mkHdr TOWARDS_SENDER ACKED crc large srcid (l_id c) idw seq seqw.
Definition tid0 : option (Z * Z) := Some (srcid, seq).
Definition fin0 : fin := mkFin DATA_INCOMPLETE FS_RETAINED C_NO_ERROR None.

Definition DST (step : Z) (rd : Z) (q : list pdu) (f : fin) (prog : Z) (crcv : bytes) (eof : option Z)
   (tr : tracker) (ls le : Z) (dfr : bool) (pt : option timer) (nakc : Z) (en : env) : dst :=
  mkDst c ST_BUSY step tid0 rd q
    (mkDP tid0 (Some r) None 0 closure ck f DISP_COMPLETED hh
          prog crcv (Some msize) name eof false tr false ls le dfr pt nakc None 0) en.

Definition RS (tr : tracker) (ls le prog : Z) (en : env) : dst :=
  DST DS_RECEIVING_FILE_DATA 0 [] fin0 prog [] None tr ls le false None 0 en.


(* ---- the structure of one state_machine call on a busy handler *)
Definition again (k : nat) : D unit :=
  catch_abandoned (s <- get ;; when (d_state s =? ST_BUSY) (non_idle_fsm k None)).
Definition tail_fin (k : nat) (pkt : option pdu) : D unit :=
  b <- step_is DS_TRANSFER_COMPLETION ;;
  when b handle_transfer_completion ;;;
  b <- step_is DS_SENDING_FINISHED ;;
  when b (n <- gets d_ready ;;
          if 0 <? n then ret tt else (prepare_finished_pdu ;;; handle_finished_pdu_sent)) ;;;
  b <- step_is DS_WAITING_FOR_FINISHED_ACK ;;
  when b (handle_waiting_for_finished_ack (again k) pkt).
Definition wmd_block (pkt : option pdu) : D unit :=
  (match pkt with
   | Some (PEof _ cond ck sz _) =>
       if cond =? C_NO_ERROR then prepare_eof_ack_packet
       else (setp (fun p => p <| p_deferred := false |>) ;;; handle_eof_pdu cond ck sz)
   | _ => ret tt
   end) ;;;
  (match pkt with
   | Some (PFileData _ off data) =>
       handle_fd_pdu off data ;;;
       active <- gp p_deferred ;;
       when active reset_nak_activity_parameters
   | _ => ret tt
   end) ;;;
  deferred_lost_segment_handling.
Definition tail_mid (k : nat) (pkt : option pdu) : D unit :=
  b <- step_is DS_WAITING_FOR_METADATA ;;
  when b (handle_waiting_for_missing_metadata pkt ;;; deferred_lost_segment_handling) ;;;
  b <- step_is DS_RECV_WITH_CHECK_LIMIT ;;
  when b check_limit_handling ;;;
  b <- step_is DS_WAITING_FOR_MISSING_DATA ;;
  when b (wmd_block pkt) ;;;
  tail_fin k pkt.
Definition recv_block (pkt : option pdu) : D unit :=
  match pkt with
  | Some (PFileData _ off data) => handle_fd_pdu off data
  | Some (PEof _ cond ck sz _) => handle_eof_pdu cond ck sz
  | _ => ret tt
  end.
Lemma nif_eq : forall k pkt,
  non_idle_fsm (S k) pkt =
  (fsm_advancement ;;;
   st <- get_step ;;
   when ((st =? DS_RECEIVING_FILE_DATA) || (st =? DS_RECV_WITH_CHECK_LIMIT)) (recv_block pkt) ;;;
   tail_mid k pkt).
Proof. reflexivity. Qed.

Lemma step_is_eq : forall B v (k : bool -> D B) s, bind (step_is v) k s = k (d_step s =? v) s.
Proof. reflexivity. Qed.

Lemma tail_fin_skip : forall k pkt s,
  d_step s = DS_RECEIVING_FILE_DATA \/ d_step s = DS_SENDING_EOF_ACK \/ d_step s = DS_WAITING_FOR_MISSING_DATA ->
  tail_fin k pkt s = (s, Ok tt).
Proof.
  intros k pkt s H. unfold tail_fin. rewrite !step_is_eq.
  destruct H as [H | [H | H]]; rewrite H; cbn; rewrite ?step_is_eq, H; cbn; rewrite ?step_is_eq, H; reflexivity.
Qed.
Lemma tail_mid_skip : forall k pkt s,
  d_step s = DS_RECEIVING_FILE_DATA \/ d_step s = DS_SENDING_EOF_ACK ->
  tail_mid k pkt s = (s, Ok tt).
Proof.
  intros k pkt s H. unfold tail_mid. rewrite !step_is_eq.
  destruct H as [H | H]; rewrite H; cbn; rewrite ?step_is_eq, H; cbn; rewrite ?step_is_eq, H; cbn;
    apply tail_fin_skip; auto.
Qed.

Lemma check_fd : forall off data s, d_state s = ST_BUSY -> d_cfg s = c ->
  check_inserted_packet (PFileData h off data) s = (s, Ok tt).
Proof.
  intros off data s Hst Hc. unfold check_inserted_packet. unfold bind at 1. unfold get at 1.
  cbn [pdu_hdr h h_dir h_dst h_src]. rewrite Hc, Hrem, Hst, !Z.eqb_refl. reflexivity.
Qed.
Lemma check_eof : forall cond cks sz fl s, d_state s = ST_BUSY -> d_cfg s = c ->
  check_inserted_packet (PEof h cond cks sz fl) s = (s, Ok tt).
Proof.
  intros cond cks sz fl s Hst Hc. unfold check_inserted_packet. unfold bind at 1. unfold get at 1.
  cbn [pdu_hdr h h_dir h_dst h_src]. rewrite Hc, Hrem, Hst, !Z.eqb_refl. reflexivity.
Qed.

(* a call on a busy handler with nothing queued *)
Lemma sm_busy : forall pkt s,
  (match pkt with Some p => check_inserted_packet p s = (s, Ok tt) | None => True end) ->
  d_state s = ST_BUSY -> d_queue s = [] -> d_step s <> DS_SENDING_EOF_ACK ->
  state_machine pkt s =
  catch_abandoned
    (st <- get_step ;;
     when ((st =? DS_RECEIVING_FILE_DATA) || (st =? DS_RECV_WITH_CHECK_LIMIT)) (recv_block pkt) ;;;
     tail_mid 2 pkt) s.
Proof.
  intros pkt s Hck Hst Hq Hstep. unfold state_machine.
  assert (E : (match pkt with Some p => check_inserted_packet p | None => ret tt end) s = (s, Ok tt))
    by (destruct pkt; [exact Hck | reflexivity]).
  rewrite (bind_ok _ _ _ _ _ _ _ E). unfold catch_abandoned, catch.
  unfold bind at 1. unfold get at 1. rewrite Hst. cbn [Z.eqb ST_BUSY ST_IDLE Pos.eqb].
  unfold bind at 1. unfold ret at 1. unfold bind at 1. unfold get at 1. rewrite Hst. 
  change (ST_BUSY =? ST_BUSY) with true. unfold when at 1. rewrite nif_eq.
  unfold bind at 1. unfold fsm_advancement at 1. unfold bind at 1. unfold get at 1. rewrite Hq.
  change (0 <? zlen (@nil pdu)) with false. cbv iota.
  replace (d_step s =? DS_SENDING_EOF_ACK) with false by (symmetry; apply Z.eqb_neq; exact Hstep).
  reflexivity.
Qed.

Definition seg_log (off len : Z) (lg : list event) : list event :=
  if l_ind_seg c then EvSegmentRecv srcid seq off len :: lg else lg.

Lemma hfd_ok : forall step rd q prog crcv eof tr ls le dfr pt nakc nw fs lg off data old S1,
  lost_segment_handling off (zlen data)
    (DST step rd q fin0 prog crcv eof tr ls le dfr pt nakc (mkEnv nw fs false (seg_log off (zlen data) lg))) = (S1, Ok tt) ->
  lookup fs name = Some (File old) ->
  (match eof with Some sz => off + zlen data <= sz | None => True end) ->
  handle_fd_pdu off data (DST step rd q fin0 prog crcv eof tr ls le dfr pt nakc (mkEnv nw fs false lg)) =
  (DST step (rd + zlen (gap_nak (r_imm_nak r) hh le off (zlen data))) (q ++ gap_nak (r_imm_nak r) hh le off (zlen data))
       fin0 (Z.max (off + zlen data) prog) crcv eof
       (p_tracker (d_p S1)) (p_last_start (d_p S1)) (p_last_end (d_p S1)) dfr pt nakc
       (mkEnv nw (set_node fs name (File (write_at old off data))) false (seg_log off (zlen data) lg)), Ok tt).
Proof.
  intros step rd q prog crcv eof tr ls le dfr pt nakc nw fs lg off data old S1 H Hl He.
  pose proof (fun E => lsh_shape off (zlen data) _ S1 (Ok tt) r E H) as Sh. specialize (Sh eq_refl).
  unfold handle_fd_pdu, seg_log in *. unfold DST in *.
  cbn [d_queue d_p p_conf p_last_end d_ready] in Sh.
  set (tr' := p_tracker (d_p S1)) in *. set (ls' := p_last_start (d_p S1)) in *. set (le' := p_last_end (d_p S1)) in *.
  clearbody tr' ls' le'. unfold updT in Sh. revert Sh. nrm. intros Sh. subst S1.
  assert (Ee : match eof with Some sz => sz <? off + zlen data | None => false end = false).
  { destruct eof as [sz|]; [apply Z.ltb_ge; lia | reflexivity]. }
  destruct (l_ind_seg c) eqn:Eind; msimp; rewrite ?Eind; msimp; nrm; rewrite H; msimp; unfold fs_write_data; rewrite Hl; msimp;
    destruct eof as [sz|]; msimp; rewrite ?Ee; msimp; reflexivity.
Qed.


Lemma bind_get_step : forall B (k : Z -> D B) s, bind get_step k s = k (d_step s) s.
Proof. reflexivity. Qed.

Lemma fd_call_recv : forall dt off data tr ls le prog nw fs lg old S1,
  lost_segment_handling off (zlen data)
    (RS tr ls le prog (mkEnv (dt + nw) fs false (seg_log off (zlen data) lg))) = (S1, Ok tt) ->
  lookup fs name = Some (File old) ->
  call_d (dt, Some (PFileData h off data)) (RS tr ls le prog (mkEnv nw fs false lg)) =
  (RS (p_tracker (d_p S1)) (p_last_start (d_p S1)) (p_last_end (d_p S1)) (Z.max (off + zlen data) prog)
      (mkEnv (dt + nw) (set_node fs name (File (write_at old off data))) false (seg_log off (zlen data) lg)),
   Ok (gap_nak (r_imm_nak r) hh le off (zlen data))).
Proof.
  intros dt off data tr ls le prog nw fs lg old S1 H Hl. unfold call_d. cbn [fst snd].
  change (tick dt (RS tr ls le prog (mkEnv nw fs false lg))) with (RS tr ls le prog (mkEnv (dt + nw) fs false lg)).
  rewrite sm_busy; [| apply check_fd; reflexivity | reflexivity | reflexivity | discriminate].
  unfold catch_abandoned, catch. rewrite bind_get_step.
  change (d_step (RS tr ls le prog (mkEnv (dt + nw) fs false lg))) with DS_RECEIVING_FILE_DATA.
  change ((DS_RECEIVING_FILE_DATA =? DS_RECEIVING_FILE_DATA) || (DS_RECEIVING_FILE_DATA =? DS_RECV_WITH_CHECK_LIMIT)) with true.
  rewrite bind_when_true. cbn [recv_block]. unfold RS in *.
  rewrite (bind_ok _ _ _ _ _ _ _ (hfd_ok _ _ _ _ _ _ _ _ _ _ _ _ _ _ _ _ _ _ _ H Hl I)).
  rewrite tail_mid_skip by (left; reflexivity).
  unfold drain_d, DST. cbn.
  replace (0 + zlen (gap_nak (r_imm_nak r) hh le off (zlen data)) - zlen (gap_nak (r_imm_nak r) hh le off (zlen data))) with 0 by lia.
  reflexivity.
Qed.

Lemma good_transfer : forall seg size hist s s',
  p_tracker (d_p s') = p_tracker (d_p s) -> p_last_start (d_p s') = p_last_start (d_p s) ->
  p_last_end (d_p s') = p_last_end (d_p s) -> p_rcfg (d_p s') <> None ->
  Good seg size hist s -> Good seg size hist s'.
Proof.
  intros seg size hist s s' H1 H2 H3 H4 [GI GD GE GF GC GB GR].
  constructor; rewrite ?H1, ?H2, ?H3; assumption.
Qed.

Lemma lookup_written : forall fs n old, lookup fs name = Some (File old) ->
  lookup (set_node fs name n) name = Some n.
Proof.
  intros fs n old H. rewrite lookup_set_node by (eapply lookup_file_ne; exact H).
  rewrite path_eqb_refl. reflexivity.
Qed.

Lemma recv_run : forall seg size fds hist tr ls le nw fs lg old,
  0 < seg ->
  Good seg size hist (RS tr ls le (extent hist) (mkEnv nw fs false lg)) ->
  lookup fs name = Some (File old) -> Forall (tile seg size) (map fd_len fds) ->
  exists tr' ls' le' nw' fs' lg' old',
    calls_d (map (fd_call h) fds) (RS tr ls le (extent hist) (mkEnv nw fs false lg)) =
      (RS tr' ls' le' (extent (hist ++ map fd_len fds)) (mkEnv nw' fs' false lg'),
       Ok (gap_naks (r_imm_nak r) hh (extent hist) (map fd_len fds))) /\
    Good seg size (hist ++ map fd_len fds) (RS tr' ls' le' (extent (hist ++ map fd_len fds)) (mkEnv nw' fs' false lg')) /\
    lookup fs' name = Some (File old').
Proof.
  intros seg size fds. induction fds as [|[dt [off data]] t IH]; intros hist tr ls le nw fs lg old Hseg G Hl HF.
  - exists tr, ls, le, nw, fs, lg, old. cbn [map calls_d gap_naks]. rewrite app_nil_r. split; [reflexivity | split; assumption].
  - cbn [map] in HF. inversion HF as [|? ? Hfd Ht]; subst. unfold fd_len in Hfd at 1. cbn [fst snd] in Hfd.
    set (S0 := RS tr ls le (extent hist) (mkEnv (dt + nw) fs false (seg_log off (zlen data) lg))).
    assert (G0 : Good seg size hist S0) by (eapply good_transfer; [| | | |exact G]; [reflexivity | reflexivity | reflexivity | discriminate]).
    destruct (good_step seg size hist S0 (off, zlen data) Hseg G0 Hfd) as [S1 [E1 [G1 _]]]. cbn [fst snd] in E1.
    pose proof (fd_call_recv dt off data tr ls le (extent hist) nw fs lg old S1 E1 Hl) as Ec.
    assert (Ele : le = extent hist) by (destruct G as [_ _ GE _ _ _ _]; exact GE).
    assert (Eext : Z.max (off + zlen data) (extent hist) = extent (hist ++ [(off, zlen data)])).
    { rewrite extent_app. cbn [fst snd]. apply Z.max_comm. }
    rewrite Eext in Ec.
    set (S2 := RS (p_tracker (d_p S1)) (p_last_start (d_p S1)) (p_last_end (d_p S1)) (extent (hist ++ [(off, zlen data)]))
                  (mkEnv (dt + nw) (set_node fs name (File (write_at old off data))) false (seg_log off (zlen data) lg))) in *.
    assert (G2 : Good seg size (hist ++ [(off, zlen data)]) S2) by (eapply good_transfer; [| | | |exact G1]; [reflexivity | reflexivity | reflexivity | discriminate]).
    destruct (IH (hist ++ [(off, zlen data)]) _ _ _ _ _ _ _ Hseg G2 (lookup_written fs _ old Hl) Ht)
      as [tr' [ls' [le' [nw' [fs' [lg' [old' [Er [Gr Hlr]]]]]]]]].
    exists tr', ls', le', nw', fs', lg', old'.
    assert (Eh : (hist ++ [(off, zlen data)]) ++ map fd_len t = hist ++ map fd_len ((dt, (off, data)) :: t)).
    { rewrite <- app_assoc. reflexivity. }
    rewrite Eh in Er, Gr. split; [|split; assumption].
    cbn [map calls_d]. change (fd_call h (dt, (off, data))) with (dt, Some (PFileData h off data)).
    rewrite Ec. cbv beta iota. unfold S2. rewrite Er. cbn [gap_naks]. unfold fd_len at 2 3 4. cbn [fst snd].
    rewrite Ele, <- extent_app. reflexivity.
Qed.

Lemma catch_ok : forall A (m : D A) hd s s1 a, m s = (s1, Ok a) -> catch m hd s = (s1, Ok a).
Proof. intros A m hd s s1 a H. unfold catch. rewrite H. reflexivity. Qed.

Lemma init_vfs_run : forall base s fs sn dn,
  e_fs (d_env s) = fs -> p_file_name (d_p s) = dn ->
  base = (match rev sn with b :: _ => Some b | [] => None end) ->
  name = dest_name fs sn dn -> dest_writable fs name ->
  init_vfs_handling base s =
    (s <| d_p ::= (fun p => p <| p_file_name := name |>) |>
       <| d_env ::= (fun e => e <| e_fs := set_node fs name (File []) |>) |>
       <| d_p ::= (fun p => p <| p_fin ::= (fun f => f <| f_fstatus := FS_RETAINED |>) |>) |>, Ok tt).
Proof.
  intros base s fs sn dn H1 H2 Hb Hn Hw. unfold init_vfs_handling. apply catch_ok.
  rewrite bind_gets, bind_gp, H1, H2.
  assert (En : (if fs_is_directory fs dn then match base with Some b => dn ++ [b] | None => dn end else dn) = name).
  { rewrite Hn, Hb. unfold dest_name. destruct (fs_is_directory fs dn); [destruct (rev sn)|]; reflexivity. }
  rewrite En. rewrite bind_setp. unfold vfs_op_tree.
  unfold fs_file_exists, exists_.
  destruct Hw as [[d Hd] | [Hd Hp]]; rewrite Hd; cbv iota.
  - rewrite bind_assoc, bind_gets. cbn [d_env set e_fs]. rewrite H1. unfold fs_truncate_file. rewrite Hd. cbv iota.
    reflexivity.
  - rewrite bind_assoc, bind_gets. cbn [d_env set e_fs]. rewrite H1. unfold fs_create_file, exists_. rewrite Hd, Hp.
    cbv iota. reflexivity.
Qed.

Lemma start_md : forall nw fs sn dn msgs,
  name = dest_name fs sn dn -> dest_writable fs name ->
  start_transaction h closure ck msize (Some (sn, dn)) msgs
    (mkDst c ST_IDLE DS_IDLE None 0 [] fresh_params (mkEnv nw fs false [])) =
  (RS [] 0 0 0 (mkEnv nw (set_node fs name (File [])) false
                  [EvMetadataRecv srcid seq srcid (Some msize) (Some (sn, dn)) msgs]), Ok tt).
Proof.
  intros nw fs sn dn msgs Hn Hw.
  unfold start_transaction, fresh_params, h. hrun. unfold common_first_packet_handler. hrun. rewrite Hrem.
  unfold handle_metadata_packet. hrun.
  erewrite bind_ok by (apply (init_vfs_run _ _ fs sn dn); [reflexivity | reflexivity | reflexivity | exact Hn | exact Hw]).
  hrun. reflexivity.
Qed.

Lemma check_md : forall fsz names msgs s, d_state s = ST_IDLE -> d_cfg s = c ->
  check_inserted_packet (PMetadata h closure ck fsz names msgs) s = (s, Ok tt).
Proof.
  intros fsz names msgs s Hst Hc. unfold check_inserted_packet. unfold bind at 1. unfold get at 1.
  cbn [pdu_hdr h h_dir h_dst h_src]. rewrite Hc, Hrem, Hst, !Z.eqb_refl. reflexivity.
Qed.

Lemma fsm_adv_nop : forall s, d_queue s = [] -> d_step s <> DS_SENDING_EOF_ACK -> fsm_advancement s = (s, Ok tt).
Proof.
  intros s H1 H2. unfold fsm_advancement. unfold bind, get. rewrite H1.
  apply Z.eqb_neq in H2. rewrite H2. reflexivity.
Qed.

Lemma md_call : forall dt fs sn dn msgs,
  name = dest_name fs sn dn -> dest_writable fs name ->
  call_d (dt, Some (PMetadata h closure ck msize (Some (sn, dn)) msgs)) (dst_fresh c fs) =
  (RS [] 0 0 0 (mkEnv (dt + 0) (set_node fs name (File [])) false
                  [EvMetadataRecv srcid seq srcid (Some msize) (Some (sn, dn)) msgs]), Ok []).
Proof.
  intros dt fs sn dn msgs Hn Hw. unfold call_d. cbn [fst snd].
  change (tick dt (dst_fresh c fs)) with (mkDst c ST_IDLE DS_IDLE None 0 [] fresh_params (mkEnv (dt + 0) fs false [])).
  assert (E : state_machine (Some (PMetadata h closure ck msize (Some (sn, dn)) msgs))
                (mkDst c ST_IDLE DS_IDLE None 0 [] fresh_params (mkEnv (dt + 0) fs false [])) =
              (RS [] 0 0 0 (mkEnv (dt + 0) (set_node fs name (File [])) false
                  [EvMetadataRecv srcid seq srcid (Some msize) (Some (sn, dn)) msgs]), Ok tt)).
  { unfold state_machine.
    rewrite (bind_ok _ _ _ _ _ _ _ (check_md _ _ _ (mkDst c ST_IDLE DS_IDLE None 0 [] fresh_params (mkEnv (dt + 0) fs false [])) eq_refl eq_refl)).
    unfold catch_abandoned. apply catch_ok. hrun. cbn [idle_fsm].
    erewrite bind_ok by (apply start_md; [exact Hn | exact Hw]).
    unfold RS, DST. hrun. rewrite nif_eq.
    erewrite bind_ok by (apply fsm_adv_nop; [reflexivity | discriminate]).
    hrun. cbn [recv_block]. hrun. apply tail_mid_skip. left. reflexivity. }
  rewrite E. reflexivity.
Qed.

Definition eof_log (lg : list event) : list event := if l_ind_eof_recv c then EvEofRecv srcid seq :: lg else lg.
Definition ack_eof : pdu := PAck hh D_EOF C_NO_ERROR TS_ACTIVE.
(* after the EOF call, its ACK retrieved *)
Definition ES (tr : tracker) (ls le prog : Z) (cks : bytes) (size : Z) (en : env) : dst :=
  DST DS_SENDING_EOF_ACK 0 [] fin0 prog cks (Some size) tr ls le false None 0 en.

Lemma eof_call : forall dt cks size fl tr ls le prog nw fs lg,
  prog <= size ->
  call_d (dt, Some (PEof h C_NO_ERROR cks size fl)) (RS tr ls le prog (mkEnv nw fs false lg)) =
  (ES (if prog <? size then add (prog, size) tr else tr) ls le prog cks size (mkEnv (dt + nw) fs false (eof_log lg)),
   Ok [ack_eof]).
Proof.
  intros dt cks size fl tr ls le prog nw fs lg Hle. unfold call_d. cbn [fst snd].
  change (tick dt (RS tr ls le prog (mkEnv nw fs false lg))) with (RS tr ls le prog (mkEnv (dt + nw) fs false lg)).
  rewrite sm_busy; [| apply check_eof; reflexivity | reflexivity | reflexivity | discriminate].
  assert (E : catch_abandoned
    (st <- get_step;;
     when ((st =? DS_RECEIVING_FILE_DATA) || (st =? DS_RECV_WITH_CHECK_LIMIT))
       (recv_block (Some (PEof h C_NO_ERROR cks size fl)));;;
     tail_mid 2 (Some (PEof h C_NO_ERROR cks size fl))) (RS tr ls le prog (mkEnv (dt + nw) fs false lg)) =
    (DST DS_SENDING_EOF_ACK (0 + 1) [ack_eof] fin0 prog cks (Some size) (if prog <? size then add (prog, size) tr else tr)
         ls le false None 0 (mkEnv (dt + nw) fs false (eof_log lg)), Ok tt)).
  { unfold catch_abandoned. apply catch_ok. unfold RS, DST, hh, eof_log, tid0. hrun. cbn [recv_block]. unfold handle_eof_pdu. hrun.
    assert (Eg : (size <? prog) = false) by (apply Z.ltb_ge; lia).
    destruct (l_ind_eof_recv c); hrun; [unfold tid_or_assert; hrun|]; unfold handle_no_error_eof; hrun; cbn [opt_z p_file_size_eof p_progress]; rewrite Eg;
      cbv iota; (destruct (prog <? size); cbn [andb]; cbv iota; [unfold tracker_add|]); hrun;
      unfold file_transfer_complete_transition; hrun; unfold prepare_eof_ack_packet, conf; hrun;
      apply tail_mid_skip; right; reflexivity. }
  rewrite E. reflexivity.
Qed.

(* the NAK PDUs of one issue of the deferred procedure, as the model builds them *)
Definition nak_list (hd : hdr) (eos maxn : Z) (mdm : bool) (tr : tracker) : list pdu :=
  let '(pre, acc0) :=
    if mdm then (if 1 =? maxn then ([PNak hd 0 eos [(0, 0)]], []) else ([], [(0, 0)]))
    else ([], []) in
  let '(ps, rest) := nak_split hd eos maxn acc0 tr in
  pre ++ ps ++ (match rest with [] => [] | _ => [PNak hd 0 eos rest] end).

Lemma enq_explicit : forall l cfg st step stid rd q p en,
  enq l (mkDst cfg st step stid rd q p en) = mkDst cfg st step stid (rd + zlen l) (q ++ l) p en.
Proof.
  induction l as [|x l IH]; intros.
  - cbn [enq]. rewrite app_nil_r. change (zlen (@nil pdu)) with 0. rewrite Z.add_0_r. reflexivity.
  - cbn [enq]. cbv beta iota delta [set d_queue d_ready d_cfg d_state d_step d_states_tid d_p d_env].
    rewrite IH. rewrite <- app_assoc. cbn [app].
    replace (zlen (x :: l)) with (1 + zlen l) by (unfold zlen; cbn [length]; lia).
    rewrite Z.add_assoc. reflexivity.
Qed.

(* waiting for missing data, NAK timer running *)
Definition WS (tr : tracker) (prog : Z) (cks : bytes) (size : Z) (pt : timer) (nakc : Z) (en : env) : dst :=
  DST DS_WAITING_FOR_MISSING_DATA 0 [] fin0 prog cks (Some size) tr size size true (Some pt) nakc en.

Lemma timer_fresh : forall nw, 0 < r_nak_ms r -> timed_out nw (nw, r_nak_ms r) = false.
Proof. intros nw H. unfold timed_out. cbn [fst snd]. apply Z.leb_gt. lia. Qed.

Lemma first_issue_call : forall dt tr ls le prog cks size nw fs lg maxn,
  tr <> [] -> coalesce tr <> [] -> 0 < r_nak_ms r -> max_seg_reqs (r_max_packet r) hh = Some maxn ->
  call_d (dt, None) (ES tr ls le prog cks size (mkEnv nw fs false lg)) =
  (WS (coalesce tr) prog cks size (dt + nw, r_nak_ms r) 0 (mkEnv (dt + nw) fs false lg),
   Ok (nak_list hh size maxn false (coalesce tr))).
Proof.
  intros dt tr ls le prog cks size nw fs lg maxn Htr Hc Hms Hmax. unfold call_d. cbn [fst snd].
  change (tick dt (ES tr ls le prog cks size (mkEnv nw fs false lg))) with (ES tr ls le prog cks size (mkEnv (dt + nw) fs false lg)).
  assert (Ez : (0 <? zlen tr) = true).
  { destruct tr; [contradiction|]. unfold zlen. cbn [length]. apply Z.ltb_lt. lia. }
  assert (Ezc : (zlen (coalesce tr) =? 0) = false).
  { destruct (coalesce tr); [contradiction|]. unfold zlen. cbn [length]. apply Z.eqb_neq. lia. }
  assert (E : state_machine None (ES tr ls le prog cks size (mkEnv (dt + nw) fs false lg)) =
    (DST DS_WAITING_FOR_MISSING_DATA (0 + zlen (nak_list hh size maxn false (coalesce tr)))
         ([] ++ nak_list hh size maxn false (coalesce tr)) fin0 prog cks (Some size) (coalesce tr) size size true
         (Some (dt + nw, r_nak_ms r)) 0 (mkEnv (dt + nw) fs false lg), Ok tt)).
  { unfold state_machine. rewrite bind_ret. unfold catch_abandoned. apply catch_ok.
    unfold ES, DST, hh, tid0. hrun. rewrite nif_eq. unfold fsm_advancement. hrun.
    prj. change (DISP_COMPLETED =? DISP_CANCELED) with false. rewrite Ez. cbn [negb andb orb]. 
    unfold start_deferred_lost_segment_handling. hrun. 
    unfold deferred_lost_segment_handling, rcfg_or_assert, now, conf. hrun. prj. rewrite Ezc. cbn [andb]. hrun.
    unfold hh in Hmax. rewrite Hmax. hrun. unfold nak_list, hh, set_dir. prj.
    destruct (nak_split _ size maxn [] (coalesce tr)) as [ps rest].
    match goal with |- context [fold_left _ ?all (ret tt)] => set (al := all) end.
    hstep.
    erewrite bind_ok by (apply fold_add_packet_run; reflexivity). rewrite enq_explicit. hrun.
    unfold tail_mid. hrun. unfold wmd_block. hrun.
    unfold deferred_lost_segment_handling, rcfg_or_assert, now, conf. hrun. prj. rewrite Ezc. cbn [andb]. hrun.
    rewrite (timer_fresh _ Hms). cbn [negb]. hrun.
    apply tail_fin_skip. right. right. reflexivity. }
  rewrite E. set (nl := nak_list hh size maxn false (coalesce tr)). unfold drain_d, WS, DST. prj.
  cbv beta iota delta [set d_cfg d_state d_step d_states_tid d_ready d_queue d_p d_env]. cbn [app].
  replace (0 + zlen nl - zlen nl) with 0 by lia.
  reflexivity.
Qed.

(* ---- what the NAK list requests *)
Lemma nak_list_spec : forall h0 eos maxn maxp mdm tr,
  max_seg_reqs maxp h0 = Some maxn -> 1 <= maxn ->
  flat_map nak_reqs (nak_list (set_dir TOWARDS_SENDER h0) eos maxn mdm tr) = (if mdm then [(0, 0)] else []) ++ tr /\
  Forall (nak_good (set_dir TOWARDS_SENDER h0) eos maxn maxp) (nak_list (set_dir TOWARDS_SENDER h0) eos maxn mdm tr).
Proof.
  intros h0 eos maxn maxp mdm tr Hm H1. unfold nak_list. set (hd := set_dir TOWARDS_SENDER h0).
  assert (Hsplit : exists pre acc0,
    (if mdm then (if 1 =? maxn then ([PNak hd 0 eos [(0, 0)]], []) else ([], [(0, 0)])) else ([], []))
      = (pre, acc0) /\ zlen acc0 < maxn /\
    flat_map nak_reqs pre ++ acc0 = (if mdm then [(0, 0)] else []) /\
    Forall (nak_good hd eos maxn maxp) pre).
  { destruct mdm.
    - destruct (1 =? maxn) eqn:E1.
      + apply Z.eqb_eq in E1. eexists; eexists. split; [reflexivity|]. rewrite zlen_nil.
        split; [lia|]. split; [reflexivity|]. constructor; [|constructor].
        apply nak_good_intro; [exact Hm | rewrite zlen_one; lia].
      + apply Z.eqb_neq in E1. eexists; eexists. split; [reflexivity|]. rewrite zlen_one.
        split; [lia|]. split; [reflexivity | constructor].
    - eexists; eexists. split; [reflexivity|]. rewrite zlen_nil. split; [lia|]. split; [reflexivity | constructor]. }
  destruct Hsplit as [pre [acc0 [Epre [Hacc [Hreq Hpre]]]]]. rewrite Epre.
  destruct (nak_split hd eos maxn acc0 tr) as [ps rest] eqn:Ens.
  destruct (nak_split_exact _ _ _ _ _ _ _ H1 Hacc Ens) as [S1 [S2 S3]].
  split.
  - rewrite !flat_map_app, rest_pdu_reqs, S1, app_assoc, Hreq. reflexivity.
  - apply Forall_app. split; [exact Hpre|]. apply Forall_app. split.
    + apply full_pdus_good; assumption.
    + apply rest_pdu_good; assumption.
Qed.

(* ---- the tracker after the EOF (no error) *)
Lemma tile_end : forall seg size fd, 0 < seg -> tile seg size fd -> 0 <= fst fd /\ fst fd + snd fd <= size.
Proof. intros seg size [off len] Hseg [k [Hk [Ho [Hl Hp]]]]. cbn [fst snd] in *. split; [nia | lia]. Qed.

Lemma extent_le_size : forall seg size hist, 0 < seg -> 0 <= size -> Forall (tile seg size) hist -> extent hist <= size.
Proof.
  intros seg size hist Hseg Hsz. induction hist as [|fd hist IH] using rev_ind; intros HF.
  - unfold extent. cbn. exact Hsz.
  - rewrite extent_app. apply Forall_app in HF. destruct HF as [H1 H2]. inversion H2; subst.
    pose proof (tile_end _ _ _ Hseg H3). specialize (IH H1). lia.
Qed.

Lemma eof_tracker : forall seg size hist s,
  Good seg size hist s -> extent hist <= size ->
  let tr1 := if extent hist <? size then add (extent hist, size) (p_tracker (d_p s)) else p_tracker (d_p s) in
  Inv tr1 /\ (forall x, den tr1 x <-> (0 <= x < size /\ ~ covered hist x)).
Proof.
  intros seg size hist s [GI GD GE GF GC GB GR] Hle. pose proof (extent_nonneg hist) as H0.
  destruct (extent hist <? size) eqn:E; cbv zeta.
  - apply Z.ltb_lt in E.
    destruct (add_spec (p_tracker (d_p s)) (extent hist) size GI E) as [AI AD].
    { intros x Hx Hd. apply GD in Hd. lia. }
    split; [exact AI|]. intros x. rewrite AD, GD. split.
    + intros [[H1 H2] | H]; [split; [lia | exact H2]|]. split; [lia|]. intros Hc. apply covered_lt_extent in Hc. lia.
    + intros [H1 H2]. destruct (Z_lt_dec x (extent hist)); [left; split; [lia | exact H2] | right; lia].
  - apply Z.ltb_ge in E. split; [exact GI|]. intros x. rewrite GD. replace (extent hist) with size by lia. tauto.
Qed.

Lemma den_nonempty : forall l x, den l x -> l <> [].
Proof. intros l x [a [b [Hin _]]] ->. destruct Hin. Qed.

Lemma invgap_bounds : forall l size, InvGap l -> (forall x, den l x -> 0 <= x < size) ->
  Forall (fun rq => 0 <= fst rq /\ fst rq < snd rq /\ snd rq <= size) l.
Proof.
  intros l size HG Hd. apply Forall_forall. intros [a b] Hin.
  destruct (Inv_WF _ (invgap_inv _ HG)) as [W _]. pose proof (W _ Hin) as Hab. cbn [fst snd] in *.
  assert (D1 : den l a) by (exists a, b; split; [exact Hin | lia]).
  assert (D2 : den l (b - 1)) by (exists a, b; split; [exact Hin | lia]).
  apply Hd in D1, D2. lia.
Qed.

Lemma calls_d_app : forall a b s s1 o1 s2 o2,
  calls_d a s = (s1, Ok o1) -> calls_d b s1 = (s2, Ok o2) -> calls_d (a ++ b) s = (s2, Ok (o1 ++ o2)).
Proof.
  induction a as [|x a IH]; intros b s s1 o1 s2 o2 H1 H2.
  - cbn [calls_d] in H1. injection H1 as <- <-. exact H2.
  - cbn [calls_d app] in *. destruct (call_d x s) as [sx [ox|e]]; [|discriminate].
    destruct (calls_d a sx) as [sy [oy|e]] eqn:Ea; [|discriminate]. injection H1 as <- <-.
    rewrite (IH b sx sy oy s2 o2 Ea H2). reflexivity.
Qed.

(* from the fresh handler to the state after the EOF (no error) call: Metadata, any history of tiles, EOF *)
Lemma upto_eof : forall seg size fs sn dn msgs fds cks fl t0 t1,
  name = dest_name fs sn dn -> dest_writable fs name ->
  0 < seg -> 0 <= size -> Forall (tile seg size) (map fd_len fds) ->
  exists tr1 ls le nw fs' lg old,
    calls_d ((t0, Some (PMetadata h closure ck msize (Some (sn, dn)) msgs)) :: map (fd_call h) fds ++
             [(t1, Some (PEof h C_NO_ERROR cks size fl))]) (dst_fresh c fs) =
      (ES tr1 ls le (extent (map fd_len fds)) cks size (mkEnv nw fs' false lg),
       Ok ([] :: gap_naks (r_imm_nak r) hh 0 (map fd_len fds) ++ [[ack_eof]])) /\
    Inv tr1 /\ (forall x, den tr1 x <-> (0 <= x < size /\ ~ covered (map fd_len fds) x)) /\
    lookup fs' name = Some (File old).
Proof.
  intros seg size fs sn dn msgs fds cks fl t0 t1 Hn Hw Hseg Hsz HF.
  pose proof (md_call t0 fs sn dn msgs Hn Hw) as Emd.
  set (env0 := mkEnv (t0 + 0) (set_node fs name (File [])) false
                 [EvMetadataRecv srcid seq srcid (Some msize) (Some (sn, dn)) msgs]) in *.
  assert (G0 : Good seg size [] (RS [] 0 0 (extent []) env0)).
  { apply good_init; [reflexivity | reflexivity | reflexivity | discriminate]. }
  assert (Hl0 : lookup (set_node fs name (File [])) name = Some (File [])).
  { rewrite lookup_set_node.
    - rewrite path_eqb_refl. reflexivity.
    - intros ->. destruct Hw as [[d Hd] | [Hd _]]; rewrite lookup_root in Hd; discriminate. }
  destruct (recv_run seg size fds [] [] 0 0 (t0 + 0) _ _ [] Hseg G0 Hl0 HF)
    as [tr [ls [le [nw [fs' [lg [old [Er [Gr Hlr]]]]]]]]].
  cbn [app] in Er, Gr.
  assert (Hext : extent (map fd_len fds) <= size) by (eapply extent_le_size; eassumption).
  pose proof (eof_call t1 cks size fl tr ls le (extent (map fd_len fds)) nw fs' lg Hext) as Ee.
  destruct (eof_tracker seg size _ _ Gr Hext) as [TI TD]. cbv zeta in TI, TD. cbn [RS DST d_p p_tracker] in TI, TD.
  eexists. exists ls, le, (t1 + nw), fs', (eof_log lg), old. split; [|split; [exact TI | split; [exact TD | exact Hlr]]].
  cbn [calls_d]. rewrite Emd. change (extent []) with 0 in Er.
  erewrite calls_d_app; [reflexivity | exact Er |]. cbn [calls_d]. rewrite Ee. reflexivity.
Qed.

Lemma first_issue_run : forall seg size maxn fs sn dn msgs fds cks fl t0 t1 t2,
  name = dest_name fs sn dn -> dest_writable fs name ->
  0 < r_nak_ms r -> max_seg_reqs (r_max_packet r) h = Some maxn -> 1 <= maxn ->
  0 < seg -> Forall (tile seg size) (map fd_len fds) ->
  (exists x, 0 <= x < size /\ ~ covered (map fd_len fds) x) ->
  exists trc nw fs' lg old,
    calls_d ((t0, Some (PMetadata h closure ck msize (Some (sn, dn)) msgs)) :: map (fd_call h) fds ++
             [(t1, Some (PEof h C_NO_ERROR cks size fl)); (t2, None)]) (dst_fresh c fs) =
      (WS trc (extent (map fd_len fds)) cks size (nw, r_nak_ms r) 0 (mkEnv nw fs' false lg),
       Ok ([] :: gap_naks (r_imm_nak r) hh 0 (map fd_len fds) ++ [[ack_eof]; nak_list hh size maxn false trc])) /\
    InvGap trc /\ (forall x, den trc x <-> (0 <= x < size /\ ~ covered (map fd_len fds) x)) /\
    lookup fs' name = Some (File old).
Proof.
  intros seg size maxn fs sn dn msgs fds cks fl t0 t1 t2 Hn Hw Hms Hmax H1 Hseg HF [x0 [Hx0 Hm0]].
  assert (Hsz : 0 <= size) by lia.
  destruct (upto_eof seg size fs sn dn msgs fds cks fl t0 t1 Hn Hw Hseg Hsz HF)
    as [tr1 [ls [le [nw [fs' [lg [old [E1 [TI [TD Hl]]]]]]]]]].
  destruct (coalesce_spec tr1 TI) as [CG CD].
  assert (D0 : den tr1 x0) by (apply TD; split; assumption).
  assert (Hne : tr1 <> []) by (eapply den_nonempty; exact D0).
  assert (Hnc : coalesce tr1 <> []) by (eapply den_nonempty; apply CD; exact D0).
  pose proof (first_issue_call t2 tr1 ls le (extent (map fd_len fds)) cks size nw fs' lg maxn Hne Hnc Hms Hmax) as E2.
  exists (coalesce tr1), (t2 + nw), fs', lg, old. split; [|split; [exact CG | split; [|exact Hl]]].
  - replace ((t0, Some (PMetadata h closure ck msize (Some (sn, dn)) msgs)) :: map (fd_call h) fds ++
             [(t1, Some (PEof h C_NO_ERROR cks size fl)); (t2, None)])
      with (((t0, Some (PMetadata h closure ck msize (Some (sn, dn)) msgs)) :: map (fd_call h) fds ++
             [(t1, Some (PEof h C_NO_ERROR cks size fl))]) ++ [(t2, None)])
      by (cbn [app]; rewrite <- app_assoc; reflexivity).
    erewrite calls_d_app; [| exact E1 | cbn [calls_d]; rewrite E2; reflexivity].
    cbn [app]. rewrite <- app_assoc. reflexivity.
  - intros x. rewrite CD. apply TD.
Qed.

(* ---- everything received: the poll after the EOF verifies the checksum and completes the transfer *)
Definition fin1 : fin := mkFin DATA_COMPLETE FS_RETAINED C_NO_ERROR None.
Definition fin_pdu : pdu := PFinished hh C_NO_ERROR DATA_COMPLETE FS_RETAINED None.
Definition fin_log (lg : list event) : list event :=
  if l_ind_fin c then EvFinished srcid seq C_NO_ERROR DATA_COMPLETE FS_RETAINED None :: lg else lg.
(* transfer completion reached with everything received and verified *)
Definition TC (ls le prog : Z) (cks : bytes) (size : Z) (dfr : bool) (pt : option timer) (nakc : Z) (en : env) : dst :=
  mkDst c ST_BUSY DS_TRANSFER_COMPLETION tid0 0 []
    (mkDP tid0 (Some r) None 0 closure ck fin1 DISP_COMPLETED hh
          prog cks (Some msize) name (Some size) false [] false ls le dfr pt nakc None 0) en.
(* waiting for the ACK of the Finished PDU *)
Definition FSQ (rd : Z) (q : list pdu) (ls le prog : Z) (cks : bytes) (size : Z) (dfr : bool) (pt : option timer) (nakc : Z)
               (at_ : timer) (en : env) : dst :=
  mkDst c ST_BUSY DS_WAITING_FOR_FINISHED_ACK tid0 rd q
    (mkDP tid0 (Some r) None 0 closure ck fin1 DISP_COMPLETED hh
          prog cks (Some msize) name (Some size) false [] false ls le dfr pt nakc (Some at_) 0) en.

Lemma ack_timer_fresh : forall nw, 0 < r_ack_ms r -> timed_out nw (nw, r_ack_ms r) = false.
Proof. intros nw H. unfold timed_out. cbn [fst snd]. apply Z.leb_gt. lia. Qed.

Lemma tail_fin_complete : forall k pkt ls le prog cks size dfr pt nakc nw fs lg,
  0 < r_ack_ms r ->
  (pkt = None \/ exists hd off data, pkt = Some (PFileData hd off data)) ->
  tail_fin k pkt (TC ls le prog cks size dfr pt nakc (mkEnv nw fs false lg)) =
  (FSQ (0 + 1) [fin_pdu] ls le prog cks size dfr pt nakc (nw, r_ack_ms r) (mkEnv nw fs false (fin_log lg)), Ok tt).
Proof.
  intros k pkt ls le prog cks size dfr pt nakc nw fs lg Hack Hp.
  unfold tail_fin, TC, FSQ, hh, tid0, fin_log, fin_pdu, fin1. hrun.
  unfold handle_transfer_completion, notice_of_completion. hrun.
  assert (Et : forall lg',
    (b <- step_is DS_SENDING_FINISHED;;
     when b (n <- gets d_ready;; (if 0 <? n then ret tt else prepare_finished_pdu;;; handle_finished_pdu_sent));;;
     b0 <- step_is DS_WAITING_FOR_FINISHED_ACK;; when b0 (handle_waiting_for_finished_ack (again k) pkt))
    (mkDst c ST_BUSY DS_SENDING_FINISHED (Some (srcid, seq)) 0 []
       (mkDP (Some (srcid, seq)) (Some r) None 0 closure ck (mkFin DATA_COMPLETE FS_RETAINED C_NO_ERROR None) DISP_COMPLETED
          (mkHdr TOWARDS_SENDER ACKED crc large srcid (l_id c) idw seq seqw)
          prog cks (Some msize) name (Some size) false [] false ls le dfr pt nakc None 0) (mkEnv nw fs false lg')) =
    (mkDst c ST_BUSY DS_WAITING_FOR_FINISHED_ACK (Some (srcid, seq)) (0 + 1)
       [PFinished (mkHdr TOWARDS_SENDER ACKED crc large srcid (l_id c) idw seq seqw) C_NO_ERROR DATA_COMPLETE FS_RETAINED None]
       (mkDP (Some (srcid, seq)) (Some r) None 0 closure ck (mkFin DATA_COMPLETE FS_RETAINED C_NO_ERROR None) DISP_COMPLETED
          (mkHdr TOWARDS_SENDER ACKED crc large srcid (l_id c) idw seq seqw)
          prog cks (Some msize) name (Some size) false [] false ls le dfr pt nakc (Some (nw, r_ack_ms r)) 0)
       (mkEnv nw fs false lg'), Ok tt)).
  { intros lg'. hrun. unfold prepare_finished_pdu, conf. hrun. unfold handle_finished_pdu_sent. hrun.
    unfold start_positive_ack_procedure, rcfg_or_assert, now. hrun.
    assert (Ew : handle_waiting_for_finished_ack (again k) pkt = handle_positive_ack_procedures (again k)).
    { destruct Hp as [-> | [hd [off [data ->]]]]; reflexivity. }
    rewrite Ew. unfold handle_positive_ack_procedures, rcfg_or_assert, now. hrun. prj.
    rewrite (ack_timer_fresh _ Hack). cbn [negb]. hrun. reflexivity. }
  destruct (l_ind_fin c); hrun; apply Et.
Qed.

Lemma tail_mid_complete : forall k pkt ls le prog cks size dfr pt nakc nw fs lg,
  0 < r_ack_ms r ->
  (pkt = None \/ exists hd off data, pkt = Some (PFileData hd off data)) ->
  tail_mid k pkt (TC ls le prog cks size dfr pt nakc (mkEnv nw fs false lg)) =
  (FSQ (0 + 1) [fin_pdu] ls le prog cks size dfr pt nakc (nw, r_ack_ms r) (mkEnv nw fs false (fin_log lg)), Ok tt).
Proof.
  intros. unfold tail_mid. unfold TC at 1. hrun. apply tail_fin_complete; assumption.
Qed.

Lemma complete_call : forall dt ls le cks size nw fs lg d,
  0 < r_ack_ms r -> lookup fs name = Some (File d) ->
  (ck = CK_NULL \/ calculate_checksum ck (Some d) size 4096 = Ok cks) ->
  call_d (dt, None) (ES [] ls le size cks size (mkEnv nw fs false lg)) =
  (FSQ 0 [] ls le size cks size false None 0 (dt + nw, r_ack_ms r) (mkEnv (dt + nw) fs false (fin_log lg)), Ok [fin_pdu]).
Proof.
  intros dt ls le cks size nw fs lg d Hack Hl Hck. unfold call_d. cbn [fst snd].
  change (tick dt (ES [] ls le size cks size (mkEnv nw fs false lg))) with (ES [] ls le size cks size (mkEnv (dt + nw) fs false lg)).
  assert (E : state_machine None (ES [] ls le size cks size (mkEnv (dt + nw) fs false lg)) =
    (FSQ (0 + 1) [fin_pdu] ls le size cks size false None 0 (dt + nw, r_ack_ms r) (mkEnv (dt + nw) fs false (fin_log lg)), Ok tt)).
  { unfold state_machine. rewrite bind_ret. unfold catch_abandoned. apply catch_ok.
    unfold ES, DST, hh, tid0, fin0. hrun. rewrite nif_eq. unfold fsm_advancement. hrun.
    unfold checksum_verify. hrun. prj. rewrite orb_false_r.
    assert (Ebe : bytes_eqb cks cks = true) by (apply bytes_eqb_eq; reflexivity).
    destruct (ck =? CK_NULL) eqn:Eck;
      [| destruct Hck as [Hck | Hck]; [rewrite Hck in Eck; discriminate Eck|];
         unfold vfs_checksum; hrun; rewrite Eck; cbv iota; rewrite Hl; cbv iota; rewrite Hck; cbv iota; hrun; prj;
         rewrite Ebe, Z.leb_refl; cbn [andb]]; hrun;
      apply (tail_mid_complete 2 None ls le size cks size false None 0 (dt + nw) fs lg Hack (or_introl eq_refl)). }
  rewrite E. reflexivity.
Qed.

Lemma inv_no_den_nil : forall l, Inv l -> (forall x, ~ den l x) -> l = [].
Proof.
  intros [|[a b] t] HI Hn; [reflexivity|]. exfalso.
  destruct (Inv_WF _ HI) as [W _]. pose proof (W (a, b) (or_introl eq_refl)) as Hab. cbn [fst snd] in Hab.
  apply (Hn a). exists a, b. split; [left; reflexivity | lia].
Qed.

Lemma covered_all_extent : forall seg size hist, 0 < seg -> 0 <= size -> Forall (tile seg size) hist ->
  (forall x, 0 <= x < size -> covered hist x) -> extent hist = size.
Proof.
  intros seg size hist Hseg Hsz HF Hall. pose proof (extent_le_size seg size hist Hseg Hsz HF) as H1.
  pose proof (extent_nonneg hist) as H0.
  destruct (Z.eq_dec size 0) as [-> | Hne]; [lia|].
  assert (Hc : covered hist (size - 1)) by (apply Hall; lia). apply covered_lt_extent in Hc. lia.
Qed.

Lemma all_covered_run : forall seg size fs sn dn msgs fds cks fl t0 t1,
  name = dest_name fs sn dn -> dest_writable fs name ->
  0 < seg -> 0 <= size -> Forall (tile seg size) (map fd_len fds) ->
  (forall x, 0 <= x < size -> covered (map fd_len fds) x) ->
  exists ls le nw fs' lg d,
    calls_d ((t0, Some (PMetadata h closure ck msize (Some (sn, dn)) msgs)) :: map (fd_call h) fds ++
             [(t1, Some (PEof h C_NO_ERROR cks size fl))]) (dst_fresh c fs) =
      (ES [] ls le size cks size (mkEnv nw fs' false lg),
       Ok ([] :: gap_naks (r_imm_nak r) hh 0 (map fd_len fds) ++ [[ack_eof]])) /\
    lookup fs' name = Some (File d).
Proof.
  intros seg size fs sn dn msgs fds cks fl t0 t1 Hn Hw Hseg Hsz HF Hall.
  destruct (upto_eof seg size fs sn dn msgs fds cks fl t0 t1 Hn Hw Hseg Hsz HF)
    as [tr1 [ls [le [nw [fs' [lg [old [E1 [TI [TD Hl]]]]]]]]]].
  assert (Etr : tr1 = []).
  { apply inv_no_den_nil; [exact TI|]. intros x Hd. apply TD in Hd. destruct Hd as [Hx Hc]. apply Hc, Hall, Hx. }
  rewrite (covered_all_extent seg size _ Hseg Hsz HF Hall) in E1. subst tr1.
  exists ls, le, nw, fs', lg, old. split; [exact E1 | exact Hl].
Qed.

(* ---- the EOF (no error) arrives before the Metadata *)
Definition trk0 (size : Z) : tracker := if 0 <? size then [(0, size)] else [].
Definition MP (step : Z) (size : Z) (cks : bytes) (dfr : bool) (pt : option timer) : dparams :=
  mkDP tid0 (Some r) None 0 false CK_NULL (mkFin DATA_INCOMPLETE FS_UNREPORTED C_NO_ERROR None) DISP_COMPLETED hh
       size cks None [] (Some size) false (trk0 size) true (if dfr then size else 0) (if dfr then size else 0) dfr pt 0 None 0.

Lemma check_eof_idle : forall cond cks sz fl s, d_state s = ST_IDLE -> d_cfg s = c ->
  check_inserted_packet (PEof h cond cks sz fl) s = (s, Ok tt).
Proof.
  intros cond cks sz fl s Hst Hc. unfold check_inserted_packet. unfold bind at 1. unfold get at 1.
  cbn [pdu_hdr h h_dir h_dst h_src]. rewrite Hc, Hrem, Hst, !Z.eqb_refl. reflexivity.
Qed.

Lemma eof_first_call : forall dt cks size fl fs,
  call_d (dt, Some (PEof h C_NO_ERROR cks size fl)) (dst_fresh c fs) =
  (mkDst c ST_BUSY DS_SENDING_EOF_ACK tid0 0 [] (MP DS_SENDING_EOF_ACK size cks false None)
         (mkEnv (dt + 0) fs false (eof_log [])), Ok [ack_eof]).
Proof.
  intros dt cks size fl fs. unfold call_d. cbn [fst snd].
  change (tick dt (dst_fresh c fs)) with (mkDst c ST_IDLE DS_IDLE None 0 [] fresh_params (mkEnv (dt + 0) fs false [])).
  assert (E : state_machine (Some (PEof h C_NO_ERROR cks size fl))
                (mkDst c ST_IDLE DS_IDLE None 0 [] fresh_params (mkEnv (dt + 0) fs false [])) =
    (mkDst c ST_BUSY DS_SENDING_EOF_ACK tid0 (0 + 1) [ack_eof] (MP DS_SENDING_EOF_ACK size cks false None)
         (mkEnv (dt + 0) fs false (eof_log [])), Ok tt)).
  { unfold state_machine.
    rewrite (bind_ok _ _ _ _ _ _ _ (check_eof_idle _ _ _ _ (mkDst c ST_IDLE DS_IDLE None 0 [] fresh_params (mkEnv (dt + 0) fs false [])) eq_refl eq_refl)).
    unfold catch_abandoned. apply catch_ok. unfold MP, trk0, hh, tid0, eof_log, ack_eof, fresh_params, h. hrun. cbn [idle_fsm].
    unfold common_first_packet_not_metadata, fresh_params. hrun. unfold common_first_packet_handler. hrun. rewrite Hrem.
    unfold handle_eof_without_previous_metadata. hrun.
    destruct (0 <? size); hrun; destruct (l_ind_eof_recv c); hrun; unfold tid_or_assert, prepare_eof_ack_packet, conf; hrun;
      reflexivity. }
  rewrite E. reflexivity.
Qed.

Lemma tail_fin_skip2 : forall k pkt s, d_step s = DS_WAITING_FOR_METADATA -> tail_fin k pkt s = (s, Ok tt).
Proof.
  intros k pkt s H. unfold tail_fin. rewrite !step_is_eq.
  rewrite H; cbn; rewrite ?step_is_eq, H; cbn; rewrite ?step_is_eq, H; reflexivity.
Qed.

Lemma md_missing_issue_call : forall dt cks size nw fs lg maxn,
  0 < r_nak_ms r -> max_seg_reqs (r_max_packet r) hh = Some maxn ->
  call_d (dt, None) (mkDst c ST_BUSY DS_SENDING_EOF_ACK tid0 0 [] (MP DS_SENDING_EOF_ACK size cks false None)
                           (mkEnv nw fs false lg)) =
  (mkDst c ST_BUSY DS_WAITING_FOR_METADATA tid0 0 [] (MP DS_WAITING_FOR_METADATA size cks true (Some (dt + nw, r_nak_ms r)))
         (mkEnv (dt + nw) fs false lg),
   Ok (nak_list hh size maxn true (trk0 size))).
Proof.
  intros dt cks size nw fs lg maxn Hms Hmax. unfold call_d. cbn [fst snd].
  change (tick dt ?s) with (mkDst c ST_BUSY DS_SENDING_EOF_ACK tid0 0 [] (MP DS_SENDING_EOF_ACK size cks false None)
                           (mkEnv (dt + nw) fs false lg)).
  set (nl := nak_list hh size maxn true (trk0 size)).
  assert (E : state_machine None (mkDst c ST_BUSY DS_SENDING_EOF_ACK tid0 0 [] (MP DS_SENDING_EOF_ACK size cks false None)
                           (mkEnv (dt + nw) fs false lg)) =
    (mkDst c ST_BUSY DS_WAITING_FOR_METADATA tid0 (0 + zlen nl) ([] ++ nl)
         (MP DS_WAITING_FOR_METADATA size cks true (Some (dt + nw, r_nak_ms r))) (mkEnv (dt + nw) fs false lg), Ok tt)).
  { unfold state_machine. rewrite bind_ret. unfold catch_abandoned. apply catch_ok.
    unfold MP, hh, tid0. hrun. rewrite nif_eq. unfold fsm_advancement. hrun.
    prj. change (DISP_COMPLETED =? DISP_CANCELED) with false. rewrite orb_true_r. cbn [negb andb].
    unfold start_deferred_lost_segment_handling. hrun.
    assert (Ect : coalesce (trk0 size) = trk0 size) by (unfold trk0; destruct (0 <? size); reflexivity).
    rewrite Ect. cbn [opt_z].
    unfold deferred_lost_segment_handling, rcfg_or_assert, now, conf. hrun. prj. rewrite andb_false_r. hrun.
    unfold hh in Hmax. rewrite Hmax. hrun. unfold nl, nak_list, hh, set_dir. prj.
    destruct (1 =? maxn);
    (destruct (nak_split _ size maxn _ (trk0 size)) as [ps rest];
     match goal with |- context [fold_left _ ?all (ret tt)] => set (al := all) end;
     hstep;
     erewrite bind_ok by (apply fold_add_packet_run; reflexivity); rewrite enq_explicit; hrun;
     unfold tail_mid; hrun; cbn [handle_waiting_for_missing_metadata]; hrun;
     unfold deferred_lost_segment_handling, rcfg_or_assert, now, conf; hrun; prj; rewrite andb_false_r; hrun;
     rewrite (timer_fresh _ Hms); cbn [negb]; hrun;
     apply tail_fin_skip2; reflexivity). }
  rewrite E. unfold drain_d. prj.
  cbv beta iota delta [set d_cfg d_state d_step d_states_tid d_ready d_queue d_p d_env]. cbn [app].
  replace (0 + zlen nl - zlen nl) with 0 by lia.
  reflexivity.
Qed.

Lemma nak_list_md_missing : forall hd size maxn, 1 <= maxn ->
  nak_list hd size maxn true (trk0 size) = md_naks hd size maxn.
Proof.
  intros hd size maxn H1. unfold nak_list, md_naks, trk0.
  destruct (0 <? size); destruct (1 =? maxn) eqn:E1.
  - apply Z.eqb_eq in E1. subst maxn. reflexivity.
  - cbn [nak_split app]. change (zlen [(0, 0); (0, size)]) with 2. destruct (2 =? maxn); reflexivity.
  - reflexivity.
  - reflexivity.
Qed.

Lemma md_missing_run : forall cks size fl fs maxn t0 t1,
  0 < r_nak_ms r -> max_seg_reqs (r_max_packet r) h = Some maxn -> 1 <= maxn ->
  calls_d [(t0, Some (PEof h C_NO_ERROR cks size fl)); (t1, None)] (dst_fresh c fs) =
  (mkDst c ST_BUSY DS_WAITING_FOR_METADATA tid0 0 []
         (MP DS_WAITING_FOR_METADATA size cks true (Some (t1 + (t0 + 0), r_nak_ms r)))
         (mkEnv (t1 + (t0 + 0)) fs false (eof_log [])),
   Ok [[ack_eof]; md_naks hh size maxn]).
Proof.
  intros cks size fl fs maxn t0 t1 Hms Hmax H1. cbn [calls_d]. rewrite eof_first_call.
  rewrite (md_missing_issue_call t1 cks size (t0 + 0) fs (eof_log []) maxn Hms Hmax).
  rewrite nak_list_md_missing by exact H1. reflexivity.
Qed.

(* ---- retransmitted File Data while waiting for missing data *)
Lemma fd_call_wait : forall dt off data tr prog cks size T nakc nw fs lg old S1,
  lost_segment_handling off (zlen data)
    (WS tr prog cks size (T, r_nak_ms r) nakc (mkEnv (dt + nw) fs false (seg_log off (zlen data) lg))) = (S1, Ok tt) ->
  p_last_start (d_p S1) = size -> p_last_end (d_p S1) = size -> p_tracker (d_p S1) <> [] ->
  lookup fs name = Some (File old) -> off + zlen data <= size -> off < size -> 0 < r_nak_ms r ->
  call_d (dt, Some (PFileData h off data)) (WS tr prog cks size (T, r_nak_ms r) nakc (mkEnv nw fs false lg)) =
  (WS (p_tracker (d_p S1)) (Z.max (off + zlen data) prog) cks size (dt + nw, r_nak_ms r) 0
      (mkEnv (dt + nw) (set_node fs name (File (write_at old off data))) false (seg_log off (zlen data) lg)), Ok []).
Proof.
  intros dt off data tr prog cks size T nakc nw fs lg old S1 H Hls Hle Hne Hl Hend Hoff Hms. unfold call_d. cbn [fst snd].
  change (tick dt (WS tr prog cks size (T, r_nak_ms r) nakc (mkEnv nw fs false lg)))
    with (WS tr prog cks size (T, r_nak_ms r) nakc (mkEnv (dt + nw) fs false lg)).
  rewrite sm_busy; [| apply check_fd; reflexivity | reflexivity | reflexivity | discriminate].
  assert (Eg : gap_nak (r_imm_nak r) hh size off (zlen data) = []).
  { unfold gap_nak. replace (size <? off) with false by (symmetry; apply Z.ltb_ge; lia). rewrite andb_false_r. reflexivity. }
  assert (Ezc : (zlen (p_tracker (d_p S1)) =? 0) = false).
  { destruct (p_tracker (d_p S1)); [contradiction|]. unfold zlen. cbn [length]. apply Z.eqb_neq. lia. }
  pose proof (hfd_ok DS_WAITING_FOR_MISSING_DATA 0 [] prog cks (Some size) tr size size true (Some (T, r_nak_ms r)) nakc
                     (dt + nw) fs lg off data old S1 H Hl Hend) as Eh.
  rewrite Eg, Hls, Hle in Eh. rewrite app_nil_r in Eh. change (zlen (@nil pdu)) with 0 in Eh. rewrite Z.add_0_r in Eh.
  set (tr' := p_tracker (d_p S1)) in *. clearbody tr'. clear H Hls Hle.
  assert (E : catch_abandoned
       (st <- get_step;;
        when ((st =? DS_RECEIVING_FILE_DATA) || (st =? DS_RECV_WITH_CHECK_LIMIT)) (recv_block (Some (PFileData h off data)));;;
        tail_mid 2 (Some (PFileData h off data)))
       (WS tr prog cks size (T, r_nak_ms r) nakc (mkEnv (dt + nw) fs false lg)) =
    (WS tr' (Z.max (off + zlen data) prog) cks size (dt + nw, r_nak_ms r) 0
      (mkEnv (dt + nw) (set_node fs name (File (write_at old off data))) false (seg_log off (zlen data) lg)), Ok tt)).
  { unfold catch_abandoned. apply catch_ok. unfold WS at 1. unfold DST at 1. hrun.
    unfold tail_mid. hrun. unfold wmd_block. hrun.
    fold (DST DS_WAITING_FOR_MISSING_DATA 0 [] fin0 prog cks (Some size) tr size size true (Some (T, r_nak_ms r)) nakc
              (mkEnv (dt + nw) fs false lg)).
    rewrite (bind_ok _ _ _ _ _ _ _ Eh). unfold DST at 1. hrun. unfold reset_nak_activity_parameters, now. hrun.
    unfold deferred_lost_segment_handling, rcfg_or_assert, now, conf. hrun. prj. rewrite Ezc. cbn [andb]. hrun.
    rewrite (timer_fresh _ Hms). cbn [negb]. hrun.
    apply tail_fin_skip. right. right. reflexivity. }
  rewrite E. reflexivity.
Qed.


Definition Missing (size : Z) (hist : list (Z * Z)) (tr : tracker) : Prop :=
  Inv tr /\ (forall x, den tr x <-> (0 <= x < size /\ ~ covered hist x)).

Lemma covered_app_l : forall a b x, covered a x -> covered (a ++ b) x.
Proof. intros a b x [fd [Hin Hx]]. exists fd. split; [apply in_or_app; left; exact Hin | exact Hx]. Qed.

Lemma wait_run : forall seg size cks fds2 hist tr nw fs lg old,
  0 < seg -> 0 < r_nak_ms r ->
  Missing size hist tr -> lookup fs name = Some (File old) -> Forall (tile seg size) (map fd_len fds2) ->
  (exists x, 0 <= x < size /\ ~ covered (hist ++ map fd_len fds2) x) ->
  exists tr' nw' fs' lg' old',
    calls_d (map (fd_call h) fds2) (WS tr (extent hist) cks size (nw, r_nak_ms r) 0 (mkEnv nw fs false lg)) =
      (WS tr' (extent (hist ++ map fd_len fds2)) cks size (nw', r_nak_ms r) 0 (mkEnv nw' fs' false lg'),
       Ok (map (fun _ => []) fds2)) /\
    Missing size (hist ++ map fd_len fds2) tr' /\ lookup fs' name = Some (File old').
Proof.
  intros seg size cks fds2. induction fds2 as [|[dt [off data]] t IH]; intros hist tr nw fs lg old Hseg Hms HM Hl HF Hex.
  - exists tr, nw, fs, lg, old. cbn [map calls_d]. rewrite app_nil_r. split; [reflexivity | split; assumption].
  - cbn [map] in HF. inversion HF as [|? ? Hfd Ht]; subst. unfold fd_len in Hfd at 1. cbn [fst snd] in Hfd.
    destruct (tile_end seg size _ Hseg Hfd) as [Hoff0 Hend]. cbn [fst snd] in Hoff0, Hend.
    assert (Hlen : 0 < zlen data) by (destruct Hfd as [k [_ [_ [_ Hp]]]]; exact Hp).
    destruct HM as [TI TD].
    set (S0 := WS tr (extent hist) cks size (nw, r_nak_ms r) 0 (mkEnv (dt + nw) fs false (seg_log off (zlen data) lg))).
    destruct (st_below S0 off (zlen data) Hlen TI) as [S1 [E1 [I1 [D1 [Hls [Hle _]]]]]];
      [cbn; lia | cbn; lia |].
    cbn [S0 WS DST d_p p_last_start p_last_end p_tracker] in Hls, Hle, D1.
    assert (HM1 : Missing size (hist ++ [(off, zlen data)]) (p_tracker (d_p S1))).
    { split; [exact I1|]. intros x. rewrite D1, TD, covered_app. cbn [fst snd]. tauto. }
    assert (Hex1 : exists x, 0 <= x < size /\ ~ covered ((hist ++ [(off, zlen data)]) ++ map fd_len t) x).
    { rewrite <- app_assoc. exact Hex. }
    assert (Hne : p_tracker (d_p S1) <> []).
    { destruct Hex1 as [x [Hx Hc]]. apply (den_nonempty _ x). apply (proj2 HM1). split; [exact Hx|].
      intros Hc'. apply Hc. apply covered_app_l. exact Hc'. }
    pose proof (fd_call_wait dt off data tr (extent hist) cks size nw 0 nw fs lg old S1 E1 Hls Hle Hne Hl Hend ltac:(lia) Hms) as Ec.
    assert (Eext : Z.max (off + zlen data) (extent hist) = extent (hist ++ [(off, zlen data)])).
    { rewrite extent_app. cbn [fst snd]. apply Z.max_comm. }
    rewrite Eext in Ec.
    destruct (IH (hist ++ [(off, zlen data)]) (p_tracker (d_p S1)) (dt + nw)
                 (set_node fs name (File (write_at old off data))) (seg_log off (zlen data) lg) (write_at old off data)
                 Hseg Hms HM1 (lookup_written fs _ old Hl) Ht Hex1)
      as [tr' [nw' [fs' [lg' [old' [Er [Mr Hlr]]]]]]].
    exists tr', nw', fs', lg', old'.
    assert (Eh : (hist ++ [(off, zlen data)]) ++ map fd_len t = hist ++ map fd_len ((dt, (off, data)) :: t)).
    { rewrite <- app_assoc. reflexivity. }
    rewrite Eh in Er, Mr. split; [|split; assumption].
    cbn [map calls_d]. change (fd_call h (dt, (off, data))) with (dt, Some (PFileData h off data)).
    rewrite Ec. cbv beta iota. rewrite Er. reflexivity.
Qed.

Lemma timer_expired : forall nw dt, r_nak_ms r <= dt -> timed_out (dt + nw) (nw, r_nak_ms r) = true.
Proof. intros nw dt H. unfold timed_out. cbn [fst snd]. apply Z.leb_le. lia. Qed.

Lemma reissue_call : forall dt tr prog cks size nw fs lg maxn,
  tr <> [] -> r_nak_ms r <= dt -> r_nak_limit r <> 1 -> max_seg_reqs (r_max_packet r) hh = Some maxn ->
  call_d (dt, None) (WS tr prog cks size (nw, r_nak_ms r) 0 (mkEnv nw fs false lg)) =
  (WS tr prog cks size (dt + nw, r_nak_ms r) (0 + 1) (mkEnv (dt + nw) fs false lg),
   Ok (nak_list hh size maxn false tr)).
Proof.
  intros dt tr prog cks size nw fs lg maxn Htr Hdt Hlim Hmax. unfold call_d. cbn [fst snd].
  change (tick dt (WS tr prog cks size (nw, r_nak_ms r) 0 (mkEnv nw fs false lg)))
    with (WS tr prog cks size (nw, r_nak_ms r) 0 (mkEnv (dt + nw) fs false lg)).
  assert (Ezc : (zlen tr =? 0) = false).
  { destruct tr; [contradiction|]. unfold zlen. cbn [length]. apply Z.eqb_neq. lia. }
  assert (Elim : (0 + 1 =? r_nak_limit r) = false) by (apply Z.eqb_neq; lia).
  set (nl := nak_list hh size maxn false tr).
  assert (E : state_machine None (WS tr prog cks size (nw, r_nak_ms r) 0 (mkEnv (dt + nw) fs false lg)) =
    (DST DS_WAITING_FOR_MISSING_DATA (0 + zlen nl) ([] ++ nl) fin0 prog cks (Some size) tr size size true
         (Some (dt + nw, r_nak_ms r)) (0 + 1) (mkEnv (dt + nw) fs false lg), Ok tt)).
  { rewrite sm_busy; [| exact I | reflexivity | reflexivity | discriminate].
    unfold catch_abandoned. apply catch_ok. unfold WS, DST, hh, tid0. hrun.
    unfold tail_mid. hrun. unfold wmd_block. hrun.
    unfold deferred_lost_segment_handling, rcfg_or_assert, now, conf. hrun. prj. rewrite Ezc. cbn [andb]. hrun.
    rewrite (timer_expired _ _ Hdt). cbn [negb]. hrun. prj. rewrite Elim. hrun.
    unfold hh in Hmax. rewrite Hmax. hrun. unfold nl, nak_list, hh, set_dir. prj.
    destruct (nak_split _ size maxn [] tr) as [ps rest].
    match goal with |- context [fold_left _ ?all (ret tt)] => set (al := all) end.
    hstep.
    erewrite bind_ok by (apply fold_add_packet_run; reflexivity). rewrite enq_explicit. hrun.
    apply tail_fin_skip. right. right. reflexivity. }
  rewrite E. unfold drain_d, WS, DST. prj.
  cbv beta iota delta [set d_cfg d_state d_step d_states_tid d_ready d_queue d_p d_env]. cbn [app].
  replace (0 + zlen nl - zlen nl) with 0 by lia.
  reflexivity.
Qed.

Lemma reissue_run : forall seg size maxn fs sn dn msgs fds fds2 cks fl t0 t1 t2 t3,
  name = dest_name fs sn dn -> dest_writable fs name ->
  0 < r_nak_ms r -> r_nak_ms r <= t3 -> r_nak_limit r <> 1 ->
  max_seg_reqs (r_max_packet r) h = Some maxn -> 1 <= maxn ->
  0 < seg -> Forall (tile seg size) (map fd_len fds) -> Forall (tile seg size) (map fd_len fds2) ->
  (exists x, 0 <= x < size /\ ~ covered (map fd_len fds ++ map fd_len fds2) x) ->
  exists trc tr2 nw fs' lg,
    calls_d (((t0, Some (PMetadata h closure ck msize (Some (sn, dn)) msgs)) :: map (fd_call h) fds ++
              [(t1, Some (PEof h C_NO_ERROR cks size fl)); (t2, None)]) ++
             map (fd_call h) fds2 ++ [(t3, None)]) (dst_fresh c fs) =
      (WS tr2 (extent (map fd_len fds ++ map fd_len fds2)) cks size (nw, r_nak_ms r) (0 + 1) (mkEnv nw fs' false lg),
       Ok (([] :: gap_naks (r_imm_nak r) hh 0 (map fd_len fds) ++ [[ack_eof]; nak_list hh size maxn false trc]) ++
           map (fun _ => []) fds2 ++ [nak_list hh size maxn false tr2])) /\
    Missing size (map fd_len fds) trc /\ Missing size (map fd_len fds ++ map fd_len fds2) tr2.
Proof.
  intros seg size maxn fs sn dn msgs fds fds2 cks fl t0 t1 t2 t3 Hn Hw Hms Ht3 Hlim Hmax H1 Hseg HF HF2 Hex.
  assert (Hex1 : exists x, 0 <= x < size /\ ~ covered (map fd_len fds) x).
  { destruct Hex as [x [Hx Hc]]. exists x. split; [exact Hx|]. intros Hc'. apply Hc, covered_app_l, Hc'. }
  destruct (first_issue_run seg size maxn fs sn dn msgs fds cks fl t0 t1 t2 Hn Hw Hms Hmax H1 Hseg HF Hex1)
    as [trc [nw [fs1 [lg1 [old1 [E1 [CG [CD Hl1]]]]]]]].
  assert (M1 : Missing size (map fd_len fds) trc) by (split; [apply invgap_inv; exact CG | exact CD]).
  destruct (wait_run seg size cks fds2 (map fd_len fds) trc nw fs1 lg1 old1 Hseg Hms M1 Hl1 HF2 Hex)
    as [tr2 [nw2 [fs2 [lg2 [old2 [E2 [M2 Hl2]]]]]]].
  assert (Hne : tr2 <> []).
  { destruct Hex as [x [Hx Hc]]. apply (den_nonempty _ x). apply (proj2 M2). split; assumption. }
  pose proof (reissue_call t3 tr2 (extent (map fd_len fds ++ map fd_len fds2)) cks size nw2 fs2 lg2 maxn Hne Ht3 Hlim Hmax) as E3.
  exists trc, tr2, (t3 + nw2), fs2, lg2. split; [|split; assumption].
  erewrite calls_d_app; [reflexivity | exact E1 |].
  erewrite calls_d_app; [reflexivity | exact E2 |]. cbn [calls_d]. rewrite E3. reflexivity.
Qed.

(* ---- the retransmission that fills the last gap: checksum verification and completion in that same call *)
Lemma fd_call_wait_complete : forall dt off data tr prog cks size T nakc nw fs lg old S1,
  lost_segment_handling off (zlen data)
    (WS tr prog cks size (T, r_nak_ms r) nakc (mkEnv (dt + nw) fs false (seg_log off (zlen data) lg))) = (S1, Ok tt) ->
  p_last_start (d_p S1) = size -> p_last_end (d_p S1) = size -> p_tracker (d_p S1) = [] ->
  lookup fs name = Some (File old) -> off + zlen data <= size -> off < size -> Z.max (off + zlen data) prog = size ->
  0 < r_ack_ms r ->
  (ck = CK_NULL \/ calculate_checksum ck (Some (write_at old off data)) size 4096 = Ok cks) ->
  call_d (dt, Some (PFileData h off data)) (WS tr prog cks size (T, r_nak_ms r) nakc (mkEnv nw fs false lg)) =
  (FSQ 0 [] size size size cks size false (Some (dt + nw, r_nak_ms r)) 0 (dt + nw, r_ack_ms r)
       (mkEnv (dt + nw) (set_node fs name (File (write_at old off data))) false (fin_log (seg_log off (zlen data) lg))),
   Ok [fin_pdu]).
Proof.
  intros dt off data tr prog cks size T nakc nw fs lg old S1 H Hls Hle Hnil Hl Hend Hoff Hprog Hack Hck.
  unfold call_d. cbn [fst snd].
  change (tick dt (WS tr prog cks size (T, r_nak_ms r) nakc (mkEnv nw fs false lg)))
    with (WS tr prog cks size (T, r_nak_ms r) nakc (mkEnv (dt + nw) fs false lg)).
  rewrite sm_busy; [| apply check_fd; reflexivity | reflexivity | reflexivity | discriminate].
  assert (Eg : gap_nak (r_imm_nak r) hh size off (zlen data) = []).
  { unfold gap_nak. replace (size <? off) with false by (symmetry; apply Z.ltb_ge; lia). rewrite andb_false_r. reflexivity. }
  pose proof (hfd_ok DS_WAITING_FOR_MISSING_DATA 0 [] prog cks (Some size) tr size size true (Some (T, r_nak_ms r)) nakc
                     (dt + nw) fs lg off data old S1 H Hl Hend) as Eh.
  rewrite Eg, Hls, Hle, Hnil, Hprog in Eh. rewrite app_nil_r in Eh. change (zlen (@nil pdu)) with 0 in Eh. rewrite Z.add_0_r in Eh.
  clear H Hls Hle Hnil.
  set (fs' := set_node fs name (File (write_at old off data))) in *.
  assert (Hl' : lookup fs' name = Some (File (write_at old off data))) by (apply (lookup_written fs _ old Hl)).
  clearbody fs'.
  assert (E : catch_abandoned
       (st <- get_step;;
        when ((st =? DS_RECEIVING_FILE_DATA) || (st =? DS_RECV_WITH_CHECK_LIMIT)) (recv_block (Some (PFileData h off data)));;;
        tail_mid 2 (Some (PFileData h off data)))
       (WS tr prog cks size (T, r_nak_ms r) nakc (mkEnv (dt + nw) fs false lg)) =
    (FSQ (0 + 1) [fin_pdu] size size size cks size false (Some (dt + nw, r_nak_ms r)) 0 (dt + nw, r_ack_ms r)
       (mkEnv (dt + nw) fs' false (fin_log (seg_log off (zlen data) lg))), Ok tt)).
  { unfold catch_abandoned. apply catch_ok. unfold WS at 1. unfold DST at 1. hrun.
    unfold tail_mid. hrun. unfold wmd_block. hrun.
    fold (DST DS_WAITING_FOR_MISSING_DATA 0 [] fin0 prog cks (Some size) tr size size true (Some (T, r_nak_ms r)) nakc
              (mkEnv (dt + nw) fs false lg)).
    rewrite (bind_ok _ _ _ _ _ _ _ Eh). unfold DST at 1. hrun. unfold reset_nak_activity_parameters, now. hrun.
    unfold deferred_lost_segment_handling, rcfg_or_assert, now, conf. hrun.
    unfold checksum_verify. hrun. prj. rewrite orb_false_r.
    assert (Ebe : bytes_eqb cks cks = true) by (apply bytes_eqb_eq; reflexivity).
    unfold fin0, hh, tid0.
    destruct (ck =? CK_NULL) eqn:Eck;
      [| destruct Hck as [Hck | Hck]; [rewrite Hck in Eck; discriminate Eck|];
         unfold vfs_checksum; hrun; rewrite Eck; cbv iota; rewrite Hl'; cbv iota; rewrite Hck; cbv iota; hrun; prj;
         rewrite Ebe, Z.leb_refl; cbn [andb]]; hrun;
      apply (tail_fin_complete 2 (Some (PFileData h off data)) size size size cks size false (Some (dt + nw, r_nak_ms r)) 0
               (dt + nw) fs' (seg_log off (zlen data) lg) Hack);
      right; eexists; eexists; eexists; reflexivity. }
  rewrite E. reflexivity.
Qed.

Lemma retransmission_completes_run : forall seg size maxn fs sn dn msgs fds pre dt off data cks fl t0 t1 t2,
  name = dest_name fs sn dn -> dest_writable fs name ->
  0 < r_nak_ms r -> 0 < r_ack_ms r ->
  max_seg_reqs (r_max_packet r) h = Some maxn -> 1 <= maxn ->
  0 < seg -> Forall (tile seg size) (map fd_len fds) -> Forall (tile seg size) (map fd_len pre) ->
  tile seg size (off, zlen data) ->
  (exists x, 0 <= x < size /\ ~ covered (map fd_len fds ++ map fd_len pre) x) ->
  (forall x, 0 <= x < size -> covered ((map fd_len fds ++ map fd_len pre) ++ [(off, zlen data)]) x) ->
  exists trc tr2 nw fs' lg old,
    calls_d (((t0, Some (PMetadata h closure ck msize (Some (sn, dn)) msgs)) :: map (fd_call h) fds ++
              [(t1, Some (PEof h C_NO_ERROR cks size fl)); (t2, None)]) ++ map (fd_call h) pre) (dst_fresh c fs) =
      (WS tr2 (extent (map fd_len fds ++ map fd_len pre)) cks size (nw, r_nak_ms r) 0 (mkEnv nw fs' false lg),
       Ok (([] :: gap_naks (r_imm_nak r) hh 0 (map fd_len fds) ++ [[ack_eof]; nak_list hh size maxn false trc]) ++
           map (fun _ => []) pre)) /\
    lookup fs' name = Some (File old) /\
    ((ck = CK_NULL \/ calculate_checksum ck (Some (write_at old off data)) size 4096 = Ok cks) ->
     call_d (dt, Some (PFileData h off data))
            (WS tr2 (extent (map fd_len fds ++ map fd_len pre)) cks size (nw, r_nak_ms r) 0 (mkEnv nw fs' false lg)) =
     (FSQ 0 [] size size size cks size false (Some (dt + nw, r_nak_ms r)) 0 (dt + nw, r_ack_ms r)
          (mkEnv (dt + nw) (set_node fs' name (File (write_at old off data))) false (fin_log (seg_log off (zlen data) lg))),
      Ok [fin_pdu])).
Proof.
  intros seg size maxn fs sn dn msgs fds pre dt off data cks fl t0 t1 t2 Hn Hw Hms Hack Hmax H1 Hseg HF HFp Hfd Hex Hall.
  assert (Hex1 : exists x, 0 <= x < size /\ ~ covered (map fd_len fds) x).
  { destruct Hex as [x [Hx Hc]]. exists x. split; [exact Hx|]. intros Hc'. apply Hc, covered_app_l, Hc'. }
  destruct (first_issue_run seg size maxn fs sn dn msgs fds cks fl t0 t1 t2 Hn Hw Hms Hmax H1 Hseg HF Hex1)
    as [trc [nw [fs1 [lg1 [old1 [E1 [CG [CD Hl1]]]]]]]].
  assert (M1 : Missing size (map fd_len fds) trc) by (split; [apply invgap_inv; exact CG | exact CD]).
  destruct (wait_run seg size cks pre (map fd_len fds) trc nw fs1 lg1 old1 Hseg Hms M1 Hl1 HFp Hex)
    as [tr2 [nw2 [fs2 [lg2 [old2 [E2 [[I2 D2] Hl2]]]]]]].
  exists trc, tr2, nw2, fs2, lg2, old2. split; [|split; [exact Hl2|]].
  - erewrite calls_d_app; [reflexivity | exact E1 | exact E2].
  - intros Hck.
    destruct (tile_end seg size _ Hseg Hfd) as [Hoff0 Hend]. cbn [fst snd] in Hoff0, Hend.
    assert (Hlen : 0 < zlen data) by (destruct Hfd as [k [_ [_ [_ Hp]]]]; exact Hp).
    set (hist := map fd_len fds ++ map fd_len pre) in *.
    set (S0 := WS tr2 (extent hist) cks size (nw2, r_nak_ms r) 0 (mkEnv (dt + nw2) fs2 false (seg_log off (zlen data) lg2))).
    destruct (st_below S0 off (zlen data) Hlen I2) as [S1 [Es [Is [Ds [Hls [Hle _]]]]]]; [cbn; lia | cbn; lia |].
    cbn [S0 WS DST d_p p_last_start p_last_end p_tracker] in Hls, Hle, Ds.
    assert (Hnil : p_tracker (d_p S1) = []).
    { apply inv_no_den_nil; [exact Is|]. intros x Hd. apply Ds in Hd. destruct Hd as [Hd Hn']. apply D2 in Hd.
      destruct Hd as [Hx Hc]. specialize (Hall x Hx). apply covered_app in Hall. cbn [fst snd] in Hall. tauto. }
    assert (Hsz : 0 <= size) by lia.
    assert (HFall : Forall (tile seg size) (hist ++ [(off, zlen data)])).
    { apply Forall_app. split; [apply Forall_app; split; assumption | constructor; [exact Hfd | constructor]]. }
    assert (Hprog : Z.max (off + zlen data) (extent hist) = size).
    { rewrite <- (covered_all_extent seg size _ Hseg Hsz HFall Hall), extent_app. cbn [fst snd]. apply Z.max_comm. }
    exact (fd_call_wait_complete dt off data tr2 (extent hist) cks size nw2 0 nw2 fs2 lg2 old2 S1 Es Hls Hle Hnil Hl2 Hend
             ltac:(lia) Hprog Hack Hck).
Qed.

(* ---- everything received, whatever the verdict of the checksum verification: the poll after the EOF sends no NAK *)
(* the states of this path: nothing tracked, metadata present, nothing queued *)
Definition GS (step : Z) (f : fin) (disp : Z) (ls le : Z) (cks : bytes) (size : Z) (en : env) : dst :=
  mkDst c ST_BUSY step tid0 0 []
    (mkDP tid0 (Some r) None 0 closure ck f disp hh
          size cks (Some msize) name (Some size) false [] false ls le false None 0 None 0) en.

Lemma tail_fin_generic : forall k f disp ls le cks size nw fs lg,
  0 < r_ack_ms r ->
  exists s' a b c0 d, tail_fin k None (GS DS_TRANSFER_COMPLETION f disp ls le cks size (mkEnv nw fs false lg)) = (s', Ok tt) /\
    d_queue s' = [PFinished hh a b c0 d].
Proof.
  intros k [fd ff fc ffl] disp ls le cks size nw fs lg Hack.
  assert (Et : forall f' fs' lg',
    exists s' a b c0 d,
    (b <- step_is DS_SENDING_FINISHED;;
     when b (n <- gets d_ready;; (if 0 <? n then ret tt else prepare_finished_pdu;;; handle_finished_pdu_sent));;;
     b0 <- step_is DS_WAITING_FOR_FINISHED_ACK;; when b0 (handle_waiting_for_finished_ack (again k) None))
    (mkDst c ST_BUSY DS_SENDING_FINISHED (Some (srcid, seq)) 0 []
       (mkDP (Some (srcid, seq)) (Some r) None 0 closure ck f' disp
          (mkHdr TOWARDS_SENDER ACKED crc large srcid (l_id c) idw seq seqw)
          size cks (Some msize) name (Some size) false [] false ls le false None 0 None 0) (mkEnv nw fs' false lg')) = (s', Ok tt) /\
    d_queue s' = [PFinished hh a b c0 d]).
  { intros [fd' ff' fc' ffl'] fs' lg'. eexists. exists fc', fd', ff', ffl'. split.
    - hrun. unfold prepare_finished_pdu, conf. hrun. unfold handle_finished_pdu_sent. hrun.
      unfold start_positive_ack_procedure, rcfg_or_assert, now. hrun.
      cbn [handle_waiting_for_finished_ack].
      unfold handle_positive_ack_procedures, rcfg_or_assert, now. hrun. prj.
      rewrite (ack_timer_fresh _ Hack). cbn [negb]. hrun. reflexivity.
    - reflexivity. }
  destruct (disp =? DISP_CANCELED) eqn:E1; destruct (r_disposition r && (fd =? DATA_INCOMPLETE)) eqn:E2;
    destruct (l_ind_fin c) eqn:E3;
    (edestruct Et as [s' [a [b [c0 [d [E Q]]]]]]; exists s', a, b, c0, d; split; [|exact Q];
     unfold tail_fin, GS, hh, tid0; hrun;
     unfold handle_transfer_completion, notice_of_completion, rcfg_or_assert; hrun; prj; rewrite ?E1; cbv iota; hrun; prj;
     rewrite ?E2; cbv iota; hrun; rewrite ?E3; cbv iota; hrun; exact E).
Qed.

Lemma cv_cases : forall ls le cks size nw fs lg d,
  lookup fs name = Some (File d) ->
  exists S' res,
    checksum_verify (GS DS_SENDING_EOF_ACK fin0 DISP_COMPLETED ls le cks size (mkEnv nw fs false lg)) = (S', res) /\
    ((res = Ok true /\ S' = GS DS_SENDING_EOF_ACK fin1 DISP_COMPLETED ls le cks size (mkEnv nw fs false lg)) \/
     (exists e, res = Err e /\ d_queue S' = []) \/
     (res = Ok false /\ exists step f disp lg', S' = GS step f disp ls le cks size (mkEnv nw fs false lg'))).
Proof.
  intros ls le cks size nw fs lg d Hl.
  destruct (ck =? CK_NULL) eqn:Eck;
    [| destruct (calculate_checksum ck (Some d) size 4096) as [crcv | ce] eqn:Ecalc;
       [destruct (bytes_eqb crcv cks) eqn:Ebe;
          [| destruct (get_fault_handler (l_faults c) C_CHECKSUM_FAILURE) as [fh|] eqn:Egf;
             [destruct (fh =? FH_CANCEL) eqn:Ec1; destruct (fh =? FH_ABANDON) eqn:Ec2|]]
       | destruct ce]];
  eexists; eexists; (split;
    [ unfold checksum_verify, vfs_checksum, declare_fault, notice_of_cancellation, reset_internal, GS, hh, tid0, fin0, fin1;
      repeat (first [hstep | rewrite bind_raise
                    | progress (rewrite ?Eck, ?Hl, ?Ecalc, ?Ebe, ?Egf, ?Ec1, ?Ec2, ?Z.leb_refl, ?orb_false_r)
                    | progress prj | progress cbv iota | progress (cbn [andb])]);
      reflexivity
    | first [ left; split; reflexivity
            | right; left; eexists; split; reflexivity
            | right; right; split; [reflexivity | eexists; eexists; eexists; eexists; reflexivity] ] ]).
Qed.

Lemma fst_catch_abandoned : forall (m : D unit) s, fst (catch_abandoned m s) = fst (m s).
Proof.
  intros m s. unfold catch_abandoned, catch. destruct (m s) as [s' [[]|e]]; [reflexivity|].
  destruct (e =? E_ABANDONED); reflexivity.
Qed.

Lemma poll_no_nak : forall dt ls le cks size nw fs lg d,
  0 < r_ack_ms r -> lookup fs name = Some (File d) ->
  Forall not_nak (d_queue (fst (state_machine None (tick dt (ES [] ls le size cks size (mkEnv nw fs false lg)))))).
Proof.
  intros dt ls le cks size nw fs lg d Hack Hl.
  change (tick dt (ES [] ls le size cks size (mkEnv nw fs false lg)))
    with (GS DS_SENDING_EOF_ACK fin0 DISP_COMPLETED ls le cks size (mkEnv (dt + nw) fs false lg)).
  set (S0 := GS DS_SENDING_EOF_ACK fin0 DISP_COMPLETED ls le cks size (mkEnv (dt + nw) fs false lg)).
  set (K := fun _ : bool => ret tt ;;; set_step DS_TRANSFER_COMPLETION ;;;
             st <- get_step ;;
             when ((st =? DS_RECEIVING_FILE_DATA) || (st =? DS_RECV_WITH_CHECK_LIMIT)) (recv_block None) ;;;
             tail_mid 2 None).
  assert (Em : state_machine None S0 = catch_abandoned (bind checksum_verify K) S0).
  { unfold state_machine. rewrite bind_ret. unfold catch_abandoned, catch.
    assert (E : (s <- get;; stop <- (if d_state s =? ST_IDLE then idle_fsm None;;; n <- gets d_ready;; ret (0 <? n) else ret false);;
                 (if stop then ret tt else s0 <- get;; when (d_state s0 =? ST_BUSY) (non_idle_fsm 3 None))) S0 =
                bind checksum_verify K S0).
    { unfold S0, GS, hh, tid0, fin0. hrun. rewrite nif_eq. unfold fsm_advancement. hrun. reflexivity. }
    rewrite E. reflexivity. }
  rewrite Em, fst_catch_abandoned.
  destruct (cv_cases ls le cks size (dt + nw) fs lg d Hl) as [S' [res [Ecv Hcases]]]. fold S0 in Ecv.
  unfold bind at 1. rewrite Ecv.
  destruct Hcases as [[-> ->] | [[e [-> Hq]] | [-> [step [f [disp [lg' ->]]]]]]].
  - (* verified *)
    assert (E : K true (GS DS_SENDING_EOF_ACK fin1 DISP_COMPLETED ls le cks size (mkEnv (dt + nw) fs false lg)) =
      (FSQ (0 + 1) [fin_pdu] ls le size cks size false None 0 (dt + nw, r_ack_ms r) (mkEnv (dt + nw) fs false (fin_log lg)), Ok tt)).
    { unfold K, GS, hh, tid0, fin1. hrun.
      apply (tail_mid_complete 2 None ls le size cks size false None 0 (dt + nw) fs lg Hack (or_introl eq_refl)). }
    rewrite E. cbn [fst FSQ d_queue]. repeat constructor.
  - (* an exception: nothing queued *)
    cbn [fst]. rewrite Hq. constructor.
  - (* not verified, the fault handler returned *)
    destruct (tail_fin_generic 2 f disp ls le cks size (dt + nw) fs lg' Hack) as [s' [a [b [c0 [d0 [E Q]]]]]].
    assert (E' : K false (GS step f disp ls le cks size (mkEnv (dt + nw) fs false lg')) = (s', Ok tt)).
    { unfold K, GS, hh, tid0. hrun. unfold tail_mid. hrun. exact E. }
    rewrite E'. cbn [fst]. rewrite Q. repeat constructor.
Qed.
End Run.

(* ================================================================== the theorems of props/C06c.v *)
Lemma hdr_form : forall hd c, h_dir hd = TOWARDS_RECEIVER -> h_mode hd = ACKED -> h_dst hd = l_id c ->
  hd = h c (h_crc hd) (h_large hd) (h_src hd) (h_idw hd) (h_seq hd) (h_seqw hd).
Proof. intros [d m cr lg sr ds iw sq sw] c H1 H2 H3. cbn in *. subst. reflexivity. Qed.

Lemma nak_good_scope : forall hd eos maxn maxp naks,
  Forall (nak_good hd eos maxn maxp) naks ->
  Forall (fun p => exists rq, p = PNak hd 0 eos rq /\ 1 <= zlen rq <= maxn /\ pdu_len p <= maxp) naks.
Proof. intros. exact H. Qed.

Lemma eof_requests_exactly_missing :
  forall (c : lcfg) (r : rcfg) (hd : hdr) (fs : tree) (closure : bool) (ck msize : Z) (sn dn : path) (msgs : list Z)
         (seg size maxn : Z) (fds : list (Z * (Z * bytes))) (cks : bytes) (fl : option (Z * Z)) (t0 t1 t2 : Z),
  h_dir hd = TOWARDS_RECEIVER -> h_mode hd = ACKED -> h_dst hd = l_id c ->
  get_remote (l_remotes c) (h_src hd) = Some r -> 0 < r_nak_ms r ->
  max_seg_reqs (r_max_packet r) hd = Some maxn -> 1 <= maxn ->
  dest_writable fs (dest_name fs sn dn) ->
  0 < seg -> Forall (tile seg size) (map fd_len fds) ->
  (exists x, 0 <= x < size /\ ~ covered (map fd_len fds) x) ->
  exists s' naks,
    calls_d ((t0, Some (PMetadata hd closure ck msize (Some (sn, dn)) msgs)) :: map (fd_call hd) fds ++
             [(t1, Some (PEof hd C_NO_ERROR cks size fl)); (t2, None)]) (dst_fresh c fs) =
      (s', Ok ([] :: gap_naks (r_imm_nak r) (set_dir TOWARDS_SENDER hd) 0 (map fd_len fds) ++
               [[PAck (set_dir TOWARDS_SENDER hd) D_EOF C_NO_ERROR TS_ACTIVE]; naks])) /\
    (forall x, den (flat_map nak_reqs naks) x <-> (0 <= x < size /\ ~ covered (map fd_len fds) x)) /\
    InvGap (flat_map nak_reqs naks) /\
    Forall (fun rq => 0 <= fst rq /\ fst rq < snd rq /\ snd rq <= size) (flat_map nak_reqs naks) /\
    ~ In (0, 0) (flat_map nak_reqs naks) /\
    Forall (fun p => exists rq, p = PNak (set_dir TOWARDS_SENDER hd) 0 size rq /\ 1 <= zlen rq <= maxn /\
                                 pdu_len p <= r_max_packet r) naks /\
    naks <> [] /\
    d_state s' = ST_BUSY /\ d_step s' = DS_WAITING_FOR_MISSING_DATA /\ d_queue s' = [] /\
    p_tracker (d_p s') = flat_map nak_reqs naks /\
    p_proc_timer (d_p s') = Some (now_d s', r_nak_ms r) /\ p_nak_counter (d_p s') = 0.
Proof.
  intros c r hd fs closure ck msize sn dn msgs seg size maxn fds cks fl t0 t1 t2
         Hdir Hmode Hdst Hrem Hms Hmax H1 Hw Hseg HF Hmiss.
  rewrite (hdr_form hd c Hdir Hmode Hdst) in *.
  set (crc := h_crc hd) in *. set (large := h_large hd) in *. set (srcid := h_src hd) in *.
  set (idw := h_idw hd) in *. set (sq := h_seq hd) in *. set (sqw := h_seqw hd) in *.
  clearbody crc large srcid idw sq sqw. cbn [h h_src] in Hrem.
  destruct (first_issue_run c r crc large srcid idw sq sqw closure ck msize (dest_name fs sn dn) Hrem
              seg size maxn fs sn dn msgs fds cks fl t0 t1 t2 eq_refl Hw Hms Hmax H1 Hseg HF Hmiss)
    as [trc [nw [fs' [lg [old [E [CG [CD Hl]]]]]]]].
  destruct (nak_list_spec (h c crc large srcid idw sq sqw) size maxn (r_max_packet r) false trc Hmax H1) as [NR NG].
  change (set_dir TOWARDS_SENDER (h c crc large srcid idw sq sqw)) with (hh c crc large srcid idw sq sqw) in *.
  cbn [app] in NR.
  eexists. exists (nak_list (hh c crc large srcid idw sq sqw) size maxn false trc).
  split; [exact E|]. rewrite NR.
  pose proof (invgap_bounds trc size CG (fun x Hd => proj1 (proj1 (CD x) Hd))) as HB.
  split; [exact CD|]. split; [exact CG|]. split; [exact HB|]. split.
  { intros Hin. rewrite Forall_forall in HB. specialize (HB _ Hin). cbn [fst snd] in HB. lia. }
  split; [exact NG|]. split.
  { intros Hnil. rewrite Hnil in NR. cbn in NR. destruct Hmiss as [x [Hx Hc]].
    assert (D : den trc x) by (apply CD; split; assumption). rewrite <- NR in D. destruct D as [a [b [[] _]]]. }
  repeat split; reflexivity.
Qed.

Lemma eof_nothing_missing :
  forall (c : lcfg) (r : rcfg) (hd : hdr) (fs : tree) (closure : bool) (ck msize : Z) (sn dn : path) (msgs : list Z)
         (seg size : Z) (fds : list (Z * (Z * bytes))) (cks : bytes) (fl : option (Z * Z)) (t0 t1 : Z),
  h_dir hd = TOWARDS_RECEIVER -> h_mode hd = ACKED -> h_dst hd = l_id c ->
  get_remote (l_remotes c) (h_src hd) = Some r ->
  dest_writable fs (dest_name fs sn dn) ->
  0 < seg -> 0 <= size -> Forall (tile seg size) (map fd_len fds) ->
  (forall x, 0 <= x < size -> covered (map fd_len fds) x) ->
  exists s2 d,
    calls_d ((t0, Some (PMetadata hd closure ck msize (Some (sn, dn)) msgs)) :: map (fd_call hd) fds ++
             [(t1, Some (PEof hd C_NO_ERROR cks size fl))]) (dst_fresh c fs) =
      (s2, Ok ([] :: gap_naks (r_imm_nak r) (set_dir TOWARDS_SENDER hd) 0 (map fd_len fds) ++
               [[PAck (set_dir TOWARDS_SENDER hd) D_EOF C_NO_ERROR TS_ACTIVE]])) /\
    p_tracker (d_p s2) = [] /\ p_md_missing (d_p s2) = false /\ d_step s2 = DS_SENDING_EOF_ACK /\ d_queue s2 = [] /\
    p_progress (d_p s2) = size /\ lookup (fs_d s2) (dest_name fs sn dn) = Some (File d) /\
    (forall t2, 0 < r_ack_ms r -> (ck = CK_NULL \/ calculate_checksum ck (Some d) size 4096 = Ok cks) ->
       exists s3,
         call_d (t2, None) s2 = (s3, Ok [PFinished (set_dir TOWARDS_SENDER hd) C_NO_ERROR DATA_COMPLETE FS_RETAINED None]) /\
         d_state s3 = ST_BUSY /\ d_step s3 = DS_WAITING_FOR_FINISHED_ACK /\
         p_fin (d_p s3) = mkFin DATA_COMPLETE FS_RETAINED C_NO_ERROR None /\
         p_ack_timer (d_p s3) = Some (now_d s3, r_ack_ms r) /\ fs_d s3 = fs_d s2 /\
         log_d s3 = (if l_ind_fin c then EvFinished (h_src hd) (h_seq hd) C_NO_ERROR DATA_COMPLETE FS_RETAINED None :: log_d s2
                     else log_d s2)) /\
    (forall t2, 0 < r_ack_ms r -> Forall not_nak (d_queue (fst (state_machine None (tick t2 s2))))).
Proof.
  intros c r hd fs closure ck msize sn dn msgs seg size fds cks fl t0 t1
         Hdir Hmode Hdst Hrem Hw Hseg Hsz HF Hall.
  rewrite (hdr_form hd c Hdir Hmode Hdst) in *.
  set (crc := h_crc hd) in *. set (large := h_large hd) in *. set (srcid := h_src hd) in *.
  set (idw := h_idw hd) in *. set (sq := h_seq hd) in *. set (sqw := h_seqw hd) in *.
  clearbody crc large srcid idw sq sqw. cbn [h h_src h_seq] in *.
  destruct (all_covered_run c r crc large srcid idw sq sqw closure ck msize (dest_name fs sn dn) Hrem
              seg size fs sn dn msgs fds cks fl t0 t1 eq_refl Hw Hseg Hsz HF Hall)
    as [ls [le [nw [fs' [lg [d [E Hl]]]]]]].
  eexists. exists d. split; [exact E|].
  split; [reflexivity|]. split; [reflexivity|]. split; [reflexivity|]. split; [reflexivity|]. split; [reflexivity|].
  split; [exact Hl|]. split.
  - intros t2 Hack Hck. eexists. split.
    + apply (complete_call c r crc large srcid idw sq sqw closure ck msize (dest_name fs sn dn) t2 ls le cks size nw fs' lg d Hack Hl Hck).
    + repeat split; reflexivity.
  - intros t2 Hack.
    exact (poll_no_nak c r crc large srcid idw sq sqw closure ck msize (dest_name fs sn dn) t2 ls le cks size nw fs' lg d Hack Hl).
Qed.

Lemma md_naks_spec : forall h0 size maxn maxp, max_seg_reqs maxp h0 = Some maxn -> 1 <= maxn ->
  flat_map nak_reqs (md_naks (set_dir TOWARDS_SENDER h0) size maxn) = (0, 0) :: (if 0 <? size then [(0, size)] else []) /\
  Forall (fun p => pdu_len p <= maxp) (md_naks (set_dir TOWARDS_SENDER h0) size maxn).
Proof.
  intros h0 size maxn maxp Hm H1.
  assert (L : forall rq, zlen rq <= maxn -> pdu_len (PNak (set_dir TOWARDS_SENDER h0) 0 size rq) <= maxp).
  { intros rq Hz. eapply nak_len_bound; [rewrite max_seg_reqs_set_dir; exact Hm | exact Hz]. }
  unfold md_naks. destruct (0 <? size); [destruct (1 =? maxn) eqn:E1|].
  - split; [reflexivity|]. repeat constructor; apply L; rewrite zlen_one; lia.
  - apply Z.eqb_neq in E1. split; [reflexivity|]. repeat constructor. apply L. change (zlen [(0, 0); (0, size)]) with 2. lia.
  - split; [reflexivity|]. repeat constructor. apply L. rewrite zlen_one. lia.
Qed.

Lemma eof_without_metadata :
  forall (c : lcfg) (r : rcfg) (hd : hdr) (fs : tree) (size maxn : Z) (cks : bytes) (fl : option (Z * Z)) (t0 t1 : Z),
  h_dir hd = TOWARDS_RECEIVER -> h_mode hd = ACKED -> h_dst hd = l_id c ->
  get_remote (l_remotes c) (h_src hd) = Some r -> 0 < r_nak_ms r ->
  max_seg_reqs (r_max_packet r) hd = Some maxn -> 1 <= maxn ->
  let naks := md_naks (set_dir TOWARDS_SENDER hd) size maxn in
  exists s',
    calls_d [(t0, Some (PEof hd C_NO_ERROR cks size fl)); (t1, None)] (dst_fresh c fs) =
      (s', Ok [[PAck (set_dir TOWARDS_SENDER hd) D_EOF C_NO_ERROR TS_ACTIVE]; naks]) /\
    flat_map nak_reqs naks = (0, 0) :: (if 0 <? size then [(0, size)] else []) /\
    Forall (fun p => pdu_len p <= r_max_packet r) naks /\
    d_state s' = ST_BUSY /\ d_step s' = DS_WAITING_FOR_METADATA /\ d_queue s' = [] /\
    p_md_missing (d_p s') = true /\ p_tracker (d_p s') = (if 0 <? size then [(0, size)] else []) /\
    p_proc_timer (d_p s') = Some (now_d s', r_nak_ms r) /\ p_nak_counter (d_p s') = 0 /\ fs_d s' = fs.
Proof.
  intros c r hd fs size maxn cks fl t0 t1 Hdir Hmode Hdst Hrem Hms Hmax H1 naks. unfold naks.
  destruct (md_naks_spec hd size maxn (r_max_packet r) Hmax H1) as [N1 N2].
  rewrite (hdr_form hd c Hdir Hmode Hdst) in *.
  set (crc := h_crc hd) in *. set (large := h_large hd) in *. set (srcid := h_src hd) in *.
  set (idw := h_idw hd) in *. set (sq := h_seq hd) in *. set (sqw := h_seqw hd) in *.
  clearbody crc large srcid idw sq sqw. cbn [h h_src] in Hrem.
  eexists. split; [apply (md_missing_run c r crc large srcid idw sq sqw Hrem cks size fl fs maxn t0 t1 Hms Hmax H1)|].
  split; [exact N1|]. split; [exact N2|]. repeat split; reflexivity.
Qed.

Lemma eof_reissue_requests_exactly_missing :
  forall (c : lcfg) (r : rcfg) (hd : hdr) (fs : tree) (closure : bool) (ck msize : Z) (sn dn : path) (msgs : list Z)
         (seg size maxn : Z) (fds fds2 : list (Z * (Z * bytes))) (cks : bytes) (fl : option (Z * Z)) (t0 t1 t2 t3 : Z),
  h_dir hd = TOWARDS_RECEIVER -> h_mode hd = ACKED -> h_dst hd = l_id c ->
  get_remote (l_remotes c) (h_src hd) = Some r ->
  0 < r_nak_ms r -> r_nak_ms r <= t3 -> r_nak_limit r <> 1 ->
  max_seg_reqs (r_max_packet r) hd = Some maxn -> 1 <= maxn ->
  dest_writable fs (dest_name fs sn dn) ->
  0 < seg -> Forall (tile seg size) (map fd_len fds) -> Forall (tile seg size) (map fd_len fds2) ->
  (exists x, 0 <= x < size /\ ~ covered (map fd_len fds ++ map fd_len fds2) x) ->
  exists s' naks naks2,
    calls_d (((t0, Some (PMetadata hd closure ck msize (Some (sn, dn)) msgs)) :: map (fd_call hd) fds ++
              [(t1, Some (PEof hd C_NO_ERROR cks size fl)); (t2, None)]) ++
             map (fd_call hd) fds2 ++ [(t3, None)]) (dst_fresh c fs) =
      (s', Ok (([] :: gap_naks (r_imm_nak r) (set_dir TOWARDS_SENDER hd) 0 (map fd_len fds) ++
                [[PAck (set_dir TOWARDS_SENDER hd) D_EOF C_NO_ERROR TS_ACTIVE]; naks]) ++
               map (fun _ => []) fds2 ++ [naks2])) /\
    (forall x, den (flat_map nak_reqs naks) x <-> (0 <= x < size /\ ~ covered (map fd_len fds) x)) /\
    (forall x, den (flat_map nak_reqs naks2) x <-> (0 <= x < size /\ ~ covered (map fd_len fds ++ map fd_len fds2) x)) /\
    Inv (flat_map nak_reqs naks2) /\
    Forall (fun rq => 0 <= fst rq /\ fst rq < snd rq /\ snd rq <= size) (flat_map nak_reqs naks2) /\
    ~ In (0, 0) (flat_map nak_reqs naks2) /\
    Forall (fun p => exists rq, p = PNak (set_dir TOWARDS_SENDER hd) 0 size rq /\ 1 <= zlen rq <= maxn /\
                                 pdu_len p <= r_max_packet r) naks2 /\
    naks2 <> [] /\
    d_state s' = ST_BUSY /\ d_step s' = DS_WAITING_FOR_MISSING_DATA /\ d_queue s' = [] /\
    p_tracker (d_p s') = flat_map nak_reqs naks2 /\
    p_proc_timer (d_p s') = Some (now_d s', r_nak_ms r) /\ p_nak_counter (d_p s') = 1.
Proof.
  intros c r hd fs closure ck msize sn dn msgs seg size maxn fds fds2 cks fl t0 t1 t2 t3
         Hdir Hmode Hdst Hrem Hms Ht3 Hlim Hmax H1 Hw Hseg HF HF2 Hmiss.
  rewrite (hdr_form hd c Hdir Hmode Hdst) in *.
  set (crc := h_crc hd) in *. set (large := h_large hd) in *. set (srcid := h_src hd) in *.
  set (idw := h_idw hd) in *. set (sq := h_seq hd) in *. set (sqw := h_seqw hd) in *.
  clearbody crc large srcid idw sq sqw. cbn [h h_src] in Hrem.
  destruct (reissue_run c r crc large srcid idw sq sqw closure ck msize (dest_name fs sn dn) Hrem
              seg size maxn fs sn dn msgs fds fds2 cks fl t0 t1 t2 t3 eq_refl Hw Hms Ht3 Hlim Hmax H1 Hseg HF HF2 Hmiss)
    as [trc [tr2 [nw [fs' [lg [E [[I1 D1] [I2 D2]]]]]]]].
  destruct (nak_list_spec (h c crc large srcid idw sq sqw) size maxn (r_max_packet r) false trc Hmax H1) as [NR1 _].
  destruct (nak_list_spec (h c crc large srcid idw sq sqw) size maxn (r_max_packet r) false tr2 Hmax H1) as [NR2 NG2].
  change (set_dir TOWARDS_SENDER (h c crc large srcid idw sq sqw)) with (hh c crc large srcid idw sq sqw) in *.
  cbn [app] in NR1, NR2.
  eexists. exists (nak_list (hh c crc large srcid idw sq sqw) size maxn false trc),
                  (nak_list (hh c crc large srcid idw sq sqw) size maxn false tr2).
  split; [exact E|]. rewrite NR1, NR2.
  assert (HB : Forall (fun rq => 0 <= fst rq /\ fst rq < snd rq /\ snd rq <= size) tr2).
  { apply Forall_forall. intros [a b] Hin. destruct (Inv_WF _ I2) as [W _]. pose proof (W _ Hin) as Hab. cbn [fst snd] in *.
    assert (Da : den tr2 a) by (exists a, b; split; [exact Hin | lia]).
    assert (Db : den tr2 (b - 1)) by (exists a, b; split; [exact Hin | lia]).
    apply D2 in Da, Db. lia. }
  split; [exact D1|]. split; [exact D2|]. split; [exact I2|]. split; [exact HB|]. split.
  { intros Hin. rewrite Forall_forall in HB. specialize (HB _ Hin). cbn [fst snd] in HB. lia. }
  split; [exact NG2|]. split.
  { intros Hnil. rewrite Hnil in NR2. cbn in NR2. destruct Hmiss as [x [Hx Hc]].
    assert (D : den tr2 x) by (apply D2; split; assumption). rewrite <- NR2 in D. destruct D as [a [b [[] _]]]. }
  repeat split; reflexivity.
Qed.

Lemma eof_retransmission_completes :
  forall (c : lcfg) (r : rcfg) (hd : hdr) (fs : tree) (closure : bool) (ck msize : Z) (sn dn : path) (msgs : list Z)
         (seg size maxn : Z) (fds pre : list (Z * (Z * bytes))) (lastfd : Z * (Z * bytes))
         (cks : bytes) (fl : option (Z * Z)) (t0 t1 t2 : Z),
  h_dir hd = TOWARDS_RECEIVER -> h_mode hd = ACKED -> h_dst hd = l_id c ->
  get_remote (l_remotes c) (h_src hd) = Some r ->
  0 < r_nak_ms r -> 0 < r_ack_ms r ->
  max_seg_reqs (r_max_packet r) hd = Some maxn -> 1 <= maxn ->
  dest_writable fs (dest_name fs sn dn) ->
  0 < seg -> Forall (tile seg size) (map fd_len fds) -> Forall (tile seg size) (map fd_len pre) ->
  tile seg size (fd_len lastfd) ->
  (exists x, 0 <= x < size /\ ~ covered (map fd_len fds ++ map fd_len pre) x) ->
  (forall x, 0 <= x < size -> covered ((map fd_len fds ++ map fd_len pre) ++ [fd_len lastfd]) x) ->
  exists s2 naks old,
    calls_d (((t0, Some (PMetadata hd closure ck msize (Some (sn, dn)) msgs)) :: map (fd_call hd) fds ++
              [(t1, Some (PEof hd C_NO_ERROR cks size fl)); (t2, None)]) ++ map (fd_call hd) pre) (dst_fresh c fs) =
      (s2, Ok (([] :: gap_naks (r_imm_nak r) (set_dir TOWARDS_SENDER hd) 0 (map fd_len fds) ++
                [[PAck (set_dir TOWARDS_SENDER hd) D_EOF C_NO_ERROR TS_ACTIVE]; naks]) ++ map (fun _ => []) pre)) /\
    lookup (fs_d s2) (dest_name fs sn dn) = Some (File old) /\
    ((ck = CK_NULL \/
      calculate_checksum ck (Some (write_at old (fst (snd lastfd)) (snd (snd lastfd)))) size 4096 = Ok cks) ->
     exists s3,
       call_d (fd_call hd lastfd) s2 =
         (s3, Ok [PFinished (set_dir TOWARDS_SENDER hd) C_NO_ERROR DATA_COMPLETE FS_RETAINED None]) /\
       d_state s3 = ST_BUSY /\ d_step s3 = DS_WAITING_FOR_FINISHED_ACK /\ p_tracker (d_p s3) = [] /\
       p_deferred (d_p s3) = false /\ p_fin (d_p s3) = mkFin DATA_COMPLETE FS_RETAINED C_NO_ERROR None /\
       p_progress (d_p s3) = size).
Proof.
  intros c r hd fs closure ck msize sn dn msgs seg size maxn fds pre [dt [off data]] cks fl t0 t1 t2
         Hdir Hmode Hdst Hrem Hms Hack Hmax H1 Hw Hseg HF HFp Hfd Hex Hall.
  rewrite (hdr_form hd c Hdir Hmode Hdst) in *.
  set (crc := h_crc hd) in *. set (large := h_large hd) in *. set (srcid := h_src hd) in *.
  set (idw := h_idw hd) in *. set (sq := h_seq hd) in *. set (sqw := h_seqw hd) in *.
  clearbody crc large srcid idw sq sqw. cbn [h h_src] in Hrem.
  unfold fd_len in Hfd, Hall at 3. cbn [fst snd] in Hfd, Hall.
  destruct (retransmission_completes_run c r crc large srcid idw sq sqw closure ck msize (dest_name fs sn dn) Hrem
              seg size maxn fs sn dn msgs fds pre dt off data cks fl t0 t1 t2 eq_refl Hw Hms Hack Hmax H1 Hseg HF HFp Hfd Hex Hall)
    as [trc [tr2 [nw [fs' [lg [old [E [Hl Hc]]]]]]]].
  eexists. eexists. exists old. split; [exact E|]. split; [exact Hl|].
  cbn [fst snd]. intros Hck. eexists. split; [exact (Hc Hck)|]. repeat split; reflexivity.
Qed.

(* ================================================================== non-vacuity *)
(* 13-byte file cut at 4, tiles 2, 0, 2 received (reverse order, one twice), EOF, poll: NAK requests [(4,8); (12,13)] *)
Definition ex_r : rcfg := mkRcfg 1 2 (Some 4) 64 true false ACKED CK_NULL 1000 3 3 false false 1000 3.
Definition ex_c : lcfg := mkLcfg 2 2 true true true true default_fault_table 1000 [ex_r].
Definition ex_h : hdr := mkHdr TOWARDS_RECEIVER ACKED false false 1 2 2 0 2.
Definition ex_fds : list (Z * (Z * bytes)) := [(5, (8, [1; 2; 3; 4])); (5, (0, [5; 6; 7; 8])); (5, (8, [1; 2; 3; 4]))].
Definition ex_calls : list (Z * option pdu) :=
  (0, Some (PMetadata ex_h true CK_NULL 13 (Some ([1], [2])) [])) :: map (fd_call ex_h) ex_fds ++
  [(5, Some (PEof ex_h C_NO_ERROR [0; 0; 0; 0] 13 None)); (0, None)].
Example ex_run :
  snd (calls_d ex_calls (dst_fresh ex_c [])) =
  Ok [[]; []; []; []; [PAck (set_dir TOWARDS_SENDER ex_h) D_EOF C_NO_ERROR TS_ACTIVE];
      [PNak (set_dir TOWARDS_SENDER ex_h) 0 13 [(4, 8); (12, 13)]]].
Proof. vm_compute. reflexivity. Qed.
(* the hypotheses of eof_requests_exactly_missing hold for this run *)
Example ex_hyps :
  h_dir ex_h = TOWARDS_RECEIVER /\ h_mode ex_h = ACKED /\ h_dst ex_h = l_id ex_c /\
  get_remote (l_remotes ex_c) (h_src ex_h) = Some ex_r /\ 0 < r_nak_ms ex_r /\
  max_seg_reqs (r_max_packet ex_r) ex_h = Some 5 /\ 1 <= 5 /\
  dest_writable [] (dest_name [] [1] [2]) /\ 0 < 4 /\ Forall (tile 4 13) (map fd_len ex_fds) /\
  (exists x, 0 <= x < 13 /\ ~ covered (map fd_len ex_fds) x).
Proof.
  repeat split; try reflexivity; try lia.
  - right. split; reflexivity.
  - assert (T : forall k o l, 0 <= k -> o = k * 4 -> l = Z.min 4 (13 - o) -> 0 < l -> tile 4 13 (o, l)).
    { intros k o l H1 H2 H3 H4. exists k. cbn [fst snd]. repeat split; assumption. }
    constructor; [apply (T 2); [lia | reflexivity | reflexivity | reflexivity]|].
    constructor; [apply (T 0); [lia | reflexivity | reflexivity | reflexivity]|].
    constructor; [apply (T 2); [lia | reflexivity | reflexivity | reflexivity]|]. constructor.
  - exists 4. split; [lia|]. intros [fd [Hin Hx]]. cbn in Hin.
    destruct Hin as [<- | [<- | [<- | []]]]; vm_compute in Hx; destruct Hx as [H1 H2];
      first [discriminate H2 | apply H1; reflexivity].
Qed.

(* re-issue: tile 1 is retransmitted, the NAK timer expires: (12,13) is requested again; EOF before Metadata *)
Example ex_reissue :
  snd (calls_d (ex_calls ++ map (fd_call ex_h) [(5, (4, [9; 9; 9; 9]))] ++ [(1000, None)]) (dst_fresh ex_c [])) =
  Ok [[]; []; []; []; [PAck (set_dir TOWARDS_SENDER ex_h) D_EOF C_NO_ERROR TS_ACTIVE];
      [PNak (set_dir TOWARDS_SENDER ex_h) 0 13 [(4, 8); (12, 13)]]; [];
      [PNak (set_dir TOWARDS_SENDER ex_h) 0 13 [(12, 13)]]].
Proof. vm_compute. reflexivity. Qed.
Example ex_md_missing :
  snd (calls_d [(0, Some (PEof ex_h C_NO_ERROR [0; 0; 0; 0] 13 None)); (0, None)] (dst_fresh ex_c [])) =
  Ok [[PAck (set_dir TOWARDS_SENDER ex_h) D_EOF C_NO_ERROR TS_ACTIVE];
      [PNak (set_dir TOWARDS_SENDER ex_h) 0 13 [(0, 0); (0, 13)]]].
Proof. vm_compute. reflexivity. Qed.

(* Why [dest_writable] is assumed.  The directory [2] of the destination file [2; 3] does not exist: creating the file
   fails silently, every write raises FileNotFoundError, which handle_fd_pdu swallows (the file status is already
   "retained"), the bytes are tracked as received although nothing is stored and the progress stays 0: the EOF adds
   (0, 13) to the tracker [(4, 8)] and the requests OVERLAP.  (Same outputs from the Python code.) *)
Example ex_unwritable :
  snd (calls_d ((0, Some (PMetadata ex_h true CK_NULL 13 (Some ([1], [2; 3])) [])) :: map (fd_call ex_h) ex_fds ++
                [(5, Some (PEof ex_h C_NO_ERROR [0; 0; 0; 0] 13 None)); (0, None)]) (dst_fresh ex_c [])) =
  Ok [[]; []; []; []; [PAck (set_dir TOWARDS_SENDER ex_h) D_EOF C_NO_ERROR TS_ACTIVE];
      [PNak (set_dir TOWARDS_SENDER ex_h) 0 13 [(0, 13); (4, 8)]]].
Proof. vm_compute. reflexivity. Qed.
(* Why [0 < r_nak_ms r] is assumed: with a NAK timer interval of 0 the timer started by the first issue has expired when
   the same call reaches the WAITING_FOR_MISSING_DATA branch, and the NAK sequence is queued a second time at once *)
Definition ex_r0 : rcfg := mkRcfg 1 2 (Some 4) 64 true false ACKED CK_NULL 1000 3 3 false false 0 3.
Example ex_zero_nak_timer :
  snd (calls_d ex_calls (dst_fresh (mkLcfg 2 2 true true true true default_fault_table 1000 [ex_r0]) [])) =
  Ok [[]; []; []; []; [PAck (set_dir TOWARDS_SENDER ex_h) D_EOF C_NO_ERROR TS_ACTIVE];
      [PNak (set_dir TOWARDS_SENDER ex_h) 0 13 [(4, 8); (12, 13)]; PNak (set_dir TOWARDS_SENDER ex_h) 0 13 [(4, 8); (12, 13)]]].
Proof. vm_compute. reflexivity. Qed.

(* ================================================================== F35 repair: cancelled states *)
(* Metadata (size 5), File Data (0,4), EOF (no error, 5), poll (NAK (4,5)), File Data (4, 4 bytes): the last PDU overshoots
   the EOF file size, File Size Error is declared, its handler cancels: the state after the call is cancelled with the
   deferred procedure still active *)
Definition f35_calls : list (Z * option pdu) :=
  [(0, Some (PMetadata ex_h true CK_NULL 5 (Some ([1], [2])) []));
   fd_call ex_h (0, (0, [1; 2; 3; 4]));
   (0, Some (PEof ex_h C_NO_ERROR [0; 0; 0; 0] 5 None)); (0, None);
   fd_call ex_h (0, (4, [5; 6; 7; 8]))].
Definition f35_s : dst := fst (calls_d f35_calls (dst_fresh ex_c [])).
Example f35_run :
  snd (calls_d f35_calls (dst_fresh ex_c [])) =
  Ok [[]; []; [PAck (set_dir TOWARDS_SENDER ex_h) D_EOF C_NO_ERROR TS_ACTIVE];
      [PNak (set_dir TOWARDS_SENDER ex_h) 0 5 [(4, 5)]];
      [PFinished (set_dir TOWARDS_SENDER ex_h) C_FILE_SIZE_ERROR DATA_INCOMPLETE FS_RETAINED None]] /\
  p_deferred (d_p f35_s) = true /\ p_disp (d_p f35_s) = DISP_CANCELED /\ p_tracker (d_p f35_s) = [(4, 5)] /\
  p_proc_timer (d_p f35_s) = Some (0, 1000) /\ p_nak_counter (d_p f35_s) = 0.
Proof. vm_compute. repeat split; reflexivity. Qed.

(* the statement of deferred_issue without [p_disp (d_p s) <> DISP_CANCELED] is false: f35_s when the NAK timer has expired
   satisfies every other hypothesis, and the procedure queues nothing although (4, 5) is tracked *)
Definition f35_s_expired : dst := f35_s <| d_env ::= (fun e => e <| e_now := 1000 |>) |>.
Example deferred_issue_needs_not_cancelled :
  p_deferred (d_p f35_s_expired) = true /\ p_rcfg (d_p f35_s_expired) = Some ex_r /\
  p_file_size_eof (d_p f35_s_expired) = Some 5 /\ p_tracker (d_p f35_s_expired) = [(4, 5)] /\
  p_proc_timer (d_p f35_s_expired) = Some (0, 1000) /\ timed_out (now_d f35_s_expired) (0, 1000) = true /\
  p_nak_counter (d_p f35_s_expired) + 1 <> r_nak_limit ex_r /\
  max_seg_reqs (r_max_packet ex_r) (p_conf (d_p f35_s_expired)) = Some 5 /\
  deferred_lost_segment_handling f35_s_expired = (f35_s_expired, Ok tt) /\
  ~ (exists s' naks, deferred_lost_segment_handling f35_s_expired = (s', Ok tt) /\
       d_queue s' = d_queue f35_s_expired ++ naks /\
       flat_map nak_reqs naks = (if p_md_missing (d_p f35_s_expired) then [(0, 0)] else []) ++ p_tracker (d_p f35_s_expired)).
Proof.
  assert (E : deferred_lost_segment_handling f35_s_expired = (f35_s_expired, Ok tt))
    by (apply deferred_cancelled_does_nothing; vm_compute; reflexivity).
  repeat split; try (vm_compute; reflexivity); try exact E.
  - vm_compute. discriminate.
  - intros [s' [naks [E' [Hq Hr]]]]. rewrite E in E'. injection E' as <-.
    assert (Hn : naks = []).
    { rewrite <- (app_nil_r (d_queue f35_s_expired)) in Hq at 1. apply app_inv_head in Hq. symmetry. exact Hq. }
    rewrite Hn in Hr. vm_compute in Hr. discriminate Hr.
Qed.

(* the statement of nothing_missing without [p_disp (d_p s) <> DISP_CANCELED] is false: the same cancelled state with an
   empty tracker (what a File Data PDU leaves that fills the last tracked range and makes the handler declare a fault in
   the same call) satisfies every other hypothesis, and the procedure does not move on to the completion step *)
Definition f35_s_empty : dst := f35_s <| d_p ::= (fun p => p <| p_tracker := [] |>) |>.
Example nothing_missing_needs_not_cancelled :
  p_deferred (d_p f35_s_empty) = true /\ p_rcfg (d_p f35_s_empty) = Some ex_r /\
  p_file_size_eof (d_p f35_s_empty) = Some 5 /\ p_tracker (d_p f35_s_empty) = [] /\ p_md_missing (d_p f35_s_empty) = false /\
  snd (checksum_verify f35_s_empty) = Ok true /\
  deferred_lost_segment_handling f35_s_empty = (f35_s_empty, Ok tt) /\
  d_step f35_s_empty = DS_WAITING_FOR_FINISHED_ACK /\
  ~ (exists s', deferred_lost_segment_handling f35_s_empty = (s', Ok tt) /\ d_step s' = DS_TRANSFER_COMPLETION).
Proof.
  assert (E : deferred_lost_segment_handling f35_s_empty = (f35_s_empty, Ok tt))
    by (apply deferred_cancelled_does_nothing; vm_compute; reflexivity).
  repeat split; try (vm_compute; reflexivity); try exact E.
  intros [s' [E' Hs]]. rewrite E in E'. injection E' as <-. vm_compute in Hs. discriminate Hs.
Qed.
