(* PerfectLinkClosureProofs.v — proof for the unbounded part of property C02 with closure (props/C02c.v): over a
   fault-free link the two-entity system of System.v delivers EVERY file with EVERY configuration in unacknowledged
   mode WITH closure requested.  Same composition as PerfectLinkProofs.v (sender call by call, symbolic execution of
   the receiver on constructor-form states, checksum chunk independence, write model, round-based scheduler), plus
   the tail of the protocol: the receiver answers the EOF with a Finished PDU and goes idle, the sender waits for it
   with its check timer running (the clock does not move: every round has activity) and finishes with its values.
   No axioms. *)
From CFDP Require Import Base LostSeg Fs Crc Checksum Handler Dest Source HandlerSpec SourceSpec System SystemCases.
From CFDP.gen Require Import Tables.
From CFDP.proofs Require Import ChecksumProofs FsProofs StreamProofs PerfectLinkProofs.
From RecordUpdate Require Import RecordSet.
Import RecordSetNotations.

(* arithmetic stays folded unless both arguments are literals *)
Local Arguments Z.add : simpl never. Local Arguments Z.sub : simpl never. Local Arguments Z.mul : simpl never.
Local Arguments Z.pow : simpl never. Local Arguments Z.div : simpl never. Local Arguments Z.min : simpl never.
Local Arguments Z.max : simpl never. Local Arguments Z.to_nat : simpl never.
Local Arguments Z.ltb !x !y : simpl nomatch. Local Arguments Z.leb !x !y : simpl nomatch.
Local Arguments Z.eqb !x !y : simpl nomatch. Local Arguments Z.of_nat !n : simpl nomatch.
Local Arguments write_at : simpl never.
Local Arguments set_node : simpl never.
Local Opaque calculate_checksum.

(* ================================================================== *)
(* 0. the statement of props/C02c.v needs a positive check interval    *)
(* ================================================================== *)
(* The sender arms its check timer (now, l_check_ms) in the call that sends the EOF and, in that same call, tests it
   (step WAITING_FOR_FINISHED is already reached, no packet): a non-positive interval has expired at once, the sender
   declares Check Limit Reached, and the transfer is not a success although the link is perfect. *)
Example closure_needs_positive_check_interval :
  let rs := rc 2 (Some 4) true UNACKED CK_CRC32 2 false in
  let cs := mkLcfg 1 2 true true true true default_fault_table 0 [rs] in     (* l_check_ms cs = 0 *)
  let cd := lc 2 (rc 1 (Some 4) true UNACKED CK_CRC32 2 false) in
  let p := mkPut 2 2 None None (Some ([1], [2])) None in
  let res := transfer cs cd 0 16 p [1] (test_data 5) [] 300 1000 in
  get_remote (l_remotes cs) (pr_dst p) = Some rs /\ 1 <= r_check_limit rs /\ l_check_ms cs = 0 /\
  delivered_ok [2] (test_data 5) res = false /\
  existsb fault_event (e_log (s_env (y_src (fst res)))) = true.
Proof.
  cbv zeta. split; [reflexivity|]. split; [vm_compute; discriminate|]. split; [reflexivity|].
  split; vm_compute; reflexivity.
Qed.

(* ================================================================== *)
(* 1. the sender with closure requested, call by call                  *)
(* ================================================================== *)
Section SenderSide.
Local Arguments max_file_seg_len : simpl never.
Local Arguments lookup : simpl never.

Section Sender.
Variables (c : lcfg) (p : putreq) (r : rcfg) (fs : tree) (d cks : bytes) (cf : sconf)
          (seg : Z) (tid : Z * Z) (sn dn : path).
Hypothesis Hnames : pr_names p = Some (sn, dn).
Hypothesis Hlook : lookup fs sn = Some (File d).
Hypothesis Hseg : 1 <= seg.
Hypothesis Hm : sc_mode cf = UNACKED.
Hypothesis Hck : calculate_checksum (r_cktype r) (Some d) (zlen d) seg = Ok cks.
Hypothesis Hfin : l_ind_fin c = true.
Hypothesis Hchk : 0 < l_check_ms c.

Definition InvC (off : Z) (s : src) : Prop :=
  Inv c p r fs d cf seg true tid off s /\ clean (e_log (s_env s)) /\ q_fin (s_p s) = None.

Lemma InvC_busy : forall off s, InvC off s -> s_state s = ST_BUSY.
Proof. intros off s [(_&H&_) _]. exact H. Qed.
Lemma InvC_range : forall off s, InvC off s -> 0 <= off <= zlen d.
Proof. intros off s [(_&_&_&_&_&_&_&_&_&_&_&_&_&_&_&H&_) _]. exact H. Qed.

Lemma step_fd_c : forall off s, InvC off s -> off < zlen d ->
  exists s', pump s = (s', Ok [fd_of (hdr_of cf TOWARDS_RECEIVER) (off, ztake seg (zdrop off d))]) /\
             InvC (off + Z.min seg (zlen d - off)) s'.
Proof.
  intros off s [HI [Hcl Hqf]] Hlt.
  destruct HI as (H1&H2&H3&H4&H5&H6&H7&H8&H9&H10&H11&H12&H13&H14&H15&H16&H17).
  destruct s as [cfg st step ready queue q sb pt sc sbits [nw fs' rw lg]].
  destruct q. cbn in H1,H2,H3,H4,H5,H6,H7,H8,H9,H10,H11,H12,H13,H14,H15,Hcl,Hqf. subst.
  unfold pump, pump_with, state_machine_s.
  assert (E1 : (off <? zlen d) = true) by (apply Z.ltb_lt; lia).
  assert (E2 : (off =? zlen d) = false) by (apply Z.eqb_neq; lia).
  assert (E3 : (zlen d =? 0) = false) by (apply Z.eqb_neq; lia).
  destruct H15 as [[Hs _]|Hs]; subst step;
    repeat (progress (sx; rewrite ?Hnames, ?Hlook, ?Hm, ?E1, ?E2, ?E3;
                      unfold fsm_non_idle, fsm_advancement_s, sending_file_data_fsm, handle_retransmission,
                        prepare_progressing_file_data_pdu, prepare_file_data_pdu, fs_read_data));
    rewrite (read_len_eq (zlen d) seg off) by lia; rewrite ztake_min by lia;
    (eexists; split; [reflexivity|]);
    (split; [|split; [exact Hcl | reflexivity]]);
    unfold Inv; cbn; repeat split; try reflexivity; try lia;
    try (right; reflexivity).
Qed.

Local Opaque checksum_calculation.

Ltac unf_final :=
  unfold fsm_non_idle, fsm_advancement_s, sending_file_data_fsm, handle_retransmission,
    prepare_eof_pdu, handle_eof_sent, start_positive_ack_procedure_s, handle_waiting_for_ack,
    handle_positive_ack_procedures_s, handle_wait_for_finish, notice_of_completion_s, sreset_internal.

(* the sender between the EOF and the Finished PDU: everything retrieved, check timer running *)
Definition Wait (s : src) : Prop :=
  s_cfg s = c /\ s_state s = ST_BUSY /\ s_step s = SS_WAITING_FOR_FINISHED /\ s_queue s = [] /\ s_put s = Some p /\
  q_conf (s_p s) = cf /\ q_rcfg (s_p s) = Some r /\ q_tid (s_p s) = Some tid /\ clean (e_log (s_env s)).

Lemma step_eof_c : forall s, InvC (zlen d) s ->
  exists s', pump s = (s', Ok [PEof (hdr_of cf TOWARDS_RECEIVER) C_NO_ERROR cks (zlen d) None]) /\ Wait s'.
Proof.
  intros s [HI [Hcl Hqf]].
  destruct HI as (H1&H2&H3&H4&H5&H6&H7&H8&H9&H10&H11&H12&H13&H14&H15&H16&H17).
  destruct s as [cfg st step ready queue q sb pt sc sbits [nw fs' rw lg]].
  destruct q. cbn in H1,H2,H3,H4,H5,H6,H7,H8,H9,H10,H11,H12,H13,H14,H15,Hcl,Hqf. subst.
  unfold pump, pump_with, state_machine_s.
  assert (E1 : (zlen d <? zlen d) = false) by (apply Z.ltb_irrefl).
  assert (E4 : zlen d = 0 -> (zlen d =? 0) = true) by (intro Hz; apply Z.eqb_eq; exact Hz).
  assert (E6 : (l_check_ms c <=? 0) = false) by (apply Z.leb_gt; exact Hchk).
  destruct (l_ind_eof_sent c) eqn:Ee;
  (destruct H15 as [[Hs Hz]|Hs]; subst step; [pose proof (E4 Hz) as E7 | pose proof E1 as E7]);
  repeat (progress (sx; rewrite ?Hnames, ?Hlook, ?Hm, ?Ee, ?Hfin, ?zsub_diag, ?zeqb_refl, ?E1, ?E7, ?E6;
                    rewrite ?(cc_ok p r fs d cks seg sn dn Hnames Hlook Hck) by reflexivity; unf_final));
  (eexists; split; [reflexivity|]); unfold Wait; cbn;
  repeat (split; [reflexivity|]);
  repeat (apply clean_cons; [reflexivity|reflexivity|]); exact Hcl.
Qed.

(* the Finished PDU arrives: Transaction-Finished indication with its values, back to idle *)
Lemma step_fin_c : forall s cond deliv fstat fl,
  sc_src cf = l_id c -> sc_dst cf = r_id r -> Wait s ->
  exists s' lg0, pump_with (Some (PFinished (hdr_of cf TOWARDS_SENDER) cond deliv fstat fl)) s = (s', Ok []) /\
             s_state s' = ST_IDLE /\
             e_log (s_env s') = EvFinished (fst tid) (snd tid) cond deliv fstat fl :: lg0 /\ clean lg0.
Proof.
  intros s cond deliv fstat fl Hsrc Hdst (H1&H2&H3&H4&H5&H6&H7&H8&Hcl).
  destruct s as [cfg st step ready queue q sb pt sc sbits [nw fs' rw lg]].
  destruct q. cbn in H1,H2,H3,H4,H5,H6,H7,H8,Hcl. subst.
  unfold pump_with, state_machine_s, check_inserted_packet_s.
  repeat (progress (sx; rewrite ?Hm, ?Hfin, ?Hsrc, ?Hdst, ?zeqb_refl; unf_final)).
  eexists; eexists. split; [reflexivity|]. cbn.
  split; [reflexivity|]. split; [reflexivity|]. exact Hcl.
Qed.

End Sender.

Lemma md_pump_c : forall c p r fs d cf seg tid sn dn, pr_names p = Some (sn, dn) ->
  forall s, InvC c p r fs d cf seg tid 0 s ->
  exists s3,
    (match prepare_metadata_pdu s with
     | (s'', Ok _) => let '(s3, ps) := drain_s s'' in (s3, Ok ps)
     | (s'', Err e) => (s'', Err e)
     end) =
    (s3, Ok [PMetadata (hdr_of cf TOWARDS_RECEIVER) true (r_cktype r) (zlen d) (Some (sn, dn))
               (match pr_msgs p with Some l => l | None => [] end)]) /\
    InvC c p r fs d cf seg tid 0 s3.
Proof.
  intros c p r fs d cf seg tid sn dn Hnames s [HI [Hcl Hqf]].
  destruct HI as (H1&H2&H3&H4&H5&H6&H7&H8&H9&H10&H11&H12&H13&H14&H15&H16&H17).
  destruct s as [cfg st step ready queue q sb pt sc sbits [nw fs' rw lg]].
  destruct q. cbn in H1,H2,H3,H4,H5,H6,H7,H8,H9,H10,H11,H12,H13,H14,H15,Hcl,Hqf. subst.
  unfold prepare_metadata_pdu, drain_s.
  repeat (progress (sx; rewrite ?Hnames)).
  eexists. split; [reflexivity|].
  split; [|split; [exact Hcl|reflexivity]].
  unfold Inv; cbn. repeat split; try reflexivity; try lia; exact H15.
Qed.

Lemma ts_ok_c : forall (c : lcfg) (seq0 bits : Z) (fs : tree) (p : putreq) (r : rcfg) (sn dn : path) (d : bytes)
    (mode : Z),
  let w := Z.max (l_idw c) (pr_dstw p) in
  let large := 4294967295 <? zlen d in
  let derived := r_max_packet r - (4 + 2 * w + bits / 8) - (if large then 8 else 4) - (if r_crc r then 2 else 0) in
  let seg := match r_max_seg r with Some m => Z.min m derived | None => derived end in
  let cf := mkSconf (l_id c) w (pr_dst p) w seq0 (bits / 8) mode large (r_crc r) in
  pr_names p = Some (sn, dn) -> lookup fs sn = Some (File d) ->
  (bits = 8 \/ bits = 16 \/ bits = 32) -> 0 <= seq0 < 2 ^ bits ->
  1 <= seg -> 6 <= derived ->
  exists s2,
    transaction_start (st1 c p r fs seq0 bits mode true SS_TRANSACTION_START) = (s2, Ok tt) /\
    InvC c p r fs d cf seg (l_id c, seq0) 0 (s2 <| s_step := SS_SENDING_METADATA |>).
Proof.
  intros c seq0 bits fs p r sn dn d mode w large derived seg cf Hn Hl Hb Hs Hseg Hd6.
  assert (Hd : 1 <= derived).
  { unfold seg in Hseg. destruct (r_max_seg r); lia. }
  destruct p as [dst dstw pm pc pn pmsg]. cbn in Hn, w, cf. subst pn.
  subst cf seg derived large w.
  unfold st1.
  assert (Hlen : 0 <= zlen d) by (unfold zlen; lia).
  assert (E2 : (2 ^ bits <=? seq0) = false) by (apply Z.leb_gt; lia).
  assert (E3 : (bits =? 8) || (bits =? 16) || (bits =? 32) = true).
  { destruct Hb as [Hb|[Hb|Hb]]; subst bits; reflexivity. }
  unfold transaction_start.
  destruct (zlen d =? 0) eqn:Ez.
  - pose proof Ez as Ez'. apply Z.eqb_eq in Ez'. rewrite Ez' in Hd, Hd6. cbn in Hd, Hd6.
    repeat (progress (sx; rewrite ?Hl, ?Ez, ?E2, ?E3;
                      rewrite ?mfsl_ok by (unfold hdr_len, fss_len, crc_len; cbn; lia);
                      rewrite ?eof_fits_pl by (unfold hdr_len, fss_len, crc_len; cbn; lia);
                      unfold fs_file_exists, exists_, fs_file_size)).
    unfold InvC, Inv. rewrite Ez'. eexists. split; [reflexivity|]. unfold set; cbn.
    split; [|split; [apply clean_cons; [reflexivity|reflexivity|apply clean_nil]|reflexivity]].
    repeat split; try reflexivity; try lia; try (left; split; reflexivity).
    unfold hdr_len, crc_len. cbn.
    destruct (r_max_seg r) as [m|]; [|lia].
    destruct (m <? _) eqn:E; [apply Z.ltb_lt in E | apply Z.ltb_ge in E]; lia.
  - pose proof Ez as Ez'. apply Z.eqb_neq in Ez'.
    repeat (progress (sx; rewrite ?Hl, ?Ez, ?E2, ?E3;
                      rewrite ?mfsl_ok by (unfold hdr_len, fss_len, crc_len; cbn; lia);
                      rewrite ?eof_fits_pl by (unfold hdr_len, fss_len, crc_len; cbn; lia);
                      unfold fs_file_exists, exists_, fs_file_size)).
    unfold InvC, Inv. eexists. split; [reflexivity|]. unfold set; cbn.
    split; [|split; [apply clean_cons; [reflexivity|reflexivity|apply clean_nil]|reflexivity]].
    repeat split; try reflexivity; try lia; try (left; split; reflexivity).
    unfold hdr_len, crc_len, fss_len. cbn.
    destruct (r_max_seg r) as [m|]; [|lia].
    destruct (m <? _) eqn:E; [apply Z.ltb_lt in E | apply Z.ltb_ge in E]; lia.
Qed.

(* the first call on the handler that accepted the put request: Metadata PDU with the closure flag *)
Lemma first_call_c : forall (c : lcfg) (seq0 bits : Z) (fs : tree) (p : putreq) (r : rcfg) (sn dn : path) (d : bytes),
  let w := Z.max (l_idw c) (pr_dstw p) in
  let large := 4294967295 <? zlen d in
  let derived := r_max_packet r - (4 + 2 * w + bits / 8) - (if large then 8 else 4) - (if r_crc r then 2 else 0) in
  let seg := match r_max_seg r with Some m => Z.min m derived | None => derived end in
  let cf := mkSconf (l_id c) w (pr_dst p) w seq0 (bits / 8) UNACKED large (r_crc r) in
  get_remote (l_remotes c) (pr_dst p) = Some r ->
  pr_names p = Some (sn, dn) -> lookup fs sn = Some (File d) ->
  (match pr_mode p with Some m => m | None => r_mode r end) = UNACKED ->
  (match pr_closure p with Some b => b | None => r_closure r end) = true ->
  (bits = 8 \/ bits = 16 \/ bits = 32) -> 0 <= seq0 < 2 ^ bits -> 1 <= seg -> 6 <= derived ->
  exists s1 s3,
    put_request p (src_fresh c seq0 bits fs) = (s1, Ok true) /\
    pump s1 = (s3, Ok [PMetadata (hdr_of cf TOWARDS_RECEIVER) true (r_cktype r) (zlen d) (Some (sn, dn))
                         (match pr_msgs p with Some l => l | None => [] end)]) /\
    InvC c p r fs d cf seg (l_id c, seq0) 0 s3.
Proof.
  intros c seq0 bits fs p r sn dn d w large derived seg cf Hr Hn Hl Hmode Hclo Hb Hs Hseg Hd6.
  destruct (ts_ok_c c seq0 bits fs p r sn dn d UNACKED Hn Hl Hb Hs Hseg Hd6) as [s2 [T1 T2]].
  fold w large cf in T2. fold derived in T2. fold seg in T2.
  destruct (md_pump_c c p r fs d cf seg (l_id c, seq0) sn dn Hn _ T2) as [s3 [M1 M2]].
  eexists. exists s3. split; [|split; [|exact M2]].
  - rewrite (pr_ok c seq0 bits fs p r sn dn d Hr Hn Hl), Hmode, Hclo. reflexivity.
  - rewrite pump_call1, T1. exact M1.
Qed.

End SenderSide.

(* ================================================================== *)
(* 2. the receiver with closure requested (symbolic execution)         *)
(* ================================================================== *)
Section Receiver.
Variables (cd : lcfg) (rd : rcfg) (x : Z) (crc large : bool) (srcid idw seq seqw ckt fsz : Z).
Hypothesis Hrem : get_remote (l_remotes cd) srcid = Some rd.
Hypothesis Hfin : l_ind_fin cd = true.

Notation hS := (hS cd crc large srcid idw seq seqw).

(* as PerfectLinkProofs.dstate, closure requested *)
Definition dstateC (off : Z) (fs : tree) (lg : list event) : dst :=
  mkDst cd ST_BUSY DS_RECEIVING_FILE_DATA (Some (srcid, seq)) 0 []
    (mkDP (Some (srcid, seq)) (Some rd) None 0 true ckt (mkFin DATA_INCOMPLETE FS_RETAINED C_NO_ERROR None)
          DISP_COMPLETED (set_dir TOWARDS_SENDER hS) off [] (Some fsz) [x] None false [] false 0 0 false None 0 None 0)
    (mkEnv 0 fs false lg).

Lemma idle_md_c : forall sn msgs,
  idle_fsm (Some (PMetadata hS true ckt fsz (Some (sn, [x])) msgs)) (dst_init cd) =
    (dstateC 0 [([x], File [])] [EvMetadataRecv srcid seq srcid (Some fsz) (Some (sn, [x])) msgs], Ok tt).
Proof.
  intros sn msgs. unfold idle_fsm, start_transaction, dst_init, fresh_params, PerfectLinkProofs.hS.
  mrun. unfold common_first_packet_handler. mrun. rewrite Hrem.
  unfold handle_metadata_packet. mrun.
  erewrite b_ok by (apply (init_vfs_run x); reflexivity). mrun.
  reflexivity.
Qed.

Lemma handle_fd_run_c : forall off data fs lg old, lookup fs [x] = Some (File old) ->
  handle_fd_pdu off data (dstateC off fs lg) =
    (dstateC (Z.max (off + zlen data) off) (set_node fs [x] (File (write_at old off data)))
            (if l_ind_seg cd then EvSegmentRecv srcid seq off (zlen data) :: lg else lg), Ok tt).
Proof.
  intros off data fs lg old Hl. unfold handle_fd_pdu, dstateC, PerfectLinkProofs.hS. mrun.
  destruct (l_ind_seg cd); mrun; apply catch_ok; mrun; unfold vfs_write; mrun;
    cbn [e_fs]; unfold fs_write_data; rewrite Hl; cbv iota; mrun; reflexivity.
Qed.

Lemma nif_md_c : forall fuel cl ck sz names msgs off fs lg,
  non_idle_fsm (S fuel) (Some (PMetadata hS cl ck sz names msgs)) (dstateC off fs lg) = (dstateC off fs lg, Ok tt).
Proof.
  intros. cbn [non_idle_fsm]. rewrite (b_ok _ _ _ _ _ (fsm_adv_nop (dstateC off fs lg) eq_refl eq_refl)).
  unfold dstateC, PerfectLinkProofs.hS. mrun. reflexivity.
Qed.

Lemma nif_fd_c : forall fuel off data fs lg old, lookup fs [x] = Some (File old) ->
  non_idle_fsm (S fuel) (Some (PFileData hS off data)) (dstateC off fs lg) =
    (dstateC (Z.max (off + zlen data) off) (set_node fs [x] (File (write_at old off data)))
            (if l_ind_seg cd then EvSegmentRecv srcid seq off (zlen data) :: lg else lg), Ok tt).
Proof.
  intros fuel off data fs lg old Hl. cbn [non_idle_fsm].
  rewrite (b_ok _ _ _ _ _ (fsm_adv_nop (dstateC off fs lg) eq_refl eq_refl)).
  unfold dstateC at 1, PerfectLinkProofs.hS. mrun. fold hS. fold (dstateC off fs lg).
  rewrite (b_ok _ _ _ _ _ (handle_fd_run_c off data fs lg old Hl)).
  unfold dstateC, PerfectLinkProofs.hS. mrun. reflexivity.
Qed.

Lemma sm_md_c : forall sn msgs,
  Dest.state_machine (Some (PMetadata hS true ckt fsz (Some (sn, [x])) msgs)) (dst_init cd) =
    (dstateC 0 [([x], File [])] [EvMetadataRecv srcid seq srcid (Some fsz) (Some (sn, [x])) msgs], Ok tt).
Proof.
  intros sn msgs. unfold Dest.state_machine.
  rewrite (b_ok _ _ _ _ _ (check_md cd rd crc large srcid idw seq seqw Hrem _ _ _ _ _ (dst_init cd) eq_refl eq_refl)).
  unfold catch_abandoned; apply catch_ok.
  unfold dst_init at 1. mrun. fold (dst_init cd).
  rewrite (b_ok _ _ _ _ _ (idle_md_c sn msgs)).
  unfold dstateC at 1, PerfectLinkProofs.hS. mrun. fold hS.
  apply nif_md_c.
Qed.

Lemma sm_fd_c : forall off data fs lg old, lookup fs [x] = Some (File old) ->
  Dest.state_machine (Some (PFileData hS off data)) (dstateC off fs lg) =
    (dstateC (Z.max (off + zlen data) off) (set_node fs [x] (File (write_at old off data)))
            (if l_ind_seg cd then EvSegmentRecv srcid seq off (zlen data) :: lg else lg), Ok tt).
Proof.
  intros off data fs lg old Hl. unfold Dest.state_machine.
  rewrite (b_ok _ _ _ _ _ (check_fd cd rd crc large srcid idw seq seqw Hrem off data (dstateC off fs lg) eq_refl eq_refl)).
  unfold catch_abandoned; apply catch_ok.
  unfold dstateC at 1, PerfectLinkProofs.hS. mrun. fold hS.
  apply nif_fd_c. exact Hl.
Qed.

(* the Finished PDU of a complete transfer *)
Definition finpdu : pdu := PFinished (set_dir TOWARDS_SENDER hS) C_NO_ERROR DATA_COMPLETE FS_RETAINED None.

(* after the EOF: idle again, the Finished PDU queued *)
Definition dfinalC (fs : tree) (lg : list event) : dst :=
  mkDst cd ST_IDLE DS_IDLE (Some (srcid, seq)) 1 [finpdu] fresh_params (mkEnv 0 fs false lg).

Ltac dpr :=
  cbn [d_cfg d_state d_step d_states_tid d_ready d_queue d_p d_env
       p_tid p_rcfg p_check_timer p_check_count p_closure p_cktype p_fin p_disp p_conf p_progress p_crc32 p_file_size
       p_file_name p_file_size_eof p_md_only p_tracker p_md_missing p_last_start p_last_end p_deferred p_proc_timer
       p_nak_counter p_ack_timer p_ack_counter f_deliv f_fstatus f_cond f_fl e_now e_fs e_reject_writes e_log
       h_dir h_mode h_crc h_large h_src h_dst h_idw h_seq h_seqw fst snd opt_z].

Lemma nif_eof_c : forall fuel cks fl fs lg data,
  lookup fs [x] = Some (File data) -> calculate_checksum ckt (Some data) fsz 4096 = Ok cks ->
  non_idle_fsm (S fuel) (Some (PEof hS C_NO_ERROR cks fsz fl)) (dstateC fsz fs lg) =
    (dfinalC fs (EvFinished srcid seq C_NO_ERROR DATA_COMPLETE FS_RETAINED None ::
                (if l_ind_eof_recv cd then [EvEofRecv srcid seq] else []) ++ lg), Ok tt).
Proof.
  intros fuel cks fl fs lg data Hl Hck. cbn [non_idle_fsm].
  rewrite (b_ok _ _ _ _ _ (fsm_adv_nop (dstateC fsz fs lg) eq_refl eq_refl)).
  unfold dstateC at 1, PerfectLinkProofs.hS. mrun. unfold handle_eof_pdu. mrun.
  destruct (l_ind_eof_recv cd); unfold tid_or_assert; mrun;
  unfold handle_no_error_eof; mrun; dpr; rewrite Z.ltb_irrefl; cbn [andb]; mrun;
  unfold checksum_verify; mrun; dpr;
  (destruct (ckt =? CK_NULL) eqn:Eck; cbn [orb]; mrun;
   [| unfold vfs_checksum; mrun; rewrite Eck; mrun; rewrite Hl, Hck; cbv iota; mrun; rewrite bytes_eqb_refl; dpr; rewrite Z.leb_refl; cbn [andb]; mrun]);
  unfold file_transfer_complete_transition; mrun;
  unfold handle_transfer_completion, notice_of_completion; mrun; rewrite Hfin; mrun; dpr; mrun;
  unfold prepare_finished_pdu, conf, add_packet; mrun;
  unfold handle_finished_pdu_sent; mrun;
  unfold reset_internal; mrun; reflexivity.
Qed.

Lemma sm_eof_c : forall cks fl fs lg data,
  lookup fs [x] = Some (File data) -> calculate_checksum ckt (Some data) fsz 4096 = Ok cks ->
  Dest.state_machine (Some (PEof hS C_NO_ERROR cks fsz fl)) (dstateC fsz fs lg) =
    (dfinalC fs (EvFinished srcid seq C_NO_ERROR DATA_COMPLETE FS_RETAINED None ::
                (if l_ind_eof_recv cd then [EvEofRecv srcid seq] else []) ++ lg), Ok tt).
Proof.
  intros cks fl fs lg data Hl Hck. unfold Dest.state_machine.
  rewrite (b_ok _ _ _ _ _ (check_eof cd rd crc large srcid idw seq seqw Hrem C_NO_ERROR cks fsz fl (dstateC fsz fs lg) eq_refl eq_refl)).
  unfold catch_abandoned; apply catch_ok.
  unfold dstateC at 1, PerfectLinkProofs.hS. mrun. fold hS.
  eapply nif_eof_c; eassumption.
Qed.

(* an empty call on the idle receiver *)
Lemma sm_idle_none : forall tidopt fs lg,
  Dest.state_machine None (mkDst cd ST_IDLE DS_IDLE tidopt 0 [] fresh_params (mkEnv 0 fs false lg)) =
    (mkDst cd ST_IDLE DS_IDLE tidopt 0 [] fresh_params (mkEnv 0 fs false lg), Ok tt).
Proof. intros. reflexivity. Qed.
End Receiver.

(* ================================================================== *)
(* 3. the system: rounds with a PDU travelling back                     *)
(* ================================================================== *)
Local Opaque state_machine_s Dest.state_machine.

(* an API call of the sender with any input *)
Lemma call_src_with : forall pkt s s2 ps dd q1 q2 c1 c2 rnd scur dcur sdone ddone,
  pump_with pkt s = (s2, Ok ps) ->
  exists scur' sdone',
  call_src pkt (mkSys s dd q1 q2 c1 c2 [] rnd scur dcur sdone ddone [] []) =
   (emit_pdus 0 (flat_map ow ps) (mkSys s2 dd q1 q2 c1 c2 [] rnd scur' dcur sdone' ddone [] []), zlen ps).
Proof.
  intros pkt s s2 ps dd q1 q2 c1 c2 rnd scur dcur sdone ddone H.
  unfold pump_with in H.
  destruct (state_machine_s pkt s) as [s1 [u|e]] eqn:Hsm; [|discriminate H].
  unfold drain_s in H. injection H as <- <-.
  destruct (nds_shape s1 dd q1 q2 c1 c2 [] rnd scur dcur sdone ddone [] []) as (sc & sd & E).
  exists sc, sd.
  unfold call_src. ypr. rewrite Hsm. ypr. rewrite E. ypr. unfold drain_s. reflexivity.
Qed.

(* an API call of the receiver that leaves PDUs to be retrieved *)
Lemma call_dst_out : forall pkt dd dd2 dd3 ps s q1 q2 c1 c2 rnd scur dcur sdone ddone,
  Dest.state_machine pkt dd = (dd2, Ok tt) -> drain_d dd2 = (dd3, ps) ->
  exists dcur' ddone',
  call_dst pkt (mkSys s dd q1 q2 c1 c2 [] rnd scur dcur sdone ddone [] []) =
   (emit_pdus 1 (flat_map ow ps) (mkSys s dd3 q1 q2 c1 c2 [] rnd scur dcur' sdone ddone' [] []), zlen ps).
Proof.
  intros pkt dd dd2 dd3 ps s q1 q2 c1 c2 rnd scur dcur sdone ddone H1 H2.
  destruct (ndd_shape s dd2 q1 q2 c1 c2 [] rnd scur dcur sdone ddone [] []) as (dc & dn & E).
  exists dc, dn.
  unfold call_dst. ypr. rewrite H1. ypr. rewrite E. ypr. rewrite H2. reflexivity.
Qed.

Lemma emit_one_back : forall p s dd q1 q2 c1 c2 dl rnd scur dcur sdone ddone er,
  emit_pdus 1 [p] (mkSys s dd q1 q2 c1 c2 dl rnd scur dcur sdone ddone er []) =
  mkSys s dd q1 (q2 ++ [p]) c1 (c2 + 1) dl rnd scur dcur sdone ddone er [].
Proof. reflexivity. Qed.

(* the system while one PDU travels back to the sender *)
Definition Yb (s : src) (dd : dst) (po : pdu) (c1 c2 rnd : Z) (scur dcur : option (Z * Z))
              (sdone ddone : list (Z * Z)) : sys :=
  mkSys s dd [] [po] c1 c2 [] rnd scur dcur sdone ddone [] [].

(* one PDU forward, the receiver answers with one PDU *)
Lemma round_answer : forall s s2 pd dd dd2 dd3 po c1 c2 rnd scur dcur sdone ddone,
  pump s = (s2, Ok [pd]) -> on_wire pd = Some pd ->
  (d_state dd =? ST_IDLE) && tid_mem (h_src (pdu_hdr pd), h_seq (pdu_hdr pd)) ddone = false ->
  (d_state dd =? ST_BUSY) &&
    match p_tid (d_p dd) with
    | Some t => negb (tid_eqb (h_src (pdu_hdr pd), h_seq (pdu_hdr pd)) t) | None => false end = false ->
  Dest.state_machine (Some pd) dd = (dd2, Ok tt) -> drain_d dd2 = (dd3, [po]) -> on_wire po = Some po ->
  exists c1' c2' scur' dcur' sdone' ddone' a,
    step_round (Y s dd c1 c2 rnd scur dcur sdone ddone) =
      (Yb s2 dd3 po c1' c2' (rnd + 1) scur' dcur' sdone' ddone', a) /\ 0 < a.
Proof.
  intros s s2 pd dd dd2 dd3 po c1 c2 rnd scur dcur sdone ddone Hp How G1 G2 Hd Hdr Howo.
  destruct (call_src_pump s s2 [pd] dd [] [] c1 c2 (rnd + 1) scur dcur sdone ddone Hp) as (scur' & sdone' & E).
  destruct (call_dst_out (Some pd) dd dd2 dd3 [po] s2 [] [] (c1 + 1) c2 (rnd + 1) scur' dcur sdone' ddone Hd Hdr)
    as (dcur' & ddone' & E2).
  exists (c1 + 1), (c2 + 1), scur', dcur', sdone', ddone'. eexists.
  rewrite step_round_Y. unfold Y. cbv zeta. rewrite E.
  cbn [flat_map app]. unfold ow. rewrite How. cbn [app]. rewrite emit_one.
  ypr. cbn [app]. rewrite deliver_all_one. rewrite deliver_to_dest_pass by assumption. rewrite E2.
  cbn [flat_map app]. unfold ow. rewrite Howo. cbn [app]. rewrite emit_one_back.
  ypr. cbn [app]. split; [reflexivity|].
  change (zlen [pd]) with 1. change (zlen [po]) with 1.
  destruct ((s_state s =? s_state s2) && (s_step s =? s_step s2)); lia.
Qed.

(* the PDU travelling back is delivered to the busy sender, which answers nothing; the idle receiver is called empty *)
Lemma round_back : forall s s2 po dd c1 c2 rnd scur dcur sdone ddone,
  s_state s = ST_BUSY -> pump_with (Some po) s = (s2, Ok []) ->
  Dest.state_machine None dd = (dd, Ok tt) -> drain_d dd = (dd, []) ->
  exists scur' dcur' sdone' ddone' a,
    step_round (Yb s dd po c1 c2 rnd scur dcur sdone ddone) = (Y s2 dd c1 c2 (rnd + 1) scur' dcur' sdone' ddone', a).
Proof.
  intros s s2 po dd c1 c2 rnd scur dcur sdone ddone Hb Hp Hd Hdr.
  destruct (call_src_with (Some po) s s2 [] dd [] [] c1 c2 (rnd + 1) scur dcur sdone ddone Hp) as (scur' & sdone' & E).
  destruct (call_dst_ok None dd dd s2 [] [] c1 c2 (rnd + 1) scur' dcur sdone' ddone Hd Hdr) as (dcur' & ddone' & E2).
  exists scur', dcur', sdone', ddone'. eexists.
  unfold step_round, Yb, release_delayed. ypr. cbn [fold_left]. ypr.
  rewrite deliver_all_one. unfold deliver_to_source. ypr. rewrite Hb. change (ST_BUSY =? ST_IDLE) with false. cbv iota.
  rewrite E. cbn [flat_map emit_pdus]. ypr. rewrite deliver_all_nil. ypr. rewrite E2. ypr. reflexivity.
Qed.

(* ------------------------------------------------------------------ the two-entity system, round by round *)
Lemma get_remote_id : forall l id r, get_remote l id = Some r -> r_id r = id.
Proof.
  induction l as [|r0 l IH]; intros id r H; [discriminate H|].
  cbn [get_remote] in H. destruct (r_id r0 =? id) eqn:E.
  - injection H as <-. apply Z.eqb_eq. exact E.
  - apply IH. exact H.
Qed.

Section Sys.
Variables (cs cd : lcfg) (p : putreq) (rs rd : rcfg) (sn : path) (x : Z) (data cks : bytes) (cf : sconf) (seg tick : Z).
Variable fss : tree.
Hypothesis Hnames : pr_names p = Some (sn, [x]).
Hypothesis Hlook : lookup fss sn = Some (File data).
Hypothesis Hseg : 1 <= seg.
Hypothesis Hm : sc_mode cf = UNACKED.
Hypothesis Hck : calculate_checksum (r_cktype rs) (Some data) (zlen data) seg = Ok cks.
Hypothesis Hck2 : calculate_checksum (r_cktype rs) (Some data) (zlen data) 4096 = Ok cks.
Hypothesis Hfins : l_ind_fin cs = true.
Hypothesis Hfind : l_ind_fin cd = true.
Hypothesis Hchk : 0 < l_check_ms cs.
Hypothesis Hrem : get_remote (l_remotes cd) (sc_src cf) = Some rd.
Hypothesis Hdst : sc_dst cf = l_id cd.
Hypothesis Hsrc : sc_src cf = l_id cs.
Hypothesis Hrid : sc_dst cf = r_id rs.

Notation tid0 := (tid0 cf).
Notation hR := (hR cd cf).
Definition DSC (off : Z) (fs : tree) (lg : list event) : dst :=
  dstateC cd rd x (sc_crc cf) (sc_large cf) (sc_src cf) (sc_srcw cf) (sc_seq cf) (sc_seqw cf) (r_cktype rs) (zlen data)
          off fs lg.
Notation DF := (DF cd cf).
(* the Finished PDU of this transaction *)
Definition finP : pdu := PFinished (hdr_of cf TOWARDS_SENDER) C_NO_ERROR DATA_COMPLETE FS_RETAINED None.

Lemma finP_eq : finpdu cd (sc_crc cf) (sc_large cf) (sc_src cf) (sc_srcw cf) (sc_seq cf) (sc_seqw cf) = finP.
Proof. unfold finpdu, finP, hdr_of, hS, set_dir. cbn [h_mode h_crc h_large h_src h_dst h_idw h_seq h_seqw]. rewrite Hm, Hdst. reflexivity. Qed.

Definition SInvC (off : Z) (y : sys) : Prop :=
  exists s fs lg c1 c2 rnd scur dcur sdone ddone,
    y = Y s (DSC off fs lg) c1 c2 rnd scur dcur sdone ddone /\
    InvC cs p rs fss data cf seg tid0 off s /\
    lookup fs [x] = Some (File (ztake off data)) /\ clean lg.

Lemma guard_busy_c : forall pkt off fs lg ddone, pdu_hdr pkt = hR ->
  (d_state (DSC off fs lg) =? ST_IDLE) && tid_mem (h_src (pdu_hdr pkt), h_seq (pdu_hdr pkt)) ddone = false /\
  (d_state (DSC off fs lg) =? ST_BUSY) &&
    match p_tid (d_p (DSC off fs lg)) with
    | Some t => negb (tid_eqb (h_src (pdu_hdr pkt), h_seq (pdu_hdr pkt)) t) | None => false end = false.
Proof.
  intros pkt off fs lg ddone H. rewrite H. split; [reflexivity|].
  unfold DSC, dstateC, PerfectLinkProofs.hR, hS, tid_eqb. cbn [d_state d_p p_tid h_src h_seq fst snd].
  rewrite !Z.eqb_refl. reflexivity.
Qed.

(* a File Data round *)
Lemma round_fd_c : forall off y, SInvC off y -> off < zlen data ->
  exists y' a, step_round y = (y', a) /\ 0 < a /\ quiescent y' = false /\
               SInvC (off + Z.min seg (zlen data - off)) y'.
Proof.
  intros off y (s & fs & lg & c1 & c2 & rnd & scur & dcur & sdone & ddone & -> & HI & Hl & Hc) Hlt.
  pose proof (InvC_range _ _ _ _ _ _ _ _ _ _ HI) as Hr.
  destruct (step_fd_c cs p rs fss data cf seg tid0 sn [x] Hnames Hlook Hseg Hm off s HI Hlt) as (s' & P & HI').
  unfold fd_of in P. cbn [fst snd] in P. rewrite (hdr_eq cd cf Hm Hdst) in P.
  set (tile := ztake seg (zdrop off data)) in *.
  assert (Htl : zlen tile = Z.min seg (zlen data - off)) by (apply tile_len; lia).
  assert (How : on_wire (PFileData hR off tile) = Some (PFileData hR off tile)).
  { destruct tile; [change (zlen (@nil Z)) with 0 in Htl; lia | reflexivity]. }
  destruct (guard_busy_c (PFileData hR off tile) off fs lg ddone eq_refl) as [G1 G2].
  pose proof (sm_fd_c cd rd x (sc_crc cf) (sc_large cf) (sc_src cf) (sc_srcw cf) (sc_seq cf) (sc_seqw cf)
                (r_cktype rs) (zlen data) Hrem off tile fs lg _ Hl) as Hsm.
  fold hR in Hsm. rewrite Z.max_l in Hsm by lia. rewrite Htl in Hsm.
  destruct (round_generic s s' _ _ _ c1 c2 rnd scur dcur sdone ddone P How G1 G2 Hsm eq_refl)
    as (c1' & scur' & dcur' & sdone' & ddone' & a & R & Ha).
  eexists. exists a. split; [exact R|]. split; [exact Ha|]. split.
  - unfold quiescent, Y. cbn [y_src]. rewrite (InvC_busy _ _ _ _ _ _ _ _ _ _ HI'). reflexivity.
  - do 10 eexists. split; [reflexivity|]. split; [exact HI'|]. split.
    + rewrite lookup_set_node by discriminate. rewrite path_eqb_refl. f_equal. f_equal.
      apply write_append; lia.
    + destruct (l_ind_seg cd); [apply clean_cons; [reflexivity|reflexivity|exact Hc] | exact Hc].
Qed.

(* between the EOF round and the last round: the receiver is done and idle, its Finished PDU travels, the sender waits *)
Definition Mid (y : sys) : Prop :=
  exists s fs lgd c1 c2 rnd scur dcur sdone ddone,
    y = Yb s (DF fs (EvFinished (sc_src cf) (sc_seq cf) C_NO_ERROR DATA_COMPLETE FS_RETAINED None :: lgd)) finP
           c1 c2 rnd scur dcur sdone ddone /\
    Wait cs p rs cf tid0 s /\ clean lgd /\ lookup fs [x] = Some (File data).

(* what the verdict looks at, after the last round: the sender reports the values of the Finished PDU *)
Definition FinalC (y : sys) : Prop :=
  exists s fs lgs lgd c1 c2 rnd scur dcur sdone ddone,
    y = Y s (DF fs (EvFinished (sc_src cf) (sc_seq cf) C_NO_ERROR DATA_COMPLETE FS_RETAINED None :: lgd))
          c1 c2 rnd scur dcur sdone ddone /\
    e_log (s_env s) = EvFinished (sc_src cf) (sc_seq cf) C_NO_ERROR DATA_COMPLETE FS_RETAINED None :: lgs /\
    clean lgs /\ clean lgd /\ lookup fs [x] = Some (File data).

(* the EOF round: the receiver completes and answers with the Finished PDU *)
Lemma round_eof_c : forall y, SInvC (zlen data) y ->
  exists y' a, step_round y = (y', a) /\ 0 < a /\ quiescent y' = false /\ Mid y'.
Proof.
  intros y (s & fs & lg & c1 & c2 & rnd & scur & dcur & sdone & ddone & -> & HI & Hl & Hc).
  destruct (step_eof_c cs p rs fss data cks cf seg tid0 sn [x] Hnames Hlook Hm Hck Hchk s HI) as (s' & P & HW).
  rewrite (hdr_eq cd cf Hm Hdst) in P. rewrite ztake_all in Hl.
  destruct (guard_busy_c (PEof hR C_NO_ERROR cks (zlen data) None) (zlen data) fs lg ddone eq_refl) as [G1 G2].
  pose proof (sm_eof_c cd rd x (sc_crc cf) (sc_large cf) (sc_src cf) (sc_srcw cf) (sc_seq cf) (sc_seqw cf)
                (r_cktype rs) (zlen data) Hrem Hfind cks None fs lg data Hl Hck2) as Hsm.
  fold hR in Hsm.
  assert (Hdr : drain_d (dfinalC cd (sc_crc cf) (sc_large cf) (sc_src cf) (sc_srcw cf) (sc_seq cf) (sc_seqw cf) fs
                  (EvFinished (sc_src cf) (sc_seq cf) C_NO_ERROR DATA_COMPLETE FS_RETAINED None ::
                   (if l_ind_eof_recv cd then [EvEofRecv (sc_src cf) (sc_seq cf)] else []) ++ lg)) =
                (DF fs (EvFinished (sc_src cf) (sc_seq cf) C_NO_ERROR DATA_COMPLETE FS_RETAINED None ::
                   (if l_ind_eof_recv cd then [EvEofRecv (sc_src cf) (sc_seq cf)] else []) ++ lg), [finP])).
  { rewrite <- finP_eq. reflexivity. }
  destruct (round_answer s s' _ _ _ _ finP c1 c2 rnd scur dcur sdone ddone P eq_refl G1 G2 Hsm Hdr eq_refl)
    as (c1' & c2' & scur' & dcur' & sdone' & ddone' & a & R & Ha).
  eexists. exists a. split; [exact R|]. split; [exact Ha|]. split.
  - unfold quiescent, Yb. cbn [y_src]. destruct HW as (_ & -> & _). reflexivity.
  - do 10 eexists. split; [reflexivity|]. split; [exact HW|]. split; [|exact Hl].
    apply clean_app; [|exact Hc].
    destruct (l_ind_eof_recv cd); [apply clean_cons; [reflexivity|reflexivity|apply clean_nil] | apply clean_nil].
Qed.

(* the last round: the Finished PDU reaches the sender *)
Lemma round_fin_c : forall y, Mid y ->
  exists y' a, step_round y = (y', a) /\ quiescent y' = true /\ FinalC y'.
Proof.
  intros y (s & fs & lgd & c1 & c2 & rnd & scur & dcur & sdone & ddone & -> & HW & Hc & Hl).
  destruct (step_fin_c cs p rs cf tid0 Hm Hfins s C_NO_ERROR DATA_COMPLETE FS_RETAINED None Hsrc Hrid HW)
    as (s' & lg0 & P & Hst & Hlog & Hc0).
  fold finP in P.
  assert (Hb : s_state s = ST_BUSY) by (destruct HW as (_ & H & _); exact H).
  destruct (round_back s s' finP (DF fs (EvFinished (sc_src cf) (sc_seq cf) C_NO_ERROR DATA_COMPLETE FS_RETAINED None :: lgd))
              c1 c2 rnd scur dcur sdone ddone Hb P (sm_idle_none cd _ _ _) eq_refl)
    as (scur' & dcur' & sdone' & ddone' & a & R).
  eexists. exists a. split; [exact R|]. split.
  - unfold quiescent, Y. cbn [y_src]. rewrite Hst. reflexivity.
  - do 11 eexists. split; [reflexivity|]. split; [exact Hlog|]. split; [exact Hc0|]. split; [exact Hc|exact Hl].
Qed.

(* all rounds after the Metadata round *)
Lemma run_rest_c : forall n off y, SInvC off y -> (length (zdrop off data) <= n)%nat ->
  exists y', run (S (S n)) tick y = (y', true) /\ FinalC y'.
Proof.
  assert (Tail : forall k y, SInvC (zlen data) y -> exists y', run (S (S k)) tick y = (y', true) /\ FinalC y').
  { intros k y HS.
    destruct (round_eof_c y HS) as (y1 & a & R & Ha & Q & HM).
    destruct (round_fin_c y1 HM) as (y' & a' & R' & Q' & F).
    exists y'. split; [|exact F].
    rewrite run_S, R. cbv iota beta. rewrite Q.
    assert (Ea : (a =? 0) = false) by (apply Z.eqb_neq; lia). rewrite Ea.
    rewrite run_S, R'. cbv iota beta. rewrite Q'. reflexivity. }
  induction n as [|n IH]; intros off y HS Hn.
  - assert (Hr : 0 <= off <= zlen data).
    { destruct HS as (s & fs & lg & c1 & c2 & rnd & scur & dcur & sdone & ddone & _ & HI & _).
      exact (InvC_range _ _ _ _ _ _ _ _ _ _ HI). }
    assert (Hz : zlen (zdrop off data) = 0) by (unfold zlen; lia).
    rewrite zlen_zdrop in Hz by lia. assert (off = zlen data) by lia. subst off.
    apply Tail. exact HS.
  - assert (Hr : 0 <= off <= zlen data).
    { destruct HS as (s & fs & lg & c1 & c2 & rnd & scur & dcur & sdone & ddone & _ & HI & _).
      exact (InvC_range _ _ _ _ _ _ _ _ _ _ HI). }
    destruct (Z.eq_dec off (zlen data)) as [He|He].
    + subst off. apply Tail. exact HS.
    + assert (Hlt : off < zlen data) by lia.
      destruct (round_fd_c off y HS Hlt) as (y1 & a & R & Ha & Q & HS').
      set (off' := off + Z.min seg (zlen data - off)) in *.
      assert (Hn' : (length (zdrop off' data) <= n)%nat).
      { assert (Hz : zlen (zdrop off data) = Z.max 0 (zlen data - off)) by (apply zlen_zdrop; lia).
        assert (Hz' : zlen (zdrop off' data) = Z.max 0 (zlen data - off')) by (apply zlen_zdrop; unfold off'; lia).
        unfold zlen in Hz, Hz'. unfold off' in *. lia. }
      destruct (IH off' y1 HS' Hn') as (y' & Rr & F).
      exists y'. split; [|exact F].
      rewrite run_S, R. cbv iota beta. rewrite Q.
      assert (Ea : (a =? 0) = false) by (apply Z.eqb_neq; lia). rewrite Ea. exact Rr.
Qed.

(* the Metadata round *)
Lemma round_md_c : forall s1 s3 c1 c2 rnd,
  pump s1 = (s3, Ok [PMetadata (hdr_of cf TOWARDS_RECEIVER) true (r_cktype rs) (zlen data) (Some (sn, [x])) []]) ->
  InvC cs p rs fss data cf seg tid0 0 s3 ->
  exists y' a, step_round (Y s1 (dst_init cd) c1 c2 rnd None None [] []) = (y', a) /\ 0 < a /\
               quiescent y' = false /\ SInvC 0 y'.
Proof.
  intros s1 s3 c1 c2 rnd P HI. rewrite (hdr_eq cd cf Hm Hdst) in P.
  pose proof (sm_md_c cd rd x (sc_crc cf) (sc_large cf) (sc_src cf) (sc_srcw cf) (sc_seq cf) (sc_seqw cf)
                (r_cktype rs) (zlen data) Hrem sn []) as Hsm.
  fold hR in Hsm.
  destruct (round_generic s1 s3 _ (dst_init cd) _ c1 c2 rnd None None [] [] P eq_refl eq_refl eq_refl Hsm eq_refl)
    as (c1' & scur' & dcur' & sdone' & ddone' & a & R & Ha).
  eexists. exists a. split; [exact R|]. split; [exact Ha|]. split.
  - unfold quiescent, Y. cbn [y_src]. rewrite (InvC_busy _ _ _ _ _ _ _ _ _ _ HI). reflexivity.
  - do 10 eexists. split; [reflexivity|]. split; [exact HI|]. split.
    + cbn [lookup lookup_raw path_eqb]. rewrite Z.eqb_refl. reflexivity.
    + apply clean_cons; [reflexivity|reflexivity|apply clean_nil].
Qed.

End Sys.

Lemma final_verdict_c : forall cd x data cf y,
  FinalC cd x data cf y ->
  delivered_ok [x] data (y, true) = true /\ y_errs y = [] /\
  existsb fault_event (e_log (s_env (y_src y))) = false /\
  existsb fault_event (e_log (d_env (y_dst y))) = false.
Proof.
  intros cd x data cf y (s & fs & lgs & lgd & c1 & c2 & rnd & scur & dcur & sdone & ddone & -> & Hs & [S1 S2] & [D1 D2] & Hl).
  unfold delivered_ok, Y, DF, dfinal, file_content.
  cbn [y_src y_dst y_errs d_env e_fs e_log]. rewrite Hs, Hl.
  cbn [filter success_event existsb fault_event hd andb orb]. rewrite S1, S2, D1, D2.
  rewrite bytes_eqb_refl. repeat split; reflexivity.
Qed.

(* ================================================================== *)
(* 4. the theorem of props/C02c.v                                      *)
(* ================================================================== *)
(* Metadata round, one round per File Data PDU (at most one per byte), EOF round, Finished round *)
Lemma closure_perfect_link :
  forall (cs cd : lcfg) (seq0 bits : Z) (p : putreq) (rs rd : rcfg) (sn dn : path) (data : bytes) (tick : Z),
  let w := Z.max (l_idw cs) (pr_dstw p) in
  let large := 4294967295 <? zlen data in
  let derived := r_max_packet rs - (4 + 2 * w + bits / 8) - (if large then 8 else 4) - (if r_crc rs then 2 else 0) in
  let seg := match r_max_seg rs with Some m => Z.min m derived | None => derived end in
  get_remote (l_remotes cs) (pr_dst p) = Some rs ->
  pr_names p = Some (sn, dn) -> sn <> [] -> dn <> [] -> pr_msgs p = None ->
  (match pr_mode p with Some m => m | None => r_mode rs end) = UNACKED ->
  (match pr_closure p with Some b => b | None => r_closure rs end) = true -> 1 <= r_check_limit rs -> 0 < tick ->
  0 < l_check_ms cs ->
  (bits = 8 \/ bits = 16 \/ bits = 32) -> 0 <= seq0 < 2 ^ bits -> 1 <= seg -> 6 <= derived ->
  (r_cktype rs = CK_CRC32 \/ r_cktype rs = CK_CRC32C \/ r_cktype rs = CK_NULL \/ r_cktype rs = CK_MODULAR) ->
  bytes_ok data = true ->
  l_id cd = pr_dst p -> get_remote (l_remotes cd) (l_id cs) = Some rd -> length dn = 1%nat ->
  get_fault_handler (l_faults cd) C_CHECKSUM_FAILURE <> None ->
  l_ind_fin cs = true -> l_ind_fin cd = true ->
  exists fuel,
    let res := transfer cs cd seq0 bits p sn data [] fuel tick in
    delivered_ok dn data res = true /\ y_errs (fst res) = [] /\
    existsb fault_event (e_log (s_env (y_src (fst res)))) = false /\
    existsb fault_event (e_log (d_env (y_dst (fst res)))) = false.
Proof.
  intros cs cd seq0 bits p rs rd sn dn data tick w large derived seg
         Hrs Hn Hsn Hdn Hmsgs Hmode Hclo Hlim Htick Hchk Hbits Hseq Hseg Hd6 Hck Hbytes Hid Hrd Hlen Hfh Hfs Hfd.
  destruct dn as [|x [|x' dn']]; try discriminate Hlen.
  set (fss := [(sn, File data)]).
  assert (Hlook : lookup fss sn = Some (File data)).
  { destruct sn as [|a sn']; [contradiction|]. unfold fss. cbn [lookup lookup_raw].
    rewrite path_eqb_refl. reflexivity. }
  destruct (ck_agree (r_cktype rs) data seg Hck Hseg) as (cks & C1 & C2).
  set (cf := mkSconf (l_id cs) w (pr_dst p) w seq0 (bits / 8) UNACKED large (r_crc rs)).
  destruct (first_call_c cs seq0 bits fss p rs sn [x] data Hrs Hn Hlook Hmode Hclo Hbits Hseq Hseg Hd6)
    as (s1 & s3 & P1 & P2 & HI).
  rewrite Hmsgs in P2.
  assert (Hdst : sc_dst cf = l_id cd) by (symmetry; exact Hid).
  assert (Hrid : sc_dst cf = r_id rs) by (symmetry; exact (get_remote_id _ _ _ Hrs)).
  destruct (round_md_c cs cd p rs rd sn x data cf seg fss eq_refl Hrd Hdst s1 s3 0 0 0 P2 HI)
    as (y1 & a & R & Ha & Q & HS).
  destruct (run_rest_c cs cd p rs rd sn x data cks cf seg tick fss Hn Hlook Hseg eq_refl C1 C2 Hfs Hfd Hchk Hrd Hdst
              eq_refl Hrid (length data) 0 y1 HS (le_n _)) as (y' & Rr & F).
  exists (S (S (S (length data)))).
  assert (Et : transfer cs cd seq0 bits p sn data [] (S (S (S (length data)))) tick = (y', true)).
  { unfold transfer, sys_init. cbn [y_src]. fold fss. rewrite P1.
    change (mkSys (src_fresh cs seq0 bits fss) (dst_init cd) [] [] 0 0 [] 0 None None [] [] [] (rev []) <| y_src := s1 |>)
      with (Y s1 (dst_init cd) 0 0 0 None None [] []).
    rewrite run_S, R. cbv iota beta. rewrite Q.
    assert (Ea : (a =? 0) = false) by (apply Z.eqb_neq; lia). rewrite Ea. exact Rr. }
  cbv zeta. rewrite Et. cbn [fst].
  exact (final_verdict_c cd x data cf y' F).
Qed.
