(* Kernel-checked exhaustive instance of C02 (bounded: the space is c02_space, 1152 transfers). *)
From CFDP Require Import Base Handler Dest Source System SystemCases.
Lemma c02_all_small : forallb c02_case c02_space = true.
Proof. vm_compute. reflexivity. Qed.
