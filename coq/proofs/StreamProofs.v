(* StreamProofs.v — proofs for property C07 (props/C07.v): the source emits a conformant,
   complete and size-bounded PDU stream. *)
From CFDP Require Import Base Fs Crc Checksum Handler Dest Source HandlerSpec SourceSpec.
From RecordUpdate Require Import RecordSet.
Import RecordSetNotations.

(* arithmetic stays folded unless both arguments are literals *)
Local Arguments Z.add : simpl never. Local Arguments Z.sub : simpl never. Local Arguments Z.mul : simpl never.
Local Arguments Z.pow : simpl never. Local Arguments Z.div : simpl never. Local Arguments Z.min : simpl never.
Local Arguments Z.max : simpl never. Local Arguments Z.to_nat : simpl never.
Local Arguments Z.ltb !x !y : simpl nomatch. Local Arguments Z.leb !x !y : simpl nomatch.
Local Arguments Z.eqb !x !y : simpl nomatch. Local Arguments Z.of_nat !n : simpl nomatch.

(* ------------------------------------------------------------------ Z-indexed list slicing *)
Lemma zlen_ztake : forall A n (l : list A), 0 <= n -> zlen (ztake n l) = Z.min n (zlen l).
Proof. intros. unfold zlen, ztake. rewrite firstn_length. lia. Qed.

Lemma zlen_zdrop : forall A n (l : list A), 0 <= n -> zlen (zdrop n l) = Z.max 0 (zlen l - n).
Proof. intros. unfold zlen, zdrop. rewrite skipn_length. lia. Qed.

Lemma skipn_skipn' : forall A b a (l : list A), skipn a (skipn b l) = skipn (b + a) l.
Proof.
  induction b as [|b IH]; intros a l; [reflexivity|].
  destruct l as [|x l]; [destruct a; reflexivity|]. cbn [skipn Nat.add]. apply IH.
Qed.

Lemma zdrop_zdrop : forall A a b (l : list A), 0 <= a -> 0 <= b -> zdrop a (zdrop b l) = zdrop (b + a) l.
Proof. intros. unfold zdrop. rewrite skipn_skipn'. f_equal. lia. Qed.

Lemma zdrop_0 : forall A (l : list A), zdrop 0 l = l.
Proof. reflexivity. Qed.

Lemma ztake_zdrop : forall A n (l : list A), ztake n l ++ zdrop n l = l.
Proof. intros. apply firstn_skipn. Qed.

Lemma zdrop_all : forall A n (l : list A), zlen l <= n -> zdrop n l = [].
Proof. intros A n l H. unfold zdrop. apply skipn_all2. unfold zlen in H. lia. Qed.

(* ------------------------------------------------------------------ tilings *)
Lemma tiles_from_nil : forall k off seg, tiles_from k off seg [] = [].
Proof. destruct k; reflexivity. Qed.

Lemma tiles_from_cons : forall k off seg l, l <> [] ->
  tiles_from (S k) off seg l = (off, ztake seg l) :: tiles_from k (off + seg) seg (zdrop seg l).
Proof. intros k off seg l H. destruct l; [contradiction | reflexivity]. Qed.

Lemma tiles_from_spec : forall fuel off seg l, 1 <= seg -> (length l <= fuel)%nat ->
  concat (map snd (tiles_from fuel off seg l)) = l /\
  (forall k t, nth_error (tiles_from fuel off seg l) k = Some t ->
     fst t = off + Z.of_nat k * seg /\ 1 <= zlen (snd t) <= seg /\
     snd t = ztake seg (zdrop (Z.of_nat k * seg) l) /\ Z.of_nat k * seg + zlen (snd t) <= zlen l).
Proof.
  induction fuel as [|fuel IH]; intros off seg l Hseg Hlen.
  - destruct l; [|cbn in Hlen; lia]. split; [reflexivity|]. intros k t H. destruct k; discriminate.
  - destruct l as [|x l']; [split; [reflexivity | intros k t H; destruct k; discriminate]|].
    set (L := x :: l') in *.
    assert (HL : 1 <= zlen L) by (unfold zlen, L; cbn [length]; lia).
    rewrite tiles_from_cons by (unfold L; discriminate).
    assert (Hd : (length (zdrop seg L) <= fuel)%nat).
    { unfold zdrop. rewrite skipn_length. unfold L in *. cbn [length] in *. lia. }
    destruct (IH (off + seg) seg (zdrop seg L) Hseg Hd) as [IH1 IH2].
    split.
    + cbn [map concat snd]. rewrite IH1. apply ztake_zdrop.
    + intros k t H. destruct k as [|k].
      * cbn [nth_error] in H. inversion H; subst t. cbn [fst snd].
        rewrite zlen_ztake by lia. change (Z.of_nat 0) with 0. rewrite Z.mul_0_l, zdrop_0.
        repeat split; lia.
      * cbn [nth_error] in H. destruct (IH2 k t H) as [A [B [C D]]].
        rewrite zlen_zdrop in D by lia.
        rewrite zdrop_zdrop in C by lia.
        replace (Z.of_nat (S k) * seg) with (seg + Z.of_nat k * seg) by lia.
        repeat split; try lia. exact C.
Qed.

Lemma tiles_exact : forall seg d, 1 <= seg ->
  concat (map snd (tiles seg d)) = d /\
  (forall k t, nth_error (tiles seg d) k = Some t ->
     fst t = Z.of_nat k * seg /\ 1 <= zlen (snd t) <= seg /\ snd t = ztake seg (zdrop (fst t) d)).
Proof.
  intros seg d Hseg. unfold tiles.
  destruct (tiles_from_spec (length d) 0 seg d Hseg (le_n _)) as [S1 S2].
  split; [exact S1|].
  intros k t H. destruct (S2 k t H) as [A [B [C _]]]. rewrite Z.add_0_l in A.
  rewrite A. repeat split; try lia. exact C.
Qed.

(* ------------------------------------------------------------------ packed lengths *)
Lemma len_bounds : forall (h : hdr) (maxp seg : Z) off data,
  seg <= maxp - hdr_len h - fss_len h - crc_len h -> zlen data <= seg ->
  6 <= maxp - hdr_len h - fss_len h - crc_len h ->
  pdu_len (PFileData h off data) <= maxp /\
  (forall a c s, pdu_len (PAck h a c s) <= maxp) /\
  (forall c ck sz, pdu_len (PEof h c ck sz None) <= maxp).
Proof.
  intros h maxp seg off data H1 H2 H3. unfold pdu_len.
  assert (4 <= fss_len h) by (unfold fss_len; destruct (h_large h); lia).
  repeat split; intros; lia.
Qed.

(* the File Data PDUs and the EOF PDU of the stream of C07 fit the maximum packet length *)
Lemma stream_len_bounds : forall (c : lcfg) (seq0 bits : Z) (p : putreq) (r : rcfg) (d : bytes) (mode : Z),
  let w := Z.max (l_idw c) (pr_dstw p) in
  let large := 4294967295 <? zlen d in
  let derived := r_max_packet r - (4 + 2 * w + bits / 8) - (if large then 8 else 4) - (if r_crc r then 2 else 0) in
  let seg := match r_max_seg r with Some m => Z.min m derived | None => derived end in
  let h := mkHdr TOWARDS_RECEIVER mode (r_crc r) large (l_id c) (pr_dst p) w seq0 (bits / 8) in
  1 <= seg -> 6 <= derived ->
  (forall t, In t (tiles seg d) -> pdu_len (fd_of h t) <= r_max_packet r) /\
  (forall cond ck sz, pdu_len (PEof h cond ck sz None) <= r_max_packet r) /\
  (forall a cond st, pdu_len (PAck h a cond st) <= r_max_packet r).
Proof.
  intros c seq0 bits p r d mode w large derived seg h Hseg Hd.
  assert (Hdh : derived = r_max_packet r - hdr_len h - fss_len h - crc_len h).
  { unfold derived, h, hdr_len, fss_len, crc_len. cbn [h_idw h_seqw h_large h_crc]. lia. }
  assert (Hsd : seg <= derived) by (unfold seg; destruct (r_max_seg r); lia).
  rewrite Hdh in Hd, Hsd.
  split; [|split].
  - intros t Ht. apply In_nth_error in Ht. destruct Ht as [k Hk].
    destruct (tiles_exact seg d Hseg) as [_ T]. destruct (T k t Hk) as [_ [[_ B] _]].
    unfold fd_of. exact (proj1 (len_bounds h (r_max_packet r) seg (fst t) (snd t) Hsd B Hd)).
  - assert (B0 : zlen (@nil Z) <= seg) by (unfold zlen; cbn [length]; lia).
    exact (proj2 (proj2 (len_bounds h (r_max_packet r) seg 0 [] Hsd B0 Hd))).
  - assert (B0 : zlen (@nil Z) <= seg) by (unfold zlen; cbn [length]; lia).
    exact (proj1 (proj2 (len_bounds h (r_max_packet r) seg 0 [] Hsd B0 Hd))).
Qed.

(* ------------------------------------------------------------------ symbolic execution *)
Ltac projs :=
  cbn [s_cfg s_state s_step s_ready s_queue s_p s_step_before s_put s_seq_count s_seq_bits s_env
       e_now e_fs e_reject_writes e_log
       q_tid q_check_timer q_ack_timer q_ack_counter q_cond_eof q_progress q_segment_len q_file_size
       q_empty_file q_md_only q_fin q_rcfg q_closure q_conf
       sc_src sc_srcw sc_dst sc_dstw sc_seq sc_seqw sc_mode sc_large sc_crc fst snd].

Ltac sx :=
  repeat (progress (unfold set, bind, ret, get, gets, put, modify, raise, when, gq, setq, sset_step, semit, snow,
                      stid_or_assert, srcfg_or_assert, put_or_assert, stmode, smode_is, sadd_packet, sstep_is,
                      src_names, timed_out; cbn; projs)).

Lemma read_len_eq : forall fsz seg off, 1 <= seg -> 0 <= off < fsz -> (fsz < seg -> off = 0 \/ off = fsz) ->
  (if fsz <? seg then fsz else if fsz <? off + seg then fsz - off else seg) = Z.min seg (fsz - off).
Proof.
  intros fsz seg off H1 H2 H3.
  destruct (fsz <? seg) eqn:E1; [apply Z.ltb_lt in E1; lia|]. apply Z.ltb_ge in E1.
  destruct (fsz <? off + seg) eqn:E2; [apply Z.ltb_lt in E2 | apply Z.ltb_ge in E2]; lia.
Qed.

Lemma ztake_min : forall (d : bytes) seg off, 0 <= off -> 0 <= seg ->
  ztake (Z.min seg (zlen d - off)) (zdrop off d) = ztake seg (zdrop off d).
Proof.
  intros d seg off H0 H1. destruct (Z.le_gt_cases seg (zlen d - off)).
  - rewrite Z.min_l by lia. reflexivity.
  - rewrite Z.min_r by lia. unfold ztake.
    assert (zlen (zdrop off d) = Z.max 0 (zlen d - off)) by (apply zlen_zdrop; lia).
    unfold zlen in *. rewrite !firstn_all2 by lia. reflexivity.
Qed.

Lemma zsub_diag : forall n, n - n = 0. Proof. intros; lia. Qed.
Lemma zeqb_refl : forall n, (n =? n) = true. Proof. apply Z.eqb_refl. Qed.

Lemma pumps_S : forall k s,
  pumps (S k) s = match pump s with
                  | (s', Ok ps) => match pumps k s' with
                                   | (s'', Ok rest) => (s'', Ok (ps :: rest))
                                   | (s'', Err e) => (s'', Err e)
                                   end
                  | (s', Err e) => (s', Err e)
                  end.
Proof. reflexivity. Qed.

(* ------------------------------------------------------------------ the transfer after Metadata *)
Section Run.
Variables (c : lcfg) (p : putreq) (r : rcfg) (fs : tree) (d cks : bytes) (cf : sconf)
          (seg : Z) (closure : bool) (tid : Z * Z) (sn dn : path).
Hypothesis Hnames : pr_names p = Some (sn, dn).
Hypothesis Hlook : lookup fs sn = Some (File d).
Hypothesis Hseg : 1 <= seg.
Hypothesis Hmode : sc_mode cf = ACKED \/ sc_mode cf = UNACKED.
Hypothesis Hck : calculate_checksum (r_cktype r) (Some d) (zlen d) seg = Ok cks.
Hypothesis Hack : sc_mode cf = ACKED -> 0 < r_ack_ms r.
Hypothesis Hchk : sc_mode cf = UNACKED -> closure = true -> 0 < l_check_ms c.

(* the handler between two calls while file data is being sent: [off] bytes sent so far *)
Definition Inv (off : Z) (s : src) : Prop :=
  s_cfg s = c /\ s_state s = ST_BUSY /\ s_queue s = [] /\ s_put s = Some p /\ e_fs (s_env s) = fs /\
  q_conf (s_p s) = cf /\ q_progress (s_p s) = off /\ q_segment_len (s_p s) = seg /\
  q_file_size (s_p s) = Some (zlen d) /\ q_md_only (s_p s) = false /\
  q_empty_file (s_p s) = (zlen d =? 0) /\ q_rcfg (s_p s) = Some r /\ q_closure (s_p s) = closure /\
  q_tid (s_p s) = Some tid /\
  ((s_step s = SS_SENDING_METADATA /\ off = 0) \/ s_step s = SS_SENDING_FILE_DATA) /\
  0 <= off <= zlen d /\ (zlen d < seg -> off = 0 \/ off = zlen d).

Lemma cc_ok : forall s, s_put s = Some p -> q_md_only (s_p s) = false -> q_rcfg (s_p s) = Some r ->
  q_segment_len (s_p s) = seg -> e_fs (s_env s) = fs ->
  checksum_calculation (zlen d) s = (s, Ok cks).
Proof.
  intros s H1 H2 H3 H4 H5.
  unfold checksum_calculation, put_or_assert, srcfg_or_assert, gq, gets, bind, ret.
  rewrite H1. cbv beta iota. rewrite H2. cbv beta iota. rewrite Hnames. cbv beta iota.
  rewrite H3. cbv beta iota. rewrite H4, H5.
  destruct (r_cktype r =? CK_NULL) eqn:E.
  - unfold calculate_checksum in Hck. rewrite E in Hck. inversion Hck. reflexivity.
  - rewrite Hlook, Hck. reflexivity.
Qed.
Local Opaque checksum_calculation.

(* one call while data remains: exactly one File Data PDU, the next tile *)
Lemma step_fd : forall off s, Inv off s -> off < zlen d ->
  exists s', pump s = (s', Ok [fd_of (hdr_of cf TOWARDS_RECEIVER) (off, ztake seg (zdrop off d))]) /\
             Inv (off + Z.min seg (zlen d - off)) s'.
Proof.
  intros off s HI Hlt.
  destruct HI as (H1&H2&H3&H4&H5&H6&H7&H8&H9&H10&H11&H12&H13&H14&H15&H16&H17).
  destruct s as [cfg st step ready queue q sb pt sc sbits [nw fs' rw lg]].
  destruct q. cbn in H1,H2,H3,H4,H5,H6,H7,H8,H9,H10,H11,H12,H13,H14,H15. subst.
  unfold pump, pump_with, state_machine_s.
  assert (E1 : (off <? zlen d) = true) by (apply Z.ltb_lt; lia).
  assert (E2 : (off =? zlen d) = false) by (apply Z.eqb_neq; lia).
  assert (E3 : (zlen d =? 0) = false) by (apply Z.eqb_neq; lia).
  destruct H15 as [[Hs _]|Hs]; subst step; (destruct Hmode as [Hm|Hm]);
    repeat (progress (sx; rewrite ?Hnames, ?Hlook, ?Hm, ?E1, ?E2, ?E3;
                      unfold fsm_non_idle, fsm_advancement_s, sending_file_data_fsm, handle_retransmission,
                        prepare_progressing_file_data_pdu, prepare_file_data_pdu, fs_read_data));
    rewrite (read_len_eq (zlen d) seg off) by lia; rewrite ztake_min by lia;
    (eexists; split; [reflexivity|]);
    unfold Inv; cbn; repeat split; try reflexivity; try lia;
    try (right; reflexivity).
Qed.

Ltac unf_final :=
  unfold fsm_non_idle, fsm_advancement_s, sending_file_data_fsm, handle_retransmission,
    prepare_eof_pdu, handle_eof_sent, start_positive_ack_procedure_s, handle_waiting_for_ack,
    handle_positive_ack_procedures_s, handle_wait_for_finish, notice_of_completion_s, sreset_internal.

(* the call after the last tile: EOF, then the handler waits (or is done) *)
Lemma step_final : forall s, Inv (zlen d) s ->
  exists s', pump s = (s', Ok [PEof (hdr_of cf TOWARDS_RECEIVER) C_NO_ERROR cks (zlen d) None]) /\
             s_step s' = (if sc_mode cf =? ACKED then SS_WAITING_FOR_EOF_ACK
                          else if closure then SS_WAITING_FOR_FINISHED else SS_IDLE).
Proof.
  intros s HI.
  destruct HI as (H1&H2&H3&H4&H5&H6&H7&H8&H9&H10&H11&H12&H13&H14&H15&H16&H17).
  destruct s as [cfg st step ready queue q sb pt sc sbits [nw fs' rw lg]].
  destruct q. cbn in H1,H2,H3,H4,H5,H6,H7,H8,H9,H10,H11,H12,H13,H14,H15. subst.
  unfold pump, pump_with, state_machine_s.
  assert (E1 : (zlen d <? zlen d) = false) by (apply Z.ltb_irrefl).
  assert (E4 : zlen d = 0 -> (zlen d =? 0) = true) by (intro Hz; apply Z.eqb_eq; exact Hz).
  destruct (l_ind_eof_sent c) eqn:Ee;
  (destruct H15 as [[Hs Hz]|Hs]; subst step; [pose proof (E4 Hz) as E7 | pose proof E1 as E7]);
  (destruct Hmode as [Hm|Hm];
   [ (* acknowledged mode: wait for the EOF ACK, timer not expired *)
     assert (E5 : (r_ack_ms r <=? 0) = false) by (apply Z.leb_gt; auto);
     repeat (progress (sx; rewrite ?Hnames, ?Hlook, ?Hm, ?Ee, ?zsub_diag, ?zeqb_refl, ?E1, ?E7, ?E5;
                       rewrite ?cc_ok by reflexivity; unf_final))
   | destruct closure eqn:Ecl;
     [ (* unacknowledged with closure: wait for Finished, check timer not expired *)
       assert (E6 : (l_check_ms c <=? 0) = false) by (apply Z.leb_gt; auto);
       repeat (progress (sx; rewrite ?Hnames, ?Hlook, ?Hm, ?Ee, ?zsub_diag, ?zeqb_refl, ?E1, ?E7, ?E6;
                         rewrite ?cc_ok by reflexivity; unf_final))
     | (* unacknowledged without closure: notice of completion, reset *)
       destruct q_fin as [[[[fa fb] fc] fd]|]; destruct (l_ind_fin c) eqn:Ef;
       repeat (progress (sx; rewrite ?Hnames, ?Hlook, ?Hm, ?Ee, ?Ef, ?zsub_diag, ?zeqb_refl, ?E1, ?E7;
                         rewrite ?cc_ok by reflexivity; unf_final)) ] ]);
  (eexists; split; reflexivity).
Qed.

(* all remaining calls: the remaining tiles, then EOF *)
Lemma run_main : forall n off s, Inv off s -> (length (zdrop off d) <= n)%nat ->
  exists s',
    pumps (S (length (tiles_from n off seg (zdrop off d)))) s =
      (s', Ok (map (fun t => [fd_of (hdr_of cf TOWARDS_RECEIVER) t]) (tiles_from n off seg (zdrop off d))
               ++ [[PEof (hdr_of cf TOWARDS_RECEIVER) C_NO_ERROR cks (zlen d) None]])) /\
    s_step s' = (if sc_mode cf =? ACKED then SS_WAITING_FOR_EOF_ACK
                 else if closure then SS_WAITING_FOR_FINISHED else SS_IDLE).
Proof.
  induction n as [|n IH]; intros off s HI Hn.
  - assert (Hr : 0 <= off <= zlen d) by (destruct HI as (_&_&_&_&_&_&_&_&_&_&_&_&_&_&_&H&_); exact H).
    assert (Hz : zlen (zdrop off d) = 0) by (unfold zlen; lia).
    rewrite zlen_zdrop in Hz by lia. assert (off = zlen d) by lia. subst off.
    cbn [tiles_from length map app]. rewrite pumps_S.
    destruct (step_final s HI) as [s' [P1 P2]]. rewrite P1. cbn [pumps].
    exists s'. split; [reflexivity | exact P2].
  - assert (Hr : 0 <= off <= zlen d) by (destruct HI as (_&_&_&_&_&_&_&_&_&_&_&_&_&_&_&H&_); exact H).
    destruct (Z.eq_dec off (zlen d)) as [He|He].
    + subst off. rewrite (zdrop_all _ (zlen d) d) by lia. rewrite tiles_from_nil.
      cbn [length map app]. rewrite pumps_S.
      destruct (step_final s HI) as [s' [P1 P2]]. rewrite P1. cbn [pumps].
      exists s'. split; [reflexivity | exact P2].
    + assert (Hlt : off < zlen d) by lia.
      assert (Hne : zdrop off d <> []).
      { intro E. assert (Hz : zlen (zdrop off d) = 0) by (rewrite E; reflexivity).
        rewrite zlen_zdrop in Hz by lia. lia. }
      rewrite tiles_from_cons by exact Hne.
      destruct (step_fd off s HI Hlt) as [s1 [P1 I1]].
      set (off' := off + Z.min seg (zlen d - off)) in *.
      assert (Ht : tiles_from n (off + seg) seg (zdrop seg (zdrop off d)) =
                   tiles_from n off' seg (zdrop off' d)).
      { rewrite zdrop_zdrop by lia. unfold off'.
        destruct (Z.le_gt_cases seg (zlen d - off)).
        - rewrite Z.min_l by lia. reflexivity.
        - rewrite Z.min_r by lia.
          rewrite (zdrop_all _ (off + seg) d) by lia.
          rewrite (zdrop_all _ (off + (zlen d - off)) d) by lia.
          rewrite !tiles_from_nil. reflexivity. }
      rewrite Ht.
      assert (Hn' : (length (zdrop off' d) <= n)%nat).
      { assert (Hz : zlen (zdrop off d) = Z.max 0 (zlen d - off)) by (apply zlen_zdrop; lia).
        assert (Hz' : zlen (zdrop off' d) = Z.max 0 (zlen d - off')) by (apply zlen_zdrop; unfold off'; lia).
        unfold zlen in Hz, Hz'. unfold off' in *. lia. }
      destruct (IH off' s1 I1 Hn') as [s' [Q1 Q2]].
      cbn [length map app]. rewrite pumps_S, P1, Q1.
      exists s'. split; [reflexivity | exact Q2].
Qed.

(* queueing the Metadata PDU and retrieving it *)
Lemma md_pump : forall s, Inv 0 s ->
  exists s3,
    (match prepare_metadata_pdu s with
     | (s'', Ok _) => let '(s3, ps) := drain_s s'' in (s3, Ok ps)
     | (s'', Err e) => (s'', Err e)
     end) =
    (s3, Ok [PMetadata (hdr_of cf TOWARDS_RECEIVER) closure (r_cktype r) (zlen d) (Some (sn, dn))
               (match pr_msgs p with Some l => l | None => [] end)]) /\
    Inv 0 s3.
Proof.
  intros s HI.
  destruct HI as (H1&H2&H3&H4&H5&H6&H7&H8&H9&H10&H11&H12&H13&H14&H15&H16&H17).
  destruct s as [cfg st step ready queue q sb pt sc sbits [nw fs' rw lg]].
  destruct q. cbn in H1,H2,H3,H4,H5,H6,H7,H8,H9,H10,H11,H12,H13,H14,H15. subst.
  unfold prepare_metadata_pdu, drain_s.
  repeat (progress (sx; rewrite ?Hnames)).
  eexists. split; [reflexivity|].
  unfold Inv; cbn. repeat split; try reflexivity; try lia; exact H15.
Qed.

End Run.


(* ------------------------------------------------------------------ the first call *)
Local Arguments max_file_seg_len : simpl never.
Local Arguments lookup : simpl never.
Lemma mfsl_ok : forall h maxp, hdr_len h + fss_len h + crc_len h <= maxp ->
  max_file_seg_len h maxp = Some (maxp - (hdr_len h + fss_len h + crc_len h)).
Proof.
  intros h maxp H. unfold max_file_seg_len.
  rewrite (proj2 (Z.ltb_ge maxp (hdr_len h + fss_len h + crc_len h))) by lia. reflexivity.
Qed.


Lemma eof_fits_false : forall h maxp, hdr_len h + 6 + fss_len h + crc_len h <= maxp ->
  (maxp <? hdr_len h + 1 + 1 + 4 + fss_len h + crc_len h) = false.
Proof. intros h maxp H. apply Z.ltb_ge. lia. Qed.

Definition st1 (c : lcfg) (p : putreq) (r : rcfg) (fs : tree) (seq0 bits mode : Z) (closure : bool) (step : Z) : src :=
  mkSrc c ST_BUSY step 0 []
    (mkSP None None None 0 None 0 0 (Some 0) false false None (Some r) closure
       (mkSconf (l_id c) (l_idw c) (pr_dst p) (pr_dstw p) 0 0 mode false false))
    None (Some p) seq0 bits (mkEnv 0 fs false []).

Lemma ts_ok : forall (c : lcfg) (seq0 bits : Z) (fs : tree) (p : putreq) (r : rcfg) (sn dn : path) (d : bytes)
    (mode : Z) (closure : bool),
  let w := Z.max (l_idw c) (pr_dstw p) in
  let large := 4294967295 <? zlen d in
  let derived := r_max_packet r - (4 + 2 * w + bits / 8) - (if large then 8 else 4) - (if r_crc r then 2 else 0) in
  let seg := match r_max_seg r with Some m => Z.min m derived | None => derived end in
  let cf := mkSconf (l_id c) w (pr_dst p) w seq0 (bits / 8) mode large (r_crc r) in
  pr_names p = Some (sn, dn) -> lookup fs sn = Some (File d) ->
  (bits = 8 \/ bits = 16 \/ bits = 32) -> 0 <= seq0 < 2 ^ bits ->
  1 <= seg -> 6 <= derived ->
  exists s2,
    transaction_start (st1 c p r fs seq0 bits mode closure SS_TRANSACTION_START) = (s2, Ok tt) /\
    Inv c p r fs d cf seg closure (l_id c, seq0) 0 (s2 <| s_step := SS_SENDING_METADATA |>).
Proof.
  intros c seq0 bits fs p r sn dn d mode closure w large derived seg cf Hn Hl Hb Hs Hseg Hd6.
  assert (Hd : 1 <= derived) by lia.
  destruct p as [dst dstw pm pc pn pmsg]. cbn in Hn, w, cf. subst pn.
  subst cf seg derived large w.
  unfold st1.
  assert (Hlen : 0 <= zlen d) by (unfold zlen; lia).
  assert (E2 : (2 ^ bits <=? seq0) = false) by (apply Z.leb_gt; lia).
  assert (E3 : (bits =? 8) || (bits =? 16) || (bits =? 32) = true).
  { destruct Hb as [Hb|[Hb|Hb]]; subst bits; reflexivity. }
  unfold transaction_start.
  destruct (zlen d =? 0) eqn:Ez.
  - pose proof Ez as Ez'. apply Z.eqb_eq in Ez'. rewrite Ez' in Hd, Hd6. cbn in Hd, Hd6.
    repeat (progress (sx; rewrite ?Hl, ?Ez, ?E2, ?E3;
                      rewrite ?mfsl_ok by (unfold hdr_len, fss_len, crc_len; cbn; lia);
                      rewrite ?eof_fits_false by (unfold hdr_len, fss_len, crc_len; cbn; lia);
                      unfold fs_file_exists, exists_, fs_file_size)).
    unfold Inv. rewrite Ez'. eexists. split; [reflexivity|]. unfold set; cbn.
    repeat split; try reflexivity; try lia; try (left; split; reflexivity).
    unfold hdr_len, crc_len. cbn.
    destruct (r_max_seg r) as [m|]; [|lia].
    destruct (m <? _) eqn:E; [apply Z.ltb_lt in E | apply Z.ltb_ge in E]; lia.
  - pose proof Ez as Ez'. apply Z.eqb_neq in Ez'.
    repeat (progress (sx; rewrite ?Hl, ?Ez, ?E2, ?E3;
                      rewrite ?mfsl_ok by (unfold hdr_len, fss_len, crc_len; cbn; lia);
                      rewrite ?eof_fits_false by (unfold hdr_len, fss_len, crc_len; cbn; lia);
                      unfold fs_file_exists, exists_, fs_file_size)).
    unfold Inv. eexists. split; [reflexivity|]. unfold set; cbn.
    repeat split; try reflexivity; try lia; try (left; split; reflexivity).
    unfold hdr_len, crc_len, fss_len. cbn.
    destruct (r_max_seg r) as [m|]; [|lia].
    destruct (m <? _) eqn:E; [apply Z.ltb_lt in E | apply Z.ltb_ge in E]; lia.
Qed.

Lemma eof_small_true : forall h maxp (o : option Z),
  (o = None \/ maxp < hdr_len h + 6 + fss_len h + crc_len h) -> forall z, o = Some z ->
  (maxp <? hdr_len h + 1 + 1 + 4 + fss_len h + crc_len h) = true.
Proof. intros h maxp o [H|H] z Hz; [rewrite H in Hz; discriminate | apply Z.ltb_lt; lia]. Qed.

(* a maximum packet length that cannot hold a File Data PDU, or cannot hold an EOF PDU, is a ValueError *)
Lemma packet_too_small_refused : forall s p r sn dn d,
  s_put s = Some p -> pr_names p = Some (sn, dn) -> q_rcfg (s_p s) = Some r ->
  lookup (fs_s s) sn = Some (File d) -> q_file_size (s_p s) = Some 0 -> q_md_only (s_p s) = false ->
  (s_seq_bits s = 8 \/ s_seq_bits s = 16 \/ s_seq_bits s = 32) -> 0 <= s_seq_count s < 2 ^ s_seq_bits s ->
  let w := Z.max (l_idw (s_cfg s)) (pr_dstw p) in
  let h := mkHdr TOWARDS_RECEIVER (sc_mode (q_conf (s_p s))) (r_crc r) (4294967295 <? zlen d)
                 (l_id (s_cfg s)) (pr_dst p) w (s_seq_count s) (s_seq_bits s / 8) in
  (max_file_seg_len h (r_max_packet r) = None \/ r_max_packet r < hdr_len h + 6 + fss_len h + crc_len h) ->
  snd (transaction_start s) = Err E_VALUE.
Proof.
  intros s p r sn dn d Hp Hn Hr Hl Hfs Hmd Hb Hc w h Hsmall.
  unfold fs_s in *.
  assert (Hex : fs_file_exists (e_fs (s_env s)) sn = true)
    by (unfold fs_file_exists, exists_; rewrite Hl; reflexivity).
  assert (Hsz : fs_file_size (e_fs (s_env s)) sn = Ok (zlen d))
    by (unfold fs_file_size; rewrite Hl; reflexivity).
  clear Hl.
  destruct s as [cfg st step rdy qu q sb pt sc sbits env].
  destruct q as [tid ckt akt akc ce pr sl fsz ef mdo fn rc cl conf]. destruct conf.
  cbn in Hp, Hr, Hfs, Hmd, Hex, Hsz, Hb, Hc, w, h. subst.
  assert (E3 : (sbits =? 8) || (sbits =? 16) || (sbits =? 32) = true).
  { destruct Hb as [Hb|[Hb|Hb]]; subst sbits; reflexivity. }
  assert (Hc' : (2 ^ sbits <=? sc) = false) by (apply Z.leb_gt; lia).
  unfold transaction_start, put_or_assert, srcfg_or_assert, gq, setq, semit, bind, get, put, gets, modify, ret, raise, when.
  cbn. rewrite Hn. cbn. rewrite Hex, Hsz. cbn.
  assert (Hz : zlen d = 0 -> (4294967295 <? zlen d) = false) by (intro E; rewrite E; reflexivity).
  unfold h in Hsmall. clear h.
  destruct (zlen d =? 0) eqn:Ez.
  - apply Z.eqb_eq in Ez. rewrite (Hz Ez) in Hsmall.
    cbn. rewrite E3, Hc'. cbn. unfold hdr_of. cbn [Source.sc_mode Source.sc_crc Source.sc_large Source.sc_src Source.sc_dst Source.sc_srcw Source.sc_seq Source.sc_seqw].
    fold w. destruct (max_file_seg_len _ _) as [z|] eqn:Em; [|reflexivity].
    pose proof (eof_small_true _ _ _ Hsmall z eq_refl) as Et.
    match goal with |- context [if ?a <? ?b then (fun s0 : src => (s0, Err E_VALUE)) else _] =>
      replace (a <? b) with true by (symmetry; exact Et) end.
    reflexivity.
  - cbn. rewrite E3, Hc'. cbn. unfold hdr_of. cbn [Source.sc_mode Source.sc_crc Source.sc_large Source.sc_src Source.sc_dst Source.sc_srcw Source.sc_seq Source.sc_seqw].
    fold w. destruct (max_file_seg_len _ _) as [z|] eqn:Em; [|reflexivity].
    pose proof (eof_small_true _ _ _ Hsmall z eq_refl) as Et.
    match goal with |- context [if ?a <? ?b then (fun s0 : src => (s0, Err E_VALUE)) else _] =>
      replace (a <? b) with true by (symmetry; exact Et) end.
    reflexivity.
Qed.


Local Arguments transaction_start : simpl never.
Local Arguments prepare_metadata_pdu : simpl never.

Lemma pr_ok : forall (c : lcfg) (seq0 bits : Z) (fs : tree) (p : putreq) (r : rcfg) (sn dn : path) (d : bytes),
  get_remote (l_remotes c) (pr_dst p) = Some r ->
  pr_names p = Some (sn, dn) -> lookup fs sn = Some (File d) ->
  put_request p (src_fresh c seq0 bits fs) =
    (st1 c p r fs seq0 bits (match pr_mode p with Some m => m | None => r_mode r end)
         (match pr_closure p with Some b => b | None => r_closure r end) SS_IDLE, Ok true).
Proof.
  intros c seq0 bits fs p r sn dn d Hr Hn Hl.
  unfold put_request, src_fresh, src_init, init_sparams, empty_sconf, st1.
  repeat (progress (sx; rewrite ?Hr, ?Hn, ?Hl; unfold fs_file_exists, exists_)).
  reflexivity.
Qed.

Lemma pump_call1 : forall c p r fs seq0 bits mode closure,
  pump (st1 c p r fs seq0 bits mode closure SS_IDLE) =
    match transaction_start (st1 c p r fs seq0 bits mode closure SS_TRANSACTION_START) with
    | (s', Ok _) =>
        match prepare_metadata_pdu (s' <| s_step := SS_SENDING_METADATA |>) with
        | (s'', Ok _) => let '(s3, ps) := drain_s s'' in (s3, Ok ps)
        | (s'', Err e) => (s'', Err e)
        end
    | (s', Err e) => (s', Err e)
    end.
Proof.
  intros. unfold pump, pump_with, state_machine_s, st1.
  repeat (progress (sx; unfold fsm_non_idle, fsm_advancement_s)).
  destruct (transaction_start _) as [s' [[]|e]]; [|reflexivity].
  repeat (progress sx).
  destruct (prepare_metadata_pdu _) as [s'' [[]|e]]; reflexivity.
Qed.

(* ------------------------------------------------------------------ C07: the whole stream *)
Lemma src_stream :
  forall (c : lcfg) (seq0 bits : Z) (fs : tree) (p : putreq) (r : rcfg) (sn dn : path) (d cks : bytes),
  let w := Z.max (l_idw c) (pr_dstw p) in
  let large := 4294967295 <? zlen d in
  let derived := r_max_packet r - (4 + 2 * w + bits / 8) - (if large then 8 else 4) - (if r_crc r then 2 else 0) in
  let seg := match r_max_seg r with Some m => Z.min m derived | None => derived end in
  let mode := match pr_mode p with Some m => m | None => r_mode r end in
  let closure := match pr_closure p with Some b => b | None => r_closure r end in
  let h := mkHdr TOWARDS_RECEIVER mode (r_crc r) large (l_id c) (pr_dst p) w seq0 (bits / 8) in
  let msgs := match pr_msgs p with Some l => l | None => [] end in
  get_remote (l_remotes c) (pr_dst p) = Some r ->
  pr_names p = Some (sn, dn) -> lookup fs sn = Some (File d) -> sn <> [] ->
  (bits = 8 \/ bits = 16 \/ bits = 32) -> 0 <= seq0 < 2 ^ bits ->
  1 <= seg -> 6 <= derived -> (mode = ACKED \/ mode = UNACKED) ->
  calculate_checksum (r_cktype r) (Some d) (zlen d) seg = Ok cks ->
  (mode = ACKED -> 0 < r_ack_ms r) -> (mode = UNACKED -> closure = true -> 0 < l_check_ms c) ->
  let s1 := fst (put_request p (src_fresh c seq0 bits fs)) in
  exists s',
    pumps (2 + length (tiles seg d)) s1 =
      (s', Ok ([PMetadata h closure (r_cktype r) (zlen d) (Some (sn, dn)) msgs]
               :: map (fun t => [fd_of h t]) (tiles seg d)
               ++ [[PEof h C_NO_ERROR cks (zlen d) None]])) /\
    s_step s' = (if mode =? ACKED then SS_WAITING_FOR_EOF_ACK
                 else if closure then SS_WAITING_FOR_FINISHED else SS_IDLE).
Proof.
  intros c seq0 bits fs p r sn dn d cks w large derived seg mode closure h msgs
         Hr Hn Hl Hsn Hb Hs Hseg Hd6 Hmode Hck Hack Hchk s1.
  set (cf := mkSconf (l_id c) w (pr_dst p) w seq0 (bits / 8) mode large (r_crc r)).
  destruct (ts_ok c seq0 bits fs p r sn dn d mode closure Hn Hl Hb Hs Hseg Hd6) as [s2 [T1 T2]].
  fold w large cf in T2. fold derived in T2. fold seg in T2.
  destruct (md_pump c p r fs d cf seg closure (l_id c, seq0) sn dn Hn _ T2) as [s3 [M1 M2]].
  assert (Hlen : (length (zdrop 0 d) <= length d)%nat) by (rewrite zdrop_0; apply le_n).
  destruct (run_main c p r fs d cks cf seg closure (l_id c, seq0) sn dn Hn Hl Hseg Hmode Hck Hack Hchk
              (length d) 0 s3 M2 Hlen) as [s' [R1 R2]].
  rewrite zdrop_0 in R1. fold (tiles seg d) in R1.
  exists s'. split; [|exact R2].
  unfold s1. rewrite (pr_ok c seq0 bits fs p r sn dn d Hr Hn Hl). cbn [fst].
  change (2 + length (tiles seg d))%nat with (S (S (length (tiles seg d)))).
  rewrite pumps_S, pump_call1. fold mode closure. rewrite T1, M1, R1. reflexivity.
Qed.
