(* StreamProofs.v — proofs for property C07 (props/C07.v): the source emits a conformant,
   complete and size-bounded PDU stream. *)
From CFDP Require Import Base Fs Crc Checksum Handler Dest Source HandlerSpec SourceSpec.
From RecordUpdate Require Import RecordSet.
Import RecordSetNotations.

(* arithmetic stays folded unless both arguments are literals *)
Arguments Z.add : simpl never. Arguments Z.sub : simpl never. Arguments Z.mul : simpl never.
Arguments Z.pow : simpl never. Arguments Z.div : simpl never. Arguments Z.min : simpl never.
Arguments Z.max : simpl never. Arguments Z.to_nat : simpl never.
Arguments Z.ltb !x !y : simpl nomatch. Arguments Z.leb !x !y : simpl nomatch.
Arguments Z.eqb !x !y : simpl nomatch. Arguments Z.of_nat !n : simpl nomatch.

(* ------------------------------------------------------------------ Z-indexed list slicing *)
Lemma zlen_ztake : forall A n (l : list A), 0 <= n -> zlen (ztake n l) = Z.min n (zlen l).
Proof. intros. unfold zlen, ztake. rewrite firstn_length. lia. Qed.

Lemma zlen_zdrop : forall A n (l : list A), 0 <= n -> zlen (zdrop n l) = Z.max 0 (zlen l - n).
Proof. intros. unfold zlen, zdrop. rewrite skipn_length. lia. Qed.

Lemma skipn_skipn' : forall A b a (l : list A), skipn a (skipn b l) = skipn (b + a) l.
Proof.
  induction b as [|b IH]; intros a l; [reflexivity|].
  destruct l as [|x l]; [destruct a; reflexivity|]. cbn [skipn Nat.add]. apply IH.
Qed.

Lemma zdrop_zdrop : forall A a b (l : list A), 0 <= a -> 0 <= b -> zdrop a (zdrop b l) = zdrop (b + a) l.
Proof. intros. unfold zdrop. rewrite skipn_skipn'. f_equal. lia. Qed.

Lemma zdrop_0 : forall A (l : list A), zdrop 0 l = l.
Proof. reflexivity. Qed.

Lemma ztake_zdrop : forall A n (l : list A), ztake n l ++ zdrop n l = l.
Proof. intros. apply firstn_skipn. Qed.

Lemma zdrop_all : forall A n (l : list A), zlen l <= n -> zdrop n l = [].
Proof. intros A n l H. unfold zdrop. apply skipn_all2. unfold zlen in H. lia. Qed.

(* ------------------------------------------------------------------ tilings *)
Lemma tiles_from_nil : forall k off seg, tiles_from k off seg [] = [].
Proof. destruct k; reflexivity. Qed.

Lemma tiles_from_cons : forall k off seg l, l <> [] ->
  tiles_from (S k) off seg l = (off, ztake seg l) :: tiles_from k (off + seg) seg (zdrop seg l).
Proof. intros k off seg l H. destruct l; [contradiction | reflexivity]. Qed.

Lemma tiles_from_spec : forall fuel off seg l, 1 <= seg -> (length l <= fuel)%nat ->
  concat (map snd (tiles_from fuel off seg l)) = l /\
  (forall k t, nth_error (tiles_from fuel off seg l) k = Some t ->
     fst t = off + Z.of_nat k * seg /\ 1 <= zlen (snd t) <= seg /\
     snd t = ztake seg (zdrop (Z.of_nat k * seg) l) /\ Z.of_nat k * seg + zlen (snd t) <= zlen l).
Proof.
  induction fuel as [|fuel IH]; intros off seg l Hseg Hlen.
  - destruct l; [|cbn in Hlen; lia]. split; [reflexivity|]. intros k t H. destruct k; discriminate.
  - destruct l as [|x l']; [split; [reflexivity | intros k t H; destruct k; discriminate]|].
    set (L := x :: l') in *.
    assert (HL : 1 <= zlen L) by (unfold zlen, L; cbn [length]; lia).
    rewrite tiles_from_cons by (unfold L; discriminate).
    assert (Hd : (length (zdrop seg L) <= fuel)%nat).
    { unfold zdrop. rewrite skipn_length. unfold L in *. cbn [length] in *. lia. }
    destruct (IH (off + seg) seg (zdrop seg L) Hseg Hd) as [IH1 IH2].
    split.
    + cbn [map concat snd]. rewrite IH1. apply ztake_zdrop.
    + intros k t H. destruct k as [|k].
      * cbn [nth_error] in H. inversion H; subst t. cbn [fst snd].
        rewrite zlen_ztake by lia. change (Z.of_nat 0) with 0. rewrite Z.mul_0_l, zdrop_0.
        repeat split; lia.
      * cbn [nth_error] in H. destruct (IH2 k t H) as [A [B [C D]]].
        rewrite zlen_zdrop in D by lia.
        rewrite zdrop_zdrop in C by lia.
        replace (Z.of_nat (S k) * seg) with (seg + Z.of_nat k * seg) by lia.
        repeat split; try lia. exact C.
Qed.

Lemma tiles_exact : forall seg d, 1 <= seg ->
  concat (map snd (tiles seg d)) = d /\
  (forall k t, nth_error (tiles seg d) k = Some t ->
     fst t = Z.of_nat k * seg /\ 1 <= zlen (snd t) <= seg /\ snd t = ztake seg (zdrop (fst t) d)).
Proof.
  intros seg d Hseg. unfold tiles.
  destruct (tiles_from_spec (length d) 0 seg d Hseg (le_n _)) as [S1 S2].
  split; [exact S1|].
  intros k t H. destruct (S2 k t H) as [A [B [C _]]]. rewrite Z.add_0_l in A.
  rewrite A. repeat split; try lia. exact C.
Qed.

(* ------------------------------------------------------------------ packed lengths *)
Lemma len_bounds : forall (h : hdr) (maxp seg : Z) off data,
  seg <= maxp - hdr_len h - fss_len h - crc_len h -> zlen data <= seg ->
  pdu_len (PFileData h off data) <= maxp /\
  (0 <= seg -> forall a c s, pdu_len (PAck h a c s) <= maxp) /\
  (hdr_len h + 6 + fss_len h + crc_len h <= maxp -> forall c ck sz, pdu_len (PEof h c ck sz None) <= maxp).
Proof.
  intros h maxp seg off data H1 H2. unfold pdu_len.
  assert (4 <= fss_len h) by (unfold fss_len; destruct (h_large h); lia).
  repeat split; intros; lia.
Qed.

(* ------------------------------------------------------------------ symbolic execution *)
(* decide a stuck comparison from the hypotheses *)
Ltac decide_cmp :=
  match goal with
  | |- context[Z.ltb ?a ?b] =>
      first [rewrite (proj2 (Z.ltb_lt a b)) by lia | rewrite (proj2 (Z.ltb_ge a b)) by lia]
  | |- context[Z.leb ?a ?b] =>
      first [rewrite (proj2 (Z.leb_le a b)) by lia | rewrite (proj2 (Z.leb_gt a b)) by lia]
  | |- context[Z.eqb ?a ?b] =>
      first [rewrite (proj2 (Z.eqb_eq a b)) by lia | rewrite (proj2 (Z.eqb_neq a b)) by lia]
  end.

Ltac sx :=
  repeat (progress (unfold set, bind, ret, get, gets, put, modify, raise, when, gq, setq, sset_step, semit, snow,
                      stid_or_assert, srcfg_or_assert, put_or_assert, stmode, smode_is, sadd_packet, sstep_is,
                      src_names, timed_out; cbn)).

Lemma read_len_eq : forall fsz seg off, 1 <= seg -> 0 <= off < fsz -> (fsz < seg -> off = 0 \/ off = fsz) ->
  (if fsz <? seg then fsz else if fsz <? off + seg then fsz - off else seg) = Z.min seg (fsz - off).
Proof.
  intros fsz seg off H1 H2 H3.
  destruct (fsz <? seg) eqn:E1; [apply Z.ltb_lt in E1; lia|]. apply Z.ltb_ge in E1.
  destruct (fsz <? off + seg) eqn:E2; [apply Z.ltb_lt in E2 | apply Z.ltb_ge in E2]; lia.
Qed.

Lemma ztake_min : forall (d : bytes) seg off, 0 <= off -> 0 <= seg ->
  ztake (Z.min seg (zlen d - off)) (zdrop off d) = ztake seg (zdrop off d).
Proof.
  intros d seg off H0 H1. destruct (Z.le_gt_cases seg (zlen d - off)).
  - rewrite Z.min_l by lia. reflexivity.
  - rewrite Z.min_r by lia. unfold ztake.
    assert (zlen (zdrop off d) = Z.max 0 (zlen d - off)) by (apply zlen_zdrop; lia).
    unfold zlen in *. rewrite !firstn_all2 by lia. reflexivity.
Qed.

Lemma pumps_S : forall k s,
  pumps (S k) s = match pump s with
                  | (s', Ok ps) => match pumps k s' with
                                   | (s'', Ok rest) => (s'', Ok (ps :: rest))
                                   | (s'', Err e) => (s'', Err e)
                                   end
                  | (s', Err e) => (s', Err e)
                  end.
Proof. reflexivity. Qed.

(* ------------------------------------------------------------------ the transfer after Metadata *)
Section Run.
Variables (c : lcfg) (p : putreq) (r : rcfg) (fs : tree) (d cks : bytes) (cf : sconf)
          (seg : Z) (closure : bool) (tid : Z * Z) (sn dn : path).
Hypothesis Hnames : pr_names p = Some (sn, dn).
Hypothesis Hlook : lookup fs sn = Some (File d).
Hypothesis Hseg : 1 <= seg.
Hypothesis Hmode : sc_mode cf = ACKED \/ sc_mode cf = UNACKED.
Hypothesis Hck : calculate_checksum (r_cktype r) (Some d) (zlen d) seg = Ok cks.
Hypothesis Hack : sc_mode cf = ACKED -> 0 < r_ack_ms r.
Hypothesis Hchk : sc_mode cf = UNACKED -> closure = true -> 0 < l_check_ms c.

(* the handler between two calls while file data is being sent: [off] bytes sent so far *)
Definition Inv (off : Z) (s : src) : Prop :=
  s_cfg s = c /\ s_state s = ST_BUSY /\ s_queue s = [] /\ s_put s = Some p /\ e_fs (s_env s) = fs /\
  q_conf (s_p s) = cf /\ q_progress (s_p s) = off /\ q_segment_len (s_p s) = seg /\
  q_file_size (s_p s) = Some (zlen d) /\ q_md_only (s_p s) = false /\
  q_empty_file (s_p s) = (zlen d =? 0) /\ q_rcfg (s_p s) = Some r /\ q_closure (s_p s) = closure /\
  q_tid (s_p s) = Some tid /\
  ((s_step s = SS_SENDING_METADATA /\ off = 0) \/ s_step s = SS_SENDING_FILE_DATA) /\
  0 <= off <= zlen d /\ (zlen d < seg -> off = 0 \/ off = zlen d).

Lemma cc_ok : forall s, s_put s = Some p -> q_md_only (s_p s) = false -> q_rcfg (s_p s) = Some r ->
  q_segment_len (s_p s) = seg -> e_fs (s_env s) = fs ->
  checksum_calculation (zlen d) s = (s, Ok cks).
Proof.
  intros s H1 H2 H3 H4 H5.
  unfold checksum_calculation, put_or_assert, srcfg_or_assert, gq, gets, bind, ret.
  rewrite H1. cbv beta iota. rewrite H2. cbv beta iota. rewrite Hnames. cbv beta iota.
  rewrite H3. cbv beta iota. rewrite H4, H5.
  destruct (r_cktype r =? CK_NULL) eqn:E.
  - unfold calculate_checksum in Hck. rewrite E in Hck. inversion Hck. reflexivity.
  - rewrite Hlook, Hck. reflexivity.
Qed.

(* one call while data remains: exactly one File Data PDU, the next tile *)
Lemma step_fd : forall off s, Inv off s -> off < zlen d ->
  exists s', pump s = (s', Ok [fd_of (hdr_of cf TOWARDS_RECEIVER) (off, ztake seg (zdrop off d))]) /\
             Inv (off + Z.min seg (zlen d - off)) s'.
Proof.
  intros off s HI Hlt.
  destruct HI as (H1&H2&H3&H4&H5&H6&H7&H8&H9&H10&H11&H12&H13&H14&H15&H16&H17).
  destruct s as [cfg st step ready queue q sb pt sc sbits [nw fs' rw lg]].
  destruct q. cbn in H1,H2,H3,H4,H5,H6,H7,H8,H9,H10,H11,H12,H13,H14,H15. subst.
  unfold pump, pump_with, state_machine_s.
  destruct cf as [c1 c2 c3 c4 c5 c6 md c8 c9]. cbn in Hmode.
  destruct H15 as [[Hs _]|Hs]; subst step; (destruct Hmode as [Hm|Hm]; subst md);
    repeat (progress (sx; unfold sending_file_data_fsm, handle_retransmission, prepare_progressing_file_data_pdu,
                        prepare_file_data_pdu, fs_read_data;
                      rewrite ?Hnames, ?Hlook; try decide_cmp));
    rewrite read_len_eq by lia; rewrite ztake_min by lia;
    (eexists; split; [reflexivity|]);
    unfold Inv; cbn; repeat split; try reflexivity; try lia; right; reflexivity.
Qed.

End Run.
