(* GuardProofs.v — proofs for property C10 (props/C10.v): the handlers fail only with protocol
   exceptions and only when the caller is at fault (admission checks, unretrieved-PDU guards,
   the packets-ready counter).

   Method: one compositional predicate [MInv delta E m] on monadic computations
     "m preserves the measure [delta] of the state, and every exception m raises satisfies E",
   closed under ret / raise / bind / when / catch / fold_left / case analysis, and one tactic
   ([minv]) that walks through the model code.  Instances:
     delta = whole state,            E = admission exceptions (admission checks are pure)
     delta = nothing,                E = "not E_UNRETRIEVED"   (who can raise UnretrievedPdusToBeSent)
     delta = d_ready - |d_queue|,    E = anything              (packets-ready counter) *)
From CFDP Require Import Base LostSeg Fs Crc Checksum Handler Dest Source HandlerSpec.
From CFDP.gen Require Import Tables.
From RecordUpdate Require Import RecordSet.
Import RecordSetNotations.

Local Opaque calculate_checksum.

(* ------------------------------------------------------------------ the predicate *)
Section MInvSec.
  Context {S T : Type}.
  Variable delta : S -> T.
  Variable E : Z -> Prop.

  Definition MInv {A} (m : M S A) : Prop :=
    forall s, delta (fst (m s)) = delta s /\ forall e, snd (m s) = Err e -> E e.

  Lemma minv_ret {A} (a : A) : MInv (ret a).
  Proof. intro s. split; [reflexivity | intros e H; discriminate H]. Qed.

  Lemma minv_raise {A} (e : Z) : E e -> MInv (@raise S A e).
  Proof. intros He s. split; [reflexivity | intros e' H; inversion H; subst; exact He]. Qed.

  Lemma minv_get : MInv (@get S).
  Proof. intro s. split; [reflexivity | intros e H; discriminate H]. Qed.

  Lemma minv_gets {A} (f : S -> A) : MInv (gets f).
  Proof. intro s. split; [reflexivity | intros e H; discriminate H]. Qed.

  Lemma minv_modify (f : S -> S) : (forall s, delta (f s) = delta s) -> MInv (modify f).
  Proof. intros Hf s. split; [apply Hf | intros e H; discriminate H]. Qed.

  Lemma minv_put (x : S) : (forall s, delta x = delta s) -> MInv (put x).
  Proof. intros Hx s. split; [apply Hx | intros e H; discriminate H]. Qed.

  Lemma minv_bind {A B} (m : M S A) (f : A -> M S B) :
    MInv m -> (forall a, MInv (f a)) -> MInv (bind m f).
  Proof.
    intros Hm Hf s. unfold bind. specialize (Hm s).
    destruct (m s) as [s1 [a|e]]; cbn [fst snd] in *.
    - destruct Hm as [H1 _]. destruct (Hf a s1) as [H2 H3]. split; [congruence | exact H3].
    - destruct Hm as [H1 H2]. split; [exact H1|]. intros e0 He. inversion He; subst. apply H2. reflexivity.
  Qed.

  Lemma minv_when (b : bool) (m : M S unit) : MInv m -> MInv (when b m).
  Proof. intro Hm. unfold when. destruct b; [exact Hm | apply minv_ret]. Qed.

  Lemma minv_catch {A} (m : M S A) (h : Z -> option (M S A)) :
    MInv m -> (forall e k, h e = Some k -> MInv k) -> MInv (catch m h).
  Proof.
    intros Hm Hh s. unfold catch. specialize (Hm s).
    destruct (m s) as [s1 [a|e]]; cbn [fst snd] in *.
    - exact Hm.
    - destruct (h e) as [k|] eqn:Hk.
      + destruct Hm as [H1 _]. destruct (Hh e k Hk s1) as [H2 H3]. split; [congruence | exact H3].
      + exact Hm.
  Qed.

  Lemma minv_fold {B} (g : B -> M S unit) (l : list B) : forall m0,
    MInv m0 -> (forall b, MInv (g b)) -> MInv (fold_left (fun m b => bind m (fun _ => g b)) l m0).
  Proof.
    induction l as [|b l IH]; intros m0 H0 Hg; cbn [fold_left]; [exact H0|].
    apply IH; [|exact Hg]. apply minv_bind; [exact H0 | intros _; apply Hg].
  Qed.

  Lemma minv_state {A} (m : M S A) s : MInv m -> delta (fst (m s)) = delta s.
  Proof. intro H. apply H. Qed.

  Lemma minv_exn {A} (m : M S A) s s' e : MInv m -> m s = (s', Err e) -> E e.
  Proof. intros H Hm. destruct (H s) as [_ H2]. apply H2. rewrite Hm. reflexivity. Qed.
End MInvSec.

Lemma minv_weaken {S T A} (delta : S -> T) (E E' : Z -> Prop) (m : M S A) :
  (forall e, E e -> E' e) -> MInv delta E m -> MInv delta E' m.
Proof. intros HE H s. destruct (H s) as [H1 H2]. split; [exact H1 | intros e He; apply HE, H2, He]. Qed.

(* inversion of a failing bind *)
Lemma bind_err {S A B} (m : M S A) (f : A -> M S B) s s' e :
  bind m f s = (s', Err e) ->
  m s = (s', Err e) \/ exists a s1, m s = (s1, Ok a) /\ f a s1 = (s', Err e).
Proof.
  unfold bind. destruct (m s) as [s1 [a|e1]]; intro H.
  - right. exists a, s1. split; [reflexivity | exact H].
  - left. inversion H. reflexivity.
Qed.

(* exception classes *)
Definition Any (e : Z) : Prop := True.
Definition Ne1 (e : Z) : Prop := (e =? E_UNRETRIEVED) = false.
Definition nothing {S} (s : S) : unit := tt.
Definition whole {S} (s : S) : S := s.

Lemma minv_any {S T A} (delta : S -> T) (E : Z -> Prop) (m : M S A) : MInv delta E m -> MInv delta Any m.
Proof. apply minv_weaken. intros e _. exact I. Qed.

(* the guard shape  s <- get ;; if c s then raise UNRETRIEVED else k s *)
Lemma guard_shape {S A} (c : S -> bool) (k : S -> M S A) s s' :
  bind get (fun s0 => if c s0 then raise E_UNRETRIEVED else k s0) s = (s', Err E_UNRETRIEVED) ->
  (forall s0, MInv nothing Ne1 (k s0)) -> c s = true /\ s' = s.
Proof.
  unfold bind, get. destruct (c s).
  - unfold raise. intros H _. inversion H. split; reflexivity.
  - intros H Hk. exfalso. pose proof (minv_exn _ _ _ _ _ _ (Hk s) H) as X. discriminate X.
Qed.

(* ------------------------------------------------------------------ the walking tactic *)
Create HintDb minv discriminated.

Ltac mhead t := match t with ?f _ => mhead f | _ => t end.

Ltac mside :=
  first
    [ exact I
    | reflexivity
    | (intros; reflexivity)
    | match goal with |- context [oserr_exn ?e] => destruct e; reflexivity end
    | (hnf; left; simpl; tauto)
    | (hnf; right; split; [reflexivity | assumption]) ].

Ltac mhandler :=
  let e := fresh "e" in let k := fresh "k" in let Hh := fresh "Hh" in
  intros e k Hh; cbv beta in Hh;
  match type of Hh with
  | (if ?c then Some _ else None) = Some _ => destruct c; [inversion Hh; subst k; clear Hh | discriminate Hh]
  end.

Ltac minv_step D :=
  cbv beta zeta;
  match goal with
  | |- MInv _ _ _ => solve [auto with minv nocore]
  | |- MInv ?d Any ?m => solve [apply (minv_any d Ne1 m); auto with minv nocore]
  | |- MInv _ _ (bind _ _) => apply minv_bind; [|intro]
  | |- MInv _ _ (ret _) => apply minv_ret
  | |- MInv _ _ (raise _) => apply minv_raise; mside
  | |- MInv _ _ get => apply minv_get
  | |- MInv _ _ (gets _) => apply minv_gets
  | |- MInv _ _ (modify _) => apply minv_modify; mside
  | |- MInv _ _ (put _) => apply minv_put; mside
  | |- MInv _ _ (when _ _) => apply minv_when
  | |- MInv _ _ (catch _ _) => apply minv_catch; [|mhandler]
  | |- MInv _ _ (fold_left _ _ _) => apply minv_fold; [|intro]
  | |- MInv _ _ (if ?b then _ else _) => D b
  | |- MInv _ _ (match ?x with _ => _ end) => D x
  | |- MInv _ _ ?m => let h := mhead m in unfold h
  end.
Ltac minv := repeat (minv_step ltac:(fun x => destruct x)).
Ltac minve := repeat (minv_step ltac:(fun x => destruct x eqn:?)).

(* ------------------------------------------------------------------ admission checks *)
Definition AdmD (p : pdu) (e : Z) : Prop :=
  In e [E_INVALID_DIRECTION; E_INVALID_DEST_ID; E_NO_REMOTE_CFG; E_INVALID_PDU_FOR_DEST; E_PDU_IGNORED_DEST] \/
  (e = E_VALUE /\ Dest.packet_destination p = None).
Definition AdmS (p : pdu) (e : Z) : Prop :=
  In e [E_INVALID_DIRECTION; E_INVALID_SOURCE_ID; E_NO_REMOTE_CFG; E_INVALID_DEST_ID; E_INVALID_SEQ_NUM;
        E_INVALID_PDU_FOR_SOURCE; E_PDU_IGNORED_SOURCE] \/
  (e = E_VALUE /\ Dest.packet_destination p = None).

Lemma adm_d : forall p, MInv whole (AdmD p) (check_inserted_packet p).
Proof. intro p. minve. Qed.

Lemma adm_s : forall p, MInv whole (AdmS p) (check_inserted_packet_s p).
Proof. intro p. minve. Qed.

Lemma adm_d_ne1 : forall p, MInv nothing Ne1 (check_inserted_packet p).
Proof.
  intro p. intro s. split; [reflexivity|]. intros e H. apply (adm_d p s) in H.
  unfold Ne1. destruct H as [H|[H _]]; [|subst; reflexivity].
  simpl in H. repeat (destruct H as [H|H]; [subst; reflexivity|]). contradiction.
Qed.

Lemma adm_s_ne1 : forall p, MInv nothing Ne1 (check_inserted_packet_s p).
Proof.
  intro p. intro s. split; [reflexivity|]. intros e H. apply (adm_s p s) in H.
  unfold Ne1. destruct H as [H|[H _]]; [|subst; reflexivity].
  simpl in H. repeat (destruct H as [H|H]; [subst; reflexivity|]). contradiction.
Qed.

Lemma dest_reject_unchanged : forall p s s' e,
  check_inserted_packet p s = (s', Err e) -> s' = s /\ Dest.state_machine (Some p) s = (s, Err e).
Proof.
  intros p s s' e H.
  assert (s' = s) as ->.
  { pose proof (minv_state _ _ _ s (adm_d p)) as X. rewrite H in X. exact X. }
  split; [reflexivity|]. unfold Dest.state_machine. unfold bind at 1. rewrite H. reflexivity.
Qed.

Lemma source_reject_unchanged : forall p s s' e,
  check_inserted_packet_s p s = (s', Err e) -> s' = s /\ state_machine_s (Some p) s = (s, Err e).
Proof.
  intros p s s' e H.
  assert (s' = s) as ->.
  { pose proof (minv_state _ _ _ s (adm_s p)) as X. rewrite H in X. exact X. }
  split; [reflexivity|]. unfold state_machine_s. unfold bind at 1. rewrite H. reflexivity.
Qed.

Lemma admission_exceptions : forall p s sd e,
  (snd (check_inserted_packet p sd) = Err e ->
     In e [E_INVALID_DIRECTION; E_INVALID_DEST_ID; E_NO_REMOTE_CFG; E_INVALID_PDU_FOR_DEST; E_PDU_IGNORED_DEST] \/
     (e = E_VALUE /\ Dest.packet_destination p = None)) /\
  (snd (check_inserted_packet_s p s) = Err e ->
     In e [E_INVALID_DIRECTION; E_INVALID_SOURCE_ID; E_NO_REMOTE_CFG; E_INVALID_DEST_ID; E_INVALID_SEQ_NUM;
           E_INVALID_PDU_FOR_SOURCE; E_PDU_IGNORED_SOURCE] \/
     (e = E_VALUE /\ Dest.packet_destination p = None)).
Proof.
  intros p s sd e. split; intro H.
  - exact (proj2 (adm_d p sd) e H).
  - exact (proj2 (adm_s p s) e H).
Qed.

(* ------------------------------------------------------------------ source handler: who raises E_UNRETRIEVED *)
Notation SNe m := (MInv (@nothing src) Ne1 m).

Lemma sne_checksum_calculation : forall size, SNe (checksum_calculation size).
Proof. intro. minv. Qed.
#[local] Hint Resolve sne_checksum_calculation : minv.

Lemma sne_prepare_file_data_pdu : forall o l, SNe (prepare_file_data_pdu o l).
Proof. intros. minv. Qed.
#[local] Hint Resolve sne_prepare_file_data_pdu : minv.

Lemma sne_prepare_metadata_pdu : SNe prepare_metadata_pdu.
Proof. minv. Qed.
#[local] Hint Resolve sne_prepare_metadata_pdu : minv.

Lemma sne_prepare_eof_pdu : forall ck, SNe (prepare_eof_pdu ck).
Proof. intro. minv. Qed.
#[local] Hint Resolve sne_prepare_eof_pdu : minv.

Lemma sne_handle_eof_sent : forall b, SNe (handle_eof_sent b).
Proof. intro. minv. Qed.
#[local] Hint Resolve sne_handle_eof_sent : minv.

Lemma sne_notice_of_cancellation_s : forall c, SNe (notice_of_cancellation_s c).
Proof. intro. minv. Qed.
#[local] Hint Resolve sne_notice_of_cancellation_s : minv.

Lemma sne_declare_fault_s : forall c, SNe (declare_fault_s c).
Proof. intro. minv. Qed.
#[local] Hint Resolve sne_declare_fault_s : minv.

Lemma sne_transaction_start : SNe transaction_start.
Proof. minv. Qed.
#[local] Hint Resolve sne_transaction_start : minv.

Lemma sne_retransmit_chunks : forall fuel o m seg, SNe (retransmit_chunks fuel o m seg).
Proof. induction fuel; intros; cbn [retransmit_chunks]; minv. Qed.
#[local] Hint Resolve sne_retransmit_chunks : minv.

Lemma sne_handle_segment_req : forall rq, SNe (handle_segment_req rq).
Proof. intro. minv. Qed.
#[local] Hint Resolve sne_handle_segment_req : minv.

Lemma sne_handle_retransmission : forall pkt, SNe (handle_retransmission pkt).
Proof. intro. minv. Qed.
#[local] Hint Resolve sne_handle_retransmission : minv.

Lemma sne_sending_file_data_fsm : forall pkt, SNe (sending_file_data_fsm pkt).
Proof. intro. minv. Qed.
#[local] Hint Resolve sne_sending_file_data_fsm : minv.

Lemma sne_handle_waiting_for_ack : forall pkt, SNe (handle_waiting_for_ack pkt).
Proof. intro. minv. Qed.
#[local] Hint Resolve sne_handle_waiting_for_ack : minv.

Lemma sne_handle_wait_for_finish : forall pkt, SNe (handle_wait_for_finish pkt).
Proof. intro. minv. Qed.
#[local] Hint Resolve sne_handle_wait_for_finish : minv.

Lemma sne_notice_of_completion_s : SNe notice_of_completion_s.
Proof. minv. Qed.
#[local] Hint Resolve sne_notice_of_completion_s : minv.

Lemma zlen_nil_ltb : forall {A} (l : list A), (0 <? zlen l) = true -> l <> [].
Proof. intros A l H Hl. subst l. discriminate H. Qed.

Lemma fsm_advancement_s_guard : forall s s',
  fsm_advancement_s s = (s', Err E_UNRETRIEVED) -> s_queue s <> [] /\ s' = s.
Proof.
  intros s s' H. unfold fsm_advancement_s in H.
  apply (guard_shape (fun s => 0 <? zlen (s_queue s))) in H.
  - destruct H as [H1 H2]. split; [apply zlen_nil_ltb; exact H1 | exact H2].
  - intro s0. minv.
Qed.

Lemma source_unretrieved_only_if_queued : forall pkt s s',
  state_machine_s pkt s = (s', Err E_UNRETRIEVED) -> s_queue s <> [].
Proof.
  intros pkt s s' H. unfold state_machine_s in H.
  apply bind_err in H. destruct H as [H | [a [s1 [H1 H2]]]].
  - exfalso. destruct pkt as [p|].
    + pose proof (minv_exn _ _ _ _ _ _ (adm_s_ne1 p) H) as X. discriminate X.
    + discriminate H.
  - assert (s1 = s) as ->.
    { destruct pkt as [p|].
      + pose proof (minv_state _ _ _ s (adm_s p)) as X. rewrite H1 in X. exact X.
      + inversion H1. reflexivity. }
    clear H1. cbv beta in H2. unfold bind at 1, get in H2. cbv beta iota in H2.
    destruct (s_state s =? ST_IDLE); [discriminate H2|].
    unfold fsm_non_idle in H2. apply bind_err in H2. destruct H2 as [H2 | [a' [s2 [_ H3]]]].
    + apply fsm_advancement_s_guard in H2. apply H2.
    + exfalso. cbv beta in H3.
      match type of H3 with ?m ?x = _ =>
        assert (SNe m) as Hm by minv; pose proof (minv_exn _ _ _ _ _ _ Hm H3) as X end.
      discriminate X.
Qed.

Lemma source_cancel_unretrieved_only_if_ready : forall a b s s',
  cancel_request_s a b s = (s', Err E_UNRETRIEVED) -> 0 < s_ready s.
Proof.
  intros a b s s' H. unfold cancel_request_s in H.
  apply (guard_shape (fun s => 0 <? s_ready s)) in H.
  - destruct H as [H _]. apply Z.ltb_lt. exact H.
  - intro s0. minv.
Qed.

(* ------------------------------------------------------------------ destination handler *)
(* the measure: packets-ready counter minus queue length *)
Definition dl (s : dst) : Z := d_ready s - zlen (d_queue s).
Definition ready_inv (s : dst) : Prop := d_ready s = zlen (d_queue s).

Lemma zlen_app1 : forall {A} (q : list A) (p : A), zlen (q ++ [p]) = zlen q + 1.
Proof. intros. unfold zlen. rewrite app_length. cbn [length]. lia. Qed.

(* part 1: the functions reachable from the advancement guard keep the measure and never raise E_UNRETRIEVED *)
Notation DNe m := (MInv dl Ne1 m).
Notation DAny m := (MInv dl Any m).

Lemma dne_add_packet : forall p, DNe (add_packet p).
Proof.
  intros p s. split; [|intros e H; discriminate H].
  unfold add_packet, modify, dl. cbn. rewrite zlen_app1. lia.
Qed.
#[local] Hint Resolve dne_add_packet : minv.

Lemma dne_declare_fault : forall c, DNe (declare_fault c).
Proof. intro. minv. Qed.
#[local] Hint Resolve dne_declare_fault : minv.

Lemma dne_checksum_verify : DNe checksum_verify.
Proof. minv. Qed.
#[local] Hint Resolve dne_checksum_verify : minv.

Lemma dne_deferred_lost_segment_handling : DNe deferred_lost_segment_handling.
Proof. minv. Qed.
#[local] Hint Resolve dne_deferred_lost_segment_handling : minv.

Lemma dne_start_deferred_lost_segment_handling : DNe start_deferred_lost_segment_handling.
Proof. minv. Qed.
#[local] Hint Resolve dne_start_deferred_lost_segment_handling : minv.

Lemma dne_nothing : forall {A} (m : D A), DNe m -> MInv (@nothing dst) Ne1 m.
Proof. intros A m H s. split; [reflexivity | apply H]. Qed.

Lemma dest_advancement_guard : forall s s',
  fsm_advancement s = (s', Err E_UNRETRIEVED) -> d_queue s <> [] /\ s' = s.
Proof.
  intros s s' H. unfold fsm_advancement in H.
  apply (guard_shape (fun s => 0 <? zlen (d_queue s))) in H.
  - destruct H as [H1 H2]. split; [apply zlen_nil_ltb; exact H1 | exact H2].
  - intro s0. apply dne_nothing. minv.
Qed.

Lemma dest_cancel_unretrieved_only_if_ready : forall a b s s',
  Dest.cancel_request a b s = (s', Err E_UNRETRIEVED) -> 0 < d_ready s /\ s' = s.
Proof.
  intros a b s s' H. unfold Dest.cancel_request in H.
  unfold bind at 1, get in H. cbv beta iota in H.
  destruct (d_state s =? ST_IDLE); [discriminate H|].
  destruct (0 <? d_ready s) eqn:Hr.
  - inversion H. subst s'. split; [apply Z.ltb_lt; exact Hr | reflexivity].
  - exfalso.
    match type of H with ?m ?x = _ =>
      assert (DNe m) as Hm by minv; pose proof (minv_exn _ _ _ _ _ _ Hm H) as X end.
    discriminate X.
Qed.

(* part 2: every function keeps the measure *)
Lemma dany_fsm_advancement : DAny fsm_advancement.
Proof. minv. Qed.
#[local] Hint Resolve dany_fsm_advancement : minv.

Lemma dany_common_first_packet_handler : forall h, DAny (common_first_packet_handler h).
Proof.
  intros h s. split; [|intros e _; exact I].
  unfold common_first_packet_handler, bind, get, put, ret.
  destruct (negb (d_state s =? ST_IDLE)); reflexivity.
Qed.
#[local] Hint Resolve dany_common_first_packet_handler : minv.

Lemma dany_file_transfer_complete_transition : DAny file_transfer_complete_transition.
Proof. minv. Qed.
#[local] Hint Resolve dany_file_transfer_complete_transition : minv.

Lemma dany_lost_segment_handling : forall o l, DAny (lost_segment_handling o l).
Proof. intros. minv. Qed.
#[local] Hint Resolve dany_lost_segment_handling : minv.

Lemma dany_handle_fd_pdu : forall o d, DAny (handle_fd_pdu o d).
Proof. intros. minv. Qed.
#[local] Hint Resolve dany_handle_fd_pdu : minv.

Lemma dany_handle_eof_pdu : forall c ck sz, DAny (handle_eof_pdu c ck sz).
Proof. intros. minv. Qed.
#[local] Hint Resolve dany_handle_eof_pdu : minv.

Lemma dany_handle_metadata_packet : forall h cl ck sz names msgs, DAny (handle_metadata_packet h cl ck sz names msgs).
Proof. intros. minv. Qed.
#[local] Hint Resolve dany_handle_metadata_packet : minv.

Lemma dany_handle_eof_without_previous_metadata : forall c ck sz, DAny (handle_eof_without_previous_metadata c ck sz).
Proof. intros. minv. Qed.
#[local] Hint Resolve dany_handle_eof_without_previous_metadata : minv.

Lemma dany_handle_fd_without_previous_metadata : forall f o d, DAny (handle_fd_without_previous_metadata f o d).
Proof. intros. minv. Qed.
#[local] Hint Resolve dany_handle_fd_without_previous_metadata : minv.

Lemma dany_idle_fsm : forall pkt, DAny (idle_fsm pkt).
Proof. intros. minv. Qed.
#[local] Hint Resolve dany_idle_fsm : minv.

Lemma dany_handle_waiting_for_missing_metadata : forall pkt, DAny (handle_waiting_for_missing_metadata pkt).
Proof. intros. minv. Qed.
#[local] Hint Resolve dany_handle_waiting_for_missing_metadata : minv.

Lemma dany_check_limit_handling : DAny check_limit_handling.
Proof. minv. Qed.
#[local] Hint Resolve dany_check_limit_handling : minv.

Lemma dany_handle_transfer_completion : DAny handle_transfer_completion.
Proof. minv. Qed.
#[local] Hint Resolve dany_handle_transfer_completion : minv.

Lemma dany_prepare_finished_pdu : DAny prepare_finished_pdu.
Proof. minv. Qed.
#[local] Hint Resolve dany_prepare_finished_pdu : minv.

Lemma dany_handle_finished_pdu_sent : DAny handle_finished_pdu_sent.
Proof. minv. Qed.
#[local] Hint Resolve dany_handle_finished_pdu_sent : minv.

Lemma dany_handle_waiting_for_finished_ack : forall again pkt,
  DAny again -> DAny (handle_waiting_for_finished_ack again pkt).
Proof. intros again pkt Hagain. minv. Qed.

Lemma dany_non_idle_fsm : forall fuel pkt, DAny (non_idle_fsm fuel pkt).
Proof.
  induction fuel as [|k IH]; intro pkt; cbn [non_idle_fsm]; minv;
    apply dany_handle_waiting_for_finished_ack; minv.
Qed.
#[local] Hint Resolve dany_non_idle_fsm : minv.

Lemma dany_state_machine : forall pkt, DAny (Dest.state_machine pkt).
Proof. intro pkt. minv. Qed.

Lemma dany_get_next_packet : DAny Dest.get_next_packet.
Proof.
  intro s. split; [|intros e _; exact I].
  unfold Dest.get_next_packet, bind, get, put, ret.
  destruct s as [cfg st step stid ready q p env]. destruct q as [|x q]; cbn; [reflexivity|].
  unfold dl. cbn. unfold zlen. cbn [length]. lia.
Qed.

Lemma dany_cancel_request : forall a b, DAny (Dest.cancel_request a b).
Proof. intros. minv. Qed.

Lemma dany_reset : DAny Dest.reset.
Proof. minv. Qed.

Lemma ready_inv_dl : forall s, ready_inv s <-> dl s = 0.
Proof. intro s. unfold ready_inv, dl. lia. Qed.

Lemma dest_ready_inv : forall pkt s a b,
  ready_inv s ->
  ready_inv (fst (Dest.state_machine pkt s)) /\ ready_inv (fst (Dest.get_next_packet s)) /\
  ready_inv (fst (Dest.cancel_request a b s)) /\ ready_inv (fst (Dest.reset s)).
Proof.
  intros pkt s a b H. apply ready_inv_dl in H.
  repeat split; apply ready_inv_dl.
  - rewrite (minv_state _ _ _ s (dany_state_machine pkt)). exact H.
  - rewrite (minv_state _ _ _ s dany_get_next_packet). exact H.
  - rewrite (minv_state _ _ _ s (dany_cancel_request a b)). exact H.
  - rewrite (minv_state _ _ _ s dany_reset). exact H.
Qed.

(* ------------------------------------------------------------------ get_next_packet never raises *)
Lemma get_never_raises : forall s sd,
  (exists r, snd (get_next_packet_s s) = Ok r) /\ (exists r, snd (Dest.get_next_packet sd) = Ok r).
Proof.
  intros s sd. split.
  - unfold get_next_packet_s, bind, get, put, ret. destruct (s_queue s); eexists; reflexivity.
  - unfold Dest.get_next_packet, bind, get, put, ret. destruct (d_queue sd); eexists; reflexivity.
Qed.

Print Assumptions dest_reject_unchanged.
Print Assumptions source_reject_unchanged.
Print Assumptions admission_exceptions.
Print Assumptions source_unretrieved_only_if_queued.
Print Assumptions source_cancel_unretrieved_only_if_ready.
Print Assumptions dest_advancement_guard.
Print Assumptions dest_cancel_unretrieved_only_if_ready.
Print Assumptions dest_ready_inv.
Print Assumptions get_never_raises.

(* ------------------------------------------------------------------ source handler: the packets-ready counter *)
(* (after the F28 repair) the sender satisfies the same invariant as the receiver.  The abandon path
   (sreset_internal true) does not keep the measure s_ready - |s_queue| but establishes the invariant outright,
   so this is a predicate-preservation walk: [RInv m] = "m keeps s_ready = |s_queue|, whether it returns or raises". *)
Definition ready_inv_s (s : src) : Prop := s_ready s = zlen (s_queue s).

Definition RInv {A} (m : SM A) : Prop := forall s, ready_inv_s s -> ready_inv_s (fst (m s)).

Lemma rinv_ret {A} (a : A) : RInv (ret a).
Proof. intros s H. exact H. Qed.
Lemma rinv_raise {A} e : RInv (@raise src A e).
Proof. intros s H. exact H. Qed.
Lemma rinv_gets {A} (f : src -> A) : RInv (gets f).
Proof. intros s H. exact H. Qed.
Lemma rinv_modify (f : src -> src) : (forall s, ready_inv_s s -> ready_inv_s (f s)) -> RInv (modify f).
Proof. intros Hf s H. apply Hf, H. Qed.
Lemma rinv_put x : ready_inv_s x -> RInv (put x).
Proof. intros Hx s _. exact Hx. Qed.
Lemma rinv_bind {A B} (m : SM A) (f : A -> SM B) : RInv m -> (forall a, RInv (f a)) -> RInv (bind m f).
Proof.
  intros Hm Hf s H. unfold bind. specialize (Hm s H).
  destruct (m s) as [s1 [a|e]]; cbn [fst] in *; [apply Hf, Hm | exact Hm].
Qed.
Lemma rinv_get_bind {B} (f : src -> SM B) : (forall s0, ready_inv_s s0 -> RInv (f s0)) -> RInv (bind get f).
Proof. intros Hf s H. unfold bind, get. exact (Hf s H s H). Qed.
Lemma rinv_when b (m : SM unit) : RInv m -> RInv (when b m).
Proof. intro Hm. destruct b; [exact Hm | apply rinv_ret]. Qed.
Lemma rinv_fold {B} (g : B -> SM unit) (l : list B) : forall m0,
  RInv m0 -> (forall b, RInv (g b)) -> RInv (fold_left (fun m b => bind m (fun _ => g b)) l m0).
Proof.
  induction l as [|b l IH]; intros m0 H0 Hg; cbn [fold_left]; [exact H0|].
  apply IH; [|exact Hg]. apply rinv_bind; [exact H0 | intros _; apply Hg].
Qed.

(* the three places that touch the counter or the queue *)
Lemma rinv_sadd_packet : forall p, RInv (sadd_packet p).
Proof.
  intros p s H. unfold sadd_packet, modify, ready_inv_s in *. cbn. rewrite zlen_app1. lia.
Qed.
Lemma rinv_sreset_internal : forall c, RInv (sreset_internal c).
Proof.
  intros c s H. unfold sreset_internal, modify, ready_inv_s in *. destruct c; cbn; [reflexivity | exact H].
Qed.
Lemma rinv_get_next_packet_s : RInv get_next_packet_s.
Proof.
  intros s H. unfold get_next_packet_s, bind, get, put, ret, ready_inv_s in *.
  destruct s as [cfg st step ready q p sb pt sc sbits env]. cbn in *.
  destruct q as [|x q]; cbn; [exact H|]. unfold zlen in *. cbn [length] in H. lia.
Qed.

Create HintDb rinv discriminated.
#[local] Hint Resolve rinv_sadd_packet rinv_sreset_internal : rinv.

(* side condition of modify / put: the update leaves s_ready and s_queue alone *)
Ltac rinv_side :=
  unfold ready_inv_s in *;
  repeat match goal with H : s_ready ?x = _ |- _ => is_var x; destruct x; cbn in H end;
  first [ intros []; cbn; intro; assumption | cbn; assumption ].

Ltac rinv_step :=
  cbv beta zeta;
  match goal with
  | |- RInv _ => solve [auto with rinv nocore]
  | |- RInv (bind get _) => apply rinv_get_bind; intros ? ?
  | |- RInv (bind _ _) => apply rinv_bind; [|intro]
  | |- RInv (ret _) => apply rinv_ret
  | |- RInv (raise _) => apply rinv_raise
  | |- RInv (gets _) => apply rinv_gets
  | |- RInv (modify _) => apply rinv_modify; rinv_side
  | |- RInv (put _) => apply rinv_put; rinv_side
  | |- RInv (when _ _) => apply rinv_when
  | |- RInv (fold_left _ _ _) => apply rinv_fold; [|intro]
  | |- RInv (if ?b then _ else _) => destruct b
  | |- RInv (match ?x with _ => _ end) => destruct x
  | |- RInv ?m => let h := mhead m in unfold h
  end.
Ltac rinv := repeat rinv_step.

Lemma rinv_checksum_calculation : forall size, RInv (checksum_calculation size).
Proof. intro. rinv. Qed.
#[local] Hint Resolve rinv_checksum_calculation : rinv.
Lemma rinv_prepare_file_data_pdu : forall o l, RInv (prepare_file_data_pdu o l).
Proof. intros. rinv. Qed.
#[local] Hint Resolve rinv_prepare_file_data_pdu : rinv.
Lemma rinv_prepare_metadata_pdu : RInv prepare_metadata_pdu.
Proof. rinv. Qed.
#[local] Hint Resolve rinv_prepare_metadata_pdu : rinv.
Lemma rinv_prepare_eof_pdu : forall ck, RInv (prepare_eof_pdu ck).
Proof. intro. rinv. Qed.
#[local] Hint Resolve rinv_prepare_eof_pdu : rinv.
Lemma rinv_handle_eof_sent : forall b, RInv (handle_eof_sent b).
Proof. intro. rinv. Qed.
#[local] Hint Resolve rinv_handle_eof_sent : rinv.
Lemma rinv_notice_of_cancellation_s : forall c, RInv (notice_of_cancellation_s c).
Proof. intro. rinv. Qed.
#[local] Hint Resolve rinv_notice_of_cancellation_s : rinv.
Lemma rinv_declare_fault_s : forall c, RInv (declare_fault_s c).
Proof. intro. rinv. Qed.
#[local] Hint Resolve rinv_declare_fault_s : rinv.
Lemma rinv_transaction_start : RInv transaction_start.
Proof. rinv. Qed.
#[local] Hint Resolve rinv_transaction_start : rinv.
Lemma rinv_retransmit_chunks : forall fuel o m seg, RInv (retransmit_chunks fuel o m seg).
Proof. induction fuel; intros; cbn [retransmit_chunks]; rinv. Qed.
#[local] Hint Resolve rinv_retransmit_chunks : rinv.
Lemma rinv_handle_segment_req : forall rq, RInv (handle_segment_req rq).
Proof. intro. rinv. Qed.
#[local] Hint Resolve rinv_handle_segment_req : rinv.
Lemma rinv_handle_retransmission : forall pkt, RInv (handle_retransmission pkt).
Proof. intro. rinv. Qed.
#[local] Hint Resolve rinv_handle_retransmission : rinv.
Lemma rinv_sending_file_data_fsm : forall pkt, RInv (sending_file_data_fsm pkt).
Proof. intro. rinv. Qed.
#[local] Hint Resolve rinv_sending_file_data_fsm : rinv.
Lemma rinv_handle_waiting_for_ack : forall pkt, RInv (handle_waiting_for_ack pkt).
Proof. intro. rinv. Qed.
#[local] Hint Resolve rinv_handle_waiting_for_ack : rinv.
Lemma rinv_handle_wait_for_finish : forall pkt, RInv (handle_wait_for_finish pkt).
Proof. intro. rinv. Qed.
#[local] Hint Resolve rinv_handle_wait_for_finish : rinv.
Lemma rinv_notice_of_completion_s : RInv notice_of_completion_s.
Proof. rinv. Qed.
#[local] Hint Resolve rinv_notice_of_completion_s : rinv.
Lemma rinv_fsm_advancement_s : RInv fsm_advancement_s.
Proof. rinv. Qed.
#[local] Hint Resolve rinv_fsm_advancement_s : rinv.
Lemma rinv_check_inserted_packet_s : forall p, RInv (check_inserted_packet_s p).
Proof. intros p s H. pose proof (minv_state _ _ _ s (adm_s p)) as X. unfold whole in X. rewrite X. exact H. Qed.
#[local] Hint Resolve rinv_check_inserted_packet_s : rinv.
Lemma rinv_fsm_non_idle : forall pkt, RInv (fsm_non_idle pkt).
Proof. intro. rinv. Qed.
#[local] Hint Resolve rinv_fsm_non_idle : rinv.
Lemma rinv_state_machine_s : forall pkt, RInv (state_machine_s pkt).
Proof. intro. rinv. Qed.
Lemma rinv_put_request : forall p, RInv (put_request p).
Proof. intro. rinv. Qed.
Lemma rinv_cancel_request_s : forall a b, RInv (cancel_request_s a b).
Proof. intros. rinv. Qed.

Lemma source_ready_inv : forall pkt p a b s,
  ready_inv_s s ->
  ready_inv_s (fst (state_machine_s pkt s)) /\ ready_inv_s (fst (put_request p s)) /\
  ready_inv_s (fst (get_next_packet_s s)) /\ ready_inv_s (fst (cancel_request_s a b s)) /\ ready_inv_s (fst (reset_s s)).
Proof.
  intros pkt p a b s H. split; [|split; [|split; [|split]]].
  - exact (rinv_state_machine_s pkt s H).
  - exact (rinv_put_request p s H).
  - exact (rinv_get_next_packet_s s H).
  - exact (rinv_cancel_request_s a b s H).
  - exact (rinv_sreset_internal true s H).
Qed.

Lemma source_ready_inv_init : forall c seq0 bits, ready_inv_s (src_init c seq0 bits).
Proof. intros. reflexivity. Qed.

Print Assumptions source_ready_inv.
Print Assumptions source_ready_inv_init.
