(* RouteProofs.v — proofs for property C20 (props/C20.v): PDU routing agrees with what each
   handler's admission check accepts. *)
From CFDP Require Import Base Fs Handler Dest Source Mib.
From CFDP.gen Require Import Tables.
From RecordUpdate Require Import RecordSet.
Import RecordSetNotations.

(* ------------------------------------------------------------------ routing table *)
Lemma route_table : forall p,
  packet_destination p =
  match p with
  | PFileData _ _ _ | PMetadata _ _ _ _ _ _ | PEof _ _ _ _ _ | PPrompt _ _ => Some 1
  | PFinished _ _ _ _ _ | PNak _ _ _ _ | PKeepAlive _ _ => Some 0
  | PAck _ acked _ _ => if acked =? D_FINISHED then Some 1 else if acked =? D_EOF then Some 0 else None
  end.
Proof.
  intros p. destruct p; try reflexivity.
  unfold packet_destination, route_rules, D_FINISHED, D_EOF. cbn.
  destruct (acked =? 4) eqn:E4; destruct (acked =? 5) eqn:E5; cbn; try reflexivity.
  apply Z.eqb_eq in E4. apply Z.eqb_eq in E5. lia.
Qed.

(* the PDUs routed to each side, by constructor *)
Lemma routed_source : forall p, packet_destination p = Some 0 ->
  match p with
  | PFinished _ _ _ _ _ | PNak _ _ _ _ | PKeepAlive _ _ => True
  | PAck _ acked _ _ => acked = D_EOF
  | _ => False
  end.
Proof.
  intros p H. rewrite route_table in H. destruct p; try discriminate; auto.
  destruct (acked =? D_FINISHED); try discriminate.
  destruct (acked =? D_EOF) eqn:E; try discriminate. apply Z.eqb_eq in E. exact E.
Qed.

(* ------------------------------------------------------------------ admission checks are pure *)
Lemma check_d_state : forall p s, fst (check_inserted_packet p s) = s.
Proof.
  intros p s. unfold check_inserted_packet, bind, get, raise, ret.
  destruct (negb (h_dir (pdu_hdr p) =? TOWARDS_RECEIVER)); [reflexivity|].
  destruct (negb (h_dst (pdu_hdr p) =? l_id (d_cfg s))); [reflexivity|].
  destruct (get_remote (l_remotes (d_cfg s)) (h_src (pdu_hdr p))); [|reflexivity].
  destruct (packet_destination p) as [dest|]; [|reflexivity].
  destruct (dest =? 0); [reflexivity|].
  destruct ((d_state s =? ST_IDLE) && _).
  - destruct (h_mode (pdu_hdr p) =? UNACKED); [reflexivity|].
    destruct ((h_mode (pdu_hdr p) =? ACKED) && _); [reflexivity|].
    destruct (negb (is_file_data p) && _); reflexivity.
  - destruct (negb (is_file_data p) && _); reflexivity.
Qed.

Lemma check_s_state : forall p s, fst (check_inserted_packet_s p s) = s.
Proof.
  intros p s. unfold check_inserted_packet_s, bind, get, raise, ret.
  destruct (negb (h_dir (pdu_hdr p) =? TOWARDS_SENDER)); [reflexivity|].
  destruct (negb (h_src (pdu_hdr p) =? l_id (s_cfg s))); [reflexivity|].
  destruct (q_rcfg (s_p s)) as [r|]; [|reflexivity].
  destruct (negb (h_dst (pdu_hdr p) =? r_id r)); [reflexivity|].
  destruct (negb (h_seq (pdu_hdr p) =? sc_seq (q_conf (s_p s)))); [reflexivity|].
  destruct (packet_destination p) as [dest|]; [|reflexivity].
  destruct (dest =? 1); [reflexivity|].
  destruct (existsb _ source_invalid_directives); [reflexivity|].
  destruct ((sc_mode (q_conf (s_p s)) =? UNACKED) && _); [reflexivity|].
  destruct (negb _); [|reflexivity].
  destruct ((s_step s =? SS_WAITING_FOR_EOF_ACK) && _); [reflexivity|].
  destruct ((s_step s =? SS_WAITING_FOR_FINISHED) && _); reflexivity.
Qed.

Lemma admission_pure : forall p s sd,
  fst (check_inserted_packet p sd) = sd /\ fst (check_inserted_packet_s p s) = s.
Proof. intros. split; [apply check_d_state | apply check_s_state]. Qed.

(* a raising admission check ends the state machine call at once *)
Lemma sm_check_err : forall p s e,
  check_inserted_packet p s = (s, Err e) -> Dest.state_machine (Some p) s = (s, Err e).
Proof. intros p s e H. unfold state_machine. unfold bind at 1. rewrite H. reflexivity. Qed.

Lemma sm_s_check_err : forall p s e,
  check_inserted_packet_s p s = (s, Err e) -> state_machine_s (Some p) s = (s, Err e).
Proof. intros p s e H. unfold state_machine_s. unfold bind at 1. rewrite H. reflexivity. Qed.

(* ------------------------------------------------------------------ destination handler *)
Lemma dest_refuses_foreign : forall p s,
  packet_destination p = Some 0 ->
  exists e, Dest.state_machine (Some p) s = (s, Err e) /\
            In e [E_INVALID_DIRECTION; E_INVALID_DEST_ID; E_NO_REMOTE_CFG; E_INVALID_PDU_FOR_DEST].
Proof.
  intros p s H.
  assert (exists e, check_inserted_packet p s = (s, Err e) /\
            In e [E_INVALID_DIRECTION; E_INVALID_DEST_ID; E_NO_REMOTE_CFG; E_INVALID_PDU_FOR_DEST]) as [e [Hc Hin]].
  { unfold check_inserted_packet, bind, get, raise, ret. rewrite H.
    destruct (negb (h_dir (pdu_hdr p) =? TOWARDS_RECEIVER)); [eexists; split; [reflexivity|simpl; auto]|].
    destruct (negb (h_dst (pdu_hdr p) =? l_id (d_cfg s))); [eexists; split; [reflexivity|simpl; auto]|].
    destruct (get_remote (l_remotes (d_cfg s)) (h_src (pdu_hdr p))); [|eexists; split; [reflexivity|simpl; auto]].
    change (0 =? 0) with true. cbv iota.
    eexists; split; [reflexivity|simpl; auto]. }
  exists e. split; [apply sm_check_err; exact Hc | exact Hin].
Qed.

Lemma dest_admits_own : forall p s s',
  packet_destination p = Some 1 -> check_inserted_packet p s <> (s', Err E_INVALID_PDU_FOR_DEST).
Proof.
  intros p s s' H. unfold check_inserted_packet, bind, get, raise, ret. rewrite H.
  destruct (negb (h_dir (pdu_hdr p) =? TOWARDS_RECEIVER)); [intro X; inversion X|].
  destruct (negb (h_dst (pdu_hdr p) =? l_id (d_cfg s))); [intro X; inversion X|].
  destruct (get_remote (l_remotes (d_cfg s)) (h_src (pdu_hdr p))); [|intro X; inversion X].
  change (1 =? 0) with false. cbv iota.
  destruct ((d_state s =? ST_IDLE) && _).
  - destruct (h_mode (pdu_hdr p) =? UNACKED); [intro X; inversion X|].
    destruct ((h_mode (pdu_hdr p) =? ACKED) && _); [intro X; inversion X|].
    destruct (negb (is_file_data p) && _); intro X; inversion X.
  - destruct (negb (is_file_data p) && _); intro X; inversion X.
Qed.

(* ------------------------------------------------------------------ source handler *)
Lemma source_refuses_foreign : forall p s,
  packet_destination p = Some 1 ->
  exists e, state_machine_s (Some p) s = (s, Err e) /\
            In e [E_INVALID_DIRECTION; E_INVALID_SOURCE_ID; E_NO_REMOTE_CFG; E_INVALID_DEST_ID;
                  E_INVALID_SEQ_NUM; E_INVALID_PDU_FOR_SOURCE].
Proof.
  intros p s H.
  assert (exists e, check_inserted_packet_s p s = (s, Err e) /\
            In e [E_INVALID_DIRECTION; E_INVALID_SOURCE_ID; E_NO_REMOTE_CFG; E_INVALID_DEST_ID;
                  E_INVALID_SEQ_NUM; E_INVALID_PDU_FOR_SOURCE]) as [e [Hc Hin]].
  { unfold check_inserted_packet_s, bind, get, raise, ret. rewrite H.
    destruct (negb (h_dir (pdu_hdr p) =? TOWARDS_SENDER)); [eexists; split; [reflexivity|simpl; tauto]|].
    destruct (negb (h_src (pdu_hdr p) =? l_id (s_cfg s))); [eexists; split; [reflexivity|simpl; tauto]|].
    destruct (q_rcfg (s_p s)) as [r|]; [|eexists; split; [reflexivity|simpl; tauto]].
    destruct (negb (h_dst (pdu_hdr p) =? r_id r)); [eexists; split; [reflexivity|simpl; tauto]|].
    destruct (negb (h_seq (pdu_hdr p) =? sc_seq (q_conf (s_p s)))); [eexists; split; [reflexivity|simpl; tauto]|].
    change (1 =? 1) with true. cbv iota.
    eexists; split; [reflexivity|simpl; tauto]. }
  exists e. split; [apply sm_s_check_err; exact Hc | exact Hin].
Qed.

Lemma source_admits_own : forall p s s',
  packet_destination p = Some 0 -> check_inserted_packet_s p s <> (s', Err E_INVALID_PDU_FOR_SOURCE).
Proof.
  intros p s s' H. pose proof (routed_source p H) as R.
  unfold check_inserted_packet_s, bind, get, raise, ret. rewrite H.
  destruct (negb (h_dir (pdu_hdr p) =? TOWARDS_SENDER)); [intro X; inversion X|].
  destruct (negb (h_src (pdu_hdr p) =? l_id (s_cfg s))); [intro X; inversion X|].
  destruct (q_rcfg (s_p s)) as [r|]; [|intro X; inversion X].
  destruct (negb (h_dst (pdu_hdr p) =? r_id r)); [intro X; inversion X|].
  destruct (negb (h_seq (pdu_hdr p) =? sc_seq (q_conf (s_p s)))); [intro X; inversion X|].
  change (0 =? 1) with false. cbv iota.
  assert (existsb (Z.eqb (match directive p with Some x => x | None => -1 end)) source_invalid_directives = false) as Hd.
  { destruct p; try contradiction; reflexivity. }
  rewrite Hd.
  destruct ((sc_mode (q_conf (s_p s)) =? UNACKED) && _); [intro X; inversion X|].
  destruct (negb _); [|intro X; inversion X].
  destruct ((s_step s =? SS_WAITING_FOR_EOF_ACK) && _); [intro X; inversion X|].
  destruct ((s_step s =? SS_WAITING_FOR_FINISHED) && _); intro X; inversion X.
Qed.

(* ------------------------------------------------------------------ inactive EOF acknowledgement *)
Lemma ack_inactive_eof : forall h cond status,
  (status = TS_ACTIVE -> acknowledge_inactive_eof_pdu h cond status = None) /\
  (status <> TS_ACTIVE ->
     acknowledge_inactive_eof_pdu h cond status = Some (PAck (set_dir TOWARDS_SENDER h) D_EOF cond status)).
Proof.
  intros h cond status. unfold acknowledge_inactive_eof_pdu. split; intro H.
  - subst. reflexivity.
  - destruct (status =? TS_ACTIVE) eqn:E; [apply Z.eqb_eq in E; contradiction | reflexivity].
Qed.
