(* NakProofs.v — proofs for property C06 (props/C06.v): NAKs request exactly what is missing.
   Every lemma used by props/C06.v is stated here with exactly the statement of the theorem
   it closes.  No axioms. *)
From CFDP Require Import Base LostSeg LostSegSpec Fs Crc Checksum Handler Dest HandlerSpec.
From CFDP.gen Require Import Tables.
From CFDP.proofs Require Import LostSegProofs.
From RecordUpdate Require Import RecordSet.
Import RecordSetNotations.
Open Scope monad_scope.

Arguments Z.add : simpl never. Arguments Z.sub : simpl never. Arguments Z.mul : simpl never.
Arguments Z.div : simpl never. Arguments Z.ltb : simpl never. Arguments Z.leb : simpl never.
Arguments Z.eqb : simpl never. Arguments Z.max : simpl never. Arguments Z.min : simpl never.
Arguments Z.of_nat : simpl never.

(* same body as props/C06.v nak_reqs *)
Definition nak_reqs (p : pdu) : list (Z * Z) := match p with PNak _ _ _ r => r | _ => [] end.

Lemma zlen_nonneg : forall A (l : list A), 0 <= zlen l.
Proof. intros. unfold zlen. lia. Qed.
Lemma zlen_app : forall A (a b : list A), zlen (a ++ b) = zlen a + zlen b.
Proof. intros. unfold zlen. rewrite app_length. lia. Qed.
Lemma zlen_nil : forall A, zlen (@nil A) = 0.
Proof. reflexivity. Qed.
Lemma zlen_one : forall A (x : A), zlen [x] = 1.
Proof. reflexivity. Qed.
Lemma zlen_zero_nil : forall A (l : list A), zlen l = 0 -> l = [].
Proof. intros A [|x l] H; [reflexivity|]. unfold zlen in H. cbn [length] in H. lia. Qed.

(* ------------------------------------------------------------------ nak_split *)
Lemma nak_split_exact : forall h eos maxn acc tr ps rest,
  1 <= maxn -> zlen acc < maxn -> nak_split h eos maxn acc tr = (ps, rest) ->
  flat_map nak_reqs ps ++ rest = acc ++ tr /\ zlen rest < maxn /\
  Forall (fun p => exists r, p = PNak h 0 eos r /\ zlen r = maxn) ps.
Proof.
  intros h eos maxn acc tr. revert acc.
  induction tr as [|sg t IH]; intros acc ps rest Hm Ha H; cbn [nak_split] in H.
  - injection H as <- <-. cbn [flat_map app]. rewrite app_nil_r. repeat split; [exact Ha | constructor].
  - cbv zeta in H. destruct (zlen (acc ++ [sg]) =? maxn) eqn:E.
    + apply Z.eqb_eq in E.
      destruct (nak_split h eos maxn [] t) as [ps' rest'] eqn:E'. injection H as <- <-.
      destruct (IH [] ps' rest' Hm) as [I1 [I2 I3]]; [rewrite zlen_nil; lia | exact E' |].
      cbn [flat_map nak_reqs]. repeat split.
      * rewrite <- !app_assoc. rewrite I1. cbn [app]. reflexivity.
      * exact I2.
      * constructor; [|exact I3]. eexists. split; [reflexivity | exact E].
    + apply Z.eqb_neq in E. rewrite zlen_app, zlen_one in E.
      destruct (IH (acc ++ [sg]) ps rest Hm) as [I1 [I2 I3]];
        [rewrite zlen_app, zlen_one; lia | exact H |].
      repeat split; [|exact I2 | exact I3]. rewrite I1, <- app_assoc. reflexivity.
Qed.

(* ------------------------------------------------------------------ length bound *)
Lemma nak_len_bound : forall h maxp maxn sos eos r,
  max_seg_reqs maxp h = Some maxn -> zlen r <= maxn -> pdu_len (PNak h sos eos r) <= maxp.
Proof.
  intros h maxp maxn sos eos r H Hr. unfold max_seg_reqs in H. cbv zeta in H.
  destruct (maxp <? hdr_len h + 1 + crc_len h + 2 * fss_len h) eqn:E; [discriminate H|].
  injection H as <-. apply Z.ltb_ge in E. unfold pdu_len.
  assert (Hf : 0 < 2 * fss_len h) by (unfold fss_len; destruct (h_large h); lia).
  set (base := hdr_len h + 1 + crc_len h + 2 * fss_len h) in *.
  set (w := 2 * fss_len h) in *.
  assert (Hm : (maxp - base) / w * w <= maxp - base) by (rewrite Z.mul_comm; apply Z.mul_div_le; exact Hf).
  assert (Hz : zlen r * w <= (maxp - base) / w * w) by (apply Z.mul_le_mono_nonneg_r; lia).
  lia.
Qed.

Lemma max_seg_reqs_set_dir : forall maxp d h, max_seg_reqs maxp (set_dir d h) = max_seg_reqs maxp h.
Proof. reflexivity. Qed.

(* ------------------------------------------------------------------ symbolic execution of the monad *)
Lemma bind_gets : forall A B (f : dst -> A) (k : A -> D B) s, bind (gets f) k s = k (f s) s.
Proof. reflexivity. Qed.
Lemma bind_gp : forall A B (f : dparams -> A) (k : A -> D B) s, bind (gp f) k s = k (f (d_p s)) s.
Proof. reflexivity. Qed.
Lemma bind_setp : forall B f (k : unit -> D B) s, bind (setp f) k s = k tt (s <| d_p ::= f |>).
Proof. reflexivity. Qed.
Lemma bind_set_step : forall B v (k : unit -> D B) s, bind (set_step v) k s = k tt (s <| d_step := v |>).
Proof. reflexivity. Qed.
Lemma bind_add_packet : forall B p (k : unit -> D B) s,
  bind (add_packet p) k s = k tt (s <| d_queue ::= (fun q => q ++ [p]) |> <| d_ready ::= (fun n => n + 1) |>).
Proof. reflexivity. Qed.
Lemma bind_ret : forall A B (a : A) (k : A -> D B) s, bind (ret a) k s = k a s.
Proof. reflexivity. Qed.
Lemma bind_raise : forall A B e (k : A -> D B) s, bind (raise e) k s = (s, Err e).
Proof. reflexivity. Qed.
Lemma bind_assoc : forall A B C (m : D A) (f : A -> D B) (g : B -> D C) s,
  bind (bind m f) g s = bind m (fun a => bind (f a) g) s.
Proof. intros. unfold bind. destruct (m s) as [s1 [a|e]]; reflexivity. Qed.
Lemma bind_ok : forall A B (m : D A) (k : A -> D B) s s1 a, m s = (s1, Ok a) -> bind m k s = k a s1.
Proof. intros. unfold bind. rewrite H. reflexivity. Qed.
Lemma bind_rcfg : forall B (k : rcfg -> D B) s,
  bind rcfg_or_assert k s = match p_rcfg (d_p s) with Some r => k r s | None => (s, Err E_ASSERT) end.
Proof.
  intros. unfold rcfg_or_assert. rewrite bind_assoc, bind_gp.
  destruct (p_rcfg (d_p s)); [rewrite bind_ret | rewrite bind_raise]; reflexivity.
Qed.
Lemma bind_when_true : forall B (m : D unit) (k : unit -> D B) s, bind (when true m) k s = bind m k s.
Proof. reflexivity. Qed.
Lemma bind_when_false : forall B (m : D unit) (k : unit -> D B) s, bind (when false m) k s = k tt s.
Proof. reflexivity. Qed.
Ltac mrun := repeat (first [rewrite bind_gets | rewrite bind_gp | rewrite bind_setp | rewrite bind_set_step
                           | rewrite bind_add_packet | rewrite bind_ret | rewrite bind_raise
                           | rewrite bind_when_true | rewrite bind_when_false | rewrite bind_assoc];
                     cbv beta).

(* ------------------------------------------------------------------ gap detection on File Data *)
Lemma in_order_no_request : forall s off len,
  off = p_last_end (d_p s) -> 0 <= p_last_start (d_p s) <= p_last_end (d_p s) -> 0 < len ->
  exists s', lost_segment_handling off len s = (s', Ok tt) /\
    p_tracker (d_p s') = p_tracker (d_p s) /\ d_queue s' = d_queue s /\
    p_last_start (d_p s') = off /\ p_last_end (d_p s') = off + len.
Proof.
  intros s off len Hoff Hls Hlen. unfold lost_segment_handling. rewrite bind_gp.
  replace (p_last_end (d_p s) <? off) with false by (symmetry; apply Z.ltb_ge; lia).
  rewrite bind_when_false, bind_gp.
  replace (p_last_end (d_p s) <=? off) with true by (symmetry; apply Z.leb_le; lia).
  rewrite bind_when_true, bind_setp, bind_gp. cbn.
  replace (off + len <=? off) with false by (symmetry; apply Z.leb_gt; lia).
  eexists. split; [reflexivity|]. cbn. repeat split; reflexivity.
Qed.

Lemma gap_requested : forall s off len r,
  p_last_end (d_p s) < off -> 0 <= p_last_start (d_p s) <= p_last_end (d_p s) -> 0 < len -> p_rcfg (d_p s) = Some r ->
  exists s', lost_segment_handling off len s = (s', Ok tt) /\
    p_tracker (d_p s') = add (p_last_end (d_p s), off) (p_tracker (d_p s)) /\
    d_queue s' = d_queue s ++ (if r_imm_nak r
                               then [PNak (set_dir TOWARDS_SENDER (p_conf (d_p s))) 0 (off + len) [(p_last_end (d_p s), off)]]
                               else []) /\
    p_last_start (d_p s') = off /\ p_last_end (d_p s') = off + len.
Proof.
  intros s off len r Hgap Hls Hlen Hr. unfold lost_segment_handling, tracker_add, conf. rewrite bind_gp.
  replace (p_last_end (d_p s) <? off) with true by (symmetry; apply Z.ltb_lt; lia).
  rewrite bind_when_true, bind_assoc, bind_setp, bind_assoc, bind_rcfg. cbn [d_p]. cbn. rewrite Hr.
  destruct (r_imm_nak r).
  - rewrite bind_when_true, bind_assoc, bind_gp, bind_add_packet, bind_gp. cbn.
    replace (p_last_end (d_p s) <=? off) with true by (symmetry; apply Z.leb_le; lia).
    rewrite bind_when_true, bind_setp, bind_gp. cbn.
    replace (off + len <=? off) with false by (symmetry; apply Z.leb_gt; lia).
    eexists. split; [reflexivity|]. cbn. repeat split; reflexivity.
  - rewrite bind_when_false, bind_gp. cbn.
    replace (p_last_end (d_p s) <=? off) with true by (symmetry; apply Z.leb_le; lia).
    rewrite bind_when_true, bind_setp, bind_gp. cbn.
    replace (off + len <=? off) with false by (symmetry; apply Z.leb_gt; lia).
    eexists. split; [reflexivity|]. cbn. rewrite app_nil_r. repeat split; reflexivity.
Qed.

(* ---- the loop over the tracked ranges (F9 repair): fold_left (fun m sg => m ;;; remove_covered off e sg) tr (ret tt) *)
Definition rc_loop (off e : Z) (l : list seg) : D unit :=
  fold_left (fun m sg => m ;;; remove_covered off e sg) l (ret tt).

Lemma fold_rc_seq : forall off e l (m : D unit) s,
  fold_left (fun m sg => m ;;; remove_covered off e sg) l m s = bind m (fun _ => rc_loop off e l) s.
Proof.
  intros off e l. induction l as [|sg t IH]; intros m s.
  - unfold rc_loop. cbn [fold_left]. unfold bind, ret. destruct (m s) as [s1 [[]|x]]; reflexivity.
  - unfold rc_loop. cbn [fold_left]. rewrite IH, bind_assoc.
    unfold bind at 1 3. destruct (m s) as [s1 [[]|x]]; [|reflexivity].
    rewrite IH, bind_assoc, bind_ret. reflexivity.
Qed.

Lemma rc_loop_nil : forall off e s, rc_loop off e [] s = (s, Ok tt).
Proof. reflexivity. Qed.

Lemma rc_loop_cons : forall off e sg t s,
  rc_loop off e (sg :: t) s = bind (remove_covered off e sg) (fun _ => rc_loop off e t) s.
Proof.
  intros. unfold rc_loop at 1. cbn [fold_left]. rewrite fold_rc_seq, bind_assoc, bind_ret. reflexivity.
Qed.

(* what the loop leaves alone *)
Definition trk_frame (s s' : dst) : Prop :=
  d_queue s' = d_queue s /\ p_last_start (d_p s') = p_last_start (d_p s) /\ p_last_end (d_p s') = p_last_end (d_p s) /\
  p_rcfg (d_p s') = p_rcfg (d_p s) /\ fs_d s' = fs_d s /\ log_d s' = log_d s.

Lemma trk_frame_refl : forall s, trk_frame s s.
Proof. intros s. repeat split; reflexivity. Qed.
Lemma trk_frame_trans : forall s1 s2 s3, trk_frame s1 s2 -> trk_frame s2 s3 -> trk_frame s1 s3.
Proof.
  intros s1 s2 s3 [A1 [A2 [A3 [A4 [A5 A6]]]]] [B1 [B2 [B3 [B4 [B5 B6]]]]].
  repeat split; congruence.
Qed.
Lemma trk_frame_set : forall s tr, trk_frame s (s <| d_p ::= (fun p => p <| p_tracker := tr |>) |>).
Proof. intros s tr. repeat split; reflexivity. Qed.

(* one iteration *)
Lemma remove_covered_miss : forall off e sg s,
  (fst sg <? e) && (off <? snd sg) = false -> remove_covered off e sg s = (s, Ok tt).
Proof. intros off e sg s H. unfold remove_covered. rewrite H. reflexivity. Qed.

Lemma remove_covered_hit : forall off e sg s tr' b,
  (fst sg <? e) && (off <? snd sg) = true ->
  LostSeg.remove (Z.max (fst sg) off, Z.min (snd sg) e) (p_tracker (d_p s)) = Ok (tr', b) ->
  remove_covered off e sg s = (s <| d_p ::= (fun p => p <| p_tracker := tr' |>) |>, Ok tt).
Proof. intros off e sg s tr' b H R. unfold remove_covered. rewrite H, bind_gp, R. reflexivity. Qed.

(* ranges the received data does not touch are skipped *)
Lemma rc_loop_miss : forall off e l s,
  (forall sg, In sg l -> (fst sg <? e) && (off <? snd sg) = false) -> rc_loop off e l s = (s, Ok tt).
Proof.
  intros off e l. induction l as [|sg t IH]; intros s H; [reflexivity|].
  rewrite rc_loop_cons, (bind_ok _ _ _ _ _ _ _ (remove_covered_miss off e sg s (H sg (or_introl eq_refl)))).
  apply IH. intros r Hr. apply H. right. exact Hr.
Qed.

(* received data of length zero: every iteration removes an empty range *)
Lemma rc_loop_empty : forall off l s,
  exists s', rc_loop off off l s = (s', Ok tt) /\ p_tracker (d_p s') = p_tracker (d_p s) /\ trk_frame s s'.
Proof.
  intros off l. induction l as [|sg t IH]; intros s.
  - exists s. split; [reflexivity|]. split; [reflexivity | apply trk_frame_refl].
  - rewrite rc_loop_cons. destruct ((fst sg <? off) && (off <? snd sg)) eqn:E.
    + assert (R : LostSeg.remove (Z.max (fst sg) off, Z.min (snd sg) off) (p_tracker (d_p s)) = Ok (p_tracker (d_p s), false)).
      { apply andb_prop in E. destruct E as [E1 E2]. apply Z.ltb_lt in E1, E2.
        replace (Z.max (fst sg) off) with off by lia. replace (Z.min (snd sg) off) with off by lia.
        unfold remove. cbn [fst snd]. rewrite Z.sub_diag. reflexivity. }
      rewrite (bind_ok _ _ _ _ _ _ _ (remove_covered_hit off off sg s _ _ E R)).
      destruct (IH (s <| d_p ::= (fun p => p <| p_tracker := p_tracker (d_p s) |>) |>)) as [s' [E' [T' F']]].
      exists s'. split; [exact E'|]. split; [rewrite T'; reflexivity|].
      eapply trk_frame_trans; [apply trk_frame_set | exact F'].
    + rewrite (bind_ok _ _ _ _ _ _ _ (remove_covered_miss off off sg s E)). apply IH.
Qed.

(* the received data lies within the tracked range (a, b), no other range of the list touches it: the loop is the one removal *)
Lemma rc_loop_one : forall l off e a b s tr' bb,
  KU l -> In (a, b) l -> a <= off -> off < e -> e <= b ->
  (forall r, In r l -> fst r = a -> r = (a, b)) ->
  (forall r, In r l -> fst r <> a -> (fst r <? e) && (off <? snd r) = false) ->
  LostSeg.remove (off, e) (p_tracker (d_p s)) = Ok (tr', bb) ->
  exists s', rc_loop off e l s = (s', Ok tt) /\ p_tracker (d_p s') = tr' /\ trk_frame s s'.
Proof.
  intros l off e a b. induction l as [|r t IH]; intros s tr' bb HK Hin Ha Hoe Hb Heq Hmiss R; [destruct Hin|].
  cbn [KU] in HK. destruct HK as [HK1 HK2]. rewrite rc_loop_cons.
  destruct (Z.eq_dec (fst r) a) as [Era | Era].
  - pose proof (Heq r (or_introl eq_refl) Era) as ->. cbn [fst] in HK1.
    assert (E : (fst (a, b) <? e) && (off <? snd (a, b)) = true).
    { cbn [fst snd]. apply andb_true_intro. split; apply Z.ltb_lt; lia. }
    assert (R' : LostSeg.remove (Z.max (fst (a, b)) off, Z.min (snd (a, b)) e) (p_tracker (d_p s)) = Ok (tr', bb)).
    { cbn [fst snd]. replace (Z.max a off) with off by lia. replace (Z.min b e) with e by lia. exact R. }
    rewrite (bind_ok _ _ _ _ _ _ _ (remove_covered_hit off e (a, b) s _ _ E R')).
    rewrite rc_loop_miss.
    + eexists. split; [reflexivity|]. split; [reflexivity | apply trk_frame_set].
    + intros q Hq. apply Hmiss; [right; exact Hq | apply HK1; exact Hq].
  - rewrite (bind_ok _ _ _ _ _ _ _ (remove_covered_miss off e r s (Hmiss r (or_introl eq_refl) Era))).
    destruct Hin as [Hin | Hin]; [subst r; cbn [fst] in Era; congruence|].
    apply (IH s tr' bb HK2 Hin Ha Hoe Hb); [| | exact R].
    + intros q Hq. apply Heq. right. exact Hq.
    + intros q Hq. apply Hmiss. right. exact Hq.
Qed.

(* the loop on a well-formed tracker, for received data that lies within one tracked range or touches none
   (the precondition op_pre of C18's remove): it does what the single removal did before the F9 repair *)
Lemma rc_loop_as_remove : forall s off e tr' b,
  Inv (p_tracker (d_p s)) -> op_pre (p_tracker (d_p s)) (ORemove off e) ->
  LostSeg.remove (off, e) (p_tracker (d_p s)) = Ok (tr', b) ->
  exists s', rc_loop off e (p_tracker (d_p s)) s = (s', Ok tt) /\ p_tracker (d_p s') = tr' /\ trk_frame s s'.
Proof.
  intros s off e tr' b HI [Hle Hpre] R.
  destruct (Z.eq_dec off e) as [-> | Hne].
  - destruct (rc_loop_empty e (p_tracker (d_p s)) s) as [s' [E [T F]]].
    exists s'. split; [exact E|]. split; [|exact F].
    unfold remove in R. cbn [fst snd] in R. rewrite Z.sub_diag in R. cbn in R. injection R as <- _. exact T.
  - assert (Hlt : off < e) by lia.
    destruct Hpre as [[a [b0 [Hin [Ha Hb]]]] | Hn].
    + destruct (sep_from _ a b0 HI Hin) as [Hab [Heq Hsep]].
      apply (rc_loop_one (p_tracker (d_p s)) off e a b0 s tr' b (Inv_KU _ HI) Hin Ha Hlt Hb Heq); [|exact R].
      intros r Hr Hf. destruct (Hsep r Hr Hf) as [_ Hd].
      apply andb_false_iff. destruct Hd; [right | left]; apply Z.ltb_ge; lia.
    + rewrite (remove_untouched_spec _ off e HI Hle Hn) in R. injection R as <- _.
      exists s. split; [|split; [reflexivity | apply trk_frame_refl]].
      apply rc_loop_miss. intros [c d] Hr. cbn [fst snd].
      destruct (Inv_WF _ HI) as [W1 _]. specialize (W1 _ Hr). cbn [fst snd] in W1.
      apply andb_false_iff.
      destruct (Z_lt_dec c e) as [Hce|]; [|left; apply Z.ltb_ge; lia].
      destruct (Z_lt_dec off d) as [Hod|]; [|right; apply Z.ltb_ge; lia].
      exfalso. apply (Hn (Z.max c off)); [lia|]. exists c, d. split; [exact Hr | lia].
Qed.

(* Statement changed with the F9 repair (the single removal became the loop over the tracked ranges): on a well-formed
   tracker, for received data that lies within one tracked range or touches none, the call leaves exactly the tracker the
   single removal leaves.  (For other data the loop removes from every tracked range the part covered: TrackInvProofs.v.) *)
Lemma retransmitted_removed : forall s off len tr' b,
  Inv (p_tracker (d_p s)) -> op_pre (p_tracker (d_p s)) (ORemove off (off + len)) ->
  off + len <= p_last_start (d_p s) -> off < p_last_end (d_p s) ->
  LostSeg.remove (off, off + len) (p_tracker (d_p s)) = Ok (tr', b) ->
  exists s', lost_segment_handling off len s = (s', Ok tt) /\ p_tracker (d_p s') = tr' /\ d_queue s' = d_queue s.
Proof.
  intros s off len tr' b HI Hpre H1 H2 Hrm. unfold lost_segment_handling. rewrite bind_gp.
  replace (p_last_end (d_p s) <? off) with false by (symmetry; apply Z.ltb_ge; lia).
  rewrite bind_when_false, bind_gp.
  replace (p_last_end (d_p s) <=? off) with false by (symmetry; apply Z.leb_gt; lia).
  rewrite bind_when_false, bind_gp.
  replace (off + len <=? p_last_start (d_p s)) with true by (symmetry; apply Z.leb_le; lia).
  unfold when. rewrite bind_gp.
  destruct (rc_loop_as_remove s off (off + len) tr' b HI Hpre Hrm) as [s' [E [T F]]].
  exists s'. split; [exact E|]. split; [exact T | apply F].
Qed.

(* ------------------------------------------------------------------ the deferred procedure *)
Lemma missing_cond : forall s, (p_tracker (d_p s) <> [] \/ p_md_missing (d_p s) = true) ->
  (zlen (p_tracker (d_p s)) =? 0) && negb (p_md_missing (d_p s)) = false.
Proof.
  intros s [H | H].
  - destruct (zlen (p_tracker (d_p s)) =? 0) eqn:E; [|reflexivity].
    apply Z.eqb_eq, zlen_zero_nil in E. contradiction.
  - rewrite H. apply andb_false_r.
Qed.

Lemma deferred_wait : forall s r eos t,
  p_deferred (d_p s) = true -> p_rcfg (d_p s) = Some r -> p_file_size_eof (d_p s) = Some eos ->
  (p_tracker (d_p s) <> [] \/ p_md_missing (d_p s) = true) ->
  p_proc_timer (d_p s) = Some t -> timed_out (now_d s) t = false ->
  deferred_lost_segment_handling s = (s, Ok tt).
Proof.
  intros s r eos t Hdef Hr Heof Hmiss Ht Hto. unfold deferred_lost_segment_handling, now.
  rewrite bind_gp, Hdef. cbn [negb]. rewrite bind_gp.
  destruct (p_disp (d_p s) =? DISP_CANCELED); [reflexivity|].
  rewrite bind_rcfg, Hr, bind_gp, Heof, bind_gp, bind_gp.
  rewrite (missing_cond s Hmiss). rewrite bind_gp, bind_gets, Ht.
  unfold now_d in Hto. rewrite Hto. cbn [negb]. rewrite bind_ret. reflexivity.
Qed.

(* F35 repair: a cancelled transaction is left alone by the deferred procedure (nothing requested, nothing verified,
   the cancel condition stands) *)
Lemma deferred_cancelled_does_nothing : forall s,
  p_deferred (d_p s) = true -> p_disp (d_p s) = DISP_CANCELED ->
  deferred_lost_segment_handling s = (s, Ok tt).
Proof.
  intros s Hdef Hc. unfold deferred_lost_segment_handling.
  rewrite bind_gp, Hdef. cbn [negb]. rewrite bind_gp, Hc. reflexivity.
Qed.

Lemma not_cancelled : forall s, p_disp (d_p s) <> DISP_CANCELED -> (p_disp (d_p s) =? DISP_CANCELED) = false.
Proof. intros s H. apply Z.eqb_neq. exact H. Qed.

Lemma nothing_missing : forall s r eos s1 b,
  p_deferred (d_p s) = true -> p_disp (d_p s) <> DISP_CANCELED ->
  p_rcfg (d_p s) = Some r -> p_file_size_eof (d_p s) = Some eos ->
  p_tracker (d_p s) = [] -> p_md_missing (d_p s) = false ->
  checksum_verify s = (s1, Ok b) ->
  exists s', deferred_lost_segment_handling s = (s', Ok tt) /\
    d_queue s' = d_queue s1 /\ d_step s' = DS_TRANSFER_COMPLETION /\ p_deferred (d_p s') = false.
Proof.
  intros s r eos s1 b Hdef Hnc Hr Heof Htr Hmd Hck. unfold deferred_lost_segment_handling.
  rewrite bind_gp, Hdef. cbn [negb]. rewrite bind_gp, (not_cancelled s Hnc). rewrite bind_rcfg, Hr, bind_gp, Heof, bind_gp, bind_gp.
  rewrite Htr, Hmd. change (zlen (@nil seg) =? 0) with true. cbn [negb andb].
  rewrite (bind_ok _ _ _ _ _ _ _ Hck). rewrite bind_set_step.
  eexists. split; [reflexivity|]. cbn. repeat split; reflexivity.
Qed.

(* queueing a list of PDUs *)
Fixpoint enq (l : list pdu) (s : dst) : dst :=
  match l with
  | [] => s
  | p :: t => enq t (s <| d_queue ::= (fun q => q ++ [p]) |> <| d_ready ::= (fun n => n + 1) |>)
  end.
Lemma enq_spec : forall l s,
  d_queue (enq l s) = d_queue s ++ l /\ d_ready (enq l s) = d_ready s + zlen l /\
  d_p (enq l s) = d_p s /\ d_step (enq l s) = d_step s /\ d_env (enq l s) = d_env s /\
  d_state (enq l s) = d_state s /\ d_cfg (enq l s) = d_cfg s /\ d_states_tid (enq l s) = d_states_tid s.
Proof.
  induction l as [|p l IH]; intro s; cbn [enq].
  - rewrite app_nil_r. change (zlen (@nil pdu)) with 0. rewrite Z.add_0_r. repeat split; reflexivity.
  - destruct (IH (s <| d_queue ::= (fun q => q ++ [p]) |> <| d_ready ::= (fun n => n + 1) |>))
      as [I1 [I2 [I3 [I4 [I5 [I6 [I7 I8]]]]]]].
    rewrite I1, I2, I3, I4, I5, I6, I7, I8. cbn.
    rewrite <- app_assoc. cbn [app].
    replace (zlen (p :: l)) with (1 + zlen l) by (unfold zlen; cbn [length]; lia).
    rewrite Z.add_assoc. repeat split; reflexivity.
Qed.
Lemma fold_add_packet_run : forall l (m : D unit) s s1, m s = (s1, Ok tt) ->
  fold_left (fun m p => m ;;; add_packet p) l m s = (enq l s1, Ok tt).
Proof.
  induction l as [|p l IH]; intros m s s1 H; cbn [fold_left enq]; [exact H|].
  apply IH. rewrite (bind_ok _ _ _ _ _ _ _ H). reflexivity.
Qed.

(* the part of the deferred procedure that builds and queues the NAK PDUs *)
Definition nak_send (r : rcfg) (eos : Z) (first : bool) : D unit :=
          h <- conf ;;
          match max_seg_reqs (r_max_packet r) h with
          | None => raise E_VALUE
          | Some maxn =>
            let hh := set_dir TOWARDS_SENDER h in
            tr <- gp p_tracker ;; mdm <- gp p_md_missing ;;
            let '(pre, acc0) :=
              if mdm then (if 1 =? maxn then ([PNak hh 0 eos [(0, 0)]], []) else ([], [(0, 0)]))
              else ([], []) in
            let '(ps, rest) := nak_split hh eos maxn acc0 tr in
            let all := pre ++ ps ++ (match rest with [] => [] | _ => [PNak hh 0 eos rest] end) in
            fold_left (fun m p => m ;;; add_packet p) all (ret tt) ;;;
            when (negb first)
              (n <- now ;; t <- gp p_proc_timer ;;
               setp (fun p => p <| p_nak_counter ::= (fun c => c + 1) |>
                                <| p_proc_timer := (match t with Some (_, tmo) => Some (n, tmo) | None => None end) |>))
          end.

Definition nak_good (hh : hdr) (eos maxn maxp : Z) (p : pdu) : Prop :=
  exists rq, p = PNak hh 0 eos rq /\ 1 <= zlen rq <= maxn /\ pdu_len p <= maxp.

Lemma nak_good_intro : forall h eos maxn maxp rq,
  max_seg_reqs maxp h = Some maxn -> 1 <= zlen rq <= maxn ->
  nak_good (set_dir TOWARDS_SENDER h) eos maxn maxp (PNak (set_dir TOWARDS_SENDER h) 0 eos rq).
Proof.
  intros h eos maxn maxp rq Hm Hz. exists rq. split; [reflexivity|]. split; [exact Hz|].
  eapply nak_len_bound; [rewrite max_seg_reqs_set_dir; exact Hm | lia].
Qed.

Lemma zlen_cons_pos : forall A (x : A) l, 1 <= zlen (x :: l).
Proof. intros. unfold zlen. cbn [length]. lia. Qed.

Lemma rest_pdu_reqs : forall hh eos (rest : list (Z * Z)),
  flat_map nak_reqs (match rest with [] => [] | _ => [PNak hh 0 eos rest] end) = rest.
Proof. intros hh eos [|x l]; [reflexivity|]. cbn [flat_map nak_reqs]. apply app_nil_r. Qed.

Lemma rest_pdu_good : forall h eos maxn maxp (rest : list (Z * Z)),
  max_seg_reqs maxp h = Some maxn -> zlen rest < maxn ->
  Forall (nak_good (set_dir TOWARDS_SENDER h) eos maxn maxp)
         (match rest with [] => [] | _ => [PNak (set_dir TOWARDS_SENDER h) 0 eos rest] end).
Proof.
  intros h eos maxn maxp [|x l] Hm Hz; constructor; [|constructor].
  apply nak_good_intro; [exact Hm|]. pose proof (zlen_cons_pos _ x l). lia.
Qed.

Lemma full_pdus_good : forall h eos maxn maxp ps,
  max_seg_reqs maxp h = Some maxn -> 1 <= maxn ->
  Forall (fun p => exists r, p = PNak (set_dir TOWARDS_SENDER h) 0 eos r /\ zlen r = maxn) ps ->
  Forall (nak_good (set_dir TOWARDS_SENDER h) eos maxn maxp) ps.
Proof.
  intros h eos maxn maxp ps Hm H1 H. eapply Forall_impl; [|exact H].
  intros p [rq [-> Hz]]. apply nak_good_intro; [exact Hm | lia].
Qed.

Lemma nak_send_spec : forall s r eos maxn first,
  max_seg_reqs (r_max_packet r) (p_conf (d_p s)) = Some maxn -> 1 <= maxn ->
  exists s' naks,
    nak_send r eos first s = (s', Ok tt) /\ d_queue s' = d_queue s ++ naks /\
    flat_map nak_reqs naks = (if p_md_missing (d_p s) then [(0, 0)] else []) ++ p_tracker (d_p s) /\
    Forall (nak_good (set_dir TOWARDS_SENDER (p_conf (d_p s))) eos maxn (r_max_packet r)) naks /\
    p_tracker (d_p s') = p_tracker (d_p s) /\ d_step s' = d_step s /\ fs_d s' = fs_d s /\
    p_nak_counter (d_p s') = (if first then p_nak_counter (d_p s) else p_nak_counter (d_p s) + 1).
Proof.
  intros s r eos maxn first Hm H1. unfold nak_send, conf. rewrite bind_gp, Hm. cbv zeta.
  rewrite bind_gp, bind_gp.
  set (h := p_conf (d_p s)) in *. set (hh := set_dir TOWARDS_SENDER h). set (tr := p_tracker (d_p s)).
  (* the requests split into [pre] (flushed alone) and the accumulator handed to nak_split *)
  assert (Hsplit : exists pre acc0,
    (if p_md_missing (d_p s) then (if 1 =? maxn then ([PNak hh 0 eos [(0, 0)]], []) else ([], [(0, 0)])) else ([], []))
      = (pre, acc0) /\ zlen acc0 < maxn /\
    flat_map nak_reqs pre ++ acc0 = (if p_md_missing (d_p s) then [(0, 0)] else []) /\
    Forall (nak_good hh eos maxn (r_max_packet r)) pre).
  { destruct (p_md_missing (d_p s)).
    - destruct (1 =? maxn) eqn:E1.
      + apply Z.eqb_eq in E1. eexists; eexists. split; [reflexivity|]. rewrite zlen_nil.
        split; [lia|]. split; [reflexivity|]. constructor; [|constructor].
        apply nak_good_intro; [exact Hm | rewrite zlen_one; lia].
      + apply Z.eqb_neq in E1. eexists; eexists. split; [reflexivity|]. rewrite zlen_one.
        split; [lia|]. split; [reflexivity | constructor].
    - eexists; eexists. split; [reflexivity|]. rewrite zlen_nil. split; [lia|]. split; [reflexivity | constructor]. }
  destruct Hsplit as [pre [acc0 [Epre [Hacc [Hreq Hpre]]]]]. rewrite Epre.
  destruct (nak_split hh eos maxn acc0 tr) as [ps rest] eqn:Ens.
  destruct (nak_split_exact _ _ _ _ _ _ _ H1 Hacc Ens) as [S1 [S2 S3]].
  set (all := pre ++ ps ++ match rest with [] => [] | _ :: _ => [PNak hh 0 eos rest] end).
  rewrite (bind_ok _ _ _ _ _ _ _ (fold_add_packet_run all (ret tt) s s eq_refl)).
  destruct (enq_spec all s) as [Q1 [Q2 [Q3 [Q4 [Q5 _]]]]].
  assert (Hall : flat_map nak_reqs all = (if p_md_missing (d_p s) then [(0, 0)] else []) ++ tr).
  { unfold all. rewrite !flat_map_app, rest_pdu_reqs, S1, app_assoc, Hreq. reflexivity. }
  assert (Hgood : Forall (nak_good hh eos maxn (r_max_packet r)) all).
  { unfold all. apply Forall_app. split; [exact Hpre|]. apply Forall_app. split.
    - apply full_pdus_good; assumption.
    - apply rest_pdu_good; assumption. }
  destruct first; cbn [negb when].
  - exists (enq all s), all. split; [reflexivity|]. unfold fs_d. rewrite Q1, Q3, Q4, Q5.
    repeat split; try reflexivity; assumption.
  - unfold now. rewrite bind_gets, bind_gp.
    eexists. exists all. split; [reflexivity|]. unfold fs_d. cbn. rewrite Q1, Q3, Q4, Q5.
    repeat split; try reflexivity; assumption.
Qed.

(* C06: one issue of the deferred procedure *)
Lemma deferred_issue : forall s r eos maxn,
  p_deferred (d_p s) = true -> p_disp (d_p s) <> DISP_CANCELED -> p_rcfg (d_p s) = Some r -> p_file_size_eof (d_p s) = Some eos ->
  (p_tracker (d_p s) <> [] \/ p_md_missing (d_p s) = true) ->
  (match p_proc_timer (d_p s) with
   | None => True
   | Some t => timed_out (now_d s) t = true /\ p_nak_counter (d_p s) + 1 <> r_nak_limit r end) ->
  max_seg_reqs (r_max_packet r) (p_conf (d_p s)) = Some maxn -> 1 <= maxn ->
  exists s' naks,
    deferred_lost_segment_handling s = (s', Ok tt) /\ d_queue s' = d_queue s ++ naks /\
    flat_map nak_reqs naks = (if p_md_missing (d_p s) then [(0, 0)] else []) ++ p_tracker (d_p s) /\
    Forall (fun p => exists rq, p = PNak (set_dir TOWARDS_SENDER (p_conf (d_p s))) 0 eos rq /\ 1 <= zlen rq <= maxn /\
                                 pdu_len p <= r_max_packet r) naks /\
    p_tracker (d_p s') = p_tracker (d_p s) /\ d_step s' = d_step s /\ fs_d s' = fs_d s /\
    p_nak_counter (d_p s') = (match p_proc_timer (d_p s) with None => p_nak_counter (d_p s) | Some _ => p_nak_counter (d_p s) + 1 end).
Proof.
  intros s r eos maxn Hdef Hnc Hr Heof Hmiss Htimer Hm H1. unfold deferred_lost_segment_handling.
  rewrite bind_gp, Hdef. cbn [negb]. rewrite bind_gp, (not_cancelled s Hnc). rewrite bind_rcfg, Hr, bind_gp, Heof, bind_gp, bind_gp.
  rewrite (missing_cond s Hmiss). rewrite bind_gp. unfold now at 1. rewrite bind_gets.
  destruct (p_proc_timer (d_p s)) as [t|] eqn:Et.
  - destruct Htimer as [Hto Hcnt]. unfold now_d in Hto. rewrite Hto. cbn [negb].
    rewrite bind_ret, bind_gp. cbn [negb andb].
    replace (p_nak_counter (d_p s) + 1 =? r_nak_limit r) with false by (symmetry; apply Z.eqb_neq; exact Hcnt).
    change (exists s' naks, nak_send r eos false s = (s', Ok tt) /\ d_queue s' = d_queue s ++ naks /\
      flat_map nak_reqs naks = (if p_md_missing (d_p s) then [(0, 0)] else []) ++ p_tracker (d_p s) /\
      Forall (nak_good (set_dir TOWARDS_SENDER (p_conf (d_p s))) eos maxn (r_max_packet r)) naks /\
      p_tracker (d_p s') = p_tracker (d_p s) /\ d_step s' = d_step s /\ fs_d s' = fs_d s /\
      p_nak_counter (d_p s') = p_nak_counter (d_p s) + 1).
    exact (nak_send_spec s r eos maxn false Hm H1).
  - rewrite bind_assoc, bind_setp, bind_ret, bind_gp. cbn [negb andb].
    set (s1 := s <| d_p ::= (fun p => p <| p_proc_timer := Some (e_now (d_env s), r_nak_ms r) |>) |>).
    change (exists s' naks, nak_send r eos true s1 = (s', Ok tt) /\ d_queue s' = d_queue s1 ++ naks /\
      flat_map nak_reqs naks = (if p_md_missing (d_p s1) then [(0, 0)] else []) ++ p_tracker (d_p s1) /\
      Forall (nak_good (set_dir TOWARDS_SENDER (p_conf (d_p s1))) eos maxn (r_max_packet r)) naks /\
      p_tracker (d_p s') = p_tracker (d_p s1) /\ d_step s' = d_step s1 /\ fs_d s' = fs_d s1 /\
      p_nak_counter (d_p s') = p_nak_counter (d_p s1)).
    exact (nak_send_spec s1 r eos maxn true Hm H1).
Qed.
