(* Kernel-checked exhaustive instance of C03, K = 2: every pair of link faults (index < 10) on a file of 0 bytes,
   both NAK modes, closure on/off, limits 5. *)
From CFDP Require Import Base Checksum Handler Dest Source System SystemCases.
Lemma c03_k2_size0 :
  forallb (fun '(cl, imm) => forallb (fun '(f1, f2) => c03_case cl imm 0 2 [f1; f2]) (pairs (fault_space 10)))
          (list_prod [false; true] [false; true]) = true.
Proof. vm_compute. reflexivity. Qed.
