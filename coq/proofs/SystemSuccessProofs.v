(* SystemSuccessProofs.v — proofs for property C01 over the two-handler system and EVERY fault schedule (props/C01c.v):
   whenever the receiver's event log holds a success report (Transaction-Finished, No Error / Data Complete), the
   destination file exists and is byte-identical to the source file, or has the same length and the same CRC.

   Structure (one module per part):
   - SS_Defs       genuine PDUs ([gen]) and NAKs with unsigned offsets ([nak_ok])
   - SS_Aux        small facts: tracker bounds, the NAK splitting loop, the checksum over at least the whole file
   - SS_RecvA..G   the receiver: invariant [RI] of the whole state machine for genuine inbound PDUs (file never longer
                   than the source, recorded EOF size / checksum / checksum type / file name are those of the source,
                   the lost-segment tracker covers every byte below the progress that is not in the file, "data
                   complete" only for a file as long as the source ...), preserved by every call ([sm_RI]); the event
                   log holds a success report only for a good file ([LG]: [sm_busy_LG], [sm_idle_lg])
   - SS_SenderGen  the sender: every PDU it ever queues is genuine for the source file, whatever it is handed
                   (NAK offsets unsigned), as an invariant of the whole state machine ([si_step], [si_queue])
   - SS_SysA       the system: invariant of [step_round] / [run] for every fault schedule ([SYS]: before the
                   transaction starts [PRE], afterwards [POST] for the PDU header of the transaction)
   and at top level the theorem of props/C01c.v and the counterexample to its first form. *)
From CFDP Require Base LostSeg LostSegSpec Fs Crc Checksum ChecksumSpec Handler Dest Source SourceSpec System SystemCases HandlerSpec.
From CFDP.gen Require Tables.
From CFDP.proofs Require RouteProofs FsProofs LostSegProofs ChecksumProofs GuardProofs DeliveryProofs NakProofs TrackInvProofs DestFsProofs SuccessInvProofs.
From RecordUpdate Require RecordSet.

Module SS_Defs.
(* shared definitions of the C01c development (scratch; later concatenated into proofs/SystemSuccessProofs.v) *)
Import CFDP.Base CFDP.LostSeg CFDP.Fs CFDP.Crc CFDP.Checksum CFDP.Handler CFDP.Dest CFDP.Source CFDP.SourceSpec.
Import RecordUpdate.RecordSet.
Import RecordSetNotations.

(* a PDU travelling towards the receiver is GENUINE for the source file [data], checksum type [ty], transaction header [H]
   and file names (sn, dn) *)
Definition gen (data : bytes) (ty : Z) (H : hdr) (sn dn : path) (p : pdu) : Prop :=
  match p with
  | PFileData h off bs =>
      h = H /\ 0 <= off /\ 0 < zlen bs /\ off + zlen bs <= zlen data /\ bs = ztake (zlen bs) (zdrop off data)
  | PMetadata h cl ck fsz names msgs => h = H /\ ck = ty /\ fsz = zlen data /\ names = Some (sn, dn)
  | PEof h cond ck fsz fl =>
      h = H /\ fsz = zlen data /\ calculate_checksum ty (Some data) (zlen data) 4096 = Ok ck
  | _ => True
  end.

(* an inbound PDU whose NAK segment requests (if it is a NAK) have unsigned start offsets *)
Definition nak_ok (p : pdu) : Prop :=
  match p with PNak _ _ _ reqs => Forall (fun rq => 0 <= fst rq) reqs | _ => True end.
Definition nak_ok_o (pkt : option pdu) : Prop := match pkt with Some p => nak_ok p | None => True end.
End SS_Defs.

Module SS_Aux.
(* Aux.v — small facts about the tracker, the NAK splitting loop, the checksum and the filestore *)
Import CFDP.Base CFDP.LostSeg CFDP.LostSegSpec CFDP.Fs CFDP.Crc CFDP.Checksum CFDP.Handler CFDP.Dest CFDP.HandlerSpec.
Import CFDP.proofs.FsProofs CFDP.proofs.LostSegProofs CFDP.proofs.ChecksumProofs CFDP.proofs.TrackInvProofs.
Import SS_Defs.

Local Opaque calculate_checksum.
Local Arguments Z.add : simpl never. Local Arguments Z.sub : simpl never. Local Arguments Z.mul : simpl never.
Local Arguments Z.ltb : simpl never. Local Arguments Z.leb : simpl never. Local Arguments Z.eqb : simpl never.
Local Arguments Z.max : simpl never. Local Arguments Z.min : simpl never. Local Arguments Z.of_nat : simpl never.

Definition nonneg (z : Z) : Prop := 0 <= z.

Lemma Bnd_nil : forall P, Bnd P [].
Proof. intros P p []. Qed.

Lemma Bnd_coal : forall (P : Z -> Prop) l cs ce, P cs -> P ce -> Bnd P l -> Bnd P (coal cs ce l).
Proof.
  intros P. induction l as [|p t IH]; intros cs ce Hs He Hl; cbn [coal].
  - intros q [<-|[]]. split; assumption.
  - assert (Hp : P (fst p) /\ P (snd p)) by (apply Hl; left; reflexivity).
    assert (Ht : Bnd P t) by (intros q Hq; apply Hl; right; exact Hq).
    destruct (fst p =? ce).
    + apply IH; tauto.
    + intros q [<-|Hq]; [split; assumption|]. revert q Hq. apply IH; tauto.
Qed.

Lemma In_dict_of_list_aux : forall c d p,
  In p (fold_left (fun d p => update (fst p) (snd p) d) c d) -> In p c \/ In p d.
Proof.
  induction c as [|[k v] c IH]; intros d p Hp; cbn [fold_left] in Hp; [right; exact Hp|].
  apply IH in Hp. destruct Hp as [Hp|Hp]; [left; right; exact Hp|].
  cbn [fst snd] in Hp. apply In_update_sub in Hp. destruct Hp as [->|Hp]; [left; left; reflexivity | right; exact Hp].
Qed.

Lemma Bnd_coalesce : forall (P : Z -> Prop) l, Bnd P l -> Bnd P (coalesce l).
Proof.
  intros P l Hl. unfold coalesce. destruct l as [|[s0 e0] [|q t]]; try exact Hl.
  intros p Hp.
  match type of Hp with context [fold_left coalesce_step ?a ?b] => destruct (fold_left coalesce_step a b) as [[m cs] ce] eqn:F end.
  apply fold_coal in F. cbn [app] in F. unfold dict_of_list in Hp. apply In_dict_of_list_aux in Hp. destruct Hp as [Hp|[]].
  rewrite F in Hp.
  assert (H0 : P s0 /\ P e0) by (apply (Hl (s0, e0)); left; reflexivity).
  revert p Hp. apply Bnd_coal; tauto.
Qed.

(* the NAK splitting loop only distributes its inputs *)
Lemma nak_split_ok : forall h eos maxn l acc ps rest,
  nak_split h eos maxn acc l = (ps, rest) ->
  Forall (fun rq => 0 <= fst rq) acc -> Bnd nonneg l ->
  Forall nak_ok ps /\ Forall (fun rq => 0 <= fst rq) rest.
Proof.
  intros h eos maxn. induction l as [|sg t IH]; intros acc ps rest E Hacc Hl; cbn [nak_split] in E.
  - injection E as <- <-. split; [constructor | exact Hacc].
  - assert (Hsg : 0 <= fst sg) by (apply (Hl sg); left; reflexivity).
    assert (Ht : Bnd nonneg t) by (intros q Hq; apply Hl; right; exact Hq).
    assert (Hacc' : Forall (fun rq => 0 <= fst rq) (acc ++ [sg])).
    { apply Forall_app. split; [exact Hacc | constructor; [exact Hsg | constructor]]. }
    destruct (zlen (acc ++ [sg]) =? maxn).
    + destruct (nak_split h eos maxn [] t) as [ps' rest'] eqn:E'. injection E as <- <-.
      destruct (IH [] ps' rest' E' (Forall_nil _) Ht) as [H1 H2].
      split; [constructor; [exact Hacc' | exact H1] | exact H2].
    + apply (IH _ _ _ E Hacc' Ht).
Qed.

(* checksum over at least the whole file = CRC of the file *)
Lemma ztake_all : forall (A : Type) (l : list A) m, zlen l <= m -> ztake m l = l.
Proof. intros A l m Hm. unfold ztake. apply firstn_all2. unfold zlen in Hm. lia. Qed.

Lemma calc_crc_any : forall ty d m seg,
  (ty = CK_CRC32 \/ ty = CK_CRC32C) -> 0 <= m -> 0 < seg ->
  calculate_checksum ty (Some d) m seg =
    Ok (crc_spec (if ty =? CK_CRC32 then poly_crc32 else poly_crc32c) (ztake m d)).
Proof.
  intros ty d m seg Hty Hm Hseg.
  assert (Eseg : (seg =? 0) = false) by (apply Z.eqb_neq; lia).
  Local Transparent calculate_checksum.
  unfold calculate_checksum. rewrite Eseg.
  destruct Hty as [Hty | Hty]; subst ty.
  - change (CK_CRC32 =? CK_NULL) with false. change (CK_CRC32 =? CK_MODULAR) with false.
    change (CK_CRC32 =? CK_CRC32) with true. change (CK_CRC32 =? CK_CRC32C) with false.
    cbn [negb orb]. rewrite crc_loop_top by lia. reflexivity.
  - change (CK_CRC32C =? CK_NULL) with false. change (CK_CRC32C =? CK_MODULAR) with false.
    change (CK_CRC32C =? CK_CRC32) with false. change (CK_CRC32C =? CK_CRC32C) with true.
    cbn [negb orb]. rewrite crc_loop_top by lia. reflexivity.
Qed.
Local Opaque calculate_checksum.

Lemma calc_crc_whole : forall ty d m,
  (ty = CK_CRC32 \/ ty = CK_CRC32C) -> zlen d <= m ->
  calculate_checksum ty (Some d) m 4096 = calculate_checksum ty (Some d) (zlen d) 4096.
Proof.
  intros ty d m Hty Hm. assert (0 <= zlen d) by (unfold zlen; lia).
  rewrite !calc_crc_any by (try assumption; lia). rewrite !ztake_all by lia. reflexivity.
Qed.

Lemma calc_crc_len4 : forall ty d m r,
  (ty = CK_CRC32 \/ ty = CK_CRC32C) -> calculate_checksum ty (Some d) m 4096 = Ok r -> r <> [].
Proof.
  intros ty d m r Hty E.
  Local Transparent calculate_checksum.
  unfold calculate_checksum in E.
  destruct Hty as [-> | ->].
  - change (CK_CRC32 =? CK_NULL) with false in E. change (CK_CRC32 =? CK_MODULAR) with false in E.
    change (4096 =? 0) with false in E.
    change (CK_CRC32 =? CK_CRC32) with true in E. cbn [negb orb] in E.
    destruct (crc_loop _ _ _ _ _ _ _) as [c|]; [|discriminate E]. injection E as <-. unfold crc_digest_of_reg, be32. discriminate.
  - change (CK_CRC32C =? CK_NULL) with false in E. change (CK_CRC32C =? CK_MODULAR) with false in E.
    change (4096 =? 0) with false in E.
    change (CK_CRC32C =? CK_CRC32) with false in E. change (CK_CRC32C =? CK_CRC32C) with true in E. cbn [negb orb] in E.
    destruct (crc_loop _ _ _ _ _ _ _) as [c|]; [|discriminate E]. injection E as <-. unfold crc_digest_of_reg, be32. discriminate.
Qed.
Local Opaque calculate_checksum.

Lemma ty_not_null : forall ty, (ty = CK_CRC32 \/ ty = CK_CRC32C) -> ty <> CK_NULL.
Proof. intros ty [-> | ->]; discriminate. Qed.
End SS_Aux.

Module SS_RecvA.
(* RecvA.v — receiver invariant for genuine inbound PDUs: definitions, combinators, primitive steps *)
Import CFDP.Base CFDP.LostSeg CFDP.LostSegSpec CFDP.Fs CFDP.Crc CFDP.Checksum CFDP.Handler CFDP.Dest CFDP.HandlerSpec.
Import CFDP.gen.Tables.
Import CFDP.proofs.FsProofs CFDP.proofs.LostSegProofs CFDP.proofs.ChecksumProofs CFDP.proofs.GuardProofs CFDP.proofs.DeliveryProofs CFDP.proofs.NakProofs CFDP.proofs.TrackInvProofs CFDP.proofs.DestFsProofs CFDP.proofs.SuccessInvProofs.
Import SS_Defs SS_Aux.
Import RecordUpdate.RecordSet.
Import RecordSetNotations.
Open Scope monad_scope.

Local Opaque calculate_checksum.
Local Arguments Z.add : simpl never. Local Arguments Z.sub : simpl never. Local Arguments Z.mul : simpl never.
Local Arguments Z.ltb : simpl never. Local Arguments Z.leb : simpl never. Local Arguments Z.eqb : simpl never.
Local Arguments Z.max : simpl never. Local Arguments Z.min : simpl never. Local Arguments Z.of_nat : simpl never.

(* the constants of one transfer as the receiver sees it: source file, checksum type, PDU header, file names, the
   checksum of the source file *)
Class Prm := mkPrm {
  g_data : bytes; g_ty : Z; g_H : hdr; g_sn : path; g_dn : path; g_CK : bytes;
  g_Hty : g_ty = CK_CRC32 \/ g_ty = CK_CRC32C;
  g_Hdn : length g_dn = 1%nat;
  g_HCK : calculate_checksum g_ty (Some g_data) (zlen g_data) 4096 = Ok g_CK;
  g_Hmode : h_mode g_H = ACKED \/ h_mode g_H = UNACKED }.

Section RecvDefs.
Context {Pm : Prm}.
Local Notation data := g_data.
Local Notation ty := g_ty.
Local Notation H := g_H.
Local Notation dn := g_dn.
Local Notation CK := g_CK.
Local Notation Hty := g_Hty.
Local Notation Hdn := g_Hdn.
Local Notation HCK := g_HCK.
Definition nn : Z := zlen data.
Definition TT : Z * Z := (h_src H, h_seq H).
Definition MODE : Z := h_mode H.

Definition fs_ok (fs : tree) : Prop := fs = [] \/ exists d, fs = [(dn, File d)] /\ zlen d <= nn.
(* steps in which File Data is written *)
Definition recv_step (st : Z) : Prop :=
  st = DS_RECEIVING_FILE_DATA \/ st = DS_RECV_WITH_CHECK_LIMIT \/ st = DS_WAITING_FOR_MISSING_DATA.
Definition done_step (st : Z) : Prop :=
  st = DS_TRANSFER_COMPLETION \/ st = DS_SENDING_FINISHED \/ st = DS_WAITING_FOR_FINISHED_ACK.

Record RI (s : dst) : Prop := mkRI {
  ri_st : d_state s = ST_IDLE \/ d_state s = ST_BUSY;
  ri_fs : fs_ok (e_fs (d_env s));
  ri_rw : e_reject_writes (d_env s) = false;
  ri_mdo : p_md_only (d_p s) = false;
  ri_eofcrc : (p_file_size_eof (d_p s) = None /\ p_crc32 (d_p s) = []) \/
              (p_file_size_eof (d_p s) = Some nn /\ p_crc32 (d_p s) = CK);
  ri_prog : 0 <= p_progress (d_p s) <= nn;
  ri_name : p_file_name (d_p s) = [] \/ p_file_name (d_p s) = dn;
  ri_W : p_md_missing (d_p s) = true -> p_file_name (d_p s) = [];
  ri_V : d_state s = ST_BUSY -> p_md_missing (d_p s) = false -> p_file_name (d_p s) = dn /\ p_cktype (d_p s) = ty;
  ri_FE : p_file_name (d_p s) = dn -> (exists d, e_fs (d_env s) = [(dn, File d)]) \/ done_step (d_step s);
  ri_len : p_file_name (d_p s) = dn -> forall d, file_content (e_fs (d_env s)) dn = Some d -> zlen d <= p_progress (d_p s);
  ri_K : f_deliv (p_fin (d_p s)) = DATA_COMPLETE -> d_state s = ST_BUSY /\ p_md_missing (d_p s) = false;
  ri_KL : f_deliv (p_fin (d_p s)) = DATA_COMPLETE ->
          forall d, file_content (e_fs (d_env s)) dn = Some d -> p_progress (d_p s) <= zlen d /\ nn <= p_progress (d_p s);
  ri_Ke : f_deliv (p_fin (d_p s)) = DATA_COMPLETE -> p_file_size_eof (d_p s) = Some nn;
  ri_bs : d_state s = ST_BUSY -> d_step s <> DS_IDLE;
  ri_S1 : recv_step (d_step s) -> p_md_missing (d_p s) = false;
  ri_S2 : d_step s = DS_WAITING_FOR_METADATA -> p_md_missing (d_p s) = true;
  ri_S3 : d_step s = DS_SENDING_EOF_ACK \/ d_step s = DS_RECV_WITH_CHECK_LIMIT -> p_file_size_eof (d_p s) = Some nn;
  ri_S4 : d_step s = DS_RECV_WITH_CHECK_LIMIT -> MODE = UNACKED;
  ri_S5 : p_md_missing (d_p s) = true -> MODE = ACKED;
  ri_busy : d_state s = ST_BUSY -> p_rcfg (d_p s) <> None /\ p_tid (d_p s) = Some TT /\ h_mode (p_conf (d_p s)) = MODE;
  ri_le : 0 <= p_last_end (d_p s);
  ri_q : Forall nak_ok (d_queue s);
  (* the lost-segment tracker *)
  rt_inv : Inv (p_tracker (d_p s));
  rt_nn : forall x, den (p_tracker (d_p s)) x -> 0 <= x < nn;
  rt_le : d_step s = DS_RECEIVING_FILE_DATA \/ d_step s = DS_WAITING_FOR_MISSING_DATA \/ d_step s = DS_WAITING_FOR_METADATA ->
          forall x, den (p_tracker (d_p s)) x -> x < p_last_end (d_p s);
  rt_pr : d_step s = DS_RECEIVING_FILE_DATA \/ d_step s = DS_RECV_WITH_CHECK_LIMIT ->
          forall x, den (p_tracker (d_p s)) x -> x < p_progress (d_p s);
  rt_un : MODE = UNACKED -> p_tracker (d_p s) = [];
  rt_W : p_md_missing (d_p s) = true -> f_fl (p_fin (d_p s)) = None ->
         (p_tracker (d_p s) = [] /\ p_progress (d_p s) = 0) \/
         (p_tracker (d_p s) = [(0, p_progress (d_p s))] /\ 0 < p_progress (d_p s));
  rt_cov : f_fl (p_fin (d_p s)) = None -> p_file_name (d_p s) = dn ->
           forall d, file_content (e_fs (d_env s)) dn = Some d ->
           forall x, zlen d <= x < p_progress (d_p s) -> den (p_tracker (d_p s)) x;
  rt_fl : f_fl (p_fin (d_p s)) <> None -> d_step s = DS_SENDING_EOF_ACK \/ done_step (d_step s);
  rt_fld : f_fl (p_fin (d_p s)) <> None -> p_disp (d_p s) = DISP_CANCELED }.

(* RI, optionally with: busy, metadata present, EOF seen, no EOF (cancel) seen, tracker empty *)
Definition PP (b m e f t x : bool) (s : dst) : Prop :=
  RI s /\ (b = true -> d_state s = ST_BUSY) /\ (m = true -> p_md_missing (d_p s) = false) /\
  (e = true -> p_file_size_eof (d_p s) = Some nn) /\ (f = true -> f_fl (p_fin (d_p s)) = None) /\
  (t = true -> p_tracker (d_p s) = []) /\
  (x = true -> p_file_name (d_p s) = dn -> exists d, e_fs (d_env s) = [(dn, File d)]).

(* the fields RI reads *)
Definition rview (s : dst) :=
  (d_state s, d_step s, d_queue s, e_fs (d_env s), e_reject_writes (d_env s),
   (p_md_only (d_p s), p_file_size_eof (d_p s), p_crc32 (d_p s), p_progress (d_p s), p_file_name (d_p s),
    p_md_missing (d_p s), p_cktype (d_p s), f_deliv (p_fin (d_p s)), f_fl (p_fin (d_p s)), p_disp (d_p s)),
   (p_rcfg (d_p s), p_tid (d_p s), p_conf (d_p s), p_tracker (d_p s), p_last_end (d_p s))).

Lemma rview_RI : forall s s', rview s' = rview s -> RI s -> RI s'.
Proof.
  intros s s' Hv HR. unfold rview in Hv.
  injection Hv; clear Hv; intros E1 E2 E3 E4 E5 E6 E7 E8 E9 E10 E11 E12 E13 E14 E15 E16 E17 E18 E19 E20.
  destruct HR; constructor;
    rewrite ?E1, ?E2, ?E3, ?E4, ?E5, ?E6, ?E7, ?E8, ?E9, ?E10, ?E11, ?E12, ?E13, ?E14, ?E15, ?E16, ?E17, ?E18, ?E19, ?E20;
    assumption.
Qed.
Lemma rview_PP : forall b m e f t x s s', rview s' = rview s -> PP b m e f t x s -> PP b m e f t x s'.
Proof.
  intros b m e f t x s s' Hv (HR & HB & HM & HE & HF & HT & HX). split; [apply (rview_RI s); assumption|].
  unfold rview in Hv. injection Hv; intros E1 E2 E3 E4 E5 E6 E7 E8 E9 E10 E11 E12 E13 E14 E15 E16 E17 E18 E19 E20.
  split; [|split; [|split; [|split; [|split]]]]; intro X;
    [rewrite <- (HB X) | rewrite <- (HM X) | rewrite <- (HE X) | rewrite <- (HF X) | rewrite <- (HT X) | ]; try assumption.
  rewrite E11, E17. exact (HX X).
Qed.
Lemma PP_RI : forall b m e f t x s, PP b m e f t x s -> RI s. Proof. intros b m e f t x s [HR _]. exact HR. Qed.
Lemma RI_PP : forall s, RI s -> PP false false false false false false s.
Proof. intros s HR. split; [exact HR | repeat split; intro X; discriminate X]. Qed.
Lemma PP_weaken : forall b m e f t x b' m' e' f' t' x' s,
  (b' = true -> b = true) -> (m' = true -> m = true) -> (e' = true -> e = true) -> (f' = true -> f = true) ->
  (t' = true -> t = true) -> (x' = true -> x = true) -> PP b m e f t x s -> PP b' m' e' f' t' x' s.
Proof.
  intros b m e f t x b' m' e' f' t' x' s Hb Hm He Hf Ht Hx (HR & HB & HM & HE & HF & HT & HX).
  split; [exact HR | split; [|split; [|split; [|split; [|split]]]]; intro X;
    [apply HB, Hb, X | apply HM, Hm, X | apply HE, He, X | apply HF, Hf, X | apply HT, Ht, X | apply HX, Hx, X]].
Qed.

(* ------------------------------------------------------------------ triples *)
(* from P: on normal return P again, on an exception E *)
Definition hq {A} (E P : dst -> Prop) (m : D A) : Prop := hoare P m (fun _ => P) E.

Lemma hq_bind {A C} (E P : dst -> Prop) (m : D A) (f : A -> D C) :
  hq E P m -> (forall a, hq E P (f a)) -> hq E P (bind m f).
Proof. intros Hm Hf. unfold hq. eapply hoare_bind; [exact Hm | exact Hf]. Qed.
Lemma hq_ret {A} (E P : dst -> Prop) (a : A) : hq E P (ret a).
Proof. intros s HP. exact HP. Qed.
Lemma hq_raise {A} (E P : dst -> Prop) e : (forall s, P s -> E s) -> hq E P (@raise dst A e).
Proof. intros HPR s HP. apply HPR, HP. Qed.
Lemma hq_gets {A} (E P : dst -> Prop) (f : dst -> A) : hq E P (gets f).
Proof. intros s HP. exact HP. Qed.
Lemma hq_get (E P : dst -> Prop) : hq E P get.
Proof. intros s HP. exact HP. Qed.
Lemma hq_modify (E P : dst -> Prop) (f : dst -> dst) : (forall s, P s -> P (f s)) -> hq E P (modify f).
Proof. intros Hf s HP. apply Hf, HP. Qed.
Lemma hq_fr {A} (E P : dst -> Prop) (m : D A) :
  (forall s s', rview s' = rview s -> P s -> P s') -> (forall s, P s -> E s) -> MInv rview Any m -> hq E P m.
Proof.
  intros Hv HPR Hm s HP. pose proof (minv_state _ _ _ s Hm) as X.
  destruct (m s) as [s' [a|e]]; cbn [fst] in X; [apply (Hv s); assumption | apply HPR, (Hv s); assumption].
Qed.
Lemma hq_catch {A} (E P : dst -> Prop) (m : D A) h :
  hq P P m -> (forall e k, h e = Some k -> hq E P k) -> (forall s, P s -> E s) -> hq E P (catch m h).
Proof.
  intros Hm Hh HPR s HP. specialize (Hm s HP). unfold catch.
  destruct (m s) as [s1 [a|e]]; [exact Hm|].
  destruct (h e) as [k|] eqn:Hk; [apply (Hh e k Hk), Hm | apply HPR, Hm].
Qed.
Lemma hq_fold {B} (E P : dst -> Prop) (g : B -> D unit) (l : list B) : forall m0,
  hq E P m0 -> (forall b, hq E P (g b)) -> hq E P (fold_left (fun m b => bind m (fun _ => g b)) l m0).
Proof.
  induction l as [|b l IH]; intros m0 H0 Hg; cbn [fold_left]; [exact H0|].
  apply IH; [|exact Hg]. apply hq_bind; [exact H0 | intros _; apply Hg].
Qed.
Lemma hq_pres {A} (E P : dst -> Prop) (m : D A) : (forall s, P s -> E s) -> hq E P m -> pres P E m.
Proof. intros HPR Hm s HP. specialize (Hm s HP). destruct (m s) as [s' [a|e]]; cbn [fst]; [apply HPR, Hm | exact Hm]. Qed.
Lemma hq_weak {A} (E E' P : dst -> Prop) (m : D A) : (forall s, E s -> E' s) -> hq E P m -> hq E' P m.
Proof. intros HE Hm s HP. specialize (Hm s HP). destruct (m s) as [s' [a|e]]; [exact Hm | apply HE, Hm]. Qed.
Lemma hq_bind_ret {A C} (E P : dst -> Prop) (a : A) (k : A -> D C) : hq E P (k a) -> hq E P (bind (ret a) k).
Proof. intros Hk s HP. rewrite b_ret. apply Hk, HP. Qed.
Lemma hq_gp_dep {A C} (E P : dst -> Prop) (Q : A -> Prop) (f : dparams -> A) (k : A -> D C) :
  (forall s, P s -> Q (f (d_p s))) -> (forall a, Q a -> hq E P (k a)) -> hq E P (bind (gp f) k).
Proof. intros HQ Hk s HP. rewrite b_gp. apply (Hk _ (HQ s HP) s HP). Qed.
Lemma hq_gets_dep {A C} (E P : dst -> Prop) (Q : A -> Prop) (f : dst -> A) (k : A -> D C) :
  (forall s, P s -> Q (f s)) -> (forall a, Q a -> hq E P (k a)) -> hq E P (bind (gets f) k).
Proof. intros HQ Hk s HP. rewrite b_gets. apply (Hk _ (HQ s HP) s HP). Qed.

(* ------------------------------------------------------------------ the destination path *)
Lemma dn_ne : dn <> [].
Proof. intro E. pose proof Hdn as Hd. rewrite E in Hd. discriminate Hd. Qed.
Lemma nn_nonneg : 0 <= nn.
Proof. unfold nn, zlen. lia. Qed.
Lemma dn_single : exists x, dn = [x].
Proof. pose proof Hdn as Hd. destruct dn as [|x [|y t]]; try discriminate Hd. exists x. reflexivity. Qed.
Lemma lookup_dn_single : forall nd, lookup [(dn, nd)] dn = Some nd.
Proof.
  intro nd. destruct dn_single as [x ->]. unfold lookup. cbn [lookup_raw]. rewrite path_eqb_refl. reflexivity.
Qed.
Lemma file_content_single : forall d, file_content [(dn, File d)] dn = Some d.
Proof. intro d. unfold file_content. rewrite lookup_dn_single. reflexivity. Qed.
Lemma file_content_nil : file_content [] dn = None.
Proof. destruct dn_single as [x ->]. reflexivity. Qed.
Lemma fs_ok_len : forall fs d, fs_ok fs -> file_content fs dn = Some d -> zlen d <= nn.
Proof.
  intros fs d [->|(d0 & -> & Hd)] Hf.
  - rewrite file_content_nil in Hf. discriminate Hf.
  - rewrite file_content_single in Hf. injection Hf as <-. exact Hd.
Qed.
Lemma mode_cases : MODE = ACKED \/ MODE = UNACKED.
Proof. exact g_Hmode. Qed.
End RecvDefs.

Notation FRV m := (MInv rview Any m).
Notation hb := (hq RI).
Notation BV := (PP true true true true true true).

Lemma den_nil : forall x, ~ den [] x.
Proof. intros x (a & b & [] & _). Qed.

(* ------------------------------------------------------------------ normalisation of record updates *)
Ltac nrm :=
  cbv beta iota delta [set fresh_params d_cfg d_state d_step d_states_tid d_ready d_queue d_p d_env
    p_tid p_rcfg p_check_timer p_check_count p_closure p_cktype p_fin p_disp p_conf p_progress p_crc32 p_file_size
    p_file_name p_file_size_eof p_md_only p_tracker p_md_missing p_last_start p_last_end p_deferred p_proc_timer
    p_nak_counter p_ack_timer p_ack_counter f_deliv f_fstatus f_cond f_fl e_now e_fs e_reject_writes e_log].
Ltac nrm_in Hx :=
  cbv beta iota delta [set fresh_params d_cfg d_state d_step d_states_tid d_ready d_queue d_p d_env
    p_tid p_rcfg p_check_timer p_check_count p_closure p_cktype p_fin p_disp p_conf p_progress p_crc32 p_file_size
    p_file_name p_file_size_eof p_md_only p_tracker p_md_missing p_last_start p_last_end p_deferred p_proc_timer
    p_nak_counter p_ack_timer p_ack_counter f_deliv f_fstatus f_cond f_fl e_now e_fs e_reject_writes e_log] in Hx.
Ltac nrm_all :=
  cbv beta iota delta [set fresh_params d_cfg d_state d_step d_states_tid d_ready d_queue d_p d_env
    p_tid p_rcfg p_check_timer p_check_count p_closure p_cktype p_fin p_disp p_conf p_progress p_crc32 p_file_size
    p_file_name p_file_size_eof p_md_only p_tracker p_md_missing p_last_start p_last_end p_deferred p_proc_timer
    p_nak_counter p_ack_timer p_ack_counter f_deliv f_fstatus f_cond f_fl e_now e_fs e_reject_writes e_log] in *.

Ltac dsteps := unfold recv_step, done_step, DS_IDLE, DS_TRANSACTION_START, DS_WAITING_FOR_METADATA, DS_RECEIVING_FILE_DATA,
  DS_RECV_WITH_CHECK_LIMIT, DS_SENDING_EOF_ACK, DS_WAITING_FOR_MISSING_DATA, DS_TRANSFER_COMPLETION,
  DS_SENDING_FINISHED, DS_WAITING_FOR_FINISHED_ACK, ST_IDLE, ST_BUSY, DATA_COMPLETE, DATA_INCOMPLETE in *.

Ltac dn_absurd :=
  match goal with
  | E : [] = g_dn |- _ => exfalso; exact (dn_ne (eq_sym E))
  | E : g_dn = [] |- _ => exfalso; exact (dn_ne E)
  end.
Ltac ri_cheap :=
  solve [ assumption | reflexivity | discriminate | constructor
        | (apply Forall_app; split; [assumption | constructor; [exact I | constructor]])
        | (intros; assumption) | (intros; discriminate) | (intros; dn_absurd)
        | (intros; dsteps; first [discriminate | lia | congruence]) | (intros; eapply fs_ok_len; eassumption)
        | (intros; match goal with X : den [] _ |- _ => contradiction (den_nil _ X) end) ].
Ltac clear_q :=
  repeat match goal with Hq : forall _ : Z, _ |- _ => clear Hq | Hq : forall _ : bytes, _ |- _ => clear Hq
                       | Hq : Inv _ |- _ => clear Hq | Hq : Forall _ _ |- _ => clear Hq | Hq : fs_ok _ |- _ => clear Hq end.
(* heavier: propositional reasoning *)
Ltac ri_mid := first [ solve [auto] | solve [ pose proof dn_ne; intros; dsteps; first [ solve [auto] | timeout 3 tauto ] ] ].
Ltac ri_heavy :=
  solve [ pose proof nn_nonneg; pose proof dn_ne; intros; dsteps; clear_q;
          intuition (first [discriminate | dn_absurd | congruence | lia]) ].
Ltac ri_easy := first [ ri_cheap | ri_mid | timeout 8 ri_heavy ].

Ltac ddst s :=
  destruct s as [z_cfg z_st z_step z_stid z_ready z_q z_p z_env]; destruct z_env as [z_nw z_fs z_rw z_lg];
  destruct z_p as [z_tid z_rc z_ckt z_ckc z_clo z_ckty z_fin z_disp z_cf z_pr z_crc z_fsz z_fname z_fse z_mdo z_trk z_mdm
                   z_ls z_le z_dfr z_prt z_nakc z_ackt z_ackc];
  destruct z_fin as [z_deliv z_fstat z_fcond z_ffl].

Ltac dRI HR := destruct HR as [ri_st ri_fs ri_rw ri_mdo ri_eofcrc ri_prog ri_name ri_W ri_V ri_FE ri_len ri_K ri_KL ri_Ke ri_bs ri_S1 ri_S2 ri_S3 ri_S4 ri_S5 ri_busy ri_le ri_q rt_inv rt_nn rt_le rt_pr rt_un rt_W rt_cov rt_fl rt_fld].
Ltac subst_hyp Hx := try match type of Hx with ?v = _ => is_var v; subst v end.
Ltac ddst2 s :=
  destruct s as [y_cfg y_st y_step y_stid y_ready y_q y_p y_env]; destruct y_env as [y_nw y_fs y_rw y_lg];
  destruct y_p as [y_tid y_rc y_ckt y_ckc y_clo y_ckty y_fin y_disp y_cf y_pr y_crc y_fsz y_fname y_fse y_mdo y_trk y_mdm
                   y_ls y_le y_dfr y_prt y_nakc y_ackt y_ackc];
  destruct y_fin as [y_deliv y_fstat y_fcond y_ffl].
Ltac run := repeat first [progress mr | progress nrm | progress cbv zeta].
(* goal: PP .. (updated s) from PP .. s; or RI .. from RI *)
Ltac open_pp HP :=
  let HR := fresh "HR" in let HB := fresh "HB" in let HM := fresh "HM" in let HE := fresh "HE" in
  let HF := fresh "HF" in let HT := fresh "HT" in let HX := fresh "HX" in
  destruct HP as (HR & HB & HM & HE & HF & HT & HX); dRI HR; nrm_all;
  try specialize (HB eq_refl); try specialize (HM eq_refl); try specialize (HE eq_refl);
  try specialize (HF eq_refl); try specialize (HT eq_refl); try specialize (HX eq_refl);
  subst_hyp HT; subst_hyp HE; subst_hyp HF; subst_hyp HM; subst_hyp HB.
Ltac split_pp := first [ (split; [constructor | split; [|split; [|split; [|split; [|split]]]]]) | constructor ].
Ltac leaf_pp :=
  let s := fresh "s" in let HP := fresh "HP" in
  intros s HP; ddst s; open_pp HP; split_pp; nrm; try ri_easy.
Ltac fin_pp s HP :=
  cbv beta iota; ddst s; open_pp HP; split_pp; nrm; try ri_easy.

Create HintDb hqw discriminated.

Ltac pe := first [ exact (fun s h => h) | apply PP_RI | (intros ? ?; assumption) ].
Ltac hq_frame := apply hq_fr; [apply rview_PP | pe | minv].

Ltac hw_step :=
  cbv beta zeta;
  match goal with
  | |- hq _ _ _ => solve [auto with hqw nocore]
  | |- hq _ _ (bind _ _) => apply hq_bind; [|intro]
  | |- hq _ _ (ret _) => apply hq_ret
  | |- hq _ _ (raise _) => apply hq_raise; pe
  | |- hq _ _ get => apply hq_get
  | |- hq _ _ (gets _) => apply hq_gets
  | |- hq _ _ (when ?b _) => destruct b; [rewrite when_true | rewrite when_false]
  | |- hq _ _ (fold_left _ _ _) => apply hq_fold; [|intro]
  | |- hq _ _ (if ?b then _ else _) => destruct b
  | |- hq _ _ (match ?x with _ => _ end) => destruct x
  | |- hq _ _ (modify _) => apply hq_modify; leaf_pp
  | |- hq _ _ _ => solve [hq_frame]
  | |- hq _ _ ?m => let h := mhead m in unfold h
  end.
Ltac hw := repeat hw_step.
End SS_RecvA.

Module SS_RecvT.
(* RecvT.v — the lost-segment bookkeeping of one File Data PDU, as far as the receiver invariant needs it *)
Import CFDP.Base CFDP.LostSeg CFDP.LostSegSpec CFDP.Fs CFDP.Crc CFDP.Checksum CFDP.Handler CFDP.Dest CFDP.HandlerSpec.
Import CFDP.gen.Tables.
Import CFDP.proofs.FsProofs CFDP.proofs.LostSegProofs CFDP.proofs.ChecksumProofs CFDP.proofs.GuardProofs CFDP.proofs.DeliveryProofs CFDP.proofs.NakProofs CFDP.proofs.TrackInvProofs CFDP.proofs.DestFsProofs CFDP.proofs.SuccessInvProofs.
Import SS_Defs SS_Aux SS_RecvA.
Import RecordUpdate.RecordSet.
Import RecordSetNotations.
Open Scope monad_scope.

Local Arguments Z.add : simpl never. Local Arguments Z.sub : simpl never. Local Arguments Z.mul : simpl never.
Local Arguments Z.ltb : simpl never. Local Arguments Z.leb : simpl never. Local Arguments Z.eqb : simpl never.
Local Arguments Z.max : simpl never. Local Arguments Z.min : simpl never. Local Arguments Z.of_nat : simpl never.

Lemma lsh_tracker : forall s off len,
  0 < len -> Inv (p_tracker (d_p s)) -> p_rcfg (d_p s) <> None ->
  (forall x, den (p_tracker (d_p s)) x -> x < p_last_end (d_p s)) ->
  exists s', lost_segment_handling off len s = (s', Ok tt) /\ Inv (p_tracker (d_p s')) /\
    (forall x, den (p_tracker (d_p s')) x -> den (p_tracker (d_p s)) x \/ p_last_end (d_p s) <= x < off) /\
    (forall x, den (p_tracker (d_p s)) x -> ~ (off <= x < off + len) -> den (p_tracker (d_p s')) x) /\
    (forall x, den (p_tracker (d_p s')) x -> x < p_last_end (d_p s')) /\
    (p_last_end (d_p s') = p_last_end (d_p s) \/ p_last_end (d_p s') = off + len) /\
    p_last_end (d_p s) <= p_last_end (d_p s').
Proof.
  intros s off len Hlen HI Hr Hb.
  destruct (Z_lt_dec (p_last_end (d_p s)) off) as [Hgap|Hngap].
  - destruct (st_gap s off len Hgap Hlen Hr) as [s' [E [Ht [Hls [Hle _]]]]].
    destruct (add_spec (p_tracker (d_p s)) (p_last_end (d_p s)) off HI Hgap) as [AI AD].
    { intros x Hx Hd. apply Hb in Hd. lia. }
    exists s'. split; [exact E|]. rewrite Ht, Hle. split; [exact AI|].
    split; [intros x Hd; apply AD in Hd; exact Hd|].
    split; [intros x Hd _; apply AD; left; exact Hd|].
    split; [intros x Hd; apply AD in Hd; destruct Hd as [Hd|Hd]; [apply Hb in Hd|]; lia|].
    split; [right; reflexivity | lia].
  - destruct (Z.eq_dec off (p_last_end (d_p s))) as [Heq|Hne].
    + destruct (st_in_order s off len Heq Hlen) as [s' [E [Ht [Hls [Hle _]]]]].
      exists s'. split; [exact E|]. rewrite Ht, Hle. split; [exact HI|].
      split; [intros x Hd; left; exact Hd|]. split; [intros x Hd _; exact Hd|].
      split; [intros x Hd; apply Hb in Hd; lia|]. split; [right; reflexivity | lia].
    + assert (Hlt : off < p_last_end (d_p s)) by lia.
      destruct (Z_le_dec (off + len) (p_last_start (d_p s))) as [Hold|Hfront].
      * destruct (st_below s off len Hlen HI Hold Hlt) as [s' [E [I' [D' [Hls [Hle _]]]]]].
        exists s'. split; [exact E|]. rewrite Hle. split; [exact I'|].
        split; [intros x Hd; left; apply D' in Hd; apply Hd|].
        split; [intros x Hd Hn; apply D'; split; assumption|].
        split; [intros x Hd; apply D' in Hd; apply Hb, Hd|]. split; [left; reflexivity | lia].
      * exists s. split; [apply st_frontier_again; lia|]. split; [exact HI|].
        split; [intros x Hd; left; exact Hd|]. split; [intros x Hd _; exact Hd|].
        split; [exact Hb|]. split; [left; reflexivity | lia].
Qed.

(* everything but the tracker, the frontier and the PDU queue *)
Definition lview (s : dst) :=
  (d_cfg s, d_state s, d_step s, d_states_tid s, d_env s,
   (p_tid (d_p s), p_rcfg (d_p s), p_check_timer (d_p s), p_check_count (d_p s), p_closure (d_p s), p_cktype (d_p s),
    p_fin (d_p s), p_disp (d_p s), p_conf (d_p s)),
   (p_progress (d_p s), p_crc32 (d_p s), p_file_size (d_p s), p_file_name (d_p s), p_file_size_eof (d_p s),
    p_md_only (d_p s), p_md_missing (d_p s), p_deferred (d_p s)),
   (p_proc_timer (d_p s), p_nak_counter (d_p s), p_ack_timer (d_p s), p_ack_counter (d_p s))).

Lemma lsh_frame : forall off len, MInv lview Any (lost_segment_handling off len).
Proof. intros. minv. Qed.

(* the queue only grows by a NAK for the gap [last_end, offset) *)
Definition QP (s : dst) : Prop := 0 <= p_last_end (d_p s) /\ Forall nak_ok (d_queue s).

Lemma lsh_queue : forall off len, 0 <= off -> 0 <= len -> hq QP QP (lost_segment_handling off len).
Proof.
  intros off len Ho Hl. unfold lost_segment_handling.
  assert (Hid : forall s, QP s -> QP s) by trivial.
  apply (hq_gp_dep _ _ (fun z => 0 <= z)); [intros s [X _]; exact X|]. intros le0 Hle.
  apply hq_bind.
  { destruct (le0 <? off); [rewrite when_true | rewrite when_false; apply hq_ret].
    apply hq_bind; [unfold tracker_add, setp; apply hq_modify; intros s [H1 H2]; split; [exact H1 | exact H2] | intros _].
    apply hq_bind.
    { unfold rcfg_or_assert. apply hq_bind; [apply hq_gets | intros r]. destruct r; [apply hq_ret | apply hq_raise; exact Hid]. }
    intros r. destruct (r_imm_nak r); [rewrite when_true | rewrite when_false; apply hq_ret].
    unfold conf. apply hq_bind; [apply hq_gets | intros h]. unfold add_packet. apply hq_modify.
    intros s [H1 H2]. split; [exact H1|]. cbn. apply Forall_app. split; [exact H2|].
    constructor; [|constructor]. cbn. constructor; [exact Hle | constructor]. }
  intros _. apply hq_bind; [apply hq_gets | intros le1].
  apply hq_bind.
  { destruct (le1 <=? off); [rewrite when_true | rewrite when_false; apply hq_ret]. unfold setp. apply hq_modify.
    intros s [H1 H2]. split; [cbn; lia | exact H2]. }
  intros _. apply hq_bind; [apply hq_gets | intros ls1].
  destruct (off + len <=? ls1); [rewrite when_true | rewrite when_false; apply hq_ret].
  apply hq_bind; [apply hq_gets | intros tr]. apply hq_fold; [apply hq_ret | intros sg].
  unfold remove_covered. destruct ((fst sg <? off + len) && (off <? snd sg)); [|apply hq_ret].
  apply hq_bind; [apply hq_gets | intros tr1].
  destruct (LostSeg.remove _ tr1) as [[tr' bb]|]; [|apply hq_raise; exact Hid].
  unfold setp. apply hq_modify. intros s [H1 H2]. split; [exact H1 | exact H2].
Qed.
End SS_RecvT.

Module SS_RecvB.
(* RecvB.v — receiver invariant: primitive steps, File Data, EOF, Metadata *)
Import CFDP.Base CFDP.LostSeg CFDP.LostSegSpec CFDP.Fs CFDP.Crc CFDP.Checksum CFDP.Handler CFDP.Dest CFDP.HandlerSpec.
Import CFDP.gen.Tables.
Import CFDP.proofs.FsProofs CFDP.proofs.LostSegProofs CFDP.proofs.ChecksumProofs CFDP.proofs.GuardProofs CFDP.proofs.DeliveryProofs CFDP.proofs.NakProofs CFDP.proofs.TrackInvProofs CFDP.proofs.DestFsProofs CFDP.proofs.SuccessInvProofs.
Import SS_Defs SS_Aux SS_RecvA SS_RecvT.
Import RecordUpdate.RecordSet.
Import RecordSetNotations.
Open Scope monad_scope.

Local Opaque calculate_checksum.
Local Arguments Z.add : simpl never. Local Arguments Z.sub : simpl never. Local Arguments Z.mul : simpl never.
Local Arguments Z.ltb : simpl never. Local Arguments Z.leb : simpl never. Local Arguments Z.eqb : simpl never.
Local Arguments Z.max : simpl never. Local Arguments Z.min : simpl never. Local Arguments Z.of_nat : simpl never.

Section Recv.
Context {Pm : Prm}.
Local Notation data := g_data.
Local Notation ty := g_ty.
Local Notation H := g_H.
Local Notation sn := g_sn.
Local Notation dn := g_dn.
Local Notation CK := g_CK.
Local Notation Hty := g_Hty.
Local Notation HCK := g_HCK.

Lemma fresh_RI : forall s, RI s -> RI (s <| d_p := fresh_params |> <| d_state := ST_IDLE |> <| d_step := DS_IDLE |>).
Proof.
  intros s HR. ddst s. dRI HR. nrm_all. constructor; nrm; try ri_easy.
Qed.

Lemma hq_add_packet : forall (E : dst -> Prop) b m e f t x p, nak_ok p -> hq E (PP b m e f t x) (add_packet p).
Proof.
  intros E b m e0 f t x p Hp. unfold add_packet. apply hq_modify. leaf_pp.
  apply Forall_app. split; [assumption | constructor; [exact Hp | constructor]].
Qed.

Lemma hq_set_step_done : forall (E : dst -> Prop) b m e f t x v, done_step v -> hq E (PP b m e f t x) (set_step v).
Proof. intros E b m e0 f t x v Hv. unfold set_step. apply hq_modify. leaf_pp. Qed.

Lemma hq_declare_fault : forall b m e f t x c, hb (PP b m e f t x) (declare_fault c).
Proof.
  intros b m e0 f t x c s HP. unfold declare_fault. mr.
  destruct (p_tid (d_p s)) as [[src seq]|] eqn:Et; [|unfold raise; apply (PP_RI _ _ _ _ _ _ _ HP)].
  destruct (get_fault_handler (l_faults (d_cfg s)) c) as [fh|]; [|unfold raise; apply (PP_RI _ _ _ _ _ _ _ HP)].
  destruct (fh =? FH_CANCEL) eqn:E1.
  - apply Z.eqb_eq in E1. subst fh. change (FH_CANCEL =? FH_ABANDON) with false. unfold notice_of_cancellation. mr.
    unfold ret. clear Et. fin_pp s HP.
  - destruct (fh =? FH_ABANDON) eqn:E2.
    + unfold reset_internal. mr. unfold raise. clear Et. fin_pp s HP.
    + mr. unfold ret. clear Et. fin_pp s HP.
Qed.
#[local] Hint Resolve hq_declare_fault : hqw.

Lemma hq_prepare_eof_ack_packet : forall (E : dst -> Prop) b m e f t x, hq E (PP b m e f t x) prepare_eof_ack_packet.
Proof.
  intros. unfold prepare_eof_ack_packet, conf. apply hq_bind; [apply hq_gets | intro]. apply hq_bind; [apply hq_gets | intro].
  apply hq_add_packet. exact I.
Qed.
#[local] Hint Resolve hq_prepare_eof_ack_packet : hqw.

Lemma hq_file_transfer_complete_transition : forall b m f t, hb (PP b m true f t true) file_transfer_complete_transition.
Proof. intros. hw. Qed.
#[local] Hint Resolve hq_file_transfer_complete_transition : hqw.

(* ------------------------------------------------------------------ File Data *)
(* what the bookkeeping of a File Data PDU [off, off+len) did to the tracker *)
Definition LR (off len : Z) (s s1 : dst) : Prop :=
  lview s1 = lview s /\ Forall nak_ok (d_queue s1) /\ Inv (p_tracker (d_p s1)) /\ 0 <= p_last_end (d_p s1) /\
  (forall x, den (p_tracker (d_p s1)) x -> den (p_tracker (d_p s)) x \/ p_last_end (d_p s) <= x < off) /\
  (forall x, den (p_tracker (d_p s)) x -> ~ (off <= x < off + len) -> den (p_tracker (d_p s1)) x) /\
  (forall x, den (p_tracker (d_p s1)) x -> x < p_last_end (d_p s1)) /\
  (MODE = UNACKED -> p_tracker (d_p s1) = []).

Lemma fd_after : forall s s1 off bs old,
  RI s -> d_state s = ST_BUSY -> recv_step (d_step s) -> LR off (zlen bs) s s1 ->
  e_fs (d_env s) = [(dn, File old)] -> 0 <= off -> 0 < zlen bs -> off + zlen bs <= nn ->
  RI (s1 <| d_env ::= (fun en => en <| e_fs := [(dn, File (write_at old off bs))] |>) |>
         <| d_p ::= (fun p => p <| p_fin ::= (fun f => f <| f_fstatus := FS_RETAINED |>) |>) |>
         <| d_p ::= (fun p => p <| p_progress ::= Z.max (off + zlen bs) |>) |>).
Proof.
  intros s s1 off bs old HR HB Hst (Hlv & Hq & HI & Hle0 & Hup & Hkeep & Hbelow & Hun) Hfs Ho Hl Hn.
  assert (Hne : bs <> []) by (intro X; subst bs; unfold zlen in Hl; cbn [length] in Hl; lia).
  pose proof (write_length old bs off Ho Hne) as Hw.
  ddst s. ddst2 s1. unfold lview in Hlv. nrm_all. injection Hlv; clear Hlv; intros; subst.
  dRI HR. nrm_all.
  assert (Hold : zlen old <= nn).
  { destruct ri_fs as [X|(d0 & X & Hd0)]; [discriminate X | injection X as <-; exact Hd0]. }
  constructor; nrm; try ri_cheap.
  - right. eexists. split; [reflexivity|]. lia.
  - intros _. left. eexists. reflexivity.
  - intros En d Hd. rewrite file_content_single in Hd. injection Hd as <-.
    specialize (ri_len En old (file_content_single old)). lia.
  - intros Hk d Hd. rewrite file_content_single in Hd. injection Hd as <-.
    destruct (ri_KL Hk old (file_content_single old)). lia.
  - intros x Hd. destruct (Hup x Hd) as [Hd'|Hd']; [apply rt_nn, Hd' | lia].
  - intros _. exact Hbelow.
  - intros Hs x Hd. destruct (Hup x Hd) as [Hd'|Hd']; [specialize (rt_pr Hs x Hd') | ]; lia.
  - intros Hm. rewrite (ri_S1 Hst) in Hm. discriminate Hm.
  - intros Hf En d Hd x Hx. rewrite file_content_single in Hd. injection Hd as <-.
    apply Hkeep; [|lia]. apply (rt_cov Hf En old (file_content_single old)). lia.
Qed.

Definition fd_rest (off : Z) (bs : bytes) : D unit :=
  name <- gp p_file_name ;;
  vfs_write name bs off ;;;
  setp (fun p => p <| p_fin ::= (fun f => f <| f_fstatus := FS_RETAINED |>) |>) ;;;
  eof <- gp p_file_size_eof ;;
  stop <-
    (match eof with
     | Some sz =>
         if sz <? off + zlen bs then
           (fh <- declare_fault C_FILE_SIZE_ERROR ;; ret (negb (fh =? FH_IGNORE)))
         else ret false
     | None => ret false
     end) ;;
  if stop then ret tt
  else setp (fun p => p <| p_progress ::= Z.max (off + zlen bs) |>).

Lemma fd_rest_run : forall s s1 off bs old,
  RI s -> lview s1 = lview s -> p_file_name (d_p s) = dn -> e_fs (d_env s) = [(dn, File old)] ->
  off + zlen bs <= nn ->
  fd_rest off bs s1 =
  (s1 <| d_env ::= (fun en => en <| e_fs := [(dn, File (write_at old off bs))] |>) |>
      <| d_p ::= (fun p => p <| p_fin ::= (fun f => f <| f_fstatus := FS_RETAINED |>) |>) |>
      <| d_p ::= (fun p => p <| p_progress ::= Z.max (off + zlen bs) |>) |>, Ok tt).
Proof.
  intros s s1 off bs old HR Hlv En Hfs Hn. unfold fd_rest.
  unfold lview in Hlv. injection Hlv; intros.
  assert (E1 : p_file_name (d_p s1) = dn) by congruence.
  assert (E2 : d_env s1 = d_env s) by assumption.
  assert (E3 : p_file_size_eof (d_p s1) = p_file_size_eof (d_p s)) by assumption.
  rewrite b_gp, E1. unfold bind at 1. rewrite vfs_write_run, E2, (ri_rw _ HR), Hfs.
  unfold fs_write_data. rewrite lookup_dn_single. unfold set_node. cbn [remove_path]. rewrite path_eqb_refl.
  mr.
  change (p_file_size_eof (d_p (s1 <| d_env ::= (fun e => e <| e_fs := [(dn, File (write_at old off bs))] |>) |>
       <| d_p ::= (fun p => p <| p_fin ::= (fun f => f <| f_fstatus := FS_RETAINED |>) |>) |>)))
    with (p_file_size_eof (d_p s1)).
  rewrite E3. destruct (ri_eofcrc _ HR) as [[Ee _]|[Ee _]]; rewrite Ee.
  - mr. reflexivity.
  - assert (X : (nn <? off + zlen bs) = false) by (apply Z.ltb_ge; lia). rewrite X. mr. reflexivity.
Qed.

Lemma handle_fd_pdu_split : forall off bs s,
  handle_fd_pdu off bs s =
  (c <- gets d_cfg ;;
   when (l_ind_seg c)
     (t <- gp p_tid ;;
      let '(src, seq) := match t with Some x => x | None => (-1, -1) end in
      emit (EvSegmentRecv src seq off (zlen bs))) ;;;
   catch
     (acked <- mode_is ACKED ;;
      when acked (lost_segment_handling off (zlen bs)) ;;;
      fd_rest off bs)
     (fun e => if (e =? E_FILE_NOT_FOUND) || (e =? E_PERMISSION) then Some filestore_rejection else None)) s.
Proof. reflexivity. Qed.

Lemma recv_not_done : forall st, recv_step st -> ~ done_step st.
Proof. intros st Hr Hd. dsteps. lia. Qed.

Lemma fd_catch_ok : forall s off bs,
  RI s -> d_state s = ST_BUSY -> recv_step (d_step s) -> 0 <= off -> 0 < zlen bs -> off + zlen bs <= nn ->
  exists s', catch
     (acked <- mode_is ACKED ;;
      when acked (lost_segment_handling off (zlen bs)) ;;;
      fd_rest off bs)
     (fun e => if (e =? E_FILE_NOT_FOUND) || (e =? E_PERMISSION) then Some filestore_rejection else None) s = (s', Ok tt) /\
   RI s' /\ d_state s' = ST_BUSY /\ d_step s' = d_step s.
Proof.
  intros s off bs HR HB Hst Ho Hl Hn.
  pose proof (ri_S1 _ HR Hst) as Hm. destruct (ri_V _ HR HB Hm) as [En _].
  destruct (ri_FE _ HR En) as [[old Hfs]|Hd]; [|contradiction (recv_not_done _ Hst Hd)].
  destruct (ri_busy _ HR HB) as (Hrc & _ & Hmode).
  unfold catch. rewrite mode_is_run.
  assert (Xi : (d_state s =? ST_IDLE) = false) by (rewrite HB; reflexivity). rewrite Xi, Hmode.
  assert (Hfin : forall s1, LR off (zlen bs) s s1 ->
     exists s', fd_rest off bs s1 = (s', Ok tt) /\ RI s' /\ d_state s' = ST_BUSY /\ d_step s' = d_step s).
  { intros s1 HL. pose proof HL as (Hlv & _). rewrite (fd_rest_run s s1 off bs old HR Hlv En Hfs Hn).
    eexists. split; [reflexivity|]. split; [apply (fd_after s s1 off bs old); assumption|].
    unfold lview in Hlv. injection Hlv; intros. split; cbn; congruence. }
  destruct mode_cases as [Em|Em]; rewrite Em.
  - change (ACKED =? ACKED) with true. rewrite when_true.
    assert (Hb : forall x, den (p_tracker (d_p s)) x -> x < p_last_end (d_p s)).
    { apply (rt_le _ HR). destruct Hst as [X|[X|X]]; [left; exact X | | right; left; exact X].
      exfalso. pose proof (ri_S4 _ HR X) as Y. rewrite Em in Y. discriminate Y. }
    destruct (lsh_tracker s off (zlen bs) Hl (rt_inv _ HR) Hrc Hb) as (s1 & E1 & HI1 & Hup & Hkeep & Hbel & Hle & Hle2).
    pose proof (minv_state _ _ _ s (lsh_frame off (zlen bs))) as Hlv. rewrite E1 in Hlv. cbn [fst] in Hlv.
    pose proof (lsh_queue off (zlen bs) Ho (Z.lt_le_incl _ _ Hl) s (conj (ri_le _ HR) (ri_q _ HR))) as Hq. rewrite E1 in Hq.
    destruct Hq as [Hq1 Hq2].
    destruct (Hfin s1) as (s' & E' & H').
    { split; [exact Hlv | split; [exact Hq2 | split; [exact HI1 | split; [exact Hq1 |]]]].
      split; [exact Hup | split; [exact Hkeep | split; [exact Hbel|]]]. intro X. rewrite Em in X. discriminate X. }
    exists s'. unfold bind at 1. rewrite E1. rewrite E'. split; [reflexivity | exact H'].
  - change (UNACKED =? ACKED) with false. rewrite when_false, b_ret.
    destruct (Hfin s) as (s' & E' & H').
    { split; [reflexivity | split; [apply (ri_q _ HR) | split; [apply (rt_inv _ HR) | split; [apply (ri_le _ HR)|]]]].
      split; [intros x Hd; left; exact Hd | split; [intros x Hd _; exact Hd | split; [|intros _; apply (rt_un _ HR Em)]]].
      rewrite (rt_un _ HR Em). intros x Hd. contradiction (den_nil _ Hd). }
    exists s'. rewrite E'. split; [reflexivity | exact H'].
Qed.

Lemma handle_fd_pdu_ok : forall s off bs,
  RI s -> d_state s = ST_BUSY -> recv_step (d_step s) -> 0 <= off -> 0 < zlen bs -> off + zlen bs <= nn ->
  exists s', handle_fd_pdu off bs s = (s', Ok tt) /\ RI s' /\ d_state s' = ST_BUSY /\ d_step s' = d_step s.
Proof.
  intros s off bs HR HB Hst Ho Hl Hn. rewrite handle_fd_pdu_split. rewrite b_gets.
  destruct (l_ind_seg (d_cfg s)); [rewrite when_true | rewrite when_false].
  - mr. destruct (match p_tid (d_p s) with Some x => x | None => (-1, -1) end) as [a c]. rewrite b_emit.
    set (s0 := s <| d_env ::= (fun en => en <| e_log ::= cons (EvSegmentRecv a c off (zlen bs)) |>) |>).
    destruct (fd_catch_ok s0 off bs) as (s' & E' & H1 & H2 & H3); try assumption.
    { apply (rview_RI s); [reflexivity | exact HR]. }
    exists s'. split; [exact E' | split; [exact H1 | split; [exact H2 | exact H3]]].
  - rewrite b_ret. apply fd_catch_ok; assumption.
Qed.

(* ------------------------------------------------------------------ verification *)

Lemma checksum_verify_ok : forall s, BV s ->
  match checksum_verify s with
  | (s', Ok b) => PP true true true true true true s'
  | (s', Err _) => RI s'
  end.
Proof.
  intros s HP. pose proof HP as (HR & HB & HM & HE & HF & HT & HX).
  specialize (HB eq_refl). specialize (HM eq_refl). specialize (HE eq_refl). specialize (HF eq_refl).
  specialize (HT eq_refl). specialize (HX eq_refl).
  destruct (ri_V _ HR HB HM) as [En Ety]. destruct (HX En) as [d Hfs].
  unfold checksum_verify. mr. rewrite Ety, (ri_mdo _ HR).
  assert (Xn : (ty =? CK_NULL) = false) by (destruct Hty as [-> | ->]; reflexivity). rewrite Xn. cbn [orb].
  unfold vfs_checksum. mr. rewrite Xn, En, Hfs, lookup_dn_single.
  destruct (calculate_checksum ty (Some d) (p_progress (d_p s)) 4096) as [r|[]]; try (unfold raise; exact HR).
  mr. rewrite HE.
  destruct (bytes_eqb r (p_crc32 (d_p s)) && (nn <=? p_progress (d_p s))) eqn:Eb.
  - apply andb_prop in Eb. destruct Eb as [_ Eb]. apply Z.leb_le in Eb.
    assert (Hcov : p_progress (d_p s) <= zlen d).
    { destruct (Z_le_dec (p_progress (d_p s)) (zlen d)) as [?|Hgt]; [assumption|]. exfalso.
      pose proof (rt_cov _ HR HF En d) as C. rewrite Hfs, file_content_single in C.
      specialize (C eq_refl (zlen d)). rewrite HT in C. apply (den_nil (zlen d)). apply C. lia. }
    mr. unfold ret. clear Xn. fin_pp s HP.
    intros _ d0 Hd0. rewrite Hfs, file_content_single in Hd0. injection Hd0 as <-. split; assumption.
  - pose proof (hq_declare_fault _ _ _ _ _ _ C_CHECKSUM_FAILURE s HP) as Df.
    mr. unfold bind at 1. destruct (declare_fault C_CHECKSUM_FAILURE s) as [s2 [fh|e]]; [|exact Df].
    mr. unfold ret. exact Df.
Qed.

Lemma hq_checksum_verify : hb BV checksum_verify.
Proof. exact checksum_verify_ok. Qed.
#[local] Hint Resolve hq_checksum_verify : hqw.

Lemma hq_mode_is_dep {C} (E : dst -> Prop) b m e f t x md (k : bool -> D C) :
  hq E (PP true m e f t x) (k (MODE =? md)) -> b = true -> hq E (PP b m e f t x) (bind (mode_is md) k).
Proof.
  intros Hk -> s HP. rewrite mode_is_run.
  pose proof HP as (HR & HB & _). specialize (HB eq_refl). destruct (ri_busy _ HR HB) as (_ & _ & Hmode).
  rewrite HB, Hmode. change (ST_BUSY =? ST_IDLE) with false. cbv iota. apply Hk, HP.
Qed.

Lemma hq_start_check_limit_handling : MODE = UNACKED -> forall b, hb (PP b true true true true true) start_check_limit_handling.
Proof. intros Hu b. hw. Qed.

Lemma hq_handle_no_error_eof_unacked : MODE = UNACKED -> hb BV handle_no_error_eof.
Proof.
  intros Hu. pose proof (hq_start_check_limit_handling Hu) as Hscl. unfold handle_no_error_eof.
  apply (hq_gp_dep _ _ (fun p => 0 <= p_progress p <= nn /\ p_file_size_eof p = Some nn)).
  { intros s (HR & _ & _ & HE & _). split; [apply (ri_prog _ HR) | apply HE; reflexivity]. }
  intros p [Hpr He]. rewrite He. cbn [opt_z].
  apply hq_mode_is_dep; [|reflexivity]. apply hq_mode_is_dep; [|reflexivity]. rewrite Hu.
  change (UNACKED =? ACKED) with false. change (UNACKED =? UNACKED) with true.
  assert (X : (nn <? p_progress p) = false) by (apply Z.ltb_ge; lia). rewrite X, andb_false_r.
  cbv iota. apply hq_bind_ret. cbv iota. hw.
Qed.

(* ------------------------------------------------------------------ EOF *)
Lemma recv_flags : forall s, RI s -> d_state s = ST_BUSY -> recv_step (d_step s) ->
  PP true true false true false true s.
Proof.
  intros s HR HB Hst. pose proof (recv_not_done _ Hst) as Hnd.
  split; [exact HR|]. split; [intros _; exact HB|]. split; [intros _; apply (ri_S1 _ HR Hst)|].
  split; [intro X; discriminate X|]. split.
  - intros _. destruct (f_fl (p_fin (d_p s))) as [fl|] eqn:E; [|reflexivity]. exfalso.
    assert (X : f_fl (p_fin (d_p s)) <> None) by (rewrite E; discriminate).
    destruct (rt_fl _ HR X) as [Y|Y]; [|contradiction]. dsteps. lia.
  - split; [intro X; discriminate X|]. intros _ En. destruct (ri_FE _ HR En) as [Y|Y]; [exact Y | contradiction].
Qed.

Definition eof_ne_rest : D unit :=
  c <- gets d_cfg;;
  when (l_ind_eof_recv c) (t <- tid_or_assert;; emit (EvEofRecv (fst t) (snd t)));;;
  regular <- handle_no_error_eof;; (if regular then file_transfer_complete_transition else ret tt).
Lemma handle_eof_pdu_ne : forall ck sz s,
  handle_eof_pdu C_NO_ERROR ck sz s =
  eof_ne_rest (s <| d_p ::= (fun p => p <| p_crc32 := ck |> <| p_file_size_eof := Some sz |>) |>).
Proof. reflexivity. Qed.

Lemma eof_unacked : MODE = UNACKED -> forall s,
  RI s -> d_state s = ST_BUSY -> d_step s = DS_RECEIVING_FILE_DATA \/ d_step s = DS_RECV_WITH_CHECK_LIMIT ->
  match handle_eof_pdu C_NO_ERROR CK nn s with
  | (s', Ok _) => PP true false false false false false s'
  | (s', Err _) => RI s'
  end.
Proof.
  intros Hu s HR HB Hst. pose proof (hq_handle_no_error_eof_unacked Hu) as Hne.
  assert (Hrs : recv_step (d_step s)) by (destruct Hst as [X|X]; [left | right; left]; exact X).
  pose proof (recv_flags s HR HB Hrs) as HP.
  rewrite handle_eof_pdu_ne.
  match goal with |- context [eof_ne_rest ?st] => set (s1 := st) end.
  assert (H1 : BV s1).
  { subst s1. pose proof (rt_un _ HR Hu) as Ht. clear Hne Hst Hrs HR HB.
    ddst s. nrm_all. subst z_trk. open_pp HP. split_pp; nrm; try ri_easy. }
  clearbody s1. clear HP HR HB Hst Hrs s.
  assert (Hm : hb BV eof_ne_rest) by (unfold eof_ne_rest; hw).
  specialize (Hm s1 H1). destruct (eof_ne_rest s1) as [s' [a|e]]; [|exact Hm].
  destruct Hm as (X1 & X2 & _). split; [exact X1 | split; [exact X2 | repeat split; intro Y; discriminate Y]].
Qed.

Lemma eof_acked : MODE = ACKED -> forall s,
  RI s -> d_state s = ST_BUSY -> d_step s = DS_RECEIVING_FILE_DATA ->
  exists s', handle_eof_pdu C_NO_ERROR CK nn s = (s', Ok tt) /\ RI s' /\ d_state s' = ST_BUSY.
Proof.
  intros Ha s HR HB Hst.
  assert (Hrs : recv_step (d_step s)) by (left; exact Hst).
  pose proof (recv_flags s HR HB Hrs) as HP.
  destruct (ri_busy _ HR HB) as (_ & Htid & Hmode).
  assert (Hpr : forall x, den (p_tracker (d_p s)) x -> x < p_progress (d_p s)) by (apply (rt_pr _ HR); left; exact Hst).
  pose proof (rt_inv _ HR) as HI. pose proof (ri_prog _ HR) as Hp.
  rewrite handle_eof_pdu_ne. unfold eof_ne_rest, handle_no_error_eof, file_transfer_complete_transition.
  ddst s. nrm_all. subst z_st z_step z_tid. rewrite Ha in Hmode.
  assert (Hadd : z_pr < nn -> Inv (add (z_pr, nn) z_trk) /\
                 (forall x, den (add (z_pr, nn) z_trk) x <-> den z_trk x \/ z_pr <= x < nn)).
  { intro Hlt. apply add_spec; [exact HI | exact Hlt |]. intros x Hx Hd. apply Hpr in Hd. lia. }
  assert (X : (nn <? z_pr) = false) by (apply Z.ltb_ge; lia).
  run. destruct (l_ind_eof_recv z_cfg); [rewrite when_true | rewrite when_false]; unfold tid_or_assert; run;
  do 2 (rewrite mode_is_run; run; change (ST_BUSY =? ST_IDLE) with false; cbv iota; rewrite Hmode;
    change (ACKED =? ACKED) with true; change (ACKED =? UNACKED) with false; cbv iota);
  cbn [opt_z]; rewrite X; cbv iota; rewrite andb_true_r;
  (destruct (z_pr <? nn) eqn:Elt; [apply Z.ltb_lt in Elt; destruct (Hadd Elt) as [AI AD] | apply Z.ltb_ge in Elt]);
  unfold tracker_add; run; unfold tmode; run; change (ST_BUSY =? ST_IDLE) with false; cbv iota; run;
  rewrite Hmode; change (ACKED =? ACKED) with true; change (ACKED =? UNACKED) with false; cbv iota;
  unfold prepare_eof_ack_packet, conf, add_packet; run; unfold set_step, modify; nrm;
  (eexists; split; [reflexivity|]; split; [|reflexivity]);
  clear Hadd X; open_pp HP; constructor; nrm; try ri_cheap; try solve [auto];
  try (intros En; left; apply HX, En);
  try (intro Hu; rewrite Ha in Hu; discriminate Hu);
  try (intros x Hd; apply AD in Hd; destruct Hd as [Hd|Hd]; [apply rt_nn, Hd | lia]);
  try (intros _ En d Hd x Hx; apply AD; left; apply (rt_cov eq_refl En d Hd x Hx)).
Qed.

Lemma eof_cancel : forall cond s, (cond =? C_NO_ERROR) = false ->
  RI s -> d_state s = ST_BUSY -> (p_file_name (d_p s) = dn -> exists d, e_fs (d_env s) = [(dn, File d)]) ->
  exists s', handle_eof_pdu cond CK nn s = (s', Ok tt) /\ RI s' /\ d_state s' = ST_BUSY /\
             (d_step s' = DS_SENDING_EOF_ACK \/ d_step s' = DS_TRANSFER_COMPLETION) /\
             p_md_missing (d_p s') = p_md_missing (d_p s) /\ (MODE = ACKED -> d_queue s' <> []).
Proof.
  intros cond s Hc HR HB HX.
  destruct (ri_busy _ HR HB) as (Hrc & Htid & Hmode).
  unfold handle_eof_pdu, file_transfer_complete_transition. rewrite Hc.
  ddst s. nrm_all. subst z_st z_tid. destruct z_rc as [r|]; [|contradiction Hrc; reflexivity]. clear Hrc.
  run. destruct (l_ind_eof_recv z_cfg); [rewrite when_true | rewrite when_false]; unfold tid_or_assert; run;
  cbn [opt_z]; unfold tmode; run; change (ST_BUSY =? ST_IDLE) with false; cbv iota; run; rewrite Hmode;
  (destruct mode_cases as [Em|Em]; rewrite Em;
   [change (ACKED =? UNACKED) with false; change (ACKED =? ACKED) with true; cbv iota;
    unfold prepare_eof_ack_packet, conf, add_packet; run
   |change (UNACKED =? UNACKED) with true; cbv iota]);
  unfold set_step, modify; nrm;
  (eexists; split; [reflexivity|]; split;
    [|split; [reflexivity | split; [first [left; reflexivity | right; reflexivity] | split; [reflexivity|]]]]);
  try (intros _ Xq; apply app_eq_nil in Xq; destruct Xq as [_ Xq]; discriminate Xq);
  try (intro Xa; discriminate Xa);
  dRI HR; nrm_all; constructor; nrm; try ri_cheap; try solve [auto].
Qed.
End Recv.

#[export] Hint Resolve hq_declare_fault hq_prepare_eof_ack_packet hq_file_transfer_complete_transition hq_checksum_verify : hqw.
End SS_RecvB.

Module SS_RecvC.
(* RecvC.v — receiver invariant: Metadata, transaction start, missing metadata *)
Import CFDP.Base CFDP.LostSeg CFDP.LostSegSpec CFDP.Fs CFDP.Crc CFDP.Checksum CFDP.Handler CFDP.Dest CFDP.HandlerSpec.
Import CFDP.gen.Tables.
Import CFDP.proofs.FsProofs CFDP.proofs.LostSegProofs CFDP.proofs.ChecksumProofs CFDP.proofs.GuardProofs CFDP.proofs.DeliveryProofs CFDP.proofs.NakProofs CFDP.proofs.TrackInvProofs CFDP.proofs.DestFsProofs CFDP.proofs.SuccessInvProofs.
Import SS_Defs SS_Aux SS_RecvA SS_RecvT SS_RecvB.
Import RecordUpdate.RecordSet.
Import RecordSetNotations.
Open Scope monad_scope.

Local Opaque calculate_checksum.
Local Arguments Z.add : simpl never. Local Arguments Z.sub : simpl never. Local Arguments Z.mul : simpl never.
Local Arguments Z.ltb : simpl never. Local Arguments Z.leb : simpl never. Local Arguments Z.eqb : simpl never.
Local Arguments Z.max : simpl never. Local Arguments Z.min : simpl never. Local Arguments Z.of_nat : simpl never.

Section Recv.
Context {Pm : Prm}.
Local Notation data := g_data.
Local Notation ty := g_ty.
Local Notation H := g_H.
Local Notation sn := g_sn.
Local Notation dn := g_dn.
Local Notation CK := g_CK.
Local Notation Hty := g_Hty.
Local Notation HCK := g_HCK.

(* ------------------------------------------------------------------ Metadata *)
Lemma fs_isdir_dn : forall fs, fs_ok fs -> fs_is_directory fs dn = false.
Proof.
  intros fs [->|(d & -> & _)]; unfold fs_is_directory, is_dir.
  - destruct dn_single as [x ->]. reflexivity.
  - rewrite lookup_dn_single. reflexivity.
Qed.
Lemma fs_exists_nil : fs_file_exists [] dn = false.
Proof. destruct dn_single as [x ->]. reflexivity. Qed.
Lemma fs_create_nil : fst (fs_create_file [] dn) = [(dn, File [])].
Proof. destruct dn_single as [x ->]. reflexivity. Qed.
Lemma fs_exists_single : forall nd, fs_file_exists [(dn, nd)] dn = true.
Proof. intro nd. unfold fs_file_exists, exists_. rewrite lookup_dn_single. reflexivity. Qed.
Lemma fs_truncate_single : forall d, fs_truncate_file [(dn, File d)] dn = Ok [(dn, File [])].
Proof.
  intro d. unfold fs_truncate_file. rewrite lookup_dn_single. unfold set_node. cbn [remove_path]. rewrite path_eqb_refl. reflexivity.
Qed.

Lemma init_vfs_run : forall base s, fs_ok (e_fs (d_env s)) -> p_file_name (d_p s) = dn ->
  init_vfs_handling base s =
  (s <| d_p ::= (fun p => p <| p_file_name := dn |>) |>
     <| d_env ::= (fun e => e <| e_fs := [(dn, File [])] |>) |>
     <| d_p ::= (fun p => p <| p_fin ::= (fun f => f <| f_fstatus := FS_RETAINED |>) |>) |>, Ok tt).
Proof.
  intros base s Hfs Hn. rewrite init_vfs_handling_eq. unfold catch. rewrite init_body_run. cbv zeta.
  unfold resolved, fs_d. rewrite Hn. rewrite (fs_isdir_dn _ Hfs).
  destruct Hfs as [E|(d & E & _)]; rewrite E.
  - rewrite fs_exists_nil, fs_create_nil. reflexivity.
  - rewrite fs_exists_single, fs_truncate_single. reflexivity.
Qed.

(* the state after a Metadata PDU *)
Definition md_final (cl : bool) (ev : event) (s : dst) : dst :=
  s <| d_p ::= (fun p => p <| p_cktype := ty |> <| p_closure := cl |> <| p_md_missing := false |>) |>
    <| d_p ::= (fun p => p <| p_file_name := dn |>) |>
    <| d_p ::= (fun p => p <| p_file_size := Some nn |>) |>
    <| d_step := DS_RECEIVING_FILE_DATA |>
    <| d_p ::= (fun p => p <| p_file_name := dn |>) |>
    <| d_env ::= (fun e => e <| e_fs := [(dn, File [])] |>) |>
    <| d_p ::= (fun p => p <| p_fin ::= (fun f => f <| f_fstatus := FS_RETAINED |>) |>) |>
    <| d_env ::= (fun en => en <| e_log ::= cons ev |>) |>.

Lemma md_run : forall h cl sn' msgs s,
  p_rcfg (d_p s) <> None -> p_md_only (d_p s) = false -> fs_ok (e_fs (d_env s)) ->
  exists ev, handle_metadata_packet h cl ty nn (Some (sn', dn)) msgs s = (md_final cl ev s, Ok tt).
Proof.
  intros h cl sn' msgs s Hrc Hmdo Hfs. unfold md_final.
  ddst s. nrm_all. subst z_mdo. destruct z_rc as [r|]; [|contradiction Hrc; reflexivity].
  unfold handle_metadata_packet. run. cbn [negb]. run.
  unfold bind at 1. rewrite init_vfs_run; [| exact Hfs | reflexivity].
  run. destruct (match z_tid with Some x => x | None => (-1, -1) end) as [a c]. run. unfold emit, modify. nrm.
  eexists. reflexivity.
Qed.

Lemma md_wfm : forall cl ev s,
  RI s -> d_state s = ST_BUSY -> d_step s = DS_WAITING_FOR_METADATA ->
  RI (md_final cl ev s).
Proof.
  intros cl ev s HR HB Hst.
  pose proof (ri_S2 _ HR Hst) as Hm.
  assert (Hf : f_fl (p_fin (d_p s)) = None).
  { destruct (f_fl (p_fin (d_p s))) eqn:E; [|reflexivity]. exfalso.
    assert (X : f_fl (p_fin (d_p s)) <> None) by (rewrite E; discriminate).
    destruct (rt_fl _ HR X) as [Y|Y]; dsteps; lia. }
  pose proof (rt_W _ HR Hm Hf) as HW.
  assert (Hle : forall x, den (p_tracker (d_p s)) x -> x < p_last_end (d_p s)) by (apply (rt_le _ HR); right; right; exact Hst).
  unfold md_final. ddst s. dRI HR. nrm_all. subst z_st z_step z_mdm z_ffl.
  constructor; nrm; try ri_cheap; try solve [auto].
  - right. exists []. split; [reflexivity | apply nn_nonneg].
  - intros _. left. eexists. reflexivity.
  - intros _ d Hd. rewrite file_content_single in Hd. injection Hd as <-. unfold zlen. cbn [length]. lia.
  - intros _ x Hd. destruct HW as [[-> _]|[-> _]]; [contradiction (den_nil _ Hd)|].
    destruct Hd as (a & b & [E|[]] & Hx). injection E as <- <-. lia.
  - intros _ _ d Hd x Hx. rewrite file_content_single in Hd. injection Hd as <-.
    unfold zlen in Hx. cbn [length] in Hx.
    destruct HW as [[_ ->]|[-> _]]; [lia|]. exists 0, z_pr. split; [left; reflexivity | lia].
Qed.

(* ------------------------------------------------------------------ the first PDU of a transaction *)
Lemma cfpnm_ok : MODE = ACKED -> forall s,
  RI s -> d_state s = ST_IDLE -> get_remote (l_remotes (d_cfg s)) (h_src H) <> None ->
  exists s', common_first_packet_not_metadata H s = (s', Ok tt) /\ RI s' /\ d_state s' = ST_BUSY /\
             d_step s' = DS_WAITING_FOR_METADATA /\ p_file_size_eof (d_p s') = None.
Proof.
  intros Ha s HR Hi Hrem. unfold common_first_packet_not_metadata. mr. unfold bind at 1. rewrite cfph_run.
  ddst s. nrm_all. subst z_st. change (negb (ST_IDLE =? ST_IDLE)) with false. cbv iota. run.
  unfold setp, modify. nrm.
  eexists. split; [reflexivity|]. split; [|split; [reflexivity | split; reflexivity]].
  dRI HR. nrm_all. constructor; nrm; try ri_cheap; try solve [auto].
Qed.

Lemma start_transaction_ok : forall s cl sn' msgs,
  RI s -> d_state s = ST_IDLE -> get_remote (l_remotes (d_cfg s)) (h_src H) <> None ->
  exists s', start_transaction H cl ty nn (Some (sn', dn)) msgs s = (s', Ok tt) /\ RI s' /\ d_state s' = ST_BUSY /\
             d_step s' = DS_RECEIVING_FILE_DATA /\ p_file_size_eof (d_p s') = None.
Proof.
  intros s cl sn' msgs HR Hi Hrem. unfold start_transaction. rewrite b_get.
  assert (X : negb (d_state s =? ST_IDLE) = false) by (rewrite Hi; reflexivity). rewrite X. mr.
  unfold bind at 1. rewrite cfph_run.
  assert (X2 : negb (d_state (s <| d_p ::= (fun _ => fresh_params) |>) =? ST_IDLE) = false) by exact X. rewrite X2.
  match goal with |- context [handle_metadata_packet _ _ _ _ _ _ ?st] => set (s2 := st) end.
  destruct (md_run H cl sn' msgs s2) as [ev E].
  { subst s2. cbn. exact Hrem. } { reflexivity. } { subst s2. cbn. apply (ri_fs _ HR). }
  rewrite E. eexists. split; [reflexivity|]. subst s2. unfold md_final.
  clear E X X2. ddst s. dRI HR. nrm_all. subst z_st.
  split; [|split; [reflexivity | split; reflexivity]].
  constructor; nrm; try ri_cheap; try solve [auto].
  - right. exists []. split; [reflexivity | apply nn_nonneg].
  - intros _. left. eexists. reflexivity.
  - intros _ d Hd. rewrite file_content_single in Hd. injection Hd as <-. unfold zlen. cbn [length]. lia.
  - intros _ _ d Hd x Hx. rewrite file_content_single in Hd. injection Hd as <-. unfold zlen in Hx. cbn [length] in Hx. lia.
Qed.

(* ------------------------------------------------------------------ PDUs of a transaction whose Metadata is missing *)
Lemma den_single : forall a b x, den [(a, b)] x -> a <= x < b.
Proof. intros a b x (a' & b' & [E|[]] & Hx). injection E as <- <-. exact Hx. Qed.
Lemma add_first : forall p tr, tr = [] \/ (exists p0, tr = [(0, p0)]) -> add (0, p) tr = [(0, p)].
Proof. intros p tr [->|[p0 ->]]; reflexivity. Qed.

Lemma wfm_flags : forall s, RI s -> d_step s = DS_WAITING_FOR_METADATA ->
  p_md_missing (d_p s) = true /\ f_fl (p_fin (d_p s)) = None /\ p_file_name (d_p s) = [] /\ MODE = ACKED.
Proof.
  intros s HR Hst. pose proof (ri_S2 _ HR Hst) as Hm. split; [exact Hm|]. split.
  - destruct (f_fl (p_fin (d_p s))) eqn:E; [|reflexivity]. exfalso.
    assert (X : f_fl (p_fin (d_p s)) <> None) by (rewrite E; discriminate).
    destruct (rt_fl _ HR X) as [Y|Y]; dsteps; lia.
  - split; [apply (ri_W _ HR Hm) | apply (ri_S5 _ HR Hm)].
Qed.

Lemma fd_wom_ok : forall s off bs,
  RI s -> d_state s = ST_BUSY -> d_step s = DS_WAITING_FOR_METADATA -> 0 <= off -> 0 < zlen bs -> off + zlen bs <= nn ->
  exists s', handle_fd_without_previous_metadata true off bs s = (s', Ok tt) /\ RI s' /\ d_state s' = ST_BUSY /\
             d_step s' = DS_WAITING_FOR_METADATA /\ p_file_size_eof (d_p s') = p_file_size_eof (d_p s).
Proof.
  intros s off bs HR HB Hst Ho Hl Hn.
  destruct (wfm_flags s HR Hst) as (Hm & Hf & Hname & Ha).
  destruct (ri_busy _ HR HB) as (Hrc & _).
  pose proof (rt_W _ HR Hm Hf) as HW.
  assert (L : (0 <? zlen bs) = true) by (apply Z.ltb_lt; exact Hl).
  unfold handle_fd_without_previous_metadata.
  ddst s. nrm_all. subst z_st z_step z_mdm z_ffl z_fname. destruct z_rc as [r|]; [|contradiction Hrc; reflexivity].
  run. destruct z_fse as [x|]; [unfold ret; eexists; split; [reflexivity|]; split; [exact HR | split; [reflexivity | split; reflexivity]]|].
  run. rewrite L. rewrite when_true. unfold tracker_add. run.
  rewrite (add_first (off + zlen bs) z_trk) by (destruct HW as [[-> _]|[-> _]]; [left; reflexivity | right; eexists; reflexivity]).
  unfold rcfg_or_assert. run.
  destruct (r_imm_nak r); [rewrite when_true | rewrite when_false; unfold ret]; cbn [app]; unfold conf, add_packet; run; unfold ret;
    (eexists; split; [reflexivity|]; split; [|split; [reflexivity | split; reflexivity]]);
    dRI HR; nrm_all; constructor; nrm; try ri_cheap; try solve [auto];
    try (apply Forall_app; split; [assumption | repeat constructor; cbn [fst]; lia]);
    try (constructor; lia);
    try (intro Hu; rewrite Ha in Hu; discriminate Hu);
    try (intros _ _; right; split; [reflexivity | lia]);
    try (intros; match goal with Hd : den [_] _ |- _ => apply den_single in Hd; lia end).
Qed.

Lemma eof_wom_ok : forall cond s,
  RI s -> d_state s = ST_BUSY -> d_step s = DS_WAITING_FOR_METADATA ->
  exists s', handle_eof_without_previous_metadata cond CK nn s = (s', Ok tt) /\ RI s' /\ d_state s' = ST_BUSY /\
             (d_step s' = DS_SENDING_EOF_ACK \/ d_step s' = DS_TRANSFER_COMPLETION) /\ p_md_missing (d_p s') = true /\
             d_queue s' <> [].
Proof.
  intros cond s HR HB Hst.
  destruct (wfm_flags s HR Hst) as (Hm & Hf & Hname & Ha).
  unfold handle_eof_without_previous_metadata. destruct (cond =? C_NO_ERROR) eqn:Ec; cbn [negb].
  2:{ destruct (eof_cancel cond s Ec HR HB) as (s' & E & H1 & H2 & H3 & H4 & H5).
      { intro En. rewrite Hname in En. exfalso. exact (dn_ne (eq_sym En)). }
      exists s'. split; [exact E | split; [exact H1 | split; [exact H2 | split; [exact H3 | split; [rewrite H4; exact Hm | exact (H5 Ha)]]]]]. }
  destruct (ri_busy _ HR HB) as (_ & Htid & _).
  pose proof (rt_W _ HR Hm Hf) as HW. pose proof nn_nonneg as Hnn. pose proof (ri_prog _ HR) as Hp.
  ddst s. nrm_all. subst z_st z_step z_mdm z_ffl z_fname z_tid.
  run.
  destruct (0 <? nn) eqn:En; [apply Z.ltb_lt in En; rewrite when_true | apply Z.ltb_ge in En; rewrite when_false]; run;
  (destruct (l_ind_eof_recv z_cfg); [rewrite when_true | rewrite when_false]; unfold tid_or_assert; run);
  unfold prepare_eof_ack_packet, conf, add_packet; run; unfold set_step, modify; nrm;
  try change (add (0, nn) LostSeg.reset) with [(0, nn)];
  (eexists; split; [reflexivity|]; split; [|split; [reflexivity | split; [left; reflexivity | split; [reflexivity|]]]]);
  try (intros Xq; apply app_eq_nil in Xq; destruct Xq as [_ Xq]; discriminate Xq);
  dRI HR; nrm_all; constructor; nrm; try ri_cheap; try solve [auto];
    try (constructor; lia);
    try (intro Hu; rewrite Ha in Hu; discriminate Hu);
    try (intros _ _; right; split; [reflexivity | lia]);
    try (intros; match goal with Hd : den [_] _ |- _ => apply den_single in Hd; lia end);
    try (intros _ _; left; destruct HW as [[X _]|[_ X]]; [split; [exact X | lia] | lia]).
Qed.
End Recv.
End SS_RecvC.

Module SS_RecvD.
(* RecvD.v — receiver invariant: deferred lost-segment procedure, one busy call up to the completion clause *)
Import CFDP.Base CFDP.LostSeg CFDP.LostSegSpec CFDP.Fs CFDP.Crc CFDP.Checksum CFDP.Handler CFDP.Dest CFDP.HandlerSpec.
Import CFDP.gen.Tables.
Import CFDP.proofs.FsProofs CFDP.proofs.LostSegProofs CFDP.proofs.ChecksumProofs CFDP.proofs.GuardProofs CFDP.proofs.DeliveryProofs CFDP.proofs.NakProofs CFDP.proofs.TrackInvProofs CFDP.proofs.DestFsProofs CFDP.proofs.SuccessInvProofs.
Import SS_Defs SS_Aux SS_RecvA SS_RecvT SS_RecvB SS_RecvC.
Import RecordUpdate.RecordSet.
Import RecordSetNotations.
Open Scope monad_scope.

Local Opaque calculate_checksum.
Local Arguments Z.add : simpl never. Local Arguments Z.sub : simpl never. Local Arguments Z.mul : simpl never.
Local Arguments Z.ltb : simpl never. Local Arguments Z.leb : simpl never. Local Arguments Z.eqb : simpl never.
Local Arguments Z.max : simpl never. Local Arguments Z.min : simpl never. Local Arguments Z.of_nat : simpl never.

Lemma inv_bnd : forall tr, Inv tr -> (forall x, den tr x -> 0 <= x) -> Bnd nonneg tr.
Proof.
  intros tr HI Hd p Hp. destruct p as [a b].
  destruct (sep_from tr a b HI Hp) as [Hab _]. cbn [fst snd].
  assert (Ha : 0 <= a) by (apply Hd; exists a, b; split; [exact Hp | lia]).
  unfold nonneg. lia.
Qed.

Section Recv.
Context {Pm : Prm}.
Local Notation data := g_data.
Local Notation ty := g_ty.
Local Notation H := g_H.
Local Notation sn := g_sn.
Local Notation dn := g_dn.
Local Notation CK := g_CK.

Lemma hq_fold_add : forall (E : dst -> Prop) b m e f t x l, Forall nak_ok l ->
  hq E (PP b m e f t x) (fold_left (fun m p => m ;;; add_packet p) l (ret tt)).
Proof.
  intros E b m e0 f t x l Hl.
  assert (G : forall (m0 : D unit), hq E (PP b m e0 f t x) m0 ->
              hq E (PP b m e0 f t x) (fold_left (fun m p => m ;;; add_packet p) l m0)).
  { induction Hl as [|p l Hp Hl IH]; intros m0 H0; cbn [fold_left]; [exact H0|].
    apply IH. apply hq_bind; [exact H0 | intros _; apply hq_add_packet; exact Hp]. }
  apply G, hq_ret.
Qed.

(* the NAK sequence of the deferred procedure *)
Lemma hq_nak_sequence : forall b m e f t x (r : rcfg) (first : bool) eos,
  hb (PP b m e f t x)
    (h <- conf ;;
     match max_seg_reqs (r_max_packet r) h with
     | None => raise E_VALUE
     | Some maxn =>
       let hh := set_dir TOWARDS_SENDER h in
       tr <- gp p_tracker ;; mdm <- gp p_md_missing ;;
       let '(pre, acc0) :=
         if mdm then (if 1 =? maxn then ([PNak hh 0 eos [(0, 0)]], []) else ([], [(0, 0)]))
         else ([], []) in
       let '(ps, rest) := nak_split hh eos maxn acc0 tr in
       let all := pre ++ ps ++ (match rest with [] => [] | _ => [PNak hh 0 eos rest] end) in
       fold_left (fun m p => m ;;; add_packet p) all (ret tt) ;;;
       when (negb first)
         (n <- now ;; t <- gp p_proc_timer ;;
          setp (fun p => p <| p_nak_counter ::= (fun c => c + 1) |>
                           <| p_proc_timer := (match t with Some (_, tmo) => Some (n, tmo) | None => None end) |>))
     end).
Proof.
  intros b m e0 f t x r first eos. unfold conf. apply hq_bind; [apply hq_gets | intros h].
  destruct (max_seg_reqs (r_max_packet r) h) as [maxn|]; [|apply hq_raise; pe]. cbv zeta.
  apply (hq_gp_dep _ _ (Bnd nonneg)).
  { intros s (HR & _). apply inv_bnd; [apply (rt_inv _ HR) | intros y Hy; apply (rt_nn _ HR) in Hy; lia]. }
  intros tr Htr. apply hq_bind; [apply hq_gets | intros mdm].
  set (pa := if mdm then (if 1 =? maxn then ([PNak (set_dir TOWARDS_SENDER h) 0 eos [(0, 0)]], []) else ([], [(0, 0)])) else ([], [])).
  assert (Hpa : Forall nak_ok (fst pa) /\ Forall (fun rq => 0 <= fst rq) (snd pa)).
  { subst pa. destruct mdm; [destruct (1 =? maxn)|]; cbn; split; repeat constructor; cbn; lia. }
  destruct pa as [pre acc0]. cbn [fst snd] in Hpa. destruct Hpa as [Hpre Hacc].
  destruct (nak_split (set_dir TOWARDS_SENDER h) eos maxn acc0 tr) as [ps rest] eqn:En.
  destruct (nak_split_ok _ _ _ _ _ _ _ En Hacc Htr) as [Hps Hrest].
  apply hq_bind.
  { apply hq_fold_add. apply Forall_app. split; [exact Hpre|]. apply Forall_app. split; [exact Hps|].
    destruct rest; [constructor | constructor; [exact Hrest | constructor]]. }
  intros _. hw.
Qed.

Definition dlsh_rest (r : rcfg) (eos : Z) : D unit :=
  timer <- gp p_proc_timer ;; n <- now ;;
  go <- (match timer with
         | Some t => if negb (timed_out n t) then ret None else ret (Some false)
         | None => setp (fun p => p <| p_proc_timer := Some (n, r_nak_ms r) |>) ;;; ret (Some true)
         end) ;;
  match go with
  | None => ret tt
  | Some first =>
    cnt <- gp p_nak_counter ;;
    stop <- (if negb first && (cnt + 1 =? r_nak_limit r)
             then (fh <- declare_fault C_NAK_LIMIT ;; ret (negb (fh =? FH_IGNORE)))
             else ret false) ;;
    if stop then ret tt
    else
      h <- conf ;;
      match max_seg_reqs (r_max_packet r) h with
      | None => raise E_VALUE
      | Some maxn =>
        let hh := set_dir TOWARDS_SENDER h in
        tr <- gp p_tracker ;; mdm <- gp p_md_missing ;;
        let '(pre, acc0) :=
          if mdm then (if 1 =? maxn then ([PNak hh 0 eos [(0, 0)]], []) else ([], [(0, 0)]))
          else ([], []) in
        let '(ps, rest) := nak_split hh eos maxn acc0 tr in
        let all := pre ++ ps ++ (match rest with [] => [] | _ => [PNak hh 0 eos rest] end) in
        fold_left (fun m p => m ;;; add_packet p) all (ret tt) ;;;
        when (negb first)
          (n <- now ;; t <- gp p_proc_timer ;;
           setp (fun p => p <| p_nak_counter ::= (fun c => c + 1) |>
                            <| p_proc_timer := (match t with Some (_, tmo) => Some (n, tmo) | None => None end) |>))
      end
  end.

Lemma hq_dlsh_rest : forall b m e f t x r eos, hb (PP b m e f t x) (dlsh_rest r eos).
Proof.
  intros b m e0 f t x r eos. unfold dlsh_rest.
  apply hq_bind; [apply hq_gets | intros timer]. apply hq_bind; [hq_frame | intros n].
  apply hq_bind; [hw | intros go]. destruct go as [first|]; [|apply hq_ret].
  apply hq_bind; [apply hq_gets | intros cnt]. apply hq_bind; [hw | intros stop].
  destruct stop; [apply hq_ret|]. apply hq_nak_sequence.
Qed.

Lemma hq_verify_complete : hb BV (checksum_verify ;;; set_step DS_TRANSFER_COMPLETION ;;; setp (fun p => p <| p_deferred := false |>)).
Proof. hw. Qed.

Lemma deferred_ok : forall s,
  RI s -> d_state s = ST_BUSY -> (f_fl (p_fin (d_p s)) = None \/ p_md_missing (d_p s) = true) ->
  (p_file_name (d_p s) = dn -> exists d, e_fs (d_env s) = [(dn, File d)]) ->
  match deferred_lost_segment_handling s with
  | (s', Ok _) => RI s' /\ d_state s' = ST_BUSY
  | (s', Err _) => RI s'
  end.
Proof.
  intros s HR HB Hfm HX. unfold deferred_lost_segment_handling. rewrite b_gp.
  destruct (p_deferred (d_p s)); cbn [negb]; [|split; assumption].
  rewrite b_gp. destruct (p_disp (d_p s) =? DISP_CANCELED); [split; assumption|].
  destruct (ri_busy _ HR HB) as (Hrc & _).
  unfold rcfg_or_assert. rewrite bind_assoc, b_gp. destruct (p_rcfg (d_p s)) as [r|]; [|contradiction Hrc; reflexivity].
  rewrite b_ret, b_gp.
  destruct (ri_eofcrc _ HR) as [[Ee _]|[Ee _]]; rewrite Ee; [unfold raise; exact HR|].
  rewrite !b_gp.
  destruct ((zlen (p_tracker (d_p s)) =? 0) && negb (p_md_missing (d_p s))) eqn:Eb.
  - apply andb_prop in Eb. destruct Eb as [E1 E2]. apply Z.eqb_eq in E1. apply negb_true_iff in E2.
    assert (Ht : p_tracker (d_p s) = []) by (destruct (p_tracker (d_p s)); [reflexivity | unfold zlen in E1; cbn [length] in E1; lia]).
    assert (Hf : f_fl (p_fin (d_p s)) = None) by (destruct Hfm as [X|X]; [exact X | rewrite E2 in X; discriminate X]).
    assert (HP : BV s) by (split; [exact HR | repeat split; intros _; assumption]).
    pose proof (hq_verify_complete s HP) as Hv.
    destruct ((checksum_verify;;; set_step DS_TRANSFER_COMPLETION;;; setp (fun p => p <| p_deferred := false |>)) s) as [s' [a|e]];
      [|exact Hv]. destruct Hv as (X1 & X2 & _). split; [exact X1 | apply X2; reflexivity].
  - change (match dlsh_rest r nn s with (s', Ok _) => RI s' /\ d_state s' = ST_BUSY | (s', Err _) => RI s' end).
    assert (HP : PP true false false false false false s) by (split; [exact HR | split; [intros _; exact HB | repeat split; intro Y; discriminate Y]]).
    pose proof (hq_dlsh_rest _ _ _ _ _ _ r nn s HP) as Hv. destruct (dlsh_rest r nn s) as [s' [a|e]]; [|exact Hv].
    destruct Hv as (X1 & X2 & _). split; [exact X1 | apply X2; reflexivity].
Qed.

Lemma coalesce_small : forall tr, tr = [] \/ (exists p, tr = [(0, p)]) -> coalesce tr = tr.
Proof. intros tr [->|[p ->]]; reflexivity. Qed.

Lemma start_deferred_ok : forall s,
  RI s -> d_state s = ST_BUSY -> d_step s = DS_SENDING_EOF_ACK -> f_fl (p_fin (d_p s)) = None ->
  match start_deferred_lost_segment_handling s with
  | (s', Ok _) => RI s' /\ d_state s' = ST_BUSY
  | (s', Err _) => RI s'
  end.
Proof.
  intros s HR HB Hst Hf. unfold start_deferred_lost_segment_handling. mr.
  assert (He : p_file_size_eof (d_p s) = Some nn) by (apply (ri_S3 _ HR); left; exact Hst).
  change (p_file_size_eof (d_p (s <| d_step := if p_md_missing (d_p s) then DS_WAITING_FOR_METADATA else DS_WAITING_FOR_MISSING_DATA |>)))
    with (p_file_size_eof (d_p s)). rewrite He. cbn [opt_z].
  match goal with |- context [deferred_lost_segment_handling ?st] => set (s2 := st) end.
  assert (HX : p_file_name (d_p s) = dn -> exists d, e_fs (d_env s) = [(dn, File d)]).
  { intro En. destruct (ri_FE _ HR En) as [Y|Y]; [exact Y | exfalso; dsteps; lia]. }
  destruct (coalesce_spec _ (rt_inv _ HR)) as [HG HD]. apply invgap_inv in HG.
  assert (H2 : RI s2).
  { subst s2. pose proof nn_nonneg as Hnn.
    assert (HWc : p_md_missing (d_p s) = true -> coalesce (p_tracker (d_p s)) = p_tracker (d_p s)).
    { intro Hm. apply coalesce_small. destruct (rt_W _ HR Hm Hf) as [[-> _]|[-> _]]; [left | right; eexists]; reflexivity. }
    assert (HUc : MODE = UNACKED -> coalesce (p_tracker (d_p s)) = []) by (intro Hu; rewrite (rt_un _ HR Hu); reflexivity).
    ddst s. dRI HR. nrm_all. subst z_st z_step z_fse z_ffl.
    destruct z_mdm; constructor; nrm; try ri_cheap; try solve [auto];
      try (intros _ _; rewrite (HWc eq_refl); apply rt_W; reflexivity);
      try (intros _ x Hd; apply HD in Hd; apply rt_nn in Hd; lia);
      try (intros x Hd; apply HD in Hd; apply rt_nn in Hd; lia);
      try (intros Hf' En d Hd x Hx; apply HD; apply (rt_cov Hf' En d Hd x Hx)). }
  assert (HB2 : d_state s2 = ST_BUSY) by exact HB.
  apply (deferred_ok s2 H2 HB2); [left; exact Hf | exact HX].
Qed.

Definition okb (x : dst * res Z unit) : Prop :=
  match x with (s', Ok _) => RI s' /\ d_state s' = ST_BUSY | (s', Err _) => RI s' end.

Lemma okb_of_hb : forall m e f t x (k : D unit) s, hb (PP true m e f t x) k -> PP true m e f t x s -> okb (k s).
Proof.
  intros m e0 f t x k s Hk HP. specialize (Hk s HP). unfold okb. destruct (k s) as [s' [a|e]]; [|exact Hk].
  destruct Hk as (X1 & X2 & _). split; [exact X1 | apply X2; reflexivity].
Qed.

Lemma hq_verify_then_complete : hb BV ((when true (checksum_verify ;;; ret tt)) ;;; set_step DS_TRANSFER_COMPLETION).
Proof. rewrite when_true. hw. Qed.

Lemma fsm_advancement_ok : forall s, RI s -> d_state s = ST_BUSY -> okb (fsm_advancement s).
Proof.
  intros s HR HB. unfold fsm_advancement. rewrite b_get.
  destruct (0 <? zlen (d_queue s)); [exact HR|].
  destruct (Z.eqb_spec (d_step s) DS_SENDING_EOF_ACK) as [Hst|Hst]; [|split; assumption].
  assert (He : p_file_size_eof (d_p s) = Some nn) by (apply (ri_S3 _ HR); left; exact Hst).
  assert (HX : p_file_name (d_p s) = dn -> exists d, e_fs (d_env s) = [(dn, File d)]).
  { intro En. destruct (ri_FE _ HR En) as [Y|Y]; [exact Y | exfalso; dsteps; lia]. }
  destruct (Z.eqb_spec (p_disp (d_p s)) DISP_CANCELED) as [Hc|Hc]; cbn [negb andb].
  - rewrite when_false. rewrite b_ret.
    apply (okb_of_hb false false false false false (set_step DS_TRANSFER_COMPLETION) s).
    + apply hq_set_step_done. left. reflexivity.
    + split; [exact HR | split; [intros _; exact HB | repeat split; intro Y; discriminate Y]].
  - assert (Hf : f_fl (p_fin (d_p s)) = None).
    { destruct (f_fl (p_fin (d_p s))) eqn:E; [|reflexivity]. exfalso. apply Hc. apply (rt_fld _ HR). rewrite E. discriminate. }
    destruct ((0 <? zlen (p_tracker (d_p s))) || p_md_missing (d_p s)) eqn:Eb.
    + apply start_deferred_ok; assumption.
    + apply orb_false_elim in Eb. destruct Eb as [E1 E2]. apply Z.ltb_ge in E1.
      assert (Ht : p_tracker (d_p s) = []) by (destruct (p_tracker (d_p s)); [reflexivity | unfold zlen in E1; cbn [length] in E1; lia]).
      apply (okb_of_hb true true true true true _ s hq_verify_then_complete).
      split; [exact HR | repeat split; intros _; assumption].
Qed.

Lemma hq_check_limit_handling : hb BV check_limit_handling.
Proof. hw. Qed.

Lemma check_limit_ok : forall s, RI s -> d_state s = ST_BUSY -> d_step s = DS_RECV_WITH_CHECK_LIMIT -> okb (check_limit_handling s).
Proof.
  intros s HR HB Hst.
  assert (Hrs : recv_step (d_step s)) by (right; left; exact Hst).
  pose proof (recv_flags s HR HB Hrs) as (_ & _ & HM & _ & HF & _ & HX).
  apply (okb_of_hb true true true true true _ s hq_check_limit_handling).
  split; [exact HR|]. split; [intros _; exact HB|]. split; [exact HM|].
  split; [intros _; apply (ri_S3 _ HR); right; exact Hst|]. split; [exact HF|].
  split; [intros _; apply (rt_un _ HR), (ri_S4 _ HR Hst) | exact HX].
Qed.
End Recv.
End SS_RecvD.

Module SS_RecvE.
(* RecvE.v — receiver invariant: the clauses of one busy call before the completion clause *)
Import CFDP.Base CFDP.LostSeg CFDP.LostSegSpec CFDP.Fs CFDP.Crc CFDP.Checksum CFDP.Handler CFDP.Dest CFDP.HandlerSpec.
Import CFDP.gen.Tables.
Import CFDP.proofs.FsProofs CFDP.proofs.LostSegProofs CFDP.proofs.ChecksumProofs CFDP.proofs.GuardProofs CFDP.proofs.DeliveryProofs CFDP.proofs.NakProofs CFDP.proofs.TrackInvProofs CFDP.proofs.DestFsProofs CFDP.proofs.SuccessInvProofs.
Import SS_Defs SS_Aux SS_RecvA SS_RecvT SS_RecvB SS_RecvC SS_RecvD.
Import RecordUpdate.RecordSet.
Import RecordSetNotations.
Open Scope monad_scope.

Local Opaque calculate_checksum.
Local Arguments Z.add : simpl never. Local Arguments Z.sub : simpl never. Local Arguments Z.mul : simpl never.
Local Arguments Z.ltb : simpl never. Local Arguments Z.leb : simpl never. Local Arguments Z.eqb : simpl never.
Local Arguments Z.max : simpl never. Local Arguments Z.min : simpl never. Local Arguments Z.of_nat : simpl never.

Section Recv.
Context {Pm : Prm}.
Local Notation data := g_data.
Local Notation ty := g_ty.
Local Notation H := g_H.
Local Notation sn := g_sn.
Local Notation dn := g_dn.
Local Notation CK := g_CK.
Local Notation HCK := g_HCK.

(* genuine inbound PDUs *)
Definition gen_r (p : pdu) : Prop := gen data ty H sn dn p.
Definition pkt_ok (pkt : option pdu) : Prop := match pkt with Some p => gen_r p | None => True end.

Lemma gen_eof_ck : forall ck, calculate_checksum ty (Some data) (zlen data) 4096 = Ok ck -> ck = CK.
Proof. intros ck E. pose proof HCK as E2. rewrite E in E2. injection E2 as ->. reflexivity. Qed.

Lemma reset_nak_rview : forall s, rview (fst (reset_nak_activity_parameters s)) = rview s.
Proof. intro s. apply (minv_state rview Any). minv. Qed.

Lemma okb_RI : forall x, okb x -> RI (fst x).
Proof. intros [s' [a|e]] Hx; cbn [fst]; [apply Hx | exact Hx]. Qed.

(* "active <- gp p_deferred ;; when active reset_nak_activity_parameters" leaves the view alone *)
Lemma active_reset_rview : forall s,
  rview (fst ((active <- gp p_deferred ;; when active reset_nak_activity_parameters) s)) = rview s.
Proof.
  intro s. rewrite b_gp. destruct (p_deferred (d_p s)); [rewrite when_true; apply reset_nak_rview | reflexivity].
Qed.

Lemma to_wfmd : forall s, RI s -> d_step s = DS_RECEIVING_FILE_DATA -> f_fl (p_fin (d_p s)) = None ->
  (p_file_name (d_p s) = dn -> exists d, e_fs (d_env s) = [(dn, File d)]) ->
  RI (s <| d_step := DS_WAITING_FOR_MISSING_DATA |>).
Proof.
  intros s HR Hst Hf HX. ddst s. dRI HR. nrm_all. subst z_step z_ffl.
  constructor; nrm; try ri_cheap; try solve [auto].
  intros _. apply ri_S1. left. reflexivity.
Qed.

Lemma wfm_clause_ok : forall pkt s, pkt_ok pkt ->
  RI s -> d_state s = ST_BUSY -> d_step s = DS_WAITING_FOR_METADATA ->
  okb ((handle_waiting_for_missing_metadata pkt ;;; deferred_lost_segment_handling) s).
Proof.
  intros pkt s Hpk HR HB Hst.
  destruct (wfm_flags s HR Hst) as (Hm & Hf & Hname & Ha).
  assert (HX0 : p_file_name (d_p s) = dn -> exists d, e_fs (d_env s) = [(dn, File d)]).
  { intro En. rewrite Hname in En. exfalso. exact (dn_ne (eq_sym En)). }
  assert (Hnone : okb ((ret tt ;;; deferred_lost_segment_handling) s)).
  { rewrite b_ret. apply deferred_ok; [exact HR | exact HB | left; exact Hf | exact HX0]. }
  unfold handle_waiting_for_missing_metadata.
  destruct pkt as [[h off bs | h cl ck fsz names msgs | h cond ck fsz fl | | | | | ]|]; try exact Hnone.
  - (* File Data *)
    destruct Hpk as (_ & Ho & Hl & Hn & _).
    destruct (fd_wom_ok s off bs HR HB Hst Ho Hl Hn) as (s' & E & H1 & H2 & H3 & _).
    unfold bind. rewrite E.
    destruct (wfm_flags s' H1 H3) as (_ & Hf' & Hname' & _).
    apply deferred_ok; [exact H1 | exact H2 | left; exact Hf' |].
    intro En. rewrite Hname' in En. exfalso. exact (dn_ne (eq_sym En)).
  - (* Metadata *)
    destruct Hpk as (_ & -> & -> & ->). change (zlen data) with nn.
    destruct (ri_busy _ HR HB) as (Hrc & _).
    destruct (md_run h cl sn msgs s Hrc (ri_mdo _ HR) (ri_fs _ HR)) as [ev E].
    pose proof (md_wfm cl ev s HR HB Hst) as H1.
    rewrite bind_assoc. unfold bind at 1. rewrite E.
    set (s1 := md_final cl ev s) in *.
    assert (Hs1 : d_state s1 = ST_BUSY /\ d_step s1 = DS_RECEIVING_FILE_DATA /\ f_fl (p_fin (d_p s1)) = None /\
                  e_fs (d_env s1) = [(dn, File [])] /\ p_deferred (d_p s1) = p_deferred (d_p s)).
    { subst s1. unfold md_final. cbn. repeat split; assumption. }
    destruct Hs1 as (HB1 & Hst1 & Hf1 & Hfs1 & Hd1).
    rewrite bind_assoc, b_gp. destruct (p_deferred (d_p s1)) eqn:Ed.
    + rewrite when_true, !bind_assoc. unfold bind at 1.
      pose proof (reset_nak_rview s1) as Hrv.
      destruct (reset_nak_activity_parameters s1) as [s2 [[]|e]] eqn:E2; cbn [fst] in Hrv.
      * assert (H2 : RI s2) by (apply (rview_RI s1); assumption).
        unfold rview in Hrv. injection Hrv; intros.
        unfold get_step. rewrite bind_assoc, b_gets.
        assert (Hst2 : d_step s2 = DS_RECEIVING_FILE_DATA) by congruence. rewrite Hst2.
        change (DS_RECEIVING_FILE_DATA =? DS_RECEIVING_FILE_DATA) with true. rewrite when_true, b_set_step.
        apply deferred_ok.
        -- apply to_wfmd; [exact H2 | exact Hst2 | congruence |]. intros _. exists []. congruence.
        -- cbn. congruence.
        -- left. cbn. congruence.
        -- intros _. exists []. cbn. congruence.
      * apply (rview_RI s1); assumption.
    + rewrite when_false, b_ret.
      apply deferred_ok; [exact H1 | exact HB1 | left; exact Hf1 | intros _; exists []; exact Hfs1].
  - (* EOF *)
    destruct Hpk as (_ & -> & Hck). apply gen_eof_ck in Hck. subst ck. change (zlen data) with nn.
    destruct (eof_wom_ok cond s HR HB Hst) as (s' & E & H1 & H2 & H3 & H4 & _).
    rewrite bind_assoc. unfold bind at 1. rewrite E.
    pose proof (active_reset_rview s') as Hrv.
    unfold bind at 1.
    destruct ((active <- gp p_deferred;; when active reset_nak_activity_parameters) s') as [s2 [[]|e]]; cbn [fst] in Hrv.
    + assert (H2' : RI s2) by (apply (rview_RI s'); assumption).
      unfold rview in Hrv. injection Hrv; intros.
      apply deferred_ok; [exact H2' | congruence | right; congruence |].
      intro En. exfalso. assert (X : p_file_name (d_p s2) = []) by (apply (ri_W _ H2'); congruence).
      rewrite X in En. exact (dn_ne (eq_sym En)).
    + apply (rview_RI s'); assumption.
Qed.

Lemma okb_bind : forall (m k : D unit) s,
  okb (m s) -> (forall s', RI s' -> d_state s' = ST_BUSY -> okb (k s')) -> okb ((m ;;; k) s).
Proof.
  intros m k s Hm Hk. unfold bind. destruct (m s) as [s1 [[]|e]]; [|exact Hm]. destruct Hm as [H1 H2]. apply Hk; assumption.
Qed.
Lemma okb_ret : forall s, RI s -> d_state s = ST_BUSY -> okb (ret tt s).
Proof. intros s H1 H2. split; assumption. Qed.

Lemma recv_clause_ok : forall pkt s, pkt_ok pkt ->
  RI s -> d_state s = ST_BUSY -> d_step s = DS_RECEIVING_FILE_DATA \/ d_step s = DS_RECV_WITH_CHECK_LIMIT ->
  okb (match pkt with
       | Some (PFileData _ off bs) => handle_fd_pdu off bs
       | Some (PEof _ cond ck sz _) => handle_eof_pdu cond ck sz
       | _ => ret tt
       end s).
Proof.
  intros pkt s Hpk HR HB Hst.
  assert (Hrs : recv_step (d_step s)) by (destruct Hst as [X|X]; [left | right; left]; exact X).
  destruct pkt as [[h off bs | h cl ck fsz names msgs | h cond ck fsz fl | | | | | ]|]; try (apply okb_ret; assumption).
  - destruct Hpk as (_ & Ho & Hl & Hn & _).
    destruct (handle_fd_pdu_ok s off bs HR HB Hrs Ho Hl Hn) as (s' & E & H1 & H2 & _). rewrite E. split; assumption.
  - destruct Hpk as (_ & -> & Hck). apply gen_eof_ck in Hck. subst ck. change (zlen data) with nn.
    destruct (cond =? C_NO_ERROR) eqn:Ec.
    + apply Z.eqb_eq in Ec. subst cond. destruct mode_cases as [Em|Em].
      * destruct Hst as [Hst|Hst]; [|exfalso; pose proof (ri_S4 _ HR Hst) as Y; rewrite Em in Y; discriminate Y].
        destruct (eof_acked Em s HR HB Hst) as (s' & E & H1 & H2). rewrite E. split; assumption.
      * pose proof (eof_unacked Em s HR HB Hst) as Hu. unfold okb.
        destruct (handle_eof_pdu C_NO_ERROR CK nn s) as [s' [a|e]]; [|exact Hu].
        destruct Hu as (X1 & X2 & _). split; [exact X1 | apply X2; reflexivity].
    + pose proof (recv_flags s HR HB Hrs) as (_ & _ & _ & _ & _ & _ & HX).
      destruct (eof_cancel cond s Ec HR HB (HX eq_refl)) as (s' & E & H1 & H2 & _). rewrite E. split; assumption.
Qed.

(* the cancel branch of handle_eof_pdu leaves the flag of the deferred procedure alone *)
Lemma eof_cancel_deferred : forall cond ck sz s, (cond =? C_NO_ERROR) = false ->
  p_deferred (d_p (fst (handle_eof_pdu cond ck sz s))) = p_deferred (d_p s).
Proof.
  intros cond ck sz s Hc. apply (minv_state (fun s => p_deferred (d_p s)) Any).
  unfold handle_eof_pdu. rewrite Hc. minv.
Qed.

Lemma wfmd_clause_ok : forall pkt s, pkt_ok pkt ->
  RI s -> d_state s = ST_BUSY -> d_step s = DS_WAITING_FOR_MISSING_DATA ->
  okb (((match pkt with
         | Some (PEof _ cond ck sz _) =>
             if cond =? C_NO_ERROR then prepare_eof_ack_packet
             else (setp (fun p => p <| p_deferred := false |>) ;;; handle_eof_pdu cond ck sz)
         | _ => ret tt
         end) ;;;
       (match pkt with
        | Some (PFileData _ off bs) =>
            handle_fd_pdu off bs ;;;
            active <- gp p_deferred ;;
            when active reset_nak_activity_parameters
        | _ => ret tt
        end) ;;;
       deferred_lost_segment_handling) s).
Proof.
  intros pkt s Hpk HR HB Hst.
  assert (Hrs : recv_step (d_step s)) by (right; right; exact Hst).
  pose proof (recv_flags s HR HB Hrs) as HP.
  assert (Hdef : forall s', RI s' -> d_state s' = ST_BUSY -> d_step s' = DS_WAITING_FOR_MISSING_DATA ->
                 okb (deferred_lost_segment_handling s')).
  { intros s' H1 H2 H3. assert (Hrs' : recv_step (d_step s')) by (right; right; exact H3).
    pose proof (recv_flags s' H1 H2 Hrs') as (_ & _ & _ & _ & HF & _ & HX).
    apply deferred_ok; [exact H1 | exact H2 | left; apply HF; reflexivity | apply HX; reflexivity]. }
  destruct pkt as [[h off bs | h cl ck fsz names msgs | h cond ck fsz fl | | | | | ]|];
    try (rewrite !b_ret; apply Hdef; assumption).
  - rewrite b_ret. destruct Hpk as (_ & Ho & Hl & Hn & _).
    destruct (handle_fd_pdu_ok s off bs HR HB Hrs Ho Hl Hn) as (s' & E & H1 & H2 & H3).
    rewrite !bind_assoc. unfold bind at 1. rewrite E.
    pose proof (active_reset_rview s') as Hrv. unfold bind at 1.
    destruct ((active <- gp p_deferred;; when active reset_nak_activity_parameters) s') as [s2 [[]|e]]; cbn [fst] in Hrv.
    + assert (H2' : RI s2) by (apply (rview_RI s'); assumption).
      unfold rview in Hrv. injection Hrv; intros. apply Hdef; [exact H2' | congruence | congruence].
    + apply (rview_RI s'); assumption.
  - destruct (cond =? C_NO_ERROR) eqn:Ec.
    + pose proof (hq_prepare_eof_ack_packet RI _ _ _ _ _ _ s HP) as Ha. unfold bind at 1.
      destruct (prepare_eof_ack_packet s) as [s1 [[]|e]] eqn:E1; [|exact Ha].
      rewrite b_ret.
      assert (Hrv : rview s1 = rview (s <| d_queue := d_queue s1 |>)).
      { unfold prepare_eof_ack_packet, conf, add_packet in E1. mrun_in E1. unfold modify in E1. injection E1 as <-. reflexivity. }
      destruct Ha as (X1 & X2 & _). apply Hdef; [exact X1 | apply X2; reflexivity |].
      unfold rview in Hrv. injection Hrv; intros. cbn in *. congruence.
    + (* (F33 repair) an EOF (cancel): the deferred procedure is stopped, the transaction is cancelled; the call
         goes on to the EOF ACK (acknowledged mode) and reports nothing *)
      destruct Hpk as (_ & -> & Hck). apply gen_eof_ck in Hck. subst ck. change (zlen data) with nn.
      rewrite !bind_assoc, b_setp.
      set (s0 := s <| d_p ::= (fun p => p <| p_deferred := false |>) |>).
      assert (HR0 : RI s0) by (apply (rview_RI s); [reflexivity | exact HR]).
      destruct HP as (_ & _ & _ & _ & _ & _ & HX).
      destruct (eof_cancel cond s0 Ec HR0 HB (HX eq_refl)) as (s' & E & H1 & H2 & _).
      pose proof (eof_cancel_deferred cond CK nn s0 Ec) as Hd. rewrite E in Hd. cbn [fst] in Hd.
      change (p_deferred (d_p s0)) with false in Hd.
      unfold bind at 1. rewrite E, b_ret.
      unfold deferred_lost_segment_handling. rewrite b_gp, Hd. cbn [negb]. split; assumption.
Qed.

Lemma okb_guard : forall v (m : D unit) s,
  RI s -> d_state s = ST_BUSY -> (d_step s = v -> okb (m s)) ->
  okb ((b <- step_is v ;; when b m) s).
Proof.
  intros v m s HR HB Hm. rewrite b_step_is. destruct (Z.eqb_spec (d_step s) v) as [E|E].
  - rewrite when_true. apply Hm, E.
  - rewrite when_false. split; assumption.
Qed.

Lemma okb_guard2 : forall v (m rest : D unit) s,
  RI s -> d_state s = ST_BUSY -> (d_step s = v -> okb (m s)) ->
  (forall s', RI s' -> d_state s' = ST_BUSY -> okb (rest s')) ->
  okb ((b <- step_is v ;; when b m ;;; rest) s).
Proof.
  intros v m rest s HR HB Hm Hr. rewrite b_step_is. destruct (Z.eqb_spec (d_step s) v) as [E|E].
  - rewrite when_true. apply okb_bind; [apply Hm, E | exact Hr].
  - rewrite when_false, b_ret. apply Hr; assumption.
Qed.

Lemma before_ok : forall pkt s, pkt_ok pkt -> RI s -> d_state s = ST_BUSY -> okb (before_completion pkt s).
Proof.
  intros pkt s Hpk HR HB. unfold before_completion.
  apply okb_bind; [apply fsm_advancement_ok; assumption|]. clear s HR HB. intros s HR HB.
  unfold get_step. rewrite b_gets.
  apply okb_bind.
  { destruct ((d_step s =? DS_RECEIVING_FILE_DATA) || (d_step s =? DS_RECV_WITH_CHECK_LIMIT)) eqn:Eb.
    - rewrite when_true. apply recv_clause_ok; try assumption.
      apply orb_prop in Eb. destruct Eb as [Eb|Eb]; apply Z.eqb_eq in Eb; [left | right]; exact Eb.
    - rewrite when_false. split; assumption. }
  clear s HR HB. intros s HR HB.
  apply okb_guard2; [exact HR | exact HB | intro Hst; apply wfm_clause_ok; assumption |].
  clear s HR HB. intros s HR HB.
  apply okb_guard2; [exact HR | exact HB | intro Hst; apply check_limit_ok; assumption |].
  clear s HR HB. intros s HR HB.
  apply okb_guard; [exact HR | exact HB | intro Hst; apply wfmd_clause_ok; assumption].
Qed.
End Recv.
End SS_RecvE.

Module SS_RecvF.
(* RecvF.v — receiver invariant: completion, what follows it, the whole state machine call *)
Import CFDP.Base CFDP.LostSeg CFDP.LostSegSpec CFDP.Fs CFDP.Crc CFDP.Checksum CFDP.Handler CFDP.Dest CFDP.HandlerSpec.
Import CFDP.gen.Tables.
Import CFDP.proofs.RouteProofs CFDP.proofs.FsProofs CFDP.proofs.LostSegProofs CFDP.proofs.ChecksumProofs CFDP.proofs.GuardProofs CFDP.proofs.DeliveryProofs CFDP.proofs.NakProofs CFDP.proofs.TrackInvProofs CFDP.proofs.DestFsProofs CFDP.proofs.SuccessInvProofs.
Import SS_Defs SS_Aux SS_RecvA SS_RecvT SS_RecvB SS_RecvC SS_RecvD SS_RecvE.
Import RecordUpdate.RecordSet.
Import RecordSetNotations.
Open Scope monad_scope.

Local Opaque calculate_checksum.
Local Arguments Z.add : simpl never. Local Arguments Z.sub : simpl never. Local Arguments Z.mul : simpl never.
Local Arguments Z.ltb : simpl never. Local Arguments Z.leb : simpl never. Local Arguments Z.eqb : simpl never.
Local Arguments Z.max : simpl never. Local Arguments Z.min : simpl never. Local Arguments Z.of_nat : simpl never.

Section Recv.
Context {Pm : Prm}.
Local Notation data := g_data.
Local Notation ty := g_ty.
Local Notation H := g_H.
Local Notation sn := g_sn.
Local Notation dn := g_dn.
Local Notation CK := g_CK.

Notation P0 := (PP false false false false false false).

Lemma fs_delete_ok : forall fs q, fs_ok fs -> q = [] \/ q = dn ->
  fst (fs_delete_file fs q) = fs \/ (q = dn /\ fst (fs_delete_file fs q) = []).
Proof.
  intros fs q Hfs [->| ->].
  - left. unfold fs_delete_file. rewrite lookup_root. reflexivity.
  - destruct Hfs as [->|(d & -> & _)]; unfold fs_delete_file.
    + left. destruct dn_single as [x ->]. reflexivity.
    + right. split; [reflexivity|]. rewrite lookup_dn_single. cbn [fst remove_path]. rewrite path_eqb_refl. reflexivity.
Qed.

Lemma sdel_RI : forall s, RI s -> done_step (d_step s) -> f_deliv (p_fin (d_p s)) = DATA_INCOMPLETE -> RI (sdel s).
Proof.
  intros s HR Hd Hi. unfold sdel.
  destruct (fs_delete_ok (e_fs (d_env s)) (p_file_name (d_p s)) (ri_fs _ HR) (ri_name _ HR)) as [E|[En E]].
  - apply (rview_RI s); [|exact HR]. unfold rview. cbn. rewrite E. reflexivity.
  - ddst s. dRI HR. nrm_all. subst z_fname z_deliv. rewrite E.
    constructor; nrm; try ri_cheap; try solve [auto];
      try (intros; match goal with Hx : file_content [] _ = Some _ |- _ => rewrite file_content_nil in Hx; discriminate Hx end).
    left. reflexivity.
Qed.

Lemma noc_emit_rview : forall s, rview (fst (noc_emit s)) = rview s.
Proof. intro s. apply (minv_state rview Any). minv. Qed.

Lemma noc_RI : forall s, RI s -> done_step (d_step s) ->
  RI (fst (notice_of_completion s)) /\ d_step (fst (notice_of_completion s)) = d_step s /\
  d_state (fst (notice_of_completion s)) = d_state s.
Proof.
  intros s HR Hd. rewrite noc_split. unfold bind.
  destruct (noc_del_cases s) as [[r E]|[Hi E]]; rewrite E.
  - destruct r as [[]|e]; cbn [fst]; [|split; [exact HR | split; reflexivity]].
    pose proof (noc_emit_rview s) as Hrv. split; [apply (rview_RI s); assumption|].
    unfold rview in Hrv. injection Hrv; intros. split; assumption.
  - pose proof (noc_emit_rview (sdel s)) as Hrv. pose proof (sdel_RI s HR Hd Hi) as H1.
    split; [apply (rview_RI (sdel s)); assumption|].
    unfold rview in Hrv. injection Hrv; intros. split; [transitivity (d_step (sdel s)) | transitivity (d_state (sdel s))]; try assumption; reflexivity.
Qed.

Lemma htc_RI : forall s, RI s -> d_step s = DS_TRANSFER_COMPLETION -> RI (fst (handle_transfer_completion s)).
Proof.
  intros s HR Hst. rewrite htc_split.
  assert (Hd : done_step (d_step s)) by (left; exact Hst).
  destruct (noc_RI s HR Hd) as (H1 & H2 & H3). unfold bind.
  destruct (notice_of_completion s) as [s1 [[]|e]]; cbn [fst] in *; [|exact H1].
  destruct (htc_tail_cases s1) as [E|E]; rewrite E; cbn [fst].
  - assert (HP : P0 s1) by (apply RI_PP; exact H1).
    pose proof (hq_set_step_done RI _ _ _ _ _ _ DS_SENDING_FINISHED (or_intror (or_introl eq_refl)) s1 HP) as X.
    unfold set_step, modify in X. apply X.
  - apply fresh_RI, H1.
Qed.

Lemma cc_RI : forall s, RI s -> RI (fst (completion_clause s)).
Proof.
  intros s HR. unfold completion_clause. rewrite b_step_is.
  destruct (Z.eqb_spec (d_step s) DS_TRANSFER_COMPLETION) as [E|E]; [rewrite when_true; apply htc_RI; assumption | exact HR].
Qed.

(* ------------------------------------------------------------------ after the completion *)
Lemma hq_reset_internal : hb P0 reset_internal.
Proof. unfold reset_internal. apply hq_modify. intros s HP. apply RI_PP, fresh_RI, (PP_RI _ _ _ _ _ _ _ HP). Qed.
#[local] Hint Resolve hq_reset_internal : hqw.

Lemma hq_prepare_finished_pdu : hb P0 prepare_finished_pdu.
Proof. hw. Qed.
#[local] Hint Resolve hq_prepare_finished_pdu : hqw.
Lemma hq_handle_finished_pdu_sent : hb P0 handle_finished_pdu_sent.
Proof. hw. Qed.
#[local] Hint Resolve hq_handle_finished_pdu_sent : hqw.

Lemma hq_handle_positive_ack_procedures : forall again, hb P0 again -> hb P0 (handle_positive_ack_procedures again).
Proof. intros again Hag. hw. Qed.

Lemma hq_handle_waiting_for_finished_ack : forall again pkt, hb P0 again -> hb P0 (handle_waiting_for_finished_ack again pkt).
Proof.
  intros again pkt Hag. pose proof (hq_handle_positive_ack_procedures again Hag) as Hp.
  unfold handle_waiting_for_finished_ack. destruct pkt as [[]|]; try exact Hp; hw.
Qed.

Lemma pres_of_hb0 : forall (k : D unit), hb P0 k -> pres RI RI k.
Proof.
  intros k Hk s HR. specialize (Hk s (RI_PP s HR)). destruct (k s) as [s' [a|e]]; cbn [fst]; [apply (PP_RI _ _ _ _ _ _ _ Hk) | exact Hk].
Qed.
Lemma hb0_of_pres : forall (k : D unit), pres RI RI k -> hb P0 k.
Proof.
  intros k Hk s HP. specialize (Hk s (PP_RI _ _ _ _ _ _ _ HP)). destruct (k s) as [s' [a|e]]; cbn [fst] in Hk; [apply RI_PP, Hk | exact Hk].
Qed.

Lemma after_RI : forall fuel pkt,
  (forall k, fuel = S k -> forall s, RI s -> d_state s = ST_BUSY -> RI (fst (non_idle_fsm k None s))) ->
  pres RI RI (after_completion fuel pkt).
Proof.
  intros fuel pkt IH. apply pres_of_hb0. unfold after_completion.
  apply hq_bind; [hq_frame | intros b1]. apply hq_bind; [destruct b1; [rewrite when_true; hw | rewrite when_false; apply hq_ret] | intros _].
  apply hq_bind; [hq_frame | intros b2]. destruct b2; [rewrite when_true | rewrite when_false; apply hq_ret].
  apply hq_handle_waiting_for_finished_ack.
  destruct fuel as [|k]; [apply hq_raise; pe|].
  apply hb0_of_pres. apply pres_catch_abandoned.
  intros s HR. rewrite b_get. destruct (Z.eqb_spec (d_state s) ST_BUSY) as [E|E]; [rewrite when_true | rewrite when_false; exact HR].
  apply (IH k eq_refl); assumption.
Qed.

Lemma non_idle_RI : forall fuel pkt s, pkt_ok pkt -> RI s -> d_state s = ST_BUSY -> RI (fst (non_idle_fsm fuel pkt s)).
Proof.
  induction fuel as [|k IH]; intros pkt s Hpk HR HB; rewrite call_split.
  - pose proof (before_ok pkt s Hpk HR HB) as Hb. unfold bind at 1.
    destruct (before_completion pkt s) as [s1 [[]|e]]; cbn [fst]; [|exact Hb]. destruct Hb as [H1 _].
    apply (bind_pt RI RI); [apply cc_RI, H1 | trivial | intros _].
    apply after_RI. intros k E. discriminate E.
  - pose proof (before_ok pkt s Hpk HR HB) as Hb. unfold bind at 1.
    destruct (before_completion pkt s) as [s1 [[]|e]]; cbn [fst]; [|exact Hb]. destruct Hb as [H1 _].
    apply (bind_pt RI RI); [apply cc_RI, H1 | trivial | intros _].
    apply after_RI. intros k' E. injection E as <-. intros s' H' HB'. apply IH; [exact I | exact H' | exact HB'].
Qed.

(* ------------------------------------------------------------------ admission, first PDU, the whole call *)
Lemma check_ok_facts : forall p s s' r, check_inserted_packet p s = (s', r) ->
  s' = s /\ (r = Ok tt ->
    get_remote (l_remotes (d_cfg s)) (h_src (pdu_hdr p)) <> None /\
    (d_state s = ST_IDLE -> (match p with PMetadata _ _ _ _ _ _ => False | _ => True end) -> h_mode (pdu_hdr p) <> UNACKED)).
Proof.
  intros p s s' r E. pose proof (check_d_state p s) as Hs. rewrite E in Hs. cbn [fst] in Hs. split; [exact Hs|].
  intro Hr. subst r s'. unfold check_inserted_packet in E. rewrite b_get in E.
  destruct (negb (h_dir (pdu_hdr p) =? TOWARDS_RECEIVER)); [discriminate E|].
  destruct (negb (h_dst (pdu_hdr p) =? l_id (d_cfg s))); [discriminate E|].
  destruct (get_remote (l_remotes (d_cfg s)) (h_src (pdu_hdr p))) as [rr|]; [|discriminate E].
  split; [discriminate|]. intros Hi Hp Hu.
  destruct (packet_destination p) as [dest|]; [|discriminate E].
  destruct (dest =? 0); [discriminate E|].
  rewrite Hi in E. change (ST_IDLE =? ST_IDLE) with true in E. rewrite Hu in E.
  change (UNACKED =? UNACKED) with true in E.
  destruct p; cbn in Hp; try contradiction; cbn in E; discriminate E.
Qed.

Lemma catch_abandoned_state : forall (m : D unit) s, fst (catch_abandoned m s) = fst (m s).
Proof.
  intros m s. unfold catch_abandoned, catch. destruct (m s) as [s1 [a|e]]; [reflexivity|].
  destruct (e =? E_ABANDONED); reflexivity.
Qed.

Lemma idle_fsm_ok : forall pkt s, pkt_ok pkt -> RI s -> d_state s = ST_IDLE ->
  (forall p, pkt = Some p ->
     get_remote (l_remotes (d_cfg s)) (h_src (pdu_hdr p)) <> None /\
     ((match p with PMetadata _ _ _ _ _ _ => False | _ => True end) -> h_mode (pdu_hdr p) <> UNACKED)) ->
  match idle_fsm pkt s with
  | (s', Ok _) => RI s' /\ (d_state s' = ST_BUSY \/ s' = s)
  | (s', Err _) => RI s'
  end.
Proof.
  intros pkt s Hpk HR Hi Hf. unfold idle_fsm.
  destruct pkt as [[h off bs | h cl ck fsz names msgs | h cond ck fsz fl | | | | | ]|];
    try (unfold raise; exact HR); try (split; [exact HR | right; reflexivity]).
  - destruct (Hf _ eq_refl) as [Hrem Hm]. specialize (Hm I). cbn [pdu_hdr] in *.
    destruct Hpk as (-> & Ho & Hl & Hn & _).
    assert (Ha : MODE = ACKED) by (destruct mode_cases as [X|X]; [exact X | contradiction]).
    destruct (cfpnm_ok Ha s HR Hi Hrem) as (s1 & E1 & H1 & HB1 & Hst1 & _). unfold bind. rewrite E1.
    destruct (fd_wom_ok s1 off bs H1 HB1 Hst1 Ho Hl Hn) as (s2 & E2 & H2 & HB2 & _). rewrite E2.
    split; [exact H2 | left; exact HB2].
  - destruct (Hf _ eq_refl) as [Hrem _]. cbn [pdu_hdr] in *. destruct Hpk as (-> & -> & -> & ->).
    change (zlen data) with nn.
    destruct (start_transaction_ok s cl sn msgs HR Hi Hrem) as (s1 & E1 & H1 & HB1 & _). rewrite E1.
    split; [exact H1 | left; exact HB1].
  - destruct (Hf _ eq_refl) as [Hrem Hm]. specialize (Hm I). cbn [pdu_hdr] in *.
    destruct Hpk as (-> & -> & Hck). apply gen_eof_ck in Hck. subst ck. change (zlen data) with nn.
    assert (Ha : MODE = ACKED) by (destruct mode_cases as [X|X]; [exact X | contradiction]).
    destruct (cfpnm_ok Ha s HR Hi Hrem) as (s1 & E1 & H1 & HB1 & Hst1 & _). unfold bind. rewrite E1.
    destruct (eof_wom_ok cond s1 H1 HB1 Hst1) as (s2 & E2 & H2 & HB2 & _). rewrite E2.
    split; [exact H2 | left; exact HB2].
Qed.

Theorem sm_RI : forall pkt s, pkt_ok pkt -> RI s -> RI (fst (Dest.state_machine pkt s)).
Proof.
  intros pkt s Hpk HR. unfold Dest.state_machine.
  assert (Hbody : (forall p, pkt = Some p ->
     get_remote (l_remotes (d_cfg s)) (h_src (pdu_hdr p)) <> None /\
     (d_state s = ST_IDLE -> (match p with PMetadata _ _ _ _ _ _ => False | _ => True end) -> h_mode (pdu_hdr p) <> UNACKED)) ->
     RI (fst (catch_abandoned
       (s0 <- get;;
        stop <- (if d_state s0 =? ST_IDLE then idle_fsm pkt;;; n <- gets d_ready;; ret (0 <? n) else ret false);;
        (if stop then ret tt else s1 <- get;; when (d_state s1 =? ST_BUSY) (non_idle_fsm 3 pkt))) s))).
  { intro Hf. rewrite catch_abandoned_state, b_get.
    destruct (Z.eqb_spec (d_state s) ST_IDLE) as [Hi|Hi].
    - pose proof (idle_fsm_ok pkt s Hpk HR Hi) as Hidle.
      assert (Hf' : forall p, pkt = Some p -> get_remote (l_remotes (d_cfg s)) (h_src (pdu_hdr p)) <> None /\
         ((match p with PMetadata _ _ _ _ _ _ => False | _ => True end) -> h_mode (pdu_hdr p) <> UNACKED)).
      { intros p Ep. destruct (Hf p Ep) as [X Y]. split; [exact X | exact (Y Hi)]. }
      specialize (Hidle Hf'). rewrite !bind_assoc. unfold bind at 1.
      destruct (idle_fsm pkt s) as [s1 [[]|e]]; cbn [fst]; [|exact Hidle]. destruct Hidle as [H1 Hst].
      rewrite bind_assoc, b_gets, b_ret. destruct (0 <? d_ready s1); [exact H1|].
      rewrite b_get. destruct (Z.eqb_spec (d_state s1) ST_BUSY) as [HB|HB]; [rewrite when_true | rewrite when_false; exact H1].
      apply non_idle_RI; assumption.
    - rewrite b_ret, b_get.
      destruct (Z.eqb_spec (d_state s) ST_BUSY) as [HB|HB]; [rewrite when_true | rewrite when_false; exact HR].
      apply non_idle_RI; assumption. }
  destruct pkt as [p|].
  - unfold bind at 1. destruct (check_inserted_packet p s) as [s' r] eqn:Ec.
    destruct (check_ok_facts p s s' r Ec) as [-> Hfacts].
    destruct r as [[]|e]; cbn [fst]; [|exact HR].
    apply Hbody. intros p' Ep. injection Ep as <-. apply Hfacts. reflexivity.
  - rewrite b_ret. apply Hbody. intros p Ep. discriminate Ep.
Qed.
End Recv.
End SS_RecvF.

Module SS_RecvG.
(* RecvG.v — the receiver's event log: a success report is only there for a good file *)
Import CFDP.Base CFDP.LostSeg CFDP.LostSegSpec CFDP.Fs CFDP.Crc CFDP.Checksum CFDP.Handler CFDP.Dest CFDP.Source CFDP.SourceSpec CFDP.System CFDP.HandlerSpec.
Import CFDP.gen.Tables.
Import CFDP.proofs.RouteProofs CFDP.proofs.FsProofs CFDP.proofs.LostSegProofs CFDP.proofs.ChecksumProofs CFDP.proofs.GuardProofs CFDP.proofs.DeliveryProofs CFDP.proofs.NakProofs CFDP.proofs.TrackInvProofs CFDP.proofs.DestFsProofs CFDP.proofs.SuccessInvProofs.
Import SS_Defs SS_Aux SS_RecvA SS_RecvT SS_RecvB SS_RecvC SS_RecvD SS_RecvE SS_RecvF.
Import RecordUpdate.RecordSet.
Import RecordSetNotations.
Open Scope monad_scope.

Local Opaque calculate_checksum.
Local Arguments Z.add : simpl never. Local Arguments Z.sub : simpl never. Local Arguments Z.mul : simpl never.
Local Arguments Z.ltb : simpl never. Local Arguments Z.leb : simpl never. Local Arguments Z.eqb : simpl never.
Local Arguments Z.max : simpl never. Local Arguments Z.min : simpl never. Local Arguments Z.of_nat : simpl never.

Definition succ_log (l : list event) : Prop := existsb success_event l = true.

Lemma nsb_success : forall e, nsb e = true -> success_event e = false.
Proof. intros [] Hn; try reflexivity. cbn in *. apply negb_true_iff in Hn. exact Hn. Qed.

Lemma succ_app : forall l l', forallb nsb l = true -> (succ_log (l ++ l') <-> succ_log l').
Proof.
  intros l l' Hl. unfold succ_log. rewrite existsb_app.
  assert (X : existsb success_event l = false).
  { induction l as [|e l IH]; [reflexivity|]. cbn in *. apply andb_prop in Hl. destruct Hl as [H1 H2].
    rewrite (nsb_success e H1), (IH H2). reflexivity. }
  rewrite X. cbn [orb]. tauto.
Qed.

Section Recv.
Context {Pm : Prm}.
Local Notation data := g_data.
Local Notation ty := g_ty.
Local Notation H := g_H.
Local Notation sn := g_sn.
Local Notation dn := g_dn.
Local Notation CK := g_CK.
Local Notation Hty := g_Hty.
Local Notation HCK := g_HCK.

Definition SUCC (s : dst) : Prop := succ_log (e_log (d_env s)).
Definition Concl (d : bytes) : Prop :=
  d = data \/
  (d <> data /\ zlen d = zlen data /\
   calculate_checksum ty (Some d) (zlen d) 4096 = calculate_checksum ty (Some data) (zlen data) 4096).
Definition Good (s : dst) : Prop := exists d, file_content (e_fs (d_env s)) dn = Some d /\ Concl d.
Definition Kc (s : dst) : Prop := f_deliv (p_fin (d_p s)) = DATA_COMPLETE.
Definition LG (s : dst) : Prop := SUCC s -> Good s /\ (d_step s = DS_IDLE \/ (done_step (d_step s) /\ Kc s)).

Lemma lg_succ : forall s s', lg s s' -> (SUCC s' <-> SUCC s).
Proof. intros s s' (l & E & Hl). unfold SUCC, log_d in *. rewrite E. apply succ_app, Hl. Qed.

Lemma bytes_eq_dec : forall a b : bytes, {a = b} + {a <> b}.
Proof. apply list_eq_dec. apply Z.eq_dec. Qed.

Lemma KGood : forall s, RI s -> c01_inv s -> Kc s -> Good s.
Proof.
  intros s HR (Hv & _) Hk. specialize (Hv Hk).
  destruct (ri_K _ HR Hk) as [HB Hm]. destruct (ri_V _ HR HB Hm) as [En Ety].
  destruct Hv as [Hv|[Hv|(d & Hl & Hc)]].
  - rewrite (ri_mdo _ HR) in Hv. discriminate Hv.
  - rewrite Ety in Hv. exfalso. exact (ty_not_null _ Hty Hv).
  - unfold fs_d in Hl. rewrite En in Hl. rewrite Ety in Hc.
    assert (Hf : file_content (e_fs (d_env s)) dn = Some d) by (unfold file_content; rewrite Hl; reflexivity).
    destruct (ri_KL _ HR Hk d Hf) as [H1 H2]. pose proof (fs_ok_len _ _ (ri_fs _ HR) Hf) as H3.
    assert (Hz : zlen d = nn) by lia. assert (Hp : p_progress (d_p s) = nn) by lia.
    rewrite Hp in Hc.
    destruct (ri_eofcrc _ HR) as [[_ Ec]|[_ Ec]]; rewrite Ec in Hc.
    { exfalso. exact (calc_crc_len4 _ _ _ _ Hty Hc eq_refl). }
    exists d. split; [exact Hf|]. destruct (bytes_eq_dec d data) as [E|E]; [left; exact E | right].
    split; [exact E|]. split; [exact Hz|]. rewrite Hz, Hc. symmetry. exact HCK.
Qed.

Lemma success_event_fin : forall a b c d fs fl,
  success_event (EvFinished a b c d fs fl) = true -> c = C_NO_ERROR /\ d = DATA_COMPLETE.
Proof. intros a b c d fs fl E. cbn in E. apply andb_prop in E. destruct E as [E1 E2]. apply Z.eqb_eq in E1, E2. split; assumption. Qed.

Lemma cc_LG : forall s, RI s -> c01_inv s -> LG s -> LG (fst (completion_clause s)).
Proof.
  intros s HR Hinv HL.
  destruct (Z.eq_dec (d_step s) DS_TRANSFER_COMPLETION) as [Hst|Hst].
  2:{ unfold completion_clause. rewrite b_step_is. apply Z.eqb_neq in Hst. rewrite Hst, when_false. exact HL. }
  pose proof (cc_completes s) as (Hfs & Hlog & Hfin).
  set (s2 := fst (completion_clause s)) in *. intro Hs2.
  assert (Hk : Kc s /\ Good s).
  { destruct Hlog as [El|(a & b & fs & fl & El)]; unfold log_d in El.
    - assert (Hs : SUCC s) by (unfold SUCC in *; rewrite <- El; exact Hs2).
      destruct (HL Hs) as [HG [Hi|[_ Hk]]]; [rewrite Hst in Hi; discriminate Hi | split; assumption].
    - unfold SUCC, succ_log in Hs2. rewrite El in Hs2. cbn [existsb] in Hs2. apply orb_prop in Hs2.
      destruct Hs2 as [He|Hs].
      + apply success_event_fin in He. destruct He as [_ Hd]. split; [exact Hd | apply KGood; assumption].
      + destruct (HL Hs) as [HG [Hi|[_ Hk]]]; [rewrite Hst in Hi; discriminate Hi | split; assumption]. }
  destruct Hk as [Hk (d & Hd & Hc)].
  assert (Efs : fs_d s2 = fs_d s).
  { destruct Hfs as [X|X]; [exact X | unfold Kc in Hk; rewrite X in Hk; discriminate Hk]. }
  split.
  - exists d. unfold fs_d in Efs. rewrite Efs. split; assumption.
  - destruct Hfin as [(Ed & _ & _ & Es)|[Er _]].
    + right. split; [|unfold Kc; rewrite Ed; exact Hk].
      destruct Es as [Es|Es]; rewrite Es; [left; exact Hst | right; left; reflexivity].
    + left. rewrite Er. reflexivity.
Qed.

Lemma late_done : forall s, late s <-> done_step (d_step s).
Proof. intro s. unfold late, done_step. tauto. Qed.

Lemma after_LG : forall fuel pkt s, LG s -> LG (fst (after_completion fuel pkt s)).
Proof.
  intros fuel pkt s HL.
  destruct (Z.eq_dec (d_step s) DS_SENDING_FINISHED) as [E1|E1];
    [|destruct (Z.eq_dec (d_step s) DS_WAITING_FOR_FINISHED_ACK) as [E2|E2];
      [|rewrite after_other_step by assumption; exact HL]].
  all: destruct (after_cases fuel pkt s) as [E|HJ]; [rewrite E; exact HL|];
    set (s3 := fst (after_completion fuel pkt s)) in *; intro Hs3;
    assert (Hc : SuccessInvProofs.core s s3) by (destruct HJ as [(_ & _ & _ & Hc)|(_ & _ & Hc)]; exact Hc);
    destruct Hc as (_ & Hlg & HF);
    apply (lg_succ s s3 Hlg) in Hs3; destruct (HL Hs3) as [(d & Hd & Hc) [Hi|[_ Hk]]];
    try (rewrite E1 in Hi; discriminate Hi); try (rewrite E2 in Hi; discriminate Hi);
    (split; [exists d; specialize (HF Hk); unfold fs_d in HF; rewrite HF; split; assumption|]);
    (destruct HJ as [(Hl & Hd' & _)|(Hi' & _)]; [right; split; [apply late_done; exact Hl | unfold Kc; rewrite Hd'; exact Hk] | left; exact Hi']).
Qed.

Lemma before_LG : forall pkt s, pkt_ok pkt -> RI s -> c01_inv s -> LG s -> d_state s = ST_BUSY ->
  RI (fst (before_completion pkt s)) /\ c01_inv (fst (before_completion pkt s)) /\ LG (fst (before_completion pkt s)).
Proof.
  intros pkt s Hpk HR Hinv HL HB.
  split; [apply okb_RI, before_ok; assumption|]. split; [apply inv_before_completion; exact Hinv|].
  intro Hs1. pose proof (g_before_completion pkt s) as Hg. apply (lg_succ _ _ Hg) in Hs1.
  destruct (HL Hs1) as [HG [Hi|[Hd Hk]]]; [exfalso; exact (ri_bs _ HR HB Hi)|].
  rewrite before_late by (left; apply late_done; exact Hd). split; [exact HG | right; split; assumption].
Qed.

Lemma nonidle_LG : forall fuel pkt s, pkt_ok pkt -> RI s -> c01_inv s -> LG s -> d_state s = ST_BUSY ->
  LG (fst (non_idle_fsm fuel pkt s)).
Proof.
  intros fuel pkt s Hpk HR Hinv HL HB. rewrite call_split.
  destruct (before_LG pkt s Hpk HR Hinv HL HB) as (H1 & I1 & L1).
  unfold bind at 1. destruct (before_completion pkt s) as [s1 [[]|e]]; cbn [fst] in *; [|exact L1].
  pose proof (cc_LG s1 H1 I1 L1) as L2. unfold bind.
  destruct (completion_clause s1) as [s2 [[]|e]]; cbn [fst] in *; [|exact L2].
  apply after_LG, L2.
Qed.

(* ------------------------------------------------------------------ a call of a busy handler *)
Definition sm_body (pkt : option pdu) : D unit :=
  catch_abandoned
    (s0 <- get;;
     stop <- (if d_state s0 =? ST_IDLE then idle_fsm pkt;;; n <- gets d_ready;; ret (0 <? n) else ret false);;
     (if stop then ret tt else s1 <- get;; when (d_state s1 =? ST_BUSY) (non_idle_fsm 3 pkt))).

Lemma sm_unfold : forall pkt s,
  Dest.state_machine pkt s =
  match pkt with
  | Some p => match check_inserted_packet p s with
              | (s', Ok _) => sm_body pkt s'
              | (s', Err e) => (s', Err e)
              end
  | None => sm_body pkt s
  end.
Proof. intros [p|] s; reflexivity. Qed.

Lemma sm_cases : forall pkt s,
  fst (Dest.state_machine pkt s) = s \/
  (fst (Dest.state_machine pkt s) = fst (sm_body pkt s) /\
   forall p, pkt = Some p ->
     get_remote (l_remotes (d_cfg s)) (h_src (pdu_hdr p)) <> None /\
     (d_state s = ST_IDLE -> (match p with PMetadata _ _ _ _ _ _ => False | _ => True end) -> h_mode (pdu_hdr p) <> UNACKED)).
Proof.
  intros pkt s. rewrite sm_unfold. destruct pkt as [p|].
  - destruct (check_inserted_packet p s) as [s' r] eqn:Ec.
    destruct (check_ok_facts p s s' r Ec) as [-> Hf]. destruct r as [[]|e]; [right | left; reflexivity].
    split; [reflexivity|]. intros p' Ep. injection Ep as <-. apply Hf. reflexivity.
  - right. split; [reflexivity|]. intros p Ep. discriminate Ep.
Qed.

Lemma sm_body_busy : forall pkt s, d_state s = ST_BUSY -> fst (sm_body pkt s) = fst (non_idle_fsm 3 pkt s).
Proof.
  intros pkt s HB. unfold sm_body. rewrite catch_abandoned_state, b_get, HB. change (ST_BUSY =? ST_IDLE) with false. cbv iota.
  rewrite b_ret, b_get, HB. change (ST_BUSY =? ST_BUSY) with true. rewrite when_true. reflexivity.
Qed.

Theorem sm_busy_LG : forall pkt s, pkt_ok pkt -> RI s -> c01_inv s -> LG s -> d_state s = ST_BUSY ->
  LG (fst (Dest.state_machine pkt s)).
Proof.
  intros pkt s Hpk HR Hinv HL HB. destruct (sm_cases pkt s) as [E|[E _]]; rewrite E; [exact HL|].
  rewrite sm_body_busy by exact HB. apply nonidle_LG; assumption.
Qed.

(* ------------------------------------------------------------------ a call of an idle handler *)
Lemma sm_idle_noop : forall pkt s, d_state s = ST_IDLE ->
  (match pkt with Some (PFileData _ _ _) | Some (PMetadata _ _ _ _ _ _) | Some (PEof _ _ _ _ _) => False | _ => True end) ->
  fst (Dest.state_machine pkt s) = s.
Proof.
  intros pkt s Hi Hp. destruct (sm_cases pkt s) as [E|[E _]]; rewrite E; [reflexivity|].
  unfold sm_body. rewrite catch_abandoned_state, b_get, Hi. change (ST_IDLE =? ST_IDLE) with true. cbv iota.
  destruct pkt as [[]|]; try contradiction; unfold idle_fsm; try (rewrite !bind_assoc, b_raise; reflexivity).
  mr. destruct (0 <? d_ready s); [reflexivity|].
  rewrite b_get, Hi. reflexivity.
Qed.

Lemma cc_lg_noK : forall s, ~ Kc s -> lg s (fst (completion_clause s)).
Proof.
  intros s Hk. pose proof (cc_completes s) as (_ & Hlog & _).
  destruct Hlog as [E|(a & b & fs & fl & E)].
  - exists []. split; [exact E | reflexivity].
  - exists [EvFinished a b (f_cond (p_fin (d_p s))) (f_deliv (p_fin (d_p s))) fs fl]. split; [exact E|].
    cbn. rewrite andb_true_r. apply negb_true_iff. apply andb_false_iff. right. apply Z.eqb_neq. exact Hk.
Qed.

Lemma after_lg : forall fuel pkt s, lg s (fst (after_completion fuel pkt s)).
Proof.
  intros fuel pkt s. destruct (after_cases fuel pkt s) as [E|[(_ & _ & _ & _ & Hg & _)|(_ & _ & _ & Hg & _)]];
    [rewrite E; apply lg_refl | exact Hg | exact Hg].
Qed.

Lemma nonidle_lg_noK : forall fuel pkt s, ~ Kc (fst (before_completion pkt s)) -> lg s (fst (non_idle_fsm fuel pkt s)).
Proof.
  intros fuel pkt s Hk. rewrite call_split. pose proof (g_before_completion pkt s) as Hg.
  unfold bind at 1. destruct (before_completion pkt s) as [s1 [[]|e]]; cbn [fst] in *; [|exact Hg].
  pose proof (cc_lg_noK s1 Hk) as Hg2. unfold bind.
  destruct (completion_clause s1) as [s2 [[]|e]]; cbn [fst] in *; [|eapply lg_trans; eassumption].
  eapply lg_trans; [exact Hg|]. eapply lg_trans; [exact Hg2 | apply after_lg].
Qed.

Lemma before_queue : forall pkt s, d_queue s <> [] -> before_completion pkt s = (s, Err E_UNRETRIEVED).
Proof.
  intros pkt s Hq. unfold before_completion, fsm_advancement. rewrite bind_assoc, b_get.
  assert (X : (0 <? zlen (d_queue s)) = true).
  { apply Z.ltb_lt. destruct (d_queue s); [contradiction Hq; reflexivity | unfold zlen; cbn [length]; lia]. }
  rewrite X. reflexivity.
Qed.

Lemma deferred_eof_none : forall s, p_file_size_eof (d_p s) = None -> fst (deferred_lost_segment_handling s) = s.
Proof.
  intros s He. unfold deferred_lost_segment_handling. rewrite b_gp. destruct (p_deferred (d_p s)); [|reflexivity]. cbn [negb].
  rewrite b_gp. destruct (p_disp (d_p s) =? DISP_CANCELED); [reflexivity|].
  unfold rcfg_or_assert. rewrite bind_assoc, b_gp. destruct (p_rcfg (d_p s)); [|reflexivity].
  rewrite b_ret, b_gp, He. reflexivity.
Qed.

Lemma before_md_noop : forall h cl ck fsz names msgs s, d_step s = DS_RECEIVING_FILE_DATA ->
  fst (before_completion (Some (PMetadata h cl ck fsz names msgs)) s) = s.
Proof.
  intros h cl ck fsz names msgs s Hst. unfold before_completion, fsm_advancement, get_step. mr.
  destruct (0 <? zlen (d_queue s)); [reflexivity|]. rewrite Hst.
  repeat first [ progress mr | rewrite b_step_is | rewrite Hst | progress eqb_consts | progress cbv iota | progress cbn [orb] ].
  reflexivity.
Qed.

Lemma before_fd_wfm : forall h off bs s,
  RI s -> d_state s = ST_BUSY -> d_step s = DS_WAITING_FOR_METADATA -> p_file_size_eof (d_p s) = None ->
  0 <= off -> 0 < zlen bs -> off + zlen bs <= nn ->
  p_file_size_eof (d_p (fst (before_completion (Some (PFileData h off bs)) s))) = None.
Proof.
  intros h off bs s HR HB Hst He Ho Hl Hn.
  destruct (fd_wom_ok s off bs HR HB Hst Ho Hl Hn) as (s2 & E2 & _ & _ & Hst2 & He2).
  pose proof (deferred_eof_none s2 (eq_trans He2 He)) as Hd.
  unfold before_completion, fsm_advancement, get_step. mr.
  destruct (0 <? zlen (d_queue s)); [exact He|]. rewrite Hst.
  repeat first [ progress mr | rewrite b_step_is | rewrite Hst | progress eqb_consts | progress cbv iota | progress cbn [orb] ].
  unfold handle_waiting_for_missing_metadata. unfold bind at 1. rewrite E2.
  unfold bind at 1. destruct (deferred_lost_segment_handling s2) as [s3 [[]|e]]; cbn [fst] in Hd; subst s3;
    [|cbn [fst]; rewrite He2; exact He].
  repeat first [ progress mr | rewrite b_step_is | rewrite Hst2 | progress eqb_consts | progress cbv iota | progress cbn [orb] ].
  unfold ret. cbn [fst]. rewrite He2. exact He.
Qed.

Theorem sm_idle_lg : forall pkt s, pkt_ok pkt -> RI s -> c01_inv s -> d_state s = ST_IDLE ->
  lg s (fst (Dest.state_machine pkt s)).
Proof.
  intros pkt s Hpk HR Hinv Hi. destruct (sm_cases pkt s) as [E|[E Hf]]; rewrite E; [apply lg_refl|].
  unfold sm_body. rewrite catch_abandoned_state, b_get, Hi. change (ST_IDLE =? ST_IDLE) with true. cbv iota.
  pose proof (g_idle_fsm pkt s) as Hg.
  assert (Hf' : forall p, pkt = Some p -> get_remote (l_remotes (d_cfg s)) (h_src (pdu_hdr p)) <> None /\
     ((match p with PMetadata _ _ _ _ _ _ => False | _ => True end) -> h_mode (pdu_hdr p) <> UNACKED)).
  { intros p Ep. destruct (Hf p Ep) as [X Y]. split; [exact X | exact (Y Hi)]. }
  pose proof (idle_fsm_ok pkt s Hpk HR Hi Hf') as Hidle.
  pose proof (inv_idle_fsm pkt s Hinv) as Hinv1.
  rewrite !bind_assoc. unfold bind at 1.
  destruct (idle_fsm pkt s) as [s1 [[]|e]] eqn:Eidle; cbn [fst] in *; [|exact Hg]. destruct Hidle as [H1 Hst].
  rewrite bind_assoc, b_gets, b_ret. destruct (0 <? d_ready s1); [exact Hg|].
  rewrite b_get. destruct (Z.eqb_spec (d_state s1) ST_BUSY) as [HB|HB]; [rewrite when_true | rewrite when_false; exact Hg].
  eapply lg_trans; [exact Hg|]. clear Hg.
  (* the first call never reaches a verified completion *)
  unfold idle_fsm in Eidle.
  destruct pkt as [[h off bs | h cl ck fsz names msgs | h cond ck fsz fl | | | | | ]|];
    try (injection Eidle as <-; rewrite HB in Hi; discriminate Hi); try discriminate Eidle.
  - (* File Data first *)
    destruct (Hf' _ eq_refl) as [Hrem Hm]. specialize (Hm I). cbn [pdu_hdr] in *.
    destruct Hpk as (-> & Ho & Hl & Hn & Hbs).
    assert (Ha : MODE = ACKED) by (destruct mode_cases as [X|X]; [exact X | contradiction]).
    destruct (cfpnm_ok Ha s HR Hi Hrem) as (sa & Ea & Ha1 & HBa & Hsta & Hea).
    unfold bind in Eidle. rewrite Ea in Eidle.
    destruct (fd_wom_ok sa off bs Ha1 HBa Hsta Ho Hl Hn) as (sb & Eb & Hb1 & HBb & Hstb & Heb). rewrite Eb in Eidle.
    injection Eidle as <-.
    apply nonidle_lg_noK. intro Hk.
    pose proof (before_fd_wfm H off bs sb Hb1 HBb Hstb (eq_trans Heb Hea) Ho Hl Hn) as Hnone.
    assert (HR' : RI (fst (before_completion (Some (PFileData H off bs)) sb))).
    { apply okb_RI, before_ok; [repeat split; assumption | exact Hb1 | exact HBb]. }
    rewrite (ri_Ke _ HR' Hk) in Hnone. discriminate Hnone.
  - (* Metadata first *)
    destruct (Hf' _ eq_refl) as [Hrem _]. cbn [pdu_hdr] in *. destruct Hpk as (-> & -> & -> & ->).
    change (zlen data) with nn in Eidle.
    destruct (start_transaction_ok s cl sn msgs HR Hi Hrem) as (sa & Ea & Ha1 & HBa & Hsta & Hea). rewrite Ea in Eidle.
    injection Eidle as <-.
    apply nonidle_lg_noK. rewrite before_md_noop by exact Hsta. intro Hk.
    rewrite (ri_Ke _ Ha1 Hk) in Hea. discriminate Hea.
  - (* EOF first *)
    destruct (Hf' _ eq_refl) as [Hrem Hm]. specialize (Hm I). cbn [pdu_hdr] in *.
    destruct Hpk as (-> & -> & Hck). apply gen_eof_ck in Hck. subst ck. change (zlen data) with nn in Eidle.
    assert (Ha : MODE = ACKED) by (destruct mode_cases as [X|X]; [exact X | contradiction]).
    destruct (cfpnm_ok Ha s HR Hi Hrem) as (sa & Ea & Ha1 & HBa & Hsta & Hea).
    unfold bind in Eidle. rewrite Ea in Eidle.
    destruct (eof_wom_ok cond sa Ha1 HBa Hsta) as (sb & Eb & Hb1 & HBb & Hstb & Hmb & Hqb). rewrite Eb in Eidle.
    injection Eidle as <-.
    rewrite call_split. unfold bind at 1. rewrite (before_queue _ sb Hqb). apply lg_refl.
Qed.
End Recv.
End SS_RecvG.

Module SS_SenderGen.
(* SS_SenderGen.v — whole-FSM invariant of the sender model: every PDU the sender ever queues is GENUINE ([gen] of Defs.v)
   for the source file of its put request. *)
Import CFDP.Base CFDP.LostSeg CFDP.Fs CFDP.Crc CFDP.Checksum CFDP.Handler CFDP.Dest CFDP.Source CFDP.SourceSpec.
Import CFDP.gen.Tables.
Import CFDP.proofs.FsProofs CFDP.proofs.GuardProofs CFDP.proofs.ChecksumProofs.
Import SS_Defs.
Import RecordUpdate.RecordSet.
Import RecordSetNotations.

Local Opaque calculate_checksum.
Local Arguments Z.add : simpl never. Local Arguments Z.sub : simpl never. Local Arguments Z.mul : simpl never.
Local Arguments Z.pow : simpl never. Local Arguments Z.div : simpl never. Local Arguments Z.ltb : simpl never.
Local Arguments Z.leb : simpl never. Local Arguments Z.eqb : simpl never. Local Arguments Z.min : simpl never.
Local Arguments Z.max : simpl never. Local Arguments Z.of_nat : simpl never. Local Arguments Z.to_nat : simpl never.

(* ------------------------------------------------------------------ preservation combinator (as in CancelInvProofs.v) *)
Definition pres {A} (P Q : src -> Prop) (m : SM A) : Prop := forall s, P s -> Q (fst (m s)).

Lemma pres_bind {A C} (P Q T : src -> Prop) (m : SM A) (f : A -> SM C) :
  pres P Q m -> (forall s, Q s -> T s) -> (forall a, pres Q T (f a)) -> pres P T (bind m f).
Proof.
  intros Hm HQT Hf s HP. specialize (Hm s HP). unfold bind.
  destruct (m s) as [s1 [a|e]]; cbn [fst] in *; [apply Hf, Hm | apply HQT, Hm].
Qed.
Lemma pres_ret {A} (P : src -> Prop) (a : A) : pres P P (ret a).
Proof. intros s H. exact H. Qed.
Lemma pres_raise {A} (P : src -> Prop) e : pres P P (@raise src A e).
Proof. intros s H. exact H. Qed.
Lemma pres_post {A} (P Q Q' : src -> Prop) (m : SM A) : (forall s, Q s -> Q' s) -> pres P Q m -> pres P Q' m.
Proof. intros HQ H s HP. apply HQ, H, HP. Qed.
Lemma pres_pre {A} (P P' Q : src -> Prop) (m : SM A) : (forall s, P' s -> P s) -> pres P Q m -> pres P' Q m.
Proof. intros HP H s HP'. apply H, HP, HP'. Qed.

Lemma b_ret {S A B} (a : A) (k : A -> M S B) s : bind (ret a) k s = k a s.
Proof. reflexivity. Qed.
Lemma b_gets {S A B} (f : S -> A) (k : A -> M S B) s : bind (gets f) k s = k (f s) s.
Proof. reflexivity. Qed.
Lemma b_get {S B} (k : S -> M S B) s : bind get k s = k s s.
Proof. reflexivity. Qed.
Lemma b_gq {A C} (f : sparams -> A) (k : A -> SM C) s : bind (gq f) k s = k (f (s_p s)) s.
Proof. reflexivity. Qed.
Lemma b_put {S B} (x : S) (k : unit -> M S B) s : bind (put x) k s = k tt x.
Proof. reflexivity. Qed.
Lemma b_sstep {A} v (k : bool -> SM A) s : bind (sstep_is v) k s = k (s_step s =? v) s.
Proof. reflexivity. Qed.
Lemma when_false {S} (m : M S unit) : when false m = ret tt.
Proof. reflexivity. Qed.
Lemma when_true {S} (m : M S unit) : when true m = m.
Proof. reflexivity. Qed.

Ltac ss := unfold SS_IDLE, SS_TRANSACTION_START, SS_SENDING_METADATA, SS_SENDING_FILE_DATA, SS_RETRANSMITTING,
  SS_SENDING_EOF, SS_WAITING_FOR_EOF_ACK, SS_WAITING_FOR_FINISHED, SS_SENDING_ACK_OF_FINISHED,
  SS_NOTICE_OF_COMPLETION, ST_IDLE, ST_BUSY in *.

(* ------------------------------------------------------------------ frame: functions that leave the view alone *)
Definition view (s : src) :=
  (s_cfg s, s_put s, e_fs (s_env s), s_state s, s_step s, s_step_before s, s_queue s,
   (q_progress (s_p s), q_segment_len (s_p s), q_file_size (s_p s), q_empty_file (s_p s), q_md_only (s_p s),
    q_rcfg (s_p s), q_conf (s_p s))).
Notation FR m := (MInv view Any m).
Definition vdet (P : src -> Prop) : Prop := forall s s', view s' = view s -> P s -> P s'.

Lemma pres_fr {A} (P : src -> Prop) (m : SM A) : vdet P -> FR m -> pres P P m.
Proof. intros HP Hm s H. apply (HP s); [|exact H]. apply (minv_state _ _ _ s Hm). Qed.

Lemma fr_checksum : forall sz, FR (checksum_calculation sz).
Proof. intro. minv. Qed.
#[local] Hint Resolve fr_checksum : minv.
Lemma fr_check_inserted : forall p, FR (check_inserted_packet_s p).
Proof. intro p. minv. Qed.

(* list facts *)
Lemma zlen_ztake : forall A n (l : list A), 0 <= n -> zlen (ztake n l) = Z.min n (zlen l).
Proof. intros. unfold zlen, ztake. rewrite firstn_length. lia. Qed.
Lemma zlen_zdrop : forall A n (l : list A), 0 <= n -> zlen (zdrop n l) = Z.max 0 (zlen l - n).
Proof. intros. unfold zlen, zdrop. rewrite skipn_length. lia. Qed.
Lemma zlen_read : forall (d : bytes) off len, 0 <= off -> 0 <= len -> off + len <= zlen d ->
  zlen (ztake len (zdrop off d)) = len.
Proof. intros d off len Ho Hl Hn. rewrite zlen_ztake by lia. rewrite zlen_zdrop by lia. lia. Qed.

Section Sender.
Variables (cs : lcfg) (seq0 bits : Z) (p : putreq) (sn dn : path) (data : bytes) (rs : rcfg).
Hypothesis Hrem : get_remote (l_remotes cs) (pr_dst p) = Some rs.
Hypothesis Hnames : pr_names p = Some (sn, dn).
Hypothesis Hsn : sn <> [].
Hypothesis Hty : r_cktype rs = CK_CRC32 \/ r_cktype rs = CK_CRC32C.
Hypothesis Hseg : match r_max_seg rs with Some m => 1 <= m | None => True end.
Definition s_ty := r_cktype rs.
Definition s_mode := match pr_mode p with Some m => m | None => r_mode rs end.

(* ------------------------------------------------------------------ the predicates *)
(* what never changes *)
Definition frame (s : src) : Prop :=
  s_cfg s = cs /\ s_put s = Some p /\ e_fs (s_env s) = [(sn, File data)].

(* put request accepted, transaction not started yet (possibly after failed attempts to start it): nothing queued *)
Definition SIpre (s : src) : Prop :=
  frame s /\ s_state s = ST_BUSY /\ (s_step s = SS_IDLE \/ s_step s = SS_TRANSACTION_START) /\ s_queue s = [] /\
  q_rcfg (s_p s) = Some rs /\ q_md_only (s_p s) = false /\ q_progress (s_p s) = 0 /\
  (q_file_size (s_p s) = Some 0 \/ q_file_size (s_p s) = Some (zlen data)) /\
  (q_empty_file (s_p s) = true -> zlen data = 0) /\
  sc_mode (q_conf (s_p s)) = s_mode.

(* a step in which the handler may rest, given the progress *)
Definition stepok (pr st : Z) : Prop :=
  st = SS_SENDING_METADATA \/ st = SS_SENDING_FILE_DATA \/
  (SS_SENDING_EOF <= st <= SS_NOTICE_OF_COMPLETION /\ pr = zlen data).
Definition steps (st : Z) (sb : option Z) (pr : Z) : Prop :=
  stepok pr st \/ (st = SS_RETRANSMITTING /\ exists b, sb = Some b /\ stepok pr b).

(* transaction running with PDU header H *)
Definition core (H : hdr) (s : src) : Prop :=
  frame s /\ Forall (gen data s_ty H sn dn) (s_queue s) /\ s_state s = ST_BUSY /\
  q_rcfg (s_p s) = Some rs /\ q_md_only (s_p s) = false /\ q_file_size (s_p s) = Some (zlen data) /\
  1 <= q_segment_len (s_p s) /\ hdr_of (q_conf (s_p s)) TOWARDS_RECEIVER = H /\
  0 <= q_progress (s_p s) <= zlen data /\
  (q_empty_file (s_p s) = true -> zlen data = 0) /\
  (zlen data < q_segment_len (s_p s) -> q_progress (s_p s) = 0 \/ q_progress (s_p s) = zlen data).
Definition Bq (X : Z -> option Z -> Z -> Prop) (H : hdr) (s : src) : Prop :=
  core H s /\ X (s_step s) (s_step_before s) (q_progress (s_p s)).
Notation B := (Bq steps).
(* the transaction ended (finished, abandoned): idle, the queue may still hold PDUs *)
Definition R (H : hdr) (s : src) : Prop :=
  frame s /\ Forall (gen data s_ty H sn dn) (s_queue s) /\ s_state s = ST_IDLE /\ s_step s = SS_IDLE.
Definition SI (H : hdr) (s : src) : Prop := B H s \/ R H s.
Notation J := SI.

(* knowledge about the step inside a call *)
Definition at4 (st : Z) (sb : option Z) (pr : Z) : Prop := st = SS_SENDING_FILE_DATA.
Definition lateF (st : Z) (sb : option Z) (pr : Z) : Prop :=
  SS_SENDING_EOF <= st <= SS_NOTICE_OF_COMPLETION /\ pr = zlen data.
Definition full (st : Z) (sb : option Z) (pr : Z) : Prop := pr = zlen data.

Lemma B_J : forall H s, B H s -> J H s.
Proof. intros H s H0. left. exact H0. Qed.
Lemma R_J : forall H s, R H s -> J H s.
Proof. intros H s H0. right. exact H0. Qed.
Lemma at4_B : forall H s, Bq at4 H s -> B H s.
Proof. intros H s [Hc Hx]. split; [exact Hc|]. left. right. left. exact Hx. Qed.
Lemma lateF_B : forall H s, Bq lateF H s -> B H s.
Proof. intros H s [Hc Hx]. split; [exact Hc|]. left. right. right. exact Hx. Qed.
Lemma lateF_J : forall H s, Bq lateF H s -> J H s.
Proof. intros H s H0. apply B_J, lateF_B, H0. Qed.
Lemma lateF_full : forall H s, Bq lateF H s -> Bq full H s.
Proof. intros H s [Hc [_ Hx]]. split; [exact Hc | exact Hx]. Qed.

Ltac unf := unfold SI, R, Bq, core, SIpre, frame, steps, stepok, at4, lateF, full in *.

Ltac vd :=
  let s := fresh "s" in let s' := fresh "s'" in let Hv := fresh "Hv" in let Hp := fresh "Hp" in
  intros s s' Hv Hp; unfold view in Hv; injection Hv; clear Hv; intros;
  unf;
  repeat match goal with E : _ = _ |- _ => first [rewrite E | idtac]; clear E end; exact Hp.

Lemma vdet_Bq : forall X H, vdet (Bq X H). Proof. intros X H. vd. Qed.
Lemma vdet_R : forall H, vdet (R H). Proof. intros H. vd. Qed.
Lemma vdet_J : forall H, vdet (J H). Proof. intros H. vd. Qed.
Lemma vdet_pre : vdet SIpre. Proof. vd. Qed.

(* ------------------------------------------------------------------ primitive steps *)
Lemma pres_sadd : forall X H pk, gen data s_ty H sn dn pk -> pres (Bq X H) (Bq X H) (sadd_packet pk).
Proof.
  intros X H pk Hp s H0. unfold sadd_packet, modify. cbn [fst]. destruct s. unf. cbn in *.
  destruct H0 as [(HF & HQ & HR) HX]. repeat split; try tauto.
  apply Forall_app. split; [exact HQ | constructor; [exact Hp | constructor]].
Qed.

Lemma sset_step_ok : forall X H v s, Bq X H s -> stepok (q_progress (s_p s)) v -> B H (fst (sset_step v s)).
Proof.
  intros X H v s H0 Hv. unfold sset_step, modify. cbn [fst]. destruct s. unfold Bq, core, frame, steps in *. cbn in *.
  destruct H0 as [HC _]. split; [exact HC | left; exact Hv].
Qed.

Lemma pres_sset_early : forall X H v, v = SS_SENDING_METADATA \/ v = SS_SENDING_FILE_DATA ->
  pres (Bq X H) (B H) (sset_step v).
Proof. intros X H v Hv s H0. apply (sset_step_ok X); [exact H0|]. unfold stepok. tauto. Qed.

Lemma pres_sset_late : forall (X : Z -> option Z -> Z -> Prop) H v, (forall st sb pr, X st sb pr -> pr = zlen data) ->
  SS_SENDING_EOF <= v <= SS_NOTICE_OF_COMPLETION -> pres (Bq X H) (B H) (sset_step v).
Proof.
  intros X H v HX Hv s H0. apply (sset_step_ok X); [exact H0|]. right. right. split; [exact Hv|].
  destruct H0 as [_ H1]. exact (HX _ _ _ H1).
Qed.

Lemma pres_reset : forall X H c, pres (Bq X H) (R H) (sreset_internal c).
Proof.
  intros X H c s H0. unfold sreset_internal, modify. cbn [fst]. destruct s. unf. cbn in *.
  destruct H0 as [(HF & HQ & _) _]. repeat split; try tauto. destruct c; [constructor | exact HQ].
Qed.

(* ------------------------------------------------------------------ walking through functions that keep Bq X H *)
Ltac bb_step :=
  cbv beta zeta;
  match goal with
  | |- pres ?P ?P _ =>
      solve [apply pres_fr; [first [apply vdet_Bq | apply vdet_R | apply vdet_J | apply vdet_pre] | minv]]
  | |- pres ?P ?P (bind _ _) => apply (pres_bind P P P); [ | intros ? Hq; exact Hq | intro]
  | |- pres ?P ?P (ret _) => apply pres_ret
  | |- pres ?P ?P (raise _) => apply pres_raise
  | |- pres _ _ (when ?b _) => destruct b; [rewrite when_true | rewrite when_false]
  | |- pres _ _ (sadd_packet _) => apply pres_sadd; exact I
  | |- pres _ _ (if ?b then _ else _) => destruct b
  | |- pres _ _ (match ?x with _ => _ end) => destruct x
  | |- pres _ _ ?m => let h := mhead m in unfold h
  end.
Ltac bb := repeat bb_step.

Ltac dcore Hs :=
  let Hs' := fresh "Hs" in
  pose proof Hs as Hs';
  destruct Hs' as [((Hcfg & Hput & Hfs) & HQ & Hst & Hrc & Hmd & Hfsz & Hsl & Hh & Hpr & Hef & Hsm) HX].

Lemma b_put_or_assert {C} (k : putreq -> SM C) s : s_put s = Some p -> bind put_or_assert k s = k p s.
Proof. intro E. unfold put_or_assert, bind, gets. rewrite E. reflexivity. Qed.
Lemma b_srcfg {C} (k : rcfg -> SM C) s : q_rcfg (s_p s) = Some rs -> bind srcfg_or_assert k s = k rs s.
Proof. intro E. unfold srcfg_or_assert, gq, bind, gets. rewrite E. reflexivity. Qed.
Lemma b_src_names {C} (k : path * path -> SM C) s : s_put s = Some p -> bind src_names k s = k (sn, dn) s.
Proof. intro E. unfold src_names, put_or_assert, bind, gets. rewrite E. unfold ret at 1. cbv beta iota. rewrite Hnames. reflexivity. Qed.

Lemma lookup_sn : lookup [(sn, File data)] sn = Some (File data).
Proof.
  unfold lookup. destruct sn as [|x t] eqn:E; [contradiction Hsn; reflexivity|].
  cbn [lookup_raw]. rewrite path_eqb_refl. reflexivity.
Qed.

Lemma zlen_nonneg : forall A (l : list A), 0 <= zlen l.
Proof. intros. unfold zlen. lia. Qed.

Lemma bb_prepare_metadata : forall X H, pres (Bq X H) (Bq X H) prepare_metadata_pdu.
Proof.
  intros X H s Hs. dcore Hs. unfold prepare_metadata_pdu.
  rewrite (b_put_or_assert _ _ Hput), !b_gq, Hnames. cbv beta iota zeta.
  rewrite (b_srcfg _ _ Hrc), b_gq.
  apply pres_sadd; [|exact Hs]. cbn [gen]. rewrite Hh, Hfsz. repeat split; reflexivity.
Qed.

Lemma gen_fd : forall H off len, 0 <= off -> 0 < len -> off + len <= zlen data ->
  gen data s_ty H sn dn (PFileData H off (ztake len (zdrop off data))).
Proof.
  intros H off len Ho Hl Hn. cbn [gen]. rewrite (zlen_read data off len) by lia.
  repeat split; try lia; reflexivity.
Qed.

Lemma bb_prepare_file_data : forall X H off len,
  0 <= off -> 0 < len -> off + len <= zlen data -> pres (Bq X H) (Bq X H) (prepare_file_data_pdu off len).
Proof.
  intros X H off len Ho Hl Hn s Hs. dcore Hs. unfold prepare_file_data_pdu.
  rewrite (b_src_names _ _ Hput), b_gets. cbn [fst]. rewrite Hfs. unfold fs_read_data. rewrite lookup_sn.
  rewrite b_gq. apply pres_sadd; [|exact Hs]. rewrite Hh. apply gen_fd; assumption.
Qed.

Lemma bb_retransmit_chunks : forall X H seg, 1 <= seg -> forall fuel off missing,
  0 <= off -> off + missing <= zlen data -> pres (Bq X H) (Bq X H) (retransmit_chunks fuel off missing seg).
Proof.
  intros X H seg Hs1. induction fuel as [|k IH]; intros off missing Ho Hn; cbn [retransmit_chunks];
    destruct (0 <? missing) eqn:Hm; try apply pres_ret; try apply pres_raise.
  apply Z.ltb_lt in Hm.
  apply (pres_bind _ (Bq X H) _); [| trivial | intros _].
  - apply bb_prepare_file_data; lia.
  - apply IH; lia.
Qed.

Lemma bb_segment_req : forall X H rq, 0 <= fst rq -> pres (Bq X H) (Bq X H) (handle_segment_req rq).
Proof.
  intros X H [a b] Ha. cbn [fst] in Ha. unfold handle_segment_req.
  destruct ((a =? 0) && (b =? 0)); [apply bb_prepare_metadata|].
  destruct (b <? a) eqn:E1; [apply pres_raise|]. apply Z.ltb_ge in E1.
  intros s Hs. dcore Hs. rewrite b_gq.
  destruct (q_progress (s_p s) <? a) eqn:E2; [exact Hs|]. apply Z.ltb_ge in E2.
  destruct (q_progress (s_p s) <? b) eqn:E3; [exact Hs|]. apply Z.ltb_ge in E3.
  rewrite b_gq. apply bb_retransmit_chunks; try assumption; lia.
Qed.

Lemma bb_fold_requests : forall X H reqs (m0 : SM unit),
  Forall (fun rq => 0 <= fst rq) reqs -> pres (Bq X H) (Bq X H) m0 ->
  pres (Bq X H) (Bq X H) (fold_left (fun m rq => (m ;;; handle_segment_req rq)%monad) reqs m0).
Proof.
  intros X H. induction reqs as [|rq reqs IH]; intros m0 HF H0; cbn [fold_left]; [exact H0|].
  inversion HF as [|x xs Hx Hxs]; subst x xs.
  apply IH; [exact Hxs|].
  apply (pres_bind _ (Bq X H) _); [exact H0 | trivial | intros _; apply bb_segment_req; exact Hx].
Qed.

(* the step at the time of the call is remembered: it has to be one in which the handler may rest *)
Lemma bb_retransmission_nak : forall (X : Z -> option Z -> Z -> Prop) H h a b reqs,
  (forall st sb pr, X st sb pr -> stepok pr st) -> Forall (fun rq => 0 <= fst rq) reqs ->
  pres (Bq X H) (B H) (handle_retransmission (Some (PNak h a b reqs))).
Proof.
  intros X H h a b reqs HX Hrq. cbn [handle_retransmission].
  apply (pres_bind _ (Bq X H) _); [| | intros _].
  - apply bb_fold_requests; [exact Hrq | apply pres_ret].
  - intros s [Hc Hx]. split; [exact Hc | left; exact (HX _ _ _ Hx)].
  - intros s Hs. rewrite b_get. unfold put, bind, ret. cbn [fst]. destruct s. unfold Bq, core, frame, steps in *. cbn in *.
    destruct Hs as [HC Hx]. split; [exact HC|].
    right. split; [reflexivity|]. eexists. split; [reflexivity | exact (HX _ _ _ Hx)].
Qed.

Lemma handle_retransmission_other : forall pkt,
  match pkt with Some (PNak _ _ _ _) => False | _ => True end -> handle_retransmission pkt = ret false.
Proof. intros [[]|] Hp; try reflexivity. contradiction. Qed.

(* ------------------------------------------------------------------ the EOF PDU *)
Lemma cksum_conv : forall seg ck, 1 <= seg ->
  calculate_checksum (r_cktype rs) (Some data) (zlen data) seg = Ok ck ->
  calculate_checksum s_ty (Some data) (zlen data) 4096 = Ok ck.
Proof.
  intros seg ck Hs1 Hc. unfold s_ty. pose proof (zlen_nonneg _ data) as Hn.
  rewrite (calc_crc_chunk_independent _ _ _ seg) in Hc by (try assumption; lia).
  rewrite (calc_crc_chunk_independent _ _ _ 4096) by (try assumption; lia). exact Hc.
Qed.

Lemma cktype_not_null : (r_cktype rs =? CK_NULL) = false.
Proof. destruct Hty as [E|E]; rewrite E; reflexivity. Qed.

Lemma cksum_res : forall X H s sz, Bq X H s -> sz = zlen data ->
  match checksum_calculation sz s with
  | (s', Ok ck) => s' = s /\ calculate_checksum s_ty (Some data) (zlen data) 4096 = Ok ck
  | (s', Err _) => s' = s
  end.
Proof.
  intros X H s sz Hs Hsz. dcore Hs. subst sz. unfold checksum_calculation.
  rewrite (b_put_or_assert _ _ Hput), b_gq, Hmd. cbv beta iota. rewrite Hnames. cbv beta iota.
  rewrite (b_srcfg _ _ Hrc), b_gq, b_gets, Hfs, cktype_not_null, lookup_sn. cbv beta iota.
  destruct (calculate_checksum (r_cktype rs) (Some data) (zlen data) (q_segment_len (s_p s))) as [c|e] eqn:E.
  - split; [reflexivity | exact (cksum_conv _ _ Hsl E)].
  - destruct e; reflexivity.
Qed.

Lemma bb_prepare_eof : forall (X : Z -> option Z -> Z -> Prop) H ck,
  (forall st sb pr, X st sb pr -> pr = zlen data) ->
  calculate_checksum s_ty (Some data) (zlen data) 4096 = Ok ck ->
  pres (Bq X H) (Bq X H) (prepare_eof_pdu ck).
Proof.
  intros X H ck HXf Hck s Hs. dcore Hs. unfold prepare_eof_pdu. rewrite b_gq.
  destruct (q_cond_eof (s_p s)) as [cond|]; [|exact Hs]. rewrite !b_gq.
  refine (pres_bind (Bq X H) (Bq X H) (Bq X H) _ _ _ _ _ s Hs); [| trivial | intros _; bb].
  apply pres_sadd. cbn [gen]. rewrite Hh. split; [reflexivity|]. split; [exact (HXf _ _ _ HX) | exact Hck].
Qed.

Lemma bb_eof_then : forall {C} (X : Z -> option Z -> Z -> Prop) H (Q : src -> Prop) sz (k : SM C),
  (forall st sb pr, X st sb pr -> pr = zlen data) -> (forall s, Bq X H s -> Q s) -> pres (Bq X H) Q k ->
  forall s, Bq X H s -> sz = zlen data ->
  Q (fst ((ck <- checksum_calculation sz ;; prepare_eof_pdu ck ;;; k)%monad s)).
Proof.
  intros C X H Q sz k HX HQ Hk s Hs Hsz. pose proof (cksum_res X H s sz Hs Hsz) as Hc. unfold bind at 1.
  destruct (checksum_calculation sz s) as [s' [ck|e]].
  - destruct Hc as [-> Hc].
    refine (pres_bind (Bq X H) (Bq X H) Q _ _ _ HQ _ s Hs); [apply bb_prepare_eof; assumption | intros _; exact Hk].
  - subst s'. cbn [fst]. apply HQ, Hs.
Qed.

Lemma bb_eof_last : forall (X : Z -> option Z -> Z -> Prop) H sz,
  (forall st sb pr, X st sb pr -> pr = zlen data) ->
  forall s, Bq X H s -> sz = zlen data ->
  Bq X H (fst ((ck <- checksum_calculation sz ;; prepare_eof_pdu ck)%monad s)).
Proof.
  intros X H sz HX s Hs Hsz. pose proof (cksum_res X H s sz Hs Hsz) as Hc. unfold bind.
  destruct (checksum_calculation sz s) as [s' [ck|e]].
  - destruct Hc as [-> Hc]. apply bb_prepare_eof; assumption.
  - subst s'. exact Hs.
Qed.

Lemma lateF_pr : forall st sb pr, lateF st sb pr -> pr = zlen data.
Proof. intros st sb pr [_ E]. exact E. Qed.
Lemma lateF_stepok : forall st sb pr, lateF st sb pr -> stepok pr st.
Proof. intros st sb pr E. right. right. exact E. Qed.

(* ------------------------------------------------------------------ functions that may end the transaction *)
Ltac late := ss; lia.

Ltac bj_step :=
  cbv beta zeta;
  match goal with
  | |- pres (Bq lateF ?H) (SI ?H) _ => solve [apply (pres_post _ (Bq lateF H)); [apply lateF_J | bb]]
  | |- pres (Bq steps ?H) (SI ?H) _ => solve [apply (pres_post _ (Bq steps H)); [apply B_J | bb]]
  | |- pres (Bq lateF ?H) (SI ?H) (sset_step _) =>
      apply (pres_post _ (Bq steps H)); [apply B_J | apply pres_sset_late; [exact lateF_pr | late]]
  | |- pres (Bq _ ?H) (SI ?H) (sreset_internal _) => apply (pres_post _ (R H)); [apply R_J | apply pres_reset]
  | |- pres (Bq lateF ?H) (SI ?H) (bind _ _) =>
      apply (pres_bind _ (Bq lateF H) _); [solve [bb] | apply lateF_J | intro]
  | |- pres (Bq steps ?H) (SI ?H) (bind _ _) =>
      apply (pres_bind _ (Bq steps H) _); [solve [bb] | apply B_J | intro]
  | |- pres _ _ (when ?b _) => destruct b; [rewrite when_true | rewrite when_false]
  | |- pres _ _ (if ?b then _ else _) => destruct b
  | |- pres _ _ (match ?x with _ => _ end) => destruct x
  | |- pres _ _ ?m => let h := mhead m in unfold h
  end.
Ltac bj := repeat bj_step.

Lemma bj_start_positive_ack : forall H, pres (Bq lateF H) (J H) start_positive_ack_procedure_s.
Proof.
  intros H. unfold start_positive_ack_procedure_s.
  apply (pres_bind _ (Bq lateF H) _); [bb | apply lateF_J | intro r].
  apply (pres_bind _ (Bq lateF H) _); [bb | apply lateF_J | intro nw].
  apply (pres_bind _ (B H) _); [apply pres_sset_late; [exact lateF_pr | late] | apply B_J | intros _].
  bj.
Qed.

Lemma bj_notice_of_completion : forall H, pres (Bq lateF H) (J H) notice_of_completion_s.
Proof. intros H. bj. Qed.

Lemma bj_handle_eof_sent : forall H ce, pres (Bq lateF H) (J H) (handle_eof_sent ce).
Proof.
  intros H ce. unfold handle_eof_sent.
  apply (pres_bind _ (Bq lateF H) _); [bb | apply lateF_J | intro ac].
  destruct ac; [apply bj_start_positive_ack|].
  destruct ce.
  - apply (pres_bind _ (Bq lateF H) _); [bb | apply lateF_J | intro c].
    destruct c; [|bj].
    apply (pres_bind _ (Bq lateF H) _); [bb | apply lateF_J | intros _]. apply bj_notice_of_completion.
  - apply (pres_bind _ (Bq lateF H) _); [bb | apply lateF_J | intro cl].
    destruct cl; [|bj].
    do 3 (apply (pres_bind _ (Bq lateF H) _); [bb | apply lateF_J | intro]).
    apply (pres_bind _ (Bq lateF H) _); [bb | apply lateF_J | intros _]. bj.
Qed.

Lemma bj_abandon : forall H c, pres (Bq lateF H) (J H)
  (t <- stid_or_assert ;; pr <- gq q_progress ;; semit (EvFault FH_ABANDON (fst t) (snd t) c pr) ;;;
   sreset_internal true ;;; ret false)%monad.
Proof.
  intros H c.
  do 3 (apply (pres_bind _ (Bq lateF H) _); [bb | apply lateF_J | intro]).
  apply (pres_bind _ (R H) _); [apply pres_reset | apply R_J | intros _].
  apply (pres_post _ (R H)); [apply R_J | apply pres_ret].
Qed.

Lemma bj_cancel_branch : forall H cond, pres (Bq lateF H) (J H)
  (setq (fun q => q <| q_cond_eof := Some cond |>) ;;;
   pr <- gq q_progress ;; ck <- checksum_calculation pr ;;
   prepare_eof_pdu ck ;;; handle_eof_sent true ;;; ret true)%monad.
Proof.
  intros H cond.
  apply (pres_bind _ (Bq lateF H) _); [bb | apply lateF_J | intros _].
  intros s Hs. rewrite b_gq.
  apply (bb_eof_then lateF H (J H)); [exact lateF_pr | apply lateF_J | | exact Hs | exact (lateF_pr _ _ _ (proj2 Hs))].
  apply (pres_bind _ (J H) _); [apply bj_handle_eof_sent | trivial | intros _; apply pres_ret].
Qed.

Lemma bj_notice_of_cancellation : forall H cond, pres (Bq lateF H) (J H) (notice_of_cancellation_s cond).
Proof.
  intros H cond s Hs. unfold notice_of_cancellation_s. rewrite b_gq.
  destruct (q_cond_eof (s_p s)) as [c0|]; [|exact (bj_cancel_branch H cond s Hs)].
  destruct (negb (c0 =? C_NO_ERROR)); [exact (bj_abandon H c0 s Hs) | exact (bj_cancel_branch H cond s Hs)].
Qed.

Lemma jj_fr {A} H (m : SM A) : FR m -> pres (J H) (J H) m.
Proof. apply pres_fr, vdet_J. Qed.

Lemma bj_declare_fault : forall H cond, pres (Bq lateF H) (J H) (declare_fault_s cond).
Proof.
  intros H cond. unfold declare_fault_s.
  apply (pres_bind _ (Bq lateF H) _); [bb | apply lateF_J | intro l].
  apply (pres_bind _ (Bq lateF H) _); [bb | apply lateF_J | intro tid].
  apply (pres_bind _ (Bq lateF H) _); [bb | apply lateF_J | intro pr].
  destruct tid as [[x y]|]; [|bj].
  apply (pres_bind _ (J H) _); [| trivial | intro go].
  - destruct (get_fault_handler (l_faults l) cond) as [h|]; [|bj].
    destruct (h =? FH_CANCEL); [apply bj_notice_of_cancellation|].
    destruct (h =? FH_ABANDON); [|bj].
    apply (pres_bind _ (R H) _); [apply pres_reset | apply R_J | intros _].
    apply (pres_post _ (R H)); [apply R_J | apply pres_ret].
  - apply jj_fr. minv.
Qed.

(* F34 repair: a limit fault whose handler is IGNORE leaves the transaction as it is (one callback), and the procedure
   that declared it carries on *)
Lemma bb_declare_fault_ignored : forall H cond s, Bq lateF H s -> fault_ignored (s_cfg s) cond = true ->
  Bq lateF H (fst (declare_fault_s cond s)).
Proof.
  intros H cond s Hs Hi. unfold declare_fault_s. rewrite b_gets, b_gq, b_gq.
  unfold fault_ignored in Hi.
  destruct (q_tid (s_p s)) as [[x y]|]; [|exact Hs].
  destruct (get_fault_handler (l_faults (s_cfg s)) cond) as [h|]; [|discriminate Hi].
  apply Z.eqb_eq in Hi. subst h.
  change (FH_IGNORE =? FH_CANCEL) with false. change (FH_IGNORE =? FH_ABANDON) with false. cbv iota.
  rewrite b_ret. change (negb true) with false. cbv iota.
  generalize (EvFault FH_IGNORE x y cond (q_progress (s_p s))). intro ev.
  revert s Hs. change (pres (Bq lateF H) (Bq lateF H) (semit ev)).
  bb.
Qed.

Lemma bj_declare_fault_then : forall H cond (k : SM unit), pres (Bq lateF H) (J H) k ->
  pres (Bq lateF H) (J H)
    (declare_fault_s cond ;;; l <- gets s_cfg ;; if fault_ignored l cond then k else ret tt)%monad.
Proof.
  intros H cond k Hk s Hs.
  pose proof (bj_declare_fault H cond s Hs) as HJ.
  pose proof (bb_declare_fault_ignored H cond s Hs) as HI.
  unfold bind at 1. destruct (declare_fault_s cond s) as [s1 [u|e]]; cbn [fst] in *; [|exact HJ].
  rewrite b_gets.
  assert (Ec : s_cfg s1 = s_cfg s).
  { destruct Hs as [((Ec & _) & _) _]. rewrite Ec. destruct HJ as [[((Ec1 & _) & _) _]|((Ec1 & _) & _)]; exact Ec1. }
  rewrite Ec. destruct (fault_ignored (s_cfg s) cond); [|exact HJ].
  apply Hk, HI. reflexivity.
Qed.

Lemma bj_positive_ack : forall H, pres (Bq lateF H) (J H) handle_positive_ack_procedures_s.
Proof.
  intros H. unfold handle_positive_ack_procedures_s.
  apply (pres_bind _ (Bq lateF H) _); [bb | apply lateF_J | intro t].
  destruct t as [tm|]; [|bj].
  apply (pres_bind _ (Bq lateF H) _); [bb | apply lateF_J | intro r].
  apply (pres_bind _ (Bq lateF H) _); [bb | apply lateF_J | intro nw].
  destruct (negb (timed_out nw tm)); [bj|].
  apply (pres_bind _ (Bq lateF H) _); [bb | apply lateF_J | intro cnt].
  cbv zeta.
  assert (Hre : pres (Bq lateF H) (J H)
    (setq (fun q => q <| q_ack_timer := Some (nw, snd tm) |> <| q_ack_counter := cnt + 1 |>) ;;;
     pr <- gq q_progress ;; ck <- checksum_calculation pr ;; prepare_eof_pdu ck)%monad).
  { apply (pres_post _ (Bq lateF H)); [apply lateF_J|].
    apply (pres_bind _ (Bq lateF H) _); [bb | trivial | intros _].
    intros s Hs. rewrite b_gq.
    apply bb_eof_last; [exact lateF_pr | exact Hs | exact (lateF_pr _ _ _ (proj2 Hs))]. }
  destruct (r_ack_limit r <=? cnt + 1); [|exact Hre].
  apply bj_declare_fault_then. exact Hre.
Qed.

Lemma pres_bind_ret {A C} (P Q : src -> Prop) (a : A) (k : A -> SM C) : pres P Q (k a) -> pres P Q (bind (ret a) k).
Proof. intros Hk s Hs. exact (Hk s Hs). Qed.

Lemma retr_true : forall h a b reqs s s' r,
  handle_retransmission (Some (PNak h a b reqs)) s = (s', Ok r) -> r = true.
Proof.
  intros h a b reqs s s' r E. cbn [handle_retransmission] in E. unfold bind at 1 in E.
  destruct (fold_left _ reqs (ret tt) s) as [s1 [u|e]]; [|discriminate E].
  unfold bind, get, put, ret in E. inversion E. reflexivity.
Qed.

Lemma nak_bind : forall {C} (X : Z -> option Z -> Z -> Prop) H (Q : src -> Prop) h a b reqs (k : bool -> SM C),
  (forall st sb pr, X st sb pr -> stepok pr st) -> Forall (fun rq => 0 <= fst rq) reqs ->
  (forall s, B H s -> Q s) -> pres (B H) Q (k true) ->
  pres (Bq X H) Q (bind (handle_retransmission (Some (PNak h a b reqs))) k).
Proof.
  intros C X H Q h a b reqs k HX Hrq HQ Hk s Hs.
  pose proof (bb_retransmission_nak X H h a b reqs HX Hrq s Hs) as Hb. unfold bind.
  destruct (handle_retransmission (Some (PNak h a b reqs)) s) as [s1 [r|e]] eqn:E; cbn [fst] in Hb |- *.
  - apply retr_true in E. subst r. apply Hk, Hb.
  - apply HQ, Hb.
Qed.

Lemma bj_waiting_for_ack : forall H pkt, nak_ok_o pkt -> pres (Bq lateF H) (J H) (handle_waiting_for_ack pkt).
Proof.
  intros H pkt Hpk. unfold handle_waiting_for_ack.
  destruct pkt as [[]|];
    try (rewrite handle_retransmission_other by exact I; apply pres_bind_ret; cbv iota);
    try apply bj_positive_ack; try solve [bj].
  apply nak_bind; [exact lateF_stepok | exact Hpk | apply B_J | cbv iota].
  apply (pres_post _ (B H)); [apply B_J | apply pres_ret].
Qed.

Lemma bj_check_timer : forall H, pres (Bq lateF H) (J H)
  (t <- gq q_check_timer ;; n0 <- snow ;;
   match t with
   | Some tm =>
       when (timed_out n0 tm)
         (declare_fault_s C_CHECK_LIMIT ;;;
          l <- gets s_cfg ;;
          when (fault_ignored l C_CHECK_LIMIT) (setq (fun q => q <| q_check_timer := Some (n0, snd tm) |>)))
   | None => ret tt
   end)%monad.
Proof.
  intros H.
  apply (pres_bind _ (Bq lateF H) _); [bb | apply lateF_J | intro t].
  apply (pres_bind _ (Bq lateF H) _); [bb | apply lateF_J | intro nw].
  destruct t as [tm|]; [|bj]. destruct (timed_out nw tm); [rewrite when_true | rewrite when_false; bj].
  apply (bj_declare_fault_then H C_CHECK_LIMIT (setq (fun q => q <| q_check_timer := Some (nw, snd tm) |>))).
  apply (pres_post _ (Bq lateF H)); [apply lateF_J | bb].
Qed.

Lemma bj_finish_rest : forall H pkt, pres (Bq lateF H) (J H)
  (match pkt with
   | Some (PFinished _ cond deliv fstatus fl) =>
      setq (fun q => q <| q_fin := Some (cond, deliv, fstatus, fl) |>) ;;;
      ac <- smode_is ACKED ;;
      if ac then
        c <- gq q_conf ;;
        sadd_packet (PAck (hdr_of c TOWARDS_RECEIVER) D_FINISHED cond TS_ACTIVE) ;;;
        sset_step SS_SENDING_ACK_OF_FINISHED
      else sset_step SS_NOTICE_OF_COMPLETION
   | _ =>
      t <- gq q_check_timer ;; n <- snow ;;
      match t with
      | Some tm =>
          when (timed_out n tm)
            (declare_fault_s C_CHECK_LIMIT ;;;
             l <- gets s_cfg ;;
             when (fault_ignored l C_CHECK_LIMIT) (setq (fun q => q <| q_check_timer := Some (n, snd tm) |>)))
      | None => ret tt
      end
   end)%monad.
Proof.
  intros H pkt. destruct pkt as [[]|]; try apply bj_check_timer.
  apply (pres_bind _ (Bq lateF H) _); [bb | apply lateF_J | intros _].
  apply (pres_bind _ (Bq lateF H) _); [bb | apply lateF_J | intro ac2].
  destruct ac2; [|bj].
  apply (pres_bind _ (Bq lateF H) _); [bb | apply lateF_J | intro c].
  apply (pres_bind _ (Bq lateF H) _); [bb | apply lateF_J | intros _]. bj.
Qed.

Lemma bj_wait_for_finish : forall H pkt, nak_ok_o pkt -> pres (Bq lateF H) (J H) (handle_wait_for_finish pkt).
Proof.
  intros H pkt Hpk. unfold handle_wait_for_finish.
  apply (pres_bind _ (Bq lateF H) _); [bb | apply lateF_J | intro ac].
  assert (Hrest : pres (Bq lateF H) (J H)
    (bind (ret false) (fun rt : bool => if rt then ret tt else
       match pkt with
       | Some (PFinished _ cond deliv fstatus fl) =>
          setq (fun q => q <| q_fin := Some (cond, deliv, fstatus, fl) |>) ;;;
          ac <- smode_is ACKED ;;
          if ac then
            c <- gq q_conf ;;
            sadd_packet (PAck (hdr_of c TOWARDS_RECEIVER) D_FINISHED cond TS_ACTIVE) ;;;
            sset_step SS_SENDING_ACK_OF_FINISHED
          else sset_step SS_NOTICE_OF_COMPLETION
       | _ =>
          t <- gq q_check_timer ;; n <- snow ;;
          match t with
          | Some tm =>
              when (timed_out n tm)
                (declare_fault_s C_CHECK_LIMIT ;;;
                 l <- gets s_cfg ;;
                 when (fault_ignored l C_CHECK_LIMIT) (setq (fun q => q <| q_check_timer := Some (n, snd tm) |>)))
          | None => ret tt
          end
       end)%monad)).
  { apply pres_bind_ret. cbv iota. apply bj_finish_rest. }
  destruct ac; [|exact Hrest].
  destruct pkt as [[]|]; try (rewrite handle_retransmission_other by exact I; exact Hrest).
  apply nak_bind; [exact lateF_stepok | exact Hpk | apply B_J | cbv iota].
  apply (pres_post _ (B H)); [apply B_J | apply pres_ret].
Qed.

Lemma bj_sending_eof : forall H, pres (Bq lateF H) (J H)
  (fsz <- gq q_file_size ;; ck <- checksum_calculation (opt_z fsz) ;; prepare_eof_pdu ck ;;; handle_eof_sent false)%monad.
Proof.
  intros H s Hs. rewrite b_gq.
  apply (bb_eof_then lateF H (J H)); [exact lateF_pr | apply lateF_J | apply bj_handle_eof_sent | exact Hs |].
  dcore Hs. rewrite Hfsz. reflexivity.
Qed.

(* ------------------------------------------------------------------ new file data *)
Lemma read_len_facts : forall n seg pr, 1 <= seg -> 0 <= pr < n -> (n < seg -> pr = 0 \/ pr = n) ->
  let rl := (if n <? seg then n else if n <? pr + seg then n - pr else seg) in
  0 < rl /\ pr + rl <= n /\ (n < seg -> pr + rl = 0 \/ pr + rl = n).
Proof.
  intros n seg pr H1 H2 H3. cbv zeta.
  destruct (n <? seg) eqn:E1; [apply Z.ltb_lt in E1; lia|]. apply Z.ltb_ge in E1.
  destruct (n <? pr + seg) eqn:E2; [apply Z.ltb_lt in E2 | apply Z.ltb_ge in E2]; lia.
Qed.

Lemma set_progress_ok : forall H s (f : Z -> Z),
  Bq at4 H s -> 0 <= f (q_progress (s_p s)) <= zlen data ->
  (zlen data < q_segment_len (s_p s) -> f (q_progress (s_p s)) = 0 \/ f (q_progress (s_p s)) = zlen data) ->
  Bq at4 H (fst (setq (fun q => q <| q_progress ::= f |>) s)).
Proof.
  intros H s f Hs H1 H2. unfold setq, modify. cbn [fst]. destruct s as [c0 st0 sp0 rd0 qu0 pa0 sb0 pt0 sc0 sbt0 en0].
  destruct pa0. unf. cbn in *. intuition.
Qed.

Lemma bb_progressing : forall H s, Bq at4 H s -> q_progress (s_p s) < zlen data ->
  Bq at4 H (fst (prepare_progressing_file_data_pdu s)).
Proof.
  intros H s Hs Hlt. dcore Hs. unfold prepare_progressing_file_data_pdu. rewrite b_gq. cbv zeta. rewrite Hfsz.
  cbn [opt_z].
  destruct (read_len_facts (zlen data) (q_segment_len (s_p s)) (q_progress (s_p s)) Hsl) as (R1 & R2 & R3);
    [lia | exact Hsm |].
  cbv zeta in R1, R2, R3.
  set (rl := if zlen data <? q_segment_len (s_p s) then zlen data
             else if zlen data <? q_progress (s_p s) + q_segment_len (s_p s) then zlen data - q_progress (s_p s)
             else q_segment_len (s_p s)) in *.
  unfold bind.
  pose proof (bb_prepare_file_data at4 H (q_progress (s_p s)) rl (proj1 Hpr) R1 R2 s Hs) as Hb.
  destruct (prepare_file_data_pdu (q_progress (s_p s)) rl s) as [s1 [u|e]] eqn:E; cbn [fst] in Hb |- *; [|exact Hb].
  (* the file data function leaves progress and segment length alone *)
  assert (Eq : q_progress (s_p s1) = q_progress (s_p s) /\ q_segment_len (s_p s1) = q_segment_len (s_p s)).
  { assert (M : MInv (fun s => (q_progress (s_p s), q_segment_len (s_p s))) Any
                  (prepare_file_data_pdu (q_progress (s_p s)) rl)) by minv.
    pose proof (minv_state _ _ _ s M) as Ms. rewrite E in Ms. cbn [fst] in Ms. inversion Ms. split; reflexivity. }
  destruct Eq as [Eq1 Eq2].
  apply set_progress_ok; [exact Hb | rewrite Eq1; lia | rewrite Eq1, Eq2; exact R3].
Qed.

Lemma at4_stepok : forall st sb pr, at4 st sb pr -> stepok pr st.
Proof. intros st sb pr E. right. left. exact E. Qed.

Lemma bb_to_eof : forall X H s, Bq X H s -> q_progress (s_p s) = zlen data ->
  B H (fst ((setq (fun q => q <| q_cond_eof := Some C_NO_ERROR |>) ;;; sset_step SS_SENDING_EOF)%monad s)).
Proof.
  intros X H s Hs Hp.
  assert (Hf : Bq full H s) by (split; [apply Hs | exact Hp]).
  assert (H1 : Bq full H (fst (setq (fun q => q <| q_cond_eof := Some C_NO_ERROR |>) s))).
  { assert (Hq : pres (Bq full H) (Bq full H) (setq (fun q => q <| q_cond_eof := Some C_NO_ERROR |>))) by bb.
    exact (Hq s Hf). }
  change (B H (fst (sset_step SS_SENDING_EOF (fst (setq (fun q => q <| q_cond_eof := Some C_NO_ERROR |>) s))))).
  apply (sset_step_ok full); [exact H1 | right; right; split; [late | exact (proj2 H1)]].
Qed.

Lemma bb_advancement : forall H, pres (B H) (B H) fsm_advancement_s.
Proof.
  intros H s Hs. unfold fsm_advancement_s. rewrite b_get.
  destruct (0 <? zlen (s_queue s)); [exact Hs|]. cbv zeta.
  dcore Hs. destruct HX as [[E|[E|[E1 E2]]] | (E & b & Eb & Hb)].
  - rewrite E. change (SS_SENDING_METADATA =? SS_SENDING_METADATA) with true. cbv iota.
    apply (sset_step_ok steps); [exact Hs | right; left; reflexivity].
  - rewrite E. change (SS_SENDING_FILE_DATA =? SS_SENDING_METADATA) with false.
    change (SS_SENDING_FILE_DATA =? SS_RETRANSMITTING) with false.
    change (SS_SENDING_FILE_DATA =? SS_SENDING_FILE_DATA) with true. cbv iota. rewrite Hfsz.
    destruct (q_progress (s_p s) =? zlen data) eqn:Ep; [rewrite when_true | rewrite when_false; exact Hs].
    apply Z.eqb_eq in Ep. apply (bb_to_eof steps); assumption.
  - destruct (Z.eqb_spec (s_step s) SS_SENDING_METADATA) as [E|_]; [exfalso; revert E1 E; late|].
    destruct (Z.eqb_spec (s_step s) SS_RETRANSMITTING) as [E|_]; [exfalso; revert E1 E; late|].
    destruct (Z.eqb_spec (s_step s) SS_SENDING_FILE_DATA) as [E|_]; [exfalso; revert E1 E; late|].
    destruct (Z.eqb_spec (s_step s) SS_SENDING_ACK_OF_FINISHED) as [E|_]; [|exact Hs].
    apply (sset_step_ok steps); [exact Hs | right; right; split; [late | exact E2]].
  - rewrite E, Eb. change (SS_RETRANSMITTING =? SS_SENDING_METADATA) with false.
    change (SS_RETRANSMITTING =? SS_RETRANSMITTING) with true. cbv iota.
    apply (sset_step_ok steps); [exact Hs | exact Hb].
Qed.

Lemma bb_sending_rest : forall H ac, pres (Bq at4 H) (B H)
  (q <- gq (fun q => q) ;;
   if negb (q_md_only q) && (q_progress q <? opt_z (q_file_size q)) then
     (prepare_progressing_file_data_pdu ;;; ret true)
   else
     (if q_empty_file q then
        setq (fun q => q <| q_cond_eof := Some C_NO_ERROR |>) ;;; sset_step SS_SENDING_EOF
      else if q_md_only q then
        (if q_closure q || ac then sset_step SS_WAITING_FOR_FINISHED else sset_step SS_NOTICE_OF_COMPLETION)
      else ret tt) ;;;
     ret false)%monad.
Proof.
  intros H ac s Hs. dcore Hs. rewrite b_gq. rewrite Hmd, Hfsz. cbn [negb andb opt_z].
  destruct (q_progress (s_p s) <? zlen data) eqn:E; [apply Z.ltb_lt in E | apply Z.ltb_ge in E].
  - apply at4_B. pose proof (bb_progressing H s Hs E) as Hb. unfold bind.
    destruct (prepare_progressing_file_data_pdu s) as [s1 [u|e]]; exact Hb.
  - destruct (q_empty_file (s_p s)).
    + pose proof (bb_to_eof at4 H s Hs ltac:(lia)) as Hb.
      match goal with |- _ (fst (bind ?m _ s)) => unfold bind at 1; destruct (m s) as [s1 [u|e]]; exact Hb end.
    + apply at4_B. exact Hs.
Qed.

Lemma bb_sending_file_data : forall H pkt, nak_ok_o pkt -> pres (Bq at4 H) (B H) (sending_file_data_fsm pkt).
Proof.
  intros H pkt Hpk. unfold sending_file_data_fsm.
  apply (pres_bind _ (Bq at4 H) _); [bb | apply at4_B | intro ac].
  assert (Hrest : forall ac, pres (Bq at4 H) (B H)
    (bind (ret false) (fun rt : bool => if rt then ret true else
      (q <- gq (fun q => q) ;;
       if negb (q_md_only q) && (q_progress q <? opt_z (q_file_size q)) then
         (prepare_progressing_file_data_pdu ;;; ret true)
       else
         (if q_empty_file q then
            setq (fun q => q <| q_cond_eof := Some C_NO_ERROR |>) ;;; sset_step SS_SENDING_EOF
          else if q_md_only q then
            (if q_closure q || ac then sset_step SS_WAITING_FOR_FINISHED else sset_step SS_NOTICE_OF_COMPLETION)
          else ret tt) ;;;
         ret false)%monad))).
  { intro ac0. apply pres_bind_ret. cbv iota. apply bb_sending_rest. }
  destruct ac; [|exact (Hrest false)].
  destruct pkt as [[]|]; try (rewrite handle_retransmission_other by exact I; exact (Hrest true)).
  apply nak_bind; [exact at4_stepok | exact Hpk | trivial | cbv iota; apply pres_ret].
Qed.

(* ------------------------------------------------------------------ the state machine *)
Definition late_chain (pkt : option pdu) : SM unit :=
  (b <- sstep_is SS_SENDING_EOF ;;
   when b (fsz <- gq q_file_size ;; ck <- checksum_calculation (opt_z fsz) ;;
           prepare_eof_pdu ck ;;; handle_eof_sent false) ;;;
   b <- sstep_is SS_WAITING_FOR_EOF_ACK ;;
   when b (handle_waiting_for_ack pkt) ;;;
   b <- sstep_is SS_WAITING_FOR_FINISHED ;;
   when b (handle_wait_for_finish pkt) ;;;
   b <- sstep_is SS_NOTICE_OF_COMPLETION ;;
   when b notice_of_completion_s)%monad.

Definition fsm_tail (pkt : option pdu) : SM unit :=
  (b <- sstep_is SS_SENDING_METADATA ;;
   if b then prepare_metadata_pdu else
   b <- sstep_is SS_SENDING_FILE_DATA ;;
   stop <- (if b then sending_file_data_fsm pkt else ret false) ;;
   if stop then ret tt else late_chain pkt)%monad.

Lemma fsm_non_idle_eq : forall pkt, fsm_non_idle pkt =
  (fsm_advancement_s ;;;
   p <- gets s_put ;;
   match p with
   | None => ret tt
   | Some _ =>
     b <- sstep_is SS_IDLE ;; when b (sset_step SS_TRANSACTION_START) ;;;
     b <- sstep_is SS_TRANSACTION_START ;;
     when b (transaction_start ;;; sset_step SS_SENDING_METADATA) ;;;
     fsm_tail pkt
   end)%monad.
Proof. reflexivity. Qed.

Lemma steps_late : forall st sb pr, steps st sb pr -> SS_SENDING_EOF <= st <= SS_NOTICE_OF_COMPLETION -> lateF st sb pr.
Proof.
  intros st sb pr [[E|[E|E]] | (E & _)] Hl; try exact E; exfalso; revert Hl E; late.
Qed.

Lemma guard_J : forall H v (m rest : SM unit),
  SS_SENDING_EOF <= v <= SS_NOTICE_OF_COMPLETION -> pres (Bq lateF H) (J H) m -> pres (J H) (J H) rest ->
  pres (J H) (J H) (bind (sstep_is v) (fun b => bind (when b m) (fun _ => rest))).
Proof.
  intros H v m rest Hv Hm Hr s Hs. rewrite b_sstep.
  destruct (Z.eqb_spec (s_step s) v) as [E|E].
  - rewrite when_true. destruct Hs as [Hs | Hs].
    + apply (pres_bind (Bq lateF H) (J H) (J H) m (fun _ => rest)); [exact Hm | trivial | intros _; exact Hr |].
      destruct Hs as [Hc Hx]. split; [exact Hc | apply steps_late; [exact Hx | rewrite E; exact Hv]].
    + exfalso. destruct Hs as (_ & _ & _ & H0). rewrite H0 in E. subst v. revert Hv. late.
  - rewrite when_false, b_ret. apply Hr, Hs.
Qed.

Lemma guard_J_last : forall H v (m : SM unit),
  SS_SENDING_EOF <= v <= SS_NOTICE_OF_COMPLETION -> pres (Bq lateF H) (J H) m ->
  pres (J H) (J H) (bind (sstep_is v) (fun b => when b m)).
Proof.
  intros H v m Hv Hm s Hs. rewrite b_sstep.
  destruct (Z.eqb_spec (s_step s) v) as [E|E].
  - rewrite when_true. destruct Hs as [Hs | Hs].
    + apply Hm. destruct Hs as [Hc Hx]. split; [exact Hc | apply steps_late; [exact Hx | rewrite E; exact Hv]].
    + exfalso. destruct Hs as (_ & _ & _ & H0). rewrite H0 in E. subst v. revert Hv. late.
  - rewrite when_false. exact Hs.
Qed.

Lemma jj_late_chain : forall H pkt, nak_ok_o pkt -> pres (J H) (J H) (late_chain pkt).
Proof.
  intros H pkt Hpk. unfold late_chain.
  apply guard_J; [late | apply bj_sending_eof |].
  apply guard_J; [late | apply bj_waiting_for_ack, Hpk |].
  apply guard_J; [late | apply bj_wait_for_finish, Hpk |].
  apply guard_J_last; [late | apply bj_notice_of_completion].
Qed.

Lemma bj_tail : forall H pkt, nak_ok_o pkt -> pres (B H) (J H) (fsm_tail pkt).
Proof.
  intros H pkt Hpk s Hs. unfold fsm_tail. rewrite b_sstep.
  destruct (Z.eqb_spec (s_step s) SS_SENDING_METADATA) as [E3|E3].
  { apply B_J. apply bb_prepare_metadata. exact Hs. }
  rewrite b_sstep.
  destruct (Z.eqb_spec (s_step s) SS_SENDING_FILE_DATA) as [E4|E4].
  - refine (pres_bind (Bq at4 H) (B H) (J H) _ _ _ (B_J H) _ s _).
    + apply bb_sending_file_data, Hpk.
    + intros stop. destruct stop; [apply (pres_post _ (B H)); [apply B_J | apply pres_ret]|].
      apply (pres_pre (J H)); [apply B_J | apply jj_late_chain, Hpk].
    + split; [apply Hs | exact E4].
  - rewrite b_ret. cbv iota. apply jj_late_chain; [exact Hpk | apply B_J, Hs].
Qed.

(* ------------------------------------------------------------------ the start of the transaction *)
Definition tri {A} (P : src -> Prop) (Q : A -> src -> Prop) (E : src -> Prop) (m : SM A) : Prop :=
  forall s, P s -> match m s with (s', Ok a) => Q a s' | (s', Err _) => E s' end.
Lemma tri_bind {A C} (P : src -> Prop) (Q : A -> src -> Prop) (T : C -> src -> Prop) (E : src -> Prop)
  (m : SM A) (f : A -> SM C) : tri P Q E m -> (forall a, tri (Q a) T E (f a)) -> tri P T E (bind m f).
Proof.
  intros Hm Hf s Hs. specialize (Hm s Hs). unfold bind. destruct (m s) as [s1 [a|e]]; [exact (Hf a s1 Hm) | exact Hm].
Qed.
Lemma tri_pres {A} (P E : src -> Prop) (m : SM A) : (forall s, P s -> E s) -> pres P P m -> tri P (fun _ => P) E m.
Proof. intros HE Hm s Hs. specialize (Hm s Hs). destruct (m s) as [s1 [a|e]]; [exact Hm | exact (HE _ Hm)]. Qed.

(* what the start leaves alone, or must not touch *)
Definition view2 (s : src) :=
  (s_cfg s, s_put s, e_fs (s_env s), s_state s, s_step s, s_queue s,
   (q_progress (s_p s), q_segment_len (s_p s), q_file_size (s_p s), q_empty_file (s_p s), q_md_only (s_p s),
    q_rcfg (s_p s), sc_mode (q_conf (s_p s)))).
Notation FR2 m := (MInv view2 Any m).
Definition vdet2 (P : src -> Prop) : Prop := forall s s', view2 s' = view2 s -> P s -> P s'.
Lemma pres_fr2 {A} (P : src -> Prop) (m : SM A) : vdet2 P -> FR2 m -> pres P P m.
Proof. intros HP Hm s H. apply (HP s); [|exact H]. apply (minv_state _ _ _ s Hm). Qed.

Definition P1 (s : src) : Prop := SIpre s /\ q_file_size (s_p s) = Some (zlen data).
Definition P2 (s : src) : Prop := P1 s /\ 1 <= q_segment_len (s_p s).

Ltac vd2 :=
  let s := fresh "s" in let s' := fresh "s'" in let Hv := fresh "Hv" in let Hp := fresh "Hp" in
  intros s s' Hv Hp; unfold view2 in Hv; injection Hv; clear Hv; intros;
  unfold P2, P1, SIpre, frame in *;
  repeat match goal with E : _ = _ |- _ => first [rewrite E | idtac]; clear E end; exact Hp.
Lemma vdet2_pre : vdet2 SIpre. Proof. vd2. Qed.
Lemma vdet2_P1 : vdet2 P1. Proof. vd2. Qed.
Lemma vdet2_P2 : vdet2 P2. Proof. vd2. Qed.

Lemma P1_pre : forall s, P1 s -> SIpre s. Proof. intros s H. apply H. Qed.
Lemma P2_pre : forall s, P2 s -> SIpre s. Proof. intros s H. apply H. Qed.

Lemma ts_file_params : tri SIpre (fun _ => P1) SIpre
  (fs <- gets (fun s => e_fs (s_env s)) ;;
   if negb (fs_file_exists fs sn) then raise E_SOURCE_FILE_MISSING else
   match fs_file_size fs sn with
   | Err e => raise (oserr_exn e)
   | Ok size => if size =? 0 then setq (fun q => q <| q_empty_file := true |>)
                else setq (fun q => q <| q_file_size := Some size |>)
   end)%monad.
Proof.
  intros s Hs. rewrite b_gets.
  assert (Hfs : e_fs (s_env s) = [(sn, File data)]) by apply Hs. rewrite Hfs.
  unfold fs_file_exists, exists_, fs_file_size. rewrite lookup_sn. cbn [negb].
  destruct (zlen data =? 0) eqn:E; [apply Z.eqb_eq in E | apply Z.eqb_neq in E];
    unfold setq, modify; destruct s as [c0 st0 sp0 rd0 qu0 pa0 sb0 pt0 sc0 sbt0 en0]; destruct pa0;
    unfold P1, SIpre, frame in *; cbn in *; rewrite ?E in *; intuition.
Qed.

Lemma ts_segment_len : forall c, tri P1 (fun _ => P2) SIpre
  (match max_file_seg_len (hdr_of c TOWARDS_RECEIVER) (r_max_packet rs) with
   | None => raise E_VALUE
   | Some derived =>
       let h := hdr_of c TOWARDS_RECEIVER in
       if r_max_packet rs <? hdr_len h + 1 + 1 + 4 + fss_len h + crc_len h then raise E_VALUE else
       let seg := match r_max_seg rs with
                  | Some m => if m <? derived then m else derived
                  | None => derived end in
       setq (fun q => q <| q_segment_len := seg |>)
   end)%monad.
Proof.
  intros c s Hs. set (h := hdr_of c TOWARDS_RECEIVER).
  unfold max_file_seg_len.
  destruct (r_max_packet rs <? hdr_len h + fss_len h + crc_len h) eqn:E0; [exact (P1_pre _ Hs)|]. apply Z.ltb_ge in E0.
  cbv zeta.
  destruct (r_max_packet rs <? hdr_len h + 1 + 1 + 4 + fss_len h + crc_len h) eqn:E1; [exact (P1_pre _ Hs)|].
  apply Z.ltb_ge in E1.
  set (seg := match r_max_seg rs with Some m => if m <? _ then m else _ | None => _ end).
  assert (Hs1 : 1 <= seg).
  { subst seg. destruct (r_max_seg rs) as [m|]; [destruct (m <? _)|]; lia. }
  clearbody seg. unfold setq, modify.
  destruct s as [c0 st0 sp0 rd0 qu0 pa0 sb0 pt0 sc0 sbt0 en0]; destruct pa0.
  unfold P2, P1, SIpre, frame in *; cbn in *. intuition.
Qed.

Ltac t2_step :=
  cbv beta zeta;
  match goal with
  | |- pres ?P ?P _ =>
      solve [apply pres_fr2; [first [apply vdet2_pre | apply vdet2_P1 | apply vdet2_P2] | minv]]
  end.

Lemma ts_spec : tri SIpre (fun _ => P2) SIpre transaction_start.
Proof.
  intros s Hs. unfold transaction_start.
  assert (Hput : s_put s = Some p) by apply Hs.
  rewrite (b_put_or_assert _ _ Hput). cbv zeta. rewrite Hnames. cbv beta iota.
  clear Hput. revert s Hs.
  match goal with |- forall s0, SIpre s0 -> match ?m s0 with _ => _ end => change (tri SIpre (fun _ : unit => P2) SIpre m) end.
  apply (tri_bind _ (fun _ => P1)); [exact ts_file_params | intros _].
  intros s Hs.
  assert (Hrc : q_rcfg (s_p s) = Some rs) by apply Hs.
  assert (Hmd : q_md_only (s_p s) = false) by apply Hs.
  assert (Hfsz : q_file_size (s_p s) = Some (zlen data)) by apply Hs.
  rewrite (b_srcfg _ _ Hrc), b_gets, !b_gq, Hfsz, Hmd. cbn [negb]. rewrite when_true.
  clear Hrc Hmd Hfsz. generalize (s_cfg s). intro l. revert s Hs.
  match goal with |- forall s0, P1 s0 -> match ?m s0 with _ => _ end => change (tri P1 (fun _ : unit => P2) SIpre m) end.
  apply (tri_bind _ (fun _ => P1)); [apply tri_pres; [exact P1_pre | t2_step] | intros _].
  apply (tri_bind _ (fun _ => P1)); [apply tri_pres; [exact P1_pre | t2_step] | intros _].
  intros s Hs. rewrite b_get. cbv zeta. rewrite b_put.
  assert (Hs' : P1 (s <| s_seq_count := s_seq_count s + 1 |>)) by (apply (vdet2_P1 s); [reflexivity | exact Hs]).
  set (s' := s <| s_seq_count := s_seq_count s + 1 |>) in *. clearbody s'.
  generalize (s_seq_bits s) (s_seq_count s). clear s Hs. intros sbits next. revert s' Hs'.
  match goal with |- forall s0, P1 s0 -> match ?m s0 with _ => _ end => change (tri P1 (fun _ : unit => P2) SIpre m) end.
  apply (tri_bind _ (fun _ => P1)); [apply tri_pres; [exact P1_pre | t2_step] | intros _].
  apply (tri_bind _ (fun _ => P1)); [apply tri_pres; [exact P1_pre | t2_step] | intros c].
  apply (tri_bind _ (fun _ => P2)); [exact (ts_segment_len c) | intros _].
  apply tri_pres; [exact P2_pre | t2_step].
Qed.

(* ------------------------------------------------------------------ the interface *)
Lemma si_put : forall s1 r, put_request p (src_fresh cs seq0 bits [(sn, File data)]) = (s1, r) -> SIpre s1.
Proof using All.
  intros s1 r E. unfold put_request in E. rewrite b_get in E.
  change (s_state (src_fresh cs seq0 bits [(sn, File data)])) with ST_IDLE in E.
  change (negb (ST_IDLE =? ST_IDLE)) with false in E. cbv iota in E. rewrite b_put in E.
  rewrite Hnames in E.
  change (e_fs (s_env (src_fresh cs seq0 bits [(sn, File data)]))) with [(sn, File data)] in E.
  unfold fs_file_exists, exists_ in E. rewrite lookup_sn in E. rewrite b_ret in E.
  change (s_cfg (src_fresh cs seq0 bits [(sn, File data)])) with cs in E. rewrite Hrem in E.
  unfold setq, modify, bind, ret in E. injection E as E _. subst s1.
  unfold SIpre, frame, src_fresh, src_init, init_sparams. cbn.
  repeat split; try reflexivity; try (left; reflexivity). discriminate.
Qed.

Lemma si_pre_queue : forall s, SIpre s -> s_queue s = [].
Proof using All. intros s Hs. apply Hs. Qed.

Lemma si_queue : forall H s, SI H s -> Forall (gen data s_ty H sn dn) (s_queue s).
Proof using All. intros H s [Hs | Hs]; apply Hs. Qed.

Lemma si_pre_drain : forall s, SIpre s -> SIpre (fst (drain_s s)).
Proof using All. intros s Hs. unfold drain_s. cbn [fst]. destruct s. unf. cbn in *. tauto. Qed.

Lemma si_drain : forall H s, SI H s -> SI H (fst (drain_s s)).
Proof using All.
  intros H s Hs. unfold drain_s. cbn [fst]. destruct s. unf. cbn in *.
  destruct Hs as [Hs | Hs]; [left | right]; intuition.
Qed.

Lemma si_pre_clock : forall s f, SIpre s -> SIpre (s <| s_env ::= (fun e => e <| e_now ::= f |>) |>).
Proof using All. intros s f Hs. destruct s as [c0 st0 sp0 rd0 qu0 pa0 sb0 pt0 sc0 sbt0 en0]. destruct en0. unf. cbn in *. tauto. Qed.

Lemma si_clock : forall H s f, SI H s -> SI H (s <| s_env ::= (fun e => e <| e_now ::= f |>) |>).
Proof using All.
  intros H s f Hs. destruct s as [c0 st0 sp0 rd0 qu0 pa0 sb0 pt0 sc0 sbt0 en0]. destruct en0. unf. cbn in *.
  destruct Hs as [Hs | Hs]; [left | right]; intuition.
Qed.

Lemma not_early : forall H s v, B H s -> v < SS_SENDING_METADATA -> (s_step s =? v) = false.
Proof.
  intros H s v [_ Hx] Hv. apply Z.eqb_neq.
  destruct Hx as [[E|[E|[E _]]] | (E & _)]; revert Hv E; late.
Qed.

Lemma bj_fsm_non_idle : forall H pkt, nak_ok_o pkt -> pres (B H) (J H) (fsm_non_idle pkt).
Proof.
  intros H pkt Hpk. rewrite fsm_non_idle_eq.
  apply (pres_bind _ (B H) _); [apply bb_advancement | apply B_J | intros _].
  intros s Hs. rewrite b_gets. assert (Hput : s_put s = Some p) by apply Hs. rewrite Hput. cbv iota.
  rewrite b_sstep, (not_early H s SS_IDLE Hs) by late. rewrite when_false, b_ret.
  rewrite b_sstep, (not_early H s SS_TRANSACTION_START Hs) by late. rewrite when_false, b_ret.
  apply bj_tail; assumption.
Qed.

Lemma si_step : forall H pkt s, nak_ok_o pkt -> SI H s -> SI H (fst (state_machine_s pkt s)).
Proof using All.
  intros H pkt s Hpk. revert s. change (pres (J H) (J H) (state_machine_s pkt)). unfold state_machine_s.
  apply (pres_bind _ (J H) _); [| trivial | intros _].
  - destruct pkt as [pk|]; [apply jj_fr, fr_check_inserted | apply pres_ret].
  - intros s Hs. rewrite b_get. destruct Hs as [Hs | Hs].
    + assert (Hb : s_state s = ST_BUSY) by apply Hs. rewrite Hb.
      change (ST_BUSY =? ST_IDLE) with false. cbv iota. apply bj_fsm_non_idle; assumption.
    + assert (Hb : s_state s = ST_IDLE) by apply Hs. rewrite Hb.
      change (ST_IDLE =? ST_IDLE) with true. cbv iota. right. exact Hs.
Qed.

Lemma adv_pre : forall s, SIpre s -> fsm_advancement_s s = (s, Ok tt).
Proof.
  intros s Hs. unfold fsm_advancement_s. rewrite b_get.
  assert (Hq : s_queue s = []) by apply Hs. rewrite Hq. change (0 <? zlen (@nil pdu)) with false. cbv iota zeta.
  assert (Hst : s_step s = SS_IDLE \/ s_step s = SS_TRANSACTION_START) by apply Hs.
  destruct Hst as [E|E]; rewrite E; reflexivity.
Qed.

Lemma b_known {A C} (m : SM A) (k : A -> SM C) s s' a : m s = (s', Ok a) -> bind m k s = k a s'.
Proof. intro E. unfold bind. rewrite E. reflexivity. Qed.
Lemma b_sset {C} v (k : unit -> SM C) s : bind (sset_step v) k s = k tt (s <| s_step := v |>).
Proof. reflexivity. Qed.
Lemma bind_bind_case {A B0 C} (m : SM A) (f : A -> SM B0) (g : B0 -> SM C) s :
  bind (bind m f) g s = match m s with (s1, Ok a) => bind (f a) g s1 | (s1, Err e) => (s1, Err e) end.
Proof. unfold bind. destruct (m s) as [s1 [a|e]]; reflexivity. Qed.

Lemma pre_to1 : forall {C} (k : unit -> SM C) s, SIpre s ->
  exists s', bind (sstep_is SS_IDLE) (fun b => bind (when b (sset_step SS_TRANSACTION_START)) k) s = k tt s' /\
             SIpre s' /\ s_step s' = SS_TRANSACTION_START.
Proof.
  intros C k s Hs. rewrite b_sstep.
  assert (Hst : s_step s = SS_IDLE \/ s_step s = SS_TRANSACTION_START) by apply Hs.
  destruct Hst as [E|E]; rewrite E.
  - change (SS_IDLE =? SS_IDLE) with true. rewrite when_true, b_sset.
    eexists. split; [reflexivity|]. split; [|reflexivity].
    destruct s. unf. cbn in *. intuition.
  - change (SS_TRANSACTION_START =? SS_IDLE) with false. rewrite when_false, b_ret.
    exists s. split; [reflexivity|]. split; assumption.
Qed.

Lemma started : forall s, P2 s -> B (hdr_of (q_conf (s_p s)) TOWARDS_RECEIVER) (s <| s_step := SS_SENDING_METADATA |>).
Proof.
  intros s Hs. destruct s as [c0 st0 sp0 rd0 qu0 pa0 sb0 pt0 sc0 sbt0 en0]. unfold P2, P1 in Hs. unf. cbn in *.
  destruct Hs as [[(HF & Hb & _ & Hq & Hrc & Hmd & Hpr & _ & Hef & Hm) Hfsz] Hsl].
  subst qu0. rewrite Hpr. pose proof (zlen_nonneg _ data).
  repeat split; try assumption; try reflexivity; try lia; try apply HF; try (left; reflexivity).
Qed.

Lemma si_pre_step : forall pkt s, nak_ok_o pkt -> SIpre s ->
  SIpre (fst (state_machine_s pkt s)) \/
  exists H, h_mode H = s_mode /\ SI H (fst (state_machine_s pkt s)).
Proof using All.
  intros pkt s Hpk. revert s.
  set (Post := fun s' => SIpre s' \/ exists H, h_mode H = s_mode /\ SI H s').
  change (pres SIpre Post (state_machine_s pkt)). unfold state_machine_s.
  apply (pres_bind _ SIpre _); [| intros s Hs; left; exact Hs | intros _].
  - destruct pkt as [pk|]; [apply pres_fr; [apply vdet_pre | apply fr_check_inserted] | apply pres_ret].
  - intros s Hs. rewrite b_get.
    assert (Hb : s_state s = ST_BUSY) by apply Hs. rewrite Hb.
    change (ST_BUSY =? ST_IDLE) with false. cbv iota. rewrite fsm_non_idle_eq.
    rewrite (b_known _ _ _ _ _ (adv_pre s Hs)). rewrite b_gets.
    assert (Hput : s_put s = Some p) by apply Hs. rewrite Hput. cbv iota.
    destruct (pre_to1 (fun _ => (b <- sstep_is SS_TRANSACTION_START ;;
       when b (transaction_start ;;; sset_step SS_SENDING_METADATA) ;;; fsm_tail pkt)%monad) s Hs) as (s' & Es & Hs' & E1).
    rewrite Es. clear Es. rewrite b_sstep, E1. change (SS_TRANSACTION_START =? SS_TRANSACTION_START) with true.
    rewrite when_true, bind_bind_case.
    pose proof (ts_spec s' Hs') as T. destruct (transaction_start s') as [s1 [u|e]].
    + rewrite b_sset. right. exists (hdr_of (q_conf (s_p s1)) TOWARDS_RECEIVER). split.
      * cbn [hdr_of h_mode]. apply T.
      * apply bj_tail; [exact Hpk | apply started; exact T].
    + cbn [fst]. left. exact T.
Qed.
End Sender.
End SS_SenderGen.

Module SS_SysA.
(* SysA.v — the two-handler system: the invariant of a run *)
Import CFDP.Base CFDP.LostSeg CFDP.LostSegSpec CFDP.Fs CFDP.Crc CFDP.Checksum CFDP.Handler CFDP.Dest CFDP.Source CFDP.SourceSpec CFDP.System CFDP.HandlerSpec.
Import CFDP.gen.Tables.
Import CFDP.proofs.RouteProofs CFDP.proofs.FsProofs CFDP.proofs.LostSegProofs CFDP.proofs.ChecksumProofs CFDP.proofs.GuardProofs CFDP.proofs.DeliveryProofs CFDP.proofs.NakProofs CFDP.proofs.TrackInvProofs CFDP.proofs.DestFsProofs CFDP.proofs.SuccessInvProofs.
Import SS_Defs SS_Aux SS_RecvA SS_RecvT SS_RecvB SS_RecvC SS_RecvD SS_RecvE SS_RecvF SS_RecvG.

Import RecordUpdate.RecordSet.
Import RecordSetNotations.

Local Opaque calculate_checksum.
Local Arguments Z.add : simpl never. Local Arguments Z.sub : simpl never. Local Arguments Z.mul : simpl never.
Local Arguments Z.ltb : simpl never. Local Arguments Z.leb : simpl never. Local Arguments Z.eqb : simpl never.
Local Arguments Z.max : simpl never. Local Arguments Z.min : simpl never. Local Arguments Z.of_nat : simpl never.

(* ------------------------------------------------------------------ the receiver between calls *)
Section RecvAux.
Context {Pm : Prm}.

Lemma drain_RI : forall s, RI s -> RI (fst (drain_d s)).
Proof.
  intros s HR. unfold drain_d. cbn [fst]. ddst s. dRI HR. nrm_all. constructor; nrm; try ri_cheap.
Qed.
Lemma drain_c01 : forall s, c01_inv s -> c01_inv (fst (drain_d s)).
Proof. intros s Hc. exact Hc. Qed.
Lemma drain_LG : forall s, LG s -> LG (fst (drain_d s)).
Proof. intros s Hl. exact Hl. Qed.
Lemma drain_queue : forall s, snd (drain_d s) = d_queue s.
Proof. reflexivity. Qed.

Definition tick_d (f : Z -> Z) (s : dst) : dst := s <| d_env ::= (fun e => e <| e_now ::= f |>) |>.
Lemma tick_RI : forall f s, RI s -> RI (tick_d f s).
Proof. intros f s HR. apply (rview_RI s); [reflexivity | exact HR]. Qed.
Lemma tick_c01 : forall f s, c01_inv s -> c01_inv (tick_d f s).
Proof. intros f s Hc. exact Hc. Qed.
Lemma tick_LG : forall f s, LG s -> LG (tick_d f s).
Proof. intros f s Hl. exact Hl. Qed.
End RecvAux.

Section Sys.
Variables (cs cd : lcfg) (seq0 bits : Z) (p : putreq) (sn dn : path) (data : bytes) (rs : rcfg).
Hypothesis Hrem : get_remote (l_remotes cs) (pr_dst p) = Some rs.
Hypothesis Hnames : pr_names p = Some (sn, dn).
Hypothesis Hsn : sn <> [].
Hypothesis Hdn1 : length dn = 1%nat.
Hypothesis Hty : r_cktype rs = CK_CRC32 \/ r_cktype rs = CK_CRC32C.
Hypothesis Hseg : match r_max_seg rs with Some m => 1 <= m | None => True end.
Hypothesis Hmode : SS_SenderGen.s_mode p rs = ACKED \/ SS_SenderGen.s_mode p rs = UNACKED.

Definition ty0 : Z := r_cktype rs.
Definition CK0 : bytes := crc_spec (if ty0 =? CK_CRC32 then poly_crc32 else poly_crc32c) (ztake (zlen data) data).
Lemma HCK0 : calculate_checksum ty0 (Some data) (zlen data) 4096 = Ok CK0.
Proof. apply calc_crc_any; [exact Hty | unfold zlen; lia | lia]. Qed.

Definition Pmk (H : hdr) (Hm : h_mode H = ACKED \/ h_mode H = UNACKED) : Prm :=
  mkPrm data ty0 H sn dn CK0 Hty Hdn1 HCK0 Hm.

Notation SIp := (SS_SenderGen.SIpre cs p sn data rs).
Notation SIh := (SS_SenderGen.SI cs p sn dn data rs).

(* link contents *)
Definition okdir {Pm : Prm} (dir : Z) (q : pdu) : Prop := if dir =? 0 then gen_r q else nak_ok q.
Definition dl_ok {Pm : Prm} (e : Z * Z * pdu) : Prop := okdir (snd (fst e)) (snd e).
Definition LK {Pm : Prm} (y : sys) : Prop :=
  Forall gen_r (y_s2d y) /\ Forall nak_ok (y_d2s y) /\ Forall dl_ok (y_delayed y).
Definition DONE {Pm : Prm} (y : sys) : Prop :=
  (d_state (y_dst y) = ST_BUSY -> y_dst_cur y = Some TT) /\
  (d_state (y_dst y) = ST_IDLE -> y_dst_cur y = None) /\
  (SUCC (y_dst y) -> d_state (y_dst y) = ST_IDLE -> tid_mem TT (y_dst_done y) = true).
Definition POST {Pm : Prm} (y : sys) : Prop :=
  SIh g_H (y_src y) /\ RI (y_dst y) /\ c01_inv (y_dst y) /\ LG (y_dst y) /\ LK y /\ DONE y.

Definition pristine (d : dst) : Prop :=
  exists now, d = mkDst cd ST_IDLE DS_IDLE None 0 [] fresh_params (mkEnv now [] false []).
Definition PRE (y : sys) : Prop :=
  SIp (y_src y) /\ pristine (y_dst y) /\ y_s2d y = [] /\ y_d2s y = [] /\ y_delayed y = [] /\ y_dst_cur y = None.
Definition SYS (y : sys) : Prop := PRE y \/ exists H Hm, @POST (Pmk H Hm) y.

Lemma pristine_ok : forall {Pm : Prm} d, pristine d ->
  RI d /\ c01_inv d /\ LG d /\ d_state d = ST_IDLE /\ ~ SUCC d.
Proof.
  intros Pm d [now ->].
  assert (Hns : ~ SUCC (mkDst cd ST_IDLE DS_IDLE None 0 [] fresh_params (mkEnv now [] false []))).
  { unfold SUCC, succ_log. cbn. discriminate. }
  split; [|split; [|split; [|split; [reflexivity | exact Hns]]]].
  - constructor; nrm; try ri_cheap; try solve [auto]; [left; reflexivity | split; [lia | apply nn_nonneg]].
  - exact (inv_init cd).
  - intro X. contradiction (Hns X).
Qed.

(* ------------------------------------------------------------------ the link *)
Lemma emit_frame : forall dir ps y,
  y_src (emit_pdus dir ps y) = y_src y /\ y_dst (emit_pdus dir ps y) = y_dst y /\
  y_dst_cur (emit_pdus dir ps y) = y_dst_cur y /\ y_dst_done (emit_pdus dir ps y) = y_dst_done y /\
  y_faults (emit_pdus dir ps y) = y_faults y /\ y_round (emit_pdus dir ps y) = y_round y.
Proof.
  intros dir ps. induction ps as [|q t IH]; intro y; cbn [emit_pdus]; [repeat split|].
  match goal with |- context [emit_pdus dir t ?yy] => destruct (IH yy) as (E1 & E2 & E3 & E4 & E5 & E6) end.
  rewrite E1, E2, E3, E4, E5, E6.
  unfold link_push. destruct (dir =? 0); destruct (find_fault _ _ _) as [f|]; try destruct (ft_kind f =? 0); try destruct (ft_kind f =? 1);
    repeat split; reflexivity.
Qed.

Lemma emit_LK : forall {Pm : Prm} dir ps y, Forall (okdir dir) ps -> LK y -> LK (emit_pdus dir ps y).
Proof.
  intros Pm dir ps. induction ps as [|q t IH]; intros y Hps HL; cbn [emit_pdus]; [exact HL|].
  inversion Hps as [|? ? Hq Ht]; subst. apply IH; [exact Ht|].
  destruct HL as (L1 & L2 & L3). unfold okdir in Hq. unfold LK, link_push.
  destruct (dir =? 0) eqn:Ed;
    (destruct (find_fault _ _ _) as [f|]; [destruct (ft_kind f =? 0); [|destruct (ft_kind f =? 1)]|]); cbn;
    repeat split; try assumption;
    try (apply Forall_app; split; [assumption | repeat constructor; assumption]);
    try (apply Forall_app; split; [assumption | constructor; [unfold dl_ok, okdir; cbn; rewrite Ed; exact Hq | constructor]]).
Qed.

Lemma on_wire_sub : forall (P : pdu -> Prop) ps, Forall P ps ->
  Forall P (flat_map (fun p0 => match on_wire p0 with Some q => [q] | None => [] end) ps).
Proof.
  intros P ps Hps. induction Hps as [|q t Hq Ht IH]; cbn [flat_map]; [constructor|].
  apply Forall_app. split; [|exact IH].
  assert (Hw : on_wire q = Some q \/ on_wire q = None).
  { destruct q; cbn; try (left; reflexivity).
    - destruct data0; [destruct (h_crc h); [left | right]; reflexivity | left; reflexivity].
    - destruct fault_loc; [destruct ((cond =? C_NO_ERROR) || (cond =? C_UNSUPPORTED_CHECKSUM)); [right | left]; reflexivity | left; reflexivity]. }
  destruct Hw as [-> | ->]; [constructor; [exact Hq | constructor] | constructor].
Qed.

Definition starting (pkt : option pdu) : Prop :=
  match pkt with Some (PFileData _ _ _) | Some (PMetadata _ _ _ _ _ _) | Some (PEof _ _ _ _ _) => True | _ => False end.
Lemma starting_dec : forall pkt, starting pkt \/
  (match pkt with Some (PFileData _ _ _) | Some (PMetadata _ _ _ _ _ _) | Some (PEof _ _ _ _ _) => False | _ => True end).
Proof. intros [[]|]; cbn; tauto. Qed.

Lemma tid_mem_cons : forall t l, tid_mem t (t :: l) = true.
Proof. intros [a b] l. unfold tid_mem, tid_eqb. cbn. rewrite !Z.eqb_refl. reflexivity. Qed.

Lemma call_dst_POST : forall {Pm : Prm} pkt y, POST y -> pkt_ok pkt ->
  (d_state (y_dst y) = ST_IDLE -> starting pkt -> tid_mem TT (y_dst_done y) = false) ->
  POST (fst (call_dst pkt y)).
Proof.
  intros Pm pkt y (HS & HR & Hc & HL & HK & (D1 & D2 & D3)) Hpk Hstart.
  unfold call_dst.
  assert (Hnew : RI (fst (Dest.state_machine pkt (y_dst y))) /\ c01_inv (fst (Dest.state_machine pkt (y_dst y))) /\
                 LG (fst (Dest.state_machine pkt (y_dst y))) /\
                 (d_state (y_dst y) = ST_IDLE -> SUCC (fst (Dest.state_machine pkt (y_dst y))) -> SUCC (y_dst y)) /\
                 (d_state (y_dst y) = ST_IDLE -> d_state (fst (Dest.state_machine pkt (y_dst y))) = ST_IDLE ->
                  SUCC (fst (Dest.state_machine pkt (y_dst y))) -> tid_mem TT (y_dst_done y) = true)).
  { split; [apply sm_RI; assumption|]. split; [apply inv_state_machine; exact Hc|].
    destruct (ri_st _ HR) as [Hi|HB].
    - destruct (starting_dec pkt) as [Hs|Hs].
      + pose proof (sm_idle_lg pkt _ Hpk HR Hc Hi) as Hg.
        assert (Hns : ~ SUCC (y_dst y)).
        { intro X. rewrite (D3 X Hi) in Hstart. specialize (Hstart Hi Hs). discriminate Hstart. }
        assert (Hns' : ~ SUCC (fst (Dest.state_machine pkt (y_dst y)))) by (intro X; apply Hns, (lg_succ _ _ Hg), X).
        split; [intro X; contradiction (Hns' X)|]. split; [intros _ X; contradiction (Hns' X) | intros _ _ X; contradiction (Hns' X)].
      + rewrite (sm_idle_noop pkt _ Hi Hs). split; [exact HL|]. split; [intros _ X; exact X | intros _ _ X; exact (D3 X Hi)].
    - split; [apply sm_busy_LG; assumption|]. split; intros X; rewrite X in HB; discriminate HB. }
  destruct (Dest.state_machine pkt (y_dst y)) as [s1 r] eqn:Esm. cbn [fst] in Hnew.
  destruct Hnew as (HR1 & Hc1 & HL1 & Hsu & Hdn).
  set (y1 := match r with Ok _ => y | Err e => y <| y_errs ::= cons (1, e) |> end).
  assert (Ey1 : y_dst_cur y1 = y_dst_cur y /\ y_dst_done y1 = y_dst_done y /\ y_src y1 = y_src y /\
                y_s2d y1 = y_s2d y /\ y_d2s y1 = y_d2s y /\ y_delayed y1 = y_delayed y).
  { subst y1. destruct r; repeat split; reflexivity. }
  destruct Ey1 as (Ec1 & Ed1 & Es1 & El1 & El2 & El3).
  set (y2 := note_done_dst (y1 <| y_dst := s1 |>)).
  assert (Hy2 : y_dst y2 = s1 /\ y_src y2 = y_src y /\ y_s2d y2 = y_s2d y /\ y_d2s y2 = y_d2s y /\ y_delayed y2 = y_delayed y /\
                (d_state s1 = ST_BUSY -> y_dst_cur y2 = Some TT) /\ (d_state s1 = ST_IDLE -> y_dst_cur y2 = None) /\
                (SUCC s1 -> d_state s1 = ST_IDLE -> tid_mem TT (y_dst_done y2) = true)).
  { subst y2. unfold note_done_dst. change (y_dst (y1 <| y_dst := s1 |>)) with s1.
    destruct (ri_st _ HR1) as [Hi1|HB1].
    - assert (X : (d_state s1 =? ST_BUSY) = false) by (rewrite Hi1; reflexivity). rewrite X. clear X.
      change (y_dst_cur (y1 <| y_dst := s1 |>)) with (y_dst_cur y1). rewrite Ec1.
      assert (Hnb : d_state s1 = ST_BUSY -> False) by (intro X; rewrite Hi1 in X; discriminate X).
      destruct (ri_st _ HR) as [Hi|HB].
      + rewrite (D2 Hi). cbn.
        split; [reflexivity|]. split; [exact Es1|]. split; [exact El1|]. split; [exact El2|]. split; [exact El3|].
        split; [intro X; contradiction (Hnb X)|]. split; [intros _; rewrite Ec1; exact (D2 Hi)|].
        intros X _. rewrite Ed1. exact (Hdn Hi Hi1 X).
      + rewrite (D1 HB). cbn.
        split; [reflexivity|]. split; [exact Es1|]. split; [exact El1|]. split; [exact El2|]. split; [exact El3|].
        split; [intro X; contradiction (Hnb X)|]. split; [intros _; reflexivity|].
        intros _ _. apply tid_mem_cons.
    - assert (X : (d_state s1 =? ST_BUSY) = true) by (rewrite HB1; reflexivity). rewrite X. clear X.
      destruct (ri_busy _ HR1 HB1) as (_ & Htid & _). rewrite Htid. cbn.
      split; [reflexivity|]. split; [exact Es1|]. split; [exact El1|]. split; [exact El2|]. split; [exact El3|].
      split; [intros _; reflexivity|]. split; [intro X | intros _ X]; rewrite HB1 in X; discriminate X. }
  destruct Hy2 as (E1 & E2 & E3 & E4 & E5 & N1 & N2 & N3).
  rewrite E1. unfold drain_d.
  match goal with |- POST (fst (emit_pdus 1 ?ps ?yy, _)) => set (ps0 := ps); set (y3 := yy) end.
  cbn [fst]. destruct (emit_frame 1 ps0 y3) as (F1 & F2 & F3 & F4 & _ & _).
  assert (HK3 : LK y3).
  { destruct HK as (K1 & K2 & K3). subst y3. unfold LK. cbn. rewrite E3, E4, E5. repeat split; assumption. }
  assert (Hps : Forall (okdir 1) ps0).
  { subst ps0. apply on_wire_sub. apply (ri_q _ HR1). }
  split; [rewrite F1; subst y3; cbn; rewrite E2; exact HS|].
  rewrite F2. subst y3. cbn [y_dst set].
  change (y_dst (y2 <| y_dst := s1 <| d_queue := [] |> <| d_ready := d_ready s1 - zlen (d_queue s1) |> |>))
    with (fst (drain_d s1)).
  split; [apply drain_RI; exact HR1|]. split; [exact Hc1|]. split; [exact HL1|].
  split; [apply emit_LK; assumption|].
  unfold DONE. rewrite F2, F3, F4. cbn. repeat split; assumption.
Qed.

Lemma POST_emit : forall {Pm : Prm} dir ps y, Forall (okdir dir) ps -> POST y -> POST (emit_pdus dir ps y).
Proof.
  intros Pm dir ps y Hps (HS & HR & Hc & HL & HK & HD).
  destruct (emit_frame dir ps y) as (F1 & F2 & F3 & F4 & _ & _).
  unfold POST, DONE. rewrite F1, F2, F3, F4.
  split; [exact HS | split; [exact HR | split; [exact Hc | split; [exact HL | split; [apply emit_LK; assumption | exact HD]]]]].
Qed.

Lemma deliver_to_dest_POST : forall {Pm : Prm} q y, POST y -> gen_r q -> POST (fst (deliver_to_dest q y)).
Proof.
  intros Pm q y HP Hq. unfold deliver_to_dest.
  destruct ((d_state (y_dst y) =? ST_IDLE) && tid_mem (h_src (pdu_hdr q), h_seq (pdu_hdr q)) (y_dst_done y)) eqn:E1.
  - destruct q; try exact HP. unfold acknowledge_inactive_eof_pdu. change (TS_TERMINATED =? TS_ACTIVE) with false. cbv iota. cbn [fst].
    apply POST_emit; [|exact HP]. constructor; [exact I | constructor].
  - destruct ((d_state (y_dst y) =? ST_BUSY) && _); [exact HP|].
    apply call_dst_POST; [exact HP | exact Hq |].
    intros Hi Hs. rewrite Hi in E1. change (ST_IDLE =? ST_IDLE) with true in E1. cbn [andb] in E1.
    destruct q; try contradiction; cbn [pdu_hdr] in E1; destruct Hq as (-> & _); exact E1.
Qed.

Lemma call_src_POST : forall H Hm pkt y, @POST (Pmk H Hm) y -> nak_ok_o pkt -> @POST (Pmk H Hm) (fst (call_src pkt y)).
Proof.
  intros H Hm pkt y (HS & HR & Hc & HL & HK & HD) Hpk. unfold call_src. cbn [g_H Pmk] in HS.
  pose proof (SS_SenderGen.si_step cs seq0 bits p sn dn data rs Hrem Hnames Hsn Hty Hseg H pkt (y_src y) Hpk HS) as HS1.
  destruct (state_machine_s pkt (y_src y)) as [s1 r]. cbn [fst] in HS1.
  set (y1 := match r with Ok _ => y | Err e => y <| y_errs ::= cons (0, e) |> end).
  set (y2 := note_done_src (y1 <| y_src := s1 |>)).
  assert (Hy2 : y_src y2 = s1 /\ y_dst y2 = y_dst y /\ y_s2d y2 = y_s2d y /\ y_d2s y2 = y_d2s y /\ y_delayed y2 = y_delayed y /\
                y_dst_cur y2 = y_dst_cur y /\ y_dst_done y2 = y_dst_done y).
  { subst y2. unfold note_done_src. change (y_src (y1 <| y_src := s1 |>)) with s1.
    change (y_src_cur (y1 <| y_src := s1 |>)) with (y_src_cur y1).
    subst y1. destruct r; destruct (s_state s1 =? ST_BUSY); try destruct (q_tid (s_p s1)); cbn;
      try (match goal with |- context [match ?c with Some _ => _ | None => _ end] => destruct c end); cbn; repeat split; reflexivity. }
  destruct Hy2 as (E1 & E2 & E3 & E4 & E5 & E6 & E7).
  rewrite E1. unfold drain_s.
  match goal with |- POST (fst (emit_pdus 0 ?ps ?yy, _)) => set (ps0 := ps); set (y3 := yy) end.
  cbn [fst]. apply POST_emit.
  - subst ps0. apply on_wire_sub. exact (SS_SenderGen.si_queue cs seq0 bits p sn dn data rs Hrem Hnames Hsn Hty Hseg H s1 HS1).
  - subst y3. unfold POST, LK, DONE. cbn. rewrite E2, E3, E4, E5, E6, E7.
    split; [|split; [exact HR | split; [exact Hc | split; [exact HL | split; [exact HK | exact HD]]]]].
    exact (SS_SenderGen.si_drain cs seq0 bits p sn dn data rs Hrem Hnames Hsn Hty Hseg H s1 HS1).
Qed.

Lemma deliver_to_source_POST : forall H Hm q y, @POST (Pmk H Hm) y -> nak_ok q ->
  @POST (Pmk H Hm) (fst (deliver_to_source q y)).
Proof.
  intros H Hm q y HP Hq. unfold deliver_to_source.
  destruct (s_state (y_src y) =? ST_IDLE).
  - destruct q; try exact HP. destruct (tid_mem _ _); [|exact HP]. cbn [fst].
    apply POST_emit; [|exact HP]. constructor; [exact I | constructor].
  - apply call_src_POST; [exact HP | exact Hq].
Qed.

Lemma deliver_all_inv : forall (P : sys -> Prop) (ok : pdu -> Prop) (f : pdu -> sys -> sys * Z),
  (forall q y, P y -> ok q -> P (fst (f q y))) ->
  forall ps y act, Forall ok ps -> P y -> P (fst (deliver_all f ps y act)).
Proof.
  intros P ok f Hf ps. induction ps as [|q t IH]; intros y act Hps HP; cbn [deliver_all]; [exact HP|].
  inversion Hps as [|? ? Hq Ht]; subst. specialize (Hf q y HP Hq). destruct (f q y) as [y1 n]. apply IH; assumption.
Qed.

(* the sender's first calls: the transaction has not started yet *)
Lemma call_src_PRE : forall y, PRE y -> SYS (fst (call_src None y)).
Proof.
  intros y (HS & Hpr & E1 & E2 & E3 & E4). unfold call_src.
  pose proof (SS_SenderGen.si_pre_step cs seq0 bits p sn dn data rs Hrem Hnames Hsn Hty Hseg None (y_src y) I HS) as HS1.
  destruct (state_machine_s None (y_src y)) as [s1 r]. cbn [fst] in HS1.
  set (y1 := match r with Ok _ => y | Err e => y <| y_errs ::= cons (0, e) |> end).
  set (y2 := note_done_src (y1 <| y_src := s1 |>)).
  assert (Hy2 : y_src y2 = s1 /\ y_dst y2 = y_dst y /\ y_s2d y2 = y_s2d y /\ y_d2s y2 = y_d2s y /\ y_delayed y2 = y_delayed y /\
                y_dst_cur y2 = y_dst_cur y /\ y_dst_done y2 = y_dst_done y).
  { subst y2. unfold note_done_src. change (y_src (y1 <| y_src := s1 |>)) with s1.
    change (y_src_cur (y1 <| y_src := s1 |>)) with (y_src_cur y1).
    subst y1. destruct r; destruct (s_state s1 =? ST_BUSY); try destruct (q_tid (s_p s1)); cbn;
      try (match goal with |- context [match ?c with Some _ => _ | None => _ end] => destruct c end); cbn; repeat split; reflexivity. }
  destruct Hy2 as (F1 & F2 & F3 & F4 & F5 & F6 & F7).
  rewrite F1. unfold drain_s.
  match goal with |- SYS (fst (emit_pdus 0 ?ps ?yy, _)) => set (ps0 := ps); set (y3 := yy) end.
  cbn [fst]. destruct HS1 as [HS1|(H & Hmh & HS1)].
  - left. assert (Eq : s_queue s1 = []) by (apply (SS_SenderGen.si_pre_queue cs seq0 bits p sn dn data rs Hrem Hnames Hsn Hty Hseg s1 HS1)).
    subst ps0. rewrite Eq. cbn [flat_map emit_pdus]. subst y3. unfold PRE. cbn. rewrite F2, F3, F4, F5, F6.
    split; [|repeat split; assumption].
    pose proof (SS_SenderGen.si_pre_drain cs seq0 bits p sn dn data rs Hrem Hnames Hsn Hty Hseg s1 HS1) as X. unfold drain_s in X. cbn [fst] in X. rewrite Eq in X. exact X.
  - right. assert (Hm : h_mode H = ACKED \/ h_mode H = UNACKED) by (rewrite Hmh; exact Hmode).
    exists H, Hm. apply POST_emit.
    + subst ps0. apply on_wire_sub. exact (SS_SenderGen.si_queue cs seq0 bits p sn dn data rs Hrem Hnames Hsn Hty Hseg H s1 HS1).
    + destruct (@pristine_ok (Pmk H Hm) _ Hpr) as (P1 & P2 & P3 & P4 & P5).
      subst y3. unfold POST, LK, DONE. cbn. rewrite F2, F3, F4, F5, F6, E1, E2, E3, E4.
      split; [exact (SS_SenderGen.si_drain cs seq0 bits p sn dn data rs Hrem Hnames Hsn Hty Hseg H s1 HS1)|].
      split; [exact P1 | split; [exact P2 | split; [exact P3 | split; [repeat split; constructor|]]]].
      split; [intro X; rewrite P4 in X; discriminate X | split; [intros _; reflexivity | intro X; contradiction (P5 X)]].
Qed.

Lemma link_push_POST : forall {Pm : Prm} d q y, okdir d q -> POST y -> POST (link_push d [q] y).
Proof.
  intros Pm d q y Hq (HS & HR & Hc & HL & (K1 & K2 & K3) & HD). unfold link_push, okdir in *.
  destruct (d =? 0); unfold POST, LK, DONE; cbn;
    (split; [exact HS | split; [exact HR | split; [exact Hc | split; [exact HL | split; [|exact HD]]]]]);
    repeat split; try assumption; (apply Forall_app; split; [assumption | constructor; [exact Hq | constructor]]).
Qed.

Lemma release_fold_POST : forall {Pm : Prm} l ya, Forall dl_ok l -> POST ya ->
  POST (fold_left (fun y e => let '(r, d, q) := e in
                              if r <=? y_round y then link_push d [q] y
                              else y <| y_delayed ::= (fun l0 => l0 ++ [e]) |>) l ya).
Proof.
  intros Pm l. induction l as [|[[r d] q] t IH]; intros ya Hl HP; cbn [fold_left]; [exact HP|].
  inversion Hl as [|? ? He Ht]; subst. apply IH; [exact Ht|].
  destruct (r <=? y_round ya).
  - apply link_push_POST; [exact He | exact HP].
  - destruct HP as (HS & HR & Hc & HL & (K1 & K2 & K3) & HD). unfold POST, LK, DONE. cbn.
    split; [exact HS | split; [exact HR | split; [exact Hc | split; [exact HL | split; [|exact HD]]]]].
    split; [exact K1 | split; [exact K2|]]. apply Forall_app. split; [exact K3 | constructor; [exact He | constructor]].
Qed.

Lemma release_SYS : forall y, SYS y -> SYS (release_delayed (y <| y_round ::= (fun r => r + 1) |>)).
Proof.
  intros y [(HS & Hpr & E1 & E2 & E3 & E4)|(H & Hm & HP)]; unfold release_delayed.
  - left. cbn [y_delayed set]. change (y_delayed (y <| y_round ::= (fun r => r + 1) |>)) with (y_delayed y). rewrite E3.
    cbn [fold_left]. unfold PRE. cbn.
    split; [exact HS | split; [exact Hpr | split; [exact E1 | split; [exact E2 | split; [reflexivity | exact E4]]]]].
  - right. exists H, Hm. change (y_delayed (y <| y_round ::= (fun r => r + 1) |>)) with (y_delayed y).
    destruct HP as (HS & HR & Hc & HL & (K1 & K2 & K3) & HD).
    apply release_fold_POST; [exact K3|].
    unfold POST, LK, DONE. cbn.
    split; [exact HS | split; [exact HR | split; [exact Hc | split; [exact HL | split; [|exact HD]]]]].
    split; [exact K1 | split; [exact K2 | constructor]].
Qed.

Lemma advance_SYS : forall ms y, SYS y -> SYS (advance ms y).
Proof.
  intros ms y [(HS & Hpr & E1 & E2 & E3 & E4)|(H & Hm & HP)]; unfold advance.
  - left. unfold PRE. cbn. split; [|split; [|split; [exact E1 | split; [exact E2 | split; [exact E3 | exact E4]]]]].
    + exact (SS_SenderGen.si_pre_clock cs seq0 bits p sn dn data rs Hrem Hnames Hsn Hty Hseg (y_src y) (Z.add ms) HS).
    + destruct Hpr as [now ->]. exists (ms + now). reflexivity.
  - right. exists H, Hm. destruct HP as (HS & HR & Hc & HL & HK & HD). unfold POST, LK, DONE. cbn.
    split; [exact (SS_SenderGen.si_clock cs seq0 bits p sn dn data rs Hrem Hnames Hsn Hty Hseg H (y_src y) (Z.add ms) HS)|].
    split; [exact (tick_RI (Z.add ms) _ HR) | split; [exact Hc | split; [exact HL | split; [exact HK | exact HD]]]].
Qed.

Lemma call_dst_PRE : forall y, PRE y -> PRE (fst (call_dst None y)).
Proof.
  intros y (HS & Hpr & E1 & E2 & E3 & E4). destruct Hpr as [now Ed].
  destruct y as [ysrc ydst ys2d yd2s yc1 yc2 ydl yrd ysc ydc ysd ydd yer yfl]. cbn [y_src y_dst y_s2d y_d2s y_delayed y_dst_cur] in *.
  subst ydst ys2d yd2s ydl ydc.
  unfold call_dst. cbn [y_dst].
  change (Dest.state_machine None (mkDst cd ST_IDLE DS_IDLE None 0 [] fresh_params (mkEnv now [] false [])))
    with (mkDst cd ST_IDLE DS_IDLE None 0 [] fresh_params (mkEnv now [] false []), @Ok Z unit tt).
  cbv iota beta. unfold note_done_dst. cbn [y_dst set d_state y_dst_cur]. change (ST_IDLE =? ST_BUSY) with false. cbv iota.
  unfold drain_d. cbn [y_dst set d_queue flat_map emit_pdus fst].
  unfold PRE. cbn [y_src y_dst y_s2d y_d2s y_delayed y_dst_cur set].
  split; [exact HS|]. split; [exists now; reflexivity | repeat split; reflexivity].
Qed.

Lemma SYS_src_half : forall y a, SYS y -> SYS (fst (deliver_all deliver_to_source (y_d2s y) (y <| y_d2s := [] |>) a)).
Proof.
  intros y a [(HS & Hpr & E1 & E2 & E3 & E4)|(H & Hm & HP)].
  - left. rewrite E2. cbn [deliver_all fst]. unfold PRE. cbn.
    split; [exact HS | split; [exact Hpr | split; [exact E1 | split; [reflexivity | split; [exact E3 | exact E4]]]]].
  - right. exists H, Hm. destruct HP as (HS & HR & Hc & HL & (K1 & K2 & K3) & HD).
    apply (deliver_all_inv (@POST (Pmk H Hm)) nak_ok); [intros q y0 HP0 Hq; apply deliver_to_source_POST; assumption | exact K2 |].
    unfold POST, LK, DONE. cbn.
    split; [exact HS | split; [exact HR | split; [exact Hc | split; [exact HL | split; [|exact HD]]]]].
    split; [exact K1 | split; [constructor | exact K3]].
Qed.

Lemma SYS_dst_half : forall y a, SYS y -> SYS (fst (deliver_all deliver_to_dest (y_s2d y) (y <| y_s2d := [] |>) a)).
Proof.
  intros y a [(HS & Hpr & E1 & E2 & E3 & E4)|(H & Hm & HP)].
  - left. rewrite E1. cbn [deliver_all fst]. unfold PRE. cbn.
    split; [exact HS | split; [exact Hpr | split; [reflexivity | split; [exact E2 | split; [exact E3 | exact E4]]]]].
  - right. exists H, Hm. destruct HP as (HS & HR & Hc & HL & (K1 & K2 & K3) & HD).
    apply (deliver_all_inv (@POST (Pmk H Hm)) (@gen_r (Pmk H Hm))); [intros q y0 HP0 Hq; apply deliver_to_dest_POST; assumption | exact K1 |].
    unfold POST, LK, DONE. cbn.
    split; [exact HS | split; [exact HR | split; [exact Hc | split; [exact HL | split; [|exact HD]]]]].
    split; [constructor | split; [exact K2 | exact K3]].
Qed.

Lemma SYS_call_src_None : forall y, SYS y -> SYS (fst (call_src None y)).
Proof.
  intros y [HP|(H & Hm & HP)]; [apply call_src_PRE; exact HP|].
  right. exists H, Hm. apply call_src_POST; [exact HP | exact I].
Qed.

Lemma SYS_call_dst_None : forall y, SYS y -> SYS (fst (call_dst None y)).
Proof.
  intros y [HP|(H & Hm & HP)]; [left; apply call_dst_PRE; exact HP|].
  right. exists H, Hm. apply call_dst_POST; [exact HP | exact I | intros _ []].
Qed.

Lemma step_round_SYS : forall y, SYS y -> SYS (fst (step_round y)).
Proof.
  intros y0 H0. unfold step_round.
  pose proof (release_SYS y0 H0) as H1.
  set (y := release_delayed (y0 <| y_round ::= (fun r => r + 1) |>)) in *.
  pose proof (SYS_src_half y 0 H1) as H2.
  destruct (deliver_all deliver_to_source (y_d2s y) (y <| y_d2s := [] |>) 0) as [y1 a1]. cbn [fst] in H2.
  assert (H3 : SYS (fst (match y_d2s y with
     | [] => let before := (s_state (y_src y1), s_step (y_src y1)) in
             let '(yy, n) := call_src None y1 in
             (yy, a1 + n + (if (fst before =? s_state (y_src yy)) && (snd before =? s_step (y_src yy)) then 0 else 1))
     | _ :: _ => (y1, a1) end))).
  { destruct (y_d2s y); [|exact H2]. cbv zeta. pose proof (SYS_call_src_None y1 H2) as X.
    destruct (call_src None y1) as [yy n]. exact X. }
  destruct (match y_d2s y with
     | [] => let before := (s_state (y_src y1), s_step (y_src y1)) in
             let '(yy, n) := call_src None y1 in
             (yy, a1 + n + (if (fst before =? s_state (y_src yy)) && (snd before =? s_step (y_src yy)) then 0 else 1))
     | _ :: _ => (y1, a1) end) as [y2 a2]. cbn [fst] in H3.
  pose proof (SYS_dst_half y2 a2 H3) as H4.
  destruct (deliver_all deliver_to_dest (y_s2d y2) (y2 <| y_s2d := [] |>) a2) as [y3 a3]. cbn [fst] in H4.
  destruct (y_s2d y2); [|exact H4]. cbv zeta. pose proof (SYS_call_dst_None y3 H4) as X.
  destruct (call_dst None y3) as [yy n]. exact X.
Qed.

Lemma run_SYS : forall fuel tick y, SYS y -> SYS (fst (run fuel tick y)).
Proof.
  induction fuel as [|k IH]; intros tick y Hy; cbn [run]; [exact Hy|].
  pose proof (step_round_SYS y Hy) as H1. destruct (step_round y) as [y1 a]. cbn [fst] in H1.
  destruct (quiescent y1); [exact H1|]. apply IH. destruct (a =? 0); [apply advance_SYS|]; exact H1.
Qed.

Lemma SYS_success : forall y, SYS y -> existsb success_event (e_log (d_env (y_dst y))) = true ->
  exists d, file_content (e_fs (d_env (y_dst y))) dn = Some d /\
    (d = data \/
     (d <> data /\ zlen d = zlen data /\
      calculate_checksum (r_cktype rs) (Some d) (zlen d) 4096 = calculate_checksum (r_cktype rs) (Some data) (zlen data) 4096)).
Proof.
  intros y [(HS & [now Ed] & _)|(H & Hm & (_ & _ & _ & HL & _))] Hs.
  - rewrite Ed in Hs. discriminate Hs.
  - destruct (HL Hs) as [(d & Hd & Hc) _]. exists d. split; [exact Hd | exact Hc].
Qed.
End Sys.
End SS_SysA.

(* SysB.v — property C01 over the two-handler system and every fault schedule *)
Import CFDP.Base CFDP.LostSeg CFDP.Fs CFDP.Crc CFDP.Checksum CFDP.ChecksumSpec CFDP.Handler CFDP.Dest CFDP.Source CFDP.SourceSpec CFDP.System CFDP.SystemCases.
Import CFDP.proofs.SuccessInvProofs.
Import SS_Defs SS_Aux SS_RecvA SS_RecvG SS_SenderGen SS_SysA.
Import RecordUpdate.RecordSet.
Import RecordSetNotations.

Theorem system_success_means_identical :
  forall (cs cd : lcfg) (seq0 bits : Z) (p : putreq) (sn dn : path) (data : bytes) (faults : list fault)
         (fuel : nat) (tick : Z) (rs : rcfg),
  get_remote (l_remotes cs) (pr_dst p) = Some rs ->
  pr_names p = Some (sn, dn) -> sn <> [] -> length dn = 1%nat ->
  (r_cktype rs = CK_CRC32 \/ r_cktype rs = CK_CRC32C) ->
  match r_max_seg rs with Some m => 1 <= m | None => True end ->
  (let mode := match pr_mode p with Some m => m | None => r_mode rs end in mode = ACKED \/ mode = UNACKED) ->
  let res := transfer cs cd seq0 bits p sn data faults fuel tick in
  let y := fst res in
  existsb success_event (e_log (d_env (y_dst y))) = true ->
  exists d, file_content (e_fs (d_env (y_dst y))) dn = Some d /\
    (d = data \/
     (d <> data /\ zlen d = zlen data /\
      calculate_checksum (r_cktype rs) (Some d) (zlen d) 4096 = calculate_checksum (r_cktype rs) (Some data) (zlen data) 4096)).
Proof.
  intros cs cd seq0 bits p sn dn data faults fuel tick rs Hrem Hnames Hsn Hdn Hty Hseg Hmode. cbv zeta.
  unfold transfer.
  destruct (put_request p (y_src (sys_init cs cd seq0 bits sn data faults))) as [s1 r] eqn:Ep.
  intro Hs. eapply (SYS_success cs cd p sn dn data rs Hdn Hty); [|exact Hs].
  eapply (run_SYS cs cd seq0 bits p sn dn data rs Hrem Hnames Hsn Hdn Hty Hseg Hmode).
  left. unfold PRE, sys_init. cbn.
  split; [exact (si_put cs seq0 bits p sn dn data rs Hrem Hnames Hsn Hty Hseg s1 r Ep)|].
  split; [exists 0; reflexivity | repeat split; reflexivity].
Qed.
Print Assumptions system_success_means_identical.

(* The unacknowledged-mode counterexample to the first form of the statement (source file whose first four bytes have
   the CRC-32 of the whole file, second File Data PDU dropped): before the F31 repair of checksum_verify the receiver
   reported success for the four-byte prefix; with the repaired model the run reports no success. *)
Module Counter.
  Definition cdata : bytes := [3; 10; 17; 24; 97; 68; 194; 102].
  Definition runx (closure : bool) : sys * bool :=
    transfer (lc 1 (rc 2 (Some 4) closure UNACKED CK_CRC32 2 false)) (lc 2 (rc 1 (Some 4) closure UNACKED CK_CRC32 2 false))
             0 16 (mkPut 2 2 None None (Some ([1], [2])) None) [1] cdata [mkFault 0 2 0 0] 300 1000.
  Example prefix_collision_no_longer_succeeds :
    existsb success_event (e_log (d_env (y_dst (fst (runx false))))) = false /\
    existsb success_event (e_log (d_env (y_dst (fst (runx true))))) = false /\
    file_content (e_fs (d_env (y_dst (fst (runx false))))) [2] = Some [3; 10; 17; 24] /\
    calculate_checksum CK_CRC32 (Some [3; 10; 17; 24]) 4 4096 = calculate_checksum CK_CRC32 (Some cdata) 8 4096.
  Proof. vm_compute. repeat split; reflexivity. Qed.
End Counter.
