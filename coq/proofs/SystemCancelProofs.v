(* SystemCancelProofs.v — proofs for props/C12d.v: property C12 END TO END over the two-entity system of System.v.
   The sender is cancelled by its user after k scheduler rounds of a transfer over a perfect link (acknowledged
   mode); the EOF (Cancel Request Received) it emits covers exactly the bytes sent, the receiver finishes the
   transaction with that condition and the sender as fault location, keeps or deletes the incomplete file according
   to disposition-on-cancellation, and the sender's Transaction-Finished indication copies the receiver's Finished PDU.
   Extends the round-by-round machinery of PerfectLinkAckedProofs.v. *)
From CFDP Require Import Base LostSeg Fs Crc Checksum Handler Dest Source HandlerSpec SourceSpec System.
From CFDP.gen Require Import Tables.
From CFDP.proofs Require Import ChecksumProofs FsProofs StreamProofs PerfectLinkProofs PerfectLinkAckedProofs GuardProofs.
From RecordUpdate Require Import RecordSet.
Import RecordSetNotations.

Local Arguments Z.add : simpl never. Local Arguments Z.sub : simpl never. Local Arguments Z.mul : simpl never.
Local Arguments Z.pow : simpl never. Local Arguments Z.div : simpl never. Local Arguments Z.min : simpl never.
Local Arguments Z.max : simpl never. Local Arguments Z.to_nat : simpl never.
Local Arguments Z.ltb !x !y : simpl nomatch. Local Arguments Z.leb !x !y : simpl nomatch.
Local Arguments Z.eqb !x !y : simpl nomatch. Local Arguments Z.of_nat !n : simpl nomatch.
Local Arguments write_at : simpl never.
Local Arguments set_node : simpl never.
Local Opaque calculate_checksum.

(* ================================================================== *)
(* 0. the definitions of props/C12d.v (same bodies)                    *)
(* ================================================================== *)
(* k scheduler rounds *)
Fixpoint rounds (k : nat) (y : sys) : sys :=
  match k with O => y | S k' => fst (step_round (rounds k' y)) end.

(* the user of the sending entity cancels transaction (a, b): one API call on the handler + retrieval of everything it
   queued, exactly as System.call_src does for state_machine calls *)
Definition cancel_src (a b : Z) (y : sys) : sys * res Z bool :=
  let '(s1, r) := cancel_request_s a b (y_src y) in
  let y1 := match r with Ok _ => y | Err e => y <| y_errs ::= cons (0, e) |> end in
  let y2 := note_done_src (y1 <| y_src := s1 |>) in
  let '(s2, ps) := drain_s (y_src y2) in
  (emit_pdus 0 (flat_map (fun p => match on_wire p with Some q => [q] | None => [] end) ps) (y2 <| y_src := s2 |>), r).

Definition transfer_cancel (cs cd : lcfg) (seq0 bits : Z) (p : putreq) (sn : path) (data : bytes) (k : nat)
           (fuel : nat) (tick : Z) : (sys * bool) * res Z bool :=
  let y0 := sys_init cs cd seq0 bits sn data [] in
  let '(s1, _) := put_request p (y_src y0) in
  let yk := rounds k (y0 <| y_src := s1 |>) in
  let '(yc, r) := cancel_src (l_id cs) seq0 yk in
  (run fuel tick yc, r).

(* ================================================================== *)
(* 1. the sender                                                       *)
(* ================================================================== *)
Section SenderSide.
Local Arguments max_file_seg_len : simpl never.
Local Arguments lookup : simpl never.

Section Sender.
Variables (c : lcfg) (p : putreq) (r : rcfg) (fs : tree) (d : bytes) (cf : sconf)
          (seg : Z) (clo : bool) (tid : Z * Z) (sn dn : path).
Hypothesis Hnames : pr_names p = Some (sn, dn).
Hypothesis Hlook : lookup fs sn = Some (File d).
Hypothesis Hseg : 1 <= seg.
Hypothesis Hm : sc_mode cf = ACKED.
Hypothesis Hfin : l_ind_fin c = true.
Hypothesis Hack : 0 < r_ack_ms r.
Hypothesis Hsrc : sc_src cf = l_id c.
Hypothesis Hdst : sc_dst cf = r_id r.

(* the invariant of PerfectLinkAckedProofs while file data is being sent, plus: no EOF condition yet, nothing left to
   retrieve *)
Definition InvC (off : Z) (s : src) : Prop :=
  InvA c p r fs d cf seg clo tid off s /\ q_cond_eof (s_p s) = None /\ s_ready s = 0.

Lemma InvC_busy : forall off s, InvC off s -> s_state s = ST_BUSY.
Proof. intros off s [H _]. exact (InvA_busy _ _ _ _ _ _ _ _ _ _ _ H). Qed.
Lemma InvC_range : forall off s, InvC off s -> 0 <= off <= zlen d.
Proof. intros off s [H _]. exact (InvA_range _ _ _ _ _ _ _ _ _ _ _ H). Qed.

Lemma step_fd_c : forall off s, InvC off s -> off < zlen d ->
  exists s', pump s = (s', Ok [fd_of (hdr_of cf TOWARDS_RECEIVER) (off, ztake seg (zdrop off d))]) /\
             InvC (off + Z.min seg (zlen d - off)) s'.
Proof.
  intros off s [[HI [Hcl [Hqf Hct]]] [Hce Hrd]] Hlt.
  destruct HI as (H1&H2&H3&H4&H5&H6&H7&H8&H9&H10&H11&H12&H13&H14&H15&H16&H17).
  destruct s as [cfg st step ready queue q sb pt sc sbits [nw fs' rw lg]].
  destruct q. cbn in H1,H2,H3,H4,H5,H6,H7,H8,H9,H10,H11,H12,H13,H14,H15,Hcl,Hqf,Hct,Hce,Hrd. subst.
  unfold pump, pump_with, state_machine_s.
  assert (E1 : (off <? zlen d) = true) by (apply Z.ltb_lt; lia).
  assert (E2 : (off =? zlen d) = false) by (apply Z.eqb_neq; lia).
  assert (E3 : (zlen d =? 0) = false) by (apply Z.eqb_neq; lia).
  destruct H15 as [[Hs _]|Hs]; subst step;
    repeat (progress (sx; rewrite ?Hnames, ?Hlook, ?Hm, ?E1, ?E2, ?E3;
                      unfold fsm_non_idle, fsm_advancement_s, sending_file_data_fsm, handle_retransmission,
                        prepare_progressing_file_data_pdu, prepare_file_data_pdu, fs_read_data));
    rewrite (read_len_eq (zlen d) seg off) by lia; rewrite ztake_min by lia;
    (eexists; split; [reflexivity|]);
    (split; [|split; [reflexivity|cbn; unfold zlen; cbn; lia]]);
    (split; [|split; [exact Hcl | split; reflexivity]]);
    unfold Inv; cbn; repeat split; try reflexivity; try lia;
    try (right; reflexivity).
Qed.

(* the checksum of a prefix, as the handler computes it *)
Local Transparent calculate_checksum.
Lemma cc_pref : forall n ck s, s_put s = Some p -> q_md_only (s_p s) = false -> q_rcfg (s_p s) = Some r ->
  q_segment_len (s_p s) = seg -> e_fs (s_env s) = fs ->
  calculate_checksum (r_cktype r) (Some d) n seg = Ok ck ->
  checksum_calculation n s = (s, Ok ck).
Proof.
  intros n ck s H1 H2 H3 H4 H5 Hck.
  unfold checksum_calculation, put_or_assert, srcfg_or_assert, gq, gets, bind, ret.
  rewrite H1. cbv beta iota. rewrite H2. cbv beta iota. rewrite Hnames. cbv beta iota.
  rewrite H3. cbv beta iota. rewrite H4, H5.
  destruct (r_cktype r =? CK_NULL) eqn:E.
  - unfold calculate_checksum in Hck. rewrite E in Hck. inversion Hck. reflexivity.
  - rewrite Hlook, Hck. reflexivity.
Qed.
Local Opaque calculate_checksum.
Local Opaque checksum_calculation.

(* the handler between two calls after the EOF (cancel) PDU: as [Tail] of PerfectLinkAckedProofs, with the exact log and
   the Positive-ACK timer *)
Definition TailL (step : Z) (qf : option (Z * Z * Z * option (Z * Z))) (L : list event) (s : src) : Prop :=
  s_cfg s = c /\ s_state s = ST_BUSY /\ s_step s = step /\ s_queue s = [] /\ s_put s = Some p /\
  q_conf (s_p s) = cf /\ q_rcfg (s_p s) = Some r /\ q_tid (s_p s) = Some tid /\ q_check_timer (s_p s) = None /\
  q_fin (s_p s) = qf /\ e_log (s_env s) = L /\ q_ack_timer (s_p s) = Some (e_now (s_env s), r_ack_ms r).

Lemma TailL_busy : forall st qf L s, TailL st qf L s -> s_state s = ST_BUSY.
Proof. intros st qf L s (_&H&_). exact H. Qed.
Lemma TailL_step : forall st qf L s, TailL st qf L s -> s_step s = st.
Proof. intros st qf L s (_&_&H&_). exact H. Qed.

Ltac unf_final :=
  unfold fsm_non_idle, fsm_advancement_s, sending_file_data_fsm, handle_retransmission,
    prepare_eof_pdu, handle_eof_sent, start_positive_ack_procedure_s, handle_waiting_for_ack,
    handle_positive_ack_procedures_s, handle_wait_for_finish, notice_of_completion_s, sreset_internal.

(* the cancel request: true; an EOF (Cancel Request Received) over the [off] bytes sent is queued *)
Lemma step_cancel : forall off s ck, InvC off s ->
  calculate_checksum (r_cktype r) (Some d) off seg = Ok ck ->
  exists s1 s2, cancel_request_s (fst tid) (snd tid) s = (s1, Ok true) /\
    drain_s s1 = (s2, [PEof (hdr_of cf TOWARDS_RECEIVER) C_CANCEL_REQUEST ck off None]) /\
    TailL SS_WAITING_FOR_EOF_ACK None
          ((if l_ind_eof_sent c then [EvEofSent (fst tid) (snd tid)] else []) ++ e_log (s_env s)) s2.
Proof.
  intros off s ck [[HI [Hcl [Hqf Hct]]] [Hce Hrd]] Hck.
  destruct HI as (H1&H2&H3&H4&H5&H6&H7&H8&H9&H10&H11&H12&H13&H14&H15&H16&H17).
  destruct s as [cfg st step ready queue q sb pt sc sbits [nw fs' rw lg]].
  destruct q. cbn in H1,H2,H3,H4,H5,H6,H7,H8,H9,H10,H11,H12,H13,H14,H15,Hcl,Hqf,Hct,Hce,Hrd.
  rewrite (surjective_pairing tid) in H14. subst.
  unfold cancel_request_s, notice_of_cancellation_s.
  destruct (l_ind_eof_sent c) eqn:Ee;
  repeat (progress (sx; rewrite ?Hm, ?Ee, ?zeqb_refl;
                    rewrite ?(cc_pref off ck) by first [reflexivity | exact Hck]; unf_final));
  (eexists; eexists; split; [reflexivity|]); unfold drain_s; cbn; (split; [reflexivity|]);
  unfold TailL; cbn; rewrite <- surjective_pairing; repeat (split; [reflexivity|]); reflexivity.
Qed.

(* a call while the ACK of the EOF is awaited and its timer (positive interval, clock not advanced) has not expired *)
Lemma step_wait : forall s L, TailL SS_WAITING_FOR_EOF_ACK None L s ->
  exists s', pump s = (s', Ok []) /\ TailL SS_WAITING_FOR_EOF_ACK None L s'.
Proof.
  intros s L (H1&H2&H3&H4&H5&H6&H7&H8&H9&H10&H11&H12).
  destruct s as [cfg st step ready queue q sb pt sc sbits [nw fs' rw lg]].
  destruct q. cbn in H1,H2,H3,H4,H5,H6,H7,H8,H9,H10,H11,H12. subst.
  unfold pump, pump_with, state_machine_s.
  assert (E5 : (r_ack_ms r <=? 0) = false) by (apply Z.leb_gt; exact Hack).
  repeat (progress (sx; rewrite ?Hm, ?zsub_diag, ?E5; unf_final)).
  eexists; split; [reflexivity|]. unfold TailL; cbn.
  repeat (split; [reflexivity|]). reflexivity.
Qed.

Lemma step_ack_eof_c : forall s L cond st, TailL SS_WAITING_FOR_EOF_ACK None L s ->
  exists s', pump_with (Some (PAck (hdr_of cf TOWARDS_SENDER) D_EOF cond st)) s = (s', Ok []) /\
             TailL SS_WAITING_FOR_FINISHED None L s'.
Proof.
  intros s L cond st0 (H1&H2&H3&H4&H5&H6&H7&H8&H9&H10&H11&H12).
  destruct s as [cfg st step ready queue q sb pt sc sbits [nw fs' rw lg]].
  destruct q. cbn in H1,H2,H3,H4,H5,H6,H7,H8,H9,H10,H11,H12. subst.
  unfold pump_with, state_machine_s, check_inserted_packet_s.
  repeat (progress (sx; rewrite ?Hm, ?Hsrc, ?Hdst, ?zeqb_refl; unf_final)).
  eexists; split; [reflexivity|]. unfold TailL; cbn.
  repeat (split; [reflexivity|]). reflexivity.
Qed.

Lemma step_finished_c : forall s L cond deliv fstat fl, TailL SS_WAITING_FOR_FINISHED None L s ->
  exists s', pump_with (Some (PFinished (hdr_of cf TOWARDS_SENDER) cond deliv fstat fl)) s =
               (s', Ok [PAck (hdr_of cf TOWARDS_RECEIVER) D_FINISHED cond TS_ACTIVE]) /\
             TailL SS_SENDING_ACK_OF_FINISHED (Some (cond, deliv, fstat, fl)) L s'.
Proof.
  intros s L cond deliv fstat fl (H1&H2&H3&H4&H5&H6&H7&H8&H9&H10&H11&H12).
  destruct s as [cfg st step ready queue q sb pt sc sbits [nw fs' rw lg]].
  destruct q. cbn in H1,H2,H3,H4,H5,H6,H7,H8,H9,H10,H11,H12. subst.
  unfold pump_with, state_machine_s, check_inserted_packet_s.
  repeat (progress (sx; rewrite ?Hm, ?Hsrc, ?Hdst, ?zeqb_refl; unf_final)).
  eexists; split; [reflexivity|]. unfold TailL; cbn.
  repeat (split; [reflexivity|]). reflexivity.
Qed.

Lemma step_done_c : forall s L cond deliv fstat fl,
  TailL SS_SENDING_ACK_OF_FINISHED (Some (cond, deliv, fstat, fl)) L s ->
  exists s', pump s = (s', Ok []) /\ s_state s' = ST_IDLE /\
             e_log (s_env s') = EvFinished (fst tid) (snd tid) cond deliv fstat fl :: L.
Proof.
  intros s L cond deliv fstat fl (H1&H2&H3&H4&H5&H6&H7&H8&H9&H10&H11&H12).
  destruct s as [cfg st step ready queue q sb pt sc sbits [nw fs' rw lg]].
  destruct q. cbn in H1,H2,H3,H4,H5,H6,H7,H8,H9,H10,H11,H12. subst.
  unfold pump, pump_with, state_machine_s.
  repeat (progress (sx; rewrite ?Hm, ?Hfin; unf_final)).
  eexists; split; [reflexivity|]. cbn.
  split; reflexivity.
Qed.

End Sender.

Lemma md_pump_c : forall c p r fs d cf seg clo tid sn dn, pr_names p = Some (sn, dn) ->
  forall s, InvC c p r fs d cf seg clo tid 0 s ->
  exists s3,
    (match prepare_metadata_pdu s with
     | (s'', Ok _) => let '(s3, ps) := drain_s s'' in (s3, Ok ps)
     | (s'', Err e) => (s'', Err e)
     end) =
    (s3, Ok [PMetadata (hdr_of cf TOWARDS_RECEIVER) clo (r_cktype r) (zlen d) (Some (sn, dn))
               (match pr_msgs p with Some l => l | None => [] end)]) /\
    InvC c p r fs d cf seg clo tid 0 s3.
Proof.
  intros c p r fs d cf seg clo tid sn dn Hnames s [[HI [Hcl [Hqf Hct]]] [Hce Hrd]].
  destruct HI as (H1&H2&H3&H4&H5&H6&H7&H8&H9&H10&H11&H12&H13&H14&H15&H16&H17).
  destruct s as [cfg st step ready queue q sb pt sc sbits [nw fs' rw lg]].
  destruct q. cbn in H1,H2,H3,H4,H5,H6,H7,H8,H9,H10,H11,H12,H13,H14,H15,Hcl,Hqf,Hct,Hce,Hrd. subst.
  unfold prepare_metadata_pdu, drain_s.
  repeat (progress (sx; rewrite ?Hnames)).
  eexists. split; [reflexivity|].
  split; [|split; [reflexivity|cbn; unfold zlen; cbn; lia]].
  split; [|split; [exact Hcl|split; reflexivity]].
  unfold Inv; cbn. repeat split; try reflexivity; try lia; exact H15.
Qed.

Lemma ts_ok_c : forall (c : lcfg) (seq0 bits : Z) (fs : tree) (p : putreq) (r : rcfg) (sn dn : path) (d : bytes)
    (mode : Z) (clo : bool),
  let w := Z.max (l_idw c) (pr_dstw p) in
  let large := 4294967295 <? zlen d in
  let derived := r_max_packet r - (4 + 2 * w + bits / 8) - (if large then 8 else 4) - (if r_crc r then 2 else 0) in
  let seg := match r_max_seg r with Some m => Z.min m derived | None => derived end in
  let cf := mkSconf (l_id c) w (pr_dst p) w seq0 (bits / 8) mode large (r_crc r) in
  pr_names p = Some (sn, dn) -> lookup fs sn = Some (File d) ->
  (bits = 8 \/ bits = 16 \/ bits = 32) -> 0 <= seq0 < 2 ^ bits ->
  1 <= seg -> 6 <= derived ->
  exists s2,
    transaction_start (st1 c p r fs seq0 bits mode clo SS_TRANSACTION_START) = (s2, Ok tt) /\
    InvC c p r fs d cf seg clo (l_id c, seq0) 0 (s2 <| s_step := SS_SENDING_METADATA |>).
Proof.
  intros c seq0 bits fs p r sn dn d mode clo w large derived seg cf Hn Hl Hb Hs Hseg Hd6.
  assert (Hd : 1 <= derived).
  { unfold seg in Hseg. destruct (r_max_seg r); lia. }
  destruct p as [dst dstw pm pc pn pmsg]. cbn in Hn, w, cf. subst pn.
  subst cf seg derived large w.
  unfold st1.
  assert (Hlen : 0 <= zlen d) by (unfold zlen; lia).
  assert (E2 : (2 ^ bits <=? seq0) = false) by (apply Z.leb_gt; lia).
  assert (E3 : (bits =? 8) || (bits =? 16) || (bits =? 32) = true).
  { destruct Hb as [Hb|[Hb|Hb]]; subst bits; reflexivity. }
  unfold transaction_start.
  destruct (zlen d =? 0) eqn:Ez.
  - pose proof Ez as Ez'. apply Z.eqb_eq in Ez'. rewrite Ez' in Hd, Hd6. cbn in Hd, Hd6.
    repeat (progress (sx; rewrite ?Hl, ?Ez, ?E2, ?E3;
                      rewrite ?mfsl_ok by (unfold hdr_len, fss_len, crc_len; cbn; lia);
                      rewrite ?eof_fits_pl by (unfold hdr_len, fss_len, crc_len; cbn; lia);
                      unfold fs_file_exists, exists_, fs_file_size)).
    unfold InvC, InvA, Inv. rewrite Ez'. eexists. split; [reflexivity|]. unfold set; cbn.
    split; [|split; reflexivity].
    split; [|split; [apply clean_cons; [reflexivity|reflexivity|apply clean_nil]|split; reflexivity]].
    repeat split; try reflexivity; try lia; try (left; split; reflexivity).
    unfold hdr_len, crc_len. cbn.
    destruct (r_max_seg r) as [m|]; [|lia].
    destruct (m <? _) eqn:E; [apply Z.ltb_lt in E | apply Z.ltb_ge in E]; lia.
  - pose proof Ez as Ez'. apply Z.eqb_neq in Ez'.
    repeat (progress (sx; rewrite ?Hl, ?Ez, ?E2, ?E3;
                      rewrite ?mfsl_ok by (unfold hdr_len, fss_len, crc_len; cbn; lia);
                      rewrite ?eof_fits_pl by (unfold hdr_len, fss_len, crc_len; cbn; lia);
                      unfold fs_file_exists, exists_, fs_file_size)).
    unfold InvC, InvA, Inv. eexists. split; [reflexivity|]. unfold set; cbn.
    split; [|split; reflexivity].
    split; [|split; [apply clean_cons; [reflexivity|reflexivity|apply clean_nil]|split; reflexivity]].
    repeat split; try reflexivity; try lia; try (left; split; reflexivity).
    unfold hdr_len, crc_len, fss_len. cbn.
    destruct (r_max_seg r) as [m|]; [|lia].
    destruct (m <? _) eqn:E; [apply Z.ltb_lt in E | apply Z.ltb_ge in E]; lia.
Qed.

Lemma first_call_c : forall (c : lcfg) (seq0 bits : Z) (fs : tree) (p : putreq) (r : rcfg) (sn dn : path) (d : bytes),
  let w := Z.max (l_idw c) (pr_dstw p) in
  let large := 4294967295 <? zlen d in
  let derived := r_max_packet r - (4 + 2 * w + bits / 8) - (if large then 8 else 4) - (if r_crc r then 2 else 0) in
  let seg := match r_max_seg r with Some m => Z.min m derived | None => derived end in
  let cf := mkSconf (l_id c) w (pr_dst p) w seq0 (bits / 8) ACKED large (r_crc r) in
  let clo := match pr_closure p with Some b => b | None => r_closure r end in
  get_remote (l_remotes c) (pr_dst p) = Some r ->
  pr_names p = Some (sn, dn) -> lookup fs sn = Some (File d) ->
  (match pr_mode p with Some m => m | None => r_mode r end) = ACKED ->
  (bits = 8 \/ bits = 16 \/ bits = 32) -> 0 <= seq0 < 2 ^ bits -> 1 <= seg -> 6 <= derived ->
  exists s1 s3,
    put_request p (src_fresh c seq0 bits fs) = (s1, Ok true) /\
    pump s1 = (s3, Ok [PMetadata (hdr_of cf TOWARDS_RECEIVER) clo (r_cktype r) (zlen d) (Some (sn, dn))
                         (match pr_msgs p with Some l => l | None => [] end)]) /\
    InvC c p r fs d cf seg clo (l_id c, seq0) 0 s3.
Proof.
  intros c seq0 bits fs p r sn dn d w large derived seg cf clo Hr Hn Hl Hmode Hb Hs Hseg Hd6.
  destruct (ts_ok_c c seq0 bits fs p r sn dn d ACKED clo Hn Hl Hb Hs Hseg Hd6) as [s2 [T1 T2]].
  fold w large cf in T2. fold derived in T2. fold seg in T2.
  destruct (md_pump_c c p r fs d cf seg clo (l_id c, seq0) sn dn Hn _ T2) as [s3 [M1 M2]].
  eexists. exists s3. split; [|split; [|exact M2]].
  - rewrite (pr_ok c seq0 bits fs p r sn dn d Hr Hn Hl), Hmode. reflexivity.
  - fold clo. rewrite pump_call1, T1. exact M1.
Qed.

End SenderSide.

(* ================================================================== *)
(* 1u. the sender, unacknowledged mode without closure                 *)
(* ================================================================== *)
Section SenderSideU.
Local Arguments max_file_seg_len : simpl never.
Local Arguments lookup : simpl never.

Section SenderU.
Variables (c : lcfg) (p : putreq) (r : rcfg) (fs : tree) (d : bytes) (cf : sconf)
          (seg : Z) (tid : Z * Z) (sn dn : path).
Hypothesis Hnames : pr_names p = Some (sn, dn).
Hypothesis Hlook : lookup fs sn = Some (File d).
Hypothesis Hseg : 1 <= seg.
Hypothesis Hm : sc_mode cf = UNACKED.
Hypothesis Hfin : l_ind_fin c = true.
Local Opaque checksum_calculation.

Definition InvU (off : Z) (s : src) : Prop :=
  InvL c p r fs d cf seg tid off s /\ q_cond_eof (s_p s) = None /\ s_ready s = 0.

Lemma InvU_range : forall off s, InvU off s -> 0 <= off <= zlen d.
Proof. intros off s [H _]. exact (InvL_range _ _ _ _ _ _ _ _ _ _ H). Qed.

Lemma step_fd_cu : forall off s, InvU off s -> off < zlen d ->
  exists s', pump s = (s', Ok [fd_of (hdr_of cf TOWARDS_RECEIVER) (off, ztake seg (zdrop off d))]) /\
             InvU (off + Z.min seg (zlen d - off)) s'.
Proof.
  intros off s [[HI [Hcl Hqf]] [Hce Hrd]] Hlt.
  destruct HI as (H1&H2&H3&H4&H5&H6&H7&H8&H9&H10&H11&H12&H13&H14&H15&H16&H17).
  destruct s as [cfg st step ready queue q sb pt sc sbits [nw fs' rw lg]].
  destruct q. cbn in H1,H2,H3,H4,H5,H6,H7,H8,H9,H10,H11,H12,H13,H14,H15,Hcl,Hqf,Hce,Hrd. subst.
  unfold pump, pump_with, state_machine_s.
  assert (E1 : (off <? zlen d) = true) by (apply Z.ltb_lt; lia).
  assert (E2 : (off =? zlen d) = false) by (apply Z.eqb_neq; lia).
  assert (E3 : (zlen d =? 0) = false) by (apply Z.eqb_neq; lia).
  destruct H15 as [[Hs _]|Hs]; subst step;
    repeat (progress (sx; rewrite ?Hnames, ?Hlook, ?Hm, ?E1, ?E2, ?E3;
                      unfold fsm_non_idle, fsm_advancement_s, sending_file_data_fsm, handle_retransmission,
                        prepare_progressing_file_data_pdu, prepare_file_data_pdu, fs_read_data));
    rewrite (read_len_eq (zlen d) seg off) by lia; rewrite ztake_min by lia;
    (eexists; split; [reflexivity|]);
    (split; [|split; [reflexivity|cbn; unfold zlen; cbn; lia]]);
    (split; [|split; [exact Hcl | reflexivity]]);
    unfold Inv; cbn; repeat split; try reflexivity; try lia;
    try (right; reflexivity).
Qed.

Ltac unf_final :=
  unfold fsm_non_idle, fsm_advancement_s, sending_file_data_fsm, handle_retransmission,
    prepare_eof_pdu, handle_eof_sent, start_positive_ack_procedure_s, handle_waiting_for_ack,
    handle_positive_ack_procedures_s, handle_wait_for_finish, notice_of_completion_s, sreset_internal.

(* the cancel request: true; the EOF (Cancel Request Received) over the [off] bytes sent is queued, the transaction ends
   at once with the Transaction-Finished indication *)
Lemma step_cancel_u : forall off s ck, InvU off s ->
  calculate_checksum (r_cktype r) (Some d) off seg = Ok ck ->
  exists s1 s2, cancel_request_s (fst tid) (snd tid) s = (s1, Ok true) /\
    drain_s s1 = (s2, [PEof (hdr_of cf TOWARDS_RECEIVER) C_CANCEL_REQUEST ck off None]) /\
    s_state s2 = ST_IDLE /\ s_queue s2 = [] /\
    e_log (s_env s2) =
      EvFinished (fst tid) (snd tid) C_CANCEL_REQUEST DATA_INCOMPLETE FS_UNREPORTED None ::
      (if l_ind_eof_sent c then [EvEofSent (fst tid) (snd tid)] else []) ++ e_log (s_env s).
Proof.
  intros off s ck [[HI [Hcl Hqf]] [Hce Hrd]] Hck.
  destruct HI as (H1&H2&H3&H4&H5&H6&H7&H8&H9&H10&H11&H12&H13&H14&H15&H16&H17).
  destruct s as [cfg st step ready queue q sb pt sc sbits [nw fs' rw lg]].
  destruct q. cbn in H1,H2,H3,H4,H5,H6,H7,H8,H9,H10,H11,H12,H13,H14,H15,Hcl,Hqf,Hce,Hrd.
  rewrite (surjective_pairing tid) in H14. subst.
  unfold cancel_request_s, notice_of_cancellation_s.
  destruct (l_ind_eof_sent c) eqn:Ee;
  repeat (progress (sx; rewrite ?Hm, ?Ee, ?Hfin, ?zeqb_refl;
                    rewrite ?(cc_pref p r fs d seg sn dn Hnames Hlook off ck) by first [reflexivity | exact Hck];
                    unf_final));
  (eexists; eexists; split; [reflexivity|]); unfold drain_s; cbn; (split; [reflexivity|]);
  repeat (split; [reflexivity|]); reflexivity.
Qed.
End SenderU.

(* a call on the idle handler *)
Lemma pump_idle : forall s, s_state s = ST_IDLE -> s_queue s = [] ->
  exists s', pump s = (s', Ok []) /\ s_state s' = ST_IDLE /\ s_step s' = s_step s /\
             e_log (s_env s') = e_log (s_env s).
Proof.
  intros s H1 H2.
  destruct s as [cfg st step ready queue q sb pt sc sbits [nw fs' rw lg]]. cbn in H1, H2. subst.
  unfold pump, pump_with, state_machine_s. sx.
  eexists. split; [reflexivity|]. cbn. repeat split; reflexivity.
Qed.

Lemma md_pump_cu : forall c p r fs d cf seg tid sn dn, pr_names p = Some (sn, dn) ->
  forall s, InvU c p r fs d cf seg tid 0 s ->
  exists s3,
    (match prepare_metadata_pdu s with
     | (s'', Ok _) => let '(s3, ps) := drain_s s'' in (s3, Ok ps)
     | (s'', Err e) => (s'', Err e)
     end) =
    (s3, Ok [PMetadata (hdr_of cf TOWARDS_RECEIVER) false (r_cktype r) (zlen d) (Some (sn, dn))
               (match pr_msgs p with Some l => l | None => [] end)]) /\
    InvU c p r fs d cf seg tid 0 s3.
Proof.
  intros c p r fs d cf seg tid sn dn Hnames s [[HI [Hcl Hqf]] [Hce Hrd]].
  destruct HI as (H1&H2&H3&H4&H5&H6&H7&H8&H9&H10&H11&H12&H13&H14&H15&H16&H17).
  destruct s as [cfg st step ready queue q sb pt sc sbits [nw fs' rw lg]].
  destruct q. cbn in H1,H2,H3,H4,H5,H6,H7,H8,H9,H10,H11,H12,H13,H14,H15,Hcl,Hqf,Hce,Hrd. subst.
  unfold prepare_metadata_pdu, drain_s.
  repeat (progress (sx; rewrite ?Hnames)).
  eexists. split; [reflexivity|].
  split; [|split; [reflexivity|cbn; unfold zlen; cbn; lia]].
  split; [|split; [exact Hcl|reflexivity]].
  unfold Inv; cbn. repeat split; try reflexivity; try lia; exact H15.
Qed.

Lemma ts_ok_cu : forall (c : lcfg) (seq0 bits : Z) (fs : tree) (p : putreq) (r : rcfg) (sn dn : path) (d : bytes)
    (mode : Z),
  let w := Z.max (l_idw c) (pr_dstw p) in
  let large := 4294967295 <? zlen d in
  let derived := r_max_packet r - (4 + 2 * w + bits / 8) - (if large then 8 else 4) - (if r_crc r then 2 else 0) in
  let seg := match r_max_seg r with Some m => Z.min m derived | None => derived end in
  let cf := mkSconf (l_id c) w (pr_dst p) w seq0 (bits / 8) mode large (r_crc r) in
  pr_names p = Some (sn, dn) -> lookup fs sn = Some (File d) ->
  (bits = 8 \/ bits = 16 \/ bits = 32) -> 0 <= seq0 < 2 ^ bits ->
  1 <= seg -> 6 <= derived ->
  exists s2,
    transaction_start (st1 c p r fs seq0 bits mode false SS_TRANSACTION_START) = (s2, Ok tt) /\
    InvU c p r fs d cf seg (l_id c, seq0) 0 (s2 <| s_step := SS_SENDING_METADATA |>).
Proof.
  intros c seq0 bits fs p r sn dn d mode w large derived seg cf Hn Hl Hb Hs Hseg Hd6.
  assert (Hd : 1 <= derived).
  { unfold seg in Hseg. destruct (r_max_seg r); lia. }
  destruct p as [dst dstw pm pc pn pmsg]. cbn in Hn, w, cf. subst pn.
  subst cf seg derived large w.
  unfold st1.
  assert (Hlen : 0 <= zlen d) by (unfold zlen; lia).
  assert (E2 : (2 ^ bits <=? seq0) = false) by (apply Z.leb_gt; lia).
  assert (E3 : (bits =? 8) || (bits =? 16) || (bits =? 32) = true).
  { destruct Hb as [Hb|[Hb|Hb]]; subst bits; reflexivity. }
  unfold transaction_start.
  destruct (zlen d =? 0) eqn:Ez.
  - pose proof Ez as Ez'. apply Z.eqb_eq in Ez'. rewrite Ez' in Hd, Hd6. cbn in Hd, Hd6.
    repeat (progress (sx; rewrite ?Hl, ?Ez, ?E2, ?E3;
                      rewrite ?mfsl_ok by (unfold hdr_len, fss_len, crc_len; cbn; lia);
                      rewrite ?eof_fits_pl by (unfold hdr_len, fss_len, crc_len; cbn; lia);
                      unfold fs_file_exists, exists_, fs_file_size)).
    unfold InvU, InvL, Inv. rewrite Ez'. eexists. split; [reflexivity|]. unfold set; cbn.
    split; [|split; reflexivity].
    split; [|split; [apply clean_cons; [reflexivity|reflexivity|apply clean_nil]|reflexivity]].
    repeat split; try reflexivity; try lia; try (left; split; reflexivity).
    unfold hdr_len, crc_len. cbn.
    destruct (r_max_seg r) as [m|]; [|lia].
    destruct (m <? _) eqn:E; [apply Z.ltb_lt in E | apply Z.ltb_ge in E]; lia.
  - pose proof Ez as Ez'. apply Z.eqb_neq in Ez'.
    repeat (progress (sx; rewrite ?Hl, ?Ez, ?E2, ?E3;
                      rewrite ?mfsl_ok by (unfold hdr_len, fss_len, crc_len; cbn; lia);
                      rewrite ?eof_fits_pl by (unfold hdr_len, fss_len, crc_len; cbn; lia);
                      unfold fs_file_exists, exists_, fs_file_size)).
    unfold InvU, InvL, Inv. eexists. split; [reflexivity|]. unfold set; cbn.
    split; [|split; reflexivity].
    split; [|split; [apply clean_cons; [reflexivity|reflexivity|apply clean_nil]|reflexivity]].
    repeat split; try reflexivity; try lia; try (left; split; reflexivity).
    unfold hdr_len, crc_len, fss_len. cbn.
    destruct (r_max_seg r) as [m|]; [|lia].
    destruct (m <? _) eqn:E; [apply Z.ltb_lt in E | apply Z.ltb_ge in E]; lia.
Qed.

Lemma first_call_cu : forall (c : lcfg) (seq0 bits : Z) (fs : tree) (p : putreq) (r : rcfg) (sn dn : path) (d : bytes),
  let w := Z.max (l_idw c) (pr_dstw p) in
  let large := 4294967295 <? zlen d in
  let derived := r_max_packet r - (4 + 2 * w + bits / 8) - (if large then 8 else 4) - (if r_crc r then 2 else 0) in
  let seg := match r_max_seg r with Some m => Z.min m derived | None => derived end in
  let cf := mkSconf (l_id c) w (pr_dst p) w seq0 (bits / 8) UNACKED large (r_crc r) in
  get_remote (l_remotes c) (pr_dst p) = Some r ->
  pr_names p = Some (sn, dn) -> lookup fs sn = Some (File d) ->
  (match pr_mode p with Some m => m | None => r_mode r end) = UNACKED ->
  (match pr_closure p with Some b => b | None => r_closure r end) = false ->
  (bits = 8 \/ bits = 16 \/ bits = 32) -> 0 <= seq0 < 2 ^ bits -> 1 <= seg -> 6 <= derived ->
  exists s1 s3,
    put_request p (src_fresh c seq0 bits fs) = (s1, Ok true) /\
    pump s1 = (s3, Ok [PMetadata (hdr_of cf TOWARDS_RECEIVER) false (r_cktype r) (zlen d) (Some (sn, dn))
                         (match pr_msgs p with Some l => l | None => [] end)]) /\
    InvU c p r fs d cf seg (l_id c, seq0) 0 s3.
Proof.
  intros c seq0 bits fs p r sn dn d w large derived seg cf Hr Hn Hl Hmode Hclo Hb Hs Hseg Hd6.
  destruct (ts_ok_cu c seq0 bits fs p r sn dn d UNACKED Hn Hl Hb Hs Hseg Hd6) as [s2 [T1 T2]].
  fold w large cf in T2. fold derived in T2. fold seg in T2.
  destruct (md_pump_cu c p r fs d cf seg (l_id c, seq0) sn dn Hn _ T2) as [s3 [M1 M2]].
  eexists. exists s3. split; [|split; [|exact M2]].
  - rewrite (pr_ok c seq0 bits fs p r sn dn d Hr Hn Hl), Hmode, Hclo. reflexivity.
  - rewrite pump_call1, T1. exact M1.
Qed.
End SenderSideU.

Local Opaque calculate_checksum.

(* ================================================================== *)
(* 2. the receiver: EOF (cancel), cancelled completion, ACK(Finished)  *)
(* ================================================================== *)
Section ReceiverC.
Variables (cd : lcfg) (rd : rcfg) (x : Z) (crc large clo : bool) (srcid idw seq seqw ckt fsz : Z).
Hypothesis Hrem : get_remote (l_remotes cd) srcid = Some rd.
Hypothesis Hfin : l_ind_fin cd = true.
Hypothesis Hack : 0 < r_ack_ms rd.

Definition hA' : hdr := hA cd crc large srcid idw seq seqw.
Definition hB' : hdr := hB cd crc large srcid idw seq seqw.
Definition DA' : Z -> Z -> Z -> tree -> list event -> dst := DA cd rd x crc large clo srcid idw seq seqw ckt fsz.

(* the fault location of a transaction cancelled by the sender: the sending entity as the receiver knows it *)
Definition flC : option (Z * Z) := Some (r_id rd, r_idw rd).
Definition finC (fstat : Z) : fin := mkFin DATA_INCOMPLETE fstat C_CANCEL_REQUEST flC.
Definition dpC (fstat sz : Z) (ck : bytes) (ls le : Z) (tm : option timer) : dparams :=
  mkDP (Some (srcid, seq)) (Some rd) None 0 clo ckt (finC fstat) DISP_CANCELED hB' sz ck (Some fsz) [x] (Some sz) false []
       false ls le false None 0 tm 0.
Definition dstC (step ready : Z) (q : list pdu) (pa : dparams) (fs : tree) (lg : list event) : dst :=
  mkDst cd ST_BUSY step (Some (srcid, seq)) ready q pa (mkEnv 0 fs false lg).

(* after the EOF (cancel): its ACK queued *)
Definition ackC : pdu := PAck hB' D_EOF C_CANCEL_REQUEST TS_ACTIVE.
Definition DCE (ready : Z) (q : list pdu) (ck : bytes) (sz ls le : Z) (fs : tree) (lg : list event) : dst :=
  dstC DS_SENDING_EOF_ACK ready q (dpC FS_RETAINED sz ck ls le None) fs lg.
(* after the cancelled completion: Finished PDU queued, Positive-ACK timer running *)
Definition finCP (fstat : Z) : pdu := PFinished hB' C_CANCEL_REQUEST DATA_INCOMPLETE fstat flC.
Definition DCW (fstat ready : Z) (q : list pdu) (ck : bytes) (sz ls le : Z) (fs : tree) (lg : list event) : dst :=
  dstC DS_WAITING_FOR_FINISHED_ACK ready q (dpC fstat sz ck ls le (Some (0, r_ack_ms rd))) fs lg.

Lemma sm_eof_c : forall ck fl off ls fs lg,
  Dest.state_machine (Some (PEof hA' C_CANCEL_REQUEST ck off fl)) (DA' off ls off fs lg) =
    (DCE 1 [ackC] ck off ls off fs ((if l_ind_eof_recv cd then [EvEofRecv srcid seq] else []) ++ lg), Ok tt).
Proof.
  intros ck fl off ls fs lg. unfold Dest.state_machine, DA', hA'.
  assert (C : check_inserted_packet (PEof (hA cd crc large srcid idw seq seqw) C_CANCEL_REQUEST ck off fl)
                (DA cd rd x crc large clo srcid idw seq seqw ckt fsz off ls off fs lg) =
              (DA cd rd x crc large clo srcid idw seq seqw ckt fsz off ls off fs lg, Ok tt)).
  { apply (check_a cd rd crc large srcid idw seq seqw Hrem);
      [reflexivity|reflexivity|right; split; [reflexivity|split; reflexivity]]. }
  rewrite (b_ok _ _ _ _ _ C).
  unfold catch_abandoned; apply catch_ok.
  unfold DA at 1, dstA, dpA, hB. mrun.
  change 3%nat with (S 2). cbn [non_idle_fsm].
  unfold fsm_advancement at 1. mrun.
  unfold handle_eof_pdu. mrun.
  destruct (l_ind_eof_recv cd); unfold tid_or_assert; mrun;
  unfold file_transfer_complete_transition; mrun; unfold prepare_eof_ack_packet, conf, add_packet; mrun;
  reflexivity.
Qed.

Lemma sm_complete_c : forall ck sz ls le fs lg,
  Dest.state_machine None (DCE 0 [] ck sz ls le fs lg) =
    (let fstat := if r_disposition rd then FS_DISCARDED_DELIBERATELY else FS_RETAINED in
     DCW fstat 1 [finCP fstat] ck sz ls le (if r_disposition rd then fst (fs_delete_file fs [x]) else fs)
         (EvFinished srcid seq C_CANCEL_REQUEST DATA_INCOMPLETE fstat flC :: lg), Ok tt).
Proof.
  intros ck sz ls le fs lg. rewrite dsm_busy_none by reflexivity.
  unfold catch_abandoned; apply catch_ok.
  change 3%nat with (S 2). cbn [non_idle_fsm].
  unfold DCE at 1, dstC, dpC, hB', hB, finC, flC.
  unfold fsm_advancement at 1. mrun.
  unfold handle_transfer_completion, notice_of_completion, rcfg_or_assert; mrun;
  destruct (r_disposition rd); mrun; rewrite Hfin; mrun; dpr; mrun;
  unfold prepare_finished_pdu, conf, add_packet; mrun;
  unfold handle_finished_pdu_sent; mrun; unfold start_positive_ack_procedure, rcfg_or_assert, now; mrun;
  unfold handle_waiting_for_finished_ack, handle_positive_ack_procedures, rcfg_or_assert, now; mrun;
  rewrite (timer_fresh 0 (r_ack_ms rd) Hack); reflexivity.
Qed.

Lemma sm_ack_fin_c : forall cond st fstat ck sz ls le fs lg,
  Dest.state_machine (Some (PAck hA' D_FINISHED cond st)) (DCW fstat 0 [] ck sz ls le fs lg) =
    (dfinal cd srcid seq fs lg, Ok tt).
Proof.
  intros cond st fstat ck sz ls le fs lg. unfold Dest.state_machine, hA'.
  assert (C : check_inserted_packet (PAck (hA cd crc large srcid idw seq seqw) D_FINISHED cond st)
                (DCW fstat 0 [] ck sz ls le fs lg) = (DCW fstat 0 [] ck sz ls le fs lg, Ok tt)).
  { apply (check_a cd rd crc large srcid idw seq seqw Hrem);
      [reflexivity|reflexivity|right; split; [reflexivity|split; reflexivity]]. }
  rewrite (b_ok _ _ _ _ _ C).
  unfold catch_abandoned; apply catch_ok.
  unfold DCW at 1, dstC, dpC, hB', hB, finC, flC. mrun. change 3%nat with (S 2). cbn [non_idle_fsm].
  unfold fsm_advancement at 1. mrun.
  unfold handle_waiting_for_finished_ack, reset_internal. mrun. reflexivity.
Qed.
End ReceiverC.

(* ================================================================== *)
(* 2u. the receiver, unacknowledged mode without closure: the EOF (cancel) finishes the transaction in the same call *)
(* ================================================================== *)
Section ReceiverU.
Variables (cd : lcfg) (rd : rcfg) (x : Z) (crc large : bool) (srcid idw seq seqw ckt fsz : Z).
Hypothesis Hrem : get_remote (l_remotes cd) srcid = Some rd.
Hypothesis Hfin : l_ind_fin cd = true.

Lemma sm_eof_cu : forall ck fl off fs lg,
  Dest.state_machine (Some (PEof (hS cd crc large srcid idw seq seqw) C_CANCEL_REQUEST ck off fl))
                     (dstate cd rd x crc large srcid idw seq seqw ckt fsz off fs lg) =
    (let fstat := if r_disposition rd then FS_DISCARDED_DELIBERATELY else FS_RETAINED in
     dfinal cd srcid seq (if r_disposition rd then fst (fs_delete_file fs [x]) else fs)
       (EvFinished srcid seq C_CANCEL_REQUEST DATA_INCOMPLETE fstat (Some (r_id rd, r_idw rd)) ::
        (if l_ind_eof_recv cd then [EvEofRecv srcid seq] else []) ++ lg), Ok tt).
Proof.
  intros ck fl off fs lg. unfold Dest.state_machine.
  rewrite (b_ok _ _ _ _ _ (check_eof cd rd crc large srcid idw seq seqw Hrem C_CANCEL_REQUEST ck off fl
                             (dstate cd rd x crc large srcid idw seq seqw ckt fsz off fs lg) eq_refl eq_refl)).
  unfold catch_abandoned; apply catch_ok.
  unfold dstate at 1, hS. mrun.
  change 3%nat with (S 2). cbn [non_idle_fsm].
  unfold fsm_advancement at 1. mrun.
  unfold handle_eof_pdu. mrun.
  destruct (l_ind_eof_recv cd); unfold tid_or_assert; mrun;
  unfold file_transfer_complete_transition; mrun;
  unfold handle_transfer_completion, notice_of_completion, rcfg_or_assert; mrun;
  destruct (r_disposition rd); mrun; rewrite Hfin; mrun; dpr; mrun;
  unfold reset_internal; mrun; reflexivity.
Qed.
End ReceiverU.

(* ================================================================== *)
(* 3. the system                                                       *)
(* ================================================================== *)
Local Opaque state_machine_s Dest.state_machine.

Lemma round_generic_c : forall s s2 pd dd dd2 c1 c2 rnd scur dcur sdone ddone,
  pump s = (s2, Ok [pd]) -> on_wire pd = Some pd ->
  (d_state dd =? ST_IDLE) && tid_mem (h_src (pdu_hdr pd), h_seq (pdu_hdr pd)) ddone = false ->
  (d_state dd =? ST_BUSY) &&
    match p_tid (d_p dd) with
    | Some t => negb (tid_eqb (h_src (pdu_hdr pd), h_seq (pdu_hdr pd)) t) | None => false end = false ->
  Dest.state_machine (Some pd) dd = (dd2, Ok tt) -> drain_d dd2 = (dd2, []) ->
  exists scur' dcur' sdone' ddone' a,
    step_round (Y s dd c1 c2 rnd scur dcur sdone ddone) = (Y s2 dd2 (c1 + 1) c2 (rnd + 1) scur' dcur' sdone' ddone', a) /\
    0 < a.
Proof.
  intros s s2 pd dd dd2 c1 c2 rnd scur dcur sdone ddone Hp How G1 G2 Hd Hdr.
  destruct (call_src_pump s s2 [pd] dd [] [] c1 c2 (rnd + 1) scur dcur sdone ddone Hp) as (scur' & sdone' & E).
  destruct (call_dst_ok (Some pd) dd dd2 s2 [] [] (c1 + 1) c2 (rnd + 1) scur' dcur sdone' ddone Hd Hdr)
    as (dcur' & ddone' & E2).
  exists scur', dcur', sdone', ddone'. eexists.
  rewrite step_round_Y. unfold Y. cbv zeta. rewrite E.
  cbn [flat_map app]. unfold ow. rewrite How. cbn [app]. rewrite emit_one.
  ypr. cbn [app]. rewrite deliver_all_one. rewrite deliver_to_dest_pass by assumption. rewrite E2.
  ypr. split; [reflexivity|].
  change (zlen [pd]) with 1.
  destruct ((s_state s =? s_state s2) && (s_step s =? s_step s2)); lia.
Qed.

(* a round that starts with one PDU on its way to the receiver and nothing towards the sender *)
Lemma step_round_Y1 : forall s dd pk c1 c2 rnd scur dcur sdone ddone,
  step_round (mkSys s dd [pk] [] c1 c2 [] rnd scur dcur sdone ddone [] []) =
  (let y1 := mkSys s dd [pk] [] c1 c2 [] (rnd + 1) scur dcur sdone ddone [] [] in
   let '(y2, a2) :=
            let before := (s_state (y_src y1), s_step (y_src y1)) in
            let '(yy, n) := call_src None y1 in
            (yy, 0 + n + (if (fst before =? s_state (y_src yy)) && (snd before =? s_step (y_src yy)) then 0 else 1)) in
  let inbound2 := y_s2d y2 in
  let '(y3, a3) := deliver_all deliver_to_dest inbound2 (y2 <| y_s2d := [] |>) a2 in
  match inbound2 with
  | [] => let before := (d_state (y_dst y3), d_step (y_dst y3)) in
          let '(yy, n) := call_dst None y3 in
          (yy, a3 + n + (if (fst before =? d_state (y_dst yy)) && (snd before =? d_step (y_dst yy)) then 0 else 1))
  | _ => (y3, a3)
  end).
Proof. reflexivity. Qed.

(* the checksum of every prefix exists *)
Lemma ck_pref : forall ty (d : bytes) n seg,
  (ty = CK_CRC32 \/ ty = CK_CRC32C \/ ty = CK_NULL \/ ty = CK_MODULAR) -> 1 <= seg -> 0 <= n <= zlen d ->
  exists ck, calculate_checksum ty (Some d) n seg = Ok ck.
Proof.
  intros ty d n seg Hty Hseg Hr.
  destruct Hty as [H|[H|[H|H]]]; subst ty; eexists.
  - rewrite calc_crc_chunk_independent by (auto; lia). reflexivity.
  - rewrite calc_crc_chunk_independent by (auto; lia). reflexivity.
  - rewrite null_spec. reflexivity.
  - rewrite modular_spec by exact Hr. reflexivity.
Qed.

Section SysC.
Variables (cs cd : lcfg) (p : putreq) (rs rd : rcfg) (sn : path) (x : Z) (data : bytes) (cf : sconf)
          (seg tick : Z) (clo : bool).
Variable fss : tree.
Hypothesis Hnames : pr_names p = Some (sn, [x]).
Hypothesis Hlook : lookup fss sn = Some (File data).
Hypothesis Hseg : 1 <= seg.
Hypothesis Hm : sc_mode cf = ACKED.
Hypothesis Hfins : l_ind_fin cs = true.
Hypothesis Hfind : l_ind_fin cd = true.
Hypothesis Hrem : get_remote (l_remotes cd) (sc_src cf) = Some rd.
Hypothesis Hdst : sc_dst cf = l_id cd.
Hypothesis Hacks : 0 < r_ack_ms rs.
Hypothesis Hackd : 0 < r_ack_ms rd.
Hypothesis Hsrc : sc_src cf = l_id cs.
Hypothesis Hdstr : sc_dst cf = r_id rs.

Definition tidC : Z * Z := (sc_src cf, sc_seq cf).
Definition hCA : hdr := hA cd (sc_crc cf) (sc_large cf) (sc_src cf) (sc_srcw cf) (sc_seq cf) (sc_seqw cf).
Definition hCB : hdr := hB cd (sc_crc cf) (sc_large cf) (sc_src cf) (sc_srcw cf) (sc_seq cf) (sc_seqw cf).
Definition DSA' : Z -> Z -> Z -> tree -> list event -> dst :=
  DA cd rd x (sc_crc cf) (sc_large cf) clo (sc_src cf) (sc_srcw cf) (sc_seq cf) (sc_seqw cf) (r_cktype rs) (zlen data).
Definition DSCE : Z -> list pdu -> bytes -> Z -> Z -> Z -> tree -> list event -> dst :=
  DCE cd rd x (sc_crc cf) (sc_large cf) clo (sc_src cf) (sc_srcw cf) (sc_seq cf) (sc_seqw cf) (r_cktype rs) (zlen data).
Definition DSCW : Z -> Z -> list pdu -> bytes -> Z -> Z -> Z -> tree -> list event -> dst :=
  DCW cd rd x (sc_crc cf) (sc_large cf) clo (sc_src cf) (sc_srcw cf) (sc_seq cf) (sc_seqw cf) (r_cktype rs) (zlen data).
Definition DFC (fs : tree) (lg : list event) : dst := dfinal cd (sc_src cf) (sc_seq cf) fs lg.
Definition ackCC : pdu := PAck hCB D_EOF C_CANCEL_REQUEST TS_ACTIVE.
Definition fstatC : Z := if r_disposition rd then FS_DISCARDED_DELIBERATELY else FS_RETAINED.
Definition flCC : option (Z * Z) := Some (r_id rd, r_idw rd).
Definition finCC : pdu := PFinished hCB C_CANCEL_REQUEST DATA_INCOMPLETE fstatC flCC.
Definition evFinC : event := EvFinished (sc_src cf) (sc_seq cf) C_CANCEL_REQUEST DATA_INCOMPLETE fstatC flCC.

Lemma hdr_eq_ca : hdr_of cf TOWARDS_RECEIVER = hCA.
Proof. unfold hdr_of, hCA, hA. rewrite Hm, Hdst. reflexivity. Qed.
Lemma hdr_eq_cb : hdr_of cf TOWARDS_SENDER = hCB.
Proof. unfold hdr_of, hCB, hB. rewrite Hm, Hdst. reflexivity. Qed.

Lemma guard_busy_c : forall pkt dd ddone, pdu_hdr pkt = hCA -> d_state dd = ST_BUSY ->
  p_tid (d_p dd) = Some (sc_src cf, sc_seq cf) ->
  (d_state dd =? ST_IDLE) && tid_mem (h_src (pdu_hdr pkt), h_seq (pdu_hdr pkt)) ddone = false /\
  (d_state dd =? ST_BUSY) &&
    match p_tid (d_p dd) with
    | Some t => negb (tid_eqb (h_src (pdu_hdr pkt), h_seq (pdu_hdr pkt)) t) | None => false end = false.
Proof.
  intros pkt dd ddone H Hs Ht. rewrite H, Hs, Ht. split; [reflexivity|].
  unfold hCA, hA, tid_eqb. cbn [h_src h_seq fst snd].
  rewrite !Z.eqb_refl. reflexivity.
Qed.

(* between two rounds while file data is sent: [off] bytes sent and received, [n] PDUs emitted by the sender so far *)
Definition SInvC (off n : Z) (y : sys) : Prop :=
  exists s ls fs lg c2 rnd scur dcur sdone ddone,
    y = Y s (DSA' off ls off fs lg) n c2 rnd scur dcur sdone ddone /\
    InvC cs p rs fss data cf seg clo tidC off s /\
    lookup fs [x] = Some (File (ztake off data)) /\ clean lg.

Lemma SInvC_eq : forall off off' n n' y, off = off' -> n = n' -> SInvC off n y -> SInvC off' n' y.
Proof. intros; subst; assumption. Qed.

Lemma round_fd_c : forall off n y, SInvC off n y -> off < zlen data ->
  exists y' a, step_round y = (y', a) /\ SInvC (off + Z.min seg (zlen data - off)) (n + 1) y'.
Proof.
  intros off n y (s & ls & fs & lg & c2 & rnd & scur & dcur & sdone & ddone & -> & HI & Hl & Hc) Hlt.
  pose proof (InvC_range _ _ _ _ _ _ _ _ _ _ _ HI) as Hr.
  destruct (step_fd_c cs p rs fss data cf seg clo tidC sn [x] Hnames Hlook Hseg Hm off s HI Hlt) as (s' & P & HI').
  unfold fd_of in P. cbn [fst snd] in P. rewrite hdr_eq_ca in P.
  set (tile := ztake seg (zdrop off data)) in *.
  assert (Htl : zlen tile = Z.min seg (zlen data - off)) by (apply tile_len; lia).
  assert (How : on_wire (PFileData hCA off tile) = Some (PFileData hCA off tile)).
  { destruct tile; [change (zlen (@nil Z)) with 0 in Htl; lia | reflexivity]. }
  destruct (guard_busy_c (PFileData hCA off tile) (DSA' off ls off fs lg) ddone eq_refl eq_refl eq_refl) as [G1 G2].
  pose proof (sm_fd_a cd rd x (sc_crc cf) (sc_large cf) clo (sc_src cf) (sc_srcw cf) (sc_seq cf) (sc_seqw cf)
                (r_cktype rs) (zlen data) Hrem off ls tile fs lg _ Hl ltac:(lia)) as Hsm.
  fold hCA in Hsm. rewrite Z.max_l in Hsm by lia. rewrite Htl in Hsm.
  destruct (round_generic_c s s' _ _ _ n c2 rnd scur dcur sdone ddone P How G1 G2 Hsm eq_refl)
    as (scur' & dcur' & sdone' & ddone' & a & R & Ha).
  eexists. exists a. split; [exact R|].
  do 10 eexists. split; [reflexivity|]. split; [exact HI'|]. split.
  - rewrite lookup_set_node by discriminate. rewrite path_eqb_refl. f_equal. f_equal.
    apply write_append; lia.
  - destruct (l_ind_seg cd); [apply clean_cons; [reflexivity|reflexivity|exact Hc] | exact Hc].
Qed.

Lemma round_md_c : forall s1 s3 c1 c2 rnd,
  pump s1 = (s3, Ok [PMetadata (hdr_of cf TOWARDS_RECEIVER) clo (r_cktype rs) (zlen data) (Some (sn, [x])) []]) ->
  InvC cs p rs fss data cf seg clo tidC 0 s3 ->
  exists y' a, step_round (Y s1 (dst_init cd) c1 c2 rnd None None [] []) = (y', a) /\ SInvC 0 (c1 + 1) y'.
Proof.
  intros s1 s3 c1 c2 rnd P HI. rewrite hdr_eq_ca in P.
  pose proof (sm_md_a cd rd x (sc_crc cf) (sc_large cf) clo (sc_src cf) (sc_srcw cf) (sc_seq cf) (sc_seqw cf)
                (r_cktype rs) (zlen data) Hrem sn []) as Hsm.
  fold hCA in Hsm.
  destruct (round_generic_c s1 s3 _ (dst_init cd) _ c1 c2 rnd None None [] [] P eq_refl eq_refl eq_refl Hsm eq_refl)
    as (scur' & dcur' & sdone' & ddone' & a & R & Ha).
  eexists. exists a. split; [exact R|].
  do 10 eexists. split; [reflexivity|]. split; [exact HI|]. split.
  - cbn [lookup lookup_raw path_eqb]. rewrite Z.eqb_refl. reflexivity.
  - apply clean_cons; [reflexivity|reflexivity|apply clean_nil].
Qed.

(* k = j + 1 rounds: the Metadata PDU and j File Data PDUs *)
Lemma rounds_inv : forall s1 s3,
  pump s1 = (s3, Ok [PMetadata (hdr_of cf TOWARDS_RECEIVER) clo (r_cktype rs) (zlen data) (Some (sn, [x])) []]) ->
  InvC cs p rs fss data cf seg clo tidC 0 s3 ->
  forall j : nat, (Z.of_nat j - 1) * seg < zlen data ->
  SInvC (Z.min (Z.of_nat j * seg) (zlen data)) (Z.of_nat j + 1) (rounds (S j) (Y s1 (dst_init cd) 0 0 0 None None [] [])).
Proof.
  intros s1 s3 P HI.
  assert (Hlen : 0 <= zlen data) by (unfold zlen; lia).
  induction j as [|j IH]; intro Hj.
  - destruct (round_md_c s1 s3 0 0 0 P HI) as (y' & a & R & HS).
    cbn [rounds]. rewrite R. cbn [fst].
    apply (SInvC_eq 0 _ (0 + 1) _ y'); [cbn [Z.of_nat]; lia | reflexivity | exact HS].
  - rewrite Nat2Z.inj_succ in *.
    assert (Hj' : (Z.of_nat j - 1) * seg < zlen data) by nia.
    specialize (IH Hj').
    assert (Hlt : Z.of_nat j * seg < zlen data) by nia.
    rewrite Z.min_l in IH by lia.
    destruct (round_fd_c _ _ _ IH Hlt) as (y' & a & R & HS).
    change (rounds (S (S j)) (Y s1 (dst_init cd) 0 0 0 None None [] []))
      with (fst (step_round (rounds (S j) (Y s1 (dst_init cd) 0 0 0 None None [] [])))).
    rewrite R. cbn [fst].
    refine (SInvC_eq _ _ _ _ y' _ _ HS); lia.
Qed.

(* ---- the cancel request and the four rounds of the cancel exchange *)
Definition eofC (ck : bytes) (off : Z) : pdu := PEof hCA C_CANCEL_REQUEST ck off None.
Definition L0 (lgs : list event) : list event :=
  (if l_ind_eof_sent cs then [EvEofSent (sc_src cf) (sc_seq cf)] else []) ++ lgs.
Definition fcC (off : Z) (fs : tree) : Prop :=
  file_content fs [x] = if r_disposition rd then None else Some (ztake off data).

(* after the cancel request: the EOF (cancel) on its way *)
Definition C0 (ck : bytes) (off n : Z) (L : list event) (y : sys) : Prop :=
  exists s ls fs lg c2 rnd scur dcur sdone ddone,
    y = mkSys s (DSA' off ls off fs lg) [eofC ck off] [] n c2 [] rnd scur dcur sdone ddone [] [] /\
    TailL cs p rs cf tidC SS_WAITING_FOR_EOF_ACK None L s /\
    lookup fs [x] = Some (File (ztake off data)) /\ clean lg.
(* after the next round: its ACK in flight *)
Definition C1 (ck : bytes) (off n : Z) (L : list event) (y : sys) : Prop :=
  exists s ls fs lg c2 rnd scur dcur sdone ddone,
    y = Y2 s (DSCE 0 [] ck off ls off fs lg) [ackCC] n c2 rnd scur dcur sdone ddone /\
    TailL cs p rs cf tidC SS_WAITING_FOR_EOF_ACK None L s /\
    lookup fs [x] = Some (File (ztake off data)) /\ clean lg.
(* after the next round: the receiver has finished the transaction, Finished (cancel) in flight *)
Definition C2 (ck : bytes) (off n : Z) (L : list event) (y : sys) : Prop :=
  exists s ls fs lg c2 rnd scur dcur sdone ddone,
    y = Y2 s (DSCW fstatC 0 [] ck off ls off fs (evFinC :: lg)) [finCC] n c2 rnd scur dcur sdone ddone /\
    TailL cs p rs cf tidC SS_WAITING_FOR_FINISHED None L s /\
    fcC off fs /\ clean lg.
(* after the next round: the receiver is idle, the sender has sent ACK(Finished) *)
Definition C3 (off n : Z) (L : list event) (y : sys) : Prop :=
  exists s fs lg c2 rnd scur dcur sdone ddone,
    y = Y s (DFC fs (evFinC :: lg)) n c2 rnd scur dcur sdone ddone /\
    TailL cs p rs cf tidC SS_SENDING_ACK_OF_FINISHED (Some (C_CANCEL_REQUEST, DATA_INCOMPLETE, fstatC, flCC)) L s /\
    fcC off fs /\ clean lg.
Definition FinalC (off n : Z) (L : list event) (y : sys) : Prop :=
  exists s fs lg c2 rnd scur dcur sdone ddone,
    y = Y s (DFC fs (evFinC :: lg)) n c2 rnd scur dcur sdone ddone /\
    s_state s = ST_IDLE /\
    e_log (s_env s) = EvFinished (sc_src cf) (sc_seq cf) C_CANCEL_REQUEST DATA_INCOMPLETE fstatC flCC :: L /\
    fcC off fs /\ clean lg.

Lemma cancel_c : forall off n y ck, SInvC off n y ->
  calculate_checksum (r_cktype rs) (Some data) off seg = Ok ck ->
  exists y' lgs, cancel_src (sc_src cf) (sc_seq cf) y = (y', Ok true) /\ C0 ck off (n + 1) (L0 lgs) y' /\ clean lgs.
Proof.
  intros off n y ck (s & ls & fs & lg & c2 & rnd & scur & dcur & sdone & ddone & -> & HI & Hl & Hc) Hck.
  destruct (step_cancel cs p rs fss data cf seg clo tidC sn [x] Hnames Hlook Hm off s ck HI Hck)
    as (s1 & s2 & Q1 & Q2 & HT).
  cbn [tidC fst snd] in Q1, HT. rewrite hdr_eq_ca in Q2.
  destruct (nds_shape s1 (DSA' off ls off fs lg) [] [] n c2 [] rnd scur dcur sdone ddone [] []) as (sc & sd & E).
  eexists. exists (e_log (s_env s)).
  unfold cancel_src, Y. ypr. rewrite Q1. ypr. rewrite E. ypr. rewrite Q2.
  cbn [flat_map app on_wire]. rewrite emit_one. ypr. cbn [app].
  split; [reflexivity|]. split.
  - do 10 eexists. split; [reflexivity|]. split; [exact HT|]. split; [exact Hl|exact Hc].
  - destruct HI as [[_ [Hcl _]] _]. exact Hcl.
Qed.

Ltac act_pos :=
  change (zlen (@nil pdu)) with 0;
  repeat match goal with |- context [zlen [?q]] => change (zlen [q]) with 1 end;
  repeat match goal with |- context [if ?b then 0 else 1] => destruct b end; lia.

(* the EOF (cancel) reaches the receiver (the sender waits: its timer has just been started) *)
Lemma round_eofc : forall ck off n L y, C0 ck off n L y ->
  exists y' a, step_round y = (y', a) /\ 0 < a /\ quiescent y' = false /\ C1 ck off n L y'.
Proof.
  intros ck off n L y (s & ls & fs & lg & c2 & rnd & scur & dcur & sdone & ddone & -> & HT & Hl & Hc).
  destruct (step_wait cs p rs cf tidC Hacks s L HT) as (s' & P & HT').
  destruct (guard_busy_c (eofC ck off) (DSA' off ls off fs lg) ddone eq_refl eq_refl eq_refl) as [G1 G2].
  pose proof (sm_eof_c cd rd x (sc_crc cf) (sc_large cf) clo (sc_src cf) (sc_srcw cf) (sc_seq cf) (sc_seqw cf)
                (r_cktype rs) (zlen data) Hrem ck None off ls fs lg) as Hsm.
  set (lg' := (if l_ind_eof_recv cd then [EvEofRecv (sc_src cf) (sc_seq cf)] else []) ++ lg) in *.
  change (Dest.state_machine (Some (eofC ck off)) (DSA' off ls off fs lg) =
          (DSCE 1 [ackCC] ck off ls off fs lg', Ok tt)) in Hsm.
  assert (Hdr : drain_d (DSCE 1 [ackCC] ck off ls off fs lg') = (DSCE 0 [] ck off ls off fs lg', [ackCC])) by reflexivity.
  assert (How2 : on_wire ackCC = Some ackCC) by reflexivity.
  destruct (call_src_pump s s' _ (DSA' off ls off fs lg) [eofC ck off] [] n c2 (rnd + 1) scur dcur sdone ddone P)
    as (scur' & sdone' & E).
  destruct (call_dst_emit _ _ _ s' [] [] n c2 (rnd + 1) scur' dcur sdone' ddone Hsm) as (dcur' & ddone' & E2).
  eexists. eexists.
  rewrite step_round_Y1. cbv zeta. rewrite E.
  cbn [flat_map emit_pdus]. ypr. rewrite deliver_all_one. rewrite deliver_to_dest_pass by assumption. rewrite E2.
  rewrite Hdr. cbn [fst snd flat_map app]. unfold ow. rewrite How2. cbn [app]. rewrite emit_one_d. ypr. cbn [app].
  split; [reflexivity|]. split; [|split].
  - act_pos.
  - unfold quiescent. cbn [y_src]. rewrite (TailL_busy _ _ _ _ _ _ _ _ _ HT'). reflexivity.
  - do 10 eexists. split; [reflexivity|]. split; [exact HT'|]. split; [exact Hl|].
    apply clean_app; [|exact Hc].
    destruct (l_ind_eof_recv cd); [apply clean_cons; [reflexivity|reflexivity|apply clean_nil] | apply clean_nil].
Qed.

Lemma fc_after : forall off fs, lookup fs [x] = Some (File (ztake off data)) ->
  fcC off (if r_disposition rd then fst (fs_delete_file fs [x]) else fs).
Proof.
  intros off fs Hl. unfold fcC, file_content. destruct (r_disposition rd).
  - unfold fs_delete_file. rewrite Hl. cbn [fst].
    rewrite lookup_remove_path by discriminate. rewrite path_eqb_refl. reflexivity.
  - rewrite Hl. reflexivity.
Qed.

(* ACK(EOF) reaches the sender; the receiver completes the cancelled transaction and emits the Finished PDU *)
Lemma round_ackc : forall ck off n L y, C1 ck off n L y ->
  exists y' a, step_round y = (y', a) /\ 0 < a /\ quiescent y' = false /\ C2 ck off n L y'.
Proof.
  intros ck off n L y (s & ls & fs & lg & c2 & rnd & scur & dcur & sdone & ddone & -> & HT & Hl & Hc).
  destruct (step_ack_eof_c cs p rs cf tidC Hm Hsrc Hdstr s L C_CANCEL_REQUEST TS_ACTIVE HT) as (s' & P & HT').
  rewrite hdr_eq_cb in P. fold ackCC in P.
  pose proof (sm_complete_c cd rd x (sc_crc cf) (sc_large cf) clo (sc_src cf) (sc_srcw cf) (sc_seq cf) (sc_seqw cf)
                (r_cktype rs) (zlen data) Hfind Hackd ck off ls off fs lg) as Hsm.
  set (fs' := if r_disposition rd then fst (fs_delete_file fs [x]) else fs) in *.
  change (Dest.state_machine None (DSCE 0 [] ck off ls off fs lg) =
          (DSCW fstatC 1 [finCC] ck off ls off fs' (evFinC :: lg), Ok tt)) in Hsm.
  assert (Hdr : drain_d (DSCW fstatC 1 [finCC] ck off ls off fs' (evFinC :: lg)) =
                (DSCW fstatC 0 [] ck off ls off fs' (evFinC :: lg), [finCC])) by reflexivity.
  assert (How2 : on_wire finCC = Some finCC) by reflexivity.
  destruct (call_src_pw _ s s' _ (DSCE 0 [] ck off ls off fs lg) [] [] n c2 (rnd + 1) scur dcur sdone ddone P)
    as (scur' & sdone' & E).
  destruct (call_dst_emit _ _ _ s' [] [] n c2 (rnd + 1) scur' dcur sdone' ddone Hsm) as (dcur' & ddone' & E2).
  eexists. eexists.
  rewrite step_round_Y2. unfold Y. cbv zeta. rewrite deliver_all_one.
  rewrite deliver_to_source_busy by exact (TailL_busy _ _ _ _ _ _ _ _ _ HT). rewrite E.
  cbn [flat_map emit_pdus]. ypr. cbn [deliver_all]. rewrite E2.
  rewrite Hdr. cbn [fst snd flat_map app]. unfold ow. rewrite How2. cbn [app]. rewrite emit_one_d. ypr. cbn [app].
  split; [reflexivity|]. split; [|split].
  - act_pos.
  - unfold quiescent. cbn [y_src]. rewrite (TailL_busy _ _ _ _ _ _ _ _ _ HT'). reflexivity.
  - do 10 eexists. split; [reflexivity|]. split; [exact HT'|]. split; [exact (fc_after off fs Hl)|exact Hc].
Qed.

(* the Finished PDU reaches the sender, its ACK reaches the receiver *)
Lemma round_finc : forall ck off n L y, C2 ck off n L y ->
  exists y' a, step_round y = (y', a) /\ 0 < a /\ quiescent y' = false /\ C3 off (n + 1) L y'.
Proof.
  intros ck off n L y (s & ls & fs & lg & c2 & rnd & scur & dcur & sdone & ddone & -> & HT & Hl & Hc).
  destruct (step_finished_c cs p rs cf tidC Hm Hsrc Hdstr s L C_CANCEL_REQUEST DATA_INCOMPLETE fstatC flCC HT)
    as (s' & P & HT').
  rewrite hdr_eq_cb, hdr_eq_ca in P. fold finCC in P.
  set (ackF := PAck hCA D_FINISHED C_CANCEL_REQUEST TS_ACTIVE) in *.
  pose proof (sm_ack_fin_c cd rd x (sc_crc cf) (sc_large cf) clo (sc_src cf) (sc_srcw cf) (sc_seq cf) (sc_seqw cf)
                (r_cktype rs) (zlen data) Hrem C_CANCEL_REQUEST TS_ACTIVE fstatC ck off ls off fs (evFinC :: lg)) as Hsm.
  change (Dest.state_machine (Some ackF) (DSCW fstatC 0 [] ck off ls off fs (evFinC :: lg)) =
          (DFC fs (evFinC :: lg), Ok tt)) in Hsm.
  assert (How : on_wire ackF = Some ackF) by reflexivity.
  destruct (guard_busy_c ackF (DSCW fstatC 0 [] ck off ls off fs (evFinC :: lg)) ddone eq_refl eq_refl eq_refl) as [G1 G2].
  destruct (call_src_pw _ s s' _ (DSCW fstatC 0 [] ck off ls off fs (evFinC :: lg)) [] [] n c2 (rnd + 1) scur dcur sdone ddone P)
    as (scur' & sdone' & E).
  destruct (call_dst_ok _ _ _ s' [] [] (n + 1) c2 (rnd + 1) scur' dcur sdone' ddone Hsm eq_refl) as (dcur' & ddone' & E2).
  eexists. eexists.
  rewrite step_round_Y2. unfold Y. cbv zeta. rewrite deliver_all_one.
  rewrite deliver_to_source_busy by exact (TailL_busy _ _ _ _ _ _ _ _ _ HT). rewrite E.
  cbn [flat_map app]. unfold ow. rewrite How. cbn [app]. rewrite emit_one.
  ypr. cbn [app]. rewrite deliver_all_one. rewrite deliver_to_dest_pass by assumption. rewrite E2. ypr.
  split; [reflexivity|]. split; [|split].
  - act_pos.
  - unfold quiescent. cbn [y_src]. rewrite (TailL_busy _ _ _ _ _ _ _ _ _ HT'). reflexivity.
  - do 9 eexists. split; [reflexivity|]. split; [exact HT'|]. split; [exact Hl|exact Hc].
Qed.

(* the last round: the sender issues its Transaction-Finished indication; both handlers idle *)
Lemma round_donec : forall off n L y, C3 off n L y ->
  exists y' a, step_round y = (y', a) /\ quiescent y' = true /\ FinalC off n L y'.
Proof.
  intros off n L y (s & fs & lg & c2 & rnd & scur & dcur & sdone & ddone & -> & HT & Hl & Hc).
  destruct (step_done_c cs p rs cf tidC Hfins s L C_CANCEL_REQUEST DATA_INCOMPLETE fstatC flCC HT)
    as (s' & P & Hst & Hlog).
  pose proof (sm_idle_none cd (sc_src cf) (sc_seq cf) fs (evFinC :: lg)) as Hsm. fold (DFC fs (evFinC :: lg)) in Hsm.
  destruct (call_src_pump s s' _ (DFC fs (evFinC :: lg)) [] [] n c2 (rnd + 1) scur dcur sdone ddone P)
    as (scur' & sdone' & E).
  destruct (call_dst_ok _ _ _ s' [] [] n c2 (rnd + 1) scur' dcur sdone' ddone Hsm eq_refl) as (dcur' & ddone' & E2).
  eexists. eexists.
  rewrite step_round_Y. unfold Y. cbv zeta. rewrite E.
  cbn [flat_map emit_pdus]. ypr. cbn [deliver_all]. rewrite E2. ypr.
  split; [reflexivity|]. split.
  - unfold quiescent. cbn [y_src y_dst y_s2d y_d2s y_delayed]. rewrite Hst. reflexivity.
  - do 9 eexists. split; [reflexivity|]. split; [exact Hst|]. split; [exact Hlog|]. split; [exact Hl|exact Hc].
Qed.

Ltac run_step R Q Ha :=
  rewrite run_S, R; cbv iota beta; rewrite Q;
  match type of Ha with 0 < ?a => replace (a =? 0) with false by (symmetry; apply Z.eqb_neq; lia) end.

Lemma run_cancel : forall k ck off n L y, C0 ck off n L y ->
  exists y', run (4 + k) tick y = (y', true) /\ FinalC off (n + 1) L y'.
Proof.
  intros k ck off n L y H0.
  destruct (round_eofc _ _ _ _ y H0) as (y1 & a1 & R1 & Ha1 & Q1 & H1).
  destruct (round_ackc _ _ _ _ y1 H1) as (y2 & a2 & R2 & Ha2 & Q2 & H2).
  destruct (round_finc _ _ _ _ y2 H2) as (y3 & a3 & R3 & Ha3 & Q3 & H3).
  destruct (round_donec _ _ _ y3 H3) as (y4 & a4 & R4 & Q4 & H4).
  exists y4. split; [|exact H4].
  change (4 + k)%nat with (S (S (S (S k)))).
  run_step R1 Q1 Ha1. run_step R2 Q2 Ha2. run_step R3 Q3 Ha3.
  rewrite run_S, R4. cbv iota beta. rewrite Q4. reflexivity.
Qed.
End SysC.

(* ================================================================== *)
(* 3u. the system, unacknowledged mode without closure                 *)
(* ================================================================== *)
Section SysU.
Variables (cs cd : lcfg) (p : putreq) (rs rd : rcfg) (sn : path) (x : Z) (data : bytes) (cf : sconf) (seg tick : Z).
Variable fss : tree.
Hypothesis Hnames : pr_names p = Some (sn, [x]).
Hypothesis Hlook : lookup fss sn = Some (File data).
Hypothesis Hseg : 1 <= seg.
Hypothesis Hm : sc_mode cf = UNACKED.
Hypothesis Hfins : l_ind_fin cs = true.
Hypothesis Hfind : l_ind_fin cd = true.
Hypothesis Hrem : get_remote (l_remotes cd) (sc_src cf) = Some rd.
Hypothesis Hdst : sc_dst cf = l_id cd.

Definition tidU : Z * Z := (sc_src cf, sc_seq cf).
Definition hUR : hdr := hS cd (sc_crc cf) (sc_large cf) (sc_src cf) (sc_srcw cf) (sc_seq cf) (sc_seqw cf).
Definition DSU (off : Z) (fs : tree) (lg : list event) : dst :=
  dstate cd rd x (sc_crc cf) (sc_large cf) (sc_src cf) (sc_srcw cf) (sc_seq cf) (sc_seqw cf) (r_cktype rs) (zlen data)
         off fs lg.
Definition DFU (fs : tree) (lg : list event) : dst := dfinal cd (sc_src cf) (sc_seq cf) fs lg.

Lemma hdr_eq_u : hdr_of cf TOWARDS_RECEIVER = hUR.
Proof. unfold hdr_of, hUR, hS. rewrite Hm, Hdst. reflexivity. Qed.

Definition SInvU (off n : Z) (y : sys) : Prop :=
  exists s fs lg c2 rnd scur dcur sdone ddone,
    y = Y s (DSU off fs lg) n c2 rnd scur dcur sdone ddone /\
    InvU cs p rs fss data cf seg tidU off s /\
    lookup fs [x] = Some (File (ztake off data)) /\ clean lg.

Lemma SInvU_eq : forall off off' n n' y, off = off' -> n = n' -> SInvU off n y -> SInvU off' n' y.
Proof. intros; subst; assumption. Qed.

Lemma guard_busy_u : forall pkt off fs lg ddone, pdu_hdr pkt = hUR ->
  (d_state (DSU off fs lg) =? ST_IDLE) && tid_mem (h_src (pdu_hdr pkt), h_seq (pdu_hdr pkt)) ddone = false /\
  (d_state (DSU off fs lg) =? ST_BUSY) &&
    match p_tid (d_p (DSU off fs lg)) with
    | Some t => negb (tid_eqb (h_src (pdu_hdr pkt), h_seq (pdu_hdr pkt)) t) | None => false end = false.
Proof.
  intros pkt off fs lg ddone H. rewrite H. split; [reflexivity|].
  unfold DSU, dstate, hUR, hS, tid_eqb. cbn [d_state d_p p_tid h_src h_seq fst snd].
  rewrite !Z.eqb_refl. reflexivity.
Qed.

Lemma round_fd_cu : forall off n y, SInvU off n y -> off < zlen data ->
  exists y' a, step_round y = (y', a) /\ SInvU (off + Z.min seg (zlen data - off)) (n + 1) y'.
Proof.
  intros off n y (s & fs & lg & c2 & rnd & scur & dcur & sdone & ddone & -> & HI & Hl & Hc) Hlt.
  pose proof (InvU_range _ _ _ _ _ _ _ _ _ _ HI) as Hr.
  destruct (step_fd_cu cs p rs fss data cf seg tidU sn [x] Hnames Hlook Hseg Hm off s HI Hlt) as (s' & P & HI').
  unfold fd_of in P. cbn [fst snd] in P. rewrite hdr_eq_u in P.
  set (tile := ztake seg (zdrop off data)) in *.
  assert (Htl : zlen tile = Z.min seg (zlen data - off)) by (apply tile_len; lia).
  assert (How : on_wire (PFileData hUR off tile) = Some (PFileData hUR off tile)).
  { destruct tile; [change (zlen (@nil Z)) with 0 in Htl; lia | reflexivity]. }
  destruct (guard_busy_u (PFileData hUR off tile) off fs lg ddone eq_refl) as [G1 G2].
  pose proof (sm_fd cd rd x (sc_crc cf) (sc_large cf) (sc_src cf) (sc_srcw cf) (sc_seq cf) (sc_seqw cf)
                (r_cktype rs) (zlen data) Hrem off tile fs lg _ Hl) as Hsm.
  fold hUR in Hsm. rewrite Z.max_l in Hsm by lia. rewrite Htl in Hsm.
  destruct (round_generic_c s s' _ _ _ n c2 rnd scur dcur sdone ddone P How G1 G2 Hsm eq_refl)
    as (scur' & dcur' & sdone' & ddone' & a & R & Ha).
  eexists. exists a. split; [exact R|].
  do 9 eexists. split; [reflexivity|]. split; [exact HI'|]. split.
  - rewrite lookup_set_node by discriminate. rewrite path_eqb_refl. f_equal. f_equal.
    apply write_append; lia.
  - destruct (l_ind_seg cd); [apply clean_cons; [reflexivity|reflexivity|exact Hc] | exact Hc].
Qed.

Lemma round_md_cu : forall s1 s3 c1 c2 rnd,
  pump s1 = (s3, Ok [PMetadata (hdr_of cf TOWARDS_RECEIVER) false (r_cktype rs) (zlen data) (Some (sn, [x])) []]) ->
  InvU cs p rs fss data cf seg tidU 0 s3 ->
  exists y' a, step_round (Y s1 (dst_init cd) c1 c2 rnd None None [] []) = (y', a) /\ SInvU 0 (c1 + 1) y'.
Proof.
  intros s1 s3 c1 c2 rnd P HI. rewrite hdr_eq_u in P.
  pose proof (sm_md cd rd x (sc_crc cf) (sc_large cf) (sc_src cf) (sc_srcw cf) (sc_seq cf) (sc_seqw cf)
                (r_cktype rs) (zlen data) Hrem sn []) as Hsm.
  fold hUR in Hsm.
  destruct (round_generic_c s1 s3 _ (dst_init cd) _ c1 c2 rnd None None [] [] P eq_refl eq_refl eq_refl Hsm eq_refl)
    as (scur' & dcur' & sdone' & ddone' & a & R & Ha).
  eexists. exists a. split; [exact R|].
  do 9 eexists. split; [reflexivity|]. split; [exact HI|]. split.
  - cbn [lookup lookup_raw path_eqb]. rewrite Z.eqb_refl. reflexivity.
  - apply clean_cons; [reflexivity|reflexivity|apply clean_nil].
Qed.

Lemma rounds_inv_u : forall s1 s3,
  pump s1 = (s3, Ok [PMetadata (hdr_of cf TOWARDS_RECEIVER) false (r_cktype rs) (zlen data) (Some (sn, [x])) []]) ->
  InvU cs p rs fss data cf seg tidU 0 s3 ->
  forall j : nat, (Z.of_nat j - 1) * seg < zlen data ->
  SInvU (Z.min (Z.of_nat j * seg) (zlen data)) (Z.of_nat j + 1) (rounds (S j) (Y s1 (dst_init cd) 0 0 0 None None [] [])).
Proof.
  intros s1 s3 P HI.
  assert (Hlen : 0 <= zlen data) by (unfold zlen; lia).
  induction j as [|j IH]; intro Hj.
  - destruct (round_md_cu s1 s3 0 0 0 P HI) as (y' & a & R & HS).
    cbn [rounds]. rewrite R. cbn [fst].
    apply (SInvU_eq 0 _ (0 + 1) _ y'); [cbn [Z.of_nat]; lia | reflexivity | exact HS].
  - rewrite Nat2Z.inj_succ in *.
    assert (Hj' : (Z.of_nat j - 1) * seg < zlen data) by nia.
    specialize (IH Hj').
    assert (Hlt : Z.of_nat j * seg < zlen data) by nia.
    rewrite Z.min_l in IH by lia.
    destruct (round_fd_cu _ _ _ IH Hlt) as (y' & a & R & HS).
    change (rounds (S (S j)) (Y s1 (dst_init cd) 0 0 0 None None [] []))
      with (fst (step_round (rounds (S j) (Y s1 (dst_init cd) 0 0 0 None None [] [])))).
    rewrite R. cbn [fst].
    refine (SInvU_eq _ _ _ _ y' _ _ HS); lia.
Qed.

Definition fstatU : Z := if r_disposition rd then FS_DISCARDED_DELIBERATELY else FS_RETAINED.
Definition evFinU : event :=
  EvFinished (sc_src cf) (sc_seq cf) C_CANCEL_REQUEST DATA_INCOMPLETE fstatU (Some (r_id rd, r_idw rd)).
Definition LU (lgs : list event) : list event :=
  EvFinished (sc_src cf) (sc_seq cf) C_CANCEL_REQUEST DATA_INCOMPLETE FS_UNREPORTED None ::
  (if l_ind_eof_sent cs then [EvEofSent (sc_src cf) (sc_seq cf)] else []) ++ lgs.

(* after the cancel request: the sender is idle, the EOF (cancel) on its way *)
Definition U0 (ck : bytes) (off n : Z) (L : list event) (y : sys) : Prop :=
  exists s fs lg c2 rnd scur dcur sdone ddone,
    y = mkSys s (DSU off fs lg) [PEof hUR C_CANCEL_REQUEST ck off None] [] n c2 [] rnd scur dcur sdone ddone [] [] /\
    s_state s = ST_IDLE /\ s_queue s = [] /\ e_log (s_env s) = L /\
    lookup fs [x] = Some (File (ztake off data)) /\ clean lg.
Definition FinalU (off n : Z) (L : list event) (y : sys) : Prop :=
  exists s fs lg c2 rnd scur dcur sdone ddone,
    y = Y s (DFU fs (evFinU :: lg)) n c2 rnd scur dcur sdone ddone /\
    s_state s = ST_IDLE /\ e_log (s_env s) = L /\
    file_content fs [x] = (if r_disposition rd then None else Some (ztake off data)) /\ clean lg.

Lemma cancel_u : forall off n y ck, SInvU off n y ->
  calculate_checksum (r_cktype rs) (Some data) off seg = Ok ck ->
  exists y' lgs, cancel_src (sc_src cf) (sc_seq cf) y = (y', Ok true) /\ U0 ck off (n + 1) (LU lgs) y' /\ clean lgs.
Proof.
  intros off n y ck (s & fs & lg & c2 & rnd & scur & dcur & sdone & ddone & -> & HI & Hl & Hc) Hck.
  destruct (step_cancel_u cs p rs fss data cf seg tidU sn [x] Hnames Hlook Hm Hfins off s ck HI Hck)
    as (s1 & s2 & Q1 & Q2 & Hst & Hq & Hlog).
  cbn [tidU fst snd] in Q1, Hlog. rewrite hdr_eq_u in Q2.
  destruct (nds_shape s1 (DSU off fs lg) [] [] n c2 [] rnd scur dcur sdone ddone [] []) as (sc & sd & E).
  eexists. exists (e_log (s_env s)).
  unfold cancel_src, Y. ypr. rewrite Q1. ypr. rewrite E. ypr. rewrite Q2.
  cbn [flat_map app on_wire]. rewrite emit_one. ypr. cbn [app].
  split; [reflexivity|]. split.
  - do 9 eexists. split; [reflexivity|]. split; [exact Hst|]. split; [exact Hq|]. split; [exact Hlog|].
    split; [exact Hl|exact Hc].
  - destruct HI as [[_ [Hcl _]] _]. exact Hcl.
Qed.

(* the only round after the cancel: the EOF (cancel) finishes the transaction at the receiver *)
Lemma round_eofu : forall ck off n L y, U0 ck off n L y ->
  exists y' a, step_round y = (y', a) /\ quiescent y' = true /\ FinalU off n L y'.
Proof.
  intros ck off n L y (s & fs & lg & c2 & rnd & scur & dcur & sdone & ddone & -> & Hst & Hq & Hlog & Hl & Hc).
  destruct (pump_idle s Hst Hq) as (s' & P & Hst' & _ & Hlog').
  set (pk := PEof hUR C_CANCEL_REQUEST ck off None).
  destruct (guard_busy_u pk off fs lg ddone eq_refl) as [G1 G2].
  pose proof (sm_eof_cu cd rd x (sc_crc cf) (sc_large cf) (sc_src cf) (sc_srcw cf) (sc_seq cf) (sc_seqw cf)
                (r_cktype rs) (zlen data) Hrem Hfind ck None off fs lg) as Hsm.
  set (fs' := if r_disposition rd then fst (fs_delete_file fs [x]) else fs) in *.
  set (lg' := (if l_ind_eof_recv cd then [EvEofRecv (sc_src cf) (sc_seq cf)] else []) ++ lg) in *.
  change (Dest.state_machine (Some pk) (DSU off fs lg) = (DFU fs' (evFinU :: lg'), Ok tt)) in Hsm.
  destruct (call_src_pump s s' _ (DSU off fs lg) [pk] [] n c2 (rnd + 1) scur dcur sdone ddone P)
    as (scur' & sdone' & E).
  destruct (call_dst_ok _ _ _ s' [] [] n c2 (rnd + 1) scur' dcur sdone' ddone Hsm eq_refl) as (dcur' & ddone' & E2).
  eexists. eexists.
  rewrite step_round_Y1. cbv zeta. rewrite E.
  cbn [flat_map emit_pdus]. ypr. rewrite deliver_all_one. rewrite deliver_to_dest_pass by assumption. rewrite E2.
  ypr.
  split; [reflexivity|]. split.
  - unfold quiescent. cbn [y_src y_dst y_s2d y_d2s y_delayed]. rewrite Hst'. reflexivity.
  - do 9 eexists. split; [reflexivity|]. split; [exact Hst'|]. split; [rewrite Hlog'; exact Hlog|]. split.
    + unfold fs', file_content. destruct (r_disposition rd).
      * unfold fs_delete_file. rewrite Hl. cbn [fst].
        rewrite lookup_remove_path by discriminate. rewrite path_eqb_refl. reflexivity.
      * rewrite Hl. reflexivity.
    + apply clean_app; [|exact Hc].
      destruct (l_ind_eof_recv cd); [apply clean_cons; [reflexivity|reflexivity|apply clean_nil] | apply clean_nil].
Qed.
End SysU.

(* ================================================================== *)
(* 4. the theorem of props/C12d.v                                      *)
(* ================================================================== *)
Lemma system_cancel_acked :
  forall (cs cd : lcfg) (seq0 bits : Z) (p : putreq) (rs rd : rcfg) (sn dn : path) (data : bytes) (tick : Z) (k : nat),
  let w := Z.max (l_idw cs) (pr_dstw p) in
  let large := 4294967295 <? zlen data in
  let derived := r_max_packet rs - (4 + 2 * w + bits / 8) - (if large then 8 else 4) - (if r_crc rs then 2 else 0) in
  let seg := match r_max_seg rs with Some m => Z.min m derived | None => derived end in
  get_remote (l_remotes cs) (pr_dst p) = Some rs ->
  pr_names p = Some (sn, dn) -> sn <> [] -> pr_msgs p = None ->
  (match pr_mode p with Some m => m | None => r_mode rs end) = ACKED ->
  0 < r_ack_ms rs -> 0 < r_ack_ms rd ->
  (bits = 8 \/ bits = 16 \/ bits = 32) -> 0 <= seq0 < 2 ^ bits -> 1 <= seg -> 6 <= derived ->
  (r_cktype rs = CK_CRC32 \/ r_cktype rs = CK_CRC32C \/ r_cktype rs = CK_NULL \/ r_cktype rs = CK_MODULAR) ->
  l_id cd = pr_dst p -> get_remote (l_remotes cd) (l_id cs) = Some rd -> length dn = 1%nat ->
  l_ind_fin cs = true -> l_ind_fin cd = true ->
  (1 <= k)%nat -> (Z.of_nat k - 2) * seg < zlen data ->
  let m := Z.min ((Z.of_nat k - 1) * seg) (zlen data) in
  let fstat := if r_disposition rd then FS_DISCARDED_DELIBERATELY else FS_RETAINED in
  let fin_ev := EvFinished (l_id cs) seq0 C_CANCEL_REQUEST DATA_INCOMPLETE fstat (Some (l_id cs, r_idw rd)) in
  exists fuel ck lgs lgd,
    let res := transfer_cancel cs cd seq0 bits p sn data k fuel tick in
    let y := fst (fst res) in
    snd res = Ok true /\ snd (fst res) = true /\
    s_state (y_src y) = ST_IDLE /\ d_state (y_dst y) = ST_IDLE /\ y_errs y = [] /\
    calculate_checksum (r_cktype rs) (Some data) m seg = Ok ck /\
    e_log (s_env (y_src y)) = fin_ev :: (if l_ind_eof_sent cs then [EvEofSent (l_id cs) seq0] else []) ++ lgs /\
    e_log (d_env (y_dst y)) = fin_ev :: lgd /\
    existsb fault_event lgs = false /\ filter success_event lgs = [] /\
    existsb fault_event lgd = false /\ filter success_event lgd = [] /\
    file_content (e_fs (d_env (y_dst y))) dn = (if r_disposition rd then None else Some (ztake m data)) /\
    y_cnt_s2d y = Z.of_nat k + 2.
Proof.
  intros cs cd seq0 bits p rs rd sn dn data tick k w large derived seg
         Hrs Hn Hsn Hmsgs Hmode Hacks Hackd Hbits Hseq Hseg Hd6 Hck Hid Hrd Hlen Hfs Hfd Hk1 Hk2 m fstat fin_ev.
  destruct dn as [|x [|x' dn']]; try discriminate Hlen.
  set (fss := [(sn, File data)]).
  assert (Hlook : lookup fss sn = Some (File data)).
  { destruct sn as [|a sn']; [contradiction|]. unfold fss. cbn [lookup lookup_raw].
    rewrite path_eqb_refl. reflexivity. }
  set (cf := mkSconf (l_id cs) w (pr_dst p) w seq0 (bits / 8) ACKED large (r_crc rs)).
  set (clo := match pr_closure p with Some b => b | None => r_closure rs end).
  destruct (first_call_c cs seq0 bits fss p rs sn [x] data Hrs Hn Hlook Hmode Hbits Hseq Hseg Hd6)
    as (s1 & s3 & P1 & P2 & HI).
  rewrite Hmsgs in P2.
  assert (Hdst : sc_dst cf = l_id cd) by (symmetry; exact Hid).
  assert (Hdstr : sc_dst cf = r_id rs) by (symmetry; exact (get_remote_id _ _ _ Hrs)).
  destruct k as [|j]; [lia|].
  assert (Hj : (Z.of_nat j - 1) * seg < zlen data) by (rewrite Nat2Z.inj_succ in Hk2; nia).
  assert (Em : m = Z.min (Z.of_nat j * seg) (zlen data)).
  { unfold m. rewrite Nat2Z.inj_succ. f_equal. nia. }
  pose proof (rounds_inv cs cd p rs rd sn x data cf seg clo fss Hn Hlook Hseg eq_refl Hrd Hdst s1 s3 P2 HI j Hj) as HS.
  fold w large derived seg in HS. rewrite <- Em in HS.
  assert (Hlen0 : 0 <= zlen data) by (unfold zlen; lia).
  destruct (ck_pref (r_cktype rs) data m seg Hck Hseg ltac:(nia)) as (ck & Eck).
  destruct (cancel_c cs cd p rs rd sn x data cf seg clo fss Hn Hlook eq_refl Hdst m _ _ ck HS Eck)
    as (yc & lgs & Ec & H0 & Hcl).
  destruct (run_cancel cs cd p rs rd x data cf tick clo eq_refl Hfs Hfd Hrd Hdst Hacks Hackd eq_refl Hdstr
              0%nat ck m _ _ yc H0) as (y' & Rr & F).
  exists 4%nat, ck, lgs.
  destruct F as (s & fs & lg & c2 & rnd & scur & dcur & sdone & ddone & -> & Hst & Hlog & Hfc & [Hc1 Hc2]).
  exists lg.
  assert (Et : transfer_cancel cs cd seq0 bits p sn data (S j) 4 tick =
               ((Y s (DFC cd cf fs (evFinC rd cf :: lg)) (Z.of_nat j + 1 + 1 + 1) c2 rnd scur dcur sdone ddone, true), Ok true)).
  { unfold transfer_cancel, sys_init. cbn [y_src]. fold fss. rewrite P1.
    change (mkSys (src_fresh cs seq0 bits fss) (dst_init cd) [] [] 0 0 [] 0 None None [] [] [] (rev []) <| y_src := s1 |>)
      with (Y s1 (dst_init cd) 0 0 0 None None [] []).
    change (cancel_src (l_id cs) seq0) with (cancel_src (sc_src cf) (sc_seq cf)).
    rewrite Ec. change (4%nat) with (4 + 0)%nat. rewrite Rr. reflexivity. }
  cbv zeta. rewrite Et. cbn [fst snd].
  assert (Eid : r_id rd = l_id cs) by exact (get_remote_id _ _ _ Hrd).
  destruct Hcl as [Hl1 Hl2].
  unfold Y, DFC, dfinal. cbn [y_src y_dst y_errs y_cnt_s2d d_env d_state e_fs e_log].
  split; [reflexivity|]. split; [reflexivity|]. split; [exact Hst|]. split; [reflexivity|]. split; [reflexivity|].
  split; [exact Eck|].
  split; [rewrite Hlog; unfold L0, fstatC, flCC; rewrite Eid; reflexivity|].
  split; [unfold evFinC, fstatC, flCC; rewrite Eid; reflexivity|].
  split; [exact Hl1|]. split; [exact Hl2|]. split; [exact Hc1|]. split; [exact Hc2|].
  split; [exact Hfc|]. rewrite Nat2Z.inj_succ. lia.
Qed.

(* the state of the link right after the cancel request: exactly one PDU, the EOF (cancel) over the bytes sent *)
Definition cancel_point (cs cd : lcfg) (seq0 bits : Z) (p : putreq) (sn : path) (data : bytes) (k : nat)
  : sys * res Z bool :=
  let y0 := sys_init cs cd seq0 bits sn data [] in
  let '(s1, _) := put_request p (y_src y0) in
  cancel_src (l_id cs) seq0 (rounds k (y0 <| y_src := s1 |>)).

Lemma system_cancel_eof :
  forall (cs cd : lcfg) (seq0 bits : Z) (p : putreq) (rs rd : rcfg) (sn dn : path) (data : bytes) (k : nat),
  let w := Z.max (l_idw cs) (pr_dstw p) in
  let large := 4294967295 <? zlen data in
  let derived := r_max_packet rs - (4 + 2 * w + bits / 8) - (if large then 8 else 4) - (if r_crc rs then 2 else 0) in
  let seg := match r_max_seg rs with Some m => Z.min m derived | None => derived end in
  get_remote (l_remotes cs) (pr_dst p) = Some rs ->
  pr_names p = Some (sn, dn) -> sn <> [] -> pr_msgs p = None ->
  (match pr_mode p with Some m => m | None => r_mode rs end) = ACKED ->
  (bits = 8 \/ bits = 16 \/ bits = 32) -> 0 <= seq0 < 2 ^ bits -> 1 <= seg -> 6 <= derived ->
  (r_cktype rs = CK_CRC32 \/ r_cktype rs = CK_CRC32C \/ r_cktype rs = CK_NULL \/ r_cktype rs = CK_MODULAR) ->
  l_id cd = pr_dst p -> get_remote (l_remotes cd) (l_id cs) = Some rd -> length dn = 1%nat ->
  (1 <= k)%nat -> (Z.of_nat k - 2) * seg < zlen data ->
  let m := Z.min ((Z.of_nat k - 1) * seg) (zlen data) in
  exists ck,
    let res := cancel_point cs cd seq0 bits p sn data k in
    calculate_checksum (r_cktype rs) (Some data) m seg = Ok ck /\
    snd res = Ok true /\ y_errs (fst res) = [] /\
    y_s2d (fst res) =
      [PEof (mkHdr TOWARDS_RECEIVER ACKED (r_crc rs) large (l_id cs) (pr_dst p) w seq0 (bits / 8))
            C_CANCEL_REQUEST ck m None] /\
    y_cnt_s2d (fst res) = Z.of_nat k + 1.
Proof.
  intros cs cd seq0 bits p rs rd sn dn data k w large derived seg
         Hrs Hn Hsn Hmsgs Hmode Hbits Hseq Hseg Hd6 Hck Hid Hrd Hlen Hk1 Hk2 m.
  destruct dn as [|x [|x' dn']]; try discriminate Hlen.
  set (fss := [(sn, File data)]).
  assert (Hlook : lookup fss sn = Some (File data)).
  { destruct sn as [|a sn']; [contradiction|]. unfold fss. cbn [lookup lookup_raw].
    rewrite path_eqb_refl. reflexivity. }
  set (cf := mkSconf (l_id cs) w (pr_dst p) w seq0 (bits / 8) ACKED large (r_crc rs)).
  set (clo := match pr_closure p with Some b => b | None => r_closure rs end).
  destruct (first_call_c cs seq0 bits fss p rs sn [x] data Hrs Hn Hlook Hmode Hbits Hseq Hseg Hd6)
    as (s1 & s3 & P1 & P2 & HI).
  rewrite Hmsgs in P2.
  assert (Hdst : sc_dst cf = l_id cd) by (symmetry; exact Hid).
  destruct k as [|j]; [lia|].
  assert (Hj : (Z.of_nat j - 1) * seg < zlen data) by (rewrite Nat2Z.inj_succ in Hk2; nia).
  assert (Em : m = Z.min (Z.of_nat j * seg) (zlen data)).
  { unfold m. rewrite Nat2Z.inj_succ. f_equal. nia. }
  pose proof (rounds_inv cs cd p rs rd sn x data cf seg clo fss Hn Hlook Hseg eq_refl Hrd Hdst s1 s3 P2 HI j Hj) as HS.
  fold w large derived seg in HS. rewrite <- Em in HS.
  assert (Hlen0 : 0 <= zlen data) by (unfold zlen; lia).
  destruct (ck_pref (r_cktype rs) data m seg Hck Hseg ltac:(nia)) as (ck & Eck).
  destruct (cancel_c cs cd p rs rd sn x data cf seg clo fss Hn Hlook eq_refl Hdst m _ _ ck HS Eck)
    as (yc & lgs & Ec & H0 & Hcl).
  exists ck.
  destruct H0 as (s & ls & fs & lg & c2 & rnd & scur & dcur & sdone & ddone & -> & _).
  assert (Et : cancel_point cs cd seq0 bits p sn data (S j) =
               (mkSys s (DSA' cd rs rd x data cf clo m ls m fs lg) [eofC cd cf ck m] [] (Z.of_nat j + 1 + 1) c2 [] rnd
                      scur dcur sdone ddone [] [], Ok true)).
  { unfold cancel_point, sys_init. cbn [y_src]. fold fss. rewrite P1.
    change (mkSys (src_fresh cs seq0 bits fss) (dst_init cd) [] [] 0 0 [] 0 None None [] [] [] (rev []) <| y_src := s1 |>)
      with (Y s1 (dst_init cd) 0 0 0 None None [] []).
    change (cancel_src (l_id cs) seq0) with (cancel_src (sc_src cf) (sc_seq cf)).
    exact Ec. }
  cbv zeta. rewrite Et. cbn [fst snd y_errs y_s2d y_cnt_s2d].
  split; [exact Eck|]. split; [reflexivity|]. split; [reflexivity|]. split.
  - unfold eofC, hCA, hA, cf. cbn [sc_crc sc_large sc_src sc_srcw sc_seq sc_seqw]. rewrite Hid. reflexivity.
  - rewrite Nat2Z.inj_succ. lia.
Qed.

Lemma system_cancel_unacked :
  forall (cs cd : lcfg) (seq0 bits : Z) (p : putreq) (rs rd : rcfg) (sn dn : path) (data : bytes) (tick : Z) (k : nat),
  let w := Z.max (l_idw cs) (pr_dstw p) in
  let large := 4294967295 <? zlen data in
  let derived := r_max_packet rs - (4 + 2 * w + bits / 8) - (if large then 8 else 4) - (if r_crc rs then 2 else 0) in
  let seg := match r_max_seg rs with Some m => Z.min m derived | None => derived end in
  get_remote (l_remotes cs) (pr_dst p) = Some rs ->
  pr_names p = Some (sn, dn) -> sn <> [] -> pr_msgs p = None ->
  (match pr_mode p with Some m => m | None => r_mode rs end) = UNACKED ->
  (match pr_closure p with Some b => b | None => r_closure rs end) = false ->
  (bits = 8 \/ bits = 16 \/ bits = 32) -> 0 <= seq0 < 2 ^ bits -> 1 <= seg -> 6 <= derived ->
  (r_cktype rs = CK_CRC32 \/ r_cktype rs = CK_CRC32C \/ r_cktype rs = CK_NULL \/ r_cktype rs = CK_MODULAR) ->
  l_id cd = pr_dst p -> get_remote (l_remotes cd) (l_id cs) = Some rd -> length dn = 1%nat ->
  l_ind_fin cs = true -> l_ind_fin cd = true ->
  (1 <= k)%nat -> (Z.of_nat k - 2) * seg < zlen data ->
  let m := Z.min ((Z.of_nat k - 1) * seg) (zlen data) in
  let fstat := if r_disposition rd then FS_DISCARDED_DELIBERATELY else FS_RETAINED in
  exists fuel ck lgs lgd,
    let res := transfer_cancel cs cd seq0 bits p sn data k fuel tick in
    let y := fst (fst res) in
    snd res = Ok true /\ snd (fst res) = true /\
    s_state (y_src y) = ST_IDLE /\ d_state (y_dst y) = ST_IDLE /\ y_errs y = [] /\
    calculate_checksum (r_cktype rs) (Some data) m seg = Ok ck /\
    e_log (s_env (y_src y)) =
      EvFinished (l_id cs) seq0 C_CANCEL_REQUEST DATA_INCOMPLETE FS_UNREPORTED None ::
      (if l_ind_eof_sent cs then [EvEofSent (l_id cs) seq0] else []) ++ lgs /\
    e_log (d_env (y_dst y)) =
      EvFinished (l_id cs) seq0 C_CANCEL_REQUEST DATA_INCOMPLETE fstat (Some (l_id cs, r_idw rd)) :: lgd /\
    existsb fault_event lgs = false /\ filter success_event lgs = [] /\
    existsb fault_event lgd = false /\ filter success_event lgd = [] /\
    file_content (e_fs (d_env (y_dst y))) dn = (if r_disposition rd then None else Some (ztake m data)) /\
    y_cnt_s2d y = Z.of_nat k + 1.
Proof.
  intros cs cd seq0 bits p rs rd sn dn data tick k w large derived seg
         Hrs Hn Hsn Hmsgs Hmode Hclo Hbits Hseq Hseg Hd6 Hck Hid Hrd Hlen Hfs Hfd Hk1 Hk2 m fstat.
  destruct dn as [|x [|x' dn']]; try discriminate Hlen.
  set (fss := [(sn, File data)]).
  assert (Hlook : lookup fss sn = Some (File data)).
  { destruct sn as [|a sn']; [contradiction|]. unfold fss. cbn [lookup lookup_raw].
    rewrite path_eqb_refl. reflexivity. }
  set (cf := mkSconf (l_id cs) w (pr_dst p) w seq0 (bits / 8) UNACKED large (r_crc rs)).
  destruct (first_call_cu cs seq0 bits fss p rs sn [x] data Hrs Hn Hlook Hmode Hclo Hbits Hseq Hseg Hd6)
    as (s1 & s3 & P1 & P2 & HI).
  rewrite Hmsgs in P2.
  assert (Hdst : sc_dst cf = l_id cd) by (symmetry; exact Hid).
  destruct k as [|j]; [lia|].
  assert (Hj : (Z.of_nat j - 1) * seg < zlen data) by (rewrite Nat2Z.inj_succ in Hk2; nia).
  assert (Em : m = Z.min (Z.of_nat j * seg) (zlen data)).
  { unfold m. rewrite Nat2Z.inj_succ. f_equal. nia. }
  pose proof (rounds_inv_u cs cd p rs rd sn x data cf seg fss Hn Hlook Hseg eq_refl Hrd Hdst s1 s3 P2 HI j Hj) as HS.
  fold w large derived seg in HS. rewrite <- Em in HS.
  assert (Hlen0 : 0 <= zlen data) by (unfold zlen; lia).
  destruct (ck_pref (r_cktype rs) data m seg Hck Hseg ltac:(nia)) as (ck & Eck).
  destruct (cancel_u cs cd p rs rd sn x data cf seg fss Hn Hlook eq_refl Hfs Hdst m _ _ ck HS Eck)
    as (yc & lgs & Ec & H0 & Hcl).
  destruct (round_eofu cd rs rd x data cf Hfd Hrd ck m _ _ yc H0) as (y' & a & R & Q & F).
  exists 1%nat, ck, lgs.
  destruct F as (s & fs & lg & c2 & rnd & scur & dcur & sdone & ddone & -> & Hst & Hlog & Hfc & [Hc1 Hc2]).
  exists lg.
  destruct H0 as (s0 & fs0 & lg0 & c20 & rnd0 & scur0 & dcur0 & sdone0 & ddone0 & Ey & _).
  assert (Et : transfer_cancel cs cd seq0 bits p sn data (S j) 1 tick =
               ((Y s (DFU cd cf fs (evFinU rd cf :: lg)) (Z.of_nat j + 1 + 1) c2 rnd scur dcur sdone ddone, true), Ok true)).
  { unfold transfer_cancel, sys_init. cbn [y_src]. fold fss. rewrite P1.
    change (mkSys (src_fresh cs seq0 bits fss) (dst_init cd) [] [] 0 0 [] 0 None None [] [] [] (rev []) <| y_src := s1 |>)
      with (Y s1 (dst_init cd) 0 0 0 None None [] []).
    change (cancel_src (l_id cs) seq0) with (cancel_src (sc_src cf) (sc_seq cf)).
    rewrite Ec. rewrite run_S, R. cbv iota beta. rewrite Q. reflexivity. }
  cbv zeta. rewrite Et. cbn [fst snd].
  assert (Eid : r_id rd = l_id cs) by exact (get_remote_id _ _ _ Hrd).
  destruct Hcl as [Hl1 Hl2].
  unfold Y, DFU, dfinal. cbn [y_src y_dst y_errs y_cnt_s2d d_env d_state e_fs e_log].
  split; [reflexivity|]. split; [reflexivity|]. split; [exact Hst|]. split; [reflexivity|]. split; [reflexivity|].
  split; [exact Eck|].
  split; [rewrite Hlog; reflexivity|].
  split; [unfold evFinU, fstatU; rewrite Eid; reflexivity|].
  split; [exact Hl1|]. split; [exact Hl2|]. split; [exact Hc1|]. split; [exact Hc2|].
  split; [exact Hfc|]. rewrite Nat2Z.inj_succ; lia.
Qed.

(* ================================================================== *)
(* 5. instances (non-vacuity) and the counterexample to the draft       *)
(* ================================================================== *)
(* entity 1 sends the 9-byte test file to entity 2 in segments of 4 (Metadata, 3 File Data PDUs, EOF) *)
Definition rcx (id idw : Z) (disp : bool) : rcfg :=
  mkRcfg id idw (Some 4) 64 false false ACKED CK_CRC32 1000 2 2 disp false 1000 2.
Definition lcx (id : Z) (r : rcfg) : lcfg := mkLcfg id 2 true true true true default_fault_table 1000 [r].
Definition tc_case (idw : Z) (disp : bool) (k : nat) : (sys * bool) * res Z bool :=
  transfer_cancel (lcx 1 (rcx 2 2 disp)) (lcx 2 (rcx 1 idw disp)) 0 16 (mkPut 2 2 None None (Some ([1], [2])) None) [1]
                  (map (fun i => (7 * Z.of_nat i + 3) mod 256) (seq 0 9)) k 4 1000.
Definition tc_view (r : (sys * bool) * res Z bool) :=
  let y := fst (fst r) in
  (snd r, snd (fst r), y_errs y, e_log (s_env (y_src y)), hd (EvEofSent 0 0) (e_log (d_env (y_dst y))),
   e_fs (d_env (y_dst y)), y_cnt_s2d y).

(* cancel after the Metadata PDU, after one and after two File Data PDUs; incomplete file retained: 0, 4, 8 bytes *)
Example cancel_k1_keep : tc_view (tc_case 2 false 1) =
  (Ok true, true, [], [EvFinished 1 0 15 1 2 (Some (1, 2)); EvEofSent 1 0; EvTransaction 1 0 None],
   EvFinished 1 0 15 1 2 (Some (1, 2)), [([2], File [])], 3).
Proof. vm_compute. reflexivity. Qed.
Example cancel_k2_keep : tc_view (tc_case 2 false 2) =
  (Ok true, true, [], [EvFinished 1 0 15 1 2 (Some (1, 2)); EvEofSent 1 0; EvTransaction 1 0 None],
   EvFinished 1 0 15 1 2 (Some (1, 2)), [([2], File [3; 10; 17; 24])], 4).
Proof. vm_compute. reflexivity. Qed.
Example cancel_k3_keep : tc_view (tc_case 2 false 3) =
  (Ok true, true, [], [EvFinished 1 0 15 1 2 (Some (1, 2)); EvEofSent 1 0; EvTransaction 1 0 None],
   EvFinished 1 0 15 1 2 (Some (1, 2)), [([2], File [3; 10; 17; 24; 31; 38; 45; 52])], 5).
Proof. vm_compute. reflexivity. Qed.
(* the same with disposition-on-cancellation: file status Discarded Deliberately, the file is gone *)
Example cancel_k1_discard : tc_view (tc_case 2 true 1) =
  (Ok true, true, [], [EvFinished 1 0 15 1 0 (Some (1, 2)); EvEofSent 1 0; EvTransaction 1 0 None],
   EvFinished 1 0 15 1 0 (Some (1, 2)), [], 3).
Proof. vm_compute. reflexivity. Qed.
Example cancel_k2_discard : tc_view (tc_case 2 true 2) =
  (Ok true, true, [], [EvFinished 1 0 15 1 0 (Some (1, 2)); EvEofSent 1 0; EvTransaction 1 0 None],
   EvFinished 1 0 15 1 0 (Some (1, 2)), [], 4).
Proof. vm_compute. reflexivity. Qed.
Example cancel_k3_discard : tc_view (tc_case 2 true 3) =
  (Ok true, true, [], [EvFinished 1 0 15 1 0 (Some (1, 2)); EvEofSent 1 0; EvTransaction 1 0 None],
   EvFinished 1 0 15 1 0 (Some (1, 2)), [], 5).
Proof. vm_compute. reflexivity. Qed.

(* counterexample to the draft statement "fault location = (l_id cs, l_idw cs)": the receiver names the sender with
   the id width of ITS remote configuration for the sender (here 4), not the sender's own width (2) *)
Example fault_location_is_receivers_view : tc_view (tc_case 4 false 2) =
  (Ok true, true, [], [EvFinished 1 0 15 1 2 (Some (1, 4)); EvEofSent 1 0; EvTransaction 1 0 None],
   EvFinished 1 0 15 1 2 (Some (1, 4)), [([2], File [3; 10; 17; 24])], 4).
Proof. vm_compute. reflexivity. Qed.

(* unacknowledged mode without closure: the sender ends with the EOF (cancel), the receiver on receiving it *)
Definition rcu (id : Z) (disp : bool) : rcfg :=
  mkRcfg id 2 (Some 4) 64 false false UNACKED CK_CRC32 1000 2 2 disp false 1000 2.
Definition tcu_case (disp : bool) (k : nat) : (sys * bool) * res Z bool :=
  transfer_cancel (lcx 1 (rcu 2 disp)) (lcx 2 (rcu 1 disp)) 0 16 (mkPut 2 2 None None (Some ([1], [2])) None) [1]
                  (map (fun i => (7 * Z.of_nat i + 3) mod 256) (seq 0 9)) k 1 1000.
Example cancel_unacked_k2_keep : tc_view (tcu_case false 2) =
  (Ok true, true, [], [EvFinished 1 0 15 1 3 None; EvEofSent 1 0; EvTransaction 1 0 None],
   EvFinished 1 0 15 1 2 (Some (1, 2)), [([2], File [3; 10; 17; 24])], 3).
Proof. vm_compute. reflexivity. Qed.
Example cancel_unacked_k3_discard : tc_view (tcu_case true 3) =
  (Ok true, true, [], [EvFinished 1 0 15 1 3 None; EvEofSent 1 0; EvTransaction 1 0 None],
   EvFinished 1 0 15 1 0 (Some (1, 2)), [], 4).
Proof. vm_compute. reflexivity. Qed.
