(* TrackInvProofs.v — proof of the history-level part of property C06 (props/C06b.v): for every arrival order and
   duplication of the tiles of a file cut at a fixed segment length, the receiver's lost-segment tracker denotes
   exactly the bytes below the highest end offset received that were not received.
   The inductive invariant is [Good]; the step is [good_step]; C18 (LostSegProofs.v) supplies add/remove. *)
From CFDP Require Import Base LostSeg LostSegSpec Fs Handler Dest HandlerSpec.
From CFDP.proofs Require Import LostSegProofs NakProofs.
From RecordUpdate Require Import RecordSet.
Import RecordSetNotations.
Open Scope monad_scope.

Arguments Z.add : simpl never. Arguments Z.sub : simpl never. Arguments Z.mul : simpl never.
Arguments Z.ltb : simpl never. Arguments Z.leb : simpl never. Arguments Z.eqb : simpl never.
Arguments Z.max : simpl never. Arguments Z.min : simpl never.

(* ------------------------------------------------------------------ same bodies as props/C06b.v *)
Definition tile (seg size : Z) (fd : Z * Z) : Prop :=
  exists k, 0 <= k /\ fst fd = k * seg /\ snd fd = Z.min seg (size - fst fd) /\ 0 < snd fd.
Definition covered (hist : list (Z * Z)) (x : Z) : Prop :=
  exists fd, In fd hist /\ fst fd <= x < fst fd + snd fd.
Definition extent (hist : list (Z * Z)) : Z := fold_left (fun m fd => Z.max m (fst fd + snd fd)) hist 0.
Fixpoint handle_all (hist : list (Z * Z)) : D unit :=
  match hist with
  | [] => ret tt
  | fd :: t => lost_segment_handling (fst fd) (snd fd) ;;; handle_all t
  end.

(* ------------------------------------------------------------------ extent / covered *)
Lemma extent_app : forall h fd, extent (h ++ [fd]) = Z.max (extent h) (fst fd + snd fd).
Proof. intros. unfold extent. rewrite fold_left_app. reflexivity. Qed.

Lemma covered_app : forall h fd x, covered (h ++ [fd]) x <-> covered h x \/ fst fd <= x < fst fd + snd fd.
Proof.
  intros h fd x. unfold covered. split.
  - intros [q [Hq Hx]]. apply in_app_or in Hq. destruct Hq as [Hq | [Hq | []]].
    + left. exists q. split; assumption.
    + subst q. right. exact Hx.
  - intros [[q [Hq Hx]] | Hx].
    + exists q. split; [apply in_or_app; left; exact Hq | exact Hx].
    + exists fd. split; [apply in_or_app; right; left; reflexivity | exact Hx].
Qed.

Lemma covered_lt_extent : forall h x, covered h x -> x < extent h.
Proof.
  induction h as [|fd h IH] using rev_ind; intros x H.
  - destruct H as [q [[] _]].
  - rewrite extent_app. apply covered_app in H. destruct H as [H | H].
    + apply IH in H. lia.
    + lia.
Qed.

Lemma extent_nonneg : forall h, 0 <= extent h.
Proof.
  induction h as [|fd h IH] using rev_ind; [unfold extent; simpl; lia|].
  rewrite extent_app. lia.
Qed.

(* ------------------------------------------------------------------ steps of lost_segment_handling, with frame *)
Lemma st_gap : forall s off len,
  p_last_end (d_p s) < off -> 0 < len -> p_rcfg (d_p s) <> None ->
  exists s', lost_segment_handling off len s = (s', Ok tt) /\
    p_tracker (d_p s') = add (p_last_end (d_p s), off) (p_tracker (d_p s)) /\
    p_last_start (d_p s') = off /\ p_last_end (d_p s') = off + len /\
    p_rcfg (d_p s') = p_rcfg (d_p s) /\ fs_d s' = fs_d s /\ log_d s' = log_d s.
Proof.
  intros s off len Hgap Hlen Hr. destruct (p_rcfg (d_p s)) as [r|] eqn:Er; [|congruence].
  unfold lost_segment_handling, tracker_add, conf. rewrite bind_gp.
  replace (p_last_end (d_p s) <? off) with true by (symmetry; apply Z.ltb_lt; lia).
  rewrite bind_when_true, bind_assoc, bind_setp, bind_assoc, bind_rcfg. cbn [d_p]. cbn. rewrite Er.
  destruct (r_imm_nak r).
  - rewrite bind_when_true, bind_assoc, bind_gp, bind_add_packet, bind_gp. cbn.
    replace (p_last_end (d_p s) <=? off) with true by (symmetry; apply Z.leb_le; lia).
    rewrite bind_when_true, bind_setp, bind_gp. cbn.
    replace (off + len <=? off) with false by (symmetry; apply Z.leb_gt; lia).
    eexists. split; [reflexivity|]. cbn. rewrite Er. repeat split; reflexivity.
  - rewrite bind_when_false, bind_gp. cbn.
    replace (p_last_end (d_p s) <=? off) with true by (symmetry; apply Z.leb_le; lia).
    rewrite bind_when_true, bind_setp, bind_gp. cbn.
    replace (off + len <=? off) with false by (symmetry; apply Z.leb_gt; lia).
    eexists. split; [reflexivity|]. cbn. rewrite Er. repeat split; reflexivity.
Qed.

Lemma st_in_order : forall s off len,
  off = p_last_end (d_p s) -> 0 < len ->
  exists s', lost_segment_handling off len s = (s', Ok tt) /\
    p_tracker (d_p s') = p_tracker (d_p s) /\
    p_last_start (d_p s') = off /\ p_last_end (d_p s') = off + len /\
    p_rcfg (d_p s') = p_rcfg (d_p s) /\ fs_d s' = fs_d s /\ log_d s' = log_d s.
Proof.
  intros s off len Hoff Hlen. unfold lost_segment_handling. rewrite bind_gp.
  replace (p_last_end (d_p s) <? off) with false by (symmetry; apply Z.ltb_ge; lia).
  rewrite bind_when_false, bind_gp.
  replace (p_last_end (d_p s) <=? off) with true by (symmetry; apply Z.leb_le; lia).
  rewrite bind_when_true, bind_setp, bind_gp. cbn.
  replace (off + len <=? off) with false by (symmetry; apply Z.leb_gt; lia).
  eexists. split; [reflexivity|]. cbn. repeat split; reflexivity.
Qed.

(* Statement changed with the F9 repair (hypotheses Inv and op_pre added): see NakProofs.retransmitted_removed *)
Lemma st_removed : forall s off len tr' b,
  Inv (p_tracker (d_p s)) -> op_pre (p_tracker (d_p s)) (ORemove off (off + len)) ->
  off + len <= p_last_start (d_p s) -> off < p_last_end (d_p s) ->
  LostSeg.remove (off, off + len) (p_tracker (d_p s)) = Ok (tr', b) ->
  exists s', lost_segment_handling off len s = (s', Ok tt) /\ p_tracker (d_p s') = tr' /\
    p_last_start (d_p s') = p_last_start (d_p s) /\ p_last_end (d_p s') = p_last_end (d_p s) /\
    p_rcfg (d_p s') = p_rcfg (d_p s) /\ fs_d s' = fs_d s /\ log_d s' = log_d s.
Proof.
  intros s off len tr' b HI Hpre H1 H2 Hrm. unfold lost_segment_handling. rewrite bind_gp.
  replace (p_last_end (d_p s) <? off) with false by (symmetry; apply Z.ltb_ge; lia).
  rewrite bind_when_false, bind_gp.
  replace (p_last_end (d_p s) <=? off) with false by (symmetry; apply Z.leb_gt; lia).
  rewrite bind_when_false, bind_gp.
  replace (off + len <=? p_last_start (d_p s)) with true by (symmetry; apply Z.leb_le; lia).
  unfold when. rewrite bind_gp.
  destruct (rc_loop_as_remove s off (off + len) tr' b HI Hpre Hrm) as [s' [E [T [_ [F2 [F3 [F4 [F5 F6]]]]]]]].
  exists s'. split; [exact E|]. repeat split; assumption.
Qed.

Lemma st_frontier_again : forall s off len,
  off < p_last_end (d_p s) -> p_last_start (d_p s) < off + len ->
  lost_segment_handling off len s = (s, Ok tt).
Proof.
  intros s off len H1 H2. unfold lost_segment_handling. rewrite bind_gp.
  replace (p_last_end (d_p s) <? off) with false by (symmetry; apply Z.ltb_ge; lia).
  rewrite bind_when_false, bind_gp.
  replace (p_last_end (d_p s) <=? off) with false by (symmetry; apply Z.leb_gt; lia).
  rewrite bind_when_false, bind_gp.
  replace (off + len <=? p_last_start (d_p s)) with false by (symmetry; apply Z.leb_gt; lia).
  reflexivity.
Qed.

(* ------------------------------------------------------------------ the end points of the tracked ranges *)
Definition Bnd (P : Z -> Prop) (l : tracker) : Prop := forall p, In p l -> P (fst p) /\ P (snd p).

Lemma get_In : forall k l v, LostSeg.get k l = Some v -> In (k, v) l.
Proof.
  induction l as [|[s e] t IH]; simpl; intros v H; [discriminate|].
  destruct (s =? k) eqn:E.
  - apply Z.eqb_eq in E. injection H as <-. subst s. left. reflexivity.
  - right. apply IH. exact H.
Qed.

Lemma Bnd_sort : forall (P : Z -> Prop) l, Bnd P l -> Bnd P (sort_items l).
Proof. intros P l H p Hp. apply (proj1 (In_sort_items _ _)) in Hp. apply H. exact Hp. Qed.
Lemma Bnd_update : forall (P : Z -> Prop) k v l, P k -> P v -> Bnd P l -> Bnd P (update k v l).
Proof.
  intros P k v l Hk Hv H p Hp. apply In_update_sub in Hp. destruct Hp as [-> | Hp]; [simpl; split; assumption | apply H; exact Hp].
Qed.
Lemma Bnd_pop : forall (P : Z -> Prop) k l, Bnd P l -> Bnd P (pop k l).
Proof. intros P k l H p Hp. apply In_pop_sub in Hp. apply H. exact Hp. Qed.

Lemma Bnd_add : forall (P : Z -> Prop) s e l, P s -> P e -> Bnd P l -> Bnd P (add (s, e) l).
Proof. intros. unfold add. apply Bnd_sort. apply Bnd_update; assumption. Qed.

Lemma Bnd_remove : forall (P : Z -> Prop) s e l l' b, P s -> P e -> Bnd P l -> LostSeg.remove (s, e) l = Ok (l', b) -> Bnd P l'.
Proof.
  intros P s e l l' b Hs He H Hr. unfold remove in Hr. cbn [fst snd] in Hr.
  destruct (e - s =? 0); [injection Hr as <- _; exact H|].
  destruct (LostSeg.get s l) as [en|] eqn:G.
  - apply get_In in G. pose proof (H _ G) as [_ Hen]. cbn [snd] in Hen.
    destruct (en <? e); [discriminate|].
    destruct (e =? en); injection Hr as <- _.
    + apply Bnd_sort, Bnd_pop, H.
    + apply Bnd_sort, Bnd_update; [exact He | exact Hen | apply Bnd_pop, H].
  - destruct (find_enclosing s l) as [[ss se]|] eqn:F; [|injection Hr as <- _; exact H].
    apply find_enclosing_some in F. destruct F as [F _]. pose proof (H _ F) as [Hss Hse]. cbn [fst snd] in Hss, Hse.
    destruct (se <? e); [discriminate|].
    destruct (e =? se); injection Hr as <- _.
    + apply Bnd_sort, Bnd_update; [exact Hss | exact Hs | exact H].
    + apply Bnd_sort, Bnd_update; [exact He | exact Hse |]. apply Bnd_update; [exact Hss | exact Hs | exact H].
Qed.

Lemma Bnd_mono : forall (P Q : Z -> Prop) l, (forall z, P z -> Q z) -> Bnd P l -> Bnd Q l.
Proof. intros P Q l HPQ H p Hp. destruct (H p Hp). split; apply HPQ; assumption. Qed.

(* a multiple of seg between 0 and the start of the frontier tile *)
Definition grid (seg ls : Z) (z : Z) : Prop := (exists i, z = i * seg) /\ 0 <= z <= ls.

(* a whole tile below the frontier lies inside one tracked range or touches none *)
Lemma tile_dichotomy : forall seg ls k l, 0 < seg -> Bnd (grid seg ls) l ->
  (exists a b, In (a, b) l /\ a <= k * seg /\ (k + 1) * seg <= b) \/
  (forall x, k * seg <= x < (k + 1) * seg -> ~ den l x).
Proof.
  intros seg ls k l Hseg. induction l as [|[a b] t IH]; intros HB.
  - right. intros x _ [s [e [[] _]]].
  - destruct (HB (a, b) (or_introl eq_refl)) as [[[i Hi] _] [[j Hj] _]]. cbn [fst snd] in Hi, Hj.
    assert (HBt : Bnd (grid seg ls) t) by (intros p Hp; apply HB; right; exact Hp).
    destruct (Z_le_dec i k) as [Hik|Hik]; [destruct (Z_lt_dec k j) as [Hkj|Hkj]|].
    + left. exists a, b. split; [left; reflexivity|]. subst a b. split; nia.
    + destruct (IH HBt) as [[a' [b' [Hin Hab]]] | Hn].
      * left. exists a', b'. split; [right; exact Hin | exact Hab].
      * right. intros x Hx Hd. apply den_cons in Hd. destruct Hd as [Hd | Hd]; [|exact (Hn x Hx Hd)].
        subst a b. nia.
    + destruct (IH HBt) as [[a' [b' [Hin Hab]]] | Hn].
      * left. exists a', b'. split; [right; exact Hin | exact Hab].
      * right. intros x Hx Hd. apply den_cons in Hd. destruct Hd as [Hd | Hd]; [|exact (Hn x Hx Hd)].
        subst a b. nia.
Qed.

(* ------------------------------------------------------------------ the invariant *)
Record Good (seg size : Z) (hist : list (Z * Z)) (s : dst) : Prop := mkGood {
  g_inv : Inv (p_tracker (d_p s));
  g_den : forall x, den (p_tracker (d_p s)) x <-> (0 <= x < extent hist /\ ~ covered hist x);
  g_le : p_last_end (d_p s) = extent hist;
  g_front : (p_last_start (d_p s) = 0 /\ p_last_end (d_p s) = 0) \/
            (exists k, 0 <= k /\ p_last_start (d_p s) = k * seg /\
                       p_last_end (d_p s) = Z.min (p_last_start (d_p s) + seg) size /\
                       p_last_start (d_p s) < p_last_end (d_p s));
  g_cov : forall x, p_last_start (d_p s) <= x < p_last_end (d_p s) -> covered hist x;
  g_bnd : Bnd (grid seg (p_last_start (d_p s))) (p_tracker (d_p s));
  g_rcfg : p_rcfg (d_p s) <> None }.

Lemma good_init : forall seg size s,
  p_tracker (d_p s) = [] -> p_last_start (d_p s) = 0 -> p_last_end (d_p s) = 0 -> p_rcfg (d_p s) <> None ->
  Good seg size [] s.
Proof.
  intros seg size s Ht Hls Hle Hr. constructor.
  - rewrite Ht. constructor.
  - intros x. rewrite Ht. unfold extent. simpl. split.
    + intros [a [b [[] _]]].
    + intros [H _]. lia.
  - rewrite Hle. reflexivity.
  - left. split; assumption.
  - intros x. rewrite Hls, Hle. lia.
  - rewrite Ht. intros p [].
  - exact Hr.
Qed.

Lemma good_step : forall seg size hist s fd,
  0 < seg -> Good seg size hist s -> tile seg size fd ->
  exists s', lost_segment_handling (fst fd) (snd fd) s = (s', Ok tt) /\
    Good seg size (hist ++ [fd]) s' /\ fs_d s' = fs_d s /\ log_d s' = log_d s.
Proof.
  intros seg size hist s [off len] Hseg G [k [Hk [Hoff [Hlen Hpos]]]]. cbn [fst snd] in *.
  destruct G as [GI GD GE GF GC GB GR].
  pose proof (extent_nonneg hist) as Hext0.
  assert (Hoff0 : 0 <= off) by nia.
  assert (Hsz : off < size) by lia.
  destruct (Z_lt_dec (p_last_end (d_p s)) off) as [Hgap | Hngap].
  - (* beyond the frontier, with a gap *)
    destruct (st_gap s off len Hgap Hpos GR) as [s' [E [Ht [Hls [Hle [Hr [Hfs Hlog]]]]]]].
    exists s'. split; [exact E|]. split; [|split; assumption].
    assert (Hle_grid : exists i, p_last_end (d_p s) = i * seg).
    { destruct GF as [[_ H0] | [k' [Hk' [Hls' [Hle' _]]]]].
      - exists 0. lia.
      - exists (k' + 1). lia. }
    assert (Hls_le : p_last_start (d_p s) <= p_last_end (d_p s)) by (destruct GF as [[? ?] | [k' [? [? [? ?]]]]]; lia).
    destruct (add_spec (p_tracker (d_p s)) (p_last_end (d_p s)) off GI Hgap) as [AI AD].
    { intros x Hx Hd. apply GD in Hd. lia. }
    constructor.
    + rewrite Ht. exact AI.
    + intros x. rewrite Ht, AD, GD, extent_app, covered_app. cbn [fst snd].
      split.
      * intros [[H1 H2] | H]; [split; [lia|] | split; [lia|]].
        -- intros [Hc | Hc]; [exact (H2 Hc) | lia].
        -- intros [Hc | Hc]; [apply covered_lt_extent in Hc; lia | lia].
      * intros [H1 H2]. destruct (Z_lt_dec x (extent hist)) as [Hx | Hx].
        -- left. split; [lia|]. intros Hc. apply H2. left. exact Hc.
        -- right. split; [lia|]. destruct (Z_lt_dec x off) as [?|Hxo]; [assumption|]. exfalso. apply H2. right. lia.
    + rewrite Hle, extent_app. cbn [fst snd]. lia.
    + right. exists k. rewrite Hls, Hle. repeat split; lia.
    + intros x. rewrite Hls, Hle. intros Hx. apply covered_app. right. exact Hx.
    + rewrite Ht, Hls. apply Bnd_add.
      * split; [exact Hle_grid | lia].
      * split; [exists k; exact Hoff | lia].
      * apply (Bnd_mono (grid seg (p_last_start (d_p s)))); [|exact GB].
        intros z [Hz1 Hz2]. split; [exact Hz1 | lia].
    + rewrite Hr. exact GR.
  - destruct (Z.eq_dec off (p_last_end (d_p s))) as [Heq | Hne].
    + (* at the frontier *)
      destruct (st_in_order s off len Heq Hpos) as [s' [E [Ht [Hls [Hle [Hr [Hfs Hlog]]]]]]].
      exists s'. split; [exact E|]. split; [|split; assumption].
      assert (Hls_le : p_last_start (d_p s) <= p_last_end (d_p s)) by (destruct GF as [[? ?] | [k' [? [? [? ?]]]]]; lia).
      constructor.
      * rewrite Ht. exact GI.
      * intros x. rewrite Ht, GD, extent_app, covered_app. cbn [fst snd]. split.
        -- intros [H1 H2]. split; [lia|]. intros [Hc | Hc]; [exact (H2 Hc) | lia].
        -- intros [H1 H2]. split.
           ++ destruct (Z_lt_dec x (extent hist)) as [?|Hx]; [lia|]. exfalso. apply H2. right. lia.
           ++ intros Hc. apply H2. left. exact Hc.
      * rewrite Hle, extent_app. cbn [fst snd]. lia.
      * right. exists k. rewrite Hls, Hle. repeat split; lia.
      * intros x. rewrite Hls, Hle. intros Hx. apply covered_app. right. exact Hx.
      * rewrite Ht, Hls. apply (Bnd_mono (grid seg (p_last_start (d_p s)))); [|exact GB].
        intros z [Hz1 Hz2]. split; [exact Hz1 | lia].
      * rewrite Hr. exact GR.
    + (* below the frontier *)
      assert (Hlt : off < p_last_end (d_p s)) by lia.
      destruct GF as [[_ H0] | [k' [Hk' [Hls' [Hle' Hfl]]]]]; [lia|].
      destruct (Z_le_dec (off + len) (p_last_start (d_p s))) as [Hold | Hfront].
      * (* an old tile: whole, below the frontier tile *)
        assert (Hkk : k + 1 <= k') by nia.
        assert (Hlen' : len = seg) by nia.
        assert (Hend : off + len = (k + 1) * seg) by lia.
        assert (Hrm : exists tr' b, LostSeg.remove (off, off + len) (p_tracker (d_p s)) = Ok (tr', b) /\ Inv tr' /\
                        (forall x, den tr' x <-> den (p_tracker (d_p s)) x /\ ~ (off <= x < off + len))).
        { destruct (tile_dichotomy seg (p_last_start (d_p s)) k (p_tracker (d_p s)) Hseg GB) as [[a [b [Hin [Ha Hb]]]] | Hn].
          - destruct (remove_inside_spec (p_tracker (d_p s)) off (off + len) a b GI) as [l' [R [RI RD]]]; [lia | exact Hin | lia | lia |].
            exists l', true. split; [exact R|]. split; [exact RI | exact RD].
          - exists (p_tracker (d_p s)), false. split; [|split; [exact GI|]].
            + apply remove_untouched_spec; [exact GI | lia |]. intros x Hx. apply Hn. lia.
            + intros x. split; [|intros [H _]; exact H]. intros Hd. split; [exact Hd|]. intros Hx. apply (Hn x); [lia | exact Hd]. }
        destruct Hrm as [tr' [b [R [RI RD]]]].
        assert (Hpre : op_pre (p_tracker (d_p s)) (ORemove off (off + len))).
        { split; [lia|].
          destruct (tile_dichotomy seg (p_last_start (d_p s)) k (p_tracker (d_p s)) Hseg GB) as [[a [b' [Hin [Ha Hb]]]] | Hn].
          - left. exists a, b'. split; [exact Hin | lia].
          - right. intros x Hx. apply Hn. lia. }
        destruct (st_removed s off len tr' b GI Hpre Hold Hlt R) as [s' [E [Ht [Hls [Hle [Hr [Hfs Hlog]]]]]]].
        exists s'. split; [exact E|]. split; [|split; assumption].
        constructor.
        -- rewrite Ht. exact RI.
        -- intros x. rewrite Ht, RD, GD, extent_app, covered_app. cbn [fst snd].
           replace (Z.max (extent hist) (off + len)) with (extent hist) by lia. tauto.
        -- rewrite Hle, extent_app. cbn [fst snd]. lia.
        -- right. exists k'. rewrite Hls, Hle. repeat split; assumption.
        -- intros x. rewrite Hls, Hle. intros Hx. apply covered_app. left. apply GC. exact Hx.
        -- rewrite Ht, Hls. apply (Bnd_remove _ off (off + len) (p_tracker (d_p s)) tr' b); [| |exact GB | exact R].
           ++ split; [exists k; exact Hoff | lia].
           ++ split; [exists (k + 1); exact Hend | lia].
        -- rewrite Hr. exact GR.
      * (* the frontier tile again *)
        assert (Hkk : k = k') by nia.
        assert (Hoffls : off = p_last_start (d_p s)) by (subst k'; lia).
        assert (Hendle : off + len = p_last_end (d_p s)) by lia.
        exists s. split; [apply st_frontier_again; lia|]. split; [|split; reflexivity].
        constructor.
        -- exact GI.
        -- intros x. rewrite GD, extent_app, covered_app. cbn [fst snd].
           replace (Z.max (extent hist) (off + len)) with (extent hist) by lia.
           split; [|intros [H1 H2]; split; [exact H1 | intros Hc; apply H2; left; exact Hc]].
           intros [H1 H2]. split; [exact H1|]. intros [Hc | Hc]; [exact (H2 Hc)|]. apply H2. apply GC. lia.
        -- rewrite extent_app. cbn [fst snd]. lia.
        -- right. exists k'. repeat split; assumption.
        -- intros x Hx. apply covered_app. left. apply GC. exact Hx.
        -- exact GB.
        -- exact GR.
Qed.

Lemma good_run : forall seg size rest pre s,
  0 < seg -> Good seg size pre s -> Forall (tile seg size) rest ->
  exists s', handle_all rest s = (s', Ok tt) /\ Good seg size (pre ++ rest) s' /\ fs_d s' = fs_d s /\ log_d s' = log_d s.
Proof.
  intros seg size rest. induction rest as [|fd t IH]; intros pre s Hseg G HF.
  - exists s. rewrite app_nil_r. split; [reflexivity|]. split; [exact G|]. split; reflexivity.
  - inversion HF as [|? ? Hfd Ht]; subst.
    destruct (good_step seg size pre s fd Hseg G Hfd) as [s1 [E1 [G1 [F1 L1]]]].
    destruct (IH (pre ++ [fd]) s1 Hseg G1 Ht) as [s' [E' [G' [F' L']]]].
    exists s'. cbn [handle_all]. rewrite (bind_ok _ _ _ _ _ _ _ E1).
    rewrite <- app_assoc in G'. cbn [app] in G'.
    split; [exact E'|]. split; [exact G'|]. split; congruence.
Qed.

(* ------------------------------------------------------------------ the theorem of props/C06b.v *)
Lemma tracker_denotes_missing : forall (seg size : Z) (hist : list (Z * Z)) (s : dst),
  0 < seg -> Forall (tile seg size) hist ->
  p_tracker (d_p s) = [] -> p_last_start (d_p s) = 0 -> p_last_end (d_p s) = 0 -> p_rcfg (d_p s) <> None ->
  exists s', handle_all hist s = (s', Ok tt) /\
    Inv (p_tracker (d_p s')) /\
    (forall x, den (p_tracker (d_p s')) x <-> (0 <= x < extent hist /\ ~ covered hist x)) /\
    p_last_end (d_p s') = extent hist /\
    fs_d s' = fs_d s /\ log_d s' = log_d s.
Proof.
  intros seg size hist s Hseg HF Ht Hls Hle Hr.
  destruct (good_run seg size hist [] s Hseg (good_init seg size s Ht Hls Hle Hr) HF) as [s' [E [G [F L]]]].
  cbn [app] in G. destruct G as [GI GD GE _ _ _ _].
  exists s'. repeat split; try assumption; apply GD; assumption.
Qed.

(* non-vacuity: tiles of a 10-byte file cut at 4, out of order and duplicated *)
Example tiles_4_10 : Forall (tile 4 10) [(8, 2); (4, 4); (8, 2); (0, 4); (0, 4)].
Proof.
  repeat constructor; [exists 2 | exists 1 | exists 2 | exists 0 | exists 0]; cbn [fst snd]; lia.
Qed.

(* ================================================================== arbitrary File Data (F9 repair) *)
(* membership after a removal within one tracked range: the other ranges are untouched *)
Lemma remove_inside_In : forall l s e a b l' bb,
  Inv l -> s < e -> In (a, b) l -> a <= s -> e <= b -> LostSeg.remove (s, e) l = Ok (l', bb) ->
  forall p, In p l' <-> (p = (a, s) /\ a < s) \/ (p = (e, b) /\ e < b) \/ (In p l /\ fst p <> a).
Proof.
  intros l s e a b l' bb HI Hse Hin Has Heb R.
  assert (HK : KU l) by (apply Inv_KU; exact HI).
  destruct (sep_from l a b HI Hin) as [Hab [Heq Hsep]].
  unfold remove in R. cbn [fst snd] in R.
  destruct (e - s =? 0) eqn:E0; [apply Z.eqb_eq in E0; lia|].
  destruct (Z.eq_dec s a) as [Esa|Esa].
  - subst s. rewrite (get_some a b l HK Hin) in R.
    destruct (b <? e) eqn:E1; [apply Z.ltb_lt in E1; lia|].
    destruct (e =? b) eqn:E2; injection R as <- _; intros p; rewrite In_sort_items.
    + apply Z.eqb_eq in E2. subst e.
      rewrite (In_pop a l p HK). split.
      * intros [Hp Hn]. right. right. split; assumption.
      * intros [[_ Hlt]|[[_ Hlt]|[Hp Hn]]]; [lia|lia|split; assumption].
    + apply Z.eqb_neq in E2.
      rewrite (In_update e b (pop a l) p (KU_pop a l HK)).
      rewrite (In_pop a l p HK). split.
      * intros [Hp|[[Hp Hn] Hne]].
        -- right. left. split; [exact Hp|lia].
        -- right. right. split; assumption.
      * intros [[_ Hlt]|[[Hp Hlt]|[Hp Hn]]]; [lia|left; exact Hp|].
        right. split; [split; assumption|].
        pose proof (Hsep _ Hp Hn) as Sp. lia.
  - assert (Hg : LostSeg.get s l = None).
    { apply get_none. intros q Hq Hf.
      destruct (Z.eq_dec (fst q) a) as [Ea|Ea]; [lia|].
      pose proof (Hsep _ Hq Ea) as Sp. lia. }
    rewrite Hg in R.
    assert (Hf : find_enclosing s l = Some (a, b)).
    { destruct (find_enclosing s l) as [r|] eqn:F.
      - destruct (find_enclosing_some s l r F) as [Hr Hrs].
        destruct (Z.eq_dec (fst r) a) as [Ea|Ea].
        + rewrite (Heq _ Hr Ea). reflexivity.
        + pose proof (Hsep _ Hr Ea) as Sp. lia.
      - exfalso. apply (find_enclosing_none s l F (a, b) Hin). simpl. lia. }
    rewrite Hf in R.
    destruct (b <? e) eqn:E1; [apply Z.ltb_lt in E1; lia|].
    destruct (e =? b) eqn:E2; injection R as <- _; intros p; rewrite In_sort_items.
    + apply Z.eqb_eq in E2. subst e.
      rewrite (In_update a s l p HK). split.
      * intros [Hp|[Hp Hn]].
        -- left. split; [exact Hp|lia].
        -- right. right. split; assumption.
      * intros [[Hp Hlt]|[[_ Hlt]|[Hp Hn]]]; [left; exact Hp|lia|].
        right. split; assumption.
    + apply Z.eqb_neq in E2.
      rewrite (In_update e b (update a s l) p (KU_update a s l HK)).
      rewrite (In_update a s l p HK). split.
      * intros [Hp|[[Hp|[Hp Hn]] Hne]].
        -- right. left. split; [exact Hp|lia].
        -- left. split; [exact Hp|lia].
        -- right. right. split; assumption.
      * intros [[Hp Hlt]|[[Hp Hlt]|[Hp Hn]]].
        -- right. split; [left; exact Hp|]. subst p. simpl. lia.
        -- left; exact Hp.
        -- right. split; [right; split; assumption|].
           pose proof (Hsep _ Hp Hn) as Sp. lia.
Qed.

(* The loop of the repaired _lost_segment_handling, in general.  [l] is the part of the tracker AS IT WAS BEFORE the loop
   that is still to be visited; the current tracker (in the state) still contains every range of [l] unchanged, because
   the removals so far were within other ranges.  The loop never raises, keeps the tracker well-formed and removes from
   the tracked bytes exactly those of [off, e) that lie in a range of [l]. *)
Lemma rc_loop_general : forall off e l s,
  off < e -> Inv (p_tracker (d_p s)) -> KU l -> (forall sg, In sg l -> In sg (p_tracker (d_p s))) ->
  exists s', rc_loop off e l s = (s', Ok tt) /\ Inv (p_tracker (d_p s')) /\ trk_frame s s' /\
    (forall x, den (p_tracker (d_p s')) x <->
               den (p_tracker (d_p s)) x /\ ~ (off <= x < e /\ exists sg, In sg l /\ fst sg <= x < snd sg)).
Proof.
  intros off e l. induction l as [|[a b] t IH]; intros s Hoe HI HK Hsub.
  - exists s. split; [reflexivity|]. split; [exact HI|]. split; [apply trk_frame_refl|].
    intros x. split; [|tauto]. intros Hd. split; [exact Hd|]. intros [_ [sg [[] _]]].
  - cbn [KU] in HK. destruct HK as [HK1 HK2]. cbn [fst] in HK1.
    assert (Hin : In (a, b) (p_tracker (d_p s))) by (apply Hsub; left; reflexivity).
    destruct (sep_from _ a b HI Hin) as [Hab _].
    rewrite rc_loop_cons.
    destruct ((fst (a, b) <? e) && (off <? snd (a, b))) eqn:E.
    + (* the range is touched: its covered part is removed *)
      cbn [fst snd] in E. apply andb_prop in E. destruct E as [E1 E2]. apply Z.ltb_lt in E1, E2.
      set (c := Z.max a off). set (d := Z.min b e).
      destruct (remove_inside_spec (p_tracker (d_p s)) c d a b HI) as [cur1 [R [RI RD]]];
        [unfold c, d; lia | exact Hin | unfold c; lia | unfold d; lia |].
      pose proof (remove_inside_In _ c d a b cur1 true HI) as RIn.
      specialize (RIn ltac:(unfold c, d; lia) Hin ltac:(unfold c; lia) ltac:(unfold d; lia) R).
      assert (E : (fst (a, b) <? e) && (off <? snd (a, b)) = true).
      { cbn [fst snd]. apply andb_true_intro. split; apply Z.ltb_lt; assumption. }
      rewrite (bind_ok _ _ _ _ _ _ _ (remove_covered_hit off e (a, b) s cur1 true E R)).
      set (s1 := s <| d_p ::= (fun p => p <| p_tracker := cur1 |>) |>).
      destruct (IH s1 Hoe RI HK2) as [s' [E' [I' [F' D']]]].
      { intros q Hq. apply RIn. right. right. split; [apply Hsub; right; exact Hq | apply HK1; exact Hq]. }
      exists s'. split; [exact E'|]. split; [exact I'|]. split; [eapply trk_frame_trans; [apply trk_frame_set | exact F']|].
      intros x. rewrite D'. change (p_tracker (d_p s1)) with cur1. rewrite RD. split.
      * intros [[Hd Hn] Hm]. split; [exact Hd|]. intros [Hx [sg [[Hsg | Hsg] Hr]]].
        -- subst sg. cbn [fst snd] in Hr. apply Hn. unfold c, d. lia.
        -- apply Hm. split; [exact Hx|]. exists sg. split; assumption.
      * intros [Hd Hm]. split; [split; [exact Hd|]|].
        -- intros Hx. apply Hm. split; [unfold c, d in Hx; lia|]. exists (a, b). split; [left; reflexivity|].
           cbn [fst snd]. unfold c, d in Hx. lia.
        -- intros [Hx [sg [Hsg Hr]]]. apply Hm. split; [exact Hx|]. exists sg. split; [right; exact Hsg | exact Hr].
    + (* the range is not touched *)
      rewrite (bind_ok _ _ _ _ _ _ _ (remove_covered_miss off e (a, b) s E)).
      destruct (IH s Hoe HI HK2) as [s' [E' [I' [F' D']]]].
      { intros q Hq. apply Hsub. right. exact Hq. }
      exists s'. split; [exact E'|]. split; [exact I'|]. split; [exact F'|].
      intros x. rewrite D'. cbn [fst snd] in E. apply andb_false_iff in E. split.
      * intros [Hd Hm]. split; [exact Hd|]. intros [Hx [sg [[Hsg | Hsg] Hr]]].
        -- subst sg. cbn [fst snd] in Hr. destruct E as [E | E]; apply Z.ltb_ge in E; lia.
        -- apply Hm. split; [exact Hx|]. exists sg. split; assumption.
      * intros [Hd Hm]. split; [exact Hd|]. intros [Hx [sg [Hsg Hr]]]. apply Hm. split; [exact Hx|].
        exists sg. split; [right; exact Hsg | exact Hr].
Qed.

(* File Data below the frontier segment, whatever tracked ranges it overlaps: the call never raises and removes exactly
   the received bytes from the tracked bytes *)
Lemma st_below : forall s off len,
  0 < len -> Inv (p_tracker (d_p s)) -> off + len <= p_last_start (d_p s) -> off < p_last_end (d_p s) ->
  exists s', lost_segment_handling off len s = (s', Ok tt) /\ Inv (p_tracker (d_p s')) /\
    (forall x, den (p_tracker (d_p s')) x <-> den (p_tracker (d_p s)) x /\ ~ (off <= x < off + len)) /\
    p_last_start (d_p s') = p_last_start (d_p s) /\ p_last_end (d_p s') = p_last_end (d_p s) /\
    p_rcfg (d_p s') = p_rcfg (d_p s) /\ fs_d s' = fs_d s /\ log_d s' = log_d s.
Proof.
  intros s off len Hlen HI H1 H2. unfold lost_segment_handling. rewrite bind_gp.
  replace (p_last_end (d_p s) <? off) with false by (symmetry; apply Z.ltb_ge; lia).
  rewrite bind_when_false, bind_gp.
  replace (p_last_end (d_p s) <=? off) with false by (symmetry; apply Z.leb_gt; lia).
  rewrite bind_when_false, bind_gp.
  replace (off + len <=? p_last_start (d_p s)) with true by (symmetry; apply Z.leb_le; lia).
  unfold when. rewrite bind_gp.
  destruct (rc_loop_general off (off + len) (p_tracker (d_p s)) s) as [s' [E [I' [[_ [F2 [F3 [F4 [F5 F6]]]]] D']]]];
    [lia | exact HI | apply Inv_KU; exact HI | intros sg Hsg; exact Hsg |].
  exists s'. split; [exact E|]. split; [exact I'|]. split; [|repeat split; assumption].
  intros x. rewrite D'. split.
  - intros [Hd Hm]. split; [exact Hd|]. intros Hx. apply Hm. split; [exact Hx|].
    destruct Hd as [a [b [Hin Hr]]]. exists (a, b). split; [exact Hin | exact Hr].
  - intros [Hd Hn]. split; [exact Hd|]. intros [Hx _]. exact (Hn Hx).
Qed.

(* ------------------------------------------------------------------ the invariant for arbitrary histories *)
Record NF (hist : list (Z * Z)) (s : dst) : Prop := mkNF {
  n_inv : Inv (p_tracker (d_p s));
  n_below : forall x, den (p_tracker (d_p s)) x -> 0 <= x < p_last_start (d_p s);
  n_front : 0 <= p_last_start (d_p s) <= p_last_end (d_p s);
  n_le : p_last_end (d_p s) <= extent hist;
  n_keep : forall x, 0 <= x < p_last_end (d_p s) -> ~ covered hist x -> den (p_tracker (d_p s)) x;
  n_rcfg : p_rcfg (d_p s) <> None }.

Lemma nf_init : forall s,
  p_tracker (d_p s) = [] -> p_last_start (d_p s) = 0 -> p_last_end (d_p s) = 0 -> p_rcfg (d_p s) <> None -> NF [] s.
Proof.
  intros s Ht Hls Hle Hr. constructor.
  - rewrite Ht. constructor.
  - rewrite Ht. intros x [a [b [[] _]]].
  - lia.
  - rewrite Hle. unfold extent. simpl. lia.
  - intros x. rewrite Hle. lia.
  - exact Hr.
Qed.

Lemma nf_step : forall hist s fd,
  NF hist s -> 0 <= fst fd -> 0 < snd fd ->
  exists s', lost_segment_handling (fst fd) (snd fd) s = (s', Ok tt) /\
    NF (hist ++ [fd]) s' /\ fs_d s' = fs_d s /\ log_d s' = log_d s.
Proof.
  intros hist s [off len] [NI NB NFr NL NK NR] Hoff Hlen. cbn [fst snd] in *.
  destruct (Z_lt_dec (p_last_end (d_p s)) off) as [Hgap | Hngap].
  - (* beyond the frontier, with a gap: the gap is tracked *)
    destruct (st_gap s off len Hgap Hlen NR) as [s' [E [Ht [Hls [Hle [Hr [Hfs Hlog]]]]]]].
    exists s'. split; [exact E|]. split; [|split; assumption].
    destruct (add_spec (p_tracker (d_p s)) (p_last_end (d_p s)) off NI Hgap) as [AI AD].
    { intros x Hx Hd. apply NB in Hd. lia. }
    constructor.
    + rewrite Ht. exact AI.
    + intros x. rewrite Ht, AD, Hls. intros [Hd | Hx]; [apply NB in Hd; lia | lia].
    + rewrite Hls, Hle. lia.
    + rewrite Hle, extent_app. cbn [fst snd]. lia.
    + intros x. rewrite Hle, Ht, AD, covered_app. cbn [fst snd]. intros Hx Hc.
      destruct (Z_lt_dec x (p_last_end (d_p s))) as [Hlt | Hge].
      * left. apply NK; [lia|]. intros Hc'. apply Hc. left. exact Hc'.
      * right. split; [lia|]. destruct (Z_lt_dec x off) as [?|Hxo]; [assumption|]. exfalso. apply Hc. right. lia.
    + rewrite Hr. exact NR.
  - destruct (Z.eq_dec off (p_last_end (d_p s))) as [Heq | Hne].
    + (* at the frontier *)
      destruct (st_in_order s off len Heq Hlen) as [s' [E [Ht [Hls [Hle [Hr [Hfs Hlog]]]]]]].
      exists s'. split; [exact E|]. split; [|split; assumption].
      constructor.
      * rewrite Ht. exact NI.
      * intros x. rewrite Ht, Hls. intros Hd. apply NB in Hd. lia.
      * rewrite Hls, Hle. lia.
      * rewrite Hle, extent_app. cbn [fst snd]. lia.
      * intros x. rewrite Hle, Ht, covered_app. cbn [fst snd]. intros Hx Hc.
        apply NK; [|intros Hc'; apply Hc; left; exact Hc'].
        destruct (Z_lt_dec x off) as [?|Hxo]; [lia|]. exfalso. apply Hc. right. lia.
      * rewrite Hr. exact NR.
    + assert (Hlt : off < p_last_end (d_p s)) by lia.
      destruct (Z_le_dec (off + len) (p_last_start (d_p s))) as [Hold | Hfront].
      * (* below the frontier segment: the received bytes leave the tracker, whatever ranges they overlap *)
        destruct (st_below s off len Hlen NI Hold Hlt) as [s' [E [I' [D' [Hls [Hle [Hr [Hfs Hlog]]]]]]]].
        exists s'. split; [exact E|]. split; [|split; assumption].
        constructor.
        -- exact I'.
        -- intros x Hd. rewrite Hls. apply D' in Hd. apply NB. apply Hd.
        -- rewrite Hls, Hle. exact NFr.
        -- rewrite Hle, extent_app. cbn [fst snd]. lia.
        -- intros x. rewrite Hle, covered_app. cbn [fst snd]. intros Hx Hc. apply D'. split.
           ++ apply NK; [exact Hx|]. intros Hc'. apply Hc. left. exact Hc'.
           ++ intros Hx'. apply Hc. right. exact Hx'.
        -- rewrite Hr. exact NR.
      * (* overlaps the frontier segment: nothing changes *)
        exists s. split; [apply st_frontier_again; lia|]. split; [|split; reflexivity].
        constructor.
        -- exact NI.
        -- exact NB.
        -- exact NFr.
        -- rewrite extent_app. cbn [fst snd]. lia.
        -- intros x Hx Hc. apply NK; [exact Hx|]. intros Hc'. apply Hc. apply covered_app. left. exact Hc'.
        -- exact NR.
Qed.

Lemma nf_run : forall rest pre s,
  NF pre s -> Forall (fun fd => 0 <= fst fd /\ 0 < snd fd) rest ->
  exists s', handle_all rest s = (s', Ok tt) /\ NF (pre ++ rest) s' /\ fs_d s' = fs_d s /\ log_d s' = log_d s.
Proof.
  intros rest. induction rest as [|fd t IH]; intros pre s G HF.
  - exists s. rewrite app_nil_r. split; [reflexivity|]. split; [exact G|]. split; reflexivity.
  - inversion HF as [|? ? [Hfd1 Hfd2] Ht]; subst.
    destruct (nf_step pre s fd G Hfd1 Hfd2) as [s1 [E1 [G1 [F1 L1]]]].
    destruct (IH (pre ++ [fd]) s1 G1 Ht) as [s' [E' [G' [F' L']]]].
    exists s'. cbn [handle_all]. rewrite (bind_ok _ _ _ _ _ _ _ E1).
    rewrite <- app_assoc in G'. cbn [app] in G'.
    split; [exact E'|]. split; [exact G'|]. split; congruence.
Qed.

(* ------------------------------------------------------------------ the second theorem of props/C06b.v *)
Lemma tracker_never_forgets : forall (hist : list (Z * Z)) (s : dst),
  Forall (fun fd => 0 <= fst fd /\ 0 < snd fd) hist ->
  p_tracker (d_p s) = [] -> p_last_start (d_p s) = 0 -> p_last_end (d_p s) = 0 -> p_rcfg (d_p s) <> None ->
  exists s', handle_all hist s = (s', Ok tt) /\
    Inv (p_tracker (d_p s')) /\
    (forall x, den (p_tracker (d_p s')) x -> 0 <= x < p_last_end (d_p s')) /\
    p_last_end (d_p s') <= extent hist /\
    (forall x, 0 <= x < p_last_end (d_p s') -> ~ covered hist x -> den (p_tracker (d_p s')) x) /\
    fs_d s' = fs_d s /\ log_d s' = log_d s.
Proof.
  intros hist s HF Ht Hls Hle Hr.
  destruct (nf_run hist [] s (nf_init s Ht Hls Hle Hr) HF) as [s' [E [G [F L]]]].
  cbn [app] in G. destruct G as [NI NB NFr NL NK _].
  exists s'. split; [exact E|]. split; [exact NI|]. split; [|split; [exact NL|split; [exact NK|split; assumption]]].
  intros x Hd. apply NB in Hd. lia.
Qed.

(* non-vacuity: overlapping segments, one covering two tracked ranges and straddling range ends *)
Example nasty_hist : Forall (fun fd => 0 <= fst fd /\ 0 < snd fd) [(10, 2); (2, 2); (6, 2); (1, 8); (4, 4); (0, 2); (1, 5); (0, 8)].
Proof. repeat constructor; cbn [fst snd]; lia. Qed.
