(* TransparentProofs.v — proofs for props/C08b.v: answering a NAK is transparent for the rest of the transfer.

   1. Non-interference: the remembered resume step (s_step_before) is read in exactly one place, the branch of
      _fsm_advancement_after_packets_were_sent for step RETRANSMITTING, and written only when a NAK is answered.  Hence
      for EVERY state whose step is not RETRANSMITTING, a state_machine(None) call commutes with overwriting that field,
      and it does not enter step RETRANSMITTING (predicate [NI], closed under the monad operations; proved function by
      function for the whole sender FSM, including timers, fault declaration, cancellation and completion).
   2. The call that answers a NAK in the middle of the File Data stream emits the requested tiles only, remembers the
      step and sets RETRANSMITTING; the next call restores the step and then runs exactly like a call on the state
      that never saw the NAK: the two runs are aligned call by call, for every number of further calls.
   3. The same at the end of the file (progress = file size): the call that answers the NAK first emits the EOF PDU
      (the step has advanced to SENDING_EOF before the packet is looked at), then the requested tiles; from then on
      the run equals the run after the plain EOF call.
   4. Counterexamples that made the hypotheses "File Data remains" and "acknowledged mode" necessary. *)
From CFDP Require Import Base Fs Crc Checksum Handler Dest Source HandlerSpec SourceSpec.
From CFDP.proofs Require Import StreamProofs RetransmitProofs.
From RecordUpdate Require Import RecordSet.
Import RecordSetNotations.

Local Arguments Z.add : simpl never. Local Arguments Z.sub : simpl never. Local Arguments Z.mul : simpl never.
Local Arguments Z.pow : simpl never. Local Arguments Z.div : simpl never. Local Arguments Z.min : simpl never.
Local Arguments Z.max : simpl never. Local Arguments Z.to_nat : simpl never.
Local Arguments Z.ltb !x !y : simpl nomatch. Local Arguments Z.leb !x !y : simpl nomatch.
Local Arguments Z.eqb !x !y : simpl nomatch. Local Arguments Z.of_nat !n : simpl nomatch.
Local Opaque calculate_checksum.

(* ------------------------------------------------------------------ non-interference of s_step_before *)
Definition sb (x : option Z) (s : src) : src := s <| s_step_before := x |>.
Definition ok5 (s : src) : Prop := s_step s <> SS_RETRANSMITTING.

Definition NI {A} (m : SM A) : Prop :=
  forall s x, ok5 s -> m (sb x s) = (sb x (fst (m s)), snd (m s)) /\ ok5 (fst (m s)).

Lemma NI_ret : forall A (a : A), NI (ret a).
Proof. intros A a s x H. split; [reflexivity | exact H]. Qed.
Lemma NI_raise : forall A e, NI (@raise src A e).
Proof. intros A e s x H. split; [reflexivity | exact H]. Qed.
Lemma NI_bind : forall A B (m : SM A) (f : A -> SM B), NI m -> (forall a, NI (f a)) -> NI (bind m f).
Proof.
  intros A B m f Hm Hf s x H. unfold bind. destruct (Hm s x H) as [E1 E2]. rewrite E1.
  destruct (m s) as [s' [a|e]]; cbn [fst snd] in *; [apply Hf; exact E2 | split; [reflexivity | exact E2]].
Qed.
Lemma NI_gets : forall A (f : src -> A), (forall s x, f (sb x s) = f s) -> NI (gets f).
Proof. intros A f Hf s x H. unfold gets. rewrite Hf. split; [reflexivity | exact H]. Qed.
Lemma NI_modify : forall (f : src -> src), (forall s x, f (sb x s) = sb x (f s)) -> (forall s, ok5 s -> ok5 (f s)) ->
  NI (modify f).
Proof. intros f H1 H2 s x H. unfold modify. rewrite H1. split; [reflexivity | apply H2; exact H]. Qed.
(* the state read by [get] may be used in any way that does not look at the remembered step *)
Lemma NI_get : forall A (f : src -> SM A), (forall s0 x s, f (sb x s0) s = f s0 s) -> (forall s0, NI (f s0)) ->
  NI (bind get f).
Proof. intros A f H1 H2 s x H. unfold bind, get. rewrite H1. apply H2. exact H. Qed.

Ltac ok5_tac :=
  intros; unfold ok5, sb in *; unfold set; cbn;
  first [ assumption | let E := fresh in intro E; cbv in E; discriminate E ].

Ltac ni1 :=
  lazymatch goal with
  | |- NI (bind get _) => apply NI_get; [intros; reflexivity | intro]
  | |- NI (bind _ _) => apply NI_bind; [|intro]
  | |- NI (ret _) => apply NI_ret
  | |- NI (raise _) => apply NI_raise
  | |- NI (gets _) => apply NI_gets; intros; reflexivity
  | |- NI (modify _) => apply NI_modify; [intros; reflexivity | ok5_tac]
  | |- NI (match ?o with _ => _ end) => destruct o
  | |- NI (let _ := _ in _) => cbv zeta
  | |- NI (fun _ => _) => fail "eta"
  end.

Ltac unf :=
  unfold when, gq, setq, sset_step, semit, snow, stid_or_assert, srcfg_or_assert, put_or_assert, stmode, smode_is,
    sadd_packet, sstep_is, src_names, sreset_internal.
Ltac ni := unf; repeat (ni1; unf).

Lemma NI_checksum_calculation : forall sz, NI (checksum_calculation sz).
Proof. intros. unfold checksum_calculation. ni. Qed.

Lemma NI_smode_is : forall m, NI (smode_is m).
Proof. intros. ni. Qed.
Lemma NI_prepare_file_data_pdu : forall o l, NI (prepare_file_data_pdu o l).
Proof. intros. unfold prepare_file_data_pdu. ni. Qed.
Lemma NI_prepare_metadata_pdu : NI prepare_metadata_pdu.
Proof. unfold prepare_metadata_pdu. ni. Qed.
Lemma NI_prepare_eof_pdu : forall ck, NI (prepare_eof_pdu ck).
Proof. intros. unfold prepare_eof_pdu. ni. Qed.
Lemma NI_notice_of_completion_s : NI notice_of_completion_s.
Proof. unfold notice_of_completion_s. ni. Qed.
(* the cancelled unacknowledged transaction ends through _notice_of_completion *)
Lemma NI_handle_eof_sent : forall b, NI (handle_eof_sent b).
Proof.
  intros. unfold handle_eof_sent, start_positive_ack_procedure_s.
  repeat first [ apply NI_notice_of_completion_s | ni1 | progress unf ].
Qed.
Lemma NI_notice_of_cancellation_s : forall c, NI (notice_of_cancellation_s c).
Proof.
  intros. unfold notice_of_cancellation_s.
  repeat first [ apply NI_checksum_calculation | apply NI_prepare_eof_pdu | apply NI_handle_eof_sent | ni1 | progress unf ].
Qed.
Lemma NI_declare_fault_s : forall c, NI (declare_fault_s c).
Proof.
  intros. unfold declare_fault_s.
  repeat first [ apply NI_notice_of_cancellation_s | ni1 | progress unf ].
Qed.

Ltac nik :=
  first [ apply NI_checksum_calculation | apply NI_prepare_eof_pdu | apply NI_handle_eof_sent | apply NI_smode_is
        | apply NI_prepare_file_data_pdu | apply NI_prepare_metadata_pdu | apply NI_notice_of_cancellation_s
        | apply NI_declare_fault_s ].
Ltac nia := repeat first [ nik | ni1 | progress unf ].

Lemma NI_get_put : forall A (g : src -> src) (f : src -> SM A),
  (forall s x, g (sb x s) = sb x (g s)) -> (forall s, ok5 s -> ok5 (g s)) ->
  (forall s0 x s, f (sb x s0) s = f s0 s) -> (forall s0, NI (f s0)) ->
  NI (bind get (fun s => bind (put (g s)) (fun _ => f s))).
Proof.
  intros A g f H1 H2 H3 H4 s x H. unfold bind at 1 2 4 5. unfold get, put. rewrite H1, H3. apply H4, H2, H.
Qed.

Lemma NI_transaction_start : NI transaction_start.
Proof.
  unfold transaction_start.
  apply NI_bind; [nia | intro p].
  apply NI_bind; [nia | intros _].
  apply NI_bind; [nia | intro r].
  apply NI_bind; [nia | intro l].
  apply NI_bind; [nia | intro fsz].
  apply NI_bind; [nia | intro mdo].
  apply NI_bind; [nia | intros _].
  apply NI_bind; [nia | intros _].
  (* the sequence number provider reads and rewrites the whole state *)
  cbv zeta. apply NI_get_put; [intros; reflexivity | ok5_tac | intros; reflexivity | intro s0; nia].
Qed.

(* the only reader of the remembered step: resuming from step RETRANSMITTING *)
Lemma NI_get' : forall A (f : src -> SM A),
  (forall s x, ok5 s -> f (sb x s) (sb x s) = (sb x (fst (f s s)), snd (f s s)) /\ ok5 (fst (f s s))) -> NI (bind get f).
Proof. intros A f Hf s x H. exact (Hf s x H). Qed.

Ltac by_ni s x H :=
  match goal with |- ?m (sb x s) = _ /\ _ => let Hm := fresh in assert (Hm : NI m) by nia; exact (Hm s x H) end.

Lemma NI_fsm_advancement_s : NI fsm_advancement_s.
Proof.
  unfold fsm_advancement_s. apply NI_get'. intros s x H. cbv beta zeta.
  change (s_queue (sb x s)) with (s_queue s). change (s_step (sb x s)) with (s_step s).
  change (s_p (sb x s)) with (s_p s).
  destruct (0 <? zlen (s_queue s)); [by_ni s x H|].
  destruct (s_step s =? SS_SENDING_METADATA); [by_ni s x H|].
  destruct (s_step s =? SS_RETRANSMITTING) eqn:E; [apply Z.eqb_eq in E; contradiction|].
  destruct (s_step s =? SS_SENDING_FILE_DATA); [by_ni s x H|].
  destruct (s_step s =? SS_SENDING_ACK_OF_FINISHED); by_ni s x H.
Qed.

Lemma NI_prepare_progressing : NI prepare_progressing_file_data_pdu.
Proof. unfold prepare_progressing_file_data_pdu. nia. Qed.
Lemma NI_sending_file_data_fsm : NI (sending_file_data_fsm None).
Proof. unfold sending_file_data_fsm, handle_retransmission. repeat first [apply NI_prepare_progressing | nik | ni1 | progress unf]. Qed.
Lemma NI_handle_positive_ack_procedures_s : NI handle_positive_ack_procedures_s.
Proof. unfold handle_positive_ack_procedures_s. nia. Qed.
Lemma NI_handle_waiting_for_ack : NI (handle_waiting_for_ack None).
Proof. unfold handle_waiting_for_ack, handle_retransmission. repeat first [apply NI_handle_positive_ack_procedures_s | nik | ni1 | progress unf]. Qed.
Lemma NI_handle_wait_for_finish : NI (handle_wait_for_finish None).
Proof. unfold handle_wait_for_finish, handle_retransmission. nia. Qed.

Lemma NI_fsm_non_idle : NI (fsm_non_idle None).
Proof.
  unfold fsm_non_idle.
  repeat first [ apply NI_fsm_advancement_s | apply NI_transaction_start | apply NI_sending_file_data_fsm
               | apply NI_handle_waiting_for_ack | apply NI_handle_wait_for_finish | apply NI_notice_of_completion_s
               | nik | ni1 | progress unf ].
Qed.

Lemma NI_state_machine_s : NI (state_machine_s None).
Proof. unfold state_machine_s. repeat first [ apply NI_fsm_non_idle | ni1 ]. Qed.

(* ------------------------------------------------------------------ calls without inbound PDU *)
Lemma sb_eta : forall s, sb (s_step_before s) s = s.
Proof. intros s. destruct s. reflexivity. Qed.
Lemma sb_sb : forall x y s, sb y (sb x s) = sb y s.
Proof. intros. reflexivity. Qed.

Lemma pump_NI : forall s x, ok5 s -> pump (sb x s) = (sb x (fst (pump s)), snd (pump s)) /\ ok5 (fst (pump s)).
Proof.
  intros s x H. unfold pump, pump_with. destruct (NI_state_machine_s s x H) as [E1 E2]. rewrite E1.
  destruct (state_machine_s None s) as [s' [u|e]]; cbn [fst snd] in *; split; try reflexivity; exact E2.
Qed.

Lemma pumps_NI : forall n s x, ok5 s ->
  pumps n (sb x s) = (sb x (fst (pumps n s)), snd (pumps n s)) /\ ok5 (fst (pumps n s)).
Proof.
  induction n as [|n IH]; intros s x H; [split; [reflexivity | exact H]|].
  rewrite !pumps_S. destruct (pump_NI s x H) as [E1 E2]. rewrite E1.
  destruct (pump s) as [s' [ps|e]]; cbn [fst snd] in *; [|split; [reflexivity | exact E2]].
  destruct (IH s' x E2) as [F1 F2]. rewrite F1.
  destruct (pumps n s') as [s'' [rest|e]]; cbn [fst snd] in *; split; try reflexivity; exact F2.
Qed.

(* no call without inbound PDU ever writes the remembered step *)
Lemma pumps_keep : forall n s, ok5 s -> s_step_before (fst (pumps n s)) = s_step_before s.
Proof.
  intros n s H. destruct (pumps_NI n s (s_step_before s) H) as [E _]. rewrite sb_eta in E.
  apply (f_equal fst) in E. cbn [fst] in E. rewrite E at 1. reflexivity.
Qed.

(* ------------------------------------------------------------------ the call that answers the NAK *)
Lemma check_state : forall p s, fst (check_inserted_packet_s p s) = s.
Proof.
  intros p s. unfold check_inserted_packet_s, bind, get, raise, ret.
  repeat match goal with |- fst ((match ?o with _ => _ end) _) = _ => destruct o end; reflexivity.
Qed.

Definition mid (s : src) : Prop :=
  s_state s = ST_BUSY /\ s_step s = SS_SENDING_FILE_DATA /\ s_queue s = [] /\
  q_file_size (s_p s) <> Some (q_progress (s_p s)).

Lemma adv_mid : forall s, mid s -> fsm_advancement_s s = (s, Ok tt).
Proof.
  intros s (_ & Hs & Hq & He). unfold fsm_advancement_s, bind, get. rewrite Hq, Hs. cbn.
  destruct (q_file_size (s_p s)) as [sz|]; [|reflexivity].
  destruct (q_progress (s_p s) =? sz) eqn:E; [|reflexivity].
  apply Z.eqb_eq in E. subst sz. contradiction.
Qed.

Lemma sstep_is_eq : forall v s, sstep_is v s = (s, Ok (s_step s =? v)).
Proof. reflexivity. Qed.
Lemma smode_acked : forall s, s_state s = ST_BUSY -> sc_mode (q_conf (s_p s)) = ACKED -> smode_is ACKED s = (s, Ok true).
Proof. intros s H1 H2. unfold smode_is, stmode, bind, get, ret. rewrite H1, H2. reflexivity. Qed.

Lemma fni_nak : forall s p sn dn d h sos eos reqs,
  mid s -> sc_mode (q_conf (s_p s)) = ACKED ->
  s_put s = Some p -> pr_names p = Some (sn, dn) -> lookup (fs_s s) sn = Some (File d) -> sn <> [] ->
  q_progress (s_p s) <= zlen d -> 1 <= q_segment_len (s_p s) ->
  Forall (fun rq => 0 <= fst rq /\ fst rq <= snd rq /\ snd rq <= q_progress (s_p s) /\ ~ (fst rq = 0 /\ snd rq = 0)) reqs ->
  fsm_non_idle (Some (PNak h sos eos reqs)) s =
    ((enqueue (flat_map (fun rq => map (fd_of (hdr_of (q_conf (s_p s)) TOWARDS_RECEIVER))
                                      (range_tiles d (fst rq) (snd rq) (q_segment_len (s_p s)))) reqs) s)
       <| s_step_before := Some SS_SENDING_FILE_DATA |> <| s_step := SS_RETRANSMITTING |>, Ok tt).
Proof.
  intros s p sn dn d h sos eos reqs Hmid Hm Hp Hn Hl Hsn Hpr Hseg HF.
  pose proof Hmid as (Hst & Hs & Hq & He).
  unfold fsm_non_idle. unfold bind at 1. rewrite (adv_mid s Hmid).
  unfold bind at 1. unfold gets at 1. rewrite Hp.
  unfold bind at 1. rewrite sstep_is_eq, Hs. change (SS_SENDING_FILE_DATA =? SS_IDLE) with false. cbv iota.
  unfold bind at 1. unfold when at 1. unfold ret at 1.
  unfold bind at 1. rewrite sstep_is_eq, Hs. change (SS_SENDING_FILE_DATA =? SS_TRANSACTION_START) with false. cbv iota.
  unfold bind at 1. unfold when at 1. unfold ret at 1.
  unfold bind at 1. rewrite sstep_is_eq, Hs. change (SS_SENDING_FILE_DATA =? SS_SENDING_METADATA) with false. cbv iota.
  unfold bind at 1. rewrite sstep_is_eq, Hs. change (SS_SENDING_FILE_DATA =? SS_SENDING_FILE_DATA) with true. cbv iota.
  unfold bind at 1. unfold sending_file_data_fsm.
  unfold bind at 1. rewrite (smode_acked s Hst Hm).
  unfold bind at 1. rewrite (retransmission s p sn dn d h sos eos reqs Hp Hn Hl Hsn Hpr Hseg HF).
  rewrite Hs. reflexivity.
Qed.

Definition valid_reqs (s : src) (reqs : list (Z * Z)) : Prop :=
  Forall (fun rq => 0 <= fst rq /\ fst rq <= snd rq /\ snd rq <= q_progress (s_p s) /\ ~ (fst rq = 0 /\ snd rq = 0)) reqs.

Lemma drain_enqueue : forall s ans x y, s_queue s = [] ->
  drain_s ((enqueue ans s) <| s_step_before := x |> <| s_step := y |>) = (s <| s_step_before := x |> <| s_step := y |>, ans).
Proof.
  intros s ans x y Hq. destruct s as [cfg st step ready queue q sbf pt sc sbits en]. cbn [s_queue] in Hq. subst queue.
  cbv beta iota delta [drain_s enqueue set s_cfg s_state s_step s_ready s_queue s_p s_step_before s_put s_seq_count
                       s_seq_bits s_env app].
  replace (ready + zlen ans - zlen ans) with ready by lia. reflexivity.
Qed.

Lemma nak_call : forall s p sn dn d h sos eos reqs,
  mid s -> sc_mode (q_conf (s_p s)) = ACKED ->
  s_put s = Some p -> pr_names p = Some (sn, dn) -> lookup (fs_s s) sn = Some (File d) -> sn <> [] ->
  q_progress (s_p s) <= zlen d -> 1 <= q_segment_len (s_p s) ->
  valid_reqs s reqs ->
  snd (check_inserted_packet_s (PNak h sos eos reqs) s) = Ok tt ->
  pump_with (Some (PNak h sos eos reqs)) s =
    (s <| s_step_before := Some SS_SENDING_FILE_DATA |> <| s_step := SS_RETRANSMITTING |>,
     Ok (flat_map (fun rq => map (fd_of (hdr_of (q_conf (s_p s)) TOWARDS_RECEIVER))
                                 (range_tiles d (fst rq) (snd rq) (q_segment_len (s_p s)))) reqs)).
Proof.
  intros s p sn dn d h sos eos reqs Hmid Hm Hp Hn Hl Hsn Hpr Hseg HF Hadm.
  pose proof Hmid as (Hst & Hs & Hq & He).
  unfold pump_with, state_machine_s. unfold bind at 1.
  pose proof (check_state (PNak h sos eos reqs) s) as C1.
  destruct (check_inserted_packet_s (PNak h sos eos reqs) s) as [s0 r0]. cbn [fst snd] in C1, Hadm. subst s0 r0.
  unfold bind at 1. unfold get. cbv beta iota. rewrite Hst. change (ST_BUSY =? ST_IDLE) with false. cbv iota.
  rewrite (fni_nak s p sn dn d h sos eos reqs Hmid Hm Hp Hn Hl Hsn Hpr Hseg HF).
  rewrite (drain_enqueue s _ _ _ Hq). reflexivity.
Qed.

Lemma sm_busy : forall s, s_state s = ST_BUSY -> state_machine_s None s = fsm_non_idle None s.
Proof. intros s H. unfold state_machine_s, bind, ret, get. rewrite H. reflexivity. Qed.

Lemma fni_same_adv : forall pkt a b c, fsm_advancement_s a = (c, Ok tt) -> fsm_advancement_s b = (c, Ok tt) ->
  fsm_non_idle pkt a = fsm_non_idle pkt b.
Proof. intros pkt a b c H1 H2. unfold fsm_non_idle. unfold bind at 1. rewrite H1. symmetry. unfold bind at 1. rewrite H2. reflexivity. Qed.

(* the calls after it: the first one restores the step and then goes on like a call on the state that never saw the
   NAK; by non-interference so do all later ones.  [t]: the handler between two calls, in a step [b] in which
   _fsm_advancement_after_packets_were_sent has nothing to do *)
Lemma resume_transparent : forall t b n,
  s_state t = ST_BUSY -> s_queue t = [] -> s_step t = b -> b <> SS_RETRANSMITTING ->
  fsm_advancement_s t = (t, Ok tt) ->
  let t1 := t <| s_step_before := Some b |> <| s_step := SS_RETRANSMITTING |> in
  snd (pumps n t1) = snd (pumps n t) /\
  (fst (pumps (S n) t1)) <| s_step_before := s_step_before t |> = fst (pumps (S n) t).
Proof.
  intros t b n Hst Hq Hs Hb Hadv t1.
  assert (H5 : ok5 t) by (unfold ok5; rewrite Hs; exact Hb).
  assert (A1 : fsm_advancement_s t1 = (sb (Some b) t, Ok tt)).
  { rewrite (resume t1 b); [|exact Hq|reflexivity|reflexivity].
    unfold t1, sb. destruct t. cbn in Hs. subst. reflexivity. }
  assert (A2 : fsm_advancement_s (sb (Some b) t) = (sb (Some b) t, Ok tt)).
  { destruct (NI_fsm_advancement_s t (Some b) H5) as [E _]. rewrite E, Hadv. reflexivity. }
  assert (P1 : pump t1 = pump (sb (Some b) t)).
  { unfold pump, pump_with. rewrite !sm_busy by exact Hst. rewrite (fni_same_adv None _ _ _ A1 A2). reflexivity. }
  assert (HS : forall k, pumps (S k) t1 = pumps (S k) (sb (Some b) t)).
  { intro k. rewrite !pumps_S, P1. reflexivity. }
  split.
  - destruct n as [|k]; [reflexivity|]. rewrite HS.
    destruct (pumps_NI (S k) t (Some b) H5) as [E _]. rewrite E. reflexivity.
  - rewrite HS. destruct (pumps_NI (S n) t (Some b) H5) as [E _]. rewrite E. cbn [fst].
    fold (sb (s_step_before t) (sb (Some b) (fst (pumps (S n) t)))).
    rewrite sb_sb. rewrite <- (pumps_keep (S n) t H5). apply sb_eta.
Qed.

(* ------------------------------------------------------------------ C08b: the NAK in the middle of the stream *)
Lemma nak_transparent : forall (s : src) (p : putreq) (sn dn : path) (d : bytes) (h : hdr) (sos eos : Z)
                               (reqs : list (Z * Z)) (n : nat),
  s_state s = ST_BUSY -> s_step s = SS_SENDING_FILE_DATA -> s_queue s = [] ->
  sc_mode (q_conf (s_p s)) = ACKED ->
  q_file_size (s_p s) <> Some (q_progress (s_p s)) ->
  s_put s = Some p -> pr_names p = Some (sn, dn) -> lookup (fs_s s) sn = Some (File d) -> sn <> [] ->
  q_progress (s_p s) <= zlen d -> 1 <= q_segment_len (s_p s) ->
  Forall (fun rq => 0 <= fst rq /\ fst rq <= snd rq /\ snd rq <= q_progress (s_p s) /\ ~ (fst rq = 0 /\ snd rq = 0)) reqs ->
  snd (check_inserted_packet_s (PNak h sos eos reqs) s) = Ok tt ->
  let answer := flat_map (fun rq => map (fd_of (hdr_of (q_conf (s_p s)) TOWARDS_RECEIVER))
                                        (range_tiles d (fst rq) (snd rq) (q_segment_len (s_p s)))) reqs in
  let s1 := s <| s_step_before := Some SS_SENDING_FILE_DATA |> <| s_step := SS_RETRANSMITTING |> in
  pump_with (Some (PNak h sos eos reqs)) s = (s1, Ok answer) /\
  snd (pumps n s1) = snd (pumps n s) /\
  (fst (pumps (S n) s1)) <| s_step_before := s_step_before s |> = fst (pumps (S n) s).
Proof.
  intros s p sn dn d h sos eos reqs n Hst Hs Hq Hm He Hp Hn Hl Hsn Hpr Hseg HF Hadm answer s1.
  assert (Hmid : mid s) by (repeat split; assumption).
  split; [exact (nak_call s p sn dn d h sos eos reqs Hmid Hm Hp Hn Hl Hsn Hpr Hseg HF Hadm)|].
  apply (resume_transparent s SS_SENDING_FILE_DATA n Hst Hq Hs); [discriminate | exact (adv_mid s Hmid)].
Qed.

(* in a handler whose mode is one of the two defined ones, admission of a NAK already means acknowledged mode *)
Lemma accepted_nak_acked : forall s h sos eos reqs,
  sc_mode (q_conf (s_p s)) = ACKED \/ sc_mode (q_conf (s_p s)) = UNACKED ->
  snd (check_inserted_packet_s (PNak h sos eos reqs) s) = Ok tt -> sc_mode (q_conf (s_p s)) = ACKED.
Proof.
  intros s h sos eos reqs [Hm|Hm] Hadm; [exact Hm|]. exfalso.
  unfold check_inserted_packet_s, bind, get, raise, ret in Hadm. cbn [directive pdu_hdr] in Hadm. rewrite Hm in Hadm.
  change ((UNACKED =? UNACKED) && ((D_NAK =? D_KEEP_ALIVE) || (D_NAK =? D_NAK))) with true in Hadm.
  repeat match type of Hadm with context[match ?o with _ => _ end] => destruct o; try discriminate Hadm end.
Qed.

(* ------------------------------------------------------------------ the NAK that arrives at the end of the file *)
Local Arguments lookup : simpl never.
Local Opaque handle_retransmission checksum_calculation.

Ltac retx :=
  match goal with
  | Hn : pr_names ?p = Some (?sn, ?dn), Hl : lookup _ ?sn = Some (File ?d), Hsn : ?sn <> [], HF : Forall _ ?reqs
    |- context[handle_retransmission (Some (PNak ?h ?sos ?eos ?reqs)) ?st] =>
    rewrite (retransmission st p sn dn d h sos eos reqs);
    [ | reflexivity | exact Hn | exact Hl | exact Hsn | cbn; lia | cbn; assumption | exact HF ]
  end.
Ltac unf_final :=
  unfold fsm_non_idle, fsm_advancement_s, sending_file_data_fsm,
    prepare_eof_pdu, handle_eof_sent, start_positive_ack_procedure_s, handle_waiting_for_ack,
    handle_positive_ack_procedures_s, handle_wait_for_finish, notice_of_completion_s, sreset_internal.

Lemma eof_calls : forall (s : src) (p : putreq) (r : rcfg) (tid : Z * Z) (sn dn : path) (d cks : bytes) (h : hdr) (sos eos : Z)
                         (reqs : list (Z * Z)),
  s_state s = ST_BUSY -> s_step s = SS_SENDING_FILE_DATA -> s_queue s = [] ->
  sc_mode (q_conf (s_p s)) = ACKED ->
  q_file_size (s_p s) = Some (zlen d) -> q_progress (s_p s) = zlen d ->
  q_md_only (s_p s) = false -> q_rcfg (s_p s) = Some r -> q_tid (s_p s) = Some tid -> 0 < r_ack_ms r ->
  calculate_checksum (r_cktype r) (Some d) (zlen d) (q_segment_len (s_p s)) = Ok cks ->
  s_put s = Some p -> pr_names p = Some (sn, dn) -> lookup (fs_s s) sn = Some (File d) -> sn <> [] ->
  1 <= q_segment_len (s_p s) ->
  Forall (fun rq => 0 <= fst rq /\ fst rq <= snd rq /\ snd rq <= zlen d /\ ~ (fst rq = 0 /\ snd rq = 0)) reqs ->
  snd (check_inserted_packet_s (PNak h sos eos reqs) s) = Ok tt ->
  let eof := PEof (hdr_of (q_conf (s_p s)) TOWARDS_RECEIVER) C_NO_ERROR cks (zlen d) None in
  let answer := flat_map (fun rq => map (fd_of (hdr_of (q_conf (s_p s)) TOWARDS_RECEIVER))
                                        (range_tiles d (fst rq) (snd rq) (q_segment_len (s_p s)))) reqs in
  exists s', pump s = (s', Ok [eof]) /\
    s_state s' = ST_BUSY /\ s_step s' = SS_WAITING_FOR_EOF_ACK /\ s_queue s' = [] /\ s_step_before s' = s_step_before s /\
    pump_with (Some (PNak h sos eos reqs)) s =
      (s' <| s_step_before := Some SS_WAITING_FOR_EOF_ACK |> <| s_step := SS_RETRANSMITTING |>, Ok (eof :: answer)).
Proof.
  intros s p r tid sn dn d cks h sos eos reqs Hst Hs Hq Hm Hfs Hpr Hmd Hr Htid Hack Hck Hp Hn Hl Hsn Hseg HF Hadm eof answer.
  unfold pump_with. unfold state_machine_s. unfold bind at 1.
  pose proof (check_state (PNak h sos eos reqs) s) as C1.
  destruct (check_inserted_packet_s (PNak h sos eos reqs) s) as [s0 r0]. cbn [fst snd] in C1, Hadm. subst s0 r0.
  subst eof answer.
  destruct s as [cfg st step ready queue q sbf pt sc sbits [nw fs' rw lg]].
  destruct q as [qtid qct qat qac qce qpr qseg qfs qef qmd qfin qrc qcl qcf]. unfold fs_s in Hl. cbn in Hst, Hs, Hq, Hm, Hfs, Hpr, Hmd, Hr, Htid, Hck, Hp, Hl, Hseg, HF. subst.
  cbn [s_p q_conf q_segment_len].
  assert (E1 : (zlen d <? zlen d) = false) by (apply Z.ltb_irrefl).
  assert (E5 : (r_ack_ms r <=? 0) = false) by (apply Z.leb_gt; auto).
  unfold pump, pump_with, state_machine_s.
  destruct (l_ind_eof_sent cfg) eqn:Ee;
    repeat (progress (sx; rewrite ?Hn, ?Hl, ?Hm, ?Ee, ?zsub_diag, ?zeqb_refl, ?E1, ?E5;
                      rewrite ?(cc_ok p r fs' d cks qseg sn dn Hn Hl Hck) by reflexivity;
                      try rewrite not_nak by exact I; try retx; unf_final));
    (eexists; split; [reflexivity|]); cbn; repeat split;
    f_equal; f_equal; rewrite Zpos_P_of_succ_nat; unfold zlen; lia.
Qed.

Lemma adv_wait : forall s, s_queue s = [] -> s_step s = SS_WAITING_FOR_EOF_ACK -> fsm_advancement_s s = (s, Ok tt).
Proof. intros s Hq Hs. unfold fsm_advancement_s, bind, get. rewrite Hq, Hs. reflexivity. Qed.

Lemma nak_at_eof : forall (s : src) (p : putreq) (r : rcfg) (tid : Z * Z) (sn dn : path) (d cks : bytes) (h : hdr)
                          (sos eos : Z) (reqs : list (Z * Z)) (n : nat),
  s_state s = ST_BUSY -> s_step s = SS_SENDING_FILE_DATA -> s_queue s = [] ->
  sc_mode (q_conf (s_p s)) = ACKED ->
  q_file_size (s_p s) = Some (zlen d) -> q_progress (s_p s) = zlen d ->
  q_md_only (s_p s) = false -> q_rcfg (s_p s) = Some r -> q_tid (s_p s) = Some tid -> 0 < r_ack_ms r ->
  calculate_checksum (r_cktype r) (Some d) (zlen d) (q_segment_len (s_p s)) = Ok cks ->
  s_put s = Some p -> pr_names p = Some (sn, dn) -> lookup (fs_s s) sn = Some (File d) -> sn <> [] ->
  1 <= q_segment_len (s_p s) ->
  Forall (fun rq => 0 <= fst rq /\ fst rq <= snd rq /\ snd rq <= zlen d /\ ~ (fst rq = 0 /\ snd rq = 0)) reqs ->
  snd (check_inserted_packet_s (PNak h sos eos reqs) s) = Ok tt ->
  let eof := PEof (hdr_of (q_conf (s_p s)) TOWARDS_RECEIVER) C_NO_ERROR cks (zlen d) None in
  let answer := flat_map (fun rq => map (fd_of (hdr_of (q_conf (s_p s)) TOWARDS_RECEIVER))
                                        (range_tiles d (fst rq) (snd rq) (q_segment_len (s_p s)))) reqs in
  exists s', pump s = (s', Ok [eof]) /\
    let s1 := s' <| s_step_before := Some SS_WAITING_FOR_EOF_ACK |> <| s_step := SS_RETRANSMITTING |> in
    pump_with (Some (PNak h sos eos reqs)) s = (s1, Ok (eof :: answer)) /\
    snd (pumps n s1) = snd (pumps n s') /\
    (fst (pumps (S n) s1)) <| s_step_before := s_step_before s |> = fst (pumps (S n) s').
Proof.
  intros s p r tid sn dn d cks h sos eos reqs n Hst Hs Hq Hm Hfs Hpr Hmd Hr Htid Hack Hck Hp Hn Hl Hsn Hseg HF Hadm eof answer.
  destruct (eof_calls s p r tid sn dn d cks h sos eos reqs Hst Hs Hq Hm Hfs Hpr Hmd Hr Htid Hack Hck Hp Hn Hl Hsn Hseg HF Hadm)
    as (s' & P1 & Hst' & Hs' & Hq' & Hsb' & P2).
  exists s'. split; [exact P1|]. intro s1. split; [exact P2|].
  rewrite <- Hsb'.
  apply (resume_transparent s' SS_WAITING_FOR_EOF_ACK n Hst' Hq' Hs'); [discriminate | exact (adv_wait s' Hq' Hs')].
Qed.

(* ------------------------------------------------------------------ counterexamples to the draft statement *)
(* entity 1 sends 7 bytes to entity 2 in acknowledged mode, segment length 2 *)
Definition cx_r : rcfg := mkRcfg 2 2 (Some 2) 64 true false ACKED CK_NULL 1000 3 3 false false 1000 3.
Definition cx_c : lcfg := mkLcfg 1 2 true true true true [] 1000 [cx_r].
Definition cx_d : bytes := [3; 10; 17; 24; 31; 38; 45].
Definition cx_put : putreq := mkPut 2 2 None None (Some ([1], [2])) None.
Definition cx_s0 : src := fst (put_request cx_put (src_fresh cx_c 0 16 [([1], File cx_d)])).
Definition cx_h : hdr := mkHdr TOWARDS_RECEIVER ACKED false false 1 2 2 0 2.
Definition cx_nak : pdu := PNak (mkHdr TOWARDS_SENDER ACKED false false 1 2 2 0 2) 0 7 [(0, 3)].
Definition cx_answer : list pdu := [PFileData cx_h 0 [3; 10]; PFileData cx_h 2 [17]].

(* (1) Metadata and all four tiles sent, EOF not yet: every hypothesis of the draft holds (progress = file size was
   allowed), but the call that answers the NAK emits the EOF PDU before the requested tiles *)
Definition cx_end : src := fst (pumps 5 cx_s0).
Example draft_false_at_eof :
  s_state cx_end = ST_BUSY /\ s_step cx_end = SS_SENDING_FILE_DATA /\ s_queue cx_end = [] /\ s_ready cx_end = 0 /\
  s_put cx_end = Some cx_put /\ lookup (fs_s cx_end) [1] = Some (File cx_d) /\
  q_progress (s_p cx_end) = zlen cx_d /\ q_segment_len (s_p cx_end) = 2 /\
  snd (check_inserted_packet_s cx_nak cx_end) = Ok tt /\
  flat_map (fun rq => map (fd_of (hdr_of (q_conf (s_p cx_end)) TOWARDS_RECEIVER))
                          (range_tiles cx_d (fst rq) (snd rq) (q_segment_len (s_p cx_end)))) [(0, 3)] = cx_answer /\
  snd (pump_with (Some cx_nak) cx_end) = Ok (PEof cx_h C_NO_ERROR [0; 0; 0; 0] 7 None :: cx_answer).
Proof. vm_compute. repeat split; reflexivity. Qed.

(* (2) in the middle of the stream (two tiles sent), but with a transmission mode that is neither of the two defined
   ones: the NAK passes the admission check and is then ignored, the call emits the next tile *)
Definition cx_odd : src :=
  (fst (pumps 3 cx_s0)) <| s_p ::= (fun q => q <| q_conf ::= (fun c => c <| sc_mode := 2 |>) |>) |>.
Example draft_false_odd_mode :
  s_state cx_odd = ST_BUSY /\ s_step cx_odd = SS_SENDING_FILE_DATA /\ s_queue cx_odd = [] /\ s_ready cx_odd = 0 /\
  q_progress (s_p cx_odd) = 4 /\
  snd (check_inserted_packet_s cx_nak cx_odd) = Ok tt /\
  snd (pump_with (Some cx_nak) cx_odd) =
    Ok [PFileData (mkHdr TOWARDS_RECEIVER 2 false false 1 2 2 0 2) 4 [31; 38]].
Proof. vm_compute. repeat split; reflexivity. Qed.

(* non-vacuity of both theorems on the same transfer: the hypotheses hold two tiles into the stream ... *)
Definition cx_mid : src := fst (pumps 3 cx_s0).
Example nv_mid :
  s_state cx_mid = ST_BUSY /\ s_step cx_mid = SS_SENDING_FILE_DATA /\ s_queue cx_mid = [] /\
  sc_mode (q_conf (s_p cx_mid)) = ACKED /\ q_file_size (s_p cx_mid) = Some 7 /\ q_progress (s_p cx_mid) = 4 /\
  snd (check_inserted_packet_s cx_nak cx_mid) = Ok tt /\
  snd (pump_with (Some cx_nak) cx_mid) = Ok cx_answer /\
  snd (pumps 4 (fst (pump_with (Some cx_nak) cx_mid))) = snd (pumps 4 cx_mid) /\
  snd (pumps 4 cx_mid) = Ok [[PFileData cx_h 4 [31; 38]]; [PFileData cx_h 6 [45]];
                             [PEof cx_h C_NO_ERROR [0; 0; 0; 0] 7 None]; []].
Proof. vm_compute. repeat split; reflexivity. Qed.
