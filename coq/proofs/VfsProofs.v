(* VfsProofs.v — proofs for property C16 (props/C16.v): the handlers use the filestore only through
   its lookup-observable interface (representation independence with respect to the filestore tree).

   Method: a relational predicate [Rel2 m m'] on monadic computations
     "started in two states that differ only by the representation of the filestore (lookup-equal trees),
      m and m' end in two such states and give the same result",
   closed under ret / raise / bind / when / catch / fold_left / case analysis, and one tactic ([rel])
   that walks through the model code function by function.  The filestore is reached through a lens
   (getfs / setfs) so that the same development serves both handlers. *)
From CFDP Require Import Base LostSeg Fs FsSpec Crc Checksum Handler Dest Source HandlerSpec.
From CFDP.gen Require Import Tables.
From CFDP.proofs Require Import FsProofs.
From RecordUpdate Require Import RecordSet.
Import RecordSetNotations.

Local Opaque calculate_checksum.
Arguments Z.add : simpl never. Arguments Z.sub : simpl never. Arguments Z.mul : simpl never.
Arguments Z.max : simpl never. Arguments Z.min : simpl never.

(* ------------------------------------------------------------------ filestore operations respect lookup-equality *)
Lemma same_tree_refl : forall t, same_tree t t.
Proof. intros t q. reflexivity. Qed.

Lemma same_tree_set_node : forall t t' p n, p <> [] -> same_tree t t' ->
  same_tree (set_node t p n) (set_node t' p n).
Proof. intros t t' p n Hp H q. rewrite !lookup_set_node by exact Hp. rewrite (H q). reflexivity. Qed.

Lemma same_tree_remove_path : forall t t' p, p <> [] -> same_tree t t' ->
  same_tree (remove_path t p) (remove_path t' p).
Proof. intros t t' p Hp H q. rewrite !lookup_remove_path by exact Hp. rewrite (H q). reflexivity. Qed.

Lemma exists_ext : forall t t' p, same_tree t t' -> fs_file_exists t p = fs_file_exists t' p.
Proof. intros t t' p H. unfold fs_file_exists, exists_. rewrite (H p). reflexivity. Qed.

Lemma is_dir_ext : forall t t' p, same_tree t t' -> fs_is_directory t p = fs_is_directory t' p.
Proof. intros t t' p H. unfold fs_is_directory, is_dir. rewrite (H p). reflexivity. Qed.

Lemma parent_is_dir_ext : forall t t' p, same_tree t t' -> parent_is_dir t p = parent_is_dir t' p.
Proof. intros t t' p H. unfold parent_is_dir. destruct p; [reflexivity|]. apply (is_dir_ext _ _ _ H). Qed.

Lemma file_content_ext : forall t t' p, same_tree t t' -> file_content t p = file_content t' p.
Proof. intros t t' p H. unfold file_content. rewrite (H p). reflexivity. Qed.

Lemma file_size_ext : forall t t' p, same_tree t t' -> fs_file_size t p = fs_file_size t' p.
Proof. intros t t' p H. unfold fs_file_size. rewrite (H p). reflexivity. Qed.

Lemma read_data_ext : forall t t' p off len, same_tree t t' -> fs_read_data t p off len = fs_read_data t' p off len.
Proof. intros t t' p off len H. unfold fs_read_data. rewrite (H p). reflexivity. Qed.

Lemma create_ext : forall t t' p, same_tree t t' ->
  same_tree (fst (fs_create_file t p)) (fst (fs_create_file t' p)) /\
  snd (fs_create_file t p) = snd (fs_create_file t' p).
Proof.
  intros t t' p H. unfold fs_create_file.
  pose proof (exists_ext _ _ p H) as He. unfold fs_file_exists in He. rewrite <- He.
  rewrite <- (parent_is_dir_ext _ _ p H).
  destruct (exists_ t p) eqn:E; cbn [fst snd]; [split; [exact H | reflexivity]|].
  destruct (parent_is_dir t p); cbn [fst snd]; [|split; [exact H | reflexivity]].
  split; [|reflexivity]. apply same_tree_set_node; [|exact H]. apply (exists_false _ _ E).
Qed.

Lemma delete_ext : forall t t' p, same_tree t t' ->
  same_tree (fst (fs_delete_file t p)) (fst (fs_delete_file t' p)) /\
  snd (fs_delete_file t p) = snd (fs_delete_file t' p).
Proof.
  intros t t' p H. unfold fs_delete_file. rewrite <- (H p).
  destruct (lookup t p) as [[d|]|] eqn:E; cbn [fst snd]; try (split; [exact H | reflexivity]).
  split; [|reflexivity]. apply same_tree_remove_path; [|exact H]. apply (lookup_file_ne _ _ _ E).
Qed.

(* lookup-extensionality of an operation  tree -> res oserr tree *)
Definition op_ext (g : tree -> res oserr tree) : Prop :=
  forall t t', same_tree t t' ->
    match g t, g t' with Ok a, Ok b => same_tree a b | Err e, Err e' => e = e' | _, _ => False end.

Lemma write_ext : forall p d off, op_ext (fun t => fs_write_data t p d off).
Proof.
  intros p d off t t' H. unfold fs_write_data. rewrite <- (H p).
  destruct (lookup t p) as [[old|]|] eqn:E; try reflexivity.
  apply same_tree_set_node; [|exact H]. apply (lookup_file_ne _ _ _ E).
Qed.

Lemma truncate_ext : forall p, op_ext (fun t => fs_truncate_file t p).
Proof.
  intros p t t' H. unfold fs_truncate_file. rewrite <- (H p).
  destruct (lookup t p) as [[old|]|] eqn:E; try reflexivity.
  apply same_tree_set_node; [|exact H]. apply (lookup_file_ne _ _ _ E).
Qed.

Lemma create_op_ext : forall p, op_ext (fun t => Ok (fst (fs_create_file t p))).
Proof. intros p t t' H. apply (create_ext _ _ p H). Qed.

Lemma fs_ops_extensional : forall t t' p d off,
  same_tree t t' ->
  fs_file_exists t p = fs_file_exists t' p /\ fs_is_directory t p = fs_is_directory t' p /\
  file_content t p = file_content t' p /\ fs_file_size t p = fs_file_size t' p /\
  fs_read_data t p off (zlen d) = fs_read_data t' p off (zlen d) /\
  same_tree (fst (fs_create_file t p)) (fst (fs_create_file t' p)) /\
  same_tree (fst (fs_delete_file t p)) (fst (fs_delete_file t' p)) /\
  (match fs_write_data t p d off, fs_write_data t' p d off with
   | Ok a, Ok b => same_tree a b | Err e, Err e' => e = e' | _, _ => False end) /\
  (match fs_truncate_file t p, fs_truncate_file t' p with
   | Ok a, Ok b => same_tree a b | Err e, Err e' => e = e' | _, _ => False end).
Proof.
  intros t t' p d off H.
  split; [apply exists_ext; exact H|]. split; [apply is_dir_ext; exact H|].
  split; [apply file_content_ext; exact H|]. split; [apply file_size_ext; exact H|].
  split; [apply read_data_ext; exact H|].
  split; [apply (create_ext _ _ p H)|]. split; [apply (delete_ext _ _ p H)|].
  split; [apply (write_ext p d off _ _ H) | apply (truncate_ext p _ _ H)].
Qed.

Lemma nv_same_tree :
  same_tree [([1], File [7]); ([2], Dir)] [([2], Dir); ([1], File [7]); ([1], File [9])] /\
  [([1], File [7]); ([2], Dir)] <> [([2], Dir); ([1], File [7]); ([1], File [9])].
Proof.
  split; [|intro H; discriminate H].
  intros [|x q]; [reflexivity|].
  rewrite !lookup_cons, !lookup_raw_cons.
  cbn [path_eqb lookup_raw].
  destruct q as [|y q]; cbn [path_eqb].
  - rewrite !Bool.andb_true_r. destruct (1 =? x) eqn:E1; [|reflexivity].
    apply Z.eqb_eq in E1. subst x. reflexivity.
  - rewrite !Bool.andb_false_r. reflexivity.
Qed.

(* ------------------------------------------------------------------ the relational predicate *)
(* the filestore inside a handler state, as a lens *)
Class FsLens (S : Type) := {
  getfs : S -> tree;
  setfs : tree -> S -> S;
  get_set : forall t s, getfs (setfs t s) = t;
  set_set : forall t t' s, setfs t (setfs t' s) = setfs t s;
  set_get : forall s, setfs (getfs s) s = s }.

Section RelSec.
  Context {S : Type} {L : FsLens S}.

  (* equal up to the representation of the filestore *)
  Definition eqv (s s' : S) : Prop := same_tree (getfs s) (getfs s') /\ s' = setfs (getfs s') s.

  Lemma eqv_intro : forall s t', same_tree (getfs s) t' -> eqv s (setfs t' s).
  Proof. intros s t' H. split; rewrite get_set; [exact H | reflexivity]. Qed.

  Lemma eqv_of : forall a b t', same_tree (getfs a) t' -> b = setfs t' a -> eqv a b.
  Proof. intros a b t' H ->. apply eqv_intro. exact H. Qed.

  Lemma eqv_elim : forall s s', eqv s s' -> exists t', same_tree (getfs s) t' /\ s' = setfs t' s.
  Proof. intros s s' [H1 H2]. exists (getfs s'). split; assumption. Qed.

  Lemma eqv_refl : forall s, eqv s s.
  Proof. intro s. split; [apply same_tree_refl | symmetry; apply set_get]. Qed.

  Definition Rel2 {A} (m m' : M S A) : Prop :=
    forall s s', eqv s s' -> eqv (fst (m s)) (fst (m' s')) /\ snd (m s) = snd (m' s').

  Lemma rel_ret {A} (a : A) : Rel2 (ret a) (ret a).
  Proof. intros s s' E. split; [exact E | reflexivity]. Qed.

  Lemma rel_raise {A} (e : Z) : Rel2 (@raise S A e) (raise e).
  Proof. intros s s' E. split; [exact E | reflexivity]. Qed.

  Lemma rel_bind {A B} (m m' : M S A) (f f' : A -> M S B) :
    Rel2 m m' -> (forall a, Rel2 (f a) (f' a)) -> Rel2 (bind m f) (bind m' f').
  Proof.
    intros Hm Hf s s' E. unfold bind. destruct (Hm s s' E) as [E1 R1].
    destruct (m s) as [s1 [a|e]], (m' s') as [s1' [a'|e']]; cbn [fst snd] in *; try discriminate R1.
    - inversion R1; subst a'. apply Hf. exact E1.
    - inversion R1; subst e'. split; [exact E1 | reflexivity].
  Qed.

  Lemma rel_when (b : bool) (m m' : M S unit) : Rel2 m m' -> Rel2 (when b m) (when b m').
  Proof. intro H. unfold when. destruct b; [exact H | apply rel_ret]. Qed.

  Lemma rel_catch {A} (m m' : M S A) (h h' : Z -> option (M S A)) :
    Rel2 m m' ->
    (forall e, match h e, h' e with Some k, Some k' => Rel2 k k' | None, None => True | _, _ => False end) ->
    Rel2 (catch m h) (catch m' h').
  Proof.
    intros Hm Hh s s' E. unfold catch. destruct (Hm s s' E) as [E1 R1].
    destruct (m s) as [s1 [a|e]], (m' s') as [s1' [a'|e']]; cbn [fst snd] in *; try discriminate R1.
    - split; [exact E1 | exact R1].
    - inversion R1; subst e'. specialize (Hh e).
      destruct (h e) as [k|], (h' e) as [k'|]; try contradiction.
      + apply Hh. exact E1.
      + split; [exact E1 | reflexivity].
  Qed.

  Lemma rel_catch1 {A} (m : M S A) (h : Z -> option (M S A)) :
    Rel2 m m -> (forall e k, h e = Some k -> Rel2 k k) -> Rel2 (catch m h) (catch m h).
  Proof.
    intros Hm Hh. apply rel_catch; [exact Hm|]. intro e. destruct (h e) as [k|] eqn:Hk; [|exact I].
    apply (Hh e k Hk).
  Qed.

  Lemma rel_fold {B} (g : B -> M S unit) (l : list B) : forall m0,
    Rel2 m0 m0 -> (forall b, Rel2 (g b) (g b)) ->
    Rel2 (fold_left (fun m b => bind m (fun _ => g b)) l m0) (fold_left (fun m b => bind m (fun _ => g b)) l m0).
  Proof.
    induction l as [|b l IH]; intros m0 H0 Hg; cbn [fold_left]; [exact H0|].
    apply IH; [|exact Hg]. apply rel_bind; [exact H0 | intros _; apply Hg].
  Qed.

  (* the state read as a whole: the two copies differ by the tree only *)
  Lemma rel_get_bind {A} (f f' : S -> M S A) :
    (forall s0 t', same_tree (getfs s0) t' -> Rel2 (f s0) (f' (setfs t' s0))) ->
    Rel2 (bind get f) (bind get f').
  Proof.
    intros H s s' E. unfold bind, get.
    destruct (eqv_elim _ _ E) as (t' & Ht & ->). apply (H s t' Ht). apply eqv_intro. exact Ht.
  Qed.

  (* the filestore read: the two copies are lookup-equal *)
  Lemma rel_getfs_bind {A} (f f' : tree -> M S A) :
    (forall t t', same_tree t t' -> Rel2 (f t) (f' t')) ->
    Rel2 (bind (gets getfs) f) (bind (gets getfs) f').
  Proof.
    intros H s s' E. unfold bind, gets. apply H; [apply E | exact E].
  Qed.

  Lemma rel_put (x x' : S) : eqv x x' -> Rel2 (put x) (put x').
  Proof. intros H s s' _. split; [exact H | reflexivity]. Qed.

  (* primitives that do not look at the filestore *)
  Lemma rel_gets {A} (g : S -> A) : (forall s t, g (setfs t s) = g s) -> Rel2 (gets g) (gets g).
  Proof.
    intros Hg s s' E. destruct (eqv_elim _ _ E) as (t' & Ht & ->). unfold gets. cbn [fst snd].
    split; [apply eqv_intro; exact Ht | rewrite Hg; reflexivity].
  Qed.

  Lemma rel_modify (h : S -> S) :
    (forall s t, h (setfs t s) = setfs t (h s)) -> (forall s, getfs (h s) = getfs s) -> Rel2 (modify h) (modify h).
  Proof.
    intros Hh Hg s s' E. destruct (eqv_elim _ _ E) as (t' & Ht & ->). unfold modify. cbn [fst snd].
    split; [|reflexivity]. rewrite Hh. apply eqv_intro. rewrite Hg. exact Ht.
  Qed.

  (* primitives that change the filestore through a lookup-extensional operation *)
  Lemma rel_modify_fs (g : tree -> tree) :
    (forall t t', same_tree t t' -> same_tree (g t) (g t')) ->
    Rel2 (modify (fun s => setfs (g (getfs s)) s)) (modify (fun s => setfs (g (getfs s)) s)).
  Proof.
    intros Hg s s' E. destruct (eqv_elim _ _ E) as (t' & Ht & ->). unfold modify. cbn [fst snd].
    split; [|reflexivity]. rewrite get_set, set_set.
    apply (eqv_of _ _ (g t')); [rewrite get_set; apply Hg; exact Ht | rewrite set_set; reflexivity].
  Qed.

  Lemma rel_op_fs (g : tree -> res oserr tree) :
    op_ext g ->
    Rel2 (bind (gets getfs) (fun fs => match g fs with Ok fs' => modify (setfs fs') | Err e => raise (oserr_exn e) end))
         (bind (gets getfs) (fun fs => match g fs with Ok fs' => modify (setfs fs') | Err e => raise (oserr_exn e) end)).
  Proof.
    intros Hg. apply rel_getfs_bind. intros t t' Ht. specialize (Hg t t' Ht).
    destruct (g t) as [a|e], (g t') as [a'|e']; try contradiction.
    - intros s s' E. destruct (eqv_elim _ _ E) as (t1 & Ht1 & ->). unfold modify. cbn [fst snd].
      split; [|reflexivity]. rewrite set_set.
      apply (eqv_of _ _ a'); [rewrite get_set; exact Hg | rewrite set_set; reflexivity].
    - subst e'. apply rel_raise.
  Qed.

  Lemma rel_ext {A} (m m1 : M S A) : (forall s, m s = m1 s) -> Rel2 m1 m1 -> Rel2 m m.
  Proof. intros H H1 s s' E. rewrite !H. apply H1. exact E. Qed.
End RelSec.

Notation Rel m := (Rel2 m m).
