(* VfsProofs.v — proofs for property C16 (props/C16.v): the handlers use the filestore only through
   its lookup-observable interface (representation independence with respect to the filestore tree).

   Method: a relational predicate [Rel2 m m'] on monadic computations
     "started in two states that differ only by the representation of the filestore (lookup-equal trees),
      m and m' end in two such states and give the same result",
   closed under ret / raise / bind / when / catch / fold_left / case analysis, and one tactic ([rel])
   that walks through the model code function by function.  The filestore is reached through a lens
   (getfs / setfs) so that the same development serves both handlers. *)
From CFDP Require Import Base LostSeg Fs FsSpec Crc Checksum Handler Dest Source HandlerSpec.
From CFDP.gen Require Import Tables.
From CFDP.proofs Require Import FsProofs.
From RecordUpdate Require Import RecordSet.
Import RecordSetNotations.

Local Opaque calculate_checksum.

(* ------------------------------------------------------------------ filestore operations respect lookup-equality *)
Lemma same_tree_refl : forall t, same_tree t t.
Proof. intros t q. reflexivity. Qed.

Lemma same_tree_set_node : forall t t' p n, p <> [] -> same_tree t t' ->
  same_tree (set_node t p n) (set_node t' p n).
Proof. intros t t' p n Hp H q. rewrite !lookup_set_node by exact Hp. rewrite (H q). reflexivity. Qed.

Lemma same_tree_remove_path : forall t t' p, p <> [] -> same_tree t t' ->
  same_tree (remove_path t p) (remove_path t' p).
Proof. intros t t' p Hp H q. rewrite !lookup_remove_path by exact Hp. rewrite (H q). reflexivity. Qed.

Lemma exists_ext : forall t t' p, same_tree t t' -> fs_file_exists t p = fs_file_exists t' p.
Proof. intros t t' p H. unfold fs_file_exists, exists_. rewrite (H p). reflexivity. Qed.

Lemma is_dir_ext : forall t t' p, same_tree t t' -> fs_is_directory t p = fs_is_directory t' p.
Proof. intros t t' p H. unfold fs_is_directory, is_dir. rewrite (H p). reflexivity. Qed.

Lemma parent_is_dir_ext : forall t t' p, same_tree t t' -> parent_is_dir t p = parent_is_dir t' p.
Proof. intros t t' p H. unfold parent_is_dir. destruct p; [reflexivity|]. apply (is_dir_ext _ _ _ H). Qed.

Lemma file_content_ext : forall t t' p, same_tree t t' -> file_content t p = file_content t' p.
Proof. intros t t' p H. unfold file_content. rewrite (H p). reflexivity. Qed.

Lemma file_size_ext : forall t t' p, same_tree t t' -> fs_file_size t p = fs_file_size t' p.
Proof. intros t t' p H. unfold fs_file_size. rewrite (H p). reflexivity. Qed.

Lemma read_data_ext : forall t t' p off len, same_tree t t' -> fs_read_data t p off len = fs_read_data t' p off len.
Proof. intros t t' p off len H. unfold fs_read_data. rewrite (H p). reflexivity. Qed.

Lemma create_ext : forall t t' p, same_tree t t' ->
  same_tree (fst (fs_create_file t p)) (fst (fs_create_file t' p)) /\
  snd (fs_create_file t p) = snd (fs_create_file t' p).
Proof.
  intros t t' p H. unfold fs_create_file.
  pose proof (exists_ext _ _ p H) as He. unfold fs_file_exists in He. rewrite <- He.
  rewrite <- (parent_is_dir_ext _ _ p H).
  destruct (exists_ t p) eqn:E; cbn [fst snd]; [split; [exact H | reflexivity]|].
  destruct (parent_is_dir t p); cbn [fst snd]; [|split; [exact H | reflexivity]].
  split; [|reflexivity]. apply same_tree_set_node; [|exact H]. apply (exists_false _ _ E).
Qed.

Lemma delete_ext : forall t t' p, same_tree t t' ->
  same_tree (fst (fs_delete_file t p)) (fst (fs_delete_file t' p)) /\
  snd (fs_delete_file t p) = snd (fs_delete_file t' p).
Proof.
  intros t t' p H. unfold fs_delete_file. rewrite <- (H p).
  destruct (lookup t p) as [[d|]|] eqn:E; cbn [fst snd]; try (split; [exact H | reflexivity]).
  split; [|reflexivity]. apply same_tree_remove_path; [|exact H]. apply (lookup_file_ne _ _ _ E).
Qed.

(* lookup-extensionality of an operation  tree -> res oserr tree *)
Definition op_ext (g : tree -> res oserr tree) : Prop :=
  forall t t', same_tree t t' ->
    match g t, g t' with Ok a, Ok b => same_tree a b | Err e, Err e' => e = e' | _, _ => False end.

Lemma write_ext : forall p d off, op_ext (fun t => fs_write_data t p d off).
Proof.
  intros p d off t t' H. unfold fs_write_data. rewrite <- (H p).
  destruct (lookup t p) as [[old|]|] eqn:E; try reflexivity.
  apply same_tree_set_node; [|exact H]. apply (lookup_file_ne _ _ _ E).
Qed.

Lemma truncate_ext : forall p, op_ext (fun t => fs_truncate_file t p).
Proof.
  intros p t t' H. unfold fs_truncate_file. rewrite <- (H p).
  destruct (lookup t p) as [[old|]|] eqn:E; try reflexivity.
  apply same_tree_set_node; [|exact H]. apply (lookup_file_ne _ _ _ E).
Qed.

Lemma create_op_ext : forall p, op_ext (fun t => Ok (fst (fs_create_file t p))).
Proof. intros p t t' H. apply (create_ext _ _ p H). Qed.

Lemma fs_ops_extensional : forall t t' p d off,
  same_tree t t' ->
  fs_file_exists t p = fs_file_exists t' p /\ fs_is_directory t p = fs_is_directory t' p /\
  file_content t p = file_content t' p /\ fs_file_size t p = fs_file_size t' p /\
  fs_read_data t p off (zlen d) = fs_read_data t' p off (zlen d) /\
  same_tree (fst (fs_create_file t p)) (fst (fs_create_file t' p)) /\
  same_tree (fst (fs_delete_file t p)) (fst (fs_delete_file t' p)) /\
  (match fs_write_data t p d off, fs_write_data t' p d off with
   | Ok a, Ok b => same_tree a b | Err e, Err e' => e = e' | _, _ => False end) /\
  (match fs_truncate_file t p, fs_truncate_file t' p with
   | Ok a, Ok b => same_tree a b | Err e, Err e' => e = e' | _, _ => False end).
Proof.
  intros t t' p d off H.
  split; [apply exists_ext; exact H|]. split; [apply is_dir_ext; exact H|].
  split; [apply file_content_ext; exact H|]. split; [apply file_size_ext; exact H|].
  split; [apply read_data_ext; exact H|].
  split; [apply (create_ext _ _ p H)|]. split; [apply (delete_ext _ _ p H)|].
  split; [apply (write_ext p d off _ _ H) | apply (truncate_ext p _ _ H)].
Qed.

Lemma nv_same_tree :
  same_tree [([1], File [7]); ([2], Dir)] [([2], Dir); ([1], File [7]); ([1], File [9])] /\
  [([1], File [7]); ([2], Dir)] <> [([2], Dir); ([1], File [7]); ([1], File [9])].
Proof.
  split; [|intro H; discriminate H].
  intros [|x q]; [reflexivity|].
  rewrite !lookup_cons, !lookup_raw_cons.
  cbn [path_eqb lookup_raw].
  destruct q as [|y q]; cbn [path_eqb].
  - rewrite !Bool.andb_true_r. destruct (1 =? x) eqn:E1; [|reflexivity].
    apply Z.eqb_eq in E1. subst x. reflexivity.
  - rewrite !Bool.andb_false_r. reflexivity.
Qed.

(* ------------------------------------------------------------------ the relational predicate *)
(* the filestore inside a handler state, as a lens *)
Class FsLens (S : Type) := {
  getfs : S -> tree;
  setfs : tree -> S -> S;
  get_set : forall t s, getfs (setfs t s) = t;
  set_set : forall t t' s, setfs t (setfs t' s) = setfs t s;
  set_get : forall s, setfs (getfs s) s = s }.

Section RelSec.
  Context {S : Type} {L : FsLens S}.

  (* equal up to the representation of the filestore *)
  Definition eqv (s s' : S) : Prop := same_tree (getfs s) (getfs s') /\ s' = setfs (getfs s') s.

  Lemma eqv_intro : forall s t', same_tree (getfs s) t' -> eqv s (setfs t' s).
  Proof. intros s t' H. split; rewrite get_set; [exact H | reflexivity]. Qed.

  Lemma eqv_of : forall a b t', same_tree (getfs a) t' -> b = setfs t' a -> eqv a b.
  Proof. intros a b t' H ->. apply eqv_intro. exact H. Qed.

  Lemma eqv_elim : forall s s', eqv s s' -> exists t', same_tree (getfs s) t' /\ s' = setfs t' s.
  Proof. intros s s' [H1 H2]. exists (getfs s'). split; assumption. Qed.

  Lemma eqv_refl : forall s, eqv s s.
  Proof. intro s. split; [apply same_tree_refl | symmetry; apply set_get]. Qed.

  Definition Rel2 {A} (m m' : M S A) : Prop :=
    forall s s', eqv s s' -> eqv (fst (m s)) (fst (m' s')) /\ snd (m s) = snd (m' s').

  Lemma rel_ret {A} (a : A) : Rel2 (ret a) (ret a).
  Proof. intros s s' E. split; [exact E | reflexivity]. Qed.

  Lemma rel_raise {A} (e : Z) : Rel2 (@raise S A e) (raise e).
  Proof. intros s s' E. split; [exact E | reflexivity]. Qed.

  Lemma rel_bind {A B} (m m' : M S A) (f f' : A -> M S B) :
    Rel2 m m' -> (forall a, Rel2 (f a) (f' a)) -> Rel2 (bind m f) (bind m' f').
  Proof.
    intros Hm Hf s s' E. unfold bind. destruct (Hm s s' E) as [E1 R1].
    destruct (m s) as [s1 [a|e]], (m' s') as [s1' [a'|e']]; cbn [fst snd] in *; try discriminate R1.
    - inversion R1; subst a'. apply Hf. exact E1.
    - inversion R1; subst e'. split; [exact E1 | reflexivity].
  Qed.

  Lemma rel_when (b : bool) (m m' : M S unit) : Rel2 m m' -> Rel2 (when b m) (when b m').
  Proof. intro H. unfold when. destruct b; [exact H | apply rel_ret]. Qed.

  Lemma rel_catch {A} (m m' : M S A) (h h' : Z -> option (M S A)) :
    Rel2 m m' ->
    (forall e, match h e, h' e with Some k, Some k' => Rel2 k k' | None, None => True | _, _ => False end) ->
    Rel2 (catch m h) (catch m' h').
  Proof.
    intros Hm Hh s s' E. unfold catch. destruct (Hm s s' E) as [E1 R1].
    destruct (m s) as [s1 [a|e]], (m' s') as [s1' [a'|e']]; cbn [fst snd] in *; try discriminate R1.
    - split; [exact E1 | exact R1].
    - inversion R1; subst e'. specialize (Hh e).
      destruct (h e) as [k|], (h' e) as [k'|]; try contradiction.
      + apply Hh. exact E1.
      + split; [exact E1 | reflexivity].
  Qed.

  Lemma rel_catch1 {A} (m : M S A) (h : Z -> option (M S A)) :
    Rel2 m m -> (forall e k, h e = Some k -> Rel2 k k) -> Rel2 (catch m h) (catch m h).
  Proof.
    intros Hm Hh. apply rel_catch; [exact Hm|]. intro e. destruct (h e) as [k|] eqn:Hk; [|exact I].
    apply (Hh e k Hk).
  Qed.

  Lemma rel_fold {B} (g : B -> M S unit) (l : list B) : forall m0,
    Rel2 m0 m0 -> (forall b, Rel2 (g b) (g b)) ->
    Rel2 (fold_left (fun m b => bind m (fun _ => g b)) l m0) (fold_left (fun m b => bind m (fun _ => g b)) l m0).
  Proof.
    induction l as [|b l IH]; intros m0 H0 Hg; cbn [fold_left]; [exact H0|].
    apply IH; [|exact Hg]. apply rel_bind; [exact H0 | intros _; apply Hg].
  Qed.

  (* the state read as a whole: the two copies differ by the tree only *)
  Lemma rel_get_bind {A} (f f' : S -> M S A) :
    (forall s0 t', same_tree (getfs s0) t' -> Rel2 (f s0) (f' (setfs t' s0))) ->
    Rel2 (bind get f) (bind get f').
  Proof.
    intros H s s' E. unfold bind, get.
    destruct (eqv_elim _ _ E) as (t' & Ht & ->). apply (H s t' Ht). apply eqv_intro. exact Ht.
  Qed.

  (* the filestore read: the two copies are lookup-equal *)
  Lemma rel_getfs_bind {A} (f f' : tree -> M S A) :
    (forall t t', same_tree t t' -> Rel2 (f t) (f' t')) ->
    Rel2 (bind (gets getfs) f) (bind (gets getfs) f').
  Proof.
    intros H s s' E. unfold bind, gets. apply H; [apply E | exact E].
  Qed.

  Lemma rel_put (x x' : S) : eqv x x' -> Rel2 (put x) (put x').
  Proof. intros H s s' _. split; [exact H | reflexivity]. Qed.

  (* primitives that do not look at the filestore *)
  Lemma rel_gets {A} (g : S -> A) : (forall s t, g (setfs t s) = g s) -> Rel2 (gets g) (gets g).
  Proof.
    intros Hg s s' E. destruct (eqv_elim _ _ E) as (t' & Ht & ->). unfold gets. cbn [fst snd].
    split; [apply eqv_intro; exact Ht | rewrite Hg; reflexivity].
  Qed.

  Lemma rel_modify (h : S -> S) :
    (forall s t, h (setfs t s) = setfs t (h s)) -> (forall s, getfs (h s) = getfs s) -> Rel2 (modify h) (modify h).
  Proof.
    intros Hh Hg s s' E. destruct (eqv_elim _ _ E) as (t' & Ht & ->). unfold modify. cbn [fst snd].
    split; [|reflexivity]. rewrite Hh. apply eqv_intro. rewrite Hg. exact Ht.
  Qed.

  (* primitives that change the filestore through a lookup-extensional operation *)
  Lemma rel_modify_fs (g : tree -> tree) :
    (forall t t', same_tree t t' -> same_tree (g t) (g t')) ->
    Rel2 (modify (fun s => setfs (g (getfs s)) s)) (modify (fun s => setfs (g (getfs s)) s)).
  Proof.
    intros Hg s s' E. destruct (eqv_elim _ _ E) as (t' & Ht & ->). unfold modify. cbn [fst snd].
    split; [|reflexivity]. rewrite get_set, set_set.
    apply (eqv_of _ _ (g t')); [rewrite get_set; apply Hg; exact Ht | rewrite set_set; reflexivity].
  Qed.

  Lemma rel_op_fs (g : tree -> res oserr tree) :
    op_ext g ->
    Rel2 (bind (gets getfs) (fun fs => match g fs with Ok fs' => modify (setfs fs') | Err e => raise (oserr_exn e) end))
         (bind (gets getfs) (fun fs => match g fs with Ok fs' => modify (setfs fs') | Err e => raise (oserr_exn e) end)).
  Proof.
    intros Hg. apply rel_getfs_bind. intros t t' Ht. specialize (Hg t t' Ht).
    destruct (g t) as [a|e], (g t') as [a'|e']; try contradiction.
    - intros s s' E. destruct (eqv_elim _ _ E) as (t1 & Ht1 & ->). unfold modify. cbn [fst snd].
      split; [|reflexivity]. rewrite set_set.
      apply (eqv_of _ _ a'); [rewrite get_set; exact Hg | rewrite set_set; reflexivity].
    - subst e'. apply rel_raise.
  Qed.

  Lemma rel_ext {A} (m m1 : M S A) : (forall s, m s = m1 s) -> Rel2 m1 m1 -> Rel2 m m.
  Proof. intros H H1 s s' E. rewrite !H. apply H1. exact E. Qed.
End RelSec.

Notation Rel m := (Rel2 m m).

(* ------------------------------------------------------------------ the walking tactic *)
Create HintDb rel discriminated.

Ltac rhead t := match t with ?f _ => rhead f | _ => t end.

Ltac rhandler :=
  let e := fresh "e" in let k := fresh "k" in let Hh := fresh "Hh" in
  intros e k Hh; cbv beta in Hh;
  match type of Hh with
  | (if ?c then Some _ else None) = Some _ => destruct c; [inversion Hh; subst k; clear Hh | discriminate Hh]
  end.

(* bring the reads of the second tree back to reads of the first *)
Ltac rext :=
  repeat match goal with
  | H : same_tree ?t ?t' |- context [fs_is_directory ?t' ?p] => rewrite <- (is_dir_ext t t' p H)
  | H : same_tree ?t ?t' |- context [fs_file_exists ?t' ?p] => rewrite <- (exists_ext t t' p H)
  | H : same_tree ?t ?t' |- context [fs_file_size ?t' ?p] => rewrite <- (file_size_ext t t' p H)
  | H : same_tree ?t ?t' |- context [fs_read_data ?t' ?p ?o ?l] => rewrite <- (read_data_ext t t' p o l H)
  | H : same_tree ?t ?t' |- context [lookup ?t' ?p] => rewrite <- (H p)
  end.

Ltac rside := first [ reflexivity | (intros; reflexivity) ].

Ltac rel_step L projs :=
  cbv beta zeta; rext;
  match goal with
  | |- Rel2 _ _ => solve [auto with rel nocore]
  | |- Rel2 (bind get _) (bind get _) =>
      apply rel_get_bind;
      let s0 := fresh "s0" in let t' := fresh "t'" in let Ht := fresh "Ht" in
      intros s0 t' Ht; cbv beta; projs
  | |- Rel2 (bind (gets _) _) (bind (gets _) _) =>
      apply (@rel_getfs_bind _ L);
      let t := fresh "t" in let t' := fresh "t'" in let Ht := fresh "Ht" in intros t t' Ht
  | |- Rel2 (bind _ _) (bind _ _) => apply rel_bind; [|intro]
  | |- Rel2 (ret _) (ret _) => apply rel_ret
  | |- Rel2 (raise _) (raise _) => apply rel_raise
  | |- Rel2 (gets _) (gets _) => apply rel_gets; rside
  | |- Rel2 (modify _) (modify _) => apply rel_modify; rside
  | |- Rel2 (put _) (put _) =>
      apply rel_put;
      match goal with Ht : same_tree _ ?t' |- _ => apply (eqv_of _ _ t'); [exact Ht | reflexivity] end
  | |- Rel2 (when ?b _) (when ?b _) => apply rel_when
  | |- Rel2 (catch _ _) (catch _ _) => apply rel_catch1; [|rhandler]
  | |- Rel2 (fold_left _ _ _) (fold_left _ _ _) => apply rel_fold; [|intro]
  | |- Rel2 (if ?b then _ else _) (if ?b then _ else _) => destruct b
  | |- Rel2 (match ?x with _ => _ end) (match ?x with _ => _ end) => destruct x
  | |- Rel2 ?m ?m' => let h := rhead m in unfold h
  end.

(* ================================================================== destination handler *)
Definition setfs_d (t : tree) (s : dst) : dst := s <| d_env ::= (fun e => e <| e_fs := t |>) |>.

Lemma get_set_d : forall t s, fs_d (setfs_d t s) = t.
Proof. reflexivity. Qed.
Lemma set_set_d : forall t t' s, setfs_d t (setfs_d t' s) = setfs_d t s.
Proof. reflexivity. Qed.
Lemma set_get_d : forall s, setfs_d (fs_d s) s = s.
Proof. intros [c st step stid r q p [n f rw l]]. reflexivity. Qed.

#[export] Instance lens_d : FsLens dst :=
  {| getfs := fs_d; setfs := setfs_d; get_set := get_set_d; set_set := set_set_d; set_get := set_get_d |}.

(* local copy of the definition in props/C16.v *)
Definition eqv_d (s s' : dst) : Prop :=
  same_tree (fs_d s) (fs_d s') /\ s' = s <| d_env ::= (fun e => e <| e_fs := fs_d s' |>) |>.

Lemma eqv_d_eqv : forall s s', eqv_d s s' <-> eqv s s'.
Proof. intros s s'. split; intro H; exact H. Qed.

Lemma d_cfg_setfs : forall t s, d_cfg (setfs t s) = d_cfg s. Proof. reflexivity. Qed.
Lemma d_state_setfs : forall t s, d_state (setfs t s) = d_state s. Proof. reflexivity. Qed.
Lemma d_step_setfs : forall t s, d_step (setfs t s) = d_step s. Proof. reflexivity. Qed.
Lemma d_states_tid_setfs : forall t s, d_states_tid (setfs t s) = d_states_tid s. Proof. reflexivity. Qed.
Lemma d_ready_setfs : forall t s, d_ready (setfs t s) = d_ready s. Proof. reflexivity. Qed.
Lemma d_queue_setfs : forall t s, d_queue (setfs t s) = d_queue s. Proof. reflexivity. Qed.
Lemma d_p_setfs : forall t s, d_p (setfs t s) = d_p s. Proof. reflexivity. Qed.

Ltac dprojs :=
  rewrite ?d_cfg_setfs, ?d_state_setfs, ?d_step_setfs, ?d_states_tid_setfs, ?d_ready_setfs, ?d_queue_setfs, ?d_p_setfs.

Ltac reld := repeat (rel_step lens_d dprojs).

Notation RelD m := (@Rel2 dst lens_d _ m m).

(* ---- primitives *)
Lemma rd_gp : forall {A} (f : dparams -> A), RelD (gp f).
Proof. intros. reld. Qed.
Lemma rd_setp : forall f, RelD (setp f).
Proof. intros. reld. Qed.
Lemma rd_set_step : forall v, RelD (set_step v).
Proof. intros. reld. Qed.
Lemma rd_get_step : RelD get_step.
Proof. reld. Qed.
Lemma rd_emit : forall e, RelD (emit e).
Proof. intros. reld. Qed.
Lemma rd_now : RelD now.
Proof. reld. Qed.
Lemma rd_add_packet : forall p, RelD (add_packet p).
Proof. intros. reld. Qed.
Lemma rd_reset_internal : RelD reset_internal.
Proof. reld. Qed.
#[local] Hint Resolve rd_gp rd_setp rd_set_step rd_get_step rd_emit rd_now rd_add_packet rd_reset_internal : rel.

Lemma rd_tmode : RelD tmode.
Proof. reld. Qed.
#[local] Hint Resolve rd_tmode : rel.

(* ---- the accesses to the filestore *)
Lemma rd_vfs_write : forall name data off, RelD (vfs_write name data off).
Proof.
  intros name data off s s' E. destruct (eqv_elim _ _ E) as (t' & Ht & ->).
  unfold vfs_write, bind, gets. cbn.
  destruct (e_reject_writes (d_env s)); [split; [exact E | reflexivity]|].
  pose proof (write_ext name data off _ _ Ht) as W. cbv beta in W.
  change (getfs s) with (e_fs (d_env s)) in W.
  destruct (fs_write_data (e_fs (d_env s)) name data off) as [a|e], (fs_write_data t' name data off) as [b|e'];
    try contradiction; cbn.
  - split; [|reflexivity]. apply (eqv_of _ _ b); [exact W | reflexivity].
  - subst e'. split; [exact E | reflexivity].
Qed.

Lemma rd_vfs_op_tree : forall g, op_ext g -> RelD (vfs_op_tree g).
Proof. intros g Hg. exact (rel_op_fs g Hg). Qed.

Lemma rd_vfs_truncate : forall p, RelD (vfs_op_tree (fun t => fs_truncate_file t p)).
Proof. intro p. apply rd_vfs_op_tree, truncate_ext. Qed.

Lemma rd_vfs_create : forall p, RelD (vfs_op_tree (fun t => Ok (fst (fs_create_file t p)))).
Proof. intro p. apply rd_vfs_op_tree, create_op_ext. Qed.

Lemma rd_delete : forall name,
  RelD (modify (fun s => s <| d_env ::= (fun e => e <| e_fs ::= (fun t => fst (fs_delete_file t name)) |>) |>)).
Proof.
  intro name.
  exact (rel_modify_fs (fun t => fst (fs_delete_file t name)) (fun t t' H => proj1 (delete_ext t t' name H))).
Qed.
#[local] Hint Resolve rd_vfs_write rd_vfs_truncate rd_vfs_create rd_delete : rel.

Lemma rd_vfs_checksum : forall ty name size, RelD (vfs_checksum ty name size).
Proof. intros. reld. Qed.
#[local] Hint Resolve rd_vfs_checksum : rel.

(* ---- the handler, function by function *)
Lemma rd_tid_or_assert : RelD tid_or_assert.
Proof. reld. Qed.
Lemma rd_rcfg_or_assert : RelD rcfg_or_assert.
Proof. reld. Qed.
Lemma rd_mode_is : forall m, RelD (mode_is m).
Proof. intros. reld. Qed.
Lemma rd_conf : RelD conf.
Proof. reld. Qed.
#[local] Hint Resolve rd_tid_or_assert rd_rcfg_or_assert rd_mode_is rd_conf : rel.

Lemma rd_notice_of_cancellation : forall c, RelD (notice_of_cancellation c).
Proof. intros. reld. Qed.
#[local] Hint Resolve rd_notice_of_cancellation : rel.

Lemma rd_declare_fault : forall c, RelD (declare_fault c).
Proof. intros. reld. Qed.
#[local] Hint Resolve rd_declare_fault : rel.

Lemma rd_checksum_verify : RelD checksum_verify.
Proof. reld. Qed.
#[local] Hint Resolve rd_checksum_verify : rel.

Lemma rd_prepare_eof_ack_packet : RelD prepare_eof_ack_packet.
Proof. reld. Qed.
#[local] Hint Resolve rd_prepare_eof_ack_packet : rel.

Lemma rd_file_transfer_complete_transition : RelD file_transfer_complete_transition.
Proof. reld. Qed.
#[local] Hint Resolve rd_file_transfer_complete_transition : rel.

Lemma rd_start_check_limit_handling : RelD start_check_limit_handling.
Proof. reld. Qed.
#[local] Hint Resolve rd_start_check_limit_handling : rel.

Lemma rd_tracker_add : forall sg, RelD (tracker_add sg).
Proof. intros. reld. Qed.
#[local] Hint Resolve rd_tracker_add : rel.

Lemma rd_lost_segment_handling : forall o l, RelD (lost_segment_handling o l).
Proof. intros. reld. Qed.
#[local] Hint Resolve rd_lost_segment_handling : rel.

Lemma rd_filestore_rejection : RelD filestore_rejection.
Proof. reld. Qed.
#[local] Hint Resolve rd_filestore_rejection : rel.

Lemma rd_handle_fd_pdu : forall o d, RelD (handle_fd_pdu o d).
Proof. intros. reld. Qed.
#[local] Hint Resolve rd_handle_fd_pdu : rel.

Lemma rd_reset_nak_activity_parameters : RelD reset_nak_activity_parameters.
Proof. reld. Qed.
#[local] Hint Resolve rd_reset_nak_activity_parameters : rel.

Lemma rd_deferred_lost_segment_handling : RelD deferred_lost_segment_handling.
Proof. reld. Qed.
#[local] Hint Resolve rd_deferred_lost_segment_handling : rel.

Lemma rd_start_deferred_lost_segment_handling : RelD start_deferred_lost_segment_handling.
Proof. reld. Qed.
#[local] Hint Resolve rd_start_deferred_lost_segment_handling : rel.

Lemma rd_handle_no_error_eof : RelD handle_no_error_eof.
Proof. reld. Qed.
#[local] Hint Resolve rd_handle_no_error_eof : rel.

Lemma rd_handle_eof_pdu : forall c ck sz, RelD (handle_eof_pdu c ck sz).
Proof. intros. reld. Qed.
#[local] Hint Resolve rd_handle_eof_pdu : rel.

Lemma rd_init_vfs_handling : forall base, RelD (init_vfs_handling base).
Proof. intros. reld. Qed.
#[local] Hint Resolve rd_init_vfs_handling : rel.

Lemma rd_handle_metadata_packet : forall h cl ck sz names msgs, RelD (handle_metadata_packet h cl ck sz names msgs).
Proof. intros. reld. Qed.
#[local] Hint Resolve rd_handle_metadata_packet : rel.

Lemma rd_common_first_packet_handler : forall h, RelD (common_first_packet_handler h).
Proof. intros. reld. Qed.
#[local] Hint Resolve rd_common_first_packet_handler : rel.

Lemma rd_start_transaction : forall h cl ck sz names msgs, RelD (start_transaction h cl ck sz names msgs).
Proof. intros. reld. Qed.
#[local] Hint Resolve rd_start_transaction : rel.

Lemma rd_common_first_packet_not_metadata : forall h, RelD (common_first_packet_not_metadata h).
Proof. intros. reld. Qed.
#[local] Hint Resolve rd_common_first_packet_not_metadata : rel.

Lemma rd_handle_eof_without_previous_metadata : forall c ck sz, RelD (handle_eof_without_previous_metadata c ck sz).
Proof. intros. reld. Qed.
#[local] Hint Resolve rd_handle_eof_without_previous_metadata : rel.

Lemma rd_handle_fd_without_previous_metadata : forall f o d, RelD (handle_fd_without_previous_metadata f o d).
Proof. intros. reld. Qed.
#[local] Hint Resolve rd_handle_fd_without_previous_metadata : rel.

Lemma rd_idle_fsm : forall pkt, RelD (idle_fsm pkt).
Proof. intros. reld. Qed.
#[local] Hint Resolve rd_idle_fsm : rel.

Lemma rd_notice_of_completion : RelD notice_of_completion.
Proof. reld. Qed.
#[local] Hint Resolve rd_notice_of_completion : rel.

Lemma rd_handle_transfer_completion : RelD handle_transfer_completion.
Proof. reld. Qed.
#[local] Hint Resolve rd_handle_transfer_completion : rel.

Lemma rd_prepare_finished_pdu : RelD prepare_finished_pdu.
Proof. reld. Qed.
#[local] Hint Resolve rd_prepare_finished_pdu : rel.

Lemma rd_start_positive_ack_procedure : RelD start_positive_ack_procedure.
Proof. reld. Qed.
#[local] Hint Resolve rd_start_positive_ack_procedure : rel.

Lemma rd_handle_finished_pdu_sent : RelD handle_finished_pdu_sent.
Proof. reld. Qed.
#[local] Hint Resolve rd_handle_finished_pdu_sent : rel.

Lemma rd_fsm_advancement : RelD fsm_advancement.
Proof. reld. Qed.
#[local] Hint Resolve rd_fsm_advancement : rel.

Lemma rd_check_limit_handling : RelD check_limit_handling.
Proof. reld. Qed.
#[local] Hint Resolve rd_check_limit_handling : rel.

Lemma rd_handle_waiting_for_missing_metadata : forall pkt, RelD (handle_waiting_for_missing_metadata pkt).
Proof. intros. reld. Qed.
#[local] Hint Resolve rd_handle_waiting_for_missing_metadata : rel.

Lemma rd_handle_positive_ack_procedures : forall again, RelD again -> RelD (handle_positive_ack_procedures again).
Proof. intros again Hagain. reld. Qed.

Lemma rd_handle_waiting_for_finished_ack : forall again pkt,
  RelD again -> RelD (handle_waiting_for_finished_ack again pkt).
Proof. intros again pkt Hagain. reld; apply rd_handle_positive_ack_procedures; exact Hagain. Qed.

Lemma rd_step_is : forall v, RelD (step_is v).
Proof. intros. reld. Qed.
#[local] Hint Resolve rd_step_is : rel.

Lemma rd_non_idle_fsm : forall fuel pkt, RelD (non_idle_fsm fuel pkt).
Proof.
  induction fuel as [|k IH]; intro pkt; cbn [non_idle_fsm]; reld;
    apply rd_handle_waiting_for_finished_ack; reld.
Qed.
#[local] Hint Resolve rd_non_idle_fsm : rel.

Lemma rd_check_inserted_packet : forall p, RelD (check_inserted_packet p).
Proof. intros. reld. Qed.
#[local] Hint Resolve rd_check_inserted_packet : rel.

Lemma rd_state_machine : forall pkt, RelD (Dest.state_machine pkt).
Proof. intros. reld. Qed.

Lemma rd_get_next_packet : RelD Dest.get_next_packet.
Proof. reld. Qed.

Lemma rd_cancel_request : forall a b, RelD (Dest.cancel_request a b).
Proof. intros. reld. Qed.

Lemma dest_parametric : forall pkt s s',
  eqv_d s s' ->
  eqv_d (fst (Dest.state_machine pkt s)) (fst (Dest.state_machine pkt s')) /\
  snd (Dest.state_machine pkt s) = snd (Dest.state_machine pkt s').
Proof. intros pkt s s' H. exact (rd_state_machine pkt s s' H). Qed.

Lemma dest_api_parametric : forall s s' a b,
  eqv_d s s' ->
  (eqv_d (fst (Dest.cancel_request a b s)) (fst (Dest.cancel_request a b s')) /\
   snd (Dest.cancel_request a b s) = snd (Dest.cancel_request a b s')) /\
  (eqv_d (fst (Dest.get_next_packet s)) (fst (Dest.get_next_packet s')) /\ snd (Dest.get_next_packet s) = snd (Dest.get_next_packet s')).
Proof.
  intros s s' a b H. split; [exact (rd_cancel_request a b s s' H) | exact (rd_get_next_packet s s' H)].
Qed.

(* ================================================================== source handler *)
Definition setfs_s (t : tree) (s : src) : src := s <| s_env ::= (fun e => e <| e_fs := t |>) |>.

Lemma get_set_s : forall t s, fs_s (setfs_s t s) = t.
Proof. reflexivity. Qed.
Lemma set_set_s : forall t t' s, setfs_s t (setfs_s t' s) = setfs_s t s.
Proof. reflexivity. Qed.
Lemma set_get_s : forall s, setfs_s (fs_s s) s = s.
Proof. intros [c st step r q p sb pt sc sbits [n f rw l]]. reflexivity. Qed.

#[export] Instance lens_s : FsLens src :=
  {| getfs := fs_s; setfs := setfs_s; get_set := get_set_s; set_set := set_set_s; set_get := set_get_s |}.

(* local copy of the definition in props/C16.v *)
Definition eqv_s (s s' : src) : Prop :=
  same_tree (fs_s s) (fs_s s') /\ s' = s <| s_env ::= (fun e => e <| e_fs := fs_s s' |>) |>.

Lemma eqv_s_eqv : forall s s', eqv_s s s' <-> eqv s s'.
Proof. intros s s'. split; intro H; exact H. Qed.

Lemma s_cfg_setfs : forall t s, s_cfg (setfs t s) = s_cfg s. Proof. reflexivity. Qed.
Lemma s_state_setfs : forall t s, s_state (setfs t s) = s_state s. Proof. reflexivity. Qed.
Lemma s_step_setfs : forall t s, s_step (setfs t s) = s_step s. Proof. reflexivity. Qed.
Lemma s_ready_setfs : forall t s, s_ready (setfs t s) = s_ready s. Proof. reflexivity. Qed.
Lemma s_queue_setfs : forall t s, s_queue (setfs t s) = s_queue s. Proof. reflexivity. Qed.
Lemma s_p_setfs : forall t s, s_p (setfs t s) = s_p s. Proof. reflexivity. Qed.
Lemma s_step_before_setfs : forall t s, s_step_before (setfs t s) = s_step_before s. Proof. reflexivity. Qed.
Lemma s_put_setfs : forall t s, s_put (setfs t s) = s_put s. Proof. reflexivity. Qed.
Lemma s_seq_count_setfs : forall t s, s_seq_count (setfs t s) = s_seq_count s. Proof. reflexivity. Qed.
Lemma s_seq_bits_setfs : forall t s, s_seq_bits (setfs t s) = s_seq_bits s. Proof. reflexivity. Qed.
Lemma s_fs_setfs : forall t s, e_fs (s_env (setfs t s)) = t. Proof. reflexivity. Qed.

Ltac sprojs :=
  rewrite ?s_cfg_setfs, ?s_state_setfs, ?s_step_setfs, ?s_ready_setfs, ?s_queue_setfs, ?s_p_setfs,
          ?s_step_before_setfs, ?s_put_setfs, ?s_seq_count_setfs, ?s_seq_bits_setfs, ?s_fs_setfs.

Ltac rels := repeat (rel_step lens_s sprojs).

Notation RelS m := (@Rel2 src lens_s _ m m).

(* ---- primitives *)
Lemma rs_gq : forall {A} (f : sparams -> A), RelS (gq f).
Proof. intros. rels. Qed.
Lemma rs_setq : forall f, RelS (setq f).
Proof. intros. rels. Qed.
Lemma rs_sset_step : forall v, RelS (sset_step v).
Proof. intros. rels. Qed.
Lemma rs_semit : forall e, RelS (semit e).
Proof. intros. rels. Qed.
Lemma rs_snow : RelS snow.
Proof. rels. Qed.
Lemma rs_sadd_packet : forall p, RelS (sadd_packet p).
Proof. intros. rels. Qed.
Lemma rs_sreset_internal : forall c, RelS (sreset_internal c).
Proof. intros. rels. Qed.
#[local] Hint Resolve rs_gq rs_setq rs_sset_step rs_semit rs_snow rs_sadd_packet rs_sreset_internal : rel.

Lemma rs_stid_or_assert : RelS stid_or_assert.
Proof. rels. Qed.
Lemma rs_srcfg_or_assert : RelS srcfg_or_assert.
Proof. rels. Qed.
Lemma rs_put_or_assert : RelS put_or_assert.
Proof. rels. Qed.
Lemma rs_stmode : RelS stmode.
Proof. rels. Qed.
#[local] Hint Resolve rs_stid_or_assert rs_srcfg_or_assert rs_put_or_assert rs_stmode : rel.
Lemma rs_smode_is : forall m, RelS (smode_is m).
Proof. intros. rels. Qed.
Lemma rs_sstep_is : forall v, RelS (sstep_is v).
Proof. intros. rels. Qed.
Lemma rs_src_names : RelS src_names.
Proof. rels. Qed.
#[local] Hint Resolve rs_smode_is rs_sstep_is rs_src_names : rel.

(* ---- the accesses to the filestore (all of them reads) *)
Lemma rs_checksum_calculation : forall size, RelS (checksum_calculation size).
Proof. intros. rels. Qed.
#[local] Hint Resolve rs_checksum_calculation : rel.

Lemma rs_prepare_file_data_pdu : forall o l, RelS (prepare_file_data_pdu o l).
Proof. intros. rels. Qed.
#[local] Hint Resolve rs_prepare_file_data_pdu : rel.

Lemma rs_transaction_start : RelS transaction_start.
Proof. rels. Qed.
#[local] Hint Resolve rs_transaction_start : rel.

(* ---- the handler, function by function *)
Lemma rs_prepare_metadata_pdu : RelS prepare_metadata_pdu.
Proof. rels. Qed.
#[local] Hint Resolve rs_prepare_metadata_pdu : rel.

Lemma rs_prepare_eof_pdu : forall ck, RelS (prepare_eof_pdu ck).
Proof. intros. rels. Qed.
#[local] Hint Resolve rs_prepare_eof_pdu : rel.

Lemma rs_start_positive_ack_procedure_s : RelS start_positive_ack_procedure_s.
Proof. rels. Qed.
#[local] Hint Resolve rs_start_positive_ack_procedure_s : rel.

Lemma rs_handle_eof_sent : forall b, RelS (handle_eof_sent b).
Proof. intros. rels. Qed.
#[local] Hint Resolve rs_handle_eof_sent : rel.

Lemma rs_notice_of_cancellation_s : forall c, RelS (notice_of_cancellation_s c).
Proof. intros. rels. Qed.
#[local] Hint Resolve rs_notice_of_cancellation_s : rel.

Lemma rs_declare_fault_s : forall c, RelS (declare_fault_s c).
Proof. intros. rels. Qed.
#[local] Hint Resolve rs_declare_fault_s : rel.

Lemma rs_retransmit_chunks : forall fuel o m seg, RelS (retransmit_chunks fuel o m seg).
Proof. induction fuel; intros; cbn [retransmit_chunks]; rels. Qed.
#[local] Hint Resolve rs_retransmit_chunks : rel.

Lemma rs_handle_segment_req : forall rq, RelS (handle_segment_req rq).
Proof. intros. rels. Qed.
#[local] Hint Resolve rs_handle_segment_req : rel.

Lemma rs_handle_retransmission : forall pkt, RelS (handle_retransmission pkt).
Proof. intros. rels. Qed.
#[local] Hint Resolve rs_handle_retransmission : rel.

Lemma rs_prepare_progressing_file_data_pdu : RelS prepare_progressing_file_data_pdu.
Proof. rels. Qed.
#[local] Hint Resolve rs_prepare_progressing_file_data_pdu : rel.

Lemma rs_sending_file_data_fsm : forall pkt, RelS (sending_file_data_fsm pkt).
Proof. intros. rels. Qed.
#[local] Hint Resolve rs_sending_file_data_fsm : rel.

Lemma rs_handle_positive_ack_procedures_s : RelS handle_positive_ack_procedures_s.
Proof. rels. Qed.
#[local] Hint Resolve rs_handle_positive_ack_procedures_s : rel.

Lemma rs_handle_waiting_for_ack : forall pkt, RelS (handle_waiting_for_ack pkt).
Proof. intros. rels. Qed.
#[local] Hint Resolve rs_handle_waiting_for_ack : rel.

Lemma rs_handle_wait_for_finish : forall pkt, RelS (handle_wait_for_finish pkt).
Proof. intros. rels. Qed.
#[local] Hint Resolve rs_handle_wait_for_finish : rel.

Lemma rs_notice_of_completion_s : RelS notice_of_completion_s.
Proof. rels. Qed.
#[local] Hint Resolve rs_notice_of_completion_s : rel.

Lemma rs_fsm_advancement_s : RelS fsm_advancement_s.
Proof. rels. Qed.
#[local] Hint Resolve rs_fsm_advancement_s : rel.

Lemma rs_fsm_non_idle : forall pkt, RelS (fsm_non_idle pkt).
Proof. intros. rels. Qed.
#[local] Hint Resolve rs_fsm_non_idle : rel.

Lemma rs_check_inserted_packet_s : forall p, RelS (check_inserted_packet_s p).
Proof. intros. rels. Qed.
#[local] Hint Resolve rs_check_inserted_packet_s : rel.

Lemma rs_state_machine_s : forall pkt, RelS (state_machine_s pkt).
Proof. intros. rels. Qed.

Lemma rs_get_next_packet_s : RelS get_next_packet_s.
Proof. rels. Qed.

Lemma rs_cancel_request_s : forall a b, RelS (cancel_request_s a b).
Proof. intros. rels. Qed.

Lemma rs_put_request : forall p, RelS (put_request p).
Proof.
  intros. rels.
  change (getfs s0) with (e_fs (s_env s0)) in Ht. rels.
Qed.

Lemma source_parametric : forall pkt s s',
  eqv_s s s' ->
  eqv_s (fst (state_machine_s pkt s)) (fst (state_machine_s pkt s')) /\
  snd (state_machine_s pkt s) = snd (state_machine_s pkt s').
Proof. intros pkt s s' H. exact (rs_state_machine_s pkt s s' H). Qed.

Lemma source_api_parametric : forall s s' p a b,
  eqv_s s s' ->
  (eqv_s (fst (put_request p s)) (fst (put_request p s')) /\ snd (put_request p s) = snd (put_request p s')) /\
  (eqv_s (fst (cancel_request_s a b s)) (fst (cancel_request_s a b s')) /\
   snd (cancel_request_s a b s) = snd (cancel_request_s a b s')) /\
  (eqv_s (fst (get_next_packet_s s)) (fst (get_next_packet_s s')) /\ snd (get_next_packet_s s) = snd (get_next_packet_s s')).
Proof.
  intros s s' p a b H.
  split; [exact (rs_put_request p s s' H)|].
  split; [exact (rs_cancel_request_s a b s s' H) | exact (rs_get_next_packet_s s s' H)].
Qed.

Print Assumptions dest_parametric.
Print Assumptions source_parametric.
Print Assumptions source_api_parametric.
Print Assumptions dest_api_parametric.
Print Assumptions fs_ops_extensional.
Print Assumptions nv_same_tree.
