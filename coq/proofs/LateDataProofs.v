(* LateDataProofs.v — proofs for props/C13c.v: property C13 on the receiver at the level of whole histories, through the
   real entry point Dest.state_machine from a fresh handler: Metadata, any items before the EOF, the EOF (no error) that
   overtook file data, then any schedule of late File Data and polls with arbitrary clock advances.
   Method (as in EofNakProofs.v): the states of the phases are written in constructor form ([RS] receiving, [CL]
   check-limit step, [IDLE]) and each call is executed symbolically with the head-directed interpreter [hrun]; the
   verification is abstracted by the verdict [vok] on (file content, progress); the history level is pure: the file after
   a history of slices ([written_inv], [written_complete]), the timer under a schedule ([expiries], [elapsed]) and the
   invariant [safe] (every expiry so far found a file that does not verify). *)
From CFDP Require Import Base LostSeg LostSegSpec Fs Crc Checksum Handler Dest HandlerSpec.
From CFDP.gen Require Import Tables.
From CFDP.proofs Require Import ChecksumProofs FsProofs NakProofs EofNakProofs.
From RecordUpdate Require Import RecordSet.
Import RecordSetNotations.
Open Scope monad_scope.

Arguments Z.add : simpl never. Arguments Z.sub : simpl never. Arguments Z.mul : simpl never.
Arguments Z.div : simpl never. Arguments Z.max : simpl never. Arguments Z.min : simpl never.
Arguments Z.of_nat : simpl never. Arguments Z.to_nat : simpl never.
Arguments Z.ltb !x !y : simpl nomatch. Arguments Z.leb !x !y : simpl nomatch.
Arguments Z.eqb !x !y : simpl nomatch.
Arguments timed_out : simpl never.
Arguments write_at : simpl never. Arguments set_node : simpl never. Arguments lookup : simpl never.
Arguments calculate_checksum : simpl never.

(* ------------------------------------------------------------------ same bodies as props/C13c.v *)
Definition drain_d (s : dst) : dst * list pdu :=
  (s <| d_queue := [] |> <| d_ready := d_ready s - zlen (d_queue s) |>, d_queue s).
Definition tick (dt : Z) (s : dst) : dst := s <| d_env ::= (fun e => e <| e_now ::= Z.add dt |>) |>.
Definition call_d (c : Z * option pdu) (s : dst) : dst * res Z (list pdu) :=
  match state_machine (snd c) (tick (fst c) s) with
  | (s', Ok _) => let '(s'', ps) := drain_d s' in (s'', Ok ps)
  | (s', Err e) => (s', Err e)
  end.
Fixpoint calls_d (cs : list (Z * option pdu)) (s : dst) : dst * res Z (list (list pdu)) :=
  match cs with
  | [] => (s, Ok [])
  | c :: t => match call_d c s with
              | (s', Ok ps) => match calls_d t s' with
                               | (s'', Ok rest) => (s'', Ok (ps :: rest))
                               | (s'', Err e) => (s'', Err e)
                               end
              | (s', Err e) => (s', Err e)
              end
  end.
Definition dst_fresh (c : lcfg) (fs : tree) : dst := (dst_init c) <| d_env ::= (fun e => e <| e_fs := fs |>) |>.
Definition dest_name (fs : tree) (sn dn : path) : path :=
  if fs_is_directory fs dn then (match rev sn with b :: _ => dn ++ [b] | [] => dn end) else dn.
Definition dest_writable (fs : tree) (p : path) : Prop :=
  (exists d, lookup fs p = Some (File d)) \/ (lookup fs p = None /\ parent_is_dir fs p = true).

(* one item of a schedule: the clock advance before the call and the File Data (offset, data) it delivers, or no PDU *)
Definition item := (Z * option (Z * bytes))%type.
Definition item_call (hd : hdr) (it : item) : Z * option pdu :=
  (fst it, match snd it with Some t => Some (PFileData hd (fst t) (snd t)) | None => None end).
Definition item_data (it : item) : list (Z * bytes) := match snd it with Some t => [t] | None => [] end.
Definition received (sched : list item) : list (Z * bytes) := flat_map item_data sched.
Definition span (t : Z * bytes) : Z * Z := (fst t, zlen (snd t)).
Definition covered (hist : list (Z * Z)) (x : Z) : Prop :=
  exists fd, In fd hist /\ fst fd <= x < fst fd + snd fd.
Definition extent (hist : list (Z * Z)) : Z := fold_left (fun m fd => Z.max m (fst fd + snd fd)) hist 0.
Definition missing (size : Z) (ts : list (Z * bytes)) : Prop := exists x, 0 <= x < size /\ ~ covered (map span ts) x.
Definition complete (size : Z) (ts : list (Z * bytes)) : Prop := forall x, 0 <= x < size -> covered (map span ts) x.
Definition slice_of (data : bytes) (t : Z * bytes) : Prop :=
  0 <= fst t /\ snd t <> [] /\ ztake (zlen (snd t)) (zdrop (fst t) data) = snd t.
Definition written (ts : list (Z * bytes)) : bytes := fold_left (fun d t => write_at d (fst t) (snd t)) ts [].
Fixpoint expiries (ms el : Z) (sched : list item) : Z :=
  match sched with
  | [] => 0
  | it :: t => if ms <=? el + fst it then 1 + expiries ms 0 t else expiries ms (el + fst it) t
  end.
Fixpoint elapsed (ms el : Z) (sched : list item) : Z :=
  match sched with
  | [] => el
  | it :: t => if ms <=? el + fst it then elapsed ms 0 t else elapsed ms (el + fst it) t
  end.
Definition is_fault (e : event) : bool := match e with EvFault _ _ _ _ _ => true | _ => false end.
Definition quiet_event (src seq : Z) (e : event) : Prop :=
  match e with
  | EvFinished _ _ _ _ _ _ => False
  | EvFault k a b cnd _ => k = FH_IGNORE /\ a = src /\ b = seq /\ cnd = C_CHECKSUM_FAILURE
  | _ => True
  end.
Definition quiet_log (src seq n : Z) (lg : list event) : Prop :=
  Forall (quiet_event src seq) lg /\ zlen (filter is_fault lg) = n.

(* at no moment before it is complete does the part of the file received so far (holes read as zeros), once it has the
   length of the whole file, have the checksum of the whole file *)
Definition no_collision (ck size : Z) (cks : bytes) (all : list (Z * bytes)) : Prop :=
  forall ts1 ts2, ts1 ++ ts2 = all -> missing size ts1 -> extent (map span ts1) = size ->
    calculate_checksum ck (Some (written ts1)) size 4096 <> Ok cks.
Definition seg_events (c : lcfg) (src seq : Z) (it : item) : list event :=
  match snd it with
  | Some t => if l_ind_seg c then [EvSegmentRecv src seq (fst t) (zlen (snd t))] else []
  | None => []
  end.

(* ------------------------------------------------------------------ histories: extent, coverage, file content *)
Lemma extent_snoc : forall hst fd, extent (hst ++ [fd]) = Z.max (extent hst) (fst fd + snd fd).
Proof. intros. unfold extent. rewrite fold_left_app. reflexivity. Qed.
Lemma extent_nonneg : forall hst, 0 <= extent hst.
Proof. induction hst as [|fd hst IH] using rev_ind; [unfold extent; cbn; lia|]. rewrite extent_snoc. lia. Qed.
Lemma covered_snoc : forall hst fd x, covered (hst ++ [fd]) x <-> covered hst x \/ fst fd <= x < fst fd + snd fd.
Proof.
  intros hst fd x. unfold covered. split.
  - intros [q [Hq Hx]]. apply in_app_or in Hq. destruct Hq as [Hq | [Hq | []]].
    + left. exists q. split; assumption.
    + subst q. right. exact Hx.
  - intros [[q [Hq Hx]] | Hx].
    + exists q. split; [apply in_or_app; left; exact Hq | exact Hx].
    + exists fd. split; [apply in_or_app; right; left; reflexivity | exact Hx].
Qed.
Lemma covered_lt_extent : forall hst x, covered hst x -> x < extent hst.
Proof.
  induction hst as [|fd hst IH] using rev_ind; intros x H.
  - destruct H as [q [[] _]].
  - rewrite extent_snoc. apply covered_snoc in H. destruct H as [H | H]; [apply IH in H; lia | lia].
Qed.
Lemma covered_app_l : forall a b x, covered a x -> covered (a ++ b) x.
Proof. intros a b x [q [Hq Hx]]. exists q. split; [apply in_or_app; left; exact Hq | exact Hx]. Qed.
Lemma missing_app_l : forall size a b, missing size (a ++ b) -> missing size a.
Proof.
  intros size a b [x [Hx Hn]]. exists x. split; [exact Hx|]. intros Hc. apply Hn. rewrite map_app. apply covered_app_l. exact Hc.
Qed.
Lemma complete_app_l : forall size a b, complete size a -> complete size (a ++ b).
Proof. intros size a b H x Hx. rewrite map_app. apply covered_app_l. apply H. exact Hx. Qed.
Lemma missing_not_complete : forall size ts, missing size ts -> complete size ts -> False.
Proof. intros size ts [x [Hx Hn]] Hc. apply Hn. apply Hc. exact Hx. Qed.

Lemma received_app : forall a b, received (a ++ b) = received a ++ received b.
Proof. intros. unfold received. apply flat_map_app. Qed.
Lemma received_cons : forall it t, received (it :: t) = item_data it ++ received t.
Proof. reflexivity. Qed.

Lemma written_snoc : forall ts t, written (ts ++ [t]) = write_at (written ts) (fst t) (snd t).
Proof. intros. unfold written. rewrite fold_left_app. reflexivity. Qed.

Lemma slice_bounds : forall data t, slice_of data t ->
  0 <= fst t /\ 0 < zlen (snd t) /\ fst t + zlen (snd t) <= zlen data.
Proof.
  intros data [off d] [H0 [Hne He]]. cbn [fst snd] in *.
  assert (Hl : 0 < zlen d) by (destruct d; [contradiction | unfold zlen; cbn [length]; lia]).
  split; [exact H0|]. split; [exact Hl|].
  assert (E : length (ztake (zlen d) (zdrop off data)) = length d) by (rewrite He; reflexivity).
  unfold ztake, zdrop, zlen in *. rewrite firstn_length, skipn_length, Nat2Z.id in E. lia.
Qed.

Lemma slice_nth : forall data t j, slice_of data t -> (j < length (snd t))%nat ->
  nth_error (snd t) j = nth_error data (Z.to_nat (fst t) + j).
Proof.
  intros data [off d] j [H0 [Hne He]] Hj. cbn [fst snd] in *.
  rewrite <- He at 1. unfold ztake, zdrop, zlen. rewrite Nat2Z.id.
  rewrite nth_error_firstn_lt by exact Hj. apply nth_error_skipn_add.
Qed.

Lemma write_inside : forall old d off i, 0 <= off -> d <> [] -> off <= i < off + zlen d ->
  nth_error (write_at old off d) (Z.to_nat i) = nth_error d (Z.to_nat (i - off)).
Proof.
  intros old d off i Hoff Hd Hi. rewrite (write_at_eq old off d Hd). unfold zlen in *.
  rewrite app_assoc.
  pose proof (write_prefix_length old (Z.to_nat off)) as Hpre.
  rewrite nth_error_app2 by (rewrite Hpre; lia). rewrite Hpre.
  rewrite nth_error_app1 by lia. f_equal. lia.
Qed.

Lemma extent_le_size : forall data ts, Forall (slice_of data) ts -> extent (map span ts) <= zlen data.
Proof.
  intros data ts. induction ts as [|t ts IH] using rev_ind; intros HF.
  - unfold extent. cbn. unfold zlen. lia.
  - apply Forall_app in HF. destruct HF as [H1 H2]. inversion H2 as [|? ? Ht _]; subst.
    rewrite map_app. cbn [map]. rewrite extent_snoc. unfold span at 2 3. cbn [fst snd].
    pose proof (slice_bounds _ _ Ht). specialize (IH H1). lia.
Qed.

(* the file after writing slices of [data] into an empty file: as long as the history's extent, and equal to [data]
   wherever the history covers *)
Lemma written_inv : forall data ts, Forall (slice_of data) ts ->
  zlen (written ts) = extent (map span ts) /\
  (forall x, 0 <= x -> covered (map span ts) x -> nth_error (written ts) (Z.to_nat x) = nth_error data (Z.to_nat x)).
Proof.
  intros data ts. induction ts as [|t ts IH] using rev_ind; intros HF.
  - split; [reflexivity|]. intros x _ [q [[] _]].
  - apply Forall_app in HF. destruct HF as [H1 H2]. inversion H2 as [|? ? Ht _]; subst.
    destruct (IH H1) as [IL IC]. destruct (slice_bounds _ _ Ht) as [B0 [B1 B2]].
    assert (Hne : snd t <> []) by (destruct Ht as [_ [Hn _]]; exact Hn).
    rewrite written_snoc, map_app. cbn [map]. rewrite extent_snoc. unfold span at 2 3. cbn [fst snd]. split.
    + rewrite write_length by assumption. rewrite IL. reflexivity.
    + intros x Hx Hc.
      destruct (Z_le_dec (fst t) x) as [Ha|Ha]; [destruct (Z_lt_dec x (fst t + zlen (snd t))) as [Hb|Hb]|].
      * rewrite write_inside by (try assumption; lia).
        rewrite (slice_nth data t _ Ht) by (unfold zlen in *; lia). f_equal. lia.
      * apply covered_snoc in Hc. unfold span at 2 3 4 in Hc. cbn [fst snd] in Hc.
        destruct Hc as [Hc | Hc]; [|lia].
        rewrite write_frame by (try assumption; lia).
        pose proof (covered_lt_extent _ _ Hc) as Hlt. rewrite <- IL in Hlt.
        replace (x <? zlen (written ts)) with true by (symmetry; apply Z.ltb_lt; exact Hlt).
        apply IC; assumption.
      * apply covered_snoc in Hc. unfold span at 2 3 4 in Hc. cbn [fst snd] in Hc.
        destruct Hc as [Hc | Hc]; [|lia].
        rewrite write_frame by (try assumption; lia).
        pose proof (covered_lt_extent _ _ Hc) as Hlt. rewrite <- IL in Hlt.
        replace (x <? zlen (written ts)) with true by (symmetry; apply Z.ltb_lt; exact Hlt).
        apply IC; assumption.
Qed.

Lemma nth_error_ext_eq : forall (A : Type) (l l' : list A), (forall i, nth_error l i = nth_error l' i) -> l = l'.
Proof.
  intros A l. induction l as [|x l IH]; intros [|y l'] H.
  - reflexivity.
  - specialize (H O). discriminate.
  - specialize (H O). discriminate.
  - pose proof (H O) as H0. cbn in H0. injection H0 as ->. f_equal. apply IH. intros i. exact (H (S i)).
Qed.

Lemma complete_extent : forall data ts, Forall (slice_of data) ts -> complete (zlen data) ts ->
  extent (map span ts) = zlen data.
Proof.
  intros data ts HF Hc. pose proof (extent_le_size _ _ HF) as Hle. pose proof (extent_nonneg (map span ts)) as H0.
  destruct (Z_le_dec (zlen data) 0) as [Hz|Hz]; [unfold zlen in *; lia|].
  assert (Hcov : covered (map span ts) (zlen data - 1)) by (apply Hc; lia).
  apply covered_lt_extent in Hcov. lia.
Qed.

Lemma written_complete : forall data ts, Forall (slice_of data) ts -> complete (zlen data) ts -> written ts = data.
Proof.
  intros data ts HF Hc. destruct (written_inv _ _ HF) as [IL IC]. rewrite (complete_extent _ _ HF Hc) in IL.
  apply nth_error_ext_eq. intros i.
  destruct (Nat.lt_ge_cases i (length data)) as [Hi|Hi].
  - rewrite <- (Nat2Z.id i). apply IC; [lia|]. apply Hc. unfold zlen. lia.
  - assert (E1 : nth_error data i = None) by (apply nth_error_None; exact Hi).
    assert (E2 : nth_error (written ts) i = None) by (apply nth_error_None; unfold zlen in IL; lia).
    rewrite E1, E2. reflexivity.
Qed.

(* ------------------------------------------------------------------ the check timer under a schedule *)
Lemma expiries_nonneg : forall ms sched el, 0 <= expiries ms el sched.
Proof.
  intros ms sched. induction sched as [|it t IH]; intros el; cbn [expiries]; [lia|].
  destruct (ms <=? el + fst it); [specialize (IH 0) | specialize (IH (el + fst it))]; lia.
Qed.
Lemma expiries_app : forall ms a b el, expiries ms el (a ++ b) = expiries ms el a + expiries ms (elapsed ms el a) b.
Proof.
  intros ms a b. induction a as [|it t IH]; intros el; cbn [expiries elapsed app]; [lia|].
  destruct (ms <=? el + fst it); rewrite IH; lia.
Qed.
Lemma elapsed_app : forall ms a b el, elapsed ms el (a ++ b) = elapsed ms (elapsed ms el a) b.
Proof.
  intros ms a b. induction a as [|it t IH]; intros el; cbn [elapsed app]; [reflexivity|].
  destruct (ms <=? el + fst it); apply IH.
Qed.

(* ------------------------------------------------------------------ the log while nothing but ignored checksum failures happen *)
Lemma quiet_cons_plain : forall src seq n e lg, quiet_event src seq e -> is_fault e = false ->
  quiet_log src seq n lg -> quiet_log src seq n (e :: lg).
Proof.
  intros src seq n e lg He Hf [H1 H2]. split; [constructor; assumption|]. cbn [filter]. rewrite Hf. exact H2.
Qed.
Lemma quiet_cons_ign : forall src seq n p lg,
  quiet_log src seq n lg -> quiet_log src seq (n + 1) (EvFault FH_IGNORE src seq C_CHECKSUM_FAILURE p :: lg).
Proof.
  intros src seq n p lg [H1 H2]. split.
  - constructor; [cbn; repeat split; reflexivity | exact H1].
  - cbn [filter is_fault]. unfold zlen in *. cbn [length]. lia.
Qed.

(* ------------------------------------------------------------------ one call, states in constructor form *)
Section Run.
Variables (c : lcfg) (r : rcfg) (crc large : bool) (srcid idw seq seqw : Z) (closure : bool) (ck msize : Z) (name : path)
          (size : Z) (cks : bytes).
Hypothesis Hrem : get_remote (l_remotes c) srcid = Some r.
Hypothesis Hck : ck = CK_CRC32 \/ ck = CK_CRC32C.
Hypothesis Hign : get_fault_handler (l_faults c) C_CHECKSUM_FAILURE = Some FH_IGNORE.
Let ms := l_check_ms c.
Hypothesis Hms : 0 < ms.

Definition h : hdr := mkHdr TOWARDS_RECEIVER UNACKED crc large srcid (l_id c) idw seq seqw.
Definition hh : hdr := mkHdr TOWARDS_SENDER UNACKED crc large srcid (l_id c) idw seq seqw.
Definition tid0 : option (Z * Z) := Some (srcid, seq).
Definition fin0 : fin := mkFin DATA_INCOMPLETE FS_RETAINED C_NO_ERROR None.
Definition fin1 : fin := mkFin DATA_COMPLETE FS_RETAINED C_NO_ERROR None.

Definition ST (step : Z) (f : fin) (ckt : option timer) (cnt prog : Z) (crcv : bytes) (eof : option Z) (en : env) : dst :=
  mkDst c ST_BUSY step tid0 0 []
    (mkDP tid0 (Some r) ckt cnt closure ck f DISP_COMPLETED hh
          prog crcv (Some msize) name eof false [] false 0 0 false None 0 None 0) en.
Definition RS (prog : Z) (en : env) : dst := ST DS_RECEIVING_FILE_DATA fin0 None 0 prog [] None en.
Definition CL (t0 cnt prog : Z) (en : env) : dst :=
  ST DS_RECV_WITH_CHECK_LIMIT fin0 (Some (t0, ms)) cnt prog cks (Some size) en.
Definition IDLE (en : env) : dst := mkDst c ST_IDLE DS_IDLE tid0 0 [] fresh_params en.

Definition seg_log (off len : Z) (lg : list event) : list event :=
  if l_ind_seg c then EvSegmentRecv srcid seq off len :: lg else lg.
Definition eof_log (lg : list event) : list event := if l_ind_eof_recv c then EvEofRecv srcid seq :: lg else lg.
Definition ign (prog : Z) : event := EvFault FH_IGNORE srcid seq C_CHECKSUM_FAILURE prog.
Definition fin_log (lg : list event) : list event :=
  if l_ind_fin c then EvFinished srcid seq C_NO_ERROR DATA_COMPLETE FS_RETAINED None :: lg else lg.
Definition finished_pdu : pdu := PFinished hh C_NO_ERROR DATA_COMPLETE FS_RETAINED None.

(* the verdict of the verification of a file holding [d] when [prog] bytes have been received *)
Definition vok (d : bytes) (prog : Z) : bool :=
  match calculate_checksum ck (Some d) prog 4096 with
  | Ok x => bytes_eqb x cks && (size <=? prog)
  | Err _ => false
  end.

Lemma calc_ok : forall d n, 0 <= n -> exists x, calculate_checksum ck (Some d) n 4096 = Ok x.
Proof.
  intros d n Hn. unfold calculate_checksum.
  destruct Hck as [-> | ->].
  - change (CK_CRC32 =? CK_NULL) with false. change (CK_CRC32 =? CK_MODULAR) with false. change (4096 =? 0) with false.
    change (CK_CRC32 =? CK_CRC32) with true. cbn [negb orb]. rewrite crc_loop_top by lia. eexists. reflexivity.
  - change (CK_CRC32C =? CK_NULL) with false. change (CK_CRC32C =? CK_MODULAR) with false. change (4096 =? 0) with false.
    change (CK_CRC32C =? CK_CRC32) with false. change (CK_CRC32C =? CK_CRC32C) with true. cbn [negb orb].
    rewrite crc_loop_top by lia. eexists. reflexivity.
Qed.
Lemma ck_not_null : (ck =? CK_NULL) = false.
Proof. destruct Hck as [-> | ->]; reflexivity. Qed.

(* ---- the structure of one state_machine call on a busy handler (as in EofNakProofs.v) *)
Lemma check_fd : forall off data s, d_state s = ST_BUSY -> d_cfg s = c ->
  check_inserted_packet (PFileData h off data) s = (s, Ok tt).
Proof.
  intros off data s Hst Hc. unfold check_inserted_packet. unfold bind at 1. unfold get at 1.
  cbn [pdu_hdr h h_dir h_dst h_src]. rewrite Hc, Hrem, Hst, !Z.eqb_refl. reflexivity.
Qed.
Lemma check_eof : forall cond cs sz fl s, d_state s = ST_BUSY -> d_cfg s = c ->
  check_inserted_packet (PEof h cond cs sz fl) s = (s, Ok tt).
Proof.
  intros cond cs sz fl s Hst Hc. unfold check_inserted_packet. unfold bind at 1. unfold get at 1.
  cbn [pdu_hdr h h_dir h_dst h_src]. rewrite Hc, Hrem, Hst, !Z.eqb_refl. reflexivity.
Qed.
Lemma check_md : forall fsz names msgs s, d_state s = ST_IDLE -> d_cfg s = c ->
  check_inserted_packet (PMetadata h closure ck fsz names msgs) s = (s, Ok tt).
Proof.
  intros fsz names msgs s Hst Hc. unfold check_inserted_packet. unfold bind at 1. unfold get at 1.
  cbn [pdu_hdr h h_dir h_dst h_src]. rewrite Hc, Hrem, Hst, !Z.eqb_refl. reflexivity.
Qed.

Lemma sm_busy : forall pkt s,
  (match pkt with Some p => check_inserted_packet p s = (s, Ok tt) | None => True end) ->
  d_state s = ST_BUSY -> d_queue s = [] -> d_step s <> DS_SENDING_EOF_ACK ->
  state_machine pkt s =
  catch_abandoned
    (st <- get_step ;;
     when ((st =? DS_RECEIVING_FILE_DATA) || (st =? DS_RECV_WITH_CHECK_LIMIT)) (recv_block pkt) ;;;
     tail_mid 2 pkt) s.
Proof.
  intros pkt s Hck' Hst Hq Hstep. unfold state_machine.
  assert (E : (match pkt with Some p => check_inserted_packet p | None => ret tt end) s = (s, Ok tt))
    by (destruct pkt; [exact Hck' | reflexivity]).
  rewrite (bind_ok _ _ _ _ _ _ _ E). unfold catch_abandoned, catch.
  unfold bind at 1. unfold get at 1. rewrite Hst. cbn [Z.eqb ST_BUSY ST_IDLE Pos.eqb].
  unfold bind at 1. unfold ret at 1. unfold bind at 1. unfold get at 1. rewrite Hst.
  change (ST_BUSY =? ST_BUSY) with true. unfold when at 1. rewrite nif_eq.
  unfold bind at 1. unfold fsm_advancement at 1. unfold bind at 1. unfold get at 1. rewrite Hq.
  change (0 <? zlen (@nil pdu)) with false. cbv iota.
  replace (d_step s =? DS_SENDING_EOF_ACK) with false by (symmetry; apply Z.eqb_neq; exact Hstep).
  reflexivity.
Qed.

(* ---- File Data in unacknowledged mode: written, the progress follows, nothing else *)
Lemma hfd : forall step f ckt cnt prog crcv eof nw fs lg off data old,
  lookup fs name = Some (File old) ->
  (match eof with Some sz => off + zlen data <= sz | None => True end) ->
  handle_fd_pdu off data (ST step f ckt cnt prog crcv eof (mkEnv nw fs false lg)) =
  (ST step (f <| f_fstatus := FS_RETAINED |>) ckt cnt (Z.max (off + zlen data) prog) crcv eof
      (mkEnv nw (set_node fs name (File (write_at old off data))) false (seg_log off (zlen data) lg)), Ok tt).
Proof.
  intros step f ckt cnt prog crcv eof nw fs lg off data old Hl He.
  assert (Ee : match eof with Some sz => sz <? off + zlen data | None => false end = false).
  { destruct eof as [sz|]; [apply Z.ltb_ge; lia | reflexivity]. }
  unfold handle_fd_pdu, seg_log, ST. destruct f as [a1 a2 a3 a4].
  destruct (l_ind_seg c) eqn:Eind; msimp; rewrite ?Eind; msimp; nrm; unfold fs_write_data; rewrite Hl; msimp;
    destruct eof as [sz|]; msimp; rewrite ?Ee; msimp; reflexivity.
Qed.

(* ---- the verification *)
Lemma cv_fail : forall step ckt cnt prog nw fs lg d,
  lookup fs name = Some (File d) -> 0 <= prog -> vok d prog = false ->
  checksum_verify (ST step fin0 ckt cnt prog cks (Some size) (mkEnv nw fs false lg)) =
  (ST step fin0 ckt cnt prog cks (Some size) (mkEnv nw fs false (ign prog :: lg)), Ok false).
Proof.
  intros step ckt cnt prog nw fs lg d Hl Hp Hv. unfold vok in Hv.
  destruct (calc_ok d prog Hp) as [x Ex]. rewrite Ex in Hv.
  unfold checksum_verify, vfs_checksum, ST, fin0, ign, tid0. hrun. prj. rewrite ck_not_null. cbn [orb]. hrun. prj.
  rewrite ?ck_not_null, Hl, Ex. hrun. prj. rewrite Hv. unfold declare_fault. hrun. prj. rewrite Hign. hrun. reflexivity.
Qed.
Lemma cv_ok : forall step ckt cnt prog nw fs lg d,
  lookup fs name = Some (File d) -> 0 <= prog -> vok d prog = true ->
  checksum_verify (ST step fin0 ckt cnt prog cks (Some size) (mkEnv nw fs false lg)) =
  (ST step fin1 ckt cnt prog cks (Some size) (mkEnv nw fs false lg), Ok true).
Proof.
  intros step ckt cnt prog nw fs lg d Hl Hp Hv. unfold vok in Hv.
  destruct (calc_ok d prog Hp) as [x Ex]. rewrite Ex in Hv.
  unfold checksum_verify, vfs_checksum, ST, fin0, fin1, tid0. hrun. prj. rewrite ck_not_null. cbn [orb]. hrun. prj.
  rewrite ?ck_not_null, Hl, Ex. hrun. prj. rewrite Hv. hrun. reflexivity.
Qed.

(* ---- the check-limit step of a call: tail_mid on a state in step RECV_WITH_CHECK_LIMIT *)
Lemma tm_wait : forall k pkt t0 cnt prog en,
  timed_out (e_now en) (t0, ms) = false ->
  tail_mid k pkt (CL t0 cnt prog en) = (CL t0 cnt prog en, Ok tt).
Proof.
  intros k pkt t0 cnt prog [nw fs rw lg] Hto. cbn [e_now] in Hto.
  unfold tail_mid, CL, ST. hrun. unfold check_limit_handling, rcfg_or_assert, now. hrun. prj. rewrite Hto. hrun.
  unfold tail_fin. hrun. reflexivity.
Qed.

Lemma tm_count : forall k pkt t0 cnt prog nw fs lg d,
  timed_out nw (t0, ms) = true -> lookup fs name = Some (File d) -> 0 <= prog -> vok d prog = false ->
  cnt + 1 < r_check_limit r ->
  tail_mid k pkt (CL t0 cnt prog (mkEnv nw fs false lg)) =
  (CL nw (cnt + 1) prog (mkEnv nw fs false (ign prog :: lg)), Ok tt).
Proof.
  intros k pkt t0 cnt prog nw fs lg d Hto Hl Hp Hv Hlim.
  assert (El : (r_check_limit r <=? cnt + 1) = false) by (apply Z.leb_gt; exact Hlim).
  unfold tail_mid, CL. unfold ST at 1. hrun. unfold check_limit_handling, rcfg_or_assert, now. hrun. prj. rewrite Hto.
  cbv iota. hrun.
  match goal with |- bind checksum_verify ?k ?s = _ =>
    rewrite (bind_ok _ _ checksum_verify k s _ _
      (cv_fail DS_RECV_WITH_CHECK_LIMIT (Some (t0, ms)) cnt prog nw fs lg d Hl Hp Hv : checksum_verify s = (_, _))) end. cbv iota. unfold ST. hrun. prj. rewrite El. hrun.
  unfold tail_fin. hrun. reflexivity.
Qed.

Definition done_state (en : env) : dst :=
  mkDst c ST_IDLE DS_IDLE tid0 (if closure then 0 + 1 else 0) (if closure then [finished_pdu] else []) fresh_params en.

Lemma tm_done : forall k pkt t0 cnt prog nw fs lg d,
  timed_out nw (t0, ms) = true -> lookup fs name = Some (File d) -> 0 <= prog -> vok d prog = true ->
  tail_mid k pkt (CL t0 cnt prog (mkEnv nw fs false lg)) = (done_state (mkEnv nw fs false (fin_log lg)), Ok tt).
Proof.
  intros k pkt t0 cnt prog nw fs lg d Hto Hl Hp Hv.
  unfold tail_mid, CL. unfold ST at 1. hrun. unfold check_limit_handling, rcfg_or_assert, now. hrun. prj. rewrite Hto.
  cbv iota. hrun.
  match goal with |- bind checksum_verify ?k ?s = _ =>
    rewrite (bind_ok _ _ checksum_verify k s _ _
      (cv_ok DS_RECV_WITH_CHECK_LIMIT (Some (t0, ms)) cnt prog nw fs lg d Hl Hp Hv : checksum_verify s = (_, _))) end. cbv iota. unfold ST, fin1, hh.
  unfold file_transfer_complete_transition. hrun.
  unfold tail_fin. hrun. unfold handle_transfer_completion, notice_of_completion. hrun. prj.
  unfold done_state, fin_log, finished_pdu, hh, tid0.
  destruct (l_ind_fin c); destruct closure; hrun; prj; cbn [andb orb]; hrun;
    try (unfold prepare_finished_pdu, conf; hrun; unfold handle_finished_pdu_sent; hrun; prj; cbn [andb]; hrun);
    unfold reset_internal; hrun; reflexivity.
Qed.

(* ---- the limit-th expiry: Check Limit Reached, handled as configured *)
Definition lim_ev (fh prog : Z) : event := EvFault fh srcid seq C_CHECK_LIMIT prog.
Definition cfstat : Z := if r_disposition r then FS_DISCARDED_DELIBERATELY else FS_RETAINED.
Definition cfin_log (lg : list event) : list event :=
  if l_ind_fin c then EvFinished srcid seq C_CHECK_LIMIT DATA_INCOMPLETE cfstat None :: lg else lg.
Definition cfinished_pdu : pdu := PFinished hh C_CHECK_LIMIT DATA_INCOMPLETE cfstat None.
Definition cancelled_state (en : env) : dst :=
  mkDst c ST_IDLE DS_IDLE tid0 (if closure then 0 + 1 else 0) (if closure then [cfinished_pdu] else []) fresh_params en.

Lemma tm_limit_cancel : forall k pkt t0 cnt prog nw fs lg d,
  get_fault_handler (l_faults c) C_CHECK_LIMIT = Some FH_CANCEL ->
  timed_out nw (t0, ms) = true -> lookup fs name = Some (File d) -> 0 <= prog -> vok d prog = false ->
  r_check_limit r <= cnt + 1 ->
  tail_mid k pkt (CL t0 cnt prog (mkEnv nw fs false lg)) =
  (cancelled_state (mkEnv nw (if r_disposition r then fst (fs_delete_file fs name) else fs) false
                      (cfin_log (lim_ev FH_CANCEL prog :: ign prog :: lg))), Ok tt).
Proof.
  intros k pkt t0 cnt prog nw fs lg d Hfh Hto Hl Hp Hv Hlim.
  assert (El : (r_check_limit r <=? cnt + 1) = true) by (apply Z.leb_le; exact Hlim).
  unfold tail_mid, CL. unfold ST at 1. hrun. unfold check_limit_handling, rcfg_or_assert, now. hrun. prj. rewrite Hto.
  cbv iota. hrun.
  match goal with |- bind checksum_verify ?k ?s = _ =>
    rewrite (bind_ok _ _ checksum_verify k s _ _
      (cv_fail DS_RECV_WITH_CHECK_LIMIT (Some (t0, ms)) cnt prog nw fs lg d Hl Hp Hv : checksum_verify s = (_, _))) end. cbv iota.
  unfold ST, tid0. hrun. prj. rewrite El. cbv iota. unfold declare_fault. hrun. prj. rewrite Hfh. cbv iota.
  unfold notice_of_cancellation. hrun.
  unfold tail_fin. hrun. unfold handle_transfer_completion, notice_of_completion, rcfg_or_assert. hrun. prj.
  unfold cancelled_state, cfin_log, cfinished_pdu, cfstat, lim_ev, ign, hh, tid0, fin0.
  destruct (r_disposition r); cbn [andb]; hrun; prj;
  destruct (l_ind_fin c); destruct closure; hrun; prj; cbn [andb orb]; hrun;
    try (unfold prepare_finished_pdu, conf; hrun; unfold handle_finished_pdu_sent; hrun; prj; cbn [andb]; hrun);
    unfold reset_internal; hrun; reflexivity.
Qed.

Lemma tm_limit_abandon : forall k pkt t0 cnt prog nw fs lg d,
  get_fault_handler (l_faults c) C_CHECK_LIMIT = Some FH_ABANDON ->
  timed_out nw (t0, ms) = true -> lookup fs name = Some (File d) -> 0 <= prog -> vok d prog = false ->
  r_check_limit r <= cnt + 1 ->
  tail_mid k pkt (CL t0 cnt prog (mkEnv nw fs false lg)) =
  (IDLE (mkEnv nw fs false (lim_ev FH_ABANDON prog :: ign prog :: lg)), Err E_ABANDONED).
Proof.
  intros k pkt t0 cnt prog nw fs lg d Hfh Hto Hl Hp Hv Hlim.
  assert (El : (r_check_limit r <=? cnt + 1) = true) by (apply Z.leb_le; exact Hlim).
  unfold tail_mid, CL. unfold ST at 1. hrun. unfold check_limit_handling, rcfg_or_assert, now. hrun. prj. rewrite Hto.
  cbv iota. hrun.
  match goal with |- bind checksum_verify ?k ?s = _ =>
    rewrite (bind_ok _ _ checksum_verify k s _ _
      (cv_fail DS_RECV_WITH_CHECK_LIMIT (Some (t0, ms)) cnt prog nw fs lg d Hl Hp Hv : checksum_verify s = (_, _))) end. cbv iota.
  unfold ST, tid0. hrun. prj. rewrite El. cbv iota. unfold declare_fault. hrun. prj. rewrite Hfh. cbv iota.
  unfold reset_internal. hrun. reflexivity.
Qed.

(* IGNORE (F34 repair): the expiry is counted and the timer restarted as below the limit *)
Lemma tm_limit_ignore : forall k pkt t0 cnt prog nw fs lg d,
  get_fault_handler (l_faults c) C_CHECK_LIMIT = Some FH_IGNORE ->
  timed_out nw (t0, ms) = true -> lookup fs name = Some (File d) -> 0 <= prog -> vok d prog = false ->
  r_check_limit r <= cnt + 1 ->
  tail_mid k pkt (CL t0 cnt prog (mkEnv nw fs false lg)) =
  (CL nw (cnt + 1) prog (mkEnv nw fs false (lim_ev FH_IGNORE prog :: ign prog :: lg)), Ok tt).
Proof.
  intros k pkt t0 cnt prog nw fs lg d Hfh Hto Hl Hp Hv Hlim.
  assert (El : (r_check_limit r <=? cnt + 1) = true) by (apply Z.leb_le; exact Hlim).
  unfold tail_mid, CL. unfold ST at 1. hrun. unfold check_limit_handling, rcfg_or_assert, now. hrun. prj. rewrite Hto.
  cbv iota. hrun.
  match goal with |- bind checksum_verify ?k ?s = _ =>
    rewrite (bind_ok _ _ checksum_verify k s _ _
      (cv_fail DS_RECV_WITH_CHECK_LIMIT (Some (t0, ms)) cnt prog nw fs lg d Hl Hp Hv : checksum_verify s = (_, _))) end. cbv iota.
  unfold ST, tid0. hrun. prj. rewrite El. cbv iota. unfold declare_fault. hrun. prj. rewrite Hfh. cbv iota.
  change (FH_IGNORE =? FH_CANCEL) with false. change (FH_IGNORE =? FH_ABANDON) with false. cbv iota. hrun.
  change (FH_IGNORE =? FH_ABANDON) with false. cbv iota. hrun.
  change (FH_IGNORE =? FH_IGNORE) with true. cbv iota. hrun. prj. hrun.
  unfold tail_fin. hrun. reflexivity.
Qed.

(* any other handler (SUSPEND): only the callback *)
Lemma tm_limit_other : forall k pkt t0 cnt prog nw fs lg d fh,
  get_fault_handler (l_faults c) C_CHECK_LIMIT = Some fh -> fh <> FH_CANCEL -> fh <> FH_ABANDON -> fh <> FH_IGNORE ->
  timed_out nw (t0, ms) = true -> lookup fs name = Some (File d) -> 0 <= prog -> vok d prog = false ->
  r_check_limit r <= cnt + 1 ->
  tail_mid k pkt (CL t0 cnt prog (mkEnv nw fs false lg)) =
  (CL t0 cnt prog (mkEnv nw fs false (lim_ev fh prog :: ign prog :: lg)), Ok tt).
Proof.
  intros k pkt t0 cnt prog nw fs lg d fh Hfh Hn1 Hn2 Hn3 Hto Hl Hp Hv Hlim.
  assert (El : (r_check_limit r <=? cnt + 1) = true) by (apply Z.leb_le; exact Hlim).
  assert (E1 : (fh =? FH_CANCEL) = false) by (apply Z.eqb_neq; exact Hn1).
  assert (E2 : (fh =? FH_ABANDON) = false) by (apply Z.eqb_neq; exact Hn2).
  assert (E3 : (fh =? FH_IGNORE) = false) by (apply Z.eqb_neq; exact Hn3).
  unfold tail_mid, CL. unfold ST at 1. hrun. unfold check_limit_handling, rcfg_or_assert, now. hrun. prj. rewrite Hto.
  cbv iota. hrun.
  match goal with |- bind checksum_verify ?k ?s = _ =>
    rewrite (bind_ok _ _ checksum_verify k s _ _
      (cv_fail DS_RECV_WITH_CHECK_LIMIT (Some (t0, ms)) cnt prog nw fs lg d Hl Hp Hv : checksum_verify s = (_, _))) end. cbv iota.
  unfold ST, tid0. hrun. prj. rewrite El. cbv iota. unfold declare_fault. hrun. prj. rewrite Hfh. cbv iota.
  rewrite E1, E2. hrun. rewrite ?E2. hrun. rewrite ?E3. hrun.
  unfold tail_fin. hrun. reflexivity.
Qed.

(* ---- whole calls *)
Lemma start_md : forall nw fs sn dn msgs,
  name = dest_name fs sn dn -> dest_writable fs name ->
  start_transaction h closure ck msize (Some (sn, dn)) msgs
    (mkDst c ST_IDLE DS_IDLE None 0 [] fresh_params (mkEnv nw fs false [])) =
  (RS 0 (mkEnv nw (set_node fs name (File [])) false
            [EvMetadataRecv srcid seq srcid (Some msize) (Some (sn, dn)) msgs]), Ok tt).
Proof.
  intros nw fs sn dn msgs Hn Hw.
  unfold start_transaction, fresh_params, h. hrun. unfold common_first_packet_handler. hrun. rewrite Hrem.
  unfold handle_metadata_packet. hrun.
  erewrite bind_ok by (apply (init_vfs_run name _ _ fs sn dn); [reflexivity | reflexivity | reflexivity | exact Hn | exact Hw]).
  hrun. reflexivity.
Qed.

Lemma md_call : forall dt fs sn dn msgs,
  name = dest_name fs sn dn -> dest_writable fs name ->
  call_d (dt, Some (PMetadata h closure ck msize (Some (sn, dn)) msgs)) (dst_fresh c fs) =
  (RS 0 (mkEnv (dt + 0) (set_node fs name (File [])) false
            [EvMetadataRecv srcid seq srcid (Some msize) (Some (sn, dn)) msgs]), Ok []).
Proof.
  intros dt fs sn dn msgs Hn Hw. unfold call_d. cbn [fst snd].
  change (tick dt (dst_fresh c fs)) with (mkDst c ST_IDLE DS_IDLE None 0 [] fresh_params (mkEnv (dt + 0) fs false [])).
  assert (E : state_machine (Some (PMetadata h closure ck msize (Some (sn, dn)) msgs))
                (mkDst c ST_IDLE DS_IDLE None 0 [] fresh_params (mkEnv (dt + 0) fs false [])) =
              (RS 0 (mkEnv (dt + 0) (set_node fs name (File [])) false
                  [EvMetadataRecv srcid seq srcid (Some msize) (Some (sn, dn)) msgs]), Ok tt)).
  { unfold state_machine.
    rewrite (bind_ok _ _ _ _ _ _ _ (check_md _ _ _ (mkDst c ST_IDLE DS_IDLE None 0 [] fresh_params (mkEnv (dt + 0) fs false [])) eq_refl eq_refl)).
    unfold catch_abandoned. apply catch_ok. hrun. cbn [idle_fsm].
    erewrite bind_ok by (apply start_md; [exact Hn | exact Hw]).
    unfold RS, ST. hrun. rewrite nif_eq.
    erewrite bind_ok by (apply fsm_adv_nop; [reflexivity | discriminate]).
    hrun. cbn [recv_block]. hrun. apply tail_mid_skip. left. reflexivity. }
  rewrite E. reflexivity.
Qed.

(* the effect of one item on the progress, the destination file and the log *)
Definition it_prog (it : item) (prog : Z) : Z :=
  match snd it with Some t => Z.max (fst t + zlen (snd t)) prog | None => prog end.
Definition it_file (it : item) (old : bytes) : bytes :=
  match snd it with Some t => write_at old (fst t) (snd t) | None => old end.
Definition it_fs (it : item) (fs : tree) (old : bytes) : tree :=
  match snd it with Some t => set_node fs name (File (write_at old (fst t) (snd t))) | None => fs end.
Definition it_log (it : item) (lg : list event) : list event :=
  match snd it with Some t => seg_log (fst t) (zlen (snd t)) lg | None => lg end.
Definition it_fits (it : item) : Prop :=
  match snd it with Some t => fst t + zlen (snd t) <= size | None => True end.

Lemma lookup_it_fs : forall it fs old, lookup fs name = Some (File old) ->
  lookup (it_fs it fs old) name = Some (File (it_file it old)).
Proof.
  intros [dt [[off data]|]] fs old Hl; unfold it_fs, it_file; cbn [snd fst]; [|exact Hl].
  rewrite lookup_set_node by (eapply lookup_file_ne; exact Hl). rewrite path_eqb_refl. reflexivity.
Qed.

Lemma catch_abandoned_ok : forall m s s1, m s = (s1, Ok tt) -> catch_abandoned m s = (s1, Ok tt).
Proof. intros m s s1 H. unfold catch_abandoned. apply catch_ok. exact H. Qed.
Lemma catch_abandoned_ab : forall m s s1, m s = (s1, Err E_ABANDONED) -> catch_abandoned m s = (s1, Ok tt).
Proof. intros m s s1 H. unfold catch_abandoned, catch. rewrite H. reflexivity. Qed.

(* a call while receiving (before the EOF): File Data is written, a poll does nothing *)
Lemma rs_call : forall it prog nw fs lg old,
  lookup fs name = Some (File old) ->
  call_d (item_call h it) (RS prog (mkEnv nw fs false lg)) =
  (RS (it_prog it prog) (mkEnv (fst it + nw) (it_fs it fs old) false (it_log it lg)), Ok []).
Proof.
  intros [dt [[off data]|]] prog nw fs lg old Hl; unfold call_d, item_call, it_prog, it_fs, it_log; cbn [fst snd].
  - change (tick dt (RS prog (mkEnv nw fs false lg))) with (RS prog (mkEnv (dt + nw) fs false lg)).
    rewrite sm_busy; [| apply check_fd; reflexivity | reflexivity | reflexivity | discriminate].
    erewrite catch_abandoned_ok; cycle 1.
    { rewrite bind_get_step.
      change (d_step (RS prog (mkEnv (dt + nw) fs false lg))) with DS_RECEIVING_FILE_DATA.
      change ((DS_RECEIVING_FILE_DATA =? DS_RECEIVING_FILE_DATA) || (DS_RECEIVING_FILE_DATA =? DS_RECV_WITH_CHECK_LIMIT)) with true.
      rewrite bind_when_true. cbn [recv_block]. unfold RS.
      rewrite (bind_ok _ _ _ _ _ _ _ (hfd _ _ _ _ _ _ None _ _ _ _ _ _ Hl I)).
      apply tail_mid_skip. left. reflexivity. }
    reflexivity.
  - change (tick dt (RS prog (mkEnv nw fs false lg))) with (RS prog (mkEnv (dt + nw) fs false lg)).
    rewrite sm_busy; [| exact I | reflexivity | reflexivity | discriminate].
    erewrite catch_abandoned_ok; cycle 1.
    { rewrite bind_get_step.
      change (d_step (RS prog (mkEnv (dt + nw) fs false lg))) with DS_RECEIVING_FILE_DATA.
      change ((DS_RECEIVING_FILE_DATA =? DS_RECEIVING_FILE_DATA) || (DS_RECEIVING_FILE_DATA =? DS_RECV_WITH_CHECK_LIMIT)) with true.
      rewrite bind_when_true. cbn [recv_block]. rewrite bind_ret.
      apply tail_mid_skip. left. reflexivity. }
    reflexivity.
Qed.

Lemma timer_fresh : forall nw, timed_out nw (nw, ms) = false.
Proof. intros nw. unfold timed_out. cbn [fst snd]. apply Z.leb_gt. lia. Qed.

(* the EOF (no error) that does not verify: the check-limit step is entered, the timer starts, nothing is sent *)
Lemma eof_call : forall dt fl prog nw fs lg d,
  lookup fs name = Some (File d) -> 0 <= prog <= size -> vok d prog = false ->
  call_d (dt, Some (PEof h C_NO_ERROR cks size fl)) (RS prog (mkEnv nw fs false lg)) =
  (CL (dt + nw) 0 prog (mkEnv (dt + nw) fs false (ign prog :: eof_log lg)), Ok []).
Proof.
  intros dt fl prog nw fs lg d Hl Hp Hv. unfold call_d. cbn [fst snd].
  change (tick dt (RS prog (mkEnv nw fs false lg))) with (RS prog (mkEnv (dt + nw) fs false lg)).
  rewrite sm_busy; [| apply check_eof; reflexivity | reflexivity | reflexivity | discriminate].
  assert (Eg : (size <? prog) = false) by (apply Z.ltb_ge; lia).
  assert (E : (st <- get_step;;
               when ((st =? DS_RECEIVING_FILE_DATA) || (st =? DS_RECV_WITH_CHECK_LIMIT))
                 (recv_block (Some (PEof h C_NO_ERROR cks size fl)));;;
               tail_mid 2 (Some (PEof h C_NO_ERROR cks size fl))) (RS prog (mkEnv (dt + nw) fs false lg)) =
              (CL (dt + nw) 0 prog (mkEnv (dt + nw) fs false (ign prog :: eof_log lg)), Ok tt)).
  { unfold RS, ST, eof_log, tid0. hrun. cbn [recv_block]. unfold handle_eof_pdu. hrun.
    destruct (l_ind_eof_recv c); hrun; [unfold tid_or_assert; hrun|]; unfold handle_no_error_eof; hrun;
      cbn [opt_z p_file_size_eof p_progress]; rewrite Eg; cbv iota; prj; rewrite andb_false_r; cbv iota; hrun;
      (match goal with |- bind checksum_verify ?k ?s = _ =>
         rewrite (bind_ok _ _ checksum_verify k s _ _
           (cv_fail DS_RECEIVING_FILE_DATA None 0 prog (dt + nw) fs _ d Hl (proj1 Hp) Hv : checksum_verify s = (_, _))) end);
      cbv iota; unfold ST; hrun; prj; rewrite Hign; cbv iota; hrun;
      unfold start_check_limit_handling, rcfg_or_assert, now; hrun; prj;
      apply (tm_wait 2 _ (dt + nw) 0 prog (mkEnv (dt + nw) fs false _)); apply timer_fresh. }
  rewrite (catch_abandoned_ok _ _ _ E). reflexivity.
Qed.

Lemma catch_abandoned_ext : forall (m m' : D unit) s s', m s = m' s' -> catch_abandoned m s = catch_abandoned m' s'.
Proof. intros m m' s s' H. unfold catch_abandoned, catch. rewrite H. reflexivity. Qed.

(* a call in the check-limit step: the File Data (if any) is written first, then the timer is looked at *)
Lemma cl_call_pre : forall it t0 cnt prog nw fs lg old,
  lookup fs name = Some (File old) -> it_fits it ->
  state_machine (snd (item_call h it)) (tick (fst (item_call h it)) (CL t0 cnt prog (mkEnv nw fs false lg))) =
  catch_abandoned (tail_mid 2 (snd (item_call h it)))
    (CL t0 cnt (it_prog it prog) (mkEnv (fst it + nw) (it_fs it fs old) false (it_log it lg))).
Proof.
  intros [dt [[off data]|]] t0 cnt prog nw fs lg old Hl Hf; unfold item_call, it_prog, it_fs, it_log, it_fits in *; cbn [fst snd] in *.
  - change (tick dt (CL t0 cnt prog (mkEnv nw fs false lg))) with (CL t0 cnt prog (mkEnv (dt + nw) fs false lg)).
    rewrite sm_busy; [| apply check_fd; reflexivity | reflexivity | reflexivity | discriminate].
    apply catch_abandoned_ext.
    rewrite bind_get_step.
    change (d_step (CL t0 cnt prog (mkEnv (dt + nw) fs false lg))) with DS_RECV_WITH_CHECK_LIMIT.
    change ((DS_RECV_WITH_CHECK_LIMIT =? DS_RECEIVING_FILE_DATA) || (DS_RECV_WITH_CHECK_LIMIT =? DS_RECV_WITH_CHECK_LIMIT)) with true.
    rewrite bind_when_true. cbn [recv_block]. unfold CL.
    rewrite (bind_ok _ _ _ _ _ _ _ (hfd _ _ _ _ _ _ (Some size) _ _ _ _ _ _ Hl Hf)). reflexivity.
  - change (tick dt (CL t0 cnt prog (mkEnv nw fs false lg))) with (CL t0 cnt prog (mkEnv (dt + nw) fs false lg)).
    rewrite sm_busy; [| exact I | reflexivity | reflexivity | discriminate].
    apply catch_abandoned_ext.
    rewrite bind_get_step.
    change (d_step (CL t0 cnt prog (mkEnv (dt + nw) fs false lg))) with DS_RECV_WITH_CHECK_LIMIT.
    change ((DS_RECV_WITH_CHECK_LIMIT =? DS_RECEIVING_FILE_DATA) || (DS_RECV_WITH_CHECK_LIMIT =? DS_RECV_WITH_CHECK_LIMIT)) with true.
    rewrite bind_when_true. cbn [recv_block]. rewrite bind_ret. reflexivity.
Qed.

Lemma cl_call_wait : forall it t0 cnt prog nw fs lg old,
  lookup fs name = Some (File old) -> it_fits it -> timed_out (fst it + nw) (t0, ms) = false ->
  call_d (item_call h it) (CL t0 cnt prog (mkEnv nw fs false lg)) =
  (CL t0 cnt (it_prog it prog) (mkEnv (fst it + nw) (it_fs it fs old) false (it_log it lg)), Ok []).
Proof.
  intros it t0 cnt prog nw fs lg old Hl Hf Hto. unfold call_d. rewrite (cl_call_pre _ _ _ _ _ _ _ _ Hl Hf).
  erewrite catch_abandoned_ok by (apply tm_wait; exact Hto). reflexivity.
Qed.

Lemma cl_call_count : forall it t0 cnt prog nw fs lg old,
  lookup fs name = Some (File old) -> it_fits it -> timed_out (fst it + nw) (t0, ms) = true ->
  0 <= it_prog it prog -> vok (it_file it old) (it_prog it prog) = false -> cnt + 1 < r_check_limit r ->
  call_d (item_call h it) (CL t0 cnt prog (mkEnv nw fs false lg)) =
  (CL (fst it + nw) (cnt + 1) (it_prog it prog)
      (mkEnv (fst it + nw) (it_fs it fs old) false (ign (it_prog it prog) :: it_log it lg)), Ok []).
Proof.
  intros it t0 cnt prog nw fs lg old Hl Hf Hto Hp Hv Hlim. unfold call_d. rewrite (cl_call_pre _ _ _ _ _ _ _ _ Hl Hf).
  erewrite catch_abandoned_ok by (apply (tm_count _ _ _ _ _ _ _ _ _ Hto (lookup_it_fs _ _ _ Hl) Hp Hv Hlim)).
  reflexivity.
Qed.

Lemma cl_call_done : forall it t0 cnt prog nw fs lg old,
  lookup fs name = Some (File old) -> it_fits it -> timed_out (fst it + nw) (t0, ms) = true ->
  0 <= it_prog it prog -> vok (it_file it old) (it_prog it prog) = true ->
  call_d (item_call h it) (CL t0 cnt prog (mkEnv nw fs false lg)) =
  (IDLE (mkEnv (fst it + nw) (it_fs it fs old) false (fin_log (it_log it lg))), Ok (if closure then [finished_pdu] else [])).
Proof.
  intros it t0 cnt prog nw fs lg old Hl Hf Hto Hp Hv. unfold call_d. rewrite (cl_call_pre _ _ _ _ _ _ _ _ Hl Hf).
  erewrite catch_abandoned_ok by (apply (tm_done _ _ _ _ _ _ _ _ _ Hto (lookup_it_fs _ _ _ Hl) Hp Hv)).
  unfold done_state, IDLE. destruct closure; reflexivity.
Qed.

Lemma cl_call_limit_cancel : forall it t0 cnt prog nw fs lg old,
  get_fault_handler (l_faults c) C_CHECK_LIMIT = Some FH_CANCEL ->
  lookup fs name = Some (File old) -> it_fits it -> timed_out (fst it + nw) (t0, ms) = true ->
  0 <= it_prog it prog -> vok (it_file it old) (it_prog it prog) = false -> r_check_limit r <= cnt + 1 ->
  call_d (item_call h it) (CL t0 cnt prog (mkEnv nw fs false lg)) =
  (IDLE (mkEnv (fst it + nw) (if r_disposition r then fst (fs_delete_file (it_fs it fs old) name) else it_fs it fs old) false
           (cfin_log (lim_ev FH_CANCEL (it_prog it prog) :: ign (it_prog it prog) :: it_log it lg))),
   Ok (if closure then [cfinished_pdu] else [])).
Proof.
  intros it t0 cnt prog nw fs lg old Hfh Hl Hf Hto Hp Hv Hlim. unfold call_d. rewrite (cl_call_pre _ _ _ _ _ _ _ _ Hl Hf).
  erewrite catch_abandoned_ok by (apply (tm_limit_cancel _ _ _ _ _ _ _ _ _ Hfh Hto (lookup_it_fs _ _ _ Hl) Hp Hv Hlim)).
  unfold cancelled_state, IDLE. destruct closure; reflexivity.
Qed.

Lemma cl_call_limit_abandon : forall it t0 cnt prog nw fs lg old,
  get_fault_handler (l_faults c) C_CHECK_LIMIT = Some FH_ABANDON ->
  lookup fs name = Some (File old) -> it_fits it -> timed_out (fst it + nw) (t0, ms) = true ->
  0 <= it_prog it prog -> vok (it_file it old) (it_prog it prog) = false -> r_check_limit r <= cnt + 1 ->
  call_d (item_call h it) (CL t0 cnt prog (mkEnv nw fs false lg)) =
  (IDLE (mkEnv (fst it + nw) (it_fs it fs old) false
           (lim_ev FH_ABANDON (it_prog it prog) :: ign (it_prog it prog) :: it_log it lg)), Ok []).
Proof.
  intros it t0 cnt prog nw fs lg old Hfh Hl Hf Hto Hp Hv Hlim. unfold call_d. rewrite (cl_call_pre _ _ _ _ _ _ _ _ Hl Hf).
  erewrite catch_abandoned_ab by (apply (tm_limit_abandon _ _ _ _ _ _ _ _ _ Hfh Hto (lookup_it_fs _ _ _ Hl) Hp Hv Hlim)).
  reflexivity.
Qed.

Lemma cl_call_limit_ignore : forall it t0 cnt prog nw fs lg old,
  get_fault_handler (l_faults c) C_CHECK_LIMIT = Some FH_IGNORE ->
  lookup fs name = Some (File old) -> it_fits it -> timed_out (fst it + nw) (t0, ms) = true ->
  0 <= it_prog it prog -> vok (it_file it old) (it_prog it prog) = false -> r_check_limit r <= cnt + 1 ->
  call_d (item_call h it) (CL t0 cnt prog (mkEnv nw fs false lg)) =
  (CL (fst it + nw) (cnt + 1) (it_prog it prog) (mkEnv (fst it + nw) (it_fs it fs old) false
           (lim_ev FH_IGNORE (it_prog it prog) :: ign (it_prog it prog) :: it_log it lg)), Ok []).
Proof.
  intros it t0 cnt prog nw fs lg old Hfh Hl Hf Hto Hp Hv Hlim. unfold call_d. rewrite (cl_call_pre _ _ _ _ _ _ _ _ Hl Hf).
  erewrite catch_abandoned_ok by (apply (tm_limit_ignore _ _ _ _ _ _ _ _ _ Hfh Hto (lookup_it_fs _ _ _ Hl) Hp Hv Hlim)).
  reflexivity.
Qed.

Lemma cl_call_limit_other : forall it t0 cnt prog nw fs lg old fh,
  get_fault_handler (l_faults c) C_CHECK_LIMIT = Some fh -> fh <> FH_CANCEL -> fh <> FH_ABANDON -> fh <> FH_IGNORE ->
  lookup fs name = Some (File old) -> it_fits it -> timed_out (fst it + nw) (t0, ms) = true ->
  0 <= it_prog it prog -> vok (it_file it old) (it_prog it prog) = false -> r_check_limit r <= cnt + 1 ->
  call_d (item_call h it) (CL t0 cnt prog (mkEnv nw fs false lg)) =
  (CL t0 cnt (it_prog it prog) (mkEnv (fst it + nw) (it_fs it fs old) false
           (lim_ev fh (it_prog it prog) :: ign (it_prog it prog) :: it_log it lg)), Ok []).
Proof.
  intros it t0 cnt prog nw fs lg old fh Hfh H1 H2 H3 Hl Hf Hto Hp Hv Hlim. unfold call_d. rewrite (cl_call_pre _ _ _ _ _ _ _ _ Hl Hf).
  erewrite catch_abandoned_ok by (apply (tm_limit_other _ _ _ _ _ _ _ _ _ _ Hfh H1 H2 H3 Hto (lookup_it_fs _ _ _ Hl) Hp Hv Hlim)).
  reflexivity.
Qed.

(* ---- sequences of calls *)
Lemma calls_d_app : forall a b s s1 o1 s2 o2,
  calls_d a s = (s1, Ok o1) -> calls_d b s1 = (s2, Ok o2) -> calls_d (a ++ b) s = (s2, Ok (o1 ++ o2)).
Proof.
  induction a as [|x a IH]; intros b s s1 o1 s2 o2 H1 H2.
  - cbn [calls_d] in H1. injection H1 as <- <-. exact H2.
  - cbn [calls_d app] in *. destruct (call_d x s) as [s' [ps|e]]; [|discriminate].
    destruct (calls_d a s') as [s'' [rest|e]] eqn:E; [|discriminate].
    injection H1 as <- <-. rewrite (IH b s' s'' rest s2 o2 E H2). reflexivity.
Qed.
Lemma calls_d_cons : forall x a s s1 o s2 os,
  call_d x s = (s1, Ok o) -> calls_d a s1 = (s2, Ok os) -> calls_d (x :: a) s = (s2, Ok (o :: os)).
Proof. intros x a s s1 o s2 os H1 H2. cbn [calls_d]. rewrite H1, H2. reflexivity. Qed.
Lemma calls_d_one : forall x s s1 o, call_d x s = (s1, Ok o) -> calls_d [x] s = (s1, Ok [o]).
Proof. intros x s s1 o H. cbn [calls_d]. rewrite H. reflexivity. Qed.

Variable data : bytes.
Hypothesis Hsize : size = zlen data.
Hypothesis Hcks : calculate_checksum ck (Some data) size 4096 = Ok cks.

Lemma it_prog_extent : forall it ts, it_prog it (extent (map span ts)) = extent (map span (ts ++ item_data it)).
Proof.
  intros [dt [[off d]|]] ts; unfold it_prog, item_data; cbn [fst snd].
  - rewrite map_app. cbn [map]. rewrite extent_snoc. unfold span at 2 3. cbn [fst snd]. apply Z.max_comm.
  - rewrite app_nil_r. reflexivity.
Qed.
Lemma it_file_written : forall it ts, it_file it (written ts) = written (ts ++ item_data it).
Proof.
  intros [dt [[off d]|]] ts; unfold it_file, item_data; cbn [fst snd].
  - rewrite written_snoc. reflexivity.
  - rewrite app_nil_r. reflexivity.
Qed.
Lemma it_fits_slice : forall it, Forall (slice_of data) (item_data it) -> it_fits it.
Proof.
  intros [dt [[off d]|]] HF; unfold it_fits, item_data in *; cbn [fst snd] in *; [|exact I].
  inversion HF as [|? ? Ht _]; subst. pose proof (slice_bounds _ _ Ht) as B. cbn [fst snd] in B. lia.
Qed.
Lemma quiet_it_log : forall it n lg, quiet_log srcid seq n lg -> quiet_log srcid seq n (it_log it lg).
Proof.
  intros [dt [[off d]|]] n lg H; unfold it_log, seg_log; cbn [fst snd]; [|exact H].
  destruct (l_ind_seg c); [|exact H]. apply quiet_cons_plain; [exact I | reflexivity | exact H].
Qed.

(* ---- the verdicts *)
Lemma vok_short : forall d prog, prog < size -> vok d prog = false.
Proof.
  intros d prog H. unfold vok. destruct (calculate_checksum ck (Some d) prog 4096); [|reflexivity].
  replace (size <=? prog) with false by (symmetry; apply Z.leb_gt; exact H). apply andb_false_r.
Qed.
Lemma vok_complete : forall ts, Forall (slice_of data) ts -> complete size ts ->
  vok (written ts) (extent (map span ts)) = true.
Proof.
  intros ts HF Hc. rewrite Hsize in Hc. rewrite (written_complete _ _ HF Hc), (complete_extent _ _ HF Hc), <- Hsize.
  unfold vok. rewrite Hcks. rewrite Z.leb_refl, andb_true_r. apply bytes_eqb_eq. reflexivity.
Qed.
Lemma vok_missing : forall all ts rest, no_collision ck size cks all -> ts ++ rest = all ->
  Forall (slice_of data) ts -> missing size ts -> vok (written ts) (extent (map span ts)) = false.
Proof.
  intros all ts rest HN Happ HF Hm.
  pose proof (extent_le_size _ _ HF) as Hle. rewrite <- Hsize in Hle.
  destruct (Z_lt_dec (extent (map span ts)) size) as [Hlt|Hge]; [apply vok_short; exact Hlt|].
  assert (He : extent (map span ts) = size) by lia.
  pose proof (HN ts rest Happ Hm He) as Hne. unfold vok. rewrite He.
  destruct (calculate_checksum ck (Some (written ts)) size 4096) as [x|e]; [|reflexivity].
  destruct (bytes_eqb x cks) eqn:Eb; [|reflexivity]. apply bytes_eqb_eq in Eb. subst x. exfalso. apply Hne. reflexivity.
Qed.

(* every expiry of the timer under the schedule finds a file that does not verify *)
Fixpoint safe (el : Z) (ts : list (Z * bytes)) (sched : list item) : Prop :=
  match sched with
  | [] => True
  | it :: t =>
      if ms <=? el + fst it
      then vok (written (ts ++ item_data it)) (extent (map span (ts ++ item_data it))) = false /\ safe 0 (ts ++ item_data it) t
      else safe (el + fst it) (ts ++ item_data it) t
  end.

Lemma safe_missing : forall sched ts el,
  no_collision ck size cks (ts ++ received sched) -> Forall (slice_of data) (ts ++ received sched) ->
  missing size (ts ++ received sched) -> safe el ts sched.
Proof.
  induction sched as [|it t IH]; intros ts el HN HF Hm; cbn [safe]; [exact I|].
  rewrite received_cons, app_assoc in HN, HF, Hm.
  destruct (ms <=? el + fst it).
  - split; [|apply IH; assumption].
    apply (vok_missing _ _ (received t) HN eq_refl).
    + apply Forall_app in HF. tauto.
    + eapply missing_app_l. exact Hm.
  - apply IH; assumption.
Qed.
Lemma safe_no_expiry : forall sched ts el, expiries ms el sched = 0 -> safe el ts sched.
Proof.
  induction sched as [|it t IH]; intros ts el H; cbn [safe expiries] in *; [exact I|].
  destruct (ms <=? el + fst it).
  - pose proof (expiries_nonneg ms t 0). lia.
  - apply IH. exact H.
Qed.
Lemma safe_app : forall a b ts el, safe el ts a -> safe (elapsed ms el a) (ts ++ received a) b -> safe el ts (a ++ b).
Proof.
  induction a as [|it t IH]; intros b ts el H1 H2; cbn [safe elapsed app] in *.
  - unfold received in H2. cbn [flat_map] in H2. rewrite app_nil_r in H2. exact H2.
  - rewrite received_cons, app_assoc in H2. destruct (ms <=? el + fst it).
    + destruct H1 as [H1 H1']. split; [exact H1 | apply IH; assumption].
    + apply IH; assumption.
Qed.

(* ---- the receiving phase: any items before the EOF *)
Lemma rs_run : forall early ts nw fs lg n,
  lookup fs name = Some (File (written ts)) -> quiet_log srcid seq n lg ->
  exists nw' fs' lg',
    calls_d (map (item_call h) early) (RS (extent (map span ts)) (mkEnv nw fs false lg)) =
      (RS (extent (map span (ts ++ received early))) (mkEnv nw' fs' false lg'), Ok (map (fun _ => []) early)) /\
    lookup fs' name = Some (File (written (ts ++ received early))) /\ quiet_log srcid seq n lg'.
Proof.
  induction early as [|it t IH]; intros ts nw fs lg n Hl Hq.
  - exists nw, fs, lg. unfold received. cbn [flat_map map calls_d]. rewrite app_nil_r. split; [reflexivity | split; assumption].
  - pose proof (rs_call it (extent (map span ts)) nw fs lg _ Hl) as Ec.
    rewrite it_prog_extent in Ec.
    pose proof (lookup_it_fs it fs _ Hl) as Hl'. rewrite it_file_written in Hl'.
    destruct (IH (ts ++ item_data it) (fst it + nw) _ _ n Hl' (quiet_it_log it n lg Hq)) as [nw' [fs' [lg' [Er [Hlr Hqr]]]]].
    rewrite <- app_assoc, <- received_cons in Er, Hlr.
    exists nw', fs', lg'. split; [|split; assumption].
    cbn [map]. apply (calls_d_cons _ _ _ _ _ _ _ Ec Er).
Qed.

(* ---- the check-limit phase: every expiry fails and only counts *)
Lemma timed_out_el : forall dt nw t0, timed_out (dt + nw) (t0, ms) = (ms <=? (nw - t0) + dt).
Proof. intros. unfold timed_out. cbn [fst snd]. f_equal. lia. Qed.

Lemma cl_run : forall sched ts t0 cnt nw fs lg n,
  Forall (slice_of data) (received sched) ->
  lookup fs name = Some (File (written ts)) ->
  safe (nw - t0) ts sched -> cnt + expiries ms (nw - t0) sched < r_check_limit r ->
  quiet_log srcid seq n lg ->
  exists nw' fs' lg',
    calls_d (map (item_call h) sched) (CL t0 cnt (extent (map span ts)) (mkEnv nw fs false lg)) =
      (CL (nw' - elapsed ms (nw - t0) sched) (cnt + expiries ms (nw - t0) sched)
          (extent (map span (ts ++ received sched))) (mkEnv nw' fs' false lg'), Ok (map (fun _ => []) sched)) /\
    lookup fs' name = Some (File (written (ts ++ received sched))) /\
    quiet_log srcid seq (n + expiries ms (nw - t0) sched) lg'.
Proof.
  induction sched as [|it t IH]; intros ts t0 cnt nw fs lg n HF Hl Hs Hlim Hq.
  - exists nw, fs, lg. unfold received. cbn [flat_map map calls_d elapsed expiries]. rewrite app_nil_r, !Z.add_0_r.
    replace (nw - (nw - t0)) with t0 by lia. split; [reflexivity | split; assumption].
  - rewrite received_cons in HF. apply Forall_app in HF. destruct HF as [HFi HFt].
    pose proof (it_fits_slice it HFi) as Hfit.
    pose proof (lookup_it_fs it fs _ Hl) as Hl'. rewrite it_file_written in Hl'.
    cbn [safe expiries elapsed] in *.
    pose proof (timed_out_el (fst it) nw t0) as Hto.
    destruct (ms <=? nw - t0 + fst it) eqn:Ee.
    + destruct Hs as [Hv Hs].
      pose proof (expiries_nonneg ms t 0) as Hnn.
      assert (Hp : 0 <= it_prog it (extent (map span ts))) by (rewrite it_prog_extent; apply extent_nonneg).
      pose proof (cl_call_count it t0 cnt (extent (map span ts)) nw fs lg _ Hl Hfit Hto Hp) as Ec.
      rewrite it_file_written, it_prog_extent in Ec. specialize (Ec Hv ltac:(lia)).
      replace 0 with ((fst it + nw) - (fst it + nw)) in Hs by lia.
      destruct (IH (ts ++ item_data it) (fst it + nw) (cnt + 1) (fst it + nw) (it_fs it fs (written ts))
                   (ign (extent (map span (ts ++ item_data it))) :: it_log it lg) (n + 1) HFt Hl' Hs) as [nw' [fs' [lg' [Er [Hlr Hqr]]]]].
      { replace (fst it + nw - (fst it + nw)) with 0 by lia. lia. }
      { apply quiet_cons_ign. apply quiet_it_log. exact Hq. }
      replace (fst it + nw - (fst it + nw)) with 0 in Er, Hqr by lia.
      rewrite <- app_assoc, <- received_cons in Er, Hlr.
      exists nw', fs', lg'. split; [|split; [exact Hlr|]].
      * cbn [map]. replace (cnt + (1 + expiries ms 0 t)) with (cnt + 1 + expiries ms 0 t) by lia.
        apply (calls_d_cons _ _ _ _ _ _ _ Ec Er).
      * replace (n + (1 + expiries ms 0 t)) with (n + 1 + expiries ms 0 t) by lia. exact Hqr.
    + pose proof (cl_call_wait it t0 cnt (extent (map span ts)) nw fs lg _ Hl Hfit Hto) as Ec.
      rewrite it_prog_extent in Ec.
      replace (nw - t0 + fst it) with (fst it + nw - t0) in Hs, Hlim |- * by lia.
      destruct (IH (ts ++ item_data it) t0 cnt (fst it + nw) _ _ n HFt Hl' Hs Hlim (quiet_it_log it n lg Hq))
        as [nw' [fs' [lg' [Er [Hlr Hqr]]]]].
      rewrite <- app_assoc, <- received_cons in Er, Hlr.
      exists nw', fs', lg'. split; [|split; assumption].
      cbn [map]. apply (calls_d_cons _ _ _ _ _ _ _ Ec Er).
Qed.

(* ---- Metadata, the items before the EOF, the EOF that does not verify *)
Lemma writable_ne : forall fs p, dest_writable fs p -> p <> [].
Proof.
  intros fs p [[d Hd] | [Hd _]] ->.
  - unfold lookup in Hd. discriminate.
  - unfold lookup in Hd. discriminate.
Qed.

Definition md_pdu (sn dn : path) (msgs : list Z) : pdu := PMetadata h closure ck msize (Some (sn, dn)) msgs.
Definition eof_pdu (fl : option (Z * Z)) : pdu := PEof h C_NO_ERROR cks size fl.

Lemma to_cl : forall fs sn dn msgs early dt0 dt1 fl,
  name = dest_name fs sn dn -> dest_writable fs name ->
  Forall (slice_of data) (received early) ->
  vok (written (received early)) (extent (map span (received early))) = false ->
  exists nw fs' lg,
    calls_d ((dt0, Some (md_pdu sn dn msgs)) :: map (item_call h) early ++ [(dt1, Some (eof_pdu fl))]) (dst_fresh c fs) =
      (CL nw 0 (extent (map span (received early))) (mkEnv nw fs' false lg), Ok ([] :: map (fun _ => []) early ++ [[]])) /\
    lookup fs' name = Some (File (written (received early))) /\ quiet_log srcid seq 1 lg.
Proof.
  intros fs sn dn msgs early dt0 dt1 fl Hn Hw HF Hv.
  pose proof (md_call dt0 fs sn dn msgs Hn Hw) as E0.
  assert (Hl0 : lookup (set_node fs name (File [])) name = Some (File (written []))).
  { rewrite lookup_set_node by (eapply writable_ne; exact Hw). rewrite path_eqb_refl. reflexivity. }
  assert (Hq0 : quiet_log srcid seq 0 [EvMetadataRecv srcid seq srcid (Some msize) (Some (sn, dn)) msgs]).
  { split; [constructor; [exact I | constructor] | reflexivity]. }
  destruct (rs_run early [] (dt0 + 0) _ _ 0 Hl0 Hq0) as [nw1 [fs1 [lg1 [E1 [Hl1 Hq1]]]]].
  cbn [app] in E1, Hl1.
  assert (Hp : 0 <= extent (map span (received early)) <= size).
  { split; [apply extent_nonneg | rewrite Hsize; apply extent_le_size; exact HF]. }
  pose proof (eof_call dt1 fl _ nw1 fs1 lg1 _ Hl1 Hp Hv) as E2.
  exists (dt1 + nw1), fs1, (ign (extent (map span (received early))) :: eof_log lg1).
  split; [|split; [exact Hl1|]].
  - apply (calls_d_cons _ _ _ _ _ _ _ E0). apply (calls_d_app _ _ _ _ _ _ _ E1). apply calls_d_one. exact E2.
  - apply (quiet_cons_ign srcid seq 0). unfold eof_log. destruct (l_ind_eof_recv c); [|exact Hq1].
    apply quiet_cons_plain; [exact I | reflexivity | exact Hq1].
Qed.

Definition run_calls (sn dn : path) (msgs : list Z) (fl : option (Z * Z)) (dt0 dt1 : Z) (early sched : list item)
  : list (Z * option pdu) :=
  (dt0, Some (md_pdu sn dn msgs)) :: map (item_call h) early ++ (dt1, Some (eof_pdu fl)) :: map (item_call h) sched.
Definition quiet_out (early sched : list item) : list (list pdu) :=
  [] :: map (fun _ => []) early ++ [] :: map (fun _ => []) sched.

(* the run up to a point before which every expiry found a file that does not verify *)
Lemma safe_run : forall fs sn dn msgs early sched dt0 dt1 fl,
  name = dest_name fs sn dn -> dest_writable fs name ->
  Forall (slice_of data) (received (early ++ sched)) ->
  vok (written (received early)) (extent (map span (received early))) = false ->
  safe 0 (received early) sched -> expiries ms 0 sched < r_check_limit r ->
  exists nw fs' lg,
    calls_d (run_calls sn dn msgs fl dt0 dt1 early sched) (dst_fresh c fs) =
      (CL (nw - elapsed ms 0 sched) (expiries ms 0 sched) (extent (map span (received (early ++ sched))))
          (mkEnv nw fs' false lg), Ok (quiet_out early sched)) /\
    lookup fs' name = Some (File (written (received (early ++ sched)))) /\
    quiet_log srcid seq (1 + expiries ms 0 sched) lg.
Proof.
  intros fs sn dn msgs early sched dt0 dt1 fl Hn Hw HF Hv Hs Hlim.
  rewrite received_app in HF |- *. apply Forall_app in HF. destruct HF as [HFe HFs].
  destruct (to_cl fs sn dn msgs early dt0 dt1 fl Hn Hw HFe Hv) as [nw1 [fs1 [lg1 [E1 [Hl1 Hq1]]]]].
  destruct (cl_run sched (received early) nw1 0 nw1 fs1 lg1 1 HFs Hl1) as [nw2 [fs2 [lg2 [E2 [Hl2 Hq2]]]]].
  { replace (nw1 - nw1) with 0 by lia. exact Hs. }
  { replace (nw1 - nw1) with 0 by lia. lia. }
  { exact Hq1. }
  replace (nw1 - nw1) with 0 in E2, Hq2 by lia. rewrite Z.add_0_l in E2.
  exists nw2, fs2, lg2. split; [|split; assumption].
  unfold run_calls, quiet_out.
  change ((dt0, Some (md_pdu sn dn msgs)) :: map (item_call h) early ++ (dt1, Some (eof_pdu fl)) :: map (item_call h) sched)
    with (((dt0, Some (md_pdu sn dn msgs)) :: map (item_call h) early) ++ ([(dt1, Some (eof_pdu fl))] ++ map (item_call h) sched)).
  rewrite app_assoc.
  change ([] :: map (fun _ : item => []) early ++ [] :: map (fun _ : item => []) sched)
    with (([] :: map (fun _ : item => @nil pdu) early) ++ ([[]] ++ map (fun _ : item => []) sched)).
  rewrite (app_assoc ([] :: map (fun _ : item => []) early)).
  apply (calls_d_app _ _ _ _ _ _ _ E1 E2).
Qed.

Lemma early_fails : forall all early rest, no_collision ck size cks all -> received early ++ rest = all ->
  Forall (slice_of data) (received early) -> missing size (received early) ->
  vok (written (received early)) (extent (map span (received early))) = false.
Proof. intros all early rest HN Ha HF Hm. exact (vok_missing all _ rest HN Ha HF Hm). Qed.

(* (a) as long as data is missing every expiry only counts *)
Lemma waits_run : forall fs sn dn msgs early sched dt0 dt1 fl,
  name = dest_name fs sn dn -> dest_writable fs name ->
  Forall (slice_of data) (received (early ++ sched)) ->
  no_collision ck size cks (received (early ++ sched)) -> missing size (received (early ++ sched)) ->
  expiries ms 0 sched < r_check_limit r ->
  exists nw fs' lg,
    calls_d (run_calls sn dn msgs fl dt0 dt1 early sched) (dst_fresh c fs) =
      (CL (nw - elapsed ms 0 sched) (expiries ms 0 sched) (extent (map span (received (early ++ sched))))
          (mkEnv nw fs' false lg), Ok (quiet_out early sched)) /\
    lookup fs' name = Some (File (written (received (early ++ sched)))) /\
    quiet_log srcid seq (1 + expiries ms 0 sched) lg.
Proof.
  intros fs sn dn msgs early sched dt0 dt1 fl Hn Hw HF HN Hm Hlim.
  apply safe_run; try assumption.
  - rewrite received_app in *. apply (early_fails _ early (received sched) HN eq_refl).
    + apply Forall_app in HF. tauto.
    + eapply missing_app_l. exact Hm.
  - rewrite received_app in *. apply safe_missing; assumption.
Qed.

Lemma run_calls_snoc : forall sn dn msgs fl dt0 dt1 early sched fin,
  run_calls sn dn msgs fl dt0 dt1 early (sched ++ [fin]) =
  run_calls sn dn msgs fl dt0 dt1 early sched ++ [item_call h fin].
Proof.
  intros. unfold run_calls. rewrite map_app. cbn [map]. rewrite app_comm_cons, (app_comm_cons _ _ (dt1, Some (eof_pdu fl))).
  rewrite app_assoc. reflexivity.
Qed.
Lemma quiet_out_snoc : forall early sched (fin : item) o,
  quiet_out early sched ++ [o] = [] :: map (fun _ => []) early ++ [] :: map (fun _ => []) sched ++ [o].
Proof. intros. unfold quiet_out. cbn [app]. rewrite <- app_assoc. reflexivity. Qed.

Definition seg_ev (it : item) : list event := seg_events c srcid seq it.
Lemma it_log_seg_ev : forall it lg, it_log it lg = seg_ev it ++ lg.
Proof.
  intros [dt [[off d]|]] lg; unfold it_log, seg_ev, seg_events, seg_log; cbn [fst snd]; [|reflexivity].
  destruct (l_ind_seg c); reflexivity.
Qed.

(* (b) the first expiry that finds the file complete completes the transaction *)
Lemma completes_run : forall fs sn dn msgs early pre wait fin dt0 dt1 fl,
  name = dest_name fs sn dn -> dest_writable fs name ->
  Forall (slice_of data) (received (early ++ pre ++ wait ++ [fin])) ->
  no_collision ck size cks (received (early ++ pre)) -> missing size (received (early ++ pre)) ->
  expiries ms 0 pre < r_check_limit r ->
  expiries ms (elapsed ms 0 pre) wait = 0 ->
  ms <= elapsed ms 0 (pre ++ wait) + fst fin ->
  complete size (received (early ++ pre ++ wait ++ [fin])) ->
  exists nw fs' lg,
    calls_d (run_calls sn dn msgs fl dt0 dt1 early ((pre ++ wait) ++ [fin])) (dst_fresh c fs) =
      (IDLE (mkEnv nw fs' false (fin_log (seg_ev fin ++ lg))),
       Ok (quiet_out early (pre ++ wait) ++ [if closure then [finished_pdu] else []])) /\
    lookup fs' name = Some (File data) /\ quiet_log srcid seq (1 + expiries ms 0 pre) lg.
Proof.
  intros fs sn dn msgs early pre wait fin dt0 dt1 fl Hn Hw HF HN Hm Hlim Hnx Hex Hc.
  assert (HF' : Forall (slice_of data) (received (early ++ pre ++ wait)) /\ Forall (slice_of data) (item_data fin)).
  { replace (early ++ pre ++ wait ++ [fin]) with ((early ++ pre ++ wait) ++ [fin]) in HF by (rewrite <- !app_assoc; reflexivity).
    rewrite received_app in HF. apply Forall_app in HF. destruct HF as [H1 H2]. split; [exact H1|].
    unfold received in H2. cbn [flat_map] in H2. rewrite app_nil_r in H2. exact H2. }
  destruct HF' as [HF1 HF2].
  assert (HFp : Forall (slice_of data) (received (early ++ pre))).
  { rewrite app_assoc, received_app in HF1. apply Forall_app in HF1. tauto. }
  destruct (safe_run fs sn dn msgs early (pre ++ wait) dt0 dt1 fl Hn Hw HF1) as [nw1 [fs1 [lg1 [E1 [Hl1 Hq1]]]]].
  - rewrite received_app in HN, HFp, Hm. apply (early_fails _ early (received pre) HN eq_refl).
    + apply Forall_app in HFp. tauto.
    + eapply missing_app_l. exact Hm.
  - apply safe_app.
    + rewrite received_app in HN, HFp, Hm. apply safe_missing; assumption.
    + apply safe_no_expiry. exact Hnx.
  - rewrite expiries_app, Hnx. lia.
  - rewrite expiries_app, Hnx, Z.add_0_r in E1, Hq1.
    assert (Hfit : it_fits fin) by (apply it_fits_slice; exact HF2).
    assert (Hto : timed_out (fst fin + nw1) (nw1 - elapsed ms 0 (pre ++ wait), ms) = true).
    { rewrite timed_out_el. apply Z.leb_le. lia. }
    assert (Hall : received (early ++ pre ++ wait ++ [fin]) = received (early ++ pre ++ wait) ++ item_data fin).
    { replace (early ++ pre ++ wait ++ [fin]) with ((early ++ pre ++ wait) ++ [fin]) by (rewrite <- !app_assoc; reflexivity).
      rewrite received_app. unfold received at 2. cbn [flat_map]. rewrite app_nil_r. reflexivity. }
    assert (HFall : Forall (slice_of data) (received (early ++ pre ++ wait) ++ item_data fin)) by (apply Forall_app; split; assumption).
    rewrite Hall in Hc.
    assert (Hp : 0 <= it_prog fin (extent (map span (received (early ++ pre ++ wait))))) by (rewrite it_prog_extent; apply extent_nonneg).
    pose proof (cl_call_done fin _ (expiries ms 0 pre) _ nw1 fs1 lg1 _ Hl1 Hfit Hto Hp) as E2.
    rewrite it_file_written, it_prog_extent in E2. specialize (E2 (vok_complete _ HFall Hc)).
    exists (fst fin + nw1), (it_fs fin fs1 (written (received (early ++ pre ++ wait)))), lg1.
    split; [|split; [|exact Hq1]].
    + rewrite run_calls_snoc. rewrite <- it_log_seg_ev. apply (calls_d_app _ _ _ _ _ _ _ E1). apply calls_d_one. exact E2.
    + rewrite (lookup_it_fs fin fs1 _ Hl1), it_file_written. f_equal. f_equal.
      apply written_complete; [exact HFall | rewrite <- Hsize; exact Hc].
Qed.

(* (c) the limit-th expiry while data is still missing *)
Lemma limit_pre : forall fs sn dn msgs early pre fin dt0 dt1 fl,
  name = dest_name fs sn dn -> dest_writable fs name ->
  Forall (slice_of data) (received (early ++ pre ++ [fin])) ->
  no_collision ck size cks (received (early ++ pre ++ [fin])) -> missing size (received (early ++ pre ++ [fin])) ->
  expiries ms 0 pre + 1 = r_check_limit r ->
  ms <= elapsed ms 0 pre + fst fin ->
  exists nw fs' lg,
    calls_d (run_calls sn dn msgs fl dt0 dt1 early pre) (dst_fresh c fs) =
      (CL (nw - elapsed ms 0 pre) (expiries ms 0 pre) (extent (map span (received (early ++ pre))))
          (mkEnv nw fs' false lg), Ok (quiet_out early pre)) /\
    lookup fs' name = Some (File (written (received (early ++ pre)))) /\
    quiet_log srcid seq (1 + expiries ms 0 pre) lg /\
    it_fits fin /\ timed_out (fst fin + nw) (nw - elapsed ms 0 pre, ms) = true /\
    it_prog fin (extent (map span (received (early ++ pre)))) = extent (map span (received (early ++ pre ++ [fin]))) /\
    it_file fin (written (received (early ++ pre))) = written (received (early ++ pre ++ [fin])) /\
    vok (written (received (early ++ pre ++ [fin]))) (extent (map span (received (early ++ pre ++ [fin])))) = false.
Proof.
  intros fs sn dn msgs early pre fin dt0 dt1 fl Hn Hw HF HN Hm Hlim Hex.
  assert (Hall : received (early ++ pre ++ [fin]) = received (early ++ pre) ++ item_data fin).
  { rewrite app_assoc, received_app. unfold received at 2. cbn [flat_map]. rewrite app_nil_r. reflexivity. }
  rewrite Hall in HF, HN, Hm |- *.
  assert (HF1 : Forall (slice_of data) (received (early ++ pre))) by (apply Forall_app in HF; tauto).
  assert (HF2 : Forall (slice_of data) (item_data fin)) by (apply Forall_app in HF; tauto).
  assert (HN1 : no_collision ck size cks (received (early ++ pre))).
  { intros ts1 ts2 Ha. apply (HN ts1 (ts2 ++ item_data fin)). rewrite app_assoc, Ha. reflexivity. }
  destruct (waits_run fs sn dn msgs early pre dt0 dt1 fl Hn Hw HF1 HN1) as [nw1 [fs1 [lg1 [E1 [Hl1 Hq1]]]]].
  { eapply missing_app_l. exact Hm. }
  { lia. }
  exists nw1, fs1, lg1. split; [exact E1|]. split; [exact Hl1|]. split; [exact Hq1|].
  split; [apply it_fits_slice; exact HF2|]. split; [rewrite timed_out_el; apply Z.leb_le; lia|].
  split; [apply it_prog_extent|]. split; [apply it_file_written|].
  apply (vok_missing _ _ [] HN (app_nil_r _) HF Hm).
Qed.

Lemma limit_cancel_run : forall fs sn dn msgs early pre fin dt0 dt1 fl,
  get_fault_handler (l_faults c) C_CHECK_LIMIT = Some FH_CANCEL ->
  name = dest_name fs sn dn -> dest_writable fs name ->
  Forall (slice_of data) (received (early ++ pre ++ [fin])) ->
  no_collision ck size cks (received (early ++ pre ++ [fin])) -> missing size (received (early ++ pre ++ [fin])) ->
  expiries ms 0 pre + 1 = r_check_limit r ->
  ms <= elapsed ms 0 pre + fst fin ->
  let prog := extent (map span (received (early ++ pre ++ [fin]))) in
  exists nw fs' lg,
    calls_d (run_calls sn dn msgs fl dt0 dt1 early (pre ++ [fin])) (dst_fresh c fs) =
      (IDLE (mkEnv nw fs' false (cfin_log (lim_ev FH_CANCEL prog :: ign prog :: seg_ev fin ++ lg))),
       Ok (quiet_out early pre ++ [if closure then [cfinished_pdu] else []])) /\
    lookup fs' name = (if r_disposition r then None else Some (File (written (received (early ++ pre ++ [fin]))))) /\
    quiet_log srcid seq (1 + expiries ms 0 pre) lg.
Proof.
  intros fs sn dn msgs early pre fin dt0 dt1 fl Hfh Hn Hw HF HN Hm Hlim Hex prog.
  destruct (limit_pre fs sn dn msgs early pre fin dt0 dt1 fl Hn Hw HF HN Hm Hlim Hex)
    as [nw1 [fs1 [lg1 [E1 [Hl1 [Hq1 [Hfit [Hto [Ep [Ef Hv]]]]]]]]]].
  assert (Hp : 0 <= it_prog fin (extent (map span (received (early ++ pre))))) by (rewrite Ep; apply extent_nonneg).
  pose proof (cl_call_limit_cancel fin _ (expiries ms 0 pre) _ nw1 fs1 lg1 _ Hfh Hl1 Hfit Hto Hp) as E2.
  rewrite Ef, Ep in E2. specialize (E2 Hv ltac:(lia)).
  pose proof (lookup_it_fs fin fs1 _ Hl1) as Hl2. rewrite Ef in Hl2.
  eexists. eexists. exists lg1. split; [|split; [|exact Hq1]].
  - rewrite run_calls_snoc. rewrite <- it_log_seg_ev. apply (calls_d_app _ _ _ _ _ _ _ E1). apply calls_d_one. exact E2.
  - destruct (r_disposition r); [|exact Hl2]. unfold fs_delete_file. rewrite Hl2. cbn [fst].
    rewrite lookup_remove_path by (eapply lookup_file_ne; exact Hl2). rewrite path_eqb_refl. reflexivity.
Qed.

Lemma limit_abandon_run : forall fs sn dn msgs early pre fin dt0 dt1 fl,
  get_fault_handler (l_faults c) C_CHECK_LIMIT = Some FH_ABANDON ->
  name = dest_name fs sn dn -> dest_writable fs name ->
  Forall (slice_of data) (received (early ++ pre ++ [fin])) ->
  no_collision ck size cks (received (early ++ pre ++ [fin])) -> missing size (received (early ++ pre ++ [fin])) ->
  expiries ms 0 pre + 1 = r_check_limit r ->
  ms <= elapsed ms 0 pre + fst fin ->
  let prog := extent (map span (received (early ++ pre ++ [fin]))) in
  exists nw fs' lg,
    calls_d (run_calls sn dn msgs fl dt0 dt1 early (pre ++ [fin])) (dst_fresh c fs) =
      (IDLE (mkEnv nw fs' false (lim_ev FH_ABANDON prog :: ign prog :: seg_ev fin ++ lg)), Ok (quiet_out early pre ++ [[]])) /\
    lookup fs' name = Some (File (written (received (early ++ pre ++ [fin])))) /\
    quiet_log srcid seq (1 + expiries ms 0 pre) lg.
Proof.
  intros fs sn dn msgs early pre fin dt0 dt1 fl Hfh Hn Hw HF HN Hm Hlim Hex prog.
  destruct (limit_pre fs sn dn msgs early pre fin dt0 dt1 fl Hn Hw HF HN Hm Hlim Hex)
    as [nw1 [fs1 [lg1 [E1 [Hl1 [Hq1 [Hfit [Hto [Ep [Ef Hv]]]]]]]]]].
  assert (Hp : 0 <= it_prog fin (extent (map span (received (early ++ pre))))) by (rewrite Ep; apply extent_nonneg).
  pose proof (cl_call_limit_abandon fin _ (expiries ms 0 pre) _ nw1 fs1 lg1 _ Hfh Hl1 Hfit Hto Hp) as E2.
  rewrite Ef, Ep in E2. specialize (E2 Hv ltac:(lia)).
  pose proof (lookup_it_fs fin fs1 _ Hl1) as Hl2. rewrite Ef in Hl2.
  eexists. eexists. exists lg1. split; [|split; [exact Hl2 | exact Hq1]].
  rewrite run_calls_snoc. rewrite <- it_log_seg_ev. apply (calls_d_app _ _ _ _ _ _ _ E1). apply calls_d_one. exact E2.
Qed.

(* IGNORE (F34 repair): the limit-th expiry is counted and restarts the timer like the ones before it *)
Lemma limit_ignore_run : forall fs sn dn msgs early pre fin dt0 dt1 fl,
  get_fault_handler (l_faults c) C_CHECK_LIMIT = Some FH_IGNORE ->
  name = dest_name fs sn dn -> dest_writable fs name ->
  Forall (slice_of data) (received (early ++ pre ++ [fin])) ->
  no_collision ck size cks (received (early ++ pre ++ [fin])) -> missing size (received (early ++ pre ++ [fin])) ->
  expiries ms 0 pre + 1 = r_check_limit r ->
  ms <= elapsed ms 0 pre + fst fin ->
  let prog := extent (map span (received (early ++ pre ++ [fin]))) in
  exists nw fs' lg,
    calls_d (run_calls sn dn msgs fl dt0 dt1 early (pre ++ [fin])) (dst_fresh c fs) =
      (CL nw (expiries ms 0 pre + 1) prog
          (mkEnv nw fs' false (lim_ev FH_IGNORE prog :: ign prog :: seg_ev fin ++ lg)), Ok (quiet_out early pre ++ [[]])) /\
    lookup fs' name = Some (File (written (received (early ++ pre ++ [fin])))) /\
    quiet_log srcid seq (1 + expiries ms 0 pre) lg.
Proof.
  intros fs sn dn msgs early pre fin dt0 dt1 fl Hfh Hn Hw HF HN Hm Hlim Hex prog.
  destruct (limit_pre fs sn dn msgs early pre fin dt0 dt1 fl Hn Hw HF HN Hm Hlim Hex)
    as [nw1 [fs1 [lg1 [E1 [Hl1 [Hq1 [Hfit [Hto [Ep [Ef Hv]]]]]]]]]].
  assert (Hp : 0 <= it_prog fin (extent (map span (received (early ++ pre))))) by (rewrite Ep; apply extent_nonneg).
  pose proof (cl_call_limit_ignore fin _ (expiries ms 0 pre) _ nw1 fs1 lg1 _ Hfh Hl1 Hfit Hto Hp) as E2.
  rewrite Ef, Ep in E2. specialize (E2 Hv ltac:(lia)).
  pose proof (lookup_it_fs fin fs1 _ Hl1) as Hl2. rewrite Ef in Hl2.
  exists (fst fin + nw1). eexists. exists lg1. split; [|split; [exact Hl2 | exact Hq1]].
  rewrite run_calls_snoc. rewrite <- it_log_seg_ev.
  apply (calls_d_app _ _ _ _ _ _ _ E1). apply calls_d_one. exact E2.
Qed.

Lemma limit_other_run : forall fs sn dn msgs early pre fin dt0 dt1 fl fh,
  get_fault_handler (l_faults c) C_CHECK_LIMIT = Some fh -> fh <> FH_CANCEL -> fh <> FH_ABANDON -> fh <> FH_IGNORE ->
  name = dest_name fs sn dn -> dest_writable fs name ->
  Forall (slice_of data) (received (early ++ pre ++ [fin])) ->
  no_collision ck size cks (received (early ++ pre ++ [fin])) -> missing size (received (early ++ pre ++ [fin])) ->
  expiries ms 0 pre + 1 = r_check_limit r ->
  ms <= elapsed ms 0 pre + fst fin ->
  let prog := extent (map span (received (early ++ pre ++ [fin]))) in
  exists nw fs' lg,
    calls_d (run_calls sn dn msgs fl dt0 dt1 early (pre ++ [fin])) (dst_fresh c fs) =
      (CL (nw - fst fin - elapsed ms 0 pre) (expiries ms 0 pre) prog
          (mkEnv nw fs' false (lim_ev fh prog :: ign prog :: seg_ev fin ++ lg)), Ok (quiet_out early pre ++ [[]])) /\
    lookup fs' name = Some (File (written (received (early ++ pre ++ [fin])))) /\
    quiet_log srcid seq (1 + expiries ms 0 pre) lg.
Proof.
  intros fs sn dn msgs early pre fin dt0 dt1 fl fh Hfh Hn1 Hn2 Hn3 Hn Hw HF HN Hm Hlim Hex prog.
  destruct (limit_pre fs sn dn msgs early pre fin dt0 dt1 fl Hn Hw HF HN Hm Hlim Hex)
    as [nw1 [fs1 [lg1 [E1 [Hl1 [Hq1 [Hfit [Hto [Ep [Ef Hv]]]]]]]]]].
  assert (Hp : 0 <= it_prog fin (extent (map span (received (early ++ pre))))) by (rewrite Ep; apply extent_nonneg).
  pose proof (cl_call_limit_other fin _ (expiries ms 0 pre) _ nw1 fs1 lg1 _ fh Hfh Hn1 Hn2 Hn3 Hl1 Hfit Hto Hp) as E2.
  rewrite Ef, Ep in E2. specialize (E2 Hv ltac:(lia)).
  pose proof (lookup_it_fs fin fs1 _ Hl1) as Hl2. rewrite Ef in Hl2.
  exists (fst fin + nw1). eexists. exists lg1. split; [|split; [exact Hl2 | exact Hq1]].
  rewrite run_calls_snoc. rewrite <- it_log_seg_ev.
  replace (fst fin + nw1 - fst fin - elapsed ms 0 pre) with (nw1 - elapsed ms 0 pre) by lia.
  apply (calls_d_app _ _ _ _ _ _ _ E1). apply calls_d_one. exact E2.
Qed.

(* after the ignored limit fault: while the restarted timer has not expired the calls only write what they deliver *)
Lemma cl_wait_run : forall sched ts t0 cnt nw fs lg,
  Forall (slice_of data) (received sched) ->
  lookup fs name = Some (File (written ts)) ->
  expiries ms (nw - t0) sched = 0 ->
  exists nw' fs',
    calls_d (map (item_call h) sched) (CL t0 cnt (extent (map span ts)) (mkEnv nw fs false lg)) =
      (CL t0 cnt (extent (map span (ts ++ received sched))) (mkEnv nw' fs' false (flat_map seg_ev (rev sched) ++ lg)),
       Ok (map (fun _ => []) sched)) /\
    nw' - t0 = elapsed ms (nw - t0) sched /\
    lookup fs' name = Some (File (written (ts ++ received sched))).
Proof.
  induction sched as [|it t IH]; intros ts t0 cnt nw fs lg HF Hl Hx.
  - exists nw, fs. unfold received. cbn [flat_map map calls_d elapsed rev app]. rewrite app_nil_r.
    split; [reflexivity | split; [reflexivity | exact Hl]].
  - rewrite received_cons in HF. apply Forall_app in HF. destruct HF as [HFi HFt].
    pose proof (it_fits_slice it HFi) as Hfit.
    pose proof (lookup_it_fs it fs _ Hl) as Hl'. rewrite it_file_written in Hl'.
    cbn [expiries elapsed] in *.
    pose proof (timed_out_el (fst it) nw t0) as Hto.
    destruct (ms <=? nw - t0 + fst it) eqn:Ee.
    { pose proof (expiries_nonneg ms t 0). lia. }
    pose proof (cl_call_wait it t0 cnt (extent (map span ts)) nw fs lg _ Hl Hfit Hto) as Ec.
    rewrite it_prog_extent, it_log_seg_ev in Ec.
    replace (nw - t0 + fst it) with (fst it + nw - t0) in Hx |- * by lia.
    destruct (IH (ts ++ item_data it) t0 cnt (fst it + nw) _ (seg_ev it ++ lg) HFt Hl' Hx) as [nw' [fs' [Er [Hn Hlr]]]].
    rewrite <- app_assoc, <- received_cons in Er, Hlr.
    exists nw', fs'. split; [|split; [exact Hn | exact Hlr]].
    cbn [map rev]. rewrite flat_map_app. cbn [flat_map]. rewrite app_nil_r, <- app_assoc.
    apply (calls_d_cons _ _ _ _ _ _ _ Ec Er).
Qed.

Lemma run_calls_app : forall sn dn msgs fl dt0 dt1 early a b,
  run_calls sn dn msgs fl dt0 dt1 early (a ++ b) = run_calls sn dn msgs fl dt0 dt1 early a ++ map (item_call h) b.
Proof.
  intros. unfold run_calls. rewrite map_app. rewrite app_comm_cons, (app_comm_cons _ _ (dt1, Some (eof_pdu fl))).
  rewrite app_assoc. reflexivity.
Qed.
Lemma quiet_out_app : forall early a b,
  quiet_out early (a ++ b) = quiet_out early a ++ map (fun _ => []) b.
Proof.
  intros. unfold quiet_out. rewrite map_app. rewrite app_comm_cons, (app_comm_cons _ _ []). rewrite app_assoc. reflexivity.
Qed.

Lemma limit_ignore_once_run : forall fs sn dn msgs early pre fin post dt0 dt1 fl,
  get_fault_handler (l_faults c) C_CHECK_LIMIT = Some FH_IGNORE ->
  name = dest_name fs sn dn -> dest_writable fs name ->
  Forall (slice_of data) (received (early ++ pre ++ [fin])) ->
  no_collision ck size cks (received (early ++ pre ++ [fin])) -> missing size (received (early ++ pre ++ [fin])) ->
  expiries ms 0 pre + 1 = r_check_limit r ->
  ms <= elapsed ms 0 pre + fst fin ->
  Forall (slice_of data) (received post) -> expiries ms 0 post = 0 ->
  let prog := extent (map span (received (early ++ pre ++ [fin]))) in
  exists nw fs' lg,
    calls_d (run_calls sn dn msgs fl dt0 dt1 early ((pre ++ [fin]) ++ post)) (dst_fresh c fs) =
      (CL (nw - elapsed ms 0 post) (expiries ms 0 pre + 1) (extent (map span (received ((early ++ pre ++ [fin]) ++ post))))
          (mkEnv nw fs' false (flat_map seg_ev (rev post) ++ lim_ev FH_IGNORE prog :: ign prog :: seg_ev fin ++ lg)),
       Ok (quiet_out early ((pre ++ [fin]) ++ post))) /\
    lookup fs' name = Some (File (written (received ((early ++ pre ++ [fin]) ++ post)))) /\
    quiet_log srcid seq (1 + expiries ms 0 pre) lg.
Proof.
  intros fs sn dn msgs early pre fin post dt0 dt1 fl Hfh Hn Hw HF HN Hm Hlim Hex HFp Hxp prog.
  destruct (limit_ignore_run fs sn dn msgs early pre fin dt0 dt1 fl Hfh Hn Hw HF HN Hm Hlim Hex)
    as [nw1 [fs1 [lg1 [E1 [Hl1 Hq1]]]]]. fold prog in E1.
  destruct (cl_wait_run post (received (early ++ pre ++ [fin])) nw1 (expiries ms 0 pre + 1) nw1 fs1
              (lim_ev FH_IGNORE prog :: ign prog :: seg_ev fin ++ lg1) HFp Hl1) as [nw2 [fs2 [E2 [Hn2 Hl2]]]].
  { replace (nw1 - nw1) with 0 by lia. exact Hxp. }
  replace (nw1 - nw1) with 0 in Hn2 by lia.
  rewrite <- received_app in E2, Hl2.
  exists nw2, fs2, lg1. split; [|split; [exact Hl2 | exact Hq1]].
  rewrite run_calls_app, quiet_out_app.
  replace (nw2 - elapsed ms 0 post) with nw1 by lia.
  replace (quiet_out early (pre ++ [fin])) with (quiet_out early pre ++ [[]]).
  - apply (calls_d_app _ _ _ _ _ _ _ E1 E2).
  - rewrite quiet_out_app. reflexivity.
Qed.
End Run.

(* ================================================================== the theorems of props/C13c.v *)
Lemma hdr_form : forall hd c, h_dir hd = TOWARDS_RECEIVER -> h_mode hd = UNACKED -> h_dst hd = l_id c ->
  hd = h c (h_crc hd) (h_large hd) (h_src hd) (h_idw hd) (h_seq hd) (h_seqw hd).
Proof. intros [d m cr lg sr ds iw sq sw] c H1 H2 H3. cbn in *. subst. reflexivity. Qed.

Definition cancel_fstatus (r : rcfg) : Z := if r_disposition r then FS_DISCARDED_DELIBERATELY else FS_RETAINED.

Lemma late_data_waits :
  forall (c : lcfg) (r : rcfg) (hd : hdr) (fs : tree) (closure : bool) (ck msize : Z) (sn dn : path) (msgs : list Z)
         (data cks : bytes) (size ms : Z) (early sched : list item) (fl : option (Z * Z)) (t0 t1 : Z),
  h_dir hd = TOWARDS_RECEIVER -> h_mode hd = UNACKED -> h_dst hd = l_id c ->
  get_remote (l_remotes c) (h_src hd) = Some r ->
  ck = CK_CRC32 \/ ck = CK_CRC32C ->
  get_fault_handler (l_faults c) C_CHECKSUM_FAILURE = Some FH_IGNORE ->
  l_check_ms c = ms -> 0 < ms ->
  dest_writable fs (dest_name fs sn dn) ->
  size = zlen data -> calculate_checksum ck (Some data) size 4096 = Ok cks ->
  Forall (slice_of data) (received (early ++ sched)) ->
  no_collision ck size cks (received (early ++ sched)) ->
  missing size (received (early ++ sched)) ->
  expiries ms 0 sched < r_check_limit r ->
  exists s',
    calls_d ((t0, Some (PMetadata hd closure ck msize (Some (sn, dn)) msgs)) :: map (item_call hd) early ++
             (t1, Some (PEof hd C_NO_ERROR cks size fl)) :: map (item_call hd) sched) (dst_fresh c fs) =
      (s', Ok ([] :: map (fun _ => []) early ++ [] :: map (fun _ => []) sched)) /\
    d_state s' = ST_BUSY /\ d_step s' = DS_RECV_WITH_CHECK_LIMIT /\ d_queue s' = [] /\
    p_check_count (d_p s') = expiries ms 0 sched /\
    p_check_timer (d_p s') = Some (now_d s' - elapsed ms 0 sched, ms) /\
    p_progress (d_p s') = extent (map span (received (early ++ sched))) /\
    lookup (fs_d s') (dest_name fs sn dn) = Some (File (written (received (early ++ sched)))) /\
    quiet_log (h_src hd) (h_seq hd) (1 + expiries ms 0 sched) (log_d s').
Proof.
  intros c r hd fs closure ck msize sn dn msgs data cks size ms early sched fl t0 t1
         Hdir Hmode Hdst Hrem Hck Hign Ems Hms Hw Hsize Hcks HF HN Hm Hlim. subst ms.
  rewrite (hdr_form hd c Hdir Hmode Hdst) in *.
  set (crc := h_crc hd) in *. set (large := h_large hd) in *. set (srcid := h_src hd) in *.
  set (idw := h_idw hd) in *. set (sq := h_seq hd) in *. set (sqw := h_seqw hd) in *.
  clearbody crc large srcid idw sq sqw. cbn [h h_src h_seq] in *.
  destruct (waits_run c r crc large srcid idw sq sqw closure ck msize (dest_name fs sn dn) size cks Hrem Hck Hign Hms
              data Hsize Hcks fs sn dn msgs early sched t0 t1 fl eq_refl Hw HF HN Hm Hlim) as [nw [fs' [lg [E [Hl Hq]]]]].
  eexists. split; [exact E|].
  split; [reflexivity|]. split; [reflexivity|]. split; [reflexivity|]. split; [reflexivity|]. split; [reflexivity|].
  split; [reflexivity|]. split; [exact Hl | exact Hq].
Qed.
Print Assumptions late_data_waits.

Lemma late_data_completes :
  forall (c : lcfg) (r : rcfg) (hd : hdr) (fs : tree) (closure : bool) (ck msize : Z) (sn dn : path) (msgs : list Z)
         (data cks : bytes) (size ms : Z) (early pre wait : list item) (fin : item) (fl : option (Z * Z)) (t0 t1 : Z),
  h_dir hd = TOWARDS_RECEIVER -> h_mode hd = UNACKED -> h_dst hd = l_id c ->
  get_remote (l_remotes c) (h_src hd) = Some r ->
  ck = CK_CRC32 \/ ck = CK_CRC32C ->
  get_fault_handler (l_faults c) C_CHECKSUM_FAILURE = Some FH_IGNORE ->
  l_check_ms c = ms -> 0 < ms ->
  dest_writable fs (dest_name fs sn dn) ->
  size = zlen data -> calculate_checksum ck (Some data) size 4096 = Ok cks ->
  Forall (slice_of data) (received (early ++ pre ++ wait ++ [fin])) ->
  no_collision ck size cks (received (early ++ pre)) ->
  missing size (received (early ++ pre)) ->
  expiries ms 0 pre < r_check_limit r ->
  expiries ms (elapsed ms 0 pre) wait = 0 ->
  ms <= elapsed ms 0 (pre ++ wait) + fst fin ->
  complete size (received (early ++ pre ++ wait ++ [fin])) ->
  exists s' lg,
    calls_d ((t0, Some (PMetadata hd closure ck msize (Some (sn, dn)) msgs)) :: map (item_call hd) early ++
             (t1, Some (PEof hd C_NO_ERROR cks size fl)) :: map (item_call hd) (pre ++ wait ++ [fin])) (dst_fresh c fs) =
      (s', Ok ([] :: map (fun _ => []) early ++ [] :: map (fun _ => []) (pre ++ wait) ++
               [if closure then [PFinished (set_dir TOWARDS_SENDER hd) C_NO_ERROR DATA_COMPLETE FS_RETAINED None] else []])) /\
    d_state s' = ST_IDLE /\ d_step s' = DS_IDLE /\ d_queue s' = [] /\ d_ready s' = 0 /\ d_p s' = fresh_params /\
    lookup (fs_d s') (dest_name fs sn dn) = Some (File data) /\
    log_d s' = (if l_ind_fin c then [EvFinished (h_src hd) (h_seq hd) C_NO_ERROR DATA_COMPLETE FS_RETAINED None] else []) ++
               seg_events c (h_src hd) (h_seq hd) fin ++ lg /\
    quiet_log (h_src hd) (h_seq hd) (1 + expiries ms 0 pre) lg.
Proof.
  intros c r hd fs closure ck msize sn dn msgs data cks size ms early pre wait fin fl t0 t1
         Hdir Hmode Hdst Hrem Hck Hign Ems Hms Hw Hsize Hcks HF HN Hm Hlim Hnx Hex Hc. subst ms.
  rewrite (hdr_form hd c Hdir Hmode Hdst) in *.
  set (crc := h_crc hd) in *. set (large := h_large hd) in *. set (srcid := h_src hd) in *.
  set (idw := h_idw hd) in *. set (sq := h_seq hd) in *. set (sqw := h_seqw hd) in *.
  clearbody crc large srcid idw sq sqw. cbn [h h_src h_seq] in *.
  destruct (completes_run c r crc large srcid idw sq sqw closure ck msize (dest_name fs sn dn) size cks Hrem Hck Hign Hms
              data Hsize Hcks fs sn dn msgs early pre wait fin t0 t1 fl eq_refl Hw HF HN Hm Hlim Hnx Hex Hc)
    as [nw [fs' [lg [E [Hl Hq]]]]].
  eexists. exists lg. split.
  { rewrite (app_assoc pre wait [fin]). unfold run_calls, md_pdu, eof_pdu in E. rewrite quiet_out_snoc in E; [|exact fin]. exact E. }
  split; [reflexivity|]. split; [reflexivity|]. split; [reflexivity|]. split; [reflexivity|]. split; [reflexivity|].
  split; [exact Hl|]. split; [|exact Hq].
  unfold log_d, IDLE, fin_log, seg_ev. cbn [d_env e_log]. destruct (l_ind_fin c); reflexivity.
Qed.
Print Assumptions late_data_completes.

Lemma late_data_limit :
  forall (c : lcfg) (r : rcfg) (hd : hdr) (fs : tree) (closure : bool) (ck msize : Z) (sn dn : path) (msgs : list Z)
         (data cks : bytes) (size ms fh : Z) (early pre : list item) (fin : item) (fl : option (Z * Z)) (t0 t1 : Z),
  h_dir hd = TOWARDS_RECEIVER -> h_mode hd = UNACKED -> h_dst hd = l_id c ->
  get_remote (l_remotes c) (h_src hd) = Some r ->
  ck = CK_CRC32 \/ ck = CK_CRC32C ->
  get_fault_handler (l_faults c) C_CHECKSUM_FAILURE = Some FH_IGNORE ->
  get_fault_handler (l_faults c) C_CHECK_LIMIT = Some fh ->
  l_check_ms c = ms -> 0 < ms ->
  dest_writable fs (dest_name fs sn dn) ->
  size = zlen data -> calculate_checksum ck (Some data) size 4096 = Ok cks ->
  Forall (slice_of data) (received (early ++ pre ++ [fin])) ->
  no_collision ck size cks (received (early ++ pre ++ [fin])) ->
  missing size (received (early ++ pre ++ [fin])) ->
  expiries ms 0 pre + 1 = r_check_limit r ->
  ms <= elapsed ms 0 pre + fst fin ->
  let prog := extent (map span (received (early ++ pre ++ [fin]))) in
  exists s' lg,
    calls_d ((t0, Some (PMetadata hd closure ck msize (Some (sn, dn)) msgs)) :: map (item_call hd) early ++
             (t1, Some (PEof hd C_NO_ERROR cks size fl)) :: map (item_call hd) (pre ++ [fin])) (dst_fresh c fs) =
      (s', Ok ([] :: map (fun _ => []) early ++ [] :: map (fun _ => []) pre ++
               [if (fh =? FH_CANCEL) && closure
                then [PFinished (set_dir TOWARDS_SENDER hd) C_CHECK_LIMIT DATA_INCOMPLETE (cancel_fstatus r) None] else []])) /\
    log_d s' = (if (fh =? FH_CANCEL) && l_ind_fin c
                then [EvFinished (h_src hd) (h_seq hd) C_CHECK_LIMIT DATA_INCOMPLETE (cancel_fstatus r) None] else []) ++
               EvFault fh (h_src hd) (h_seq hd) C_CHECK_LIMIT prog ::
               EvFault FH_IGNORE (h_src hd) (h_seq hd) C_CHECKSUM_FAILURE prog ::
               seg_events c (h_src hd) (h_seq hd) fin ++ lg /\
    quiet_log (h_src hd) (h_seq hd) (1 + expiries ms 0 pre) lg /\
    d_queue s' = [] /\ d_ready s' = 0 /\
    (if (fh =? FH_CANCEL) || (fh =? FH_ABANDON)
     then d_state s' = ST_IDLE /\ d_step s' = DS_IDLE /\ d_p s' = fresh_params
     else d_state s' = ST_BUSY /\ d_step s' = DS_RECV_WITH_CHECK_LIMIT /\
          if fh =? FH_IGNORE
          then p_check_count (d_p s') = expiries ms 0 pre + 1 /\ p_check_timer (d_p s') = Some (now_d s', ms)
          else p_check_count (d_p s') = expiries ms 0 pre /\
               p_check_timer (d_p s') = Some (now_d s' - fst fin - elapsed ms 0 pre, ms)) /\
    lookup (fs_d s') (dest_name fs sn dn) =
      (if (fh =? FH_CANCEL) && r_disposition r then None else Some (File (written (received (early ++ pre ++ [fin]))))).
Proof.
  intros c r hd fs closure ck msize sn dn msgs data cks size ms fh early pre fin fl t0 t1
         Hdir Hmode Hdst Hrem Hck Hign Hfh Ems Hms Hw Hsize Hcks HF HN Hm Hlim Hex prog. subst ms.
  rewrite (hdr_form hd c Hdir Hmode Hdst) in *.
  set (crc := h_crc hd) in *. set (large := h_large hd) in *. set (srcid := h_src hd) in *.
  set (idw := h_idw hd) in *. set (sq := h_seq hd) in *. set (sqw := h_seqw hd) in *.
  clearbody crc large srcid idw sq sqw. cbn [h h_src h_seq] in *.
  destruct (Z.eq_dec fh FH_CANCEL) as [E1|N1]; [|destruct (Z.eq_dec fh FH_ABANDON) as [E2|N2]; [|destruct (Z.eq_dec fh FH_IGNORE) as [E3|N3]]].
  - subst fh.
    destruct (limit_cancel_run c r crc large srcid idw sq sqw closure ck msize (dest_name fs sn dn) size cks Hrem Hck Hign Hms
                data Hsize Hcks fs sn dn msgs early pre fin t0 t1 fl Hfh eq_refl Hw HF HN Hm Hlim Hex)
      as [nw [fs' [lg [E [Hl Hq]]]]].
    eexists. exists lg. split.
    { unfold run_calls, md_pdu, eof_pdu in E. rewrite quiet_out_snoc in E; [|exact fin]. exact E. }
    change (FH_CANCEL =? FH_CANCEL) with true. cbn [andb orb].
    split. { unfold log_d, IDLE, cfin_log, seg_ev, lim_ev, ign. cbn [d_env e_log]. destruct (l_ind_fin c); reflexivity. }
    split; [exact Hq|]. split; [reflexivity|]. split; [reflexivity|].
    split; [split; [reflexivity | split; reflexivity]|]. exact Hl.
  - subst fh.
    destruct (limit_abandon_run c r crc large srcid idw sq sqw closure ck msize (dest_name fs sn dn) size cks Hrem Hck Hign Hms
                data Hsize Hcks fs sn dn msgs early pre fin t0 t1 fl Hfh eq_refl Hw HF HN Hm Hlim Hex)
      as [nw [fs' [lg [E [Hl Hq]]]]].
    eexists. exists lg. split.
    { unfold run_calls, md_pdu, eof_pdu in E. rewrite quiet_out_snoc in E; [|exact fin]. exact E. }
    change (FH_ABANDON =? FH_CANCEL) with false. change (FH_ABANDON =? FH_ABANDON) with true. cbn [andb orb].
    split; [reflexivity|].
    split; [exact Hq|]. split; [reflexivity|]. split; [reflexivity|].
    split; [split; [reflexivity | split; reflexivity]|]. exact Hl.
  - subst fh.
    destruct (limit_ignore_run c r crc large srcid idw sq sqw closure ck msize (dest_name fs sn dn) size cks Hrem Hck Hign Hms
                data Hsize Hcks fs sn dn msgs early pre fin t0 t1 fl Hfh eq_refl Hw HF HN Hm Hlim Hex)
      as [nw [fs' [lg [E [Hl Hq]]]]].
    eexists. exists lg. split.
    { unfold run_calls, md_pdu, eof_pdu in E. rewrite quiet_out_snoc in E; [|exact fin]. exact E. }
    change (FH_IGNORE =? FH_CANCEL) with false. change (FH_IGNORE =? FH_ABANDON) with false.
    change (FH_IGNORE =? FH_IGNORE) with true. cbn [andb orb].
    split; [reflexivity|].
    split; [exact Hq|]. split; [reflexivity|]. split; [reflexivity|].
    split; [split; [reflexivity | split; [reflexivity | split; reflexivity]]|]. exact Hl.
  - destruct (limit_other_run c r crc large srcid idw sq sqw closure ck msize (dest_name fs sn dn) size cks Hrem Hck Hign Hms
                data Hsize Hcks fs sn dn msgs early pre fin t0 t1 fl fh Hfh N1 N2 N3 eq_refl Hw HF HN Hm Hlim Hex)
      as [nw [fs' [lg [E [Hl Hq]]]]].
    replace (fh =? FH_CANCEL) with false by (symmetry; apply Z.eqb_neq; exact N1).
    replace (fh =? FH_ABANDON) with false by (symmetry; apply Z.eqb_neq; exact N2).
    replace (fh =? FH_IGNORE) with false by (symmetry; apply Z.eqb_neq; exact N3). cbn [andb orb].
    eexists. exists lg. split.
    { unfold run_calls, md_pdu, eof_pdu in E. rewrite quiet_out_snoc in E; [|exact fin]. exact E. }
    split; [reflexivity|].
    split; [exact Hq|]. split; [reflexivity|]. split; [reflexivity|].
    split; [split; [reflexivity | split; [reflexivity | split; reflexivity]]|]. exact Hl.
Qed.
Print Assumptions late_data_limit.

(* (c'), IGNORE: the ignored fault is declared once - the calls after it that come before the restarted timer expires
   declare nothing *)
Lemma late_data_limit_ignored_once :
  forall (c : lcfg) (r : rcfg) (hd : hdr) (fs : tree) (closure : bool) (ck msize : Z) (sn dn : path) (msgs : list Z)
         (data cks : bytes) (size ms : Z) (early pre : list item) (fin : item) (post : list item) (fl : option (Z * Z)) (t0 t1 : Z),
  h_dir hd = TOWARDS_RECEIVER -> h_mode hd = UNACKED -> h_dst hd = l_id c ->
  get_remote (l_remotes c) (h_src hd) = Some r ->
  ck = CK_CRC32 \/ ck = CK_CRC32C ->
  get_fault_handler (l_faults c) C_CHECKSUM_FAILURE = Some FH_IGNORE ->
  get_fault_handler (l_faults c) C_CHECK_LIMIT = Some FH_IGNORE ->
  l_check_ms c = ms -> 0 < ms ->
  dest_writable fs (dest_name fs sn dn) ->
  size = zlen data -> calculate_checksum ck (Some data) size 4096 = Ok cks ->
  Forall (slice_of data) (received (early ++ pre ++ [fin])) ->
  no_collision ck size cks (received (early ++ pre ++ [fin])) ->
  missing size (received (early ++ pre ++ [fin])) ->
  expiries ms 0 pre + 1 = r_check_limit r ->
  ms <= elapsed ms 0 pre + fst fin ->
  Forall (slice_of data) (received post) ->
  expiries ms 0 post = 0 ->
  let prog := extent (map span (received (early ++ pre ++ [fin]))) in
  exists s' lg,
    calls_d ((t0, Some (PMetadata hd closure ck msize (Some (sn, dn)) msgs)) :: map (item_call hd) early ++
             (t1, Some (PEof hd C_NO_ERROR cks size fl)) :: map (item_call hd) ((pre ++ [fin]) ++ post)) (dst_fresh c fs) =
      (s', Ok ([] :: map (fun _ => []) early ++ [] :: map (fun _ => []) ((pre ++ [fin]) ++ post))) /\
    log_d s' = flat_map (seg_events c (h_src hd) (h_seq hd)) (rev post) ++
               EvFault FH_IGNORE (h_src hd) (h_seq hd) C_CHECK_LIMIT prog ::
               EvFault FH_IGNORE (h_src hd) (h_seq hd) C_CHECKSUM_FAILURE prog ::
               seg_events c (h_src hd) (h_seq hd) fin ++ lg /\
    quiet_log (h_src hd) (h_seq hd) (1 + expiries ms 0 pre) lg /\
    d_state s' = ST_BUSY /\ d_step s' = DS_RECV_WITH_CHECK_LIMIT /\ d_queue s' = [] /\ d_ready s' = 0 /\
    p_check_count (d_p s') = expiries ms 0 pre + 1 /\
    p_check_timer (d_p s') = Some (now_d s' - elapsed ms 0 post, ms) /\
    p_progress (d_p s') = extent (map span (received ((early ++ pre ++ [fin]) ++ post))) /\
    lookup (fs_d s') (dest_name fs sn dn) = Some (File (written (received ((early ++ pre ++ [fin]) ++ post)))).
Proof.
  intros c r hd fs closure ck msize sn dn msgs data cks size ms early pre fin post fl t0 t1
         Hdir Hmode Hdst Hrem Hck Hign Hfh Ems Hms Hw Hsize Hcks HF HN Hm Hlim Hex HFp Hxp prog. subst ms.
  rewrite (hdr_form hd c Hdir Hmode Hdst) in *.
  set (crc := h_crc hd) in *. set (large := h_large hd) in *. set (srcid := h_src hd) in *.
  set (idw := h_idw hd) in *. set (sq := h_seq hd) in *. set (sqw := h_seqw hd) in *.
  clearbody crc large srcid idw sq sqw. cbn [h h_src h_seq] in *.
  destruct (limit_ignore_once_run c r crc large srcid idw sq sqw closure ck msize (dest_name fs sn dn) size cks Hrem Hck Hign Hms
              data Hsize Hcks fs sn dn msgs early pre fin post t0 t1 fl Hfh eq_refl Hw HF HN Hm Hlim Hex HFp Hxp)
    as [nw [fs' [lg [E [Hl Hq]]]]].
  eexists. exists lg. split.
  { unfold run_calls, md_pdu, eof_pdu, quiet_out in E. exact E. }
  split; [reflexivity|]. split; [exact Hq|].
  split; [reflexivity|]. split; [reflexivity|]. split; [reflexivity|]. split; [reflexivity|]. split; [reflexivity|].
  split; [reflexivity|]. split; [reflexivity|]. exact Hl.
Qed.
Print Assumptions late_data_limit_ignored_once.

(* ================================================================== non-vacuity and necessity of the hypotheses *)
(* a 13-byte file cut at 4; entity 1 sends to entity 2, unacknowledged, CRC-32, check timer 1000 ms *)
Definition ex_hd : hdr := mkHdr TOWARDS_RECEIVER UNACKED false false 1 2 2 5 2.
Definition ex_r (clo : bool) (L : Z) : rcfg := mkRcfg 1 2 (Some 4) 64 clo false UNACKED CK_CRC32 1000 2 L false false 1000 2.
Definition ex_c (clo : bool) (L ms : Z) (faults : list (Z * Z)) : lcfg := mkLcfg 2 2 true true true true faults ms [ex_r clo L].
Definition ex_data : bytes := map (fun i => (7 * Z.of_nat i + 3) mod 256) (seq 0 13).
Definition tl4 (k : Z) : Z * bytes := (4 * k, ztake 4 (zdrop (4 * k) ex_data)).
Definition ex_cks (d : bytes) : bytes := match calculate_checksum CK_CRC32 (Some d) (zlen d) 4096 with Ok x => x | Err _ => [] end.
Definition ex_run (c : lcfg) (clo : bool) (d : bytes) (early sched : list item) : dst * res Z (list (list pdu)) :=
  calls_d ((0, Some (PMetadata ex_hd clo CK_CRC32 (zlen d) (Some ([1], [2])) [])) :: map (item_call ex_hd) early ++
           (0, Some (PEof ex_hd C_NO_ERROR (ex_cks d) (zlen d) None)) :: map (item_call ex_hd) sched) (dst_fresh c []).
(* EOF after tiles 0 and 3 *)
Definition ex_early : list item := [(10, Some (tl4 0)); (10, Some (tl4 3))].
Definition ex_fin : pdu := PFinished (set_dir TOWARDS_SENDER ex_hd) C_NO_ERROR DATA_COMPLETE FS_RETAINED None.

(* tile 1 arrives before the first expiry, tile 2 after it; the second expiry (a poll) finds the file complete: L = 3 *)
Example ex_completes_at_poll :
  let '(s, out) := ex_run (ex_c true 3 1000 default_fault_table) true ex_data ex_early
                     [(400, Some (tl4 1)); (700, None); (500, Some (tl4 2)); (600, None)] in
  (out, d_state s, d_p s, lookup (fs_d s) [2], firstn 4 (log_d s)) =
  (Ok [[]; []; []; []; []; []; []; [ex_fin]], ST_IDLE, fresh_params, Some (File ex_data),
   [EvFinished 1 5 C_NO_ERROR DATA_COMPLETE FS_RETAINED None; EvSegmentRecv 1 5 8 4;
    EvFault FH_IGNORE 1 5 C_CHECKSUM_FAILURE 13; EvSegmentRecv 1 5 4 4]).
Proof. vm_compute. reflexivity. Qed.

(* the last tile arrives when the timer has expired for the second time: that very call verifies and completes *)
Example ex_completes_with_last_tile :
  let '(s, out) := ex_run (ex_c false 3 1000 default_fault_table) false ex_data ex_early
                     [(1000, None); (300, Some (tl4 1)); (800, Some (tl4 2))] in
  (out, d_state s, d_p s, lookup (fs_d s) [2], firstn 3 (log_d s)) =
  (Ok [[]; []; []; []; []; []; []], ST_IDLE, fresh_params, Some (File ex_data),
   [EvFinished 1 5 C_NO_ERROR DATA_COMPLETE FS_RETAINED None; EvSegmentRecv 1 5 8 4; EvSegmentRecv 1 5 4 4]).
Proof. vm_compute. reflexivity. Qed.

(* while tile 2 is missing the expiries only count *)
Example ex_waits :
  let '(s, out) := ex_run (ex_c true 3 1000 default_fault_table) true ex_data ex_early
                     [(400, Some (tl4 1)); (700, None); (1000, None)] in
  (out, d_state s, d_step s, p_check_count (d_p s), p_check_timer (d_p s), now_d s) =
  (Ok [[]; []; []; []; []; []; []], ST_BUSY, DS_RECV_WITH_CHECK_LIMIT, 2, Some (2120, 1000), 2120).
Proof. vm_compute. reflexivity. Qed.

(* ... and the third declares Check Limit Reached (default table: cancel) *)
Example ex_limit :
  let '(s, out) := ex_run (ex_c true 3 1000 default_fault_table) true ex_data ex_early
                     [(400, Some (tl4 1)); (700, None); (1000, None); (1000, None)] in
  (out, d_state s, d_p s, firstn 3 (log_d s)) =
  (Ok [[]; []; []; []; []; []; []; [PFinished (set_dir TOWARDS_SENDER ex_hd) C_CHECK_LIMIT DATA_INCOMPLETE FS_RETAINED None]],
   ST_IDLE, fresh_params,
   [EvFinished 1 5 C_CHECK_LIMIT DATA_INCOMPLETE FS_RETAINED None; EvFault FH_CANCEL 1 5 C_CHECK_LIMIT 13;
    EvFault FH_IGNORE 1 5 C_CHECKSUM_FAILURE 13]).
Proof. vm_compute. reflexivity. Qed.

Lemma ex_slices : forall k, In k [0; 1; 2; 3] -> slice_of ex_data (tl4 k).
Proof.
  intros k [<- | [<- | [<- | [<- | []]]]]; (split; [vm_compute; discriminate | split; [vm_compute; discriminate | vm_compute; reflexivity]]).
Qed.

Lemma ex_no_collision : forall t, In t [tl4 1; tl4 2] ->
  no_collision CK_CRC32 13 (ex_cks ex_data) [tl4 0; tl4 3; t].
Proof.
  intros t Ht ts1 ts2 Happ Hm He.
  destruct ts1 as [|a [|b [|c0 [|d0 ts1]]]]; cbn [app] in Happ.
  - vm_compute in He. discriminate He.
  - injection Happ as -> _. vm_compute in He. discriminate He.
  - injection Happ as -> -> _. vm_compute. intro Hx. discriminate Hx.
  - injection Happ as -> -> -> _. destruct Ht as [<- | [<- | []]]; vm_compute; intro Hx; discriminate Hx.
  - discriminate Happ.
Qed.

(* the hypotheses of c13_late_data_completes hold in the run of ex_completes_at_poll *)
Example ex_hyps_completes :
  let c := ex_c true 3 1000 default_fault_table in
  let pre : list item := [(400, Some (tl4 1)); (700, None)] in
  let wait : list item := [(500, Some (tl4 2))] in
  let fin : item := (600, None) in
  get_remote (l_remotes c) (h_src ex_hd) = Some (ex_r true 3) /\
  get_fault_handler (l_faults c) C_CHECKSUM_FAILURE = Some FH_IGNORE /\
  dest_writable [] (dest_name [] [1] [2]) /\
  calculate_checksum CK_CRC32 (Some ex_data) 13 4096 = Ok (ex_cks ex_data) /\
  Forall (slice_of ex_data) (received (ex_early ++ pre ++ wait ++ [fin])) /\
  no_collision CK_CRC32 13 (ex_cks ex_data) (received (ex_early ++ pre)) /\
  missing 13 (received (ex_early ++ pre)) /\
  expiries 1000 0 pre < r_check_limit (ex_r true 3) /\
  expiries 1000 (elapsed 1000 0 pre) wait = 0 /\
  1000 <= elapsed 1000 0 (pre ++ wait) + fst fin /\
  complete 13 (received (ex_early ++ pre ++ wait ++ [fin])).
Proof.
  cbv zeta. split; [reflexivity|]. split; [reflexivity|]. split; [right; split; reflexivity|]. split; [reflexivity|].
  split. { repeat constructor; apply ex_slices; cbn; tauto. }
  split. { apply ex_no_collision. left. reflexivity. }
  split. { exists 8. split; [lia|]. intros [fd [Hin Hx]]. cbn in Hin.
           destruct Hin as [<- | [<- | [<- | []]]]; vm_compute in Hx; destruct Hx; congruence. }
  split; [reflexivity|]. split; [reflexivity|]. split; [vm_compute; discriminate|].
  intros x Hx. assert (C : x < 4 \/ 4 <= x < 8 \/ 8 <= x < 12 \/ x = 12) by lia.
  destruct C as [C | [C | [C | C]]].
  - exists (0, 4). split; [cbn; tauto | cbn [fst snd]; lia].
  - exists (4, 4). split; [cbn; tauto | cbn [fst snd]; lia].
  - exists (8, 4). split; [cbn; tauto | cbn [fst snd]; lia].
  - exists (12, 1). split; [cbn; tauto | cbn [fst snd]; lia].
Qed.

(* the hypotheses of c13_late_data_limit hold in the run of ex_limit *)
Example ex_hyps_limit :
  let c := ex_c true 3 1000 default_fault_table in
  let pre : list item := [(400, Some (tl4 1)); (700, None); (1000, None)] in
  let fin : item := (1000, None) in
  get_fault_handler (l_faults c) C_CHECK_LIMIT = Some FH_CANCEL /\
  Forall (slice_of ex_data) (received (ex_early ++ pre ++ [fin])) /\
  no_collision CK_CRC32 13 (ex_cks ex_data) (received (ex_early ++ pre ++ [fin])) /\
  missing 13 (received (ex_early ++ pre ++ [fin])) /\
  expiries 1000 0 pre + 1 = r_check_limit (ex_r true 3) /\
  1000 <= elapsed 1000 0 pre + fst fin.
Proof.
  cbv zeta. split; [reflexivity|].
  split. { repeat constructor; apply ex_slices; cbn; tauto. }
  split. { apply ex_no_collision. left. reflexivity. }
  split. { exists 8. split; [lia|]. intros [fd [Hin Hx]]. cbn in Hin.
           destruct Hin as [<- | [<- | [<- | []]]]; vm_compute in Hx; destruct Hx; congruence. }
  split; [reflexivity | vm_compute; discriminate].
Qed.

(* 0 < check timer interval is needed: with interval 0 the EOF call itself finds the timer expired and counts (and
   with limit 1 declares Check Limit Reached at once) *)
Example ex_zero_interval :
  let '(s, out) := ex_run (ex_c true 3 0 default_fault_table) true ex_data ex_early [] in
  (out, d_step s, p_check_count (d_p s)) = (Ok [[]; []; []; []], DS_RECV_WITH_CHECK_LIMIT, 1).
Proof. vm_compute. reflexivity. Qed.
Example ex_zero_interval_limit1 :
  let '(s, out) := ex_run (ex_c false 1 0 default_fault_table) false ex_data ex_early [] in
  (out, d_state s, firstn 2 (log_d s)) =
  (Ok [[]; []; []; []], ST_IDLE, [EvFinished 1 5 C_CHECK_LIMIT DATA_INCOMPLETE FS_RETAINED None; EvFault FH_CANCEL 1 5 C_CHECK_LIMIT 13]).
Proof. vm_compute. reflexivity. Qed.

(* no_collision is needed: a file whose second segment (cut at 5) is a multiple of the CRC-32 polynomial has the checksum
   of the same file with that segment zeroed; when the EOF overtakes just that segment the hole-y file verifies at
   once and the transaction completes with Data Complete although five bytes are wrong (the genuine checksum collision
   that property C01 allows) *)
Definition col_data : bytes := [3; 10; 17; 24; 31; 1; 150; 48; 7; 119; 73; 80; 87].
Definition tl5 (k : Z) : Z * bytes := (5 * k, ztake 5 (zdrop (5 * k) col_data)).
Example ex_collision :
  let early : list item := [(10, Some (tl5 0)); (10, Some (tl5 2))] in
  (Forall (slice_of col_data) (received early) /\ missing 13 (received early)) /\
  calculate_checksum CK_CRC32 (Some (written (received early))) 13 4096 = Ok (ex_cks col_data) /\
  let '(s, out) := ex_run (ex_c true 3 1000 default_fault_table) true col_data early [] in
  (out, d_state s, lookup (fs_d s) [2], firstn 1 (log_d s)) =
  (Ok [[]; []; []; [ex_fin]], ST_IDLE, Some (File [3; 10; 17; 24; 31; 0; 0; 0; 0; 0; 73; 80; 87]),
   [EvFinished 1 5 C_NO_ERROR DATA_COMPLETE FS_RETAINED None]).
Proof.
  cbv zeta. split; [split|split].
  - assert (S : forall k, In k [0; 2] -> slice_of col_data (tl5 k)).
    { intros k [<- | [<- | []]]; (split; [vm_compute; discriminate | split; [vm_compute; discriminate | vm_compute; reflexivity]]). }
    constructor; [apply S; cbn; tauto | constructor; [apply S; cbn; tauto | constructor]].
  - exists 5. split; [lia|]. intros [fd [Hin Hx]]. cbn in Hin.
    destruct Hin as [<- | [<- | []]]; vm_compute in Hx; destruct Hx; congruence.
  - vm_compute. reflexivity.
  - vm_compute. reflexivity.
Qed.

(* Check Limit Reached handled by IGNORE (F34 repair): the limit-th expiry (L = 2, at 2020) is counted and restarts the
   timer, so the following calls, 5 ms apart, declare nothing: ONE declaration after two more polls ... *)
Example ex_limit_ignored_once :
  let '(s, out) := ex_run (ex_c true 2 1000 ((C_CHECK_LIMIT, FH_IGNORE) :: default_fault_table)) true ex_data ex_early
                     [(1000, None); (1000, None); (5, None); (5, None)] in
  (out, d_state s, d_step s, p_check_count (d_p s), p_check_timer (d_p s), now_d s,
   filter (fun e => match e with EvFault k _ _ cnd _ => cnd =? C_CHECK_LIMIT | _ => false end) (log_d s)) =
  (Ok [[]; []; []; []; []; []; []; []], ST_BUSY, DS_RECV_WITH_CHECK_LIMIT, 2, Some (2020, 1000), 2030,
   [EvFault FH_IGNORE 1 5 C_CHECK_LIMIT 13]).
Proof. vm_compute. reflexivity. Qed.
(* ... still one at 3019, and the second when the restarted timer expires (3020): once per interval, not once per call *)
Example ex_limit_ignored_next_expiry :
  let c := ex_c true 2 1000 ((C_CHECK_LIMIT, FH_IGNORE) :: default_fault_table) in
  let lim := filter (fun e => match e with EvFault k _ _ cnd _ => cnd =? C_CHECK_LIMIT | _ => false end) in
  let '(s1, _) := ex_run c true ex_data ex_early [(1000, None); (1000, None); (5, None); (5, None); (989, None)] in
  let '(s2, out) := ex_run c true ex_data ex_early [(1000, None); (1000, None); (5, None); (5, None); (989, None); (1, None)] in
  (now_d s1, lim (log_d s1), out, d_step s2, p_check_count (d_p s2), p_check_timer (d_p s2), now_d s2, lim (log_d s2)) =
  (3019, [EvFault FH_IGNORE 1 5 C_CHECK_LIMIT 13],
   Ok [[]; []; []; []; []; []; []; []; []; []], DS_RECV_WITH_CHECK_LIMIT, 3, Some (3020, 1000), 3020,
   [EvFault FH_IGNORE 1 5 C_CHECK_LIMIT 13; EvFault FH_IGNORE 1 5 C_CHECK_LIMIT 13]).
Proof. vm_compute. reflexivity. Qed.

(* the hypotheses of c13_late_data_limit_ignored_once hold in the run of ex_limit_ignored_once *)
Example ex_hyps_limit_ignored :
  let c := ex_c true 2 1000 ((C_CHECK_LIMIT, FH_IGNORE) :: default_fault_table) in
  let pre : list item := [(1000, None)] in
  let fin : item := (1000, None) in
  let post : list item := [(5, None); (5, None)] in
  get_fault_handler (l_faults c) C_CHECKSUM_FAILURE = Some FH_IGNORE /\
  get_fault_handler (l_faults c) C_CHECK_LIMIT = Some FH_IGNORE /\
  Forall (slice_of ex_data) (received (ex_early ++ pre ++ [fin])) /\
  no_collision CK_CRC32 13 (ex_cks ex_data) (received (ex_early ++ pre ++ [fin])) /\
  missing 13 (received (ex_early ++ pre ++ [fin])) /\
  expiries 1000 0 pre + 1 = r_check_limit (ex_r true 2) /\
  1000 <= elapsed 1000 0 pre + fst fin /\
  Forall (slice_of ex_data) (received post) /\ expiries 1000 0 post = 0.
Proof.
  cbv zeta. split; [reflexivity|]. split; [reflexivity|].
  split. { repeat constructor; apply ex_slices; cbn; tauto. }
  split. { intros ts1 ts2 Happ Hm He. destruct ts1 as [|a [|b [|c0 ts1]]]; cbn [app] in Happ.
           - vm_compute in He. discriminate He.
           - injection Happ as -> _. vm_compute in He. discriminate He.
           - injection Happ as -> -> _. vm_compute. intro Hx. discriminate Hx.
           - discriminate Happ. }
  split. { exists 8. split; [lia|]. intros [fd [Hin Hx]]. cbn in Hin.
           destruct Hin as [<- | [<- | []]]; vm_compute in Hx; destruct Hx; congruence. }
  split; [reflexivity|]. split; [vm_compute; discriminate|]. split; [constructor | reflexivity].
Qed.
