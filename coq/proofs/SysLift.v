(* Lifting the boolean, kernel-evaluated instances of SysC02 / SysC03* to readable statements. *)
From CFDP Require Import Base LostSeg Fs Checksum Handler Dest Source SourceSpec System SystemCases.
From CFDP.proofs Require Import SysC02 SysC03a SysC03b0 SysC03b5 SysC03b9 SysC03c1 SysC03c2 SysC03c3 SysC03c4.

Lemma forallb_prod {A B} (f : A * B -> bool) (la : list A) (lb : list B) :
  forallb f (list_prod la lb) = true -> forall a b, In a la -> In b lb -> f (a, b) = true.
Proof.
  intros H a b Ha Hb. rewrite forallb_forall in H. apply H. apply in_prod; assumption.
Qed.

Lemma bytes_eqb_eq : forall a b, bytes_eqb a b = true -> a = b.
Proof.
  induction a as [|x a IH]; destruct b as [|y b]; simpl; intros H; try discriminate; auto.
  apply andb_true_iff in H. destruct H as [H1 H2]. apply Z.eqb_eq in H1. subst. f_equal. auto.
Qed.

(* what the boolean verdict of a finished run says *)
Lemma delivered_ok_means : forall dn data y q,
  delivered_ok dn data (y, q) = true ->
  q = true /\ file_content (e_fs (d_env (y_dst y))) dn = Some data /\
  length (filter success_event (e_log (s_env (y_src y)))) = 1%nat /\
  (1 <= length (filter success_event (e_log (d_env (y_dst y)))))%nat.
Proof.
  intros dn data y q H. unfold delivered_ok in H.
  apply andb_true_iff in H. destruct H as [H Hlast].
  apply andb_true_iff in H. destruct H as [H Hdst].
  apply andb_true_iff in H. destruct H as [H Hsrc].
  apply andb_true_iff in H. destruct H as [Hq Hfile].
  split; [exact Hq|].
  destruct (file_content (e_fs (d_env (y_dst y))) dn) as [d|] eqn:E; [|discriminate].
  apply bytes_eqb_eq in Hfile. subst d. split; [reflexivity|].
  unfold zlen in *. split.
  - apply Z.eqb_eq in Hsrc. lia.
  - apply Z.leb_le in Hdst. lia.
Qed.

Lemma quiescent_means : forall y, quiescent y = true ->
  s_state (y_src y) = ST_IDLE /\ d_state (y_dst y) = ST_IDLE /\ y_s2d y = [] /\ y_d2s y = [] /\ y_delayed y = [].
Proof.
  intros y H. unfold quiescent in H.
  apply andb_true_iff in H. destruct H as [H Hl].
  apply andb_true_iff in H. destruct H as [Hs Hd].
  apply Z.eqb_eq in Hs. apply Z.eqb_eq in Hd.
  destruct (y_s2d y), (y_d2s y), (y_delayed y); try discriminate. auto.
Qed.

Lemma fault_free_ok_means : forall dn data y q,
  fault_free_ok dn data (y, q) = true ->
  delivered_ok dn data (y, q) = true /\ y_errs y = [] /\
  existsb fault_event (e_log (s_env (y_src y))) = false /\ existsb fault_event (e_log (d_env (y_dst y))) = false /\
  length (filter success_event (e_log (d_env (y_dst y)))) = 1%nat.
Proof.
  intros dn data y q H. unfold fault_free_ok in H. cbn [fst] in H.
  apply andb_true_iff in H. destruct H as [Hdel H].
  split; [exact Hdel|].
  apply andb_true_iff in H. destruct H as [H Hone].
  apply andb_true_iff in H. destruct H as [H Hfd].
  apply andb_true_iff in H. destruct H as [Herr Hfs].
  destruct (y_errs y); [|discriminate]. split; [reflexivity|].
  apply negb_true_iff in Hfs. apply negb_true_iff in Hfd. unfold zlen in Hone. apply Z.eqb_eq in Hone.
  repeat split; auto. lia.
Qed.

(* C02, bounded instance, lifted *)
Lemma c02_case_point : forall mode closure ck seg imm size,
  c02_case (mode, (closure, (ck, (seg, (imm, size))))) = c02_point mode closure ck seg imm size.
Proof. intros. reflexivity. Qed.

Lemma c02_small_lifted : forall mode closure ck seg imm size,
  In mode [ACKED; UNACKED] -> In closure [false; true] -> In ck [CK_MODULAR; CK_CRC32C; CK_CRC32; CK_NULL] ->
  In seg [1; 2; 4; 64] -> In imm [false; true] -> In size [0; 1; 2; 3; 4; 5; 7; 8; 9] ->
  c02_point mode closure ck seg imm size = true.
Proof.
  intros mode closure ck seg imm size Hm Hc Hk Hs Hi Hz.
  rewrite <- c02_case_point.
  apply (proj1 (forallb_forall c02_case c02_space) c02_all_small).
  unfold c02_space.
  repeat (apply in_prod; [assumption|]). assumption.
Qed.

(* C03, bounded instances, lifted: K <= 1 *)
Lemma c03_k1_lifted : forall cl imm size f,
  In cl [false; true] -> In imm [false; true] -> In size [0; 5; 9] -> In f (fault_space 12) ->
  c03_case cl imm size 1 [f] = true.
Proof.
  intros cl imm size f Hc Hi Hs Hf.
  pose proof c03_k1_small as H. unfold c03_k1_space in H.
  pose proof (forallb_prod _ _ _ H cl (imm, size) Hc) as H1.
  assert (In (imm, size) (list_prod [false; true] [0; 5; 9])) as Hin by (apply in_prod; assumption).
  specialize (H1 Hin). cbn beta iota in H1. rewrite forallb_forall in H1. apply H1. assumption.
Qed.

Lemma c03_k2_lifted : forall cl imm size f1 f2,
  In cl [false; true] -> In imm [false; true] -> In size [0; 5; 9] -> In (f1, f2) (pairs (fault_space 10)) ->
  c03_case cl imm size 2 [f1; f2] = true.
Proof.
  intros cl imm size f1 f2 Hc Hi Hs Hf.
  assert (forall sz, forallb (fun '(cl, imm) => forallb (fun '(f1, f2) => c03_case cl imm sz 2 [f1; f2]) (pairs (fault_space 10)))
                       (list_prod [false; true] [false; true]) = true ->
                     c03_case cl imm sz 2 [f1; f2] = true) as K.
  { intros sz H. pose proof (forallb_prod _ _ _ H cl imm Hc Hi) as H1. cbn beta iota in H1.
    rewrite forallb_forall in H1. apply (H1 (f1, f2)). assumption. }
  simpl in Hs. destruct Hs as [<-|[<-|[<-|[]]]].
  - apply K. exact c03_k2_size0.
  - apply K. exact c03_k2_size5.
  - apply K. exact c03_k2_size9.
Qed.

Lemma c03_k3_lifted : forall cl imm f1 f2 f3,
  In cl [false; true] -> In imm [false; true] -> In (f1, f2, f3) (triples (fault_space 9)) ->
  c03_case cl imm 5 3 [f1; f2; f3] = true.
Proof.
  intros cl imm f1 f2 f3 Hc Hi Hf.
  assert (forall c i, forallb (fun '(f1, f2, f3) => c03_case c i 5 3 [f1; f2; f3]) (triples (fault_space 9)) = true ->
                      c03_case c i 5 3 [f1; f2; f3] = true) as K.
  { intros c i H. rewrite forallb_forall in H. apply (H (f1, f2, f3)). assumption. }
  simpl in Hc, Hi. destruct Hc as [<-|[<-|[]]]; destruct Hi as [<-|[<-|[]]]; apply K.
  - exact c03_k3_1. - exact c03_k3_2. - exact c03_k3_3. - exact c03_k3_4.
Qed.
