(* Kernel-checked exhaustive instance of C03, K = 3: every triple of link faults (index < 9) on a file of 5 bytes,
   closure = false, immediate NAK = false, limits 6. *)
From CFDP Require Import Base Checksum Handler Dest Source System SystemCases.
Lemma c03_k3_1 :
  forallb (fun '(f1, f2, f3) => c03_case false false 5 3 [f1; f2; f3]) (triples (fault_space 9)) = true.
Proof. vm_compute. reflexivity. Qed.
