(* DestFsProofs.v — proofs for property C05 (props/C05.v): the destination handler touches the
   filestore only at the destination path, with the write model of Fs.v.
   Every lemma used by props/C05.v is stated here with exactly the statement of the theorem
   it closes.  No axioms. *)
From CFDP Require Import Base LostSeg LostSegSpec Fs Crc Checksum Handler Dest HandlerSpec.
From CFDP.gen Require Import Tables.
From CFDP.proofs Require Import FsProofs.
From RecordUpdate Require Import RecordSet.
Import RecordSetNotations.
Open Scope monad_scope.

Arguments Z.add : simpl never. Arguments Z.sub : simpl never. Arguments Z.mul : simpl never.
Arguments Z.ltb : simpl never. Arguments Z.leb : simpl never. Arguments Z.eqb : simpl never.
Arguments Z.max : simpl never. Arguments Z.min : simpl never. Arguments Z.of_nat : simpl never.
Opaque calculate_checksum.

(* same body as props/C05.v may_touch *)
Definition may_touch (s : dst) (pkt : option pdu) (q : path) : Prop :=
  q = p_file_name (d_p s) \/
  match pkt with
  | Some (PMetadata _ _ _ _ (Some (sn, dn)) _) => q = dn \/ exists b, q = dn ++ [b]
  | _ => False
  end.

(* ================================================================== *)
(* 1. a small relational program logic: every call relates the state  *)
(*    before to the state after by a transitive relation R            *)
(* ================================================================== *)

Definition pfn (s : dst) : path := p_file_name (d_p s).

(* relations that hold across every step that leaves the filestore, the reject switch and
   the destination file name alone *)
Record okrel0 (R : dst -> dst -> Prop) : Prop := {
  r_trans : forall a b c, R a b -> R b c -> R a c;
  r_same : forall s s', e_fs (d_env s') = e_fs (d_env s) ->
             e_reject_writes (d_env s') = e_reject_writes (d_env s) -> pfn s' = pfn s -> R s s' }.
(* ... and also across the re-creation of the parameter block (file name := []) *)
Record okrel (R : dst -> dst -> Prop) : Prop := {
  r_ok0 : okrel0 R;
  r_fresh : forall s s', e_fs (d_env s') = e_fs (d_env s) ->
              e_reject_writes (d_env s') = e_reject_writes (d_env s) -> pfn s' = [] -> R s s' }.

Definition Pres {A} (R : dst -> dst -> Prop) (m : D A) : Prop := forall s, R s (fst (m s)).

Lemma r_refl : forall R, okrel0 R -> forall s, R s s.
Proof. intros R H s. apply (r_same R H); reflexivity. Qed.

Ltac ok0 := first [assumption | apply r_ok0; assumption].

Lemma pres_ret : forall R A (a : A), okrel0 R -> Pres R (ret a).
Proof. intros R A a H s. apply r_refl; exact H. Qed.

Lemma pres_raise : forall R A e, okrel0 R -> Pres R (@raise dst A e).
Proof. intros R A e H s. apply r_refl; exact H. Qed.

Lemma pres_bind : forall R A B (m : D A) (f : A -> D B), okrel0 R ->
  Pres R m -> (forall a, Pres R (f a)) -> Pres R (bind m f).
Proof.
  intros R A B m f H Hm Hf s. unfold bind. specialize (Hm s).
  destruct (m s) as [s1 [a|e]]; cbn in *.
  - eapply (r_trans R H); [exact Hm | apply Hf].
  - exact Hm.
Qed.

Lemma pres_catch : forall R A (m : D A) h, okrel0 R ->
  Pres R m -> (forall e k, h e = Some k -> Pres R k) -> Pres R (catch m h).
Proof.
  intros R A m h H Hm Hh s. unfold catch. specialize (Hm s).
  destruct (m s) as [s1 [a|e]]; cbn in *; [exact Hm|].
  destruct (h e) as [k|] eqn:E; [|exact Hm].
  eapply (r_trans R H); [exact Hm | apply (Hh e k E)].
Qed.

Lemma pres_gets : forall R A (f : dst -> A), okrel0 R -> Pres R (gets f).
Proof. intros R A f H s. apply r_refl; exact H. Qed.

Lemma pres_get : forall R, okrel0 R -> Pres R (@get dst).
Proof. intros R H s. apply r_refl; exact H. Qed.

Lemma pres_when : forall R b (m : D unit), okrel0 R -> Pres R m -> Pres R (when b m).
Proof. intros R b m H Hm. destruct b; [exact Hm | apply pres_ret; exact H]. Qed.

Lemma pres_modify : forall R (f : dst -> dst), okrel0 R ->
  (forall s, e_fs (d_env (f s)) = e_fs (d_env s)) ->
  (forall s, e_reject_writes (d_env (f s)) = e_reject_writes (d_env s)) ->
  (forall s, pfn (f s) = pfn s) -> Pres R (modify f).
Proof. intros R f H H1 H2 H3 s. apply (r_same R H); [apply H1 | apply H2 | apply H3]. Qed.

Lemma pres_gp : forall R A (f : dparams -> A), okrel0 R -> Pres R (gp f).
Proof. intros. apply pres_gets; assumption. Qed.

Lemma pres_setp : forall R (f : dparams -> dparams), okrel0 R ->
  (forall p, p_file_name (f p) = p_file_name p) -> Pres R (setp f).
Proof. intros R f H Hf. apply pres_modify; [exact H | reflexivity | reflexivity | intro s; apply Hf]. Qed.

Lemma pres_setp_fresh : forall R, okrel R -> Pres R (setp (fun _ => fresh_params)).
Proof. intros R H s. apply (r_fresh R H); reflexivity. Qed.

Lemma pres_set_step : forall R v, okrel0 R -> Pres R (set_step v).
Proof. intros. apply pres_modify; [assumption | reflexivity..]. Qed.

Lemma pres_emit : forall R e, okrel0 R -> Pres R (emit e).
Proof. intros. apply pres_modify; [assumption | reflexivity..]. Qed.

Lemma pres_add_packet : forall R p, okrel0 R -> Pres R (add_packet p).
Proof. intros. apply pres_modify; [assumption | reflexivity..]. Qed.

Lemma pres_reset_internal : forall R, okrel R -> Pres R reset_internal.
Proof. intros R H s. apply (r_fresh R H); reflexivity. Qed.

Create HintDb pres discriminated.
#[export] Hint Constants Opaque : pres.
#[export] Hint Resolve r_ok0 : pres.

(* one step of syntax-directed decomposition; leaves goals it cannot close *)
Ltac pres_step :=
  lazymatch goal with
  | |- Pres _ (bind _ _) => apply pres_bind; [ok0 | | intro]
  | |- Pres _ (ret _) => apply pres_ret; ok0
  | |- Pres _ (raise _) => apply pres_raise; ok0
  | |- Pres _ (when _ _) => apply pres_when; [ok0 |]
  | |- Pres _ (catch _ _) =>
      apply pres_catch;
      [ok0 | |
       let e := fresh "e" in let k := fresh "k" in let Hk := fresh "Hk" in
       intros e k Hk;
       match type of Hk with (if ?c then _ else _) = _ => destruct c end;
       [injection Hk as <- | discriminate Hk]]
  | |- Pres _ (gets _) => apply pres_gets; ok0
  | |- Pres _ get => apply pres_get; ok0
  | |- Pres _ (gp _) => apply pres_gp; ok0
  | |- Pres _ now => apply pres_gets; ok0
  | |- Pres _ get_step => apply pres_gets; ok0
  | |- Pres _ conf => apply pres_gp; ok0
  | |- Pres _ (setp (fun _ => fresh_params)) => apply pres_setp_fresh; assumption
  | |- Pres _ (setp _) => apply pres_setp; [ok0 | intro; reflexivity]
  | |- Pres _ (set_step _) => apply pres_set_step; ok0
  | |- Pres _ (emit _) => apply pres_emit; ok0
  | |- Pres _ (add_packet _) => apply pres_add_packet; ok0
  | |- Pres _ reset_internal => apply pres_reset_internal; assumption
  | |- Pres _ (if ?b then _ else _) => destruct b
  | |- Pres _ (match ?x with _ => _ end) => destruct x
  | |- Pres _ (let _ := _ in _) => cbv zeta
  end.
Ltac pres := repeat first [ pres_step | solve [eauto 3 with pres] ].

(* ================================================================== *)
(* 2. the procedures that do not touch the filestore                  *)
(* ================================================================== *)

Lemma pres_tid_or_assert : forall R, okrel0 R -> Pres R tid_or_assert.
Proof. intros R HR. unfold tid_or_assert. pres. Qed.
Lemma pres_rcfg_or_assert : forall R, okrel0 R -> Pres R rcfg_or_assert.
Proof. intros R HR. unfold rcfg_or_assert. pres. Qed.
Lemma pres_tmode : forall R, okrel0 R -> Pres R tmode.
Proof. intros R HR. unfold tmode. pres. Qed.
#[export] Hint Resolve pres_tid_or_assert pres_rcfg_or_assert pres_tmode : pres.
Lemma pres_mode_is : forall R m, okrel0 R -> Pres R (mode_is m).
Proof. intros R m HR. unfold mode_is. pres. Qed.
#[export] Hint Resolve pres_mode_is : pres.

Lemma pres_notice_of_cancellation : forall R c, okrel0 R -> Pres R (notice_of_cancellation c).
Proof. intros R c HR. unfold notice_of_cancellation. pres. Qed.
#[export] Hint Resolve pres_notice_of_cancellation : pres.

Lemma pres_declare_fault : forall R c, okrel R -> Pres R (declare_fault c).
Proof. intros R c HR. unfold declare_fault. pres. Qed.
#[export] Hint Resolve pres_declare_fault : pres.

Lemma pres_vfs_checksum : forall R ty name size, okrel0 R -> Pres R (vfs_checksum ty name size).
Proof. intros R ty name size HR. unfold vfs_checksum. pres. Qed.
#[export] Hint Resolve pres_vfs_checksum : pres.

Lemma pres_checksum_verify : forall R, okrel R -> Pres R checksum_verify.
Proof. intros R HR. unfold checksum_verify. pres. Qed.
#[export] Hint Resolve pres_checksum_verify : pres.

Lemma pres_prepare_eof_ack_packet : forall R, okrel0 R -> Pres R prepare_eof_ack_packet.
Proof. intros R HR. unfold prepare_eof_ack_packet. pres. Qed.
#[export] Hint Resolve pres_prepare_eof_ack_packet : pres.

Lemma pres_file_transfer_complete_transition : forall R, okrel0 R -> Pres R file_transfer_complete_transition.
Proof. intros R HR. unfold file_transfer_complete_transition. pres. Qed.
#[export] Hint Resolve pres_file_transfer_complete_transition : pres.

Lemma pres_start_check_limit_handling : forall R, okrel0 R -> Pres R start_check_limit_handling.
Proof. intros R HR. unfold start_check_limit_handling. pres. Qed.
#[export] Hint Resolve pres_start_check_limit_handling : pres.

Lemma pres_tracker_add : forall R sg, okrel0 R -> Pres R (tracker_add sg).
Proof. intros R sg HR. unfold tracker_add. pres. Qed.
#[export] Hint Resolve pres_tracker_add : pres.

Lemma pres_remove_covered : forall R off e sg, okrel0 R -> Pres R (remove_covered off e sg).
Proof. intros R off e sg HR. unfold remove_covered. pres. Qed.
#[export] Hint Resolve pres_remove_covered : pres.

Lemma pres_fold_remove_covered : forall R off e l (m : D unit), okrel0 R -> Pres R m ->
  Pres R (fold_left (fun m sg => m ;;; remove_covered off e sg) l m).
Proof.
  intros R off e l. induction l as [|sg l IH]; intros m HR Hm; cbn [fold_left]; [exact Hm|].
  apply IH; [exact HR|]. pres.
Qed.

Lemma pres_lost_segment_handling : forall R off len, okrel0 R -> Pres R (lost_segment_handling off len).
Proof.
  intros R off len HR. unfold lost_segment_handling. pres.
  all: try (apply pres_fold_remove_covered; [ok0 | pres]).
Qed.
#[export] Hint Resolve pres_lost_segment_handling : pres.

Lemma pres_filestore_rejection : forall R, okrel R -> Pres R filestore_rejection.
Proof. intros R HR. unfold filestore_rejection. pres. Qed.
#[export] Hint Resolve pres_filestore_rejection : pres.

Lemma pres_reset_nak_activity_parameters : forall R, okrel0 R -> Pres R reset_nak_activity_parameters.
Proof. intros R HR. unfold reset_nak_activity_parameters. pres. Qed.
#[export] Hint Resolve pres_reset_nak_activity_parameters : pres.

Lemma pres_fold_add_packet : forall R l (m : D unit), okrel0 R -> Pres R m ->
  Pres R (fold_left (fun m p => m ;;; add_packet p) l m).
Proof.
  intros R l. induction l as [|p l IH]; intros m HR Hm; cbn [fold_left]; [exact Hm|].
  apply IH; [exact HR|]. pres.
Qed.

Lemma pres_deferred_lost_segment_handling : forall R, okrel R -> Pres R deferred_lost_segment_handling.
Proof.
  intros R HR. unfold deferred_lost_segment_handling. pres.
  all: try (apply pres_fold_add_packet; [ok0 | pres]).
Qed.
#[export] Hint Resolve pres_deferred_lost_segment_handling : pres.

Lemma pres_start_deferred_lost_segment_handling : forall R, okrel R -> Pres R start_deferred_lost_segment_handling.
Proof. intros R HR. unfold start_deferred_lost_segment_handling. pres. Qed.
#[export] Hint Resolve pres_start_deferred_lost_segment_handling : pres.

Lemma pres_handle_no_error_eof : forall R, okrel R -> Pres R handle_no_error_eof.
Proof. intros R HR. unfold handle_no_error_eof. pres. Qed.
#[export] Hint Resolve pres_handle_no_error_eof : pres.

Lemma pres_handle_eof_pdu : forall R c ck sz, okrel R -> Pres R (handle_eof_pdu c ck sz).
Proof. intros R c ck sz HR. unfold handle_eof_pdu. pres. Qed.
#[export] Hint Resolve pres_handle_eof_pdu : pres.

Lemma pres_common_first_packet_handler : forall R h, okrel0 R -> Pres R (common_first_packet_handler h).
Proof.
  intros R h HR s. unfold common_first_packet_handler, bind, get.
  destruct (negb (d_state s =? ST_IDLE)); cbn; [apply r_refl; exact HR|].
  apply (r_same R HR); reflexivity.
Qed.
#[export] Hint Resolve pres_common_first_packet_handler : pres.

Lemma pres_common_first_packet_not_metadata : forall R h, okrel R -> Pres R (common_first_packet_not_metadata h).
Proof. intros R h HR. unfold common_first_packet_not_metadata. pres. Qed.
#[export] Hint Resolve pres_common_first_packet_not_metadata : pres.

(* since the F32 repair an EOF (cancel) before the Metadata runs handle_eof_pdu, hence okrel *)
Lemma pres_handle_eof_without_previous_metadata : forall R c ck sz, okrel R ->
  Pres R (handle_eof_without_previous_metadata c ck sz).
Proof. intros R c ck sz HR. unfold handle_eof_without_previous_metadata. pres. Qed.
#[export] Hint Resolve pres_handle_eof_without_previous_metadata : pres.

Lemma pres_handle_fd_without_previous_metadata : forall R first off data, okrel0 R ->
  Pres R (handle_fd_without_previous_metadata first off data).
Proof. intros R first off data HR. unfold handle_fd_without_previous_metadata. pres. Qed.
#[export] Hint Resolve pres_handle_fd_without_previous_metadata : pres.

Lemma pres_prepare_finished_pdu : forall R, okrel0 R -> Pres R prepare_finished_pdu.
Proof. intros R HR. unfold prepare_finished_pdu. pres. Qed.
#[export] Hint Resolve pres_prepare_finished_pdu : pres.

Lemma pres_start_positive_ack_procedure : forall R, okrel0 R -> Pres R start_positive_ack_procedure.
Proof. intros R HR. unfold start_positive_ack_procedure. pres. Qed.
#[export] Hint Resolve pres_start_positive_ack_procedure : pres.

Lemma pres_handle_finished_pdu_sent : forall R, okrel R -> Pres R handle_finished_pdu_sent.
Proof. intros R HR. unfold handle_finished_pdu_sent. pres. Qed.
#[export] Hint Resolve pres_handle_finished_pdu_sent : pres.

Lemma pres_fsm_advancement : forall R, okrel R -> Pres R fsm_advancement.
Proof. intros R HR. unfold fsm_advancement. pres. Qed.
#[export] Hint Resolve pres_fsm_advancement : pres.

Lemma pres_check_limit_handling : forall R, okrel R -> Pres R check_limit_handling.
Proof. intros R HR. unfold check_limit_handling. pres. Qed.
#[export] Hint Resolve pres_check_limit_handling : pres.

Lemma pres_check_inserted_packet : forall R p, okrel0 R -> Pres R (check_inserted_packet p).
Proof. intros R p HR. unfold check_inserted_packet. pres. Qed.
#[export] Hint Resolve pres_check_inserted_packet : pres.

Lemma pres_catch_abandoned : forall R (m : D unit), okrel0 R -> Pres R m -> Pres R (catch_abandoned m).
Proof. intros R m HR Hm. unfold catch_abandoned. pres. Qed.

Lemma pres_step_is : forall R v, okrel0 R -> Pres R (step_is v).
Proof. intros R v HR. unfold step_is. pres. Qed.
#[export] Hint Resolve pres_step_is : pres.

(* ================================================================== *)
(* 3. instances of the relation                                       *)
(* ================================================================== *)

(* (a) the filestore and the reject switch are unchanged *)
Definition SameFs (s s' : dst) : Prop :=
  e_fs (d_env s') = e_fs (d_env s) /\ e_reject_writes (d_env s') = e_reject_writes (d_env s).
Lemma ok_SameFs : okrel SameFs.
Proof.
  split; [split|]; unfold SameFs.
  - intros a b c [H1 H2] [H3 H4]. split; congruence.
  - intros s s' H1 H2 _. split; assumption.
  - intros s s' H1 H2 _. split; assumption.
Qed.

(* (b) ... and the destination file name too *)
Definition SameFsName (s s' : dst) : Prop :=
  e_fs (d_env s') = e_fs (d_env s) /\ e_reject_writes (d_env s') = e_reject_writes (d_env s) /\ pfn s' = pfn s.
Lemma ok_SameFsName : okrel0 SameFsName.
Proof.
  split; unfold SameFsName.
  - intros a b c [H1 [H2 H3]] [H4 [H5 H6]]. repeat split; congruence.
  - intros s s' H1 H2 H3. repeat split; assumption.
Qed.

(* (c) the frame: for a set P of paths containing the current destination name, the name stays
   in P and nothing outside P changes *)
Definition Step (P : path -> Prop) (s s' : dst) : Prop :=
  P (pfn s) -> P (pfn s') /\ forall q, ~ P q -> lookup (fs_d s') q = lookup (fs_d s) q.
Lemma ok_Step : forall P : path -> Prop, P [] -> okrel (Step P).
Proof.
  intros P Hnil. split; [split|]; unfold Step, fs_d.
  - intros a b c H1 H2 Ha. destruct (H1 Ha) as [Hb E1]. destruct (H2 Hb) as [Hc E2].
    split; [exact Hc|]. intros q Hq. rewrite (E2 q Hq). apply E1; exact Hq.
  - intros s s' H1 _ H3 Hs. rewrite H3, H1. split; [exact Hs | reflexivity].
  - intros s s' H1 _ H3 Hs. rewrite H3, H1. split; [exact Hnil | reflexivity].
Qed.

(* ================================================================== *)
(* 4. the three procedures that touch the filestore                   *)
(* ================================================================== *)

Arguments lookup : simpl never.
Arguments fs_write_data : simpl never.
Arguments fs_truncate_file : simpl never.
Arguments fs_create_file : simpl never.
Arguments fs_delete_file : simpl never.
Arguments fs_is_directory : simpl never.
Arguments fs_file_exists : simpl never.

Lemma path_eqb_sym_false : forall p q, q <> p -> path_eqb p q = false.
Proof. intros p q H. apply path_eqb_neq. intro E; apply H; symmetry; exact E. Qed.

Lemma write_data_lookup : forall t p d off t' q, fs_write_data t p d off = Ok t' -> q <> p ->
  lookup t' q = lookup t q.
Proof.
  intros t p d off t' q H Hq. unfold fs_write_data in H.
  destruct (lookup t p) as [[old|]|] eqn:E; try discriminate H. injection H as <-.
  rewrite lookup_set_node by (eapply lookup_file_ne; exact E).
  rewrite path_eqb_sym_false by exact Hq. reflexivity.
Qed.

Lemma truncate_lookup : forall t p t' q, fs_truncate_file t p = Ok t' -> q <> p ->
  lookup t' q = lookup t q.
Proof.
  intros t p t' q H Hq. unfold fs_truncate_file in H.
  destruct (lookup t p) as [[old|]|] eqn:E; try discriminate H. injection H as <-.
  rewrite lookup_set_node by (eapply lookup_file_ne; exact E).
  rewrite path_eqb_sym_false by exact Hq. reflexivity.
Qed.

Lemma create_lookup : forall t p q, q <> p -> lookup (fst (fs_create_file t p)) q = lookup t q.
Proof.
  intros t p q Hq. unfold fs_create_file.
  destruct (exists_ t p) eqn:E; [reflexivity|].
  destruct (parent_is_dir t p); [|reflexivity]. cbn [fst].
  rewrite lookup_set_node by (apply (exists_false t p E)).
  rewrite path_eqb_sym_false by exact Hq. reflexivity.
Qed.

Lemma delete_lookup : forall t p q, q <> p -> lookup (fst (fs_delete_file t p)) q = lookup t q.
Proof.
  intros t p q Hq. unfold fs_delete_file.
  destruct (lookup t p) as [[old|]|] eqn:E; try reflexivity. cbn [fst].
  rewrite lookup_remove_path by (eapply lookup_file_ne; exact E).
  rewrite path_eqb_sym_false by exact Hq. reflexivity.
Qed.

Lemma ne_of_P : forall (P : path -> Prop) p q, P p -> ~ P q -> q <> p.
Proof. intros P p q Hp Hq E. apply Hq. rewrite E. exact Hp. Qed.

(* ---- symbolic execution of the monad: one rewriting lemma per primitive *)
Lemma bind_gets : forall A B (f : dst -> A) (k : A -> D B) s, bind (gets f) k s = k (f s) s.
Proof. reflexivity. Qed.
Lemma bind_gp : forall A B (f : dparams -> A) (k : A -> D B) s, bind (gp f) k s = k (f (d_p s)) s.
Proof. reflexivity. Qed.
Lemma bind_get : forall B (k : dst -> D B) s, bind get k s = k s s.
Proof. reflexivity. Qed.
Lemma bind_modify : forall B f (k : unit -> D B) s, bind (modify f) k s = k tt (f s).
Proof. reflexivity. Qed.
Lemma bind_setp : forall B f (k : unit -> D B) s, bind (setp f) k s = k tt (s <| d_p ::= f |>).
Proof. reflexivity. Qed.
Lemma bind_set_step : forall B v (k : unit -> D B) s, bind (set_step v) k s = k tt (s <| d_step := v |>).
Proof. reflexivity. Qed.
Lemma bind_ret : forall A B (a : A) (k : A -> D B) s, bind (ret a) k s = k a s.
Proof. reflexivity. Qed.
Lemma bind_raise : forall A B e (k : A -> D B) s, bind (raise e) k s = (s, Err e).
Proof. reflexivity. Qed.
Ltac mrun := repeat (first [rewrite bind_gets | rewrite bind_gp | rewrite bind_get | rewrite bind_setp
                           | rewrite bind_set_step | rewrite bind_modify | rewrite bind_ret | rewrite bind_raise];
                     cbv beta).

Lemma bind_assoc : forall A B C (m : D A) (f : A -> D B) (g : B -> D C) s,
  bind (bind m f) g s = bind m (fun a => bind (f a) g) s.
Proof. intros. unfold bind. destruct (m s) as [s1 [a|e]]; reflexivity. Qed.
Lemma bind_rcfg : forall B (k : rcfg -> D B) s,
  bind rcfg_or_assert k s = match p_rcfg (d_p s) with Some r => k r s | None => (s, Err E_ASSERT) end.
Proof.
  intros. unfold rcfg_or_assert. rewrite bind_assoc, bind_gp.
  destruct (p_rcfg (d_p s)); [rewrite bind_ret | rewrite bind_raise]; reflexivity.
Qed.

(* the relation holds across [bind m f] from a given state when it holds across [m] from that
   state and across the continuation from everywhere *)
Lemma at_bind : forall R A B (m : D A) (f : A -> D B) s, okrel0 R ->
  R s (fst (m s)) -> (forall a, Pres R (f a)) -> R s (fst (bind m f s)).
Proof.
  intros R A B m f s H Hm Hf. unfold bind. destruct (m s) as [s1 [a|e]]; cbn in *.
  - eapply (r_trans R H); [exact Hm | apply Hf].
  - exact Hm.
Qed.

Lemma at_catch : forall R A (m : D A) h s, okrel0 R ->
  R s (fst (m s)) -> (forall e k, h e = Some k -> Pres R k) -> R s (fst (catch m h s)).
Proof.
  intros R A m h s H Hm Hh. unfold catch. destruct (m s) as [s1 [a|e]]; cbn in *; [exact Hm|].
  destruct (h e) as [k|] eqn:E; [|exact Hm].
  eapply (r_trans R H); [exact Hm | apply (Hh e k E)].
Qed.

Lemma pres_of_fst : forall R A (m : D A) s s' r, Pres R m -> m s = (s', r) -> R s s'.
Proof. intros R A m s s' r H E. specialize (H s). rewrite E in H. exact H. Qed.

(* ---- vfs_write *)
Lemma vfs_write_run : forall name data off s,
  vfs_write name data off s =
  if e_reject_writes (d_env s) then (s, Err E_PERMISSION)
  else match fs_write_data (e_fs (d_env s)) name data off with
       | Ok fs' => (s <| d_env ::= (fun e => e <| e_fs := fs' |>) |>, Ok tt)
       | Err e => (s, Err (oserr_exn e))
       end.
Proof.
  intros name data off s. unfold vfs_write. mrun.
  destruct (e_reject_writes (d_env s)); [reflexivity|].
  destruct (fs_write_data (e_fs (d_env s)) name data off); reflexivity.
Qed.

(* ---- init_vfs_handling: the protected body and the handler *)
Definition init_body (base : option Z) : D unit :=
    (fs <- gets (fun s => e_fs (d_env s)) ;;
     name <- gp p_file_name ;;
     let name' := if fs_is_directory fs name then (match base with Some b => name ++ [b] | None => name end) else name in
     setp (fun p => p <| p_file_name := name' |>) ;;;
     (if fs_file_exists fs name' then vfs_op_tree (fun t => fs_truncate_file t name')
      else vfs_op_tree (fun t => Ok (fst (fs_create_file t name')))) ;;;
     setp (fun p => p <| p_fin ::= (fun f => f <| f_fstatus := FS_RETAINED |>) |>)).
Definition init_handler (e : Z) : option (D unit) :=
  if e =? E_PERMISSION then
    Some (setp (fun p => p <| p_fin ::= (fun f => f <| f_fstatus := FS_DISCARDED_REJECTION |>) |>) ;;;
          declare_fault C_FILESTORE_REJECTION ;;; ret tt)
  else None.
Lemma init_vfs_handling_eq : forall base, init_vfs_handling base = catch (init_body base) init_handler.
Proof. reflexivity. Qed.

Lemma vfs_op_tree_run : forall f s, vfs_op_tree f s =
  match f (e_fs (d_env s)) with
  | Ok fs' => (s <| d_env ::= (fun e => e <| e_fs := fs' |>) |>, Ok tt)
  | Err e => (s, Err (oserr_exn e))
  end.
Proof. intros f s. unfold vfs_op_tree, bind, gets. destruct (f (e_fs (d_env s))); reflexivity. Qed.

Definition resolved (base : option Z) (s : dst) : path :=
  let name := p_file_name (d_p s) in
  if fs_is_directory (fs_d s) name then match base with Some b => name ++ [b] | None => name end else name.

Lemma init_body_run : forall base s,
  init_body base s =
  let fs := e_fs (d_env s) in
  let name' := resolved base s in
  let s1 := s <| d_p ::= (fun p => p <| p_file_name := name' |>) |> in
  match (if fs_file_exists fs name' then fs_truncate_file fs name' else Ok (fst (fs_create_file fs name'))) with
  | Ok fs' => (s1 <| d_env ::= (fun e => e <| e_fs := fs' |>) |>
                  <| d_p ::= (fun p => p <| p_fin ::= (fun f => f <| f_fstatus := FS_RETAINED |>) |>) |>, Ok tt)
  | Err e => (s1, Err (oserr_exn e))
  end.
Proof.
  intros base s. cbv zeta. unfold init_body. mrun. cbv zeta.
  change (if fs_is_directory (e_fs (d_env s)) (p_file_name (d_p s))
          then match base with Some b => p_file_name (d_p s) ++ [b] | None => p_file_name (d_p s) end
          else p_file_name (d_p s)) with (resolved base s).
  set (name' := resolved base s).
  unfold bind.
  destruct (fs_file_exists (e_fs (d_env s)) name'); rewrite vfs_op_tree_run;
    change (e_fs (d_env (s <| d_p ::= (fun p : dparams => p <| p_file_name := name' |>) |>))) with (e_fs (d_env s)).
  - destruct (fs_truncate_file (e_fs (d_env s)) name'); reflexivity.
  - reflexivity.
Qed.

Lemma truncate_err_not_permission : forall t p e, fs_truncate_file t p = Err e -> oserr_exn e <> E_PERMISSION.
Proof.
  intros t p e H. unfold fs_truncate_file in H.
  destruct (lookup t p) as [[d|]|]; try discriminate H; injection H as <-; discriminate.
Qed.

Lemma init_handler_none : forall e, e <> E_PERMISSION -> init_handler e = None.
Proof.
  intros e H. unfold init_handler. destruct (e =? E_PERMISSION) eqn:E; [|reflexivity].
  apply Z.eqb_eq in E. contradiction.
Qed.

(* C05: Metadata resolves the destination and creates it empty / truncates it *)
Lemma metadata_creates_or_truncates : forall s base s',
  init_vfs_handling base s = (s', Ok tt) ->
  let name := p_file_name (d_p s) in
  let name' := if fs_is_directory (fs_d s) name then match base with Some b => name ++ [b] | None => name end else name in
  p_file_name (d_p s') = name' /\
  (forall d, lookup (fs_d s) name' = Some (File d) -> lookup (fs_d s') name' = Some (File [])) /\
  (lookup (fs_d s) name' = None -> parent_is_dir (fs_d s) name' = true -> lookup (fs_d s') name' = Some (File [])) /\
  (forall q, q <> name' -> lookup (fs_d s') q = lookup (fs_d s) q).
Proof.
  intros s base s' H name name'.
  assert (En : name' = resolved base s) by reflexivity. clearbody name'. subst name'. clear name.
  rewrite init_vfs_handling_eq in H. unfold catch in H. rewrite init_body_run in H. cbv zeta in H.
  unfold fs_d in *. set (n' := resolved base s) in *.
  destruct (fs_file_exists (e_fs (d_env s)) n') eqn:Eex.
  - destruct (fs_truncate_file (e_fs (d_env s)) n') as [t'|o] eqn:Et.
    + injection H as <-. unfold fs_truncate_file in Et.
      destruct (lookup (e_fs (d_env s)) n') as [[d0|]|] eqn:El; try discriminate Et. injection Et as <-.
      assert (Hne : n' <> []) by (eapply lookup_file_ne; exact El).
      cbn. repeat split.
      * intros d _. rewrite lookup_set_node by exact Hne. rewrite path_eqb_refl. reflexivity.
      * intro Hn. discriminate Hn.
      * intros q Hq. rewrite lookup_set_node by exact Hne. rewrite path_eqb_sym_false by exact Hq. reflexivity.
    + rewrite init_handler_none in H by (eapply truncate_err_not_permission; exact Et). discriminate H.
  - injection H as <-. unfold fs_file_exists in Eex. destruct (exists_false _ _ Eex) as [Hl Hne].
    unfold fs_create_file. rewrite Eex. cbn. rewrite Hl.
    destruct (parent_is_dir (e_fs (d_env s)) n') eqn:Ep; cbn [fst]; repeat split.
    * intros d Hd. discriminate Hd.
    * intros _ _. rewrite lookup_set_node by exact Hne. rewrite path_eqb_refl. reflexivity.
    * intros q Hq. rewrite lookup_set_node by exact Hne. rewrite path_eqb_sym_false by exact Hq. reflexivity.
    * intros d Hd. discriminate Hd.
    * intros _ Hp. discriminate Hp.
Qed.

(* ---- handle_fd_pdu: prefix (indication), protected body, handler *)
Definition fd_pre (c : lcfg) (offset : Z) (data : bytes) : D unit :=
  when (l_ind_seg c)
    (t <- gp p_tid ;;
     let '(src, seq) := match t with Some x => x | None => (-1, -1) end in
     emit (EvSegmentRecv src seq offset (zlen data))).
Definition fd_rest (offset : Z) (data : bytes) : D unit :=
     setp (fun p => p <| p_fin ::= (fun f => f <| f_fstatus := FS_RETAINED |>) |>) ;;;
     eof <- gp p_file_size_eof ;;
     stop <-
       (match eof with
        | Some sz =>
            if sz <? offset + zlen data then
              (fh <- declare_fault C_FILE_SIZE_ERROR ;; ret (negb (fh =? FH_IGNORE)))
            else ret false
        | None => ret false
        end) ;;
     if stop then ret tt
     else setp (fun p => p <| p_progress ::= Z.max (offset + zlen data) |>).
Definition fd_body (offset : Z) (data : bytes) : D unit :=
     acked <- mode_is ACKED ;;
     when acked (lost_segment_handling offset (zlen data)) ;;;
     name <- gp p_file_name ;;
     vfs_write name data offset ;;;
     fd_rest offset data.
Definition fd_handler (e : Z) : option (D unit) :=
  if (e =? E_FILE_NOT_FOUND) || (e =? E_PERMISSION) then Some filestore_rejection else None.
Lemma handle_fd_pdu_eq : forall off data,
  handle_fd_pdu off data = (c <- gets d_cfg ;; fd_pre c off data ;;; catch (fd_body off data) fd_handler).
Proof. reflexivity. Qed.

Lemma pres_fd_pre : forall R c off data, okrel0 R -> Pres R (fd_pre c off data).
Proof. intros R c off data HR. unfold fd_pre. pres. Qed.
Lemma pres_fd_rest : forall R off data, okrel R -> Pres R (fd_rest off data).
Proof. intros R off data HR. unfold fd_rest. pres. Qed.
Lemma pres_fd_handler : forall R e k, okrel R -> fd_handler e = Some k -> Pres R k.
Proof.
  intros R e k HR H. unfold fd_handler in H.
  destruct ((e =? E_FILE_NOT_FOUND) || (e =? E_PERMISSION)); [|discriminate H].
  injection H as <-. pres.
Qed.

(* ---- notice_of_completion: the deletion and the indication *)
Definition noc_tail : D unit :=
  c <- gets d_cfg ;;
  when (l_ind_fin c)
    (p <- gp (fun p => p) ;;
     let '(src, seq) := match p_tid p with Some x => x | None => (-1, -1) end in
     let f := p_fin p in
     emit (EvFinished src seq (f_cond f) (f_deliv f) (f_fstatus f) (f_fl f))).
Lemma pres_noc_tail : forall R, okrel0 R -> Pres R noc_tail.
Proof. intros R HR. unfold noc_tail. pres. Qed.

Definition noc_delete (s : dst) : dst :=
  s <| d_env ::= (fun e => e <| e_fs ::= (fun t => fst (fs_delete_file t (p_file_name (d_p s)))) |>) |>
    <| d_p ::= (fun p => p <| p_fin ::= (fun f => f <| f_fstatus := FS_DISCARDED_DELIBERATELY |>) |>) |>.

Lemma notice_of_completion_run : forall s,
  notice_of_completion s =
  if p_disp (d_p s) =? DISP_CANCELED then
    match p_rcfg (d_p s) with
    | None => (s, Err E_ASSERT)
    | Some r => if r_disposition r && (f_deliv (p_fin (d_p s)) =? DATA_INCOMPLETE)
                then noc_tail (noc_delete s) else noc_tail s
    end
  else noc_tail s.
Proof.
  intros s. unfold notice_of_completion. mrun. fold noc_tail.
  destruct (p_disp (d_p s) =? DISP_CANCELED); [|reflexivity].
  unfold when at 1. rewrite bind_assoc, bind_rcfg.
  destruct (p_rcfg (d_p s)) as [r|]; [|reflexivity].
  destruct (r_disposition r && (f_deliv (p_fin (d_p s)) =? DATA_INCOMPLETE)); reflexivity.
Qed.

(* C05: deletion only in the notice of completion, exactly under the cancel disposition *)
Lemma delete_only_on_cancel_disposition : forall s s' r0,
  notice_of_completion s = (s', Ok tt) -> p_rcfg (d_p s) = Some r0 ->
  let del := (p_disp (d_p s) =? DISP_CANCELED) && r_disposition r0 && (f_deliv (p_fin (d_p s)) =? DATA_INCOMPLETE) in
  fs_d s' = (if del then fst (fs_delete_file (fs_d s) (p_file_name (d_p s))) else fs_d s).
Proof.
  intros s s' r0 H Hr del. subst del. rewrite notice_of_completion_run, Hr in H.
  assert (T : forall s0, noc_tail s0 = (s', Ok tt) -> fs_d s' = fs_d s0).
  { intros s0 E. exact (proj1 (pres_of_fst _ _ _ _ _ _ (pres_noc_tail SameFs (r_ok0 _ ok_SameFs)) E)). }
  destruct (p_disp (d_p s) =? DISP_CANCELED); cbn [andb]; [|apply T; exact H].
  destruct (r_disposition r0 && (f_deliv (p_fin (d_p s)) =? DATA_INCOMPLETE)); [|apply T; exact H].
  rewrite (T _ H). reflexivity.
Qed.

(* C05: the other API calls never touch the filestore *)
Lemma pres_cancel_request : forall R a b, okrel0 R -> Pres R (cancel_request a b).
Proof. intros R a b HR. unfold cancel_request. pres. Qed.

Lemma other_calls_no_fs : forall s a b,
  fs_d (fst (Dest.get_next_packet s)) = fs_d s /\ fs_d (fst (Dest.cancel_request a b s)) = fs_d s /\
  fs_d (fst (Dest.reset s)) = fs_d s.
Proof.
  intros s a b. split; [|split].
  - unfold get_next_packet. rewrite bind_get. destruct (d_queue s); reflexivity.
  - exact (proj1 (pres_cancel_request SameFs a b (r_ok0 _ ok_SameFs) s)).
  - reflexivity.
Qed.

(* C05: before the Metadata nothing is written *)
Lemma pre_metadata_no_write : forall s first off data c ck sz,
  fs_d (fst (handle_fd_without_previous_metadata first off data s)) = fs_d s /\
  fs_d (fst (handle_eof_without_previous_metadata c ck sz s)) = fs_d s.
Proof.
  intros. split.
  - exact (proj1 (pres_handle_fd_without_previous_metadata SameFs first off data (r_ok0 _ ok_SameFs) s)).
  - exact (proj1 (pres_handle_eof_without_previous_metadata SameFs c ck sz ok_SameFs s)).
Qed.

(* ---- which exceptions a procedure can raise *)
Definition Errs {A} (E : Z -> Prop) (m : D A) : Prop := forall s s' e, m s = (s', Err e) -> E e.
Lemma errs_bind : forall E A B (m : D A) (f : A -> D B),
  Errs E m -> (forall a, Errs E (f a)) -> Errs E (bind m f).
Proof.
  intros E A B m f Hm Hf s s' e H. unfold bind in H. destruct (m s) as [s1 [a|e1]] eqn:Em.
  - eapply Hf; exact H.
  - injection H as <- <-. eapply Hm; exact Em.
Qed.
Lemma errs_total : forall E A (m : D A), (forall s, exists s' a, m s = (s', Ok a)) -> Errs E m.
Proof. intros E A m H s s' e He. destruct (H s) as [s1 [a Ha]]. rewrite Ha in He. discriminate He. Qed.
Lemma errs_raise : forall (E : Z -> Prop) A e, E e -> Errs E (@raise dst A e).
Proof. intros E A e He s s' e' H. injection H as _ <-. exact He. Qed.
Lemma errs_when : forall E b (m : D unit), Errs E m -> Errs E (when b m).
Proof. intros E b m H. destruct b; [exact H|]. apply errs_total. intro s. eexists; eexists; reflexivity. Qed.
Ltac errs_step :=
  lazymatch goal with
  | |- Errs _ (bind _ _) => apply errs_bind; [|intro]
  | |- Errs _ (raise _) => apply errs_raise
  | |- Errs _ (when _ _) => apply errs_when
  | |- Errs _ (if ?b then _ else _) => destruct b
  | |- Errs _ (match ?x with _ => _ end) => destruct x
  | |- Errs _ _ => apply errs_total; intro; eexists; eexists; reflexivity
  end.

Lemma errs_remove_covered : forall off e sg,
  Errs (fun e => e = E_ASSERT \/ e = E_VALUE) (remove_covered off e sg).
Proof. intros off e sg. unfold remove_covered. repeat errs_step; auto. Qed.

Lemma errs_fold_remove_covered : forall off e l (m : D unit),
  Errs (fun e => e = E_ASSERT \/ e = E_VALUE) m ->
  Errs (fun e => e = E_ASSERT \/ e = E_VALUE) (fold_left (fun m sg => m ;;; remove_covered off e sg) l m).
Proof.
  intros off e l. induction l as [|sg l IH]; intros m Hm; cbn [fold_left]; [exact Hm|].
  apply IH. apply errs_bind; [exact Hm | intro; apply errs_remove_covered].
Qed.

Lemma errs_lost_segment_handling : forall off len,
  Errs (fun e => e = E_ASSERT \/ e = E_VALUE) (lost_segment_handling off len).
Proof.
  intros off len. unfold lost_segment_handling, rcfg_or_assert, tracker_add, conf.
  repeat first [ apply errs_fold_remove_covered | errs_step ]; auto.
Qed.

Lemma bind_ok : forall A B (m : D A) (k : A -> D B) s s1 a, m s = (s1, Ok a) -> bind m k s = k a s1.
Proof. intros. unfold bind. rewrite H. reflexivity. Qed.
Lemma catch_bind_ok : forall A B (m : D A) (k : A -> D B) h s s1 a,
  m s = (s1, Ok a) -> catch (bind m k) h s = catch (k a) h s1.
Proof. intros. unfold catch, bind. rewrite H. reflexivity. Qed.
Lemma catch_bind_err : forall A B (m : D A) (k : A -> D B) h s s1 e,
  m s = (s1, Err e) -> catch (bind m k) h s = match h e with Some c => c s1 | None => (s1, Err e) end.
Proof. intros. unfold catch, bind. rewrite H. reflexivity. Qed.

Lemma mode_is_total : forall m s, exists b, mode_is m s = (s, Ok b).
Proof. intros. unfold mode_is, tmode. mrun. eexists. reflexivity. Qed.
Lemma fd_pre_total : forall c off data s, exists s1, fd_pre c off data s = (s1, Ok tt).
Proof.
  intros. unfold fd_pre. destruct (l_ind_seg c); cbn [when]; [|eexists; reflexivity].
  mrun. destruct (match p_tid (d_p s) with Some x => x | None => (-1, -1) end). eexists. reflexivity.
Qed.

(* C05: an accepted File Data PDU is written with the write model *)
Lemma fd_write_model : forall s off data old s' r,
  handle_fd_pdu off data s = (s', r) ->
  lookup (fs_d s) (p_file_name (d_p s)) = Some (File old) -> p_file_name (d_p s) <> [] ->
  (e_reject_writes (d_env s) = true -> fs_d s' = fs_d s) /\
  (e_reject_writes (d_env s) = false -> r <> Err E_VALUE -> r <> Err E_ASSERT ->
     lookup (fs_d s') (p_file_name (d_p s)) = Some (File (write_at old off data)) \/
     (* the transaction was abandoned by a fault handler after the write *) d_state s' = ST_IDLE /\
       lookup (fs_d s') (p_file_name (d_p s)) = Some (File (write_at old off data))).
Proof.
  intros s off data old s' r H Hl Hne. unfold fs_d in *.
  rewrite handle_fd_pdu_eq, bind_gets in H.
  destruct (fd_pre_total (d_cfg s) off data s) as [s1 E1].
  destruct (pres_of_fst _ _ _ _ _ _ (pres_fd_pre SameFsName _ off data ok_SameFsName) E1) as [F1 [J1 N1]].
  rewrite (bind_ok _ _ _ _ _ _ _ E1) in H. unfold fd_body in H.
  destruct (mode_is_total ACKED s1) as [acked Ea]. rewrite (catch_bind_ok _ _ _ _ _ _ _ _ Ea) in H.
  destruct (when acked (lost_segment_handling off (zlen data)) s1) as [s2 [[]|e]] eqn:E2.
  - assert (R2 : SameFsName s1 s2).
    { eapply pres_of_fst; [|exact E2]. apply pres_when; [exact ok_SameFsName|].
      apply pres_lost_segment_handling. exact ok_SameFsName. }
    destruct R2 as [F2 [J2 N2]].
    rewrite (catch_bind_ok _ _ _ _ _ _ _ _ E2) in H.
    rewrite (catch_bind_ok _ _ _ _ _ s2 s2 _ (eq_refl : gp p_file_name s2 = (s2, Ok (p_file_name (d_p s2))))) in H.
    assert (Ew := vfs_write_run (p_file_name (d_p s2)) data off s2).
    unfold pfn in *. rewrite J2, J1, F2, F1, N2, N1 in Ew. rewrite N2, N1 in H.
    destruct (e_reject_writes (d_env s)) eqn:Erej.
    + rewrite (catch_bind_err _ _ _ _ _ _ _ _ Ew) in H.
      change (fd_handler E_PERMISSION) with (Some filestore_rejection) in H.
      destruct (pres_of_fst _ _ _ _ _ _ (pres_filestore_rejection SameFs ok_SameFs) H) as [F3 _].
      split; [intros _; congruence | intro X; discriminate X].
    + unfold fs_write_data in Ew. rewrite Hl in Ew.
      rewrite (catch_bind_ok _ _ _ _ _ _ _ _ Ew) in H.
      match type of H with catch _ _ ?x = _ => set (s3 := x) in * end.
      assert (R3 : SameFs s3 s').
      { replace s' with (fst (catch (fd_rest off data) fd_handler s3)) by (rewrite H; reflexivity).
        apply at_catch; [exact (r_ok0 _ ok_SameFs) | apply pres_fd_rest; exact ok_SameFs |].
        intros e k Hk. eapply pres_fd_handler; [exact ok_SameFs | exact Hk]. }
      destruct R3 as [F3 _].
      split; [intro X; discriminate X|]. intros _ _ _. left.
      rewrite F3. subst s3. cbn. rewrite lookup_set_node by exact Hne. rewrite path_eqb_refl. reflexivity.
  - rewrite (catch_bind_err _ _ _ _ _ _ _ _ E2) in H.
    assert (He : e = E_ASSERT \/ e = E_VALUE).
    { destruct acked; [|discriminate E2]. exact (errs_lost_segment_handling _ _ _ _ _ E2). }
    assert (R2 : SameFsName s1 s2).
    { eapply pres_of_fst; [|exact E2]. apply pres_when; [exact ok_SameFsName|].
      apply pres_lost_segment_handling. exact ok_SameFsName. }
    destruct R2 as [F2 _].
    destruct He as [-> | ->].
    + change (fd_handler E_ASSERT) with (@None (D unit)) in H. injection H as <- <-.
      split; [intros _; congruence|]. intros _ _ X. exfalso; apply X; reflexivity.
    + change (fd_handler E_VALUE) with (@None (D unit)) in H. injection H as <- <-.
      split; [intros _; congruence|]. intros _ X _. exfalso; apply X; reflexivity.
Qed.

(* ================================================================== *)
(* 5. the frame of the whole state machine                            *)
(* ================================================================== *)

Definition md_rest (h : hdr) (fsize : Z) (names : option (path * path)) (msgs : list Z) : D unit :=
  r <- gp p_rcfg ;;
  match r with
  | None => raise E_NO_REMOTE_CFG
  | Some _ =>
    mdo <- gp p_md_only ;;
    (if negb mdo then
       set_step DS_RECEIVING_FILE_DATA ;;;
       init_vfs_handling (match names with Some (sn, _) => (match rev sn with b :: _ => Some b | [] => None end) | None => None end)
     else set_step DS_TRANSFER_COMPLETION) ;;;
    t <- gp p_tid ;;
    let '(src, seq) := match t with Some x => x | None => (-1, -1) end in
    emit (EvMetadataRecv src seq (h_src h) (match names with Some _ => Some fsize | None => None end) names msgs)
  end.

Definition md_names (names : option (path * path)) : dparams -> dparams :=
  match names with
  | None => fun p => p <| p_md_only := true |> <| p_fin ::= (fun f => f <| f_deliv := DATA_COMPLETE |>) |>
  | Some (_, dn) => fun p => p <| p_file_name := dn |>
  end.
Definition md_state (cl : bool) (ck sz : Z) (names : option (path * path)) (s : dst) : dst :=
  s <| d_p ::= (fun p => p <| p_cktype := ck |> <| p_closure := cl |> <| p_md_missing := false |>) |>
    <| d_p ::= md_names names |>
    <| d_p ::= (fun p => p <| p_file_size := Some sz |>) |>.
Lemma handle_metadata_packet_run : forall h cl ck sz names msgs s,
  handle_metadata_packet h cl ck sz names msgs s = md_rest h sz names msgs (md_state cl ck sz names s).
Proof.
  intros. unfold handle_metadata_packet, md_state, md_names. rewrite bind_setp. cbv beta.
  destruct names as [[sn dn]|]; rewrite bind_setp; cbv beta; rewrite bind_setp; cbv beta; unfold md_rest; reflexivity.
Qed.

Section Frame.
Variable P : path -> Prop.
Hypothesis Pnil : P [].
Let HR : okrel (Step P) := ok_Step P Pnil.
Let HR0 : okrel0 (Step P) := r_ok0 _ HR.

(* the Metadata PDU handed in names only destinations inside P *)
Definition PktOk (pkt : option pdu) : Prop :=
  match pkt with
  | Some (PMetadata _ _ _ _ (Some (sn, dn)) _) => P dn /\ forall b, P (dn ++ [b])
  | _ => True
  end.

Lemma step_vfs_write_cur : forall data off s, Step P s (fst (vfs_write (pfn s) data off s)).
Proof.
  intros data off s. rewrite vfs_write_run.
  destruct (e_reject_writes (d_env s)); [apply r_refl; exact HR0|].
  destruct (fs_write_data (e_fs (d_env s)) (pfn s) data off) as [t'|o] eqn:E; [|apply r_refl; exact HR0].
  intros Hp. split; [exact Hp|]. intros q Hq. unfold fs_d. cbn.
  eapply write_data_lookup; [exact E | eapply ne_of_P; eassumption].
Qed.

Lemma pres_handle_fd_pdu : forall off data, Pres (Step P) (handle_fd_pdu off data).
Proof.
  intros off data. rewrite handle_fd_pdu_eq.
  apply pres_bind; [ok0 | pres | intro c].
  apply pres_bind; [ok0 | apply pres_fd_pre; ok0 | intros _].
  apply pres_catch; [ok0 | | intros e k Hk; eapply pres_fd_handler; [exact HR | exact Hk]].
  unfold fd_body.
  apply pres_bind; [ok0 | solve [pres] | intro acked].
  apply pres_bind; [ok0 | solve [pres] | intros _].
  intro s. rewrite bind_gp.
  apply at_bind; [ok0 | apply step_vfs_write_cur | intros _; apply pres_fd_rest; exact HR].
Qed.

Lemma step_init_vfs_handling : forall base s,
  (forall b, P (pfn s ++ [b])) -> Step P s (fst (init_vfs_handling base s)).
Proof.
  intros base s Hb. rewrite init_vfs_handling_eq.
  apply at_catch; [ok0 | |].
  2:{ intros e k Hk. unfold init_handler in Hk. destruct (e =? E_PERMISSION); [|discriminate Hk].
      injection Hk as <-. pres. }
  rewrite init_body_run. cbv zeta. set (n' := resolved base s).
  intros Hp.
  assert (Hn : P n').
  { unfold n', resolved. destruct (fs_is_directory (fs_d s) (p_file_name (d_p s))); [|exact Hp].
    destruct base; [apply Hb | exact Hp]. }
  destruct (fs_file_exists (e_fs (d_env s)) n').
  - destruct (fs_truncate_file (e_fs (d_env s)) n') as [t'|o] eqn:Et; cbn [fst].
    + split; [exact Hn|]. intros q Hq. unfold fs_d. cbn.
      eapply truncate_lookup; [exact Et | eapply ne_of_P; eassumption].
    + split; [exact Hn | reflexivity].
  - cbn [fst]. split; [exact Hn|]. intros q Hq. unfold fs_d. cbn.
    apply create_lookup. eapply ne_of_P; eassumption.
Qed.

Lemma step_md_rest : forall h sz names msgs s,
  (negb (p_md_only (d_p s)) = true -> forall b, P (pfn s ++ [b])) ->
  Step P s (fst (md_rest h sz names msgs s)).
Proof.
  intros h sz names msgs s Hb. unfold md_rest. rewrite bind_gp.
  destruct (p_rcfg (d_p s)); [|apply r_refl; exact HR0]. rewrite bind_gp.
  destruct (negb (p_md_only (d_p s))).
  - apply at_bind; [ok0 | | intros _; solve [pres]].
    rewrite bind_set_step.
    apply (r_trans _ HR0 s (s <| d_step := DS_RECEIVING_FILE_DATA |>)).
    + apply (r_same _ HR0); reflexivity.
    + apply step_init_vfs_handling. exact (Hb eq_refl).
  - apply at_bind; [ok0 | apply pres_set_step; ok0 | intros _; solve [pres]].
Qed.

Lemma pres_handle_metadata_packet : forall h cl ck sz names msgs,
  PktOk (Some (PMetadata h cl ck sz names msgs)) -> Pres (Step P) (handle_metadata_packet h cl ck sz names msgs).
Proof.
  intros h cl ck sz names msgs Hok s. rewrite handle_metadata_packet_run.
  apply (r_trans _ HR0 s (md_state cl ck sz names s)).
  - destruct names as [[sn dn]|].
    + destruct Hok as [Pdn Pb]. intros _. split; [exact Pdn | reflexivity].
    + apply (r_same _ HR0); reflexivity.
  - apply step_md_rest. destruct names as [[sn dn]|].
    + destruct Hok as [Pdn Pb]. intros _ b. exact (Pb b).
    + intro X. discriminate X.
Qed.

Lemma pres_start_transaction : forall h cl ck sz names msgs,
  PktOk (Some (PMetadata h cl ck sz names msgs)) -> Pres (Step P) (start_transaction h cl ck sz names msgs).
Proof.
  intros h cl ck sz names msgs Hok. unfold start_transaction.
  pose proof (pres_handle_metadata_packet h cl ck sz names msgs Hok). pres.
Qed.

Lemma pres_idle_fsm : forall pkt, PktOk pkt -> Pres (Step P) (idle_fsm pkt).
Proof.
  intros pkt Hok. unfold idle_fsm.
  destruct pkt as [[]|]; try solve [pres].
  apply pres_start_transaction. exact Hok.
Qed.

Lemma pres_notice_of_completion : Pres (Step P) notice_of_completion.
Proof.
  intro s. rewrite notice_of_completion_run.
  pose proof (pres_noc_tail (Step P) HR0) as T.
  destruct (p_disp (d_p s) =? DISP_CANCELED); [|apply T].
  destruct (p_rcfg (d_p s)) as [r|]; [|apply r_refl; exact HR0].
  destruct (r_disposition r && (f_deliv (p_fin (d_p s)) =? DATA_INCOMPLETE)); [|apply T].
  apply (r_trans _ HR0 s (noc_delete s)); [|apply T].
  intros Hp. split; [exact Hp|]. intros q Hq. unfold fs_d, noc_delete. cbn.
  apply delete_lookup. eapply ne_of_P; eassumption.
Qed.

Lemma pres_handle_transfer_completion : Pres (Step P) handle_transfer_completion.
Proof. unfold handle_transfer_completion. pose proof pres_notice_of_completion. pres. Qed.

Lemma pres_handle_waiting_for_missing_metadata : forall pkt, PktOk pkt ->
  Pres (Step P) (handle_waiting_for_missing_metadata pkt).
Proof.
  intros pkt Hok. unfold handle_waiting_for_missing_metadata.
  destruct pkt as [[]|]; try solve [pres].
  pose proof (pres_handle_metadata_packet _ _ _ _ _ _ Hok). pres.
Qed.

Lemma pres_handle_positive_ack_procedures : forall again, Pres (Step P) again ->
  Pres (Step P) (handle_positive_ack_procedures again).
Proof. intros again Ha. unfold handle_positive_ack_procedures. pres. Qed.

Lemma pres_handle_waiting_for_finished_ack : forall again pkt, Pres (Step P) again ->
  Pres (Step P) (handle_waiting_for_finished_ack again pkt).
Proof.
  intros again pkt Ha. unfold handle_waiting_for_finished_ack.
  pose proof (pres_handle_positive_ack_procedures again Ha). pres.
Qed.

Lemma pres_non_idle_fsm : forall fuel pkt, PktOk pkt -> Pres (Step P) (non_idle_fsm fuel pkt).
Proof.
  induction fuel as [|k IH]; intros pkt Hok.
  - pose proof pres_handle_fd_pdu. pose proof pres_handle_transfer_completion.
    pose proof (pres_handle_waiting_for_missing_metadata pkt Hok).
    assert (Pres (Step P) (handle_waiting_for_finished_ack (raise E_FUEL) pkt))
      by (apply pres_handle_waiting_for_finished_ack; pres).
    cbn [non_idle_fsm]. pres.
  - pose proof pres_handle_fd_pdu. pose proof pres_handle_transfer_completion.
    pose proof (pres_handle_waiting_for_missing_metadata pkt Hok).
    assert (Pres (Step P) (handle_waiting_for_finished_ack
              (catch_abandoned (s <- get ;; when (d_state s =? ST_BUSY) (non_idle_fsm k None))) pkt)).
    { apply pres_handle_waiting_for_finished_ack. apply pres_catch_abandoned; [ok0|].
      pose proof (IH None I). pres. }
    cbn [non_idle_fsm]. pres.
Qed.

Lemma pres_state_machine : forall pkt, PktOk pkt -> Pres (Step P) (state_machine pkt).
Proof.
  intros pkt Hok. unfold state_machine.
  pose proof (pres_idle_fsm pkt Hok). pose proof (pres_non_idle_fsm 3 pkt Hok).
  apply pres_bind; [ok0 | solve [pres] | intros _].
  apply pres_catch_abandoned; [ok0|]. pres.
Qed.

End Frame.

(* C05: a call changes the filestore only at the paths of may_touch *)
Lemma state_machine_frame : forall pkt s q,
  ~ may_touch s pkt q -> lookup (fs_d (fst (Dest.state_machine pkt s))) q = lookup (fs_d s) q.
Proof.
  intros pkt s q Hq. destruct q as [|x q]; [reflexivity|].
  set (P := fun y : path => y = [] \/ may_touch s pkt y).
  assert (Hok : PktOk P pkt).
  { unfold PktOk. destruct pkt as [[]|]; try exact I. destruct names as [[sn dn]|]; [|exact I].
    split.
    - right. right. left. reflexivity.
    - intro b. right. right. right. exists b. reflexivity. }
  assert (Hs : P (pfn s)) by (right; left; reflexivity).
  destruct (pres_state_machine P (or_introl eq_refl) pkt Hok s Hs) as [_ F].
  apply F. intros [E | E]; [discriminate E | exact (Hq E)].
Qed.
