(* CheckLimitProofs.v — proofs for property C13 (props/C13.v): EOF overtaking file data in
   unacknowledged mode is tolerated up to the check limit; the check timer of the sender. *)
From CFDP Require Import Base LostSeg Fs Crc Checksum Handler Dest Source HandlerSpec SourceSpec.
From CFDP.gen Require Import Tables.
From RecordUpdate Require Import RecordSet.
Import RecordSetNotations.

Arguments Z.add : simpl never. Arguments Z.sub : simpl never. Arguments Z.mul : simpl never.
Arguments Z.max : simpl never. Arguments Z.min : simpl never.
Arguments Z.ltb !x !y : simpl nomatch. Arguments Z.leb !x !y : simpl nomatch.
Arguments Z.eqb !x !y : simpl nomatch.
Arguments timed_out : simpl never.

Opaque checksum_verify calculate_checksum checksum_calculation.

(* ------------------------------------------------------------------ receiver: EOF before the data *)
(* exact form after the F15 repair: the fault is declared once, by the verification; nothing is logged here
   (the transaction id is not needed any more) *)
Lemma eof_early_no_finish_exact : forall s s1 r,
  d_state s = ST_BUSY -> h_mode (p_conf (d_p s)) = UNACKED -> p_rcfg (d_p s) = Some r ->
  opt_z (p_file_size_eof (d_p s)) >= p_progress (d_p s) ->
  checksum_verify s = (s1, Ok false) -> p_rcfg (d_p s1) = Some r ->
  get_fault_handler (l_faults (d_cfg s1)) C_CHECKSUM_FAILURE = Some FH_IGNORE ->
  exists s', handle_no_error_eof s = (s', Ok false) /\
    d_step s' = DS_RECV_WITH_CHECK_LIMIT /\ p_check_count (d_p s') = 0 /\
    p_check_timer (d_p s') = Some (now_d s1, l_check_ms (d_cfg s1)) /\ d_queue s' = d_queue s1 /\
    log_d s' = log_d s1.
Proof.
  intros s s1 r Hst Hm Hr Hge Hcv Hr1 Hfh.
  assert (opt_z (p_file_size_eof (d_p s)) <? p_progress (d_p s) = false) as Hlt by (apply Z.ltb_ge; lia).
  unfold handle_no_error_eof, mode_is, tmode, gp, gets, get, bind, ret.
  rewrite Hst, Hm, Hlt.
  change (ST_BUSY =? ST_IDLE) with false. cbv beta iota.
  change (UNACKED =? ACKED) with false. change (UNACKED =? UNACKED) with true.
  rewrite andb_false_r. cbv beta iota.
  rewrite Hcv. cbv beta iota.
  rewrite Hfh. change (FH_IGNORE =? FH_IGNORE) with true. cbv beta iota.
  destruct s1 as [cfg st step stid ready q p env]; destruct env as [nw fs rw lg].
  cbn in Hr1. cbn. unfold bind. cbn. rewrite Hr1. cbn.
  eexists. split; [reflexivity|]. cbn.
  repeat split; reflexivity.
Qed.

Lemma eof_early_no_finish : forall s s1 r,
  d_state s = ST_BUSY -> h_mode (p_conf (d_p s)) = UNACKED -> p_rcfg (d_p s) = Some r ->
  opt_z (p_file_size_eof (d_p s)) >= p_progress (d_p s) ->
  checksum_verify s = (s1, Ok false) -> d_state s1 = ST_BUSY -> p_rcfg (d_p s1) = Some r ->
  (exists a b, p_tid (d_p s1) = Some (a, b)) ->
  get_fault_handler (l_faults (d_cfg s1)) C_CHECKSUM_FAILURE = Some FH_IGNORE ->
  exists s', handle_no_error_eof s = (s', Ok false) /\
    d_step s' = DS_RECV_WITH_CHECK_LIMIT /\ p_check_count (d_p s') = 0 /\
    p_check_timer (d_p s') = Some (now_d s1, l_check_ms (d_cfg s1)) /\ d_queue s' = d_queue s1 /\
    (forall e, In e (log_d s') -> In e (log_d s1) \/ exists k a b c p, e = EvFault k a b c p).
Proof.
  intros s s1 r Hst Hm Hr Hge Hcv _ Hr1 _ Hfh.
  destruct (eof_early_no_finish_exact s s1 r Hst Hm Hr Hge Hcv Hr1 Hfh) as [s' [H1 [H2 [H3 [H4 [H5 H6]]]]]].
  exists s'. repeat split; try assumption.
  intros e He. left. rewrite <- H6. exact He.
Qed.

(* ------------------------------------------------------------------ receiver: the check timer *)
Lemma not_expired : forall s t r,
  p_check_timer (d_p s) = Some t -> p_rcfg (d_p s) = Some r -> timed_out (now_d s) t = false ->
  check_limit_handling s = (s, Ok tt).
Proof.
  intros s t r Ht Hr Hto. unfold now_d in Hto.
  unfold check_limit_handling, rcfg_or_assert, now, gp, gets, bind, ret.
  rewrite Ht. cbv beta iota. rewrite Hr. cbv beta iota. rewrite Hto. reflexivity.
Qed.

Lemma expiry_complete : forall s t r s1,
  p_check_timer (d_p s) = Some t -> p_rcfg (d_p s) = Some r -> timed_out (now_d s) t = true ->
  checksum_verify s = (s1, Ok true) ->
  check_limit_handling s = file_transfer_complete_transition s1.
Proof.
  intros s t r s1 Ht Hr Hto Hcv. unfold now_d in Hto.
  unfold check_limit_handling, rcfg_or_assert, now, gp, gets, bind, ret.
  rewrite Ht. cbv beta iota. rewrite Hr. cbv beta iota. rewrite Hto. cbv beta iota.
  rewrite Hcv. reflexivity.
Qed.

Lemma expiry_counts : forall s t r s1 tmo0 t0,
  p_check_timer (d_p s) = Some t -> p_rcfg (d_p s) = Some r -> timed_out (now_d s) t = true ->
  checksum_verify s = (s1, Ok false) -> p_rcfg (d_p s1) = Some r -> p_check_timer (d_p s1) = Some (t0, tmo0) ->
  p_check_count (d_p s1) + 1 < r_check_limit r ->
  check_limit_handling s =
    (s1 <| d_p ::= (fun p => p <| p_check_count ::= (fun c => c + 1) |> <| p_check_timer := Some (now_d s, tmo0) |>) |>, Ok tt).
Proof.
  intros s t r s1 tmo0 t0 Ht Hr Hto Hcv Hr1 Ht1 Hlim. unfold now_d in *.
  assert (r_check_limit r <=? p_check_count (d_p s1) + 1 = false) as Hle by (apply Z.leb_gt; lia).
  unfold check_limit_handling, rcfg_or_assert, now, setp, modify, gp, gets, bind, ret.
  rewrite Ht. cbv beta iota. rewrite Hr. cbv beta iota. rewrite Hto. cbv beta iota.
  rewrite Hcv. cbv beta iota. rewrite Hr1. cbv beta iota. rewrite Hle. cbv beta iota.
  rewrite Ht1. reflexivity.
Qed.

(* what declare_fault returns is the handler code of the table *)
Lemma declare_fault_handler : forall cond s s' fh,
  declare_fault cond s = (s', Ok fh) -> get_fault_handler (l_faults (d_cfg s)) cond = Some fh.
Proof.
  intros cond s s' fh. unfold declare_fault, gp, gets, bind.
  destruct (p_tid (d_p s)) as [[a b]|]; [|discriminate].
  destruct (get_fault_handler (l_faults (d_cfg s)) cond) as [h|]; [|discriminate].
  match goal with |- context[match ?m s with _ => _ end] => destruct (m s) as [s0 [[]|e]] end; [|discriminate].
  unfold emit, modify. destruct (h =? FH_ABANDON); [discriminate|].
  unfold ret. intros H. inversion H. reflexivity.
Qed.

(* the limit-th expiry, handler of Check Limit Reached not IGNORE (statement corrected after the F34 repair: an ignored
   fault now counts and restarts the timer, see expiry_limit_ignored) *)
Lemma expiry_limit : forall s t r s1,
  p_check_timer (d_p s) = Some t -> p_rcfg (d_p s) = Some r -> timed_out (now_d s) t = true ->
  checksum_verify s = (s1, Ok false) -> p_rcfg (d_p s1) = Some r ->
  r_check_limit r <= p_check_count (d_p s1) + 1 ->
  get_fault_handler (l_faults (d_cfg s1)) C_CHECK_LIMIT <> Some FH_IGNORE ->
  check_limit_handling s = (fst (declare_fault C_CHECK_LIMIT s1),
                            match snd (declare_fault C_CHECK_LIMIT s1) with Ok _ => Ok tt | Err e => Err e end).
Proof.
  intros s t r s1 Ht Hr Hto Hcv Hr1 Hlim Hni. unfold now_d in *.
  assert (r_check_limit r <=? p_check_count (d_p s1) + 1 = true) as Hle by (apply Z.leb_le; lia).
  unfold check_limit_handling, rcfg_or_assert, now, gp, gets, bind, ret.
  rewrite Ht. cbv beta iota. rewrite Hr. cbv beta iota. rewrite Hto. cbv beta iota.
  rewrite Hcv. cbv beta iota. rewrite Hr1. cbv beta iota. rewrite Hle. cbv beta iota.
  destruct (declare_fault C_CHECK_LIMIT s1) as [s' [x|e]] eqn:Edf; [|reflexivity].
  apply declare_fault_handler in Edf.
  destruct (x =? FH_IGNORE) eqn:Ex; [|reflexivity].
  apply Z.eqb_eq in Ex. subst x. contradiction.
Qed.

(* the limit-th expiry with Check Limit Reached handled by IGNORE (F34 repair): one callback, and the expiry is counted
   and the timer restarted exactly as below the limit *)
Lemma expiry_limit_ignored : forall s t r s1 a b tmo0 t0,
  p_check_timer (d_p s) = Some t -> p_rcfg (d_p s) = Some r -> timed_out (now_d s) t = true ->
  checksum_verify s = (s1, Ok false) -> p_rcfg (d_p s1) = Some r -> p_check_timer (d_p s1) = Some (t0, tmo0) ->
  p_tid (d_p s1) = Some (a, b) ->
  r_check_limit r <= p_check_count (d_p s1) + 1 ->
  get_fault_handler (l_faults (d_cfg s1)) C_CHECK_LIMIT = Some FH_IGNORE ->
  check_limit_handling s =
    (s1 <| d_env ::= (fun en => en <| e_log ::= cons (EvFault FH_IGNORE a b C_CHECK_LIMIT (p_progress (d_p s1))) |>) |>
        <| d_p ::= (fun p => p <| p_check_count ::= (fun c => c + 1) |> <| p_check_timer := Some (now_d s, tmo0) |>) |>, Ok tt).
Proof.
  intros s t r s1 a b tmo0 t0 Ht Hr Hto Hcv Hr1 Ht1 Htid Hlim Hfh. unfold now_d in *.
  assert (r_check_limit r <=? p_check_count (d_p s1) + 1 = true) as Hle by (apply Z.leb_le; lia).
  unfold check_limit_handling, rcfg_or_assert, now, setp, modify, gp, gets, bind, ret.
  rewrite Ht. cbv beta iota. rewrite Hr. cbv beta iota. rewrite Hto. cbv beta iota.
  rewrite Hcv. cbv beta iota. rewrite Hr1. cbv beta iota. rewrite Hle. cbv beta iota.
  unfold declare_fault, emit, modify, gp, gets, bind, ret.
  rewrite Htid, Hfh. change (FH_IGNORE =? FH_CANCEL) with false. change (FH_IGNORE =? FH_ABANDON) with false.
  change (FH_IGNORE =? FH_IGNORE) with true. cbv beta iota.
  destruct s1 as [cfg st step stid ready q p env]. cbn in Ht1 |- *. rewrite Ht1. reflexivity.
Qed.

(* ... and it is not declared again by the following calls: until the restarted timer expires a call changes nothing *)
Lemma expiry_limit_ignored_once : forall s t r s1 a b tmo0 t0 dt,
  p_check_timer (d_p s) = Some t -> p_rcfg (d_p s) = Some r -> timed_out (now_d s) t = true ->
  checksum_verify s = (s1, Ok false) -> p_rcfg (d_p s1) = Some r -> p_check_timer (d_p s1) = Some (t0, tmo0) ->
  p_tid (d_p s1) = Some (a, b) ->
  r_check_limit r <= p_check_count (d_p s1) + 1 ->
  get_fault_handler (l_faults (d_cfg s1)) C_CHECK_LIMIT = Some FH_IGNORE ->
  now_d s1 = now_d s -> dt < tmo0 ->
  let s2 := fst (check_limit_handling s) <| d_env ::= (fun en => en <| e_now ::= Z.add dt |>) |> in
  check_limit_handling s2 = (s2, Ok tt).
Proof.
  intros s t r s1 a b tmo0 t0 dt Ht Hr Hto Hcv Hr1 Ht1 Htid Hlim Hfh Hnow Hdt s2. subst s2.
  rewrite (expiry_limit_ignored s t r s1 a b tmo0 t0 Ht Hr Hto Hcv Hr1 Ht1 Htid Hlim Hfh). cbn [fst].
  apply (not_expired _ (now_d s, tmo0) r).
  - destruct s1 as [cfg st step stid ready q p env]. reflexivity.
  - destruct s1 as [cfg st step stid ready q p env]. exact Hr1.
  - unfold now_d in *. destruct s1 as [cfg st step stid ready q p env]. destruct env as [nw fs rw lg]. cbn in Hnow |- *.
    unfold timed_out. cbn [fst snd]. apply Z.leb_gt. lia.
Qed.

Lemma count_exact : forall (k : nat) (ss : nat -> dst) (r : rcfg) (c0 : Z),
  (forall i, (i < k)%nat ->
     exists t s1 t0 tmo0,
       p_check_timer (d_p (ss i)) = Some t /\ p_rcfg (d_p (ss i)) = Some r /\ timed_out (now_d (ss i)) t = true /\
       checksum_verify (ss i) = (s1, Ok false) /\ p_rcfg (d_p s1) = Some r /\ p_check_timer (d_p s1) = Some (t0, tmo0) /\
       p_check_count (d_p s1) = p_check_count (d_p (ss i)) /\
       p_check_count (d_p (ss (S i))) = p_check_count (d_p (fst (check_limit_handling (ss i))))) ->
  p_check_count (d_p (ss O)) = c0 -> c0 + Z.of_nat k < r_check_limit r ->
  p_check_count (d_p (ss k)) = c0 + Z.of_nat k.
Proof.
  intros k ss r c0 Hall H0 Hlim.
  assert (forall j, (j <= k)%nat -> p_check_count (d_p (ss j)) = c0 + Z.of_nat j) as Hj.
  { induction j as [|j IH]; intros Hle.
    - rewrite H0. change (Z.of_nat 0) with 0. lia.
    - assert (j < k)%nat as Hlt by lia.
      destruct (Hall j Hlt) as [t [s1 [t0 [tmo0 [Ht [Hr [Hto [Hcv [Hr1 [Ht1 [Hc1 Hnext]]]]]]]]]]].
      specialize (IH (Nat.lt_le_incl _ _ Hlt)).
      rewrite Hnext.
      rewrite (expiry_counts (ss j) t r s1 tmo0 t0 Ht Hr Hto Hcv Hr1 Ht1) by (rewrite Hc1, IH; lia).
      destruct s1 as [cfg st step stid ready q p env]. destruct p. cbn in Hc1 |- *.
      rewrite Hc1, IH. lia. }
  apply Hj. lia.
Qed.

(* ------------------------------------------------------------------ sender with closure: the check timer *)
Lemma hr_not_nak : forall pkt,
  (match pkt with Some (PNak _ _ _ _) => False | _ => True end) -> handle_retransmission pkt = ret false.
Proof. intros [[]|] H; try reflexivity. contradiction. Qed.

(* ---- the configuration of the sender is read-only *)
Definition cpres {A} (m : SM A) : Prop := forall s, s_cfg (fst (m s)) = s_cfg s.
Lemma cpres_ret : forall A (a : A), cpres (ret a : SM A).
Proof. intros A a s. reflexivity. Qed.
Lemma cpres_raise : forall A e, cpres (raise e : SM A).
Proof. intros A e s. reflexivity. Qed.
Lemma cpres_gets : forall A (f : src -> A), cpres (gets f).
Proof. intros A f s. reflexivity. Qed.
Lemma cpres_modify : forall (f : src -> src), (forall s, s_cfg (f s) = s_cfg s) -> cpres (modify f).
Proof. intros f H s. cbn. apply H. Qed.
Lemma cpres_bind : forall A B (m : SM A) (f : A -> SM B), cpres m -> (forall a, cpres (f a)) -> cpres (bind m f).
Proof.
  intros A B m f Hm Hf s. unfold bind. specialize (Hm s).
  destruct (m s) as [s' [a|e]]; cbn in *; [rewrite Hf; exact Hm | exact Hm].
Qed.
Lemma cpres_when : forall b (m : SM unit), cpres m -> cpres (when b m).
Proof. intros [] m H; [exact H | apply cpres_ret]. Qed.
Create HintDb cpres.
Ltac cpres_step :=
  match goal with
  | |- cpres (ret _) => apply cpres_ret
  | |- cpres (raise _) => apply cpres_raise
  | |- cpres (gets _) => apply cpres_gets
  | |- cpres (modify _) => apply cpres_modify; intros []; reflexivity
  | |- cpres (when _ _) => apply cpres_when
  | |- cpres (bind _ _) => apply cpres_bind; [| intro]
  | |- cpres (match ?x with _ => _ end) => destruct x
  | |- cpres _ => solve [auto with cpres]
  end.
Ltac cpres_all := intros; repeat cpres_step.
Lemma cpres_gq : forall A (f : sparams -> A), cpres (gq f). Proof. unfold gq; cpres_all. Qed.
Lemma cpres_setq : forall f, cpres (setq f). Proof. unfold setq; cpres_all. Qed.
Lemma cpres_sset_step : forall v, cpres (sset_step v). Proof. unfold sset_step; cpres_all. Qed.
Lemma cpres_semit : forall e, cpres (semit e). Proof. unfold semit; cpres_all. Qed.
Lemma cpres_snow : cpres snow. Proof. unfold snow; cpres_all. Qed.
Lemma cpres_sadd_packet : forall p, cpres (sadd_packet p). Proof. unfold sadd_packet; cpres_all. Qed.
Lemma cpres_sreset_internal : forall c, cpres (sreset_internal c). Proof. unfold sreset_internal; cpres_all. Qed.
#[local] Hint Resolve cpres_gq cpres_setq cpres_sset_step cpres_semit cpres_snow cpres_sadd_packet cpres_sreset_internal : cpres.
Lemma cpres_stid_or_assert : cpres stid_or_assert. Proof. unfold stid_or_assert; cpres_all. Qed.
Lemma cpres_srcfg_or_assert : cpres srcfg_or_assert. Proof. unfold srcfg_or_assert; cpres_all. Qed.
Lemma cpres_stmode : cpres stmode. Proof. unfold stmode, get; intros s; reflexivity. Qed.
Lemma cpres_put_or_assert : cpres put_or_assert. Proof. unfold put_or_assert; cpres_all. Qed.
#[local] Hint Resolve cpres_stid_or_assert cpres_srcfg_or_assert cpres_stmode cpres_put_or_assert : cpres.
Lemma cpres_smode_is : forall m, cpres (smode_is m). Proof. unfold smode_is; cpres_all. Qed.
Transparent checksum_calculation.
Lemma cpres_checksum_calculation : forall sz, cpres (checksum_calculation sz).
Proof. unfold checksum_calculation; cpres_all. Qed.
Opaque checksum_calculation.
Lemma cpres_prepare_eof_pdu : forall ck, cpres (prepare_eof_pdu ck). Proof. unfold prepare_eof_pdu; cpres_all. Qed.
Lemma cpres_start_positive_ack_procedure_s : cpres start_positive_ack_procedure_s.
Proof. unfold start_positive_ack_procedure_s; cpres_all. Qed.
#[local] Hint Resolve cpres_smode_is cpres_checksum_calculation cpres_prepare_eof_pdu cpres_start_positive_ack_procedure_s : cpres.
Lemma cpres_notice_of_completion_s : cpres notice_of_completion_s. Proof. unfold notice_of_completion_s; cpres_all. Qed.
#[local] Hint Resolve cpres_notice_of_completion_s : cpres.
Lemma cpres_handle_eof_sent : forall c, cpres (handle_eof_sent c). Proof. unfold handle_eof_sent; cpres_all. Qed.
#[local] Hint Resolve cpres_handle_eof_sent : cpres.
Lemma cpres_notice_of_cancellation_s : forall c, cpres (notice_of_cancellation_s c).
Proof. unfold notice_of_cancellation_s; cpres_all. Qed.
#[local] Hint Resolve cpres_notice_of_cancellation_s : cpres.
Lemma cpres_declare_fault_s : forall c, cpres (declare_fault_s c). Proof. unfold declare_fault_s; cpres_all. Qed.

(* the check timer expired, Check Limit Reached not handled by IGNORE (statement corrected after the F34 repair: an
   ignored fault now restarts the timer, see source_check_limit_ignored_waits_again) *)
Lemma source_check_timer : forall s pkt t,
  (match pkt with Some (PFinished _ _ _ _ _) => False | Some (PNak _ _ _ _) => False | _ => True end) ->
  q_check_timer (s_p s) = Some t -> timed_out (now_s s) t = true ->
  fault_ignored (s_cfg s) C_CHECK_LIMIT = false ->
  handle_wait_for_finish pkt s = declare_fault_s C_CHECK_LIMIT s.
Proof.
  intros s pkt t Hp Ht Hto Hni. unfold now_s in Hto.
  pose proof (cpres_declare_fault_s C_CHECK_LIMIT s) as Hc.
  unfold handle_wait_for_finish. rewrite hr_not_nak by (destruct pkt as [[]|]; tauto).
  unfold smode_is, stmode, snow, gq, gets, get, bind, ret.
  destruct (match (if s_state s =? ST_IDLE then None else Some (sc_mode (q_conf (s_p s)))) with
            | Some x => x =? ACKED | None => false end);
    destruct pkt as [[]|]; try contradiction; cbv beta iota; rewrite Ht; cbv beta iota; rewrite Hto; unfold when;
    destruct (declare_fault_s C_CHECK_LIMIT s) as [s' [[]|e]]; cbn [fst] in Hc; try reflexivity;
    rewrite Hc, Hni; reflexivity.
Qed.

Lemma source_check_timer_running : forall s pkt t,
  (match pkt with Some (PFinished _ _ _ _ _) => False | Some (PNak _ _ _ _) => False | _ => True end) ->
  q_check_timer (s_p s) = Some t -> timed_out (now_s s) t = false ->
  handle_wait_for_finish pkt s = (s, Ok tt).
Proof.
  intros s pkt t Hp Ht Hto. unfold now_s in Hto.
  unfold handle_wait_for_finish. rewrite hr_not_nak by (destruct pkt as [[]|]; tauto).
  unfold smode_is, stmode, snow, gq, gets, get, bind, ret.
  destruct (match (if s_state s =? ST_IDLE then None else Some (sc_mode (q_conf (s_p s)))) with
            | Some x => x =? ACKED | None => false end);
    destruct pkt as [[]|]; try contradiction; cbv beta iota; rewrite Ht; cbv beta iota; rewrite Hto; reflexivity.
Qed.

(* the check timer expired and Check Limit Reached is handled by IGNORE (F34 repair): one callback, the timer is
   restarted at the current time, nothing else changes: the handler keeps waiting for the Finished PDU *)
Lemma source_check_limit_ignored : forall s pkt t a b,
  (match pkt with Some (PFinished _ _ _ _ _) => False | Some (PNak _ _ _ _) => False | _ => True end) ->
  q_check_timer (s_p s) = Some t -> timed_out (now_s s) t = true ->
  q_tid (s_p s) = Some (a, b) ->
  get_fault_handler (l_faults (s_cfg s)) C_CHECK_LIMIT = Some FH_IGNORE ->
  handle_wait_for_finish pkt s =
    (s <| s_env ::= (fun en => en <| e_log ::= cons (EvFault FH_IGNORE a b C_CHECK_LIMIT (q_progress (s_p s))) |>) |>
       <| s_p ::= (fun q => q <| q_check_timer := Some (now_s s, snd t) |>) |>, Ok tt).
Proof.
  intros s pkt t a b Hp Ht Hto Htid Hfh. unfold now_s in *.
  unfold handle_wait_for_finish. rewrite hr_not_nak by (destruct pkt as [[]|]; tauto).
  unfold smode_is, stmode, snow, gq, gets, get, bind, ret.
  destruct (match (if s_state s =? ST_IDLE then None else Some (sc_mode (q_conf (s_p s)))) with
            | Some x => x =? ACKED | None => false end);
    destruct pkt as [[]|]; try contradiction; cbv beta iota; rewrite Ht; cbv beta iota; rewrite Hto; unfold when;
    unfold declare_fault_s, fault_ignored, semit, setq, modify, gq, gets, bind, ret;
    rewrite Htid; cbv beta iota; rewrite Hfh;
    change (FH_IGNORE =? FH_CANCEL) with false; change (FH_IGNORE =? FH_ABANDON) with false; cbv beta iota;
    cbn [negb]; cbv beta iota; destruct s as [cfg st step rd q p sb pt sc sbits env]; cbn in Hfh |- *; rewrite Hfh;
    change (FH_IGNORE =? FH_IGNORE) with true; reflexivity.
Qed.

(* ... the handler is still waiting for the Finished PDU, and the following call before the next expiry delivers nothing *)
Lemma source_check_limit_ignored_waits_again : forall s pkt pkt' t a b dt,
  (match pkt with Some (PFinished _ _ _ _ _) => False | Some (PNak _ _ _ _) => False | _ => True end) ->
  (match pkt' with Some (PFinished _ _ _ _ _) => False | Some (PNak _ _ _ _) => False | _ => True end) ->
  q_check_timer (s_p s) = Some t -> timed_out (now_s s) t = true ->
  q_tid (s_p s) = Some (a, b) ->
  get_fault_handler (l_faults (s_cfg s)) C_CHECK_LIMIT = Some FH_IGNORE ->
  dt < snd t ->
  let s1 := s <| s_env ::= (fun en => en <| e_log ::= cons (EvFault FH_IGNORE a b C_CHECK_LIMIT (q_progress (s_p s))) |>) |>
              <| s_p ::= (fun q => q <| q_check_timer := Some (now_s s, snd t) |>) |> in
  let s2 := s1 <| s_env ::= (fun en => en <| e_now ::= Z.add dt |>) |> in
  handle_wait_for_finish pkt s = (s1, Ok tt) /\
  s_state s1 = s_state s /\ s_step s1 = s_step s /\ s_queue s1 = s_queue s /\ s_ready s1 = s_ready s /\
  log_s s1 = EvFault FH_IGNORE a b C_CHECK_LIMIT (q_progress (s_p s)) :: log_s s /\
  q_check_timer (s_p s1) = Some (now_s s, snd t) /\
  handle_wait_for_finish pkt' s2 = (s2, Ok tt).
Proof.
  intros s pkt pkt' t a b dt Hp Hp' Ht Hto Htid Hfh Hdt s1 s2.
  split; [exact (source_check_limit_ignored s pkt t a b Hp Ht Hto Htid Hfh)|].
  subst s2 s1. destruct s as [cfg st step rd q p sb pt sc sbits env]. destruct env as [nw fs rw lg].
  repeat (split; [reflexivity|]).
  apply (source_check_timer_running _ pkt' (nw, snd t) Hp'); [reflexivity|].
  unfold now_s, timed_out. cbn. apply Z.leb_gt. lia.
Qed.

(* the same through the entry point, from a fresh handler: an unacknowledged transfer with closure whose Finished PDU never
   comes, Check Limit Reached handled by IGNORE, check timer 700 ms: the fault is declared by the call at 700, not by
   the calls at 705, 710 and 1399, and again (one interval later) by the call at 1400; the handler keeps waiting *)
Definition exs_r : rcfg := mkRcfg 2 2 (Some 4) 64 true false UNACKED CK_CRC32 1000 2 2 false false 1000 2.
Definition exs_c (faults : list (Z * Z)) : lcfg := mkLcfg 1 2 true true true true faults 700 [exs_r].
Definition exs_put : putreq := mkPut 2 2 None None (Some ([1], [2])) None.
Fixpoint exs_polls (dts : list Z) (s : src) : src * res Z (list (list pdu)) :=
  match dts with
  | [] => (s, Ok [])
  | dt :: t => match pump (s <| s_env ::= (fun e => e <| e_now ::= Z.add dt |>) |>) with
               | (s', Ok ps) => match exs_polls t s' with
                                | (s'', Ok rest) => (s'', Ok (ps :: rest))
                                | (s'', Err e) => (s'', Err e)
                                end
               | (s', Err e) => (s', Err e)
               end
  end.
Example ex_source_check_limit_ignored :
  let s0 := fst (put_request exs_put (src_fresh (exs_c ((C_CHECK_LIMIT, FH_IGNORE) :: default_fault_table)) 5 16
                                        [([1], File [1; 2; 3; 4; 5; 6])])) in
  let '(s, o) := exs_polls [0; 0; 0; 0; 0; 0; 700; 5; 5; 689; 1] s0 in
  (match o with Ok x => map zlen x | Err _ => [] end, s_state s, s_step s, q_check_timer (s_p s), now_s s, log_s s) =
  ([1; 1; 1; 1; 0; 0; 0; 0; 0; 0; 0], ST_BUSY, SS_WAITING_FOR_FINISHED, Some (1400, 700), 1400,
   [EvFault FH_IGNORE 1 5 C_CHECK_LIMIT 6; EvFault FH_IGNORE 1 5 C_CHECK_LIMIT 6; EvEofSent 1 5; EvTransaction 1 5 None]).
Proof. vm_compute. reflexivity. Qed.
