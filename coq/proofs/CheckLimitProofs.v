(* CheckLimitProofs.v — proofs for property C13 (props/C13.v): EOF overtaking file data in
   unacknowledged mode is tolerated up to the check limit; the check timer of the sender. *)
From CFDP Require Import Base LostSeg Fs Crc Checksum Handler Dest Source HandlerSpec SourceSpec.
From CFDP.gen Require Import Tables.
From RecordUpdate Require Import RecordSet.
Import RecordSetNotations.

Arguments Z.add : simpl never. Arguments Z.sub : simpl never. Arguments Z.mul : simpl never.
Arguments Z.max : simpl never. Arguments Z.min : simpl never.
Arguments Z.ltb !x !y : simpl nomatch. Arguments Z.leb !x !y : simpl nomatch.
Arguments Z.eqb !x !y : simpl nomatch.
Arguments timed_out : simpl never.

Opaque checksum_verify calculate_checksum checksum_calculation.

(* ------------------------------------------------------------------ receiver: EOF before the data *)
(* exact form after the F15 repair: the fault is declared once, by the verification; nothing is logged here
   (the transaction id is not needed any more) *)
Lemma eof_early_no_finish_exact : forall s s1 r,
  d_state s = ST_BUSY -> h_mode (p_conf (d_p s)) = UNACKED -> p_rcfg (d_p s) = Some r ->
  opt_z (p_file_size_eof (d_p s)) >= p_progress (d_p s) ->
  checksum_verify s = (s1, Ok false) -> p_rcfg (d_p s1) = Some r ->
  get_fault_handler (l_faults (d_cfg s1)) C_CHECKSUM_FAILURE = Some FH_IGNORE ->
  exists s', handle_no_error_eof s = (s', Ok false) /\
    d_step s' = DS_RECV_WITH_CHECK_LIMIT /\ p_check_count (d_p s') = 0 /\
    p_check_timer (d_p s') = Some (now_d s1, l_check_ms (d_cfg s1)) /\ d_queue s' = d_queue s1 /\
    log_d s' = log_d s1.
Proof.
  intros s s1 r Hst Hm Hr Hge Hcv Hr1 Hfh.
  assert (opt_z (p_file_size_eof (d_p s)) <? p_progress (d_p s) = false) as Hlt by (apply Z.ltb_ge; lia).
  unfold handle_no_error_eof, mode_is, tmode, gp, gets, get, bind, ret.
  rewrite Hst, Hm, Hlt.
  change (ST_BUSY =? ST_IDLE) with false. cbv beta iota.
  change (UNACKED =? ACKED) with false. change (UNACKED =? UNACKED) with true.
  rewrite andb_false_r. cbv beta iota.
  rewrite Hcv. cbv beta iota.
  rewrite Hfh. change (FH_IGNORE =? FH_IGNORE) with true. cbv beta iota.
  destruct s1 as [cfg st step stid ready q p env]; destruct env as [nw fs rw lg].
  cbn in Hr1. cbn. unfold bind. cbn. rewrite Hr1. cbn.
  eexists. split; [reflexivity|]. cbn.
  repeat split; reflexivity.
Qed.

Lemma eof_early_no_finish : forall s s1 r,
  d_state s = ST_BUSY -> h_mode (p_conf (d_p s)) = UNACKED -> p_rcfg (d_p s) = Some r ->
  opt_z (p_file_size_eof (d_p s)) >= p_progress (d_p s) ->
  checksum_verify s = (s1, Ok false) -> d_state s1 = ST_BUSY -> p_rcfg (d_p s1) = Some r ->
  (exists a b, p_tid (d_p s1) = Some (a, b)) ->
  get_fault_handler (l_faults (d_cfg s1)) C_CHECKSUM_FAILURE = Some FH_IGNORE ->
  exists s', handle_no_error_eof s = (s', Ok false) /\
    d_step s' = DS_RECV_WITH_CHECK_LIMIT /\ p_check_count (d_p s') = 0 /\
    p_check_timer (d_p s') = Some (now_d s1, l_check_ms (d_cfg s1)) /\ d_queue s' = d_queue s1 /\
    (forall e, In e (log_d s') -> In e (log_d s1) \/ exists k a b c p, e = EvFault k a b c p).
Proof.
  intros s s1 r Hst Hm Hr Hge Hcv _ Hr1 _ Hfh.
  destruct (eof_early_no_finish_exact s s1 r Hst Hm Hr Hge Hcv Hr1 Hfh) as [s' [H1 [H2 [H3 [H4 [H5 H6]]]]]].
  exists s'. repeat split; try assumption.
  intros e He. left. rewrite <- H6. exact He.
Qed.

(* ------------------------------------------------------------------ receiver: the check timer *)
Lemma not_expired : forall s t r,
  p_check_timer (d_p s) = Some t -> p_rcfg (d_p s) = Some r -> timed_out (now_d s) t = false ->
  check_limit_handling s = (s, Ok tt).
Proof.
  intros s t r Ht Hr Hto. unfold now_d in Hto.
  unfold check_limit_handling, rcfg_or_assert, now, gp, gets, bind, ret.
  rewrite Ht. cbv beta iota. rewrite Hr. cbv beta iota. rewrite Hto. reflexivity.
Qed.

Lemma expiry_complete : forall s t r s1,
  p_check_timer (d_p s) = Some t -> p_rcfg (d_p s) = Some r -> timed_out (now_d s) t = true ->
  checksum_verify s = (s1, Ok true) ->
  check_limit_handling s = file_transfer_complete_transition s1.
Proof.
  intros s t r s1 Ht Hr Hto Hcv. unfold now_d in Hto.
  unfold check_limit_handling, rcfg_or_assert, now, gp, gets, bind, ret.
  rewrite Ht. cbv beta iota. rewrite Hr. cbv beta iota. rewrite Hto. cbv beta iota.
  rewrite Hcv. reflexivity.
Qed.

Lemma expiry_counts : forall s t r s1 tmo0 t0,
  p_check_timer (d_p s) = Some t -> p_rcfg (d_p s) = Some r -> timed_out (now_d s) t = true ->
  checksum_verify s = (s1, Ok false) -> p_rcfg (d_p s1) = Some r -> p_check_timer (d_p s1) = Some (t0, tmo0) ->
  p_check_count (d_p s1) + 1 < r_check_limit r ->
  check_limit_handling s =
    (s1 <| d_p ::= (fun p => p <| p_check_count ::= (fun c => c + 1) |> <| p_check_timer := Some (now_d s, tmo0) |>) |>, Ok tt).
Proof.
  intros s t r s1 tmo0 t0 Ht Hr Hto Hcv Hr1 Ht1 Hlim. unfold now_d in *.
  assert (r_check_limit r <=? p_check_count (d_p s1) + 1 = false) as Hle by (apply Z.leb_gt; lia).
  unfold check_limit_handling, rcfg_or_assert, now, setp, modify, gp, gets, bind, ret.
  rewrite Ht. cbv beta iota. rewrite Hr. cbv beta iota. rewrite Hto. cbv beta iota.
  rewrite Hcv. cbv beta iota. rewrite Hr1. cbv beta iota. rewrite Hle. cbv beta iota.
  rewrite Ht1. reflexivity.
Qed.

Lemma expiry_limit : forall s t r s1,
  p_check_timer (d_p s) = Some t -> p_rcfg (d_p s) = Some r -> timed_out (now_d s) t = true ->
  checksum_verify s = (s1, Ok false) -> p_rcfg (d_p s1) = Some r ->
  r_check_limit r <= p_check_count (d_p s1) + 1 ->
  check_limit_handling s = (fst (declare_fault C_CHECK_LIMIT s1),
                            match snd (declare_fault C_CHECK_LIMIT s1) with Ok _ => Ok tt | Err e => Err e end).
Proof.
  intros s t r s1 Ht Hr Hto Hcv Hr1 Hlim. unfold now_d in *.
  assert (r_check_limit r <=? p_check_count (d_p s1) + 1 = true) as Hle by (apply Z.leb_le; lia).
  unfold check_limit_handling, rcfg_or_assert, now, gp, gets, bind, ret.
  rewrite Ht. cbv beta iota. rewrite Hr. cbv beta iota. rewrite Hto. cbv beta iota.
  rewrite Hcv. cbv beta iota. rewrite Hr1. cbv beta iota. rewrite Hle. cbv beta iota.
  destruct (declare_fault C_CHECK_LIMIT s1) as [s' [x|e]]; reflexivity.
Qed.

Lemma count_exact : forall (k : nat) (ss : nat -> dst) (r : rcfg) (c0 : Z),
  (forall i, (i < k)%nat ->
     exists t s1 t0 tmo0,
       p_check_timer (d_p (ss i)) = Some t /\ p_rcfg (d_p (ss i)) = Some r /\ timed_out (now_d (ss i)) t = true /\
       checksum_verify (ss i) = (s1, Ok false) /\ p_rcfg (d_p s1) = Some r /\ p_check_timer (d_p s1) = Some (t0, tmo0) /\
       p_check_count (d_p s1) = p_check_count (d_p (ss i)) /\
       p_check_count (d_p (ss (S i))) = p_check_count (d_p (fst (check_limit_handling (ss i))))) ->
  p_check_count (d_p (ss O)) = c0 -> c0 + Z.of_nat k < r_check_limit r ->
  p_check_count (d_p (ss k)) = c0 + Z.of_nat k.
Proof.
  intros k ss r c0 Hall H0 Hlim.
  assert (forall j, (j <= k)%nat -> p_check_count (d_p (ss j)) = c0 + Z.of_nat j) as Hj.
  { induction j as [|j IH]; intros Hle.
    - rewrite H0. change (Z.of_nat 0) with 0. lia.
    - assert (j < k)%nat as Hlt by lia.
      destruct (Hall j Hlt) as [t [s1 [t0 [tmo0 [Ht [Hr [Hto [Hcv [Hr1 [Ht1 [Hc1 Hnext]]]]]]]]]]].
      specialize (IH (Nat.lt_le_incl _ _ Hlt)).
      rewrite Hnext.
      rewrite (expiry_counts (ss j) t r s1 tmo0 t0 Ht Hr Hto Hcv Hr1 Ht1) by (rewrite Hc1, IH; lia).
      destruct s1 as [cfg st step stid ready q p env]. destruct p. cbn in Hc1 |- *.
      rewrite Hc1, IH. lia. }
  apply Hj. lia.
Qed.

(* ------------------------------------------------------------------ sender with closure: the check timer *)
Lemma hr_not_nak : forall pkt,
  (match pkt with Some (PNak _ _ _ _) => False | _ => True end) -> handle_retransmission pkt = ret false.
Proof. intros [[]|] H; try reflexivity. contradiction. Qed.

Lemma source_check_timer : forall s pkt t,
  (match pkt with Some (PFinished _ _ _ _ _) => False | Some (PNak _ _ _ _) => False | _ => True end) ->
  q_check_timer (s_p s) = Some t -> timed_out (now_s s) t = true ->
  handle_wait_for_finish pkt s = declare_fault_s C_CHECK_LIMIT s.
Proof.
  intros s pkt t Hp Ht Hto. unfold now_s in Hto.
  unfold handle_wait_for_finish. rewrite hr_not_nak by (destruct pkt as [[]|]; tauto).
  unfold smode_is, stmode, snow, gq, gets, get, bind, ret.
  destruct (match (if s_state s =? ST_IDLE then None else Some (sc_mode (q_conf (s_p s)))) with
            | Some x => x =? ACKED | None => false end);
    destruct pkt as [[]|]; try contradiction; cbv beta iota; rewrite Ht; cbv beta iota; rewrite Hto; reflexivity.
Qed.

Lemma source_check_timer_running : forall s pkt t,
  (match pkt with Some (PFinished _ _ _ _ _) => False | Some (PNak _ _ _ _) => False | _ => True end) ->
  q_check_timer (s_p s) = Some t -> timed_out (now_s s) t = false ->
  handle_wait_for_finish pkt s = (s, Ok tt).
Proof.
  intros s pkt t Hp Ht Hto. unfold now_s in Hto.
  unfold handle_wait_for_finish. rewrite hr_not_nak by (destruct pkt as [[]|]; tauto).
  unfold smode_is, stmode, snow, gq, gets, get, bind, ret.
  destruct (match (if s_state s =? ST_IDLE then None else Some (sc_mode (q_conf (s_p s)))) with
            | Some x => x =? ACKED | None => false end);
    destruct pkt as [[]|]; try contradiction; cbv beta iota; rewrite Ht; cbv beta iota; rewrite Hto; reflexivity.
Qed.
