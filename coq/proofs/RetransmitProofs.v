(* RetransmitProofs.v — proofs for property C08 (props/C08.v): retransmissions deliver exactly
   the requested data and nothing else. *)
From CFDP Require Import Base Fs Crc Checksum Handler Dest Source HandlerSpec SourceSpec.
From RecordUpdate Require Import RecordSet.
Import RecordSetNotations.

Local Arguments Z.add : simpl never. Local Arguments Z.sub : simpl never. Local Arguments Z.mul : simpl never.
Local Arguments Z.pow : simpl never. Local Arguments Z.div : simpl never. Local Arguments Z.ltb : simpl never.
Local Arguments Z.leb : simpl never. Local Arguments Z.eqb : simpl never. Local Arguments Z.min : simpl never.
Local Arguments Z.max : simpl never. Local Arguments Z.of_nat : simpl never. Local Arguments Z.to_nat : simpl never.

(* same body as props/C08.v enqueue *)
Definition enqueue (ps : list pdu) (s : src) : src :=
  s <| s_queue ::= (fun q => q ++ ps) |> <| s_ready ::= (fun n => n + zlen ps) |>.

(* ------------------------------------------------------------------ Z-indexed list slicing *)
Lemma zlen_nonneg : forall A (l : list A), 0 <= zlen l.
Proof. intros. unfold zlen. lia. Qed.

Lemma zlen_app : forall A (a b : list A), zlen (a ++ b) = zlen a + zlen b.
Proof. intros. unfold zlen. rewrite app_length. lia. Qed.

Lemma zlen_ztake : forall A n (l : list A), 0 <= n -> zlen (ztake n l) = Z.min n (zlen l).
Proof. intros. unfold zlen, ztake. rewrite firstn_length. lia. Qed.

Lemma zlen_zdrop : forall A n (l : list A), 0 <= n -> zlen (zdrop n l) = Z.max 0 (zlen l - n).
Proof. intros. unfold zlen, zdrop. rewrite skipn_length. lia. Qed.

Lemma skipn_skipn' : forall A b a (l : list A), skipn a (skipn b l) = skipn (b + a) l.
Proof.
  induction b as [|b IH]; intros a l; [reflexivity|].
  destruct l as [|x l]; [destruct a; reflexivity|]. cbn [skipn Nat.add]. apply IH.
Qed.

Lemma zdrop_zdrop : forall A a b (l : list A), 0 <= a -> 0 <= b -> zdrop a (zdrop b l) = zdrop (b + a) l.
Proof. intros. unfold zdrop. rewrite skipn_skipn'. f_equal. lia. Qed.

Lemma zdrop_0 : forall A (l : list A), zdrop 0 l = l.
Proof. reflexivity. Qed.

Lemma ztake_zdrop : forall A n (l : list A), ztake n l ++ zdrop n l = l.
Proof. intros. apply firstn_skipn. Qed.

Lemma zdrop_all : forall A n (l : list A), zlen l <= n -> zdrop n l = [].
Proof. intros. unfold zdrop. apply skipn_all2. unfold zlen in H. lia. Qed.

Lemma ztake_ztake : forall A a b (l : list A), ztake a (ztake b l) = ztake (Z.min a b) l.
Proof. intros. unfold ztake. rewrite firstn_firstn, Z2Nat.inj_min. reflexivity. Qed.

Lemma zdrop_ztake : forall A a b (l : list A), 0 <= a -> a <= b ->
  zdrop a (ztake b l) = ztake (b - a) (zdrop a l).
Proof. intros. unfold zdrop, ztake. rewrite skipn_firstn_comm. f_equal. lia. Qed.

(* ------------------------------------------------------------------ tilings *)
Lemma tiles_from_nil : forall k off seg, tiles_from k off seg [] = [].
Proof. destruct k; reflexivity. Qed.

Lemma tiles_from_cons : forall k off seg l, l <> [] ->
  tiles_from (S k) off seg l = (off, ztake seg l) :: tiles_from k (off + seg) seg (zdrop seg l).
Proof. intros k off seg l H. destruct l; [contradiction | reflexivity]. Qed.

Lemma tiles_from_spec : forall fuel off seg l, 1 <= seg -> (length l <= fuel)%nat ->
  concat (map snd (tiles_from fuel off seg l)) = l /\
  (forall k t, nth_error (tiles_from fuel off seg l) k = Some t ->
     fst t = off + Z.of_nat k * seg /\ 1 <= zlen (snd t) <= seg /\
     snd t = ztake seg (zdrop (Z.of_nat k * seg) l) /\ Z.of_nat k * seg + zlen (snd t) <= zlen l).
Proof.
  induction fuel as [|fuel IH]; intros off seg l Hseg Hlen.
  - destruct l; [|cbn in Hlen; lia]. split; [reflexivity|]. intros k t H. destruct k; discriminate.
  - destruct l as [|x l']; [split; [reflexivity | intros k t H; destruct k; discriminate]|].
    set (L := x :: l') in *.
    assert (HL : 1 <= zlen L) by (unfold zlen, L; cbn [length]; lia).
    rewrite tiles_from_cons by (unfold L; discriminate).
    assert (Hd : (length (zdrop seg L) <= fuel)%nat).
    { unfold zdrop. rewrite skipn_length. unfold L in *. cbn [length] in *. lia. }
    destruct (IH (off + seg) seg (zdrop seg L) Hseg Hd) as [IH1 IH2].
    split.
    + cbn [map concat snd]. rewrite IH1. apply ztake_zdrop.
    + intros k t H. destruct k as [|k].
      * cbn [nth_error] in H. inversion H; subst t. cbn [fst snd].
        rewrite zlen_ztake by lia. change (Z.of_nat 0) with 0. rewrite Z.mul_0_l, zdrop_0.
        repeat split; lia.
      * cbn [nth_error] in H. destruct (IH2 k t H) as [A [B [C D]]].
        rewrite zlen_zdrop in D by lia.
        rewrite zdrop_zdrop in C by lia.
        replace (Z.of_nat (S k) * seg) with (seg + Z.of_nat k * seg) by lia.
        repeat split; try lia. exact C.
Qed.

Lemma range_tiles_exact : forall d a b seg,
  0 <= a -> a <= b -> b <= zlen d -> 1 <= seg ->
  concat (map snd (range_tiles d a b seg)) = ztake (b - a) (zdrop a d) /\
  (forall k t, nth_error (range_tiles d a b seg) k = Some t ->
     fst t = a + Z.of_nat k * seg /\ 1 <= zlen (snd t) <= seg /\ fst t + zlen (snd t) <= b).
Proof.
  intros d a b seg Ha Hab Hb Hseg. unfold range_tiles.
  assert (HL : zlen (ztake (b - a) (zdrop a d)) = b - a).
  { rewrite zlen_ztake, zlen_zdrop by lia. lia. }
  assert (Hlen : (length (ztake (b - a) (zdrop a d)) <= Z.to_nat (b - a))%nat).
  { unfold zlen in HL. lia. }
  destruct (tiles_from_spec (Z.to_nat (b - a)) a seg _ Hseg Hlen) as [S1 S2].
  split; [exact S1|].
  intros k t H. destruct (S2 k t H) as [A [B [_ D]]]. rewrite HL in D. repeat split; lia.
Qed.

(* one step of the tiling of a prefix [ztake missing X] *)
Lemma tiles_from_take : forall k off seg missing (X : bytes),
  1 <= seg -> 0 < missing -> missing <= zlen X ->
  tiles_from (S k) off seg (ztake missing X) =
    (off, ztake (Z.min missing seg) X)
      :: tiles_from k (off + Z.min missing seg) seg
           (ztake (missing - Z.min missing seg) (zdrop (Z.min missing seg) X)).
Proof.
  intros k off seg missing X Hseg Hm HX.
  assert (Hne : ztake missing X <> []).
  { intro E. assert (Hz : zlen (ztake missing X) = 0) by (rewrite E; reflexivity).
    rewrite zlen_ztake in Hz by lia. lia. }
  rewrite tiles_from_cons by exact Hne. rewrite ztake_ztake, (Z.min_comm seg missing).
  f_equal.
  destruct (Z.le_gt_cases missing seg) as [Hc|Hc].
  - rewrite Z.min_l by lia. rewrite Z.sub_diag.
    rewrite (zdrop_all _ seg (ztake missing X)) by (rewrite zlen_ztake by lia; lia).
    change (ztake 0 (zdrop missing X)) with (@nil Z). rewrite !tiles_from_nil. reflexivity.
  - rewrite Z.min_r by lia. rewrite zdrop_ztake by lia. reflexivity.
Qed.

(* ------------------------------------------------------------------ queueing *)
Lemma enqueue_nil : forall s, enqueue [] s = s.
Proof.
  intros s. destruct s. unfold enqueue, set. cbn. rewrite app_nil_r.
  change (zlen (@nil pdu)) with 0. rewrite Z.add_0_r. reflexivity.
Qed.

Lemma enqueue_app : forall l1 l2 s, enqueue l2 (enqueue l1 s) = enqueue (l1 ++ l2) s.
Proof.
  intros l1 l2 s. destruct s. unfold enqueue, set. cbn.
  rewrite <- app_assoc, zlen_app, Z.add_assoc. reflexivity.
Qed.

(* _prepare_file_data_pdu reads the requested slice and queues one File Data PDU *)
Lemma prepare_file_data_ok : forall s p sn dn d off len,
  s_put s = Some p -> pr_names p = Some (sn, dn) -> lookup (fs_s s) sn = Some (File d) ->
  prepare_file_data_pdu off len s =
    (enqueue [PFileData (hdr_of (q_conf (s_p s)) TOWARDS_RECEIVER) off (ztake len (zdrop off d))] s, Ok tt).
Proof.
  intros s p sn dn d off len Hp Hn Hl.
  unfold prepare_file_data_pdu, src_names, put_or_assert, gq, gets, bind, ret.
  rewrite Hp. cbv beta iota. rewrite Hn. cbv beta iota.
  unfold fs_read_data. cbn [fst]. unfold fs_s in Hl. rewrite Hl. reflexivity.
Qed.

Lemma rc_unfold : forall k off missing seg,
  retransmit_chunks (S k) off missing seg =
    if 0 <? missing then
      (prepare_file_data_pdu off (Z.min missing seg) ;;;
       retransmit_chunks k (off + Z.min missing seg) (missing - Z.min missing seg) seg)%monad
    else ret tt.
Proof. reflexivity. Qed.

Lemma retransmit_chunks_ok : forall p sn dn d seg fuel s off missing,
  s_put s = Some p -> pr_names p = Some (sn, dn) -> lookup (fs_s s) sn = Some (File d) ->
  1 <= seg -> 0 <= off -> 0 <= missing -> missing <= Z.of_nat fuel -> off + missing <= zlen d ->
  retransmit_chunks (S fuel) off missing seg s =
    (enqueue (map (fd_of (hdr_of (q_conf (s_p s)) TOWARDS_RECEIVER))
                  (tiles_from fuel off seg (ztake missing (zdrop off d)))) s, Ok tt).
Proof.
  intros p sn dn d seg.
  induction fuel as [|fuel IH]; intros s off missing Hp Hn Hl Hseg Hoff Hm Hf Hd.
  - assert (missing = 0) by lia. subst missing. rewrite rc_unfold.
    change (0 <? 0) with false. cbv iota. cbn [tiles_from map]. rewrite enqueue_nil. reflexivity.
  - rewrite rc_unfold. destruct (0 <? missing) eqn:E.
    + apply Z.ltb_lt in E. unfold bind at 1.
      rewrite (prepare_file_data_ok s p sn dn d off (Z.min missing seg) Hp Hn Hl).
      rewrite (IH (enqueue [PFileData (hdr_of (q_conf (s_p s)) TOWARDS_RECEIVER) off
                              (ztake (Z.min missing seg) (zdrop off d))] s));
        try assumption; try lia.
      rewrite enqueue_app.
      rewrite (tiles_from_take fuel off seg missing (zdrop off d)); try lia.
      2:{ rewrite zlen_zdrop by lia. lia. }
      rewrite zdrop_zdrop by lia. reflexivity.
    + apply Z.ltb_ge in E. assert (missing = 0) by lia. subst missing.
      change (ztake 0 (zdrop off d)) with (@nil Z). rewrite tiles_from_nil.
      cbn [map]. rewrite enqueue_nil. reflexivity.
Qed.

Lemma not_both_zero : forall a b, ~ (a = 0 /\ b = 0) -> (a =? 0) && (b =? 0) = false.
Proof.
  intros a b H. destruct (a =? 0) eqn:Ea; destruct (b =? 0) eqn:Eb; try reflexivity.
  apply Z.eqb_eq in Ea. apply Z.eqb_eq in Eb. tauto.
Qed.

Lemma segment_req_valid : forall s p sn dn d a b,
  s_put s = Some p -> pr_names p = Some (sn, dn) -> lookup (fs_s s) sn = Some (File d) -> sn <> [] ->
  0 <= a -> a <= b -> b <= q_progress (s_p s) -> q_progress (s_p s) <= zlen d ->
  ~ (a = 0 /\ b = 0) -> 1 <= q_segment_len (s_p s) ->
  handle_segment_req (a, b) s =
    (enqueue (map (fd_of (hdr_of (q_conf (s_p s)) TOWARDS_RECEIVER)) (range_tiles d a b (q_segment_len (s_p s)))) s, Ok tt).
Proof.
  intros s p sn dn d a b Hp Hn Hl _ Ha Hab Hb Hpr Hnz Hseg.
  unfold handle_segment_req. rewrite (not_both_zero a b Hnz).
  rewrite (proj2 (Z.ltb_ge b a)) by lia.
  unfold bind, gq, gets.
  rewrite (proj2 (Z.ltb_ge (q_progress (s_p s)) a)) by lia.
  rewrite (proj2 (Z.ltb_ge (q_progress (s_p s)) b)) by lia.
  unfold range_tiles.
  apply (retransmit_chunks_ok p sn dn d); try assumption; lia.
Qed.

Lemma segment_req_metadata : forall s, handle_segment_req (0, 0) s = prepare_metadata_pdu s.
Proof. intros s. reflexivity. Qed.

Lemma segment_req_invalid : forall s a b,
  ~ (a = 0 /\ b = 0) -> (b < a \/ q_progress (s_p s) < a \/ q_progress (s_p s) < b) ->
  handle_segment_req (a, b) s = (s, Err E_INVALID_NAK).
Proof.
  intros s a b Hnz H. unfold handle_segment_req. rewrite (not_both_zero a b Hnz).
  destruct (b <? a) eqn:E1; [reflexivity|]. apply Z.ltb_ge in E1.
  unfold bind, gq, gets.
  destruct (q_progress (s_p s) <? a) eqn:E2; [reflexivity|]. apply Z.ltb_ge in E2.
  destruct (q_progress (s_p s) <? b) eqn:E3; [reflexivity|]. apply Z.ltb_ge in E3.
  exfalso. lia.
Qed.

(* the request loop of handle_retransmission *)
Lemma fold_requests : forall p sn dn d s,
  s_put s = Some p -> pr_names p = Some (sn, dn) -> lookup (fs_s s) sn = Some (File d) -> sn <> [] ->
  q_progress (s_p s) <= zlen d -> 1 <= q_segment_len (s_p s) ->
  forall reqs (m : SM unit) s0 l,
  Forall (fun rq => 0 <= fst rq /\ fst rq <= snd rq /\ snd rq <= q_progress (s_p s) /\ ~ (fst rq = 0 /\ snd rq = 0)) reqs ->
  m s0 = (enqueue l s, Ok tt) ->
  fold_left (fun m rq => (m ;;; handle_segment_req rq)%monad) reqs m s0 =
    (enqueue (l ++ flat_map (fun rq => map (fd_of (hdr_of (q_conf (s_p s)) TOWARDS_RECEIVER))
                                           (range_tiles d (fst rq) (snd rq) (q_segment_len (s_p s)))) reqs) s, Ok tt).
Proof.
  intros p sn dn d s Hp Hn Hl Hsn Hpr Hseg.
  induction reqs as [|[a b] reqs IH]; intros m s0 l HF Hm.
  - cbn [fold_left flat_map]. rewrite app_nil_r. exact Hm.
  - cbn [fold_left flat_map]. inversion HF as [|x xs Hx Hxs]; subst x xs. cbn [fst snd] in Hx.
    destruct Hx as [H1 [H2 [H3 H4]]].
    rewrite app_assoc. apply IH; [exact Hxs|].
    unfold bind at 1. rewrite Hm.
    rewrite (segment_req_valid (enqueue l s) p sn dn d a b); try assumption.
    + rewrite enqueue_app. reflexivity.
Qed.

Lemma retransmission : forall s p sn dn d h sos eos reqs,
  s_put s = Some p -> pr_names p = Some (sn, dn) -> lookup (fs_s s) sn = Some (File d) -> sn <> [] ->
  q_progress (s_p s) <= zlen d -> 1 <= q_segment_len (s_p s) ->
  Forall (fun rq => 0 <= fst rq /\ fst rq <= snd rq /\ snd rq <= q_progress (s_p s) /\ ~ (fst rq = 0 /\ snd rq = 0)) reqs ->
  handle_retransmission (Some (PNak h sos eos reqs)) s =
    ((enqueue (flat_map (fun rq => map (fd_of (hdr_of (q_conf (s_p s)) TOWARDS_RECEIVER))
                                      (range_tiles d (fst rq) (snd rq) (q_segment_len (s_p s)))) reqs) s)
       <| s_step_before := Some (s_step s) |> <| s_step := SS_RETRANSMITTING |>, Ok true).
Proof.
  intros s p sn dn d h sos eos reqs Hp Hn Hl Hsn Hpr Hseg HF.
  unfold handle_retransmission. unfold bind at 1.
  rewrite (fold_requests p sn dn d s Hp Hn Hl Hsn Hpr Hseg reqs (ret tt) s [] HF)
    by (rewrite enqueue_nil; reflexivity).
  cbn [app]. reflexivity.
Qed.

Lemma not_nak : forall s pkt,
  (match pkt with Some (PNak _ _ _ _) => False | _ => True end) -> handle_retransmission pkt s = (s, Ok false).
Proof. intros s pkt H. destruct pkt as [[]|]; try reflexivity. contradiction. Qed.

Lemma resume : forall s x,
  s_queue s = [] -> s_step s = SS_RETRANSMITTING -> s_step_before s = Some x ->
  fsm_advancement_s s = (s <| s_step := x |>, Ok tt).
Proof.
  intros s x Hq Hs Hb. unfold fsm_advancement_s, bind, get. rewrite Hq, Hs, Hb. reflexivity.
Qed.
