(* SilentReceiverProofs.v — proof for the closed form of property C04 on the receiver side (props/C04c.v): a silent
   peer cannot hang the receiver.  Waiting for the ACK of its Finished PDU, with Positive ACK Limit Reached configured
   as notice of cancellation, exactly 2N timer expiries take the handler to idle, for every limit N >= 1. *)
From CFDP Require Import Base LostSeg Fs Crc Checksum Handler Dest HandlerSpec.
From CFDP.gen Require Import Tables.
From CFDP.proofs Require Import RetryProofs.
From RecordUpdate Require Import RecordSet.
Import RecordSetNotations.

Arguments Z.add : simpl never. Arguments Z.sub : simpl never. Arguments Z.mul : simpl never.
Arguments Z.max : simpl never. Arguments Z.min : simpl never.
Arguments Z.ltb !x !y : simpl nomatch. Arguments Z.leb !x !y : simpl nomatch.
Arguments Z.eqb !x !y : simpl nomatch.
Arguments timed_out : simpl never.
Arguments handle_waiting_for_finished_ack : simpl never.

(* retrieve every queued PDU *)
Definition drain_d (s : dst) : dst * list pdu :=
  (s <| d_queue := [] |> <| d_ready := d_ready s - zlen (d_queue s) |>, d_queue s).
(* one timer interval passes, then one call without a PDU, then everything queued is retrieved *)
Definition expire_d (ms : Z) (s : dst) : dst * res Z (list pdu) :=
  match Dest.state_machine None (s <| d_env ::= (fun e => e <| e_now ::= Z.add ms |>) |>) with
  | (s', Ok _) => let '(s'', ps) := drain_d s' in (s'', Ok ps)
  | (s', Err e) => (s', Err e)
  end.
Fixpoint expires_d (n : nat) (ms : Z) (s : dst) : dst * res Z (list (list pdu)) :=
  match n with
  | O => (s, Ok [])
  | S k => match expire_d ms s with
           | (s', Ok ps) => match expires_d k ms s' with
                            | (s'', Ok rest) => (s'', Ok (ps :: rest))
                            | (s'', Err e) => (s'', Err e)
                            end
           | (s', Err e) => (s', Err e)
           end
  end.

Lemma expires_d_one : forall ms s s' ps, expire_d ms s = (s', Ok ps) -> expires_d 1 ms s = (s', Ok [ps]).
Proof. intros ms s s' ps H. cbn [expires_d]. rewrite H. reflexivity. Qed.

Lemma expires_d_app : forall m n ms s s1 l1 s2 l2,
  expires_d m ms s = (s1, Ok l1) -> expires_d n ms s1 = (s2, Ok l2) ->
  expires_d (m + n) ms s = (s2, Ok (l1 ++ l2)).
Proof.
  induction m as [|m IH]; intros n ms s s1 l1 s2 l2 H1 H2.
  - cbn [expires_d] in H1. inversion H1; subst. exact H2.
  - cbn [expires_d Nat.add] in *.
    destruct (expire_d ms s) as [s' [ps|e]]; [|discriminate].
    destruct (expires_d m ms s') as [s'' [rest|e]] eqn:E; [|discriminate].
    inversion H1; subst. rewrite (IH n ms s' s1 rest s2 l2 E H2). reflexivity.
Qed.

Lemma timer_expired_d : forall nw tmo, timed_out (tmo + nw) (nw, tmo) = true.
Proof. intros nw tmo. unfold timed_out. cbn [fst snd]. apply Z.leb_le. lia. Qed.

Ltac nsm := match goal with |- context[Dest.state_machine None ?st] => nstate st end.
Ltac nres := match goal with |- context[(?st, Ok _) = _] => nstate st end.

Section Silent.
Variables (N : nat) (r : rcfg) (a b : Z) (cfg : lcfg) (stid : option (Z * Z))
          (ckt : option timer) (ckc : Z) (clo : bool) (ckty : Z) (deliv : Z) (ffl : option (Z * Z)) (cf : hdr)
          (pr : Z) (crc : bytes) (fsz : option Z) (fname : path) (fse : option Z) (mdo : bool)
          (trk : tracker) (mdm : bool) (ls le : Z) (dfr : bool) (prt : option timer) (nakc : Z) (rw : bool).
Hypothesis Hlim : r_ack_limit r = Z.of_nat N.
Hypothesis Hms : 0 < r_ack_ms r.
Hypothesis Hmode : h_mode cf = ACKED.
Hypothesis Hfh : get_fault_handler (l_faults cfg) C_POS_ACK_LIMIT = Some FH_CANCEL.

(* a busy receiver state, the fields that stay put during the whole procedure taken from the section *)
Definition mk (step ready : Z) (q : list pdu) (fstat fcond disp : Z) (ackt : option timer) (c : Z)
              (nw : Z) (fs : tree) (lg : list event) : dst :=
  mkDst cfg ST_BUSY step stid ready q
    (mkDP (Some (a, b)) (Some r) ckt ckc clo ckty (mkFin deliv fstat fcond ffl) disp cf pr crc fsz fname fse mdo
          trk mdm ls le dfr prt nakc ackt c)
    (mkEnv nw fs rw lg).

(* waiting for the ACK of a Finished PDU with condition [fcond] and file status [fstat], [c] expiries counted, timer
   started at the current time, everything retrieved *)
Definition waiting (fstat fcond disp : Z) (fs : tree) (c : Z) (s : dst) : Prop :=
  exists nw lg, s = mk DS_WAITING_FOR_FINISHED_ACK 0 [] fstat fcond disp (Some (nw, r_ack_ms r)) c nw fs lg.

Definition finished (fcond fstat : Z) : pdu := PFinished (set_dir TOWARDS_SENDER cf) fcond deliv fstat ffl.

(* below the limit: the Finished PDU is sent again, the counter advances, the timer restarts *)
Lemma expire_resend : forall fstat fcond disp fs c s,
  waiting fstat fcond disp fs c s -> c + 1 < Z.of_nat N ->
  exists s', expire_d (r_ack_ms r) s = (s', Ok [finished fcond fstat]) /\ waiting fstat fcond disp fs (c + 1) s'.
Proof.
  intros fstat fcond disp fs c s (nw & lg & ->) Hlt.
  assert (r_ack_limit r <=? c + 1 = false) as Hle by (apply Z.leb_gt; lia).
  unfold expire_d, mk. nsm.
  rewrite dsm_none by reflexivity. unfold catch_abandoned at 1, catch. rewrite nif_waiting_fin_ack by reflexivity.
  remember (non_idle_fsm 2 None) as ag eqn:Hag.
  unfold handle_waiting_for_finished_ack, handle_positive_ack_procedures. msimp.
  rewrite timer_expired_d. msimp. rewrite Hle. msimp.
  nres. change (0 + 1 - 1) with 0.
  eexists. split; [reflexivity|]. unfold waiting, mk. do 2 eexists. reflexivity.
Qed.

Definition del : bool := r_disposition r && (deliv =? DATA_INCOMPLETE).

(* the nested state_machine() call after the notice of cancellation: completion (the incomplete file is deleted if the
   remote configuration says so), Finished PDU, Positive ACK procedure restarted with a fresh timer *)
Lemma nif_completion : forall k fstat fcond ackt c nw fs lg,
  non_idle_fsm (S k) None (mk DS_TRANSFER_COMPLETION 0 [] fstat fcond DISP_CANCELED ackt c nw fs lg) =
  (let fstat' := if del then FS_DISCARDED_DELIBERATELY else fstat in
   mk DS_WAITING_FOR_FINISHED_ACK (0 + 1) [finished fcond fstat'] fstat' fcond DISP_CANCELED (Some (nw, r_ack_ms r)) 0 nw
      (if del then fst (fs_delete_file fs fname) else fs)
      (if l_ind_fin cfg then EvFinished a b fcond deliv fstat' ffl :: lg else lg), Ok tt).
Proof.
  intros k fstat fcond ackt c nw fs lg. unfold mk, del, finished.
  cbn [non_idle_fsm].
  unfold fsm_advancement, step_is, get_step, handle_transfer_completion, notice_of_completion, rcfg_or_assert,
    mode_is, tmode, gp. msimp.
  destruct (l_ind_fin cfg) eqn:Hind;
    (match goal with |- context[r_disposition r && ?x] => destruct (r_disposition r && x) end);
    msimp; rewrite ?Hind; msimp; repeat (rewrite Hmode; msimp).
  all: (match goal with |- context[handle_waiting_for_finished_ack _ None ?st] => nstate st end).
  all: unfold handle_waiting_for_finished_ack, handle_positive_ack_procedures; msimp;
    rewrite (fresh_timer_running nw (r_ack_ms r) Hms); msimp; reflexivity.
Qed.

(* at the limit, first time: Positive ACK Limit fault -> notice of cancellation -> completion -> Finished (Positive ACK
   Limit Reached), procedure restarted *)
Lemma expire_limit_cancel : forall fstat fcond disp fs c s,
  waiting fstat fcond disp fs c s -> disp <> DISP_CANCELED -> Z.of_nat N <= c + 1 ->
  let fstat' := if del then FS_DISCARDED_DELIBERATELY else fstat in
  exists s', expire_d (r_ack_ms r) s = (s', Ok [finished C_POS_ACK_LIMIT fstat']) /\
    waiting fstat' C_POS_ACK_LIMIT DISP_CANCELED (if del then fst (fs_delete_file fs fname) else fs) 0 s'.
Proof.
  intros fstat fcond disp fs c s (nw & lg & ->) Hdisp Hge fstat'.
  assert (r_ack_limit r <=? c + 1 = true) as Hle by (apply Z.leb_le; lia).
  assert (disp =? DISP_CANCELED = false) as Hdc by (apply Z.eqb_neq; exact Hdisp).
  unfold expire_d, mk. nsm.
  rewrite dsm_none by reflexivity. unfold catch_abandoned at 1, catch. rewrite nif_waiting_fin_ack by reflexivity.
  remember (non_idle_fsm 2 None) as ag eqn:Hag.
  unfold handle_waiting_for_finished_ack, handle_positive_ack_procedures. msimp.
  rewrite timer_expired_d. msimp. rewrite Hle. msimp. rewrite Hdc. msimp.
  unfold declare_fault. msimp. rewrite Hfh. msimp.
  unfold catch_abandoned, catch. msimp.
  subst ag.
  match goal with |- context[non_idle_fsm 2 None ?st] => nstate st end.
  match goal with |- context[non_idle_fsm 2 None ?st] =>
    change st with (mk DS_TRANSFER_COMPLETION 0 [] fstat C_POS_ACK_LIMIT DISP_CANCELED (Some (nw, r_ack_ms r)) c
                       (r_ack_ms r + nw) fs (EvFault FH_CANCEL a b C_POS_ACK_LIMIT pr :: lg))
  end.
  rewrite (nif_completion 1%nat fstat C_POS_ACK_LIMIT (Some (nw, r_ack_ms r)) c (r_ack_ms r + nw) fs
             (EvFault FH_CANCEL a b C_POS_ACK_LIMIT pr :: lg)).
  subst fstat'. unfold finished, waiting, mk.
  destruct del; msimp; nres.
  all: change (0 + 1 - 1) with 0; (eexists; split; [reflexivity|]); do 2 eexists; reflexivity.
Qed.

(* at the limit, second time (the transaction is already cancelled): abandoned without another PDU *)
Lemma expire_limit_abandon : forall fstat fcond fs c s,
  waiting fstat fcond DISP_CANCELED fs c s -> Z.of_nat N <= c + 1 ->
  exists s', expire_d (r_ack_ms r) s = (s', Ok []) /\
    d_state s' = ST_IDLE /\ d_step s' = DS_IDLE /\ d_queue s' = [] /\ fs_d s' = fs.
Proof.
  intros fstat fcond fs c s (nw & lg & ->) Hge.
  assert (r_ack_limit r <=? c + 1 = true) as Hle by (apply Z.leb_le; lia).
  unfold expire_d, mk. nsm.
  rewrite dsm_none by reflexivity. unfold catch_abandoned at 1, catch. rewrite nif_waiting_fin_ack by reflexivity.
  remember (non_idle_fsm 2 None) as ag eqn:Hag.
  unfold handle_waiting_for_finished_ack, handle_positive_ack_procedures. msimp.
  rewrite timer_expired_d. msimp. rewrite Hle. msimp. nres.
  eexists. split; [reflexivity|]. cbn. repeat split; reflexivity.
Qed.

(* m expiries below the limit: m copies of the Finished PDU *)
Lemma expires_resend : forall fstat fcond disp fs m c s,
  waiting fstat fcond disp fs c s -> c + Z.of_nat m < Z.of_nat N ->
  exists s', expires_d m (r_ack_ms r) s = (s', Ok (repeat [finished fcond fstat] m)) /\
    waiting fstat fcond disp fs (c + Z.of_nat m) s'.
Proof.
  intros fstat fcond disp fs. induction m as [|m IH]; intros c s Hw Hlt.
  - exists s. split; [reflexivity|]. replace (c + Z.of_nat 0) with c by lia. exact Hw.
  - destruct (expire_resend fstat fcond disp fs c s Hw) as (s1 & H1 & Hw1); [lia|].
    destruct (IH (c + 1) s1 Hw1) as (s2 & H2 & Hw2); [lia|].
    exists s2. split.
    + cbn [expires_d repeat]. rewrite H1, H2. reflexivity.
    + replace (c + Z.of_nat (S m)) with (c + 1 + Z.of_nat m) by lia. exact Hw2.
Qed.

Lemma silent_from_waiting : forall fstat fcond disp fs s,
  (1 <= N)%nat -> disp <> DISP_CANCELED -> waiting fstat fcond disp fs 0 s ->
  let fstat' := if del then FS_DISCARDED_DELIBERATELY else fstat in
  exists s',
    expires_d (2 * N) (r_ack_ms r) s =
      (s', Ok (repeat [finished fcond fstat] (N - 1) ++ [[finished C_POS_ACK_LIMIT fstat']] ++
               repeat [finished C_POS_ACK_LIMIT fstat'] (N - 1) ++ [[]])) /\
    d_state s' = ST_IDLE /\ d_step s' = DS_IDLE /\ d_queue s' = [] /\
    fs_d s' = (if del then fst (fs_delete_file fs fname) else fs).
Proof.
  intros fstat fcond disp fs s HN Hdisp Hw fstat'.
  destruct (expires_resend fstat fcond disp fs (N - 1) 0 s Hw) as (s1 & H1 & Hw1); [lia|].
  destruct (expire_limit_cancel _ _ _ _ _ s1 Hw1 Hdisp) as (s2 & H2 & Hw2); [lia|].
  fold fstat' in H2, Hw2.
  destruct (expires_resend _ _ _ _ (N - 1) 0 s2 Hw2) as (s3 & H3 & Hw3); [lia|].
  destruct (expire_limit_abandon _ _ _ _ s3 Hw3) as (s4 & H4 & Hst & Hstep & Hq & Hfs); [lia|].
  exists s4. split; [|split; [exact Hst | split; [exact Hstep | split; [exact Hq | exact Hfs]]]].
  replace (2 * N)%nat with ((N - 1) + (1 + ((N - 1) + 1)))%nat by lia.
  eapply expires_d_app; [exact H1|].
  eapply expires_d_app; [apply expires_d_one; exact H2|].
  eapply expires_d_app; [exact H3|].
  apply expires_d_one. exact H4.
Qed.
End Silent.

Lemma dest_silent_peer_bounded : forall (N : nat) (s : dst) (r : rcfg) (a b : Z),
  (1 <= N)%nat -> r_ack_limit r = Z.of_nat N -> 0 < r_ack_ms r ->
  d_state s = ST_BUSY -> d_step s = DS_WAITING_FOR_FINISHED_ACK -> d_queue s = [] -> d_ready s = 0 ->
  p_rcfg (d_p s) = Some r -> p_ack_timer (d_p s) = Some (now_d s, r_ack_ms r) -> p_ack_counter (d_p s) = 0 ->
  p_disp (d_p s) <> DISP_CANCELED -> p_tid (d_p s) = Some (a, b) -> h_mode (p_conf (d_p s)) = ACKED ->
  get_fault_handler (l_faults (d_cfg s)) C_POS_ACK_LIMIT = Some FH_CANCEL ->
  let h := set_dir TOWARDS_SENDER (p_conf (d_p s)) in
  let f := p_fin (d_p s) in
  let del := r_disposition r && (f_deliv f =? DATA_INCOMPLETE) in
  let fstatus' := if del then FS_DISCARDED_DELIBERATELY else f_fstatus f in
  let fin0 := PFinished h (f_cond f) (f_deliv f) (f_fstatus f) (f_fl f) in
  let fin1 := PFinished h C_POS_ACK_LIMIT (f_deliv f) fstatus' (f_fl f) in
  exists s',
    expires_d (2 * N) (r_ack_ms r) s =
      (s', Ok (repeat [fin0] (N - 1) ++ [[fin1]] ++ repeat [fin1] (N - 1) ++ [[]])) /\
    d_state s' = ST_IDLE /\ d_step s' = DS_IDLE /\ d_queue s' = [] /\
    fs_d s' = (if del then fst (fs_delete_file (fs_d s) (p_file_name (d_p s))) else fs_d s).
Proof.
  intros N s r a b HN Hlim Hms Hst Hstep Hq Hrd Hr Ht Hc Hdisp Htid Hmode Hfh h f del0 fstatus' fin0 fin1.
  subst h f del0 fstatus' fin0 fin1. unfold now_d, fs_d in *.
  ddst s. cbn in Hst, Hstep, Hq, Hrd, Hr, Ht, Hc, Hdisp, Htid, Hmode, Hfh |- *.
  subst st step q ready rc ackt ackc tid.
  apply (silent_from_waiting N r a b cfg stid ckt ckc clo ckty deliv ffl cf pr crc fsz fname fse mdo trk mdm ls le
           dfr prt nakc rw Hlim Hms Hmode Hfh fstat fcond disp fs _ HN Hdisp).
  unfold waiting, mk. do 2 eexists. reflexivity.
Qed.
Print Assumptions dest_silent_peer_bounded.
