(* DelayProofs2.v — continuation of DelayProofs.v (props/C03z.v): the cases in which the held-back File Data PDU is
   overtaken by the recovery it has triggered.
   (a) deferred NAK mode, release AFTER the EOF PDU was processed (sections 1 - 3).  Until the release the run is that
       of a lost File Data PDU (SingleLossProofs.v: the gap is recorded - at the next File Data PDU or, for the last one, at
       the EOF PDU -, the deferred lost-segment procedure requests it, the sender retransmits it, Finished, ACK); the
       late original arrives, with N the round of the EOF PDU, in round
         r = N + 1   at the receiver that is about to start the deferred procedure: the call starts it (the NAK is queued
                     all the same), the PDU closes the gap, the transfer completes; the sender answers the NAK, the
                     retransmitted copy only triggers the Finished PDU ([sm_fill_dg]),
         r = N + 2   together with, and before, the retransmitted copy: it closes the gap and completes the transfer, the
                     retransmitted copy is ignored by the receiver waiting for the ACK (Finished),
         r = N + 3   together with, and before, the ACK (Finished): ignored,
         r >= N + 4  at the idle receiver, whose entity drops it (after rounds without activity if r > N + 4).
   (b) immediate NAK mode, d >= 2, at least two File Data PDUs after the held-back one (sections 4 - 6).  The next File
       Data PDU reveals the gap, the NAK goes out at once, the sender interrupts the stream for one round and retransmits
       the tile, which fills the gap ([sh_nak_mid], [sh_resume]); the late original is then a copy of data the receiver
       has: it arrives before the retransmitted copy in the same round (d = 2: it fills the gap, the retransmitted copy is
       the duplicate), with a later File Data PDU or with the EOF PDU (written again below the progress: [sm_fd_old]),
       after the EOF PDU (the call completes the transfer first: [sm_fd_re]), with the ACK (Finished) ([sm_fd_rw]), or at
       the idle receiver (dropped by its entity).
   No API call raises, no second indication: the verdict of the fault-free runs in every case. *)
From CFDP Require Import Base LostSeg Fs Crc Checksum Handler Dest Source HandlerSpec SourceSpec System SystemCases.
From CFDP.gen Require Import Tables.
From CFDP.proofs Require Import ChecksumProofs FsProofs StreamProofs RetransmitProofs PerfectLinkProofs PerfectLinkAckedProofs
  SingleLossProofs MetadataLossProofs ControlLossProofs DuplicateProofs DelayProofs.
From RecordUpdate Require Import RecordSet.
Import RecordSetNotations.
Local Arguments Z.add : simpl never. Local Arguments Z.sub : simpl never. Local Arguments Z.mul : simpl never.
Local Arguments Z.pow : simpl never. Local Arguments Z.div : simpl never. Local Arguments Z.min : simpl never.
Local Arguments Z.max : simpl never. Local Arguments Z.to_nat : simpl never.
Local Arguments Z.ltb !x !y : simpl nomatch. Local Arguments Z.leb !x !y : simpl nomatch.
Local Arguments Z.eqb !x !y : simpl nomatch. Local Arguments Z.of_nat !n : simpl nomatch.
Local Arguments write_at : simpl never.
Local Arguments set_node : simpl never.
Local Opaque calculate_checksum.

(* ================================================================== *)
(* 1. the receiver about to start the deferred procedure and the late PDU *)
(* ================================================================== *)
Section ReceiverL.
Variables (cd : lcfg) (rd : rcfg) (x : Z) (crc large clo : bool) (srcid idw seq seqw ckt fsz : Z).
Hypothesis Hrem : get_remote (l_remotes cd) srcid = Some rd.
Hypothesis Hfin : l_ind_fin cd = true.
Variable maxn : Z.
Hypothesis Hmax : max_seg_reqs (r_max_packet rd) (hB cd crc large srcid idw seq seqw) = Some maxn.

Notation hA' := (hA cd crc large srcid idw seq seqw).
Notation P12 f := (f cd rd x crc large clo srcid idw seq seqw ckt fsz) (only parsing).
Ltac unfX := unfold DR, dX, dpX, hB, fin0, fin1.
Ltac rw_m L :=
  match goal with |- bind ?m _ ?st = _ =>
    let H := fresh "Hm" in
    pose proof L as H;
    match type of H with _ = (?st', ?r) => rewrite (b_ok _ _ _ _ _ (H : m st = (st', r))) end; clear H
  end.
Ltac rw_hfd L :=
  match goal with |- bind (handle_fd_pdu ?o ?dt) _ ?st = _ =>
    let H := fresh "Hfd" in
    pose proof L as H;
    match type of H with _ = (?st', _) =>
      rewrite (b_ok _ _ _ _ _ (H : handle_fd_pdu o dt st = (st', Ok tt))) end; clear H
  end.

(* the late File Data PDU reaches the receiver right after the ACK (EOF) was retrieved: the call starts the deferred
   procedure (the NAK for the gap is queued), then the PDU closes the gap: checksum, completion; the Finished PDU has to
   wait for the next call because the NAK PDU was not retrieved yet.  (SingleLossProofs.sm_fill_ib for any progress.) *)
Lemma sm_fill_dg : forall a prog ck ls le data fs lg old full, lookup fs [x] = Some (File old) -> 0 < zlen data ->
  a + zlen data <= fsz -> Z.max (a + zlen data) prog = fsz -> write_at old a data = full ->
  calculate_checksum ckt (Some full) fsz 4096 = Ok ck ->
  Dest.state_machine (Some (PFileData hA' a data)) (P12 DG 0 [] prog ck [(a, a + zlen data)] ls le fs lg) =
    (P12 DF8 1 [nakI cd crc large srcid idw seq seqw a (a + zlen data) fsz] ck (set_node fs [x] (File full))
         (evFin srcid seq :: (if l_ind_seg cd then EvSegmentRecv srcid seq a (zlen data) :: lg else lg)), Ok tt).
Proof.
  intros a prog ck ls le data fs lg old full Hl Hpos Hle Hmx Hfull Hck.
  unfold DG. rewrite (sm_busy cd rd crc large srcid idw seq seqw Hrem) by reflexivity.
  unfold catch_abandoned; apply catch_ok; change 3%nat with (S 2); cbn [non_idle_fsm]; unfX.
  unfold fsm_advancement at 1; mrun.
  unfold start_deferred_lost_segment_handling. mrun.
  rw_m (dlsh_first cd rd x crc large clo srcid idw seq seqw ckt fsz maxn Hmax DS_WAITING_FOR_MISSING_DATA 0 [] fin0 prog ck a (a + zlen data) fsz fsz None fs lg).
  unfX. mrun.
  rw_hfd (hfd_fill_defer cd rd x crc large clo srcid idw seq seqw ckt fsz a prog (0 + 1)
            ([] ++ [nakI cd crc large srcid idw seq seqw a (a + zlen data) fsz]) ck data fs lg old Hl Hpos Hle).
  rewrite Hmx, Hfull. unfold dpD. unfX. mrun.
  unfold reset_nak_activity_parameters, now. mrun.
  set (lg' := if l_ind_seg cd then _ else _).
  rw_m (dlsh_done cd rd x crc large clo srcid idw seq seqw ckt fsz DS_WAITING_FOR_MISSING_DATA (0 + 1)
          ([] ++ [nakI cd crc large srcid idw seq seqw a (a + zlen data) fsz]) ck fsz fsz
          (Some (0, r_nak_ms rd)) None (set_node fs [x] (File full)) lg' full
          ltac:(rewrite lookup_set_node by discriminate; rewrite path_eqb_refl; reflexivity) Hck).
  unfX. mrun.
  rw_m (htc_run cd rd x crc large clo srcid idw seq seqw ckt fsz Hfin (0 + 1)
          ([] ++ [nakI cd crc large srcid idw seq seqw a (a + zlen data) fsz]) ck fsz fsz (Some (0, r_nak_ms rd)) None
          (set_node fs [x] (File full)) lg').
  unfX. mrun. reflexivity.
Qed.
End ReceiverL.

(* ================================================================== *)
(* 2. the two-entity system: a File Data PDU released after the EOF PDU *)
(* ================================================================== *)
Local Opaque state_machine_s Dest.state_machine.

Section SysL.
Variables (cs cd : lcfg) (p : putreq) (rs rd : rcfg) (sn : path) (x : Z) (data cks : bytes) (cf : sconf)
          (seg tick : Z) (clo : bool) (fss : tree) (ft : fault) (maxn : Z).
Hypothesis Hnames : pr_names p = Some (sn, [x]).
Hypothesis Hlook : lookup fss sn = Some (File data).
Hypothesis Hsn : sn <> [].
Hypothesis Hseg : 1 <= seg.
Hypothesis Hm : sc_mode cf = ACKED.
Hypothesis Hck : calculate_checksum (r_cktype rs) (Some data) (zlen data) seg = Ok cks.
Hypothesis Hck2 : calculate_checksum (r_cktype rs) (Some data) (zlen data) 4096 = Ok cks.
Hypothesis Hfins : l_ind_fin cs = true.
Hypothesis Hfind : l_ind_fin cd = true.
Hypothesis Hrem : get_remote (l_remotes cd) (sc_src cf) = Some rd.
Hypothesis Hdst : sc_dst cf = l_id cd.
Hypothesis Hacks : 0 < r_ack_ms rs.
Hypothesis Hackd : 0 < r_ack_ms rd.
Hypothesis Hnakd : 0 < r_nak_ms rd.
Hypothesis Hsrc : sc_src cf = l_id cs.
Hypothesis Hdstr : sc_dst cf = r_id rs.
Hypothesis Hmax : max_seg_reqs (r_max_packet rd) (hRB cd cf) = Some maxn.
Hypothesis Hk : ft_kind ft = 2.

Local Notation hRA' := (hRA cd cf).
Local Notation tid := (tidA cf).
Local Notation fsz := (zlen data).
Local Notation RT f :=
  (f cd rd x (sc_crc cf) (sc_large cf) clo (sc_src cf) (sc_srcw cf) (sc_seq cf) (sc_seqw cf) (r_cktype rs) (zlen data))
  (only parsing).
Local Notation DAx := (RT DA) (only parsing).
Local Notation DRx := (RT DR) (only parsing).
Local Notation DGx := (RT DG) (only parsing).
Local Notation DMx := (RT DM) (only parsing).
Local Notation DWXx := (RT DWX) (only parsing).
Local Notation DF8x := (RT DF8) (only parsing).
Local Notation RFx := (RF cd (sc_src cf) (sc_seq cf)) (only parsing).
Local Notation InvAx := (InvA cs p rs fss data cf seg clo tid) (only parsing).
Local Notation TX := (TailX cs p rs fss data cf seg tid) (only parsing).
Local Notation X7 sb := (TailX cs p rs fss data cf seg tid SS_WAITING_FOR_EOF_ACK sb None) (only parsing).
Local Notation X8 sb := (TailX cs p rs fss data cf seg tid SS_WAITING_FOR_FINISHED sb None) (only parsing).
Local Notation XR := (TailX cs p rs fss data cf seg tid SS_RETRANSMITTING (Some SS_WAITING_FOR_FINISHED) None) (only parsing).
Local Notation T9 := (Tail cs p rs cf tid SS_SENDING_ACK_OF_FINISHED (Some (C_NO_ERROR, DATA_COMPLETE, FS_RETAINED, None)))
  (only parsing).
Local Notation PDx := (PD cf) (only parsing).
Local Notation ackE' := (ackEA cd cf).
Local Notation finP' := (finPA cd cf).
Local Notation evF := (evFinD cf).
Local Notation eofG' := (eofG cd data cks cf).
Local Notation ackFG' := (ackFG cd cf).
Local Notation nfd' := (nfd data seg).
Local Notation eofr := (if l_ind_eof_recv cd then [EvEofRecv (sc_src cf) (sc_seq cf)] else []) (only parsing).
Local Notation nakI' a b := (nakI cd (sc_crc cf) (sc_large cf) (sc_src cf) (sc_srcw cf) (sc_seq cf) (sc_seqw cf) a b (zlen data))
  (only parsing).
Local Notation tl' off := (ztake seg (zdrop off data)) (only parsing).
Local Notation nxt' off := (off + Z.min seg (zlen data - off)) (only parsing).
Local Notation fdP off := (PFileData hRA' off (ztake seg (zdrop off data))) (only parsing).
Local Notation lgS off n lg := (if l_ind_seg cd then EvSegmentRecv (sc_src cf) (sc_seq cf) off n :: lg else lg%list) (only parsing).
Local Notation St' := (St cf ft).
Local Notation SH' := (SH cf ft).
Local Notation SA' := (SA cf ft).
Local Notation NH' := (NH ft).
Local Notation DH' := (DHalf ft tid).
Local Notation DA' := (DAll ft tid).
Local Notation fin' := (fin_ok cd x data cf tick ft []).
Local Notation BT := (or_introl (conj eq_refl eq_refl)) (only parsing).
Local Notation BB := (or_introl eq_refl) (only parsing).
Ltac fo := repeat (first [apply Forall_nil | apply Forall_cons; [reflexivity|]]).

Lemma TX_bt : forall st sb qf s, TX st sb qf s -> s_state s = ST_BUSY /\ q_tid (s_p s) = Some tid.
Proof. intros st sb qf s H. exact (Tl_bt cs p rs cf st qf s (TailX_Tail _ _ _ _ _ _ _ _ _ _ _ _ H)). Qed.
Lemma BIP_TX : forall st sb qf, BIP cf (TX st sb qf). Proof. intros st sb qf s H. left. exact (TX_bt _ _ _ _ H). Qed.
Lemma BusyP_TX : forall st sb qf, BusyP (TX st sb qf). Proof. intros st sb qf s H. exact (proj1 (TX_bt _ _ _ _ H)). Qed.
Lemma BusyP_X7x : BusyP (fun s => exists sb, X7 sb s). Proof. intros s [sb H]. exact (proj1 (TX_bt _ _ _ _ H)). Qed.

(* ---- the sender's halves (the sender of SingleLossProofs.v: it remembers the step to return to after a retransmission) *)
Lemma shx_final : SH' (InvAx fsz) [] (fun s => exists sb, X7 sb s) [eofG'] true.
Proof.
  intros s HI.
  destruct (step_final_x cs p rs fss data cks cf seg clo tid sn [x] Hnames Hlook Hm Hck Hacks s HI) as (s' & sb & P & HT).
  unfold eofP in P. rewrite (hdr_eq_a cd cf Hm Hdst) in P.
  exists s'. split; [exists sb; exact HT|].
  rewrite <- (act_t s s' [eofG']) by reflexivity.
  apply (SHalf_none ft tid Hk); [exact P|fo|left; exact (proj1 (IA_bt _ _ _ _ _ _ _ _ _ _ HI))|left; exact (TX_bt _ _ _ _ HT)].
Qed.
Lemma s1x_ack : forall sb, S1 (X7 sb) ackE' (X8 sb) [].
Proof.
  intros sb s HT. split; [exact (proj1 (TX_bt _ _ _ _ HT))|].
  destruct (step_ack_eof_x cs p rs fss data cf seg tid Hm Hsrc Hdstr s sb C_NO_ERROR TS_ACTIVE HT) as (s' & P & HT').
  rewrite (hdr_eq_b cd cf Hm Hdst) in P. exists s'. split; assumption.
Qed.
Lemma s1x_nak : forall sb a, 0 <= a < fsz -> S1 (X8 sb) (nakI' a (nxt' a)) XR [fdP a].
Proof.
  intros sb a Ha s HT. split; [exact (proj1 (TX_bt _ _ _ _ HT))|].
  destruct (step_nak_fin cs p rs fss data cf seg tid sn [x] Hnames Hlook Hsn Hseg Hm Hsrc Hdstr s sb 0 fsz a (nxt' a) HT
              ltac:(lia) ltac:(lia) eq_refl) as (s' & P & HT').
  rewrite (nak_eq cd cf Hm Hdst), (tile_eq cd data cf seg Hm Hdst) in P. exists s'. split; assumption.
Qed.
Lemma s1x_fin : S1 XR finP' T9 [ackFG'].
Proof.
  intros s HT. split; [exact (proj1 (TX_bt _ _ _ _ HT))|].
  destruct (step_fin_retx cs p rs fss data cf seg tid Hm Hsrc Hdstr s FS_RETAINED HT) as (s' & P & HT').
  rewrite (hdr_eq_b cd cf Hm Hdst), (hdr_eq_a cd cf Hm Hdst) in P. exists s'. split; assumption.
Qed.
Lemma shx_ack : forall sb, SH' (X7 sb) [ackE'] (X8 sb) [] true.
Proof. intros. apply SH_of_SA. exact (SA_cons cf ft Hk _ _ _ _ _ _ _ (s1x_ack sb) ltac:(fo) (BIP_TX _ _ _) (SA_nil cf ft _)). Qed.
Lemma shx_nak : forall sb a, 0 <= a < fsz -> SH' (X8 sb) [nakI' a (nxt' a)] XR [fdP a] true.
Proof.
  intros sb a Ha. apply SH_of_SA.
  assert (Ho : Forall onw [fdP a]).
  { apply Forall_cons; [|apply Forall_nil]. unfold onw. pose proof (tile_len data seg a Hseg Ha) as Htl.
    destruct (tl' a); [change (zlen (@nil Z)) with 0 in Htl; lia | reflexivity]. }
  exact (SA_cons cf ft Hk _ _ _ _ _ _ _ (s1x_nak sb a Ha) Ho (BIP_TX _ _ _) (SA_nil cf ft _)).
Qed.
Lemma shx_fin : SH' XR [finP'] T9 [ackFG'] true.
Proof. apply SH_of_SA. exact (SA_cons cf ft Hk _ _ _ _ _ _ _ s1x_fin ltac:(fo) (BIP_T9 cs p rs cf) (SA_nil cf ft _)). Qed.

(* ---- the receiver's halves *)
Lemma dg_eof_gap : forall tr ls le fs lg,
  DA' [eofG'] (DRx fsz tr ls le fs lg) (DGx 0 [] fsz cks tr ls le fs (eofr ++ lg)) [ackE'].
Proof.
  intros. change [ackE'] with ([ackE'] ++ []).
  eapply (DAll_ok ft tid Hk _ _ _ _ (DGx 0 [] fsz cks tr ls le fs (eofr ++ lg)) [ackE']);
    [split; reflexivity | exact (sm_eof_gap cd rd x _ _ clo _ _ _ _ (r_cktype rs) fsz Hrem cks None tr ls le fs lg) | reflexivity | fo
    | left; split; reflexivity |].
  apply DAll_nil.
Qed.
Lemma dg_eof_short : forall a ls le fs lg, a < fsz ->
  DA' [eofG'] (DRx a [] ls le fs lg) (DGx 0 [] a cks [(a, fsz)] ls le fs (eofr ++ lg)) [ackE'].
Proof.
  intros a ls le fs lg Ha. change [ackE'] with ([ackE'] ++ []).
  eapply (DAll_ok ft tid Hk _ _ _ _ (DGx 0 [] a cks [(a, fsz)] ls le fs (eofr ++ lg)) [ackE']);
    [split; reflexivity | exact (sm_eof_short cd rd x _ _ clo _ _ _ _ (r_cktype rs) fsz Hrem cks None a ls le fs lg Ha) | reflexivity | fo
    | left; split; reflexivity |].
  apply DAll_nil.
Qed.
Lemma dh_defer : forall prog ck a b ls le fs lg,
  DH' [] (DGx 0 [] prog ck [(a, b)] ls le fs lg) (DMx 0 [] prog ck [(a, b)] fs lg) [nakI' a b] true.
Proof.
  intros.
  exact (DHalf_none ft tid Hk _ _ _ [nakI' a b]
           (sm_defer_start cd rd x _ _ clo _ _ _ _ (r_cktype rs) fsz Hnakd maxn Hmax prog ck a b ls le fs lg) eq_refl ltac:(fo) BB BT).
Qed.
Lemma da_fill_dm : forall a prog dt fs lg old, lookup fs [x] = Some (File old) -> 0 < zlen dt -> a + zlen dt <= fsz ->
  Z.max (a + zlen dt) prog = fsz -> write_at old a dt = data ->
  DA' [PFileData hRA' a dt] (DMx 0 [] prog cks [(a, a + zlen dt)] fs lg)
    (DWXx 0 [] cks fsz fsz (Some (0, r_nak_ms rd)) (set_node fs [x] (File data)) (evF :: lgS a (zlen dt) lg)) [finP'].
Proof.
  intros a prog dt fs lg old Hl Hpos Hle Hmx Hw. change [finP'] with ([finP'] ++ []).
  eapply (DAll_ok ft tid Hk _ _ _ _ (DWXx 0 [] cks fsz fsz (Some (0, r_nak_ms rd)) (set_node fs [x] (File data)) (evF :: lgS a (zlen dt) lg)) [finP']);
    [split; reflexivity
    | exact (sm_fill_defer cd rd x _ _ clo _ _ _ _ (r_cktype rs) fsz Hrem Hfind Hackd a prog cks dt fs lg old data Hl Hpos Hle Hmx Hw Hck2)
    | reflexivity | fo | left; split; reflexivity |].
  apply DAll_nil.
Qed.
Lemma da_fill_dg : forall a prog ls le dt fs lg old, lookup fs [x] = Some (File old) -> 0 < zlen dt -> a + zlen dt <= fsz ->
  Z.max (a + zlen dt) prog = fsz -> write_at old a dt = data ->
  DA' [PFileData hRA' a dt] (DGx 0 [] prog cks [(a, a + zlen dt)] ls le fs lg)
    (DF8x 0 [] cks (set_node fs [x] (File data)) (evF :: lgS a (zlen dt) lg)) [nakI' a (a + zlen dt)].
Proof.
  intros a prog ls le dt fs lg old Hl Hpos Hle Hmx Hw. change [nakI' a (a + zlen dt)] with ([nakI' a (a + zlen dt)] ++ []).
  eapply (DAll_ok ft tid Hk _ _ _ _ (DF8x 0 [] cks (set_node fs [x] (File data)) (evF :: lgS a (zlen dt) lg)) [nakI' a (a + zlen dt)]);
    [split; reflexivity
    | exact (sm_fill_dg cd rd x _ _ clo _ _ _ _ (r_cktype rs) fsz Hrem Hfind maxn Hmax a prog cks ls le dt fs lg old data Hl Hpos Hle Hmx Hw Hck2)
    | reflexivity | fo | left; split; reflexivity |].
  apply DAll_nil.
Qed.
Lemma da_dup_df8 : forall off dt fs lg,
  DA' [PFileData hRA' off dt] (DF8x 0 [] cks fs lg) (DWXx 0 [] cks fsz fsz (Some (0, r_nak_ms rd)) fs lg) [finP'].
Proof.
  intros. change [finP'] with ([finP'] ++ []).
  eapply (DAll_ok ft tid Hk _ _ _ _ (DWXx 0 [] cks fsz fsz (Some (0, r_nak_ms rd)) fs lg) [finP']);
    [split; reflexivity | exact (sm_dup_ib cd rd x _ _ clo _ _ _ _ (r_cktype rs) fsz Hrem Hackd off dt cks fs lg) | reflexivity | fo
    | left; split; reflexivity |].
  apply DAll_nil.
Qed.
Lemma da_dwx_fd : forall off dt ls le pt fs lg,
  DA' [PFileData hRA' off dt] (DWXx 0 [] cks ls le pt fs lg) (DWXx 0 [] cks ls le pt fs lg) [].
Proof.
  intros. change (@nil pdu) with (@nil pdu ++ []) at 3.
  eapply (DAll_ok ft tid Hk _ _ _ _ (DWXx 0 [] cks ls le pt fs lg) []);
    [split; reflexivity
    | exact (sm_dwx_ignore cd rd x _ _ clo _ _ _ _ (r_cktype rs) fsz Hrem Hackd _ cks ls le pt fs lg (or_intror (ex_intro _ off (ex_intro _ dt eq_refl))))
    | reflexivity | fo | left; split; reflexivity |].
  apply DAll_nil.
Qed.
Lemma da_dwx_ack : forall st ls le pt fs lg,
  DA' [PAck hRA' D_FINISHED C_NO_ERROR st] (DWXx 0 [] cks ls le pt fs lg) (RFx 0 fs lg) [].
Proof.
  intros. change (@nil pdu) with (@nil pdu ++ []) at 2.
  eapply (DAll_ok ft tid Hk _ _ _ _ (RFx 0 fs lg) []);
    [split; reflexivity | exact (sm_ack_fin_x cd rd x _ _ clo _ _ _ _ (r_cktype rs) fsz Hrem C_NO_ERROR st cks ls le pt fs lg) | reflexivity | fo
    | right; reflexivity |].
  apply DAll_nil.
Qed.
(* a File Data PDU for the transaction the idle receiver has closed: dropped by its surrounding entity *)
Lemma da_rf_fd : forall off dt nwd fs lg, DA' [PFileData hRA' off dt] (RFx nwd fs lg) (RFx nwd fs lg) [].
Proof. intros. exact (DAll_closed ft tid (PFileData hRA' off dt) [] (RFx nwd fs lg) _ [] I eq_refl eq_refl (DAll_nil ft tid _)). Qed.

(* ---- the rounds, from the last to the first *)
Ltac nqb := left; first [exact (BusyP_TX _ _ _) | exact (BusyP_T9 cs p rs cf) | exact BusyP_X7x].
Ltac nq3 := right; right; left; discriminate.
Local Notation kstep := (k_step cd x data cf tick ft) (only parsing).
Local Notation tS3 fs Hl := (t_S3 cs cd p rs x data cf tick ft Hfins Hk fs Hl) (only parsing).

Section PathL.
Variables (a rel : Z) (fs : tree).
Hypothesis Ha : 0 <= a < fsz.
Hypothesis Hl : lookup fs [x] = Some (File data).
Local Notation e := (rel, 0, fdP a).
Local Notation klast := (k_last cd x data cf tick ft fs Hl) (only parsing).

(* both closed, or the sender about to close: the late PDU is dropped by the receiving entity *)
Lemma l7 : forall lg nwd c1 c2 rnd y, clean lg -> NH' 0 c1 -> NH' 1 c2 ->
  St' T9 (RFx nwd fs (evF :: lg)) [] c1 c2 [e] rnd y -> fin' y.
Proof.
  intros lg nwd c1 c2 rnd y Hc N0 N1 H. destruct (Z_le_gt_dec rel (rnd + 1)) as [Hle|Hgt].
  - destruct (rel_now0 (rnd + 1) rel (fdP a) Hle) as (E0 & E1 & Ek).
    eapply (klast _ _ _ _ _ _ _ _ _ _ _ _ nwd lg); [exact N0|exact N1|exact H|exact Hc|rewrite E1; reflexivity|exact (sh9_done cs p rs cf ft Hfins Hk)
                                                   |rewrite E0; reflexivity|apply DHalf_list; exact (da_rf_fd _ _ _ _ _)|exact Ek].
  - destruct (rel_hold (rnd + 1) rel 0 (fdP a) ltac:(lia)) as (E0 & E1 & Ek).
    eapply kstep; [exact N0|exact N1|exact H|rewrite E1; reflexivity|exact (sh9_done cs p rs cf ft Hfins Hk)|rewrite E0; reflexivity
                  |exact (dhF_none cd cf ft Hk _ _ _)|exact Ek|reflexivity|reflexivity|reflexivity|nq3|].
    intros y1 N0' N1' H1.
    apply (loop_DF cd x data cf tick ft Hk fs (Z.to_nat (rel - (rnd + 1))) lg nwd _ _ rel 0 (fdP a) (rnd + 1) y1 (le_n _) N0' N1' H1).
    intros nwd' rnd' y' Hle' H'. destruct (rel_now0 (rnd' + 1) rel (fdP a) Hle') as (E0' & E1' & Ek').
    eapply (klast _ _ _ _ _ _ _ _ _ _ _ _ nwd' lg); [exact N0'|exact N1'|exact H'|exact Hc|rewrite E1'; reflexivity|exact (shD_none cf ft Hk)
                                                    |rewrite E0'; reflexivity|apply DHalf_list; exact (da_rf_fd _ _ _ _ _)|exact Ek'].
Qed.

(* the Finished PDU is on its way, nothing held back *)
Lemma l6n : forall lg ls le pt c1 c2 rnd y, clean lg -> NH' 0 c1 -> NH' 1 c2 ->
  St' XR (DWXx 0 [] cks ls le pt fs (evF :: lg)) [finP'] c1 c2 [] rnd y -> fin' y.
Proof.
  intros lg ls le pt c1 c2 rnd y Hc N0 N1 H.
  eapply kstep; [exact N0|exact N1|exact H|reflexivity|exact shx_fin|reflexivity
                |apply DHalf_list; exact (da_dwx_ack TS_ACTIVE _ _ _ _ _)|reflexivity|reflexivity|reflexivity|reflexivity|nqb|].
  intros y1 N0' N1' H1. exact (tS3 fs Hl lg 0 _ _ _ y1 Hc N0' N1' H1).
Qed.
Lemma l6 : forall lg ls le pt c1 c2 rnd y, clean lg -> NH' 0 c1 -> NH' 1 c2 ->
  St' XR (DWXx 0 [] cks ls le pt fs (evF :: lg)) [finP'] c1 c2 [e] rnd y -> fin' y.
Proof.
  intros lg ls le pt c1 c2 rnd y Hc N0 N1 H. destruct (Z_le_gt_dec rel (rnd + 1)) as [Hle|Hgt].
  - destruct (rel_now0 (rnd + 1) rel (fdP a) Hle) as (E0 & E1 & Ek).
    eapply kstep; [exact N0|exact N1|exact H|rewrite E1; reflexivity|exact shx_fin|rewrite E0; reflexivity
                  |apply DHalf_list; exact (DAll_app cf ft [fdP a] [ackFG'] _ _ _ [] [] (da_dwx_fd _ _ _ _ _ _ _) (da_dwx_ack TS_ACTIVE _ _ _ _ _))
                  |exact Ek|reflexivity|reflexivity|reflexivity|nqb|].
    intros y1 N0' N1' H1. exact (tS3 fs Hl lg 0 _ _ _ y1 Hc N0' N1' H1).
  - destruct (rel_hold (rnd + 1) rel 0 (fdP a) ltac:(lia)) as (E0 & E1 & Ek).
    eapply kstep; [exact N0|exact N1|exact H|rewrite E1; reflexivity|exact shx_fin|rewrite E0; reflexivity
                  |apply DHalf_list; exact (da_dwx_ack TS_ACTIVE _ _ _ _ _)|exact Ek|reflexivity|reflexivity|reflexivity|nqb|].
    intros y1 N0' N1' H1. exact (l7 lg 0 _ _ _ y1 Hc N0' N1' H1).
Qed.
End PathL.

Section PathL2.
Variables (a rel : Z) (fs : tree) (old : bytes).
Hypothesis Ha : 0 <= a < fsz.
Hypothesis Hlo : lookup fs [x] = Some (File old).
Hypothesis Hw : write_at old a (tl' a) = data.
Local Notation e := (rel, 0, fdP a).
Local Notation b := (a + zlen (tl' a)).
Local Notation fs' := (set_node fs [x] (File data)).

Lemma Hl' : lookup fs' [x] = Some (File data).
Proof. rewrite lookup_set_node by discriminate. rewrite path_eqb_refl. reflexivity. Qed.
Lemma Hposa : 0 < zlen (tl' a) /\ b <= fsz.
Proof. pose proof (tl_len_k data seg Hseg a Ha). lia. Qed.
Lemma clean_S : forall off n lg, clean lg -> clean (lgS off n lg).
Proof. intros. destruct (l_ind_seg cd); [apply clean_cons; [reflexivity|reflexivity|assumption] | assumption]. Qed.

(* the NAK is on its way to the sender *)
Lemma l5 : forall sb prog lg c1 c2 rnd y, clean lg -> NH' 0 c1 -> NH' 1 c2 -> Z.max b prog = fsz ->
  St' (X8 sb) (DMx 0 [] prog cks [(a, b)] fs lg) [nakI' a (nxt' a)] c1 c2 [e] rnd y -> fin' y.
Proof.
  intros sb prog lg c1 c2 rnd y Hc N0 N1 Hmx H. destruct Hposa as [Hp Hb].
  destruct (Z_le_gt_dec rel (rnd + 1)) as [Hle|Hgt].
  - destruct (rel_now0 (rnd + 1) rel (fdP a) Hle) as (E0 & E1 & Ek).
    eapply kstep; [exact N0|exact N1|exact H|rewrite E1; reflexivity|exact (shx_nak sb a Ha)|rewrite E0; reflexivity
                  |apply DHalf_list; exact (DAll_app cf ft [fdP a] [fdP a] _ _ _ [finP'] []
                                              (da_fill_dm a prog (tl' a) fs lg old Hlo Hp Hb Hmx Hw) (da_dwx_fd _ _ _ _ _ _ _))
                  |exact Ek|reflexivity|reflexivity|reflexivity|nqb|].
    intros y1 N0' N1' H1. exact (l6n fs' Hl' _ _ _ _ _ _ _ y1 (clean_S _ _ _ Hc) N0' N1' H1).
  - destruct (rel_hold (rnd + 1) rel 0 (fdP a) ltac:(lia)) as (E0 & E1 & Ek).
    eapply kstep; [exact N0|exact N1|exact H|rewrite E1; reflexivity|exact (shx_nak sb a Ha)|rewrite E0; reflexivity
                  |apply DHalf_list; exact (da_fill_dm a prog (tl' a) fs lg old Hlo Hp Hb Hmx Hw)
                  |exact Ek|reflexivity|reflexivity|reflexivity|nqb|].
    intros y1 N0' N1' H1. exact (l6 a rel fs' Hl' _ _ _ _ _ _ _ y1 (clean_S _ _ _ Hc) N0' N1' H1).
Qed.

(* the ACK (EOF) is on its way to the sender, the receiver is about to start the deferred procedure *)
Lemma l4 : forall sb prog ls le lg c1 c2 rnd y, clean lg -> NH' 0 c1 -> NH' 1 c2 -> Z.max b prog = fsz ->
  St' (X7 sb) (DGx 0 [] prog cks [(a, b)] ls le fs lg) [ackE'] c1 c2 [e] rnd y -> fin' y.
Proof.
  intros sb prog ls le lg c1 c2 rnd y Hc N0 N1 Hmx H. destruct Hposa as [Hp Hb].
  assert (Eb : b = nxt' a) by (rewrite (tl_len_k data seg Hseg a Ha); reflexivity).
  destruct (Z_le_gt_dec rel (rnd + 1)) as [Hle|Hgt].
  - destruct (rel_now0 (rnd + 1) rel (fdP a) Hle) as (E0 & E1 & Ek).
    eapply kstep; [exact N0|exact N1|exact H|rewrite E1; reflexivity|exact (shx_ack sb)|rewrite E0; reflexivity
                  |apply DHalf_list; exact (da_fill_dg a prog ls le (tl' a) fs lg old Hlo Hp Hb Hmx Hw)
                  |exact Ek|reflexivity|reflexivity|reflexivity|nqb|].
    intros y1 N0' N1' H1. rewrite Eb in H1.
    eapply kstep; [exact N0'|exact N1'|exact H1|reflexivity|exact (shx_nak sb a Ha)|reflexivity
                  |apply DHalf_list; exact (da_dup_df8 _ _ _ _)|reflexivity|reflexivity|reflexivity|reflexivity|nqb|].
    intros y2 N0'' N1'' H2. exact (l6n fs' Hl' _ _ _ _ _ _ _ y2 (clean_S _ _ _ Hc) N0'' N1'' H2).
  - destruct (rel_hold (rnd + 1) rel 0 (fdP a) ltac:(lia)) as (E0 & E1 & Ek).
    eapply kstep; [exact N0|exact N1|exact H|rewrite E1; reflexivity|exact (shx_ack sb)|rewrite E0; reflexivity
                  |exact (dh_defer prog cks a b ls le fs lg)|exact Ek|reflexivity|reflexivity|reflexivity|nqb|].
    intros y1 N0' N1' H1. rewrite Eb in H1 at 2.
    exact (l5 sb prog lg _ _ _ y1 Hc N0' N1' Hmx H1).
Qed.
End PathL2.

(* ---- before the EOF PDU: the gap is recorded, the File Data PDUs after it are received in order *)
Section PathL3.
Variables (a rel : Z).
Hypothesis Ha : 0 <= a < fsz.
Hypothesis Hrel : nfd' + 3 <= rel.
Local Notation e := (rel, 0, fdP a).
Local Notation B := (a + zlen (tl' a)).

Lemma h_loop : forall m i ls fs lg y, (Z.to_nat (fsz - i * seg) <= m)%nat -> 0 <= i -> B <= i * seg -> (i - 1) * seg < fsz ->
  NH' 0 (i + 1) -> NH' 1 0 -> B <= ls ->
  St' (InvAx (Z.min (i * seg) fsz)) (DRx (Z.min (i * seg) fsz) [(a, B)] ls (Z.min (i * seg) fsz) fs lg) [] (i + 1) 0 [e] (i + 1) y ->
  lookup fs [x] = Some (File (holed data a B (Z.min (i * seg) fsz))) -> clean lg -> fin' y.
Proof.
  pose proof (nfd_spec data seg Hseg) as HN. assert (HL : 0 <= fsz) by (unfold zlen; lia).
  pose proof (tl_len_k data seg Hseg a Ha) as Htla.
  induction m as [|m IH]; intros i ls fs lg y Hmm Hi Hbi Hprev N0 N1 Hls H Hl Hc;
    (destruct (Z_lt_le_dec (i * seg) fsz) as [Hlt|Hge];
     [| assert (Ei : i = nfd') by (unfold nfd in *; nia);
        rewrite (Z.min_r (i * seg) fsz) in H, Hl by lia;
        destruct (rel_hold (i + 1 + 1) rel 0 (fdP a) ltac:(lia)) as (E0 & E1 & Ek);
        eapply kstep; [exact N0|exact N1|exact H|rewrite E1; reflexivity|exact shx_final|rewrite E0; reflexivity
                      |apply DHalf_list; exact (dg_eof_gap [(a, B)] ls fsz fs lg)
                      |exact Ek|reflexivity|reflexivity|reflexivity|nqb|];
        intros y1 N0' N1' H1; destruct (St_ex cf ft _ _ _ _ _ _ _ _ _ H1) as [sb H2];
        apply (l4 a rel fs (holed data a B fsz) Ha Hl
                 ltac:(transitivity (ztake fsz data); [apply (hole_fill data seg a B fsz Hseg); lia | apply ztake_all])
                 sb fsz ls fsz (eofr ++ lg) _ _ _ y1 (clean_eofr_k cd cf lg Hc) N0' N1' ltac:(lia) H2) ]).
  - exfalso. lia.
  - assert (Hin : i < nfd') by (unfold nfd in *; nia).
    rewrite (Z.min_l (i * seg) fsz) in H, Hl by lia. set (off := i * seg) in *.
    destruct (rel_hold (i + 1 + 1) rel 0 (fdP a) ltac:(lia)) as (E0 & E1 & Ek).
    assert (Htl : zlen (tl' off) = Z.min seg (fsz - off)) by (apply tl_len_k; [exact Hseg|lia]).
    assert (Hpos : 0 < zlen (tl' off)) by lia.
    eapply kstep; [exact N0|exact N1|exact H|rewrite E1; reflexivity
                  |exact (sh_fd cs cd p rs sn x data cf seg clo fss ft Hnames Hlook Hseg Hm Hdst Hk off Hlt)|rewrite E0; reflexivity
                  |apply DHalf_list; exact (da_fd_in cd rs rd x data cf clo ft Hrem Hk off [(a, B)] ls (tl' off) fs lg _ Hl Hpos)
                  |exact Ek|reflexivity|reflexivity|reflexivity|left; exact (BusyP_IA cs p rs data cf seg clo fss _)|].
    intros y1 N0' N1' H1. rewrite Htl in H1.
    assert (Eo : off + Z.min seg (fsz - off) = Z.min ((i + 1) * seg) fsz) by (unfold off; lia).
    rewrite Eo in H1.
    pose proof (St_cnt cf ft _ _ _ _ _ (i + 1 + 1) 0 _ _ _ H1 ltac:(unfold zlen; cbn [length]; lia) ltac:(unfold zlen; cbn [length]; lia)) as H2.
    eapply (IH (i + 1) off _ _ y1); [lia|lia|unfold off; nia|replace (i + 1 - 1) with i by lia; exact Hlt
                                    |exact (NH_mono ft 0 (i + 1) (i + 1 + 1) N0 ltac:(lia))|exact N1|lia|exact H2| |].
    + rewrite lookup_set_node by discriminate. rewrite path_eqb_refl. f_equal. f_equal. rewrite <- Eo, <- Htl.
      apply (hole_ext data seg a B off Hseg); lia.
    + apply clean_S. exact Hc.
Qed.
End PathL3.

(* the File Data PDU number j + 1 (offset j * seg) is held back until after the EOF PDU *)
Lemma fd_late : forall j y, 0 <= j -> j * seg < fsz ->
  SPK cs cd p rs rd x data cf seg clo fss ft (j * seg) (j + 1) y -> hit ft 0 (j + 1) = true ->
  NH' 0 (j + 2) -> NH' 1 0 -> nfd' + 2 <= j + 1 + ft_arg ft -> ((j + 1) * seg < fsz -> r_imm_nak rd = false) -> fin' y.
Proof.
  intros j y Hj Hlt (rnd & ls & fs & lg & Er & H & Hl & Hc) Hh N0 N1 Hd Himm. subst rnd.
  pose proof (nfd_spec data seg Hseg) as HN. assert (HL : 0 <= fsz) by (unfold zlen; lia).
  assert (Ha0 : 0 <= j * seg < fsz) by nia.
  set (a := j * seg) in *.
  pose proof (tl_len_k data seg Hseg a Ha0) as Htla.
  change (DAx a ls a fs lg) with (DRx a [] ls a fs lg) in H.
  edestruct (St_round cf ft) as (y1 & a1 & R & H1 & Ha1);
    [exact H | reflexivity | exact (sh_fd cs cd p rs sn x data cf seg clo fss ft Hnames Hlook Hseg Hm Hdst Hk a Hlt)
    | cbn [rel0 app surv]; rewrite Hh; reflexivity | exact (dhR_none cd rs rd x data cf clo ft Hk a [] ls a fs lg)
    | reflexivity | cbn [kept held app]; rewrite Hh; reflexivity |].
  cbn [orb] in Ha1. cbn [surv app] in H1.
  apply (fin_step cd x data cf tick ft y y1 a1 _ _ _ _ _ _ _ R Ha1 H1 (or_introl (BusyP_IA cs p rs data cf seg clo fss _))).
  pose proof (St_cnt cf ft _ _ _ _ _ (j + 1 + 1) 0 _ _ _ H1 ltac:(unfold zlen; cbn [length]; lia) ltac:(unfold zlen; cbn [length]; lia)) as H2.
  set (rel := j + 1 + 1 + ft_arg ft) in *.
  assert (N0' : NH' 0 (j + 1 + 1)) by (apply (NH_mono ft 0 (j + 2)); [exact N0|lia]).
  destruct (Z_lt_le_dec ((j + 1) * seg) fsz) as [Hlt1|Hge1].
  - (* not the last File Data PDU: the next one reveals the gap *)
    pose proof (Himm Hlt1) as Himm'.
    assert (Hin : j + 2 <= nfd') by (unfold nfd in *; nia).
    set (b := (j + 1) * seg) in *.
    assert (Eb : a + Z.min seg (fsz - a) = b) by (unfold a, b; lia).
    assert (EB : a + zlen (tl' a) = b) by lia.
    rewrite Eb in H2.
    assert (Htlb : zlen (tl' b) = Z.min seg (fsz - b)) by (apply tl_len_k; [exact Hseg|lia]).
    assert (Hposb : 0 < zlen (tl' b)) by lia.
    destruct (rel_hold (j + 1 + 1 + 1) rel 0 (fdP a) ltac:(unfold rel; lia)) as (E0 & E1 & Ek).
    eapply kstep; [exact N0'|exact N1|exact H2|rewrite E1; reflexivity
                  |exact (sh_fd cs cd p rs sn x data cf seg clo fss ft Hnames Hlook Hseg Hm Hdst Hk b Hlt1)|rewrite E0; reflexivity
                  |apply DHalf_list; exact (da_fd_gap cd rs rd x data cf clo ft Hrem Hk a b ls (tl' b) fs lg _ Hl Hposb ltac:(unfold a, b; lia) Himm')
                  |exact Ek|reflexivity|reflexivity|reflexivity|left; exact (BusyP_IA cs p rs data cf seg clo fss _)|].
    intros y2 N0'' N1'' H3. rewrite Htlb in H3.
    assert (Eo : b + Z.min seg (fsz - b) = Z.min ((j + 2) * seg) fsz) by (unfold b; lia).
    rewrite Eo in H3.
    pose proof (St_cnt cf ft _ _ _ _ _ (j + 2 + 1) 0 _ _ _ H3 ltac:(unfold zlen; cbn [length]; lia) ltac:(unfold zlen; cbn [length]; lia)) as H4.
    replace (j + 1 + 1 + 1) with (j + 2 + 1) in H4 by lia.
    eapply (h_loop a rel Ha0 ltac:(unfold rel; lia) (Z.to_nat (fsz - (j + 2) * seg)) (j + 2) b _ _ y2 (le_n _) ltac:(lia)
              ltac:(rewrite EB; unfold b; nia) ltac:(replace (j + 2 - 1) with (j + 1) by lia; exact Hlt1)
              (NH_mono ft 0 (j + 2) (j + 2 + 1) N0 ltac:(lia)) N1 ltac:(rewrite EB; lia)).
    + rewrite EB. exact H4.
    + rewrite lookup_set_node by discriminate. rewrite path_eqb_refl. f_equal. f_equal. rewrite EB, <- Eo, <- Htlb.
      apply (hole_make data seg a b Hseg); unfold a, b; lia.
    + apply clean_S. exact Hc.
  - (* the last File Data PDU: the EOF PDU reveals the gap at the end of the file *)
    assert (Eb : a + Z.min seg (fsz - a) = fsz) by (unfold a in *; lia).
    assert (EB : a + zlen (tl' a) = fsz) by lia.
    assert (Ej : j + 1 = nfd') by (unfold nfd in *; nia).
    rewrite Eb in H2.
    destruct (rel_hold (j + 1 + 1 + 1) rel 0 (fdP a) ltac:(unfold rel; lia)) as (E0 & E1 & Ek).
    eapply kstep; [exact N0'|exact N1|exact H2|rewrite E1; reflexivity|exact shx_final|rewrite E0; reflexivity
                  |apply DHalf_list; exact (dg_eof_short a ls a fs lg ltac:(lia))
                  |exact Ek|reflexivity|reflexivity|reflexivity|nqb|].
    intros y2 N0'' N1'' H3. destruct (St_ex cf ft _ _ _ _ _ _ _ _ _ H3) as [sb H4].
    rewrite <- EB in H4 at 2.
    apply (l4 a rel fs (ztake a data) Ha0 Hl
             ltac:(rewrite <- (ztake_all data) at 3; rewrite <- EB, Htla; apply write_append; lia)
             sb a ls a (eofr ++ lg) _ _ _ y2 (clean_eofr_k cd cf lg Hc) N0'' N1'' ltac:(lia) H4).
Qed.

Lemma main_fd_late : forall s1 s3 k d,
  pump s1 = (s3, Ok [PMetadata (hdr_of cf TOWARDS_RECEIVER) clo (r_cktype rs) fsz (Some (sn, [x])) []]) ->
  InvAx 0 s3 -> ft = mkFault 0 k 2 d -> 1 <= k <= nfd' -> nfd' + 2 <= k + d -> (k < nfd' -> r_imm_nak rd = false) ->
  fin' (ZD ft [] s1 (dst_init cd) [] [] 0 0 [] 0 None None [] []).
Proof.
  intros s1 s3 k d P HI E Hk1 Hkd Himm.
  pose proof (nfd_spec data seg Hseg) as HN. assert (HL : 0 <= fsz) by (unfold zlen; lia).
  assert (Hh : forall c, hit ft 0 c = (k =? c)) by (intro c; rewrite E; apply hit_k00).
  destruct (round_md_k cs cd p rs rd sn x data cf seg tick clo fss ft Hm Hrem Hdst Hk s1 s3 P HI
              ltac:(rewrite Hh; apply Z.eqb_neq; lia)) as (y1 & R1 & H1).
  apply (fin_reach cd x data cf tick ft [] _ y1 R1).
  assert (Hlt : (k - 1) * seg < fsz) by (unfold nfd in *; nia).
  destruct (prefix_upto cs cd p rs rd sn x data cf seg tick clo fss ft Hnames Hlook Hseg Hm Hrem Hdst Hackd Hk
              (Z.to_nat (k - 1)) 0 y1 ltac:(lia) ltac:(rewrite Z.mul_0_l, Z.min_l by lia; exact H1)
              ltac:(intros c Hc; rewrite Hh; apply Z.eqb_neq; lia)
              ltac:(destruct (Z.eq_dec k 1) as [->|?]; [right; reflexivity|left; nia])) as (y2 & R2 & H2).
  apply (fin_reach cd x data cf tick ft [] y1 y2 R2).
  replace (0 + Z.of_nat (Z.to_nat (k - 1))) with (k - 1) in H2 by lia. rewrite Z.min_l in H2 by lia.
  apply (fd_late (k - 1) y2 ltac:(lia) Hlt H2).
  - rewrite Hh. apply Z.eqb_eq. lia.
  - intros c Hc. rewrite Hh. apply Z.eqb_neq. lia.
  - intros c Hc. rewrite E. apply hit_k01.
  - rewrite E. cbn [ft_arg]. lia.
  - intro Hx. apply Himm. unfold nfd in *. nia.
Qed.
End SysL.

(* ================================================================== *)
(* 3. property C03, K = 1: a File Data PDU held back until after the EOF PDU *)
(* ================================================================== *)
Lemma single_delay_file_data_late :
  forall (cs cd : lcfg) (seq0 bits : Z) (p : putreq) (rs rd : rcfg) (sn dn : path) (data : bytes) (tick k d : Z) (ft : fault),
  let w := Z.max (l_idw cs) (pr_dstw p) in
  let large := 4294967295 <? zlen data in
  let derived := r_max_packet rs - (4 + 2 * w + bits / 8) - (if large then 8 else 4) - (if r_crc rs then 2 else 0) in
  let seg := match r_max_seg rs with Some m => Z.min m derived | None => derived end in
  get_remote (l_remotes cs) (pr_dst p) = Some rs ->
  pr_names p = Some (sn, dn) -> sn <> [] -> dn <> [] -> pr_msgs p = None ->
  (match pr_mode p with Some m => m | None => r_mode rs end) = ACKED ->
  let n := (zlen data + seg - 1) / seg in
  ft = mkFault 0 k 2 d -> 1 <= k <= n -> n + 2 <= k + d -> (k < n -> r_imm_nak rd = false) ->
  0 < r_nak_ms rd ->
  4 + 2 * w + bits / 8 + 1 + (if r_crc rs then 2 else 0) + 2 * (if large then 8 else 4) <= r_max_packet rd ->
  0 < r_ack_ms rs -> 0 < r_ack_ms rd ->
  (bits = 8 \/ bits = 16 \/ bits = 32) -> 0 <= seq0 < 2 ^ bits -> 1 <= seg -> 6 <= derived ->
  (r_cktype rs = CK_CRC32 \/ r_cktype rs = CK_CRC32C \/ r_cktype rs = CK_NULL \/ r_cktype rs = CK_MODULAR) ->
  bytes_ok data = true ->
  l_id cd = pr_dst p -> get_remote (l_remotes cd) (l_id cs) = Some rd -> length dn = 1%nat ->
  get_fault_handler (l_faults cd) C_CHECKSUM_FAILURE <> None ->
  l_ind_fin cs = true -> l_ind_fin cd = true ->
  exists fuel,
    let res := transfer cs cd seq0 bits p sn data [ft] fuel tick in
    delivered_ok dn data res = true /\ y_errs (fst res) = [] /\ fault_free_ok dn data res = true.
Proof.
  intros cs cd seq0 bits p rs rd sn dn data tick k d ft w large derived seg
         Hrs Hn Hsn Hdn Hmsgs Hmode n Hft Hk1 Hkd Himm Hnak Hmp Hacks Hackd Hbits Hseq Hseg Hd6 Hck Hbytes Hid Hrd Hlen
         Hfh Hfs Hfd.
  destruct dn as [|x [|x' dn']]; try discriminate Hlen.
  set (fss := [(sn, File data)]).
  assert (Hlook : lookup fss sn = Some (File data)).
  { destruct sn as [|a sn']; [contradiction|]. unfold fss. cbn [lookup lookup_raw].
    rewrite path_eqb_refl. reflexivity. }
  destruct (ck_agree (r_cktype rs) data seg Hck Hseg) as (cks & C1 & C2).
  set (cf := mkSconf (l_id cs) w (pr_dst p) w seq0 (bits / 8) ACKED large (r_crc rs)).
  set (clo := match pr_closure p with Some b => b | None => r_closure rs end).
  destruct (first_call_a cs seq0 bits fss p rs sn [x] data Hrs Hn Hlook Hmode Hbits Hseq Hseg Hd6)
    as (s1 & s3 & P1 & P2 & HI).
  rewrite Hmsgs in P2.
  assert (Hdst : sc_dst cf = l_id cd) by (symmetry; exact Hid).
  assert (Hdstr : sc_dst cf = r_id rs) by (symmetry; exact (get_remote_id _ _ _ Hrs)).
  assert (Hmax : exists maxn, max_seg_reqs (r_max_packet rd) (hRB cd cf) = Some maxn).
  { unfold max_seg_reqs, hRB, hB, hdr_len, crc_len, fss_len, cf. cbn [h_idw h_seqw h_crc h_large sc_crc sc_large sc_srcw sc_seqw].
    match goal with |- exists _, (if ?c then _ else _) = _ => replace c with false end; [eexists; reflexivity|].
    symmetry. apply Z.ltb_ge. fold w large. lia. }
  destruct Hmax as (maxn & Hmax).
  assert (Hk : ft_kind ft = 2) by (rewrite Hft; reflexivity).
  destruct (main_fd_late cs cd p rs rd sn x data cks cf seg tick clo fss ft maxn Hn Hlook Hsn Hseg eq_refl C1 C2 Hfs Hfd Hrd Hdst
              Hacks Hackd Hnak eq_refl Hdstr Hmax Hk s1 s3 k d P2 HI Hft Hk1 Hkd Himm) as (fuel & y' & Rr & F).
  exists fuel.
  assert (Et : transfer cs cd seq0 bits p sn data [ft] fuel tick = (y', true)).
  { unfold transfer, sys_init. cbn [y_src]. fold fss. rewrite P1. exact Rr. }
  cbv zeta. rewrite Et.
  destruct (final_verdict_g cd x data _ ft _ y' F) as [V1 V2].
  split; [exact V1|]. split; [exact V2|]. exact (final_fault_free_g cd x data _ ft y' F).
Qed.

(* instances: files of 5 and 9 bytes in segments of 4 (n = 2, 3), deferred NAK mode; every File Data PDU held back so that
   it is released 1, 2, 3, 4, 5 and 20 rounds after the round of the EOF PDU (d = n + 1 - k + r): the verdict of the
   fault-free runs; the rounds the runs take (a fault-free run of the 9-byte file takes 8, one with a lost File Data PDU 9) *)
Example delay_late_examples :
  let run sz k d := run_case ACKED false CK_CRC32 4 false 2 sz [mkFault 0 k 2 d] in
  forallb (fun r =>
    forallb (fun k => fault_free_ok [2] (test_data 5) (run 5 k (3 - k + r))) [1; 2] &&
    forallb (fun k => fault_free_ok [2] (test_data 9) (run 9 k (4 - k + r))) [1; 2; 3]) [1; 2; 3; 4; 5; 20] = true /\
  map (fun r => y_round (fst (run 9 2 (4 - 2 + r)))) [1; 2; 3; 4; 5; 6] = [9; 9; 9; 9; 10; 11].
Proof. vm_compute. split; reflexivity. Qed.

(* ================================================================== *)
(* 4. the receiver and a File Data PDU that arrives when nothing is missing (any more) *)
(* ================================================================== *)
Local Transparent Dest.state_machine.
Section ReceiverB.
Variables (cd : lcfg) (rd : rcfg) (x : Z) (crc large clo : bool) (srcid idw seq seqw ckt fsz : Z).
Hypothesis Hrem : get_remote (l_remotes cd) srcid = Some rd.
Hypothesis Hfin : l_ind_fin cd = true.
Hypothesis Hack : 0 < r_ack_ms rd.

Notation hA' := (hA cd crc large srcid idw seq seqw).
Notation finP' := (finP cd crc large srcid idw seq seqw).
Notation P12 f := (f cd rd x crc large clo srcid idw seq seqw ckt fsz) (only parsing).
Ltac unfX := unfold DR, dX, dpX, hB, fin0, fin1.
Ltac wr Hl := unfold vfs_write; mrun; cbn [e_fs]; unfold fs_write_data; rewrite Hl; cbv iota; mrun.
Ltac evlog := (destruct (l_ind_seg cd); mrun; apply catch_ok; mrun; unfold lost_segment_handling; mrun).

(* a segment below the progress, no gap on record, ending at or before the start of the last segment received in order:
   it is written again, nothing else changes *)
Lemma hfd_old : forall a prog ls data fs lg old, lookup fs [x] = Some (File old) -> 0 < zlen data ->
  a + zlen data <= ls -> a + zlen data <= prog ->
  handle_fd_pdu a data (P12 DR prog [] ls prog fs lg) =
    (P12 DR (Z.max (a + zlen data) prog) [] ls prog
        (set_node fs [x] (File (write_at old a data)))
        (if l_ind_seg cd then EvSegmentRecv srcid seq a (zlen data) :: lg else lg), Ok tt).
Proof.
  intros a prog ls data fs lg old Hl Hpos Hls Hle.
  assert (E1 : (prog <? a) = false) by (apply Z.ltb_ge; lia).
  assert (E2 : (prog <=? a) = false) by (apply Z.leb_gt; lia).
  assert (E3 : (a + zlen data <=? ls) = true) by (apply Z.leb_le; lia).
  unfold handle_fd_pdu. unfX. mrun.
  evlog; rewrite E1; mrun; rewrite E2; mrun; rewrite E3; mrun; cbn [fold_left]; mrun; wr Hl; reflexivity.
Qed.
Lemma sm_fd_old : forall a prog ls data fs lg old, lookup fs [x] = Some (File old) -> 0 < zlen data ->
  a + zlen data <= ls -> a + zlen data <= prog ->
  Dest.state_machine (Some (PFileData hA' a data)) (P12 DR prog [] ls prog fs lg) =
    (P12 DR (Z.max (a + zlen data) prog) [] ls prog
        (set_node fs [x] (File (write_at old a data)))
        (if l_ind_seg cd then EvSegmentRecv srcid seq a (zlen data) :: lg else lg), Ok tt).
Proof.
  intros a prog ls data fs lg old Hl Hpos Hls Hle.
  rewrite (sm_busy cd rd crc large srcid idw seq seqw Hrem) by reflexivity.
  unfold catch_abandoned; apply catch_ok; change 3%nat with (S 2); cbn [non_idle_fsm]; unfX.
  unfold fsm_advancement at 1; mrun.
  match goal with |- bind (handle_fd_pdu ?o ?dt) _ ?st = _ =>
    let H := fresh "Hfd" in
    pose proof (hfd_old a prog ls data fs lg old Hl Hpos Hls Hle) as H;
    match type of H with _ = (?st', _) =>
      rewrite (b_ok _ _ _ _ _ (H : handle_fd_pdu o dt st = (st', Ok tt))) end; clear H
  end.
  unfX. mrun. reflexivity.
Qed.

(* a File Data PDU reaches the receiver after the ACK (EOF) was retrieved: the call advances as a call without a PDU would
   (checksum, completion, Finished PDU, Positive-ACK timer) and then finds nothing to do with the PDU *)
Lemma sm_fd_re : forall nw cks ls off dt fs lg data,
  lookup fs [x] = Some (File data) -> calculate_checksum ckt (Some data) fsz 4096 = Ok cks ->
  Dest.state_machine (Some (PFileData hA' off dt)) (P12 RE nw 0 [] cks ls fs lg) =
    (P12 RW nw nw 0 1 [finP'] cks ls fs (EvFinished srcid seq C_NO_ERROR DATA_COMPLETE FS_RETAINED None :: lg), Ok tt).
Proof.
  intros nw cks ls off dt fs lg data Hl Hck.
  rewrite (sm_busy cd rd crc large srcid idw seq seqw Hrem) by reflexivity.
  unfold catch_abandoned; apply catch_ok. change 3%nat with (S 2). cbn [non_idle_fsm].
  unfold RE, RW, dT, dpT, hB, fin0, fin1. unfold fsm_advancement at 1. mrun.
  unfold checksum_verify; mrun; dpr;
  (destruct (ckt =? CK_NULL) eqn:Eck; cbn [orb]; mrun;
   [| unfold vfs_checksum; mrun; rewrite Eck; mrun; rewrite Hl, Hck; cbv iota; mrun; rewrite bytes_eqb_refl; dpr; rewrite Z.leb_refl; cbn [andb]; mrun]);
  unfold handle_transfer_completion, notice_of_completion; mrun; rewrite Hfin; mrun; dpr; mrun;
  unfold prepare_finished_pdu, conf, add_packet; mrun;
  unfold handle_finished_pdu_sent; mrun; unfold start_positive_ack_procedure, rcfg_or_assert, now; mrun;
  unfold handle_waiting_for_finished_ack, handle_positive_ack_procedures, rcfg_or_assert, now; mrun;
  rewrite (timer_fresh nw (r_ack_ms rd) Hack); reflexivity.
Qed.

(* ... while the ACK (Finished) is awaited and the Positive-ACK timer runs: nothing *)
Lemma sm_fd_rw : forall nw t0 k cks ls off dt fs lg, nw - t0 < r_ack_ms rd ->
  Dest.state_machine (Some (PFileData hA' off dt)) (P12 RW nw t0 k 0 [] cks ls fs lg) = (P12 RW nw t0 k 0 [] cks ls fs lg, Ok tt).
Proof.
  intros nw t0 k cks ls off dt fs lg Hlt.
  rewrite (sm_busy cd rd crc large srcid idw seq seqw Hrem) by reflexivity.
  unfold catch_abandoned; apply catch_ok. change 3%nat with (S 2). cbn [non_idle_fsm].
  unfold RE, RW, dT, dpT, hB, fin0, fin1. unfold fsm_advancement at 1. mrun.
  unfold handle_waiting_for_finished_ack, handle_positive_ack_procedures, rcfg_or_assert, now; mrun.
  unfold timed_out. cbn [fst snd]. replace (r_ack_ms rd <=? nw - t0) with false by (symmetry; apply Z.leb_gt; exact Hlt).
  reflexivity.
Qed.
End ReceiverB.
Local Opaque Dest.state_machine.

(* ================================================================== *)
(* 5. immediate NAK mode: the gap is requested at once, the segment arrives twice *)
(* ================================================================== *)
Section SysB.
Variables (cs cd : lcfg) (p : putreq) (rs rd : rcfg) (sn : path) (x : Z) (data cks : bytes) (cf : sconf)
          (seg tick : Z) (clo : bool) (fss : tree) (ft : fault).
Hypothesis Hnames : pr_names p = Some (sn, [x]).
Hypothesis Hlook : lookup fss sn = Some (File data).
Hypothesis Hsn : sn <> [].
Hypothesis Hseg : 1 <= seg.
Hypothesis Hm : sc_mode cf = ACKED.
Hypothesis Hck : calculate_checksum (r_cktype rs) (Some data) (zlen data) seg = Ok cks.
Hypothesis Hck2 : calculate_checksum (r_cktype rs) (Some data) (zlen data) 4096 = Ok cks.
Hypothesis Hfins : l_ind_fin cs = true.
Hypothesis Hfind : l_ind_fin cd = true.
Hypothesis Hrem : get_remote (l_remotes cd) (sc_src cf) = Some rd.
Hypothesis Hdst : sc_dst cf = l_id cd.
Hypothesis Hacks : 0 < r_ack_ms rs.
Hypothesis Hackd : 0 < r_ack_ms rd.
Hypothesis Hsrc : sc_src cf = l_id cs.
Hypothesis Hdstr : sc_dst cf = r_id rs.
Hypothesis Hk : ft_kind ft = 2.

Local Notation hRA' := (hRA cd cf).
Local Notation tid := (tidA cf).
Local Notation fsz := (zlen data).
Local Notation RT f :=
  (f cd rd x (sc_crc cf) (sc_large cf) clo (sc_src cf) (sc_srcw cf) (sc_seq cf) (sc_seqw cf) (r_cktype rs) (zlen data))
  (only parsing).
Local Notation DAx := (RT DA) (only parsing).
Local Notation DRx := (RT DR) (only parsing).
Local Notation RAx := (RT RA) (only parsing).
Local Notation REx := (RT RE) (only parsing).
Local Notation RWx := (RT RW) (only parsing).
Local Notation RFx := (RF cd (sc_src cf) (sc_seq cf)) (only parsing).
Local Notation InvAx := (InvA cs p rs fss data cf seg clo tid) (only parsing).
Local Notation InvRx := (InvR cs p rs fss data cf seg clo tid) (only parsing).
Local Notation T7 := (TailT cs p rs fss data cf seg tid) (only parsing).
Local Notation T8 := (Tail cs p rs cf tid SS_WAITING_FOR_FINISHED None) (only parsing).
Local Notation T9 := (Tail cs p rs cf tid SS_SENDING_ACK_OF_FINISHED (Some (C_NO_ERROR, DATA_COMPLETE, FS_RETAINED, None)))
  (only parsing).
Local Notation ackE' := (ackEA cd cf).
Local Notation finP' := (finPA cd cf).
Local Notation evF := (evFinD cf).
Local Notation eofG' := (eofG cd data cks cf).
Local Notation ackFG' := (ackFG cd cf).
Local Notation nfd' := (nfd data seg).
Local Notation eofr := (if l_ind_eof_recv cd then [EvEofRecv (sc_src cf) (sc_seq cf)] else []) (only parsing).
Local Notation nakJ a b e := (nakI cd (sc_crc cf) (sc_large cf) (sc_src cf) (sc_srcw cf) (sc_seq cf) (sc_seqw cf) a b e) (only parsing).
Local Notation tl' off := (ztake seg (zdrop off data)) (only parsing).
Local Notation nxt' off := (off + Z.min seg (zlen data - off)) (only parsing).
Local Notation fdP off := (PFileData hRA' off (ztake seg (zdrop off data))) (only parsing).
Local Notation lgS off n lg := (if l_ind_seg cd then EvSegmentRecv (sc_src cf) (sc_seq cf) off n :: lg else lg%list) (only parsing).
Local Notation St' := (St cf ft).
Local Notation SH' := (SH cf ft).
Local Notation NH' := (NH ft).
Local Notation DH' := (DHalf ft tid).
Local Notation DA' := (DAll ft tid).
Local Notation fin' := (fin_ok cd x data cf tick ft []).
Local Notation kstep := (k_step cd x data cf tick ft) (only parsing).
Local Notation shfd := (sh_fd cs cd p rs sn x data cf seg clo fss ft Hnames Hlook Hseg Hm Hdst Hk) (only parsing).
Local Notation shfinal := (sh_final cs cd p rs sn x data cks cf seg clo fss ft Hnames Hlook Hm Hck Hdst Hacks Hk) (only parsing).
Local Notation sh7ack := (sh7_ack cs cd p rs data cf seg fss ft Hm Hdst Hsrc Hdstr Hk) (only parsing).
Local Notation sh8fin := (sh8_fin cs cd p rs cf ft Hm Hdst Hsrc Hdstr Hk) (only parsing).
Local Notation dhEnone := (dhE_none cd rs rd x data cks cf clo ft Hck2 Hfind Hackd Hk) (only parsing).
Local Notation dhWack := (dhW_ack cd rs rd x data cks cf clo ft Hrem Hk) (only parsing).
Local Notation tS1 := (t_S1 cs cd p rs rd x data cks cf seg tick clo fss ft Hm Hck2 Hfins Hfind Hrem Hdst Hackd Hsrc Hdstr Hk) (only parsing).
Local Notation tS2 := (t_S2 cs cd p rs rd x data cks cf tick clo ft Hm Hfins Hrem Hdst Hsrc Hdstr Hk) (only parsing).
Local Notation tS3 fs Hl := (t_S3 cs cd p rs x data cf tick ft Hfins Hk fs Hl) (only parsing).
Local Notation daeof := (da_eof cd rs rd x data cks cf clo ft Hrem Hk) (only parsing).
Local Notation dafill := (da_fd_fill cd rs rd x data cf clo ft Hrem Hk) (only parsing).
Local Notation dafdin := (da_fd_in cd rs rd x data cf clo ft Hrem Hk) (only parsing).
Local Notation L7 := (l7 cs cd p rs x data cf seg tick ft Hfins Hk) (only parsing).
Local Notation BIA := (BusyP_IA cs p rs data cf seg clo fss) (only parsing).
Ltac fo := repeat (first [apply Forall_nil | apply Forall_cons; [reflexivity|]]).
Ltac zl := unfold zlen; cbn [length]; lia.

Lemma tl_pos_b : forall off, 0 <= off < fsz -> 0 < zlen (tl' off) /\ zlen (tl' off) = Z.min seg (fsz - off).
Proof. intros off H. pose proof (tl_len_k data seg Hseg off H). lia. Qed.
Lemma onw_fd : forall off, 0 <= off < fsz -> Forall onw [fdP off].
Proof.
  intros off H. apply Forall_cons; [|apply Forall_nil]. unfold onw. destruct (tl_pos_b off H) as [Hp _].
  destruct (tl' off); [change (zlen (@nil Z)) with 0 in Hp; lia | reflexivity].
Qed.

(* ---- the sender: a NAK while File Data is sent - the requested tile is retransmitted, the next call resumes the stream *)
Lemma IR_bt : forall off s, InvRx off s -> s_state s = ST_BUSY /\ q_tid (s_p s) = Some tid.
Proof. intros off s [HI _]. exact (IA_bt cs p rs data cf seg clo fss off _ HI). Qed.
Lemma BusyP_IR : forall off, BusyP (InvRx off). Proof. intros off s H. exact (proj1 (IR_bt _ _ H)). Qed.

Lemma sh_nak_mid : forall off a e, off < fsz -> 0 <= a -> nxt' a <= off ->
  SH' (InvAx off) [nakJ a (nxt' a) e] (InvRx off) [fdP a] true.
Proof.
  intros off a e Hlt Ha Hb. apply SH_of_SA.
  assert (Hr : forall s, InvAx off s -> 0 <= off <= fsz) by (intros s HI; exact (InvA_range _ _ _ _ _ _ _ _ _ _ _ HI)).
  apply (SA_cons cf ft Hk _ _ (InvRx off) [fdP a] [] _ []); [| |intros s H; left; exact (IR_bt _ _ H)|apply SA_nil].
  - intros s HI. split; [exact (proj1 (IA_bt cs p rs data cf seg clo fss off s HI))|].
    destruct (step_nak_mid cs p rs fss data cf seg clo tid sn [x] Hnames Hlook Hsn Hseg Hm Hsrc Hdstr off s 0 e a (nxt' a) HI Hlt Ha eq_refl Hb)
      as (s' & P & HR).
    rewrite (nak_eq cd cf Hm Hdst), (tile_eq cd data cf seg Hm Hdst) in P. exists s'. split; assumption.
  - apply onw_fd. lia.
Qed.
Lemma sh_resume : forall off, 0 <= off < fsz -> SH' (InvRx off) [] (InvAx (nxt' off)) [fdP off] true.
Proof.
  intros off Hlt s HR.
  destruct (step_resume cs p rs fss data cf seg clo tid sn [x] Hnames Hlook Hseg Hm off s HR ltac:(lia)) as (s' & P & HI).
  rewrite (tile_eq cd data cf seg Hm Hdst) in P.
  exists s'. split; [exact HI|].
  rewrite <- (act_t s s' [fdP off]) by reflexivity.
  apply (SHalf_none ft tid Hk); [exact P|apply onw_fd; exact Hlt|left; exact (proj1 (IR_bt _ _ HR))|left; exact (IA_bt cs p rs data cf seg clo fss _ _ HI)].
Qed.

(* ---- the receiver *)
Lemma da_fd_gap_imm : forall a b ls dt fs lg old, lookup fs [x] = Some (File old) -> 0 < zlen dt -> a < b -> r_imm_nak rd = true ->
  DA' [PFileData hRA' b dt] (DRx a [] ls a fs lg)
    (DRx (b + zlen dt) [(a, b)] b (b + zlen dt) (set_node fs [x] (File (write_at old b dt))) (lgS b (zlen dt) lg)) [nakJ a b (b + zlen dt)].
Proof.
  intros a b ls dt fs lg old Hl Hpos Hab Hi.
  pose proof (sm_fd_gap_imm cd rd x (sc_crc cf) (sc_large cf) clo (sc_src cf) (sc_srcw cf) (sc_seq cf) (sc_seqw cf)
                (r_cktype rs) fsz Hrem a b ls dt fs lg old Hl Hpos Hab Hi) as Hsm.
  rewrite Z.max_l in Hsm by lia. change [nakJ a b (b + zlen dt)] with ([nakJ a b (b + zlen dt)] ++ []).
  eapply (DAll_ok ft tid Hk _ _ _ _ _ [nakJ a b (b + zlen dt)]); [split; reflexivity | exact Hsm | reflexivity | fo | left; split; reflexivity |].
  apply DAll_nil.
Qed.
Lemma da_fd_old : forall a prog ls dt fs lg old, lookup fs [x] = Some (File old) -> 0 < zlen dt -> a + zlen dt <= ls -> a + zlen dt <= prog ->
  DA' [PFileData hRA' a dt] (DRx prog [] ls prog fs lg)
    (DRx prog [] ls prog (set_node fs [x] (File (write_at old a dt))) (lgS a (zlen dt) lg)) [].
Proof.
  intros a prog ls dt fs lg old Hl Hpos Hls Hle.
  pose proof (sm_fd_old cd rd x (sc_crc cf) (sc_large cf) clo (sc_src cf) (sc_srcw cf) (sc_seq cf) (sc_seqw cf)
                (r_cktype rs) fsz Hrem a prog ls dt fs lg old Hl Hpos Hls Hle) as Hsm.
  rewrite Z.max_r in Hsm by lia. change (@nil pdu) with (@nil pdu ++ []) at 2.
  eapply (DAll_ok ft tid Hk _ _ _ _ _ []); [split; reflexivity | exact Hsm | reflexivity | fo | left; split; reflexivity |].
  apply DAll_nil.
Qed.
Lemma da_re_fd : forall off dt nwd ls fs lg, lookup fs [x] = Some (File data) ->
  DA' [PFileData hRA' off dt] (REx nwd 0 [] cks ls fs lg) (RWx nwd nwd 0 0 [] cks ls fs (evF :: lg)) [finP'].
Proof.
  intros off dt nwd ls fs lg Hl. change [finP'] with ([finP'] ++ []).
  eapply (DAll_ok ft tid Hk _ _ _ _ (RWx nwd nwd 0 0 [] cks ls fs (evF :: lg)) [finP']);
    [split; reflexivity
    | exact (sm_fd_re cd rd x _ _ clo _ _ _ _ (r_cktype rs) fsz Hrem Hfind Hackd nwd cks ls off dt fs lg data Hl Hck2)
    | reflexivity | fo | left; split; reflexivity |].
  apply DAll_nil.
Qed.
Lemma da_rw_fd : forall off dt nwd td kd ls fs lg, nwd - td < r_ack_ms rd ->
  DA' [PFileData hRA' off dt] (RWx nwd td kd 0 [] cks ls fs lg) (RWx nwd td kd 0 [] cks ls fs lg) [].
Proof.
  intros off dt nwd td kd ls fs lg Hlt. change (@nil pdu) with (@nil pdu ++ []) at 3.
  eapply (DAll_ok ft tid Hk _ _ _ _ (RWx nwd td kd 0 [] cks ls fs lg) []);
    [split; reflexivity | exact (sm_fd_rw cd rd x _ _ clo _ _ _ _ (r_cktype rs) fsz Hrem nwd td kd cks ls off dt fs lg Hlt)
    | reflexivity | fo | left; split; reflexivity |].
  apply DAll_nil.
Qed.

(* writing a tile of the file again into a prefix of the file that already holds it *)
Lemma write_old : forall a off, 0 <= a < fsz -> nxt' a <= off <= fsz -> write_at (ztake off data) a (tl' a) = ztake off data.
Proof.
  intros a off Ha Ho. destruct (tl_pos_b a Ha) as [Hp Htl].
  assert (Hne : tl' a <> []) by (intro E; rewrite E in Hp; change (zlen (@nil Z)) with 0 in Hp; lia).
  set (b := nxt' a) in *.
  assert (E : ztake off data = ztake a data ++ tl' a ++ ztake (off - b) (zdrop b data)).
  { replace off with (b + (off - b)) at 1 by lia. rewrite ztake_add by lia. unfold read_at.
    replace b with (a + Z.min seg (fsz - a)) at 1 by reflexivity. rewrite ztake_add by lia. unfold read_at.
    rewrite ztake_min by lia. rewrite <- app_assoc. reflexivity. }
  assert (Hoa : zlen (ztake a data) = a) by (rewrite zlen_ztake by lia; lia).
  pose proof (write_mid (ztake a data) (tl' a) (ztake (off - b) (zdrop b data)) (tl' a) Hne eq_refl) as Hw.
  rewrite Hoa in Hw. rewrite E. exact Hw.
Qed.

Lemma da_rw_ack : forall st nwd td kd ls fs lg,
  DA' [PAck hRA' D_FINISHED C_NO_ERROR st] (RWx nwd td kd 0 [] cks ls fs lg) (RFx nwd fs lg) [].
Proof.
  intros. change (@nil pdu) with (@nil pdu ++ []) at 2.
  eapply (DAll_ok ft tid Hk _ _ _ _ (RFx nwd fs lg) []);
    [split; reflexivity | exact (Ld_ack_fin cd rs rd x data cks cf clo Hrem st nwd td kd ls fs lg) | reflexivity | fo | right; reflexivity |].
  apply DAll_nil.
Qed.

(* ---- the run once the receiver has everything up to [off] in order, the late copy of the tile at [a] still held back *)
Section PathO.
Variables (a rel : Z).
Hypothesis Ha : 0 <= a < fsz.
Local Notation e := (rel, 0, fdP a).
Local Notation B := (nxt' a).
Ltac nqb := left; first [exact (BIA _) | exact (BusyP_T8 cs p rs cf) | exact (BusyP_T9 cs p rs cf) | exact (BusyP_T7x cs p rs data cf seg fss)
                        | exact (BusyP_T7 cs p rs data cf seg fss _ _ _)].

Lemma old_ok : forall off ls fs lg, lookup fs [x] = Some (File (ztake off data)) -> B <= ls -> B <= off <= fsz ->
  DA' [fdP a] (DRx off [] ls off fs lg)
      (DRx off [] ls off (set_node fs [x] (File (write_at (ztake off data) a (tl' a)))) (lgS a (zlen (tl' a)) lg)) [] /\
  lookup (set_node fs [x] (File (write_at (ztake off data) a (tl' a)))) [x] = Some (File (ztake off data)).
Proof.
  intros off ls fs lg Hl Hls Ho. destruct (tl_pos_b a Ha) as [Hp Htl]. split.
  - apply da_fd_old; [exact Hl|exact Hp|lia|lia].
  - rewrite lookup_set_node by discriminate. rewrite path_eqb_refl. f_equal. f_equal. apply write_old; [exact Ha|lia].
Qed.

Lemma o_S2 : forall ls fs lg nwd c1 c2 rnd y, lookup fs [x] = Some (File data) -> clean lg -> NH' 0 c1 -> NH' 1 c2 ->
  St' T8 (RWx nwd nwd 0 0 [] cks ls fs (evF :: lg)) [finP'] c1 c2 [e] rnd y -> fin' y.
Proof.
  intros ls fs lg nwd c1 c2 rnd y Hl Hc N0 N1 H. destruct (Z_le_gt_dec rel (rnd + 1)) as [Hle|Hgt].
  - destruct (rel_now0 (rnd + 1) rel (fdP a) Hle) as (E0 & E1 & Ek).
    eapply kstep; [exact N0|exact N1|exact H|rewrite E1; reflexivity|exact sh8fin|rewrite E0; reflexivity
                  |apply DHalf_list; exact (DAll_app cf ft [fdP a] [ackFG'] _ _ _ [] []
                                              (da_rw_fd _ _ _ _ _ _ _ _ ltac:(rewrite Z.sub_diag; exact Hackd)) (da_rw_ack TS_ACTIVE _ _ _ _ _ _))
                  |exact Ek|reflexivity|reflexivity|reflexivity|nqb|].
    intros y1 N0' N1' H1. exact (tS3 fs Hl lg nwd _ _ _ y1 Hc N0' N1' H1).
  - destruct (rel_hold (rnd + 1) rel 0 (fdP a) ltac:(lia)) as (E0 & E1 & Ek).
    eapply kstep; [exact N0|exact N1|exact H|rewrite E1; reflexivity|exact sh8fin|rewrite E0; reflexivity
                  |exact (dhWack TS_ACTIVE _ _ _ _ _ _)|exact Ek|reflexivity|reflexivity|reflexivity|nqb|].
    intros y1 N0' N1' H1. exact (L7 a rel fs Hl lg nwd _ _ _ y1 Hc N0' N1' H1).
Qed.

Lemma o_S1 : forall ls fs lg nw t0 k nwd c1 c2 rnd y, lookup fs [x] = Some (File data) -> clean lg -> NH' 0 c1 -> NH' 1 c2 ->
  St' (T7 nw t0 k) (REx nwd 0 [] cks ls fs lg) [ackE'] c1 c2 [e] rnd y -> fin' y.
Proof.
  intros ls fs lg nw t0 k nwd c1 c2 rnd y Hl Hc N0 N1 H. destruct (Z_le_gt_dec rel (rnd + 1)) as [Hle|Hgt].
  - destruct (rel_now0 (rnd + 1) rel (fdP a) Hle) as (E0 & E1 & Ek).
    eapply kstep; [exact N0|exact N1|exact H|rewrite E1; reflexivity|exact (sh7ack _ _ _)|rewrite E0; reflexivity
                  |apply DHalf_list; exact (da_re_fd _ _ _ _ _ _ Hl)|exact Ek|reflexivity|reflexivity|reflexivity|nqb|].
    intros y1 N0' N1' H1. exact (tS2 ls fs Hl lg nwd nwd 0 _ _ _ y1 Hc N0' N1' H1).
  - destruct (rel_hold (rnd + 1) rel 0 (fdP a) ltac:(lia)) as (E0 & E1 & Ek).
    eapply kstep; [exact N0|exact N1|exact H|rewrite E1; reflexivity|exact (sh7ack _ _ _)|rewrite E0; reflexivity
                  |exact (dhEnone _ _ _ _ Hl)|exact Ek|reflexivity|reflexivity|reflexivity|nqb|].
    intros y1 N0' N1' H1. exact (o_S2 ls fs lg nwd _ _ _ y1 Hl Hc N0' N1' H1).
Qed.

Lemma o_loop0 : forall m off ls fs lg c1 c2 rnd y, (Z.to_nat (fsz - off) <= m)%nat -> 0 <= off <= fsz ->
  St' (InvAx off) (DRx off [] ls off fs lg) [] c1 c2 [] rnd y ->
  lookup fs [x] = Some (File (ztake off data)) -> clean lg -> NH' 0 c1 -> NH' 1 c2 -> fin' y.
Proof.
  induction m as [|m IH]; intros off ls fs lg c1 c2 rnd y Hmm Ho H Hl Hc N0 N1;
    (destruct (Z_lt_le_dec off fsz) as [Hlt|Hge];
     [| assert (Eo : off = fsz) by lia; subst off; rewrite ztake_all in Hl;
        change (DRx fsz [] ls fsz fs lg) with (RAx 0 ls fs lg) in H;
        eapply kstep; [exact N0|exact N1|exact H|reflexivity|exact shfinal|reflexivity
                      |apply DHalf_list; exact (daeof 0 ls fs lg)|reflexivity|reflexivity|reflexivity|reflexivity|nqb|];
        intros y1 N0' N1' H1; destruct (St_ex cf ft _ _ _ _ _ _ _ _ _ H1) as [nw H2];
        exact (tS1 ls fs Hl (eofr ++ lg) nw nw 0 0 _ _ _ y1 (clean_eofr_k cd cf lg Hc) N0' N1' H2) ]).
  - exfalso. lia.
  - destruct (tl_pos_b off ltac:(lia)) as [Hp Htl].
    eapply kstep; [exact N0|exact N1|exact H|reflexivity|exact (shfd off Hlt)|reflexivity
                  |apply DHalf_list; exact (dafdin off [] ls (tl' off) fs lg _ Hl Hp)|reflexivity|reflexivity|reflexivity|reflexivity|nqb|].
    intros y1 N0' N1' H1. rewrite Htl in H1.
    apply (IH (nxt' off) off _ _ _ _ _ y1 ltac:(lia) ltac:(lia) H1); [|apply clean_S; exact Hc|exact N0'|exact N1'].
    rewrite lookup_set_node by discriminate. rewrite path_eqb_refl. f_equal. f_equal. apply write_append; lia.
Qed.

Lemma o_loop : forall m off ls fs lg c1 c2 rnd y, (Z.to_nat (fsz - off) <= m)%nat -> B <= off <= fsz -> B <= ls ->
  St' (InvAx off) (DRx off [] ls off fs lg) [] c1 c2 [e] rnd y ->
  lookup fs [x] = Some (File (ztake off data)) -> clean lg -> NH' 0 c1 -> NH' 1 c2 -> fin' y.
Proof.
  destruct (tl_pos_b a Ha) as [Hpa Htla].
  induction m as [|m IH]; intros off ls fs lg c1 c2 rnd y Hmm Ho Hls H Hl Hc N0 N1;
    (destruct (Z_lt_le_dec off fsz) as [Hlt|Hge];
     [| assert (Eo : off = fsz) by lia; subst off;
        destruct (old_ok fsz ls fs lg Hl Hls ltac:(lia)) as [HA Hl'];
        pose proof (eq_trans Hl' (f_equal (fun z => Some (File z)) (ztake_all data))) as Hl2;
        rewrite ztake_all in Hl;
        destruct (Z_le_gt_dec rel (rnd + 1)) as [Hle|Hgt];
        [ destruct (rel_now0 (rnd + 1) rel (fdP a) Hle) as (E0 & E1 & Ek);
          eapply kstep; [exact N0|exact N1|exact H|rewrite E1; reflexivity|exact shfinal|rewrite E0; reflexivity
                        |apply DHalf_list; exact (DAll_app cf ft [fdP a] [eofG'] _ _ _ [] [ackE'] HA (daeof 0 ls _ _))
                        |exact Ek|reflexivity|reflexivity|reflexivity|nqb|];
          intros y1 N0' N1' H1; destruct (St_ex cf ft _ _ _ _ _ _ _ _ _ H1) as [nw H2];
          exact (tS1 ls _ Hl2 _ nw nw 0 0 _ _ _ y1 (clean_eofr_k cd cf _ (clean_S cd cf _ _ lg Hc)) N0' N1' H2)
        | destruct (rel_hold (rnd + 1) rel 0 (fdP a) ltac:(lia)) as (E0 & E1 & Ek);
          change (DRx fsz [] ls fsz fs lg) with (RAx 0 ls fs lg) in H;
          eapply kstep; [exact N0|exact N1|exact H|rewrite E1; reflexivity|exact shfinal|rewrite E0; reflexivity
                        |apply DHalf_list; exact (daeof 0 ls fs lg)|exact Ek|reflexivity|reflexivity|reflexivity|nqb|];
          intros y1 N0' N1' H1; destruct (St_ex cf ft _ _ _ _ _ _ _ _ _ H1) as [nw H2];
          exact (o_S1 ls fs (eofr ++ lg) nw nw 0 0 _ _ _ y1 Hl (clean_eofr_k cd cf lg Hc) N0' N1' H2) ] ]).
  - exfalso. lia.
  - destruct (tl_pos_b off ltac:(lia)) as [Hp Htl].
    destruct (Z_le_gt_dec rel (rnd + 1)) as [Hle|Hgt].
    + destruct (rel_now0 (rnd + 1) rel (fdP a) Hle) as (E0 & E1 & Ek).
      destruct (old_ok off ls fs lg Hl Hls ltac:(lia)) as [HA Hl'].
      eapply kstep; [exact N0|exact N1|exact H|rewrite E1; reflexivity|exact (shfd off Hlt)|rewrite E0; reflexivity
                    |apply DHalf_list; exact (DAll_app cf ft [fdP a] [fdP off] _ _ _ [] [] HA (dafdin off [] ls (tl' off) _ _ _ Hl' Hp))
                    |exact Ek|reflexivity|reflexivity|reflexivity|nqb|].
      intros y1 N0' N1' H1. rewrite Htl in H1.
      apply (o_loop0 (Z.to_nat (fsz - nxt' off)) (nxt' off) off _ _ _ _ _ y1 (le_n _) ltac:(lia) H1);
        [|apply clean_S; apply clean_S; exact Hc|exact N0'|exact N1'].
      rewrite lookup_set_node by discriminate. rewrite path_eqb_refl. f_equal. f_equal. apply write_append; lia.
    + destruct (rel_hold (rnd + 1) rel 0 (fdP a) ltac:(lia)) as (E0 & E1 & Ek).
      eapply kstep; [exact N0|exact N1|exact H|rewrite E1; reflexivity|exact (shfd off Hlt)|rewrite E0; reflexivity
                    |apply DHalf_list; exact (dafdin off [] ls (tl' off) fs lg _ Hl Hp)|exact Ek|reflexivity|reflexivity|reflexivity|nqb|].
      intros y1 N0' N1' H1. rewrite Htl in H1.
      apply (IH (nxt' off) off _ _ _ _ _ y1 ltac:(lia) ltac:(lia) ltac:(lia) H1); [|apply clean_S; exact Hc|exact N0'|exact N1'].
      rewrite lookup_set_node by discriminate. rewrite path_eqb_refl. f_equal. f_equal. apply write_append; lia.
Qed.
End PathO.

(* the File Data PDU number j + 1 is held back for at least two rounds; at least two File Data PDUs follow it *)
Lemma sh_nak_mid' : forall off a b e, off < fsz -> 0 <= a -> b = nxt' a -> b <= off ->
  SH' (InvAx off) [nakJ a b e] (InvRx off) [fdP a] true.
Proof. intros off a b e H1 H2 -> H3. exact (sh_nak_mid off a e H1 H2 H3). Qed.
Lemma dafill' : forall a b prog ls fs lg old, lookup fs [x] = Some (File old) -> 0 <= a < fsz -> b = nxt' a -> b <= ls -> b <= prog ->
  DA' [fdP a] (DRx prog [(a, b)] ls prog fs lg)
    (DRx prog [] ls prog (set_node fs [x] (File (write_at old a (tl' a)))) (lgS a (zlen (tl' a)) lg)) [].
Proof.
  intros a b prog ls fs lg old Hl Ha -> Hls Hp. destruct (tl_pos_b a Ha) as [Hpa Htla].
  rewrite <- Htla at 1. apply dafill; [exact Hl|exact Hpa|lia|lia].
Qed.

(* a File Data PDU (offset a, counter c1) is held back for at least two rounds; at least two File Data PDUs (offsets b, c) follow it *)
Lemma fd_imm_core : forall a b c c1 y, 0 <= a -> nxt' a = b -> nxt' b = c -> a < b -> b < c -> c < fsz ->
  SPK cs cd p rs rd x data cf seg clo fss ft a c1 y -> hit ft 0 c1 = true ->
  NH' 0 (c1 + 1) -> NH' 1 0 -> 2 <= ft_arg ft -> r_imm_nak rd = true -> fin' y.
Proof.
  intros a b c c1 y Ha0' Eab Ebc Hab Hbc Hcf (rnd & ls & fs & lg & Er & H & Hl & Hc) Hh N0 N1 Hd Himm. subst rnd.
  assert (Ha0 : 0 <= a < fsz) by lia. assert (Hb0 : 0 <= b < fsz) by lia. assert (Hc0 : 0 <= c < fsz) by lia.
  destruct (tl_pos_b a Ha0) as [Hpa Htla]. destruct (tl_pos_b b Hb0) as [Hpb Htlb]. destruct (tl_pos_b c Hc0) as [Hpc Htlc].
  change (DAx a ls a fs lg) with (DRx a [] ls a fs lg) in H.
  edestruct (St_round cf ft) as (y1 & a1 & R & H1 & Ha1);
    [exact H | reflexivity | exact (shfd a ltac:(lia)) | cbn [rel0 app surv]; rewrite Hh; reflexivity
    | exact (dhR_none cd rs rd x data cf clo ft Hk a [] ls a fs lg)
    | reflexivity | cbn [kept held app]; rewrite Hh; reflexivity |].
  cbn [orb] in Ha1. cbn [surv app] in H1.
  apply (fin_step cd x data cf tick ft y y1 a1 _ _ _ _ _ _ _ R Ha1 H1 (or_introl (BIA _))).
  pose proof (St_cnt cf ft _ _ _ _ _ (c1 + 1) 0 _ _ _ H1 ltac:(zl) ltac:(zl)) as H2. clear H1 H R Ha1.
  rewrite Eab in H2.
  remember (c1 + 1 + ft_arg ft) as rel eqn:Erel.
  (* the next File Data PDU reveals the gap: NAK *)
  destruct (rel_hold (c1 + 1 + 1) rel 0 (fdP a) ltac:(lia)) as (E0 & E1 & Ek).
  eapply kstep; [exact N0|exact N1|exact H2|rewrite E1; reflexivity|exact (shfd b ltac:(lia))|rewrite E0; reflexivity
                |apply DHalf_list; exact (da_fd_gap_imm a b ls (tl' b) fs lg _ Hl Hpb Hab Himm)
                |exact Ek|reflexivity|reflexivity|reflexivity|left; exact (BIA _)|].
  clear E0 E1 Ek H2. intros y2 N02 N12 H3. rewrite Htlb, Ebc in H3.
  assert (Hl1 : lookup (set_node fs [x] (File (write_at (ztake a data) b (tl' b)))) [x] = Some (File (holed data a b c))).
  { rewrite lookup_set_node by discriminate. rewrite path_eqb_refl. f_equal. f_equal. rewrite <- Ebc, <- Htlb.
    apply (hole_make data seg a b Hseg); lia. }
  remember (set_node fs [x] (File (write_at (ztake a data) b (tl' b)))) as fs1 eqn:Efs1.
  assert (Hc1 : clean (lgS b (Z.min seg (fsz - b)) lg)) by (apply clean_S; exact Hc).
  remember (lgS b (Z.min seg (fsz - b)) lg) as lg1 eqn:Elg1.
  (* the sender retransmits the tile; it fills the gap *)
  pose proof (dafill' a b c b fs1 lg1 _ Hl1 Ha0 (eq_sym Eab) ltac:(lia) ltac:(lia)) as HF.
  assert (Hl2 : lookup (set_node fs1 [x] (File (write_at (holed data a b c) a (tl' a)))) [x] = Some (File (ztake c data))).
  { rewrite lookup_set_node by discriminate. rewrite path_eqb_refl. f_equal. f_equal.
    apply (hole_fill data seg a b c Hseg); lia. }
  remember (set_node fs1 [x] (File (write_at (holed data a b c) a (tl' a)))) as fs2 eqn:Efs2.
  assert (Hc2' : clean (lgS a (zlen (tl' a)) lg1)) by (apply clean_S; exact Hc1).
  remember (lgS a (zlen (tl' a)) lg1) as lg2 eqn:Elg2.
  destruct (Z_le_gt_dec rel (c1 + 1 + 1 + 1)) as [Hle|Hgt].
  - (* the late original arrives in the same round, before the retransmitted copy *)
    destruct (rel_now0 (c1 + 1 + 1 + 1) rel (fdP a) Hle) as (E0 & E1 & Ek).
    destruct (old_ok a Ha0 c b fs2 lg2 Hl2 ltac:(lia) ltac:(lia)) as [HA Hl3].
    eapply kstep; [exact N02|exact N12|exact H3|rewrite E1; reflexivity|exact (sh_nak_mid' c a b _ Hcf Ha0' (eq_sym Eab) ltac:(lia))|rewrite E0; reflexivity
                  |apply DHalf_list; exact (DAll_app cf ft [fdP a] [fdP a] _ _ _ [] [] HF HA)
                  |exact Ek|reflexivity|reflexivity|reflexivity|left; exact (BusyP_IR _)|].
    intros y3 N03 N13 H4.
    eapply kstep; [exact N03|exact N13|exact H4|reflexivity|exact (sh_resume c Hc0)|reflexivity
                  |apply DHalf_list; exact (dafdin c [] b (tl' c) _ _ _ Hl3 Hpc)|reflexivity|reflexivity|reflexivity|reflexivity|left; exact (BIA _)|].
    intros y4 N04 N14 H5. rewrite Htlc in H5.
    eapply (o_loop0 a Ha0); [apply le_n| |exact H5| |repeat apply clean_S; exact Hc2'|exact N04|exact N14]; [lia|].
    rewrite lookup_set_node by discriminate. rewrite path_eqb_refl. f_equal. f_equal. apply write_append; lia.
  - destruct (rel_hold (c1 + 1 + 1 + 1) rel 0 (fdP a) ltac:(lia)) as (E0 & E1 & Ek).
    eapply kstep; [exact N02|exact N12|exact H3|rewrite E1; reflexivity|exact (sh_nak_mid' c a b _ Hcf Ha0' (eq_sym Eab) ltac:(lia))|rewrite E0; reflexivity
                  |apply DHalf_list; exact HF|exact Ek|reflexivity|reflexivity|reflexivity|left; exact (BusyP_IR _)|].
    clear E0 E1 Ek H3. intros y3 N03 N13 H4.
    (* the sender resumes the stream; the late original is a copy of what the receiver has *)
    destruct (Z_le_gt_dec rel (c1 + 1 + 1 + 1 + 1)) as [Hle2|Hgt2].
    + destruct (rel_now0 (c1 + 1 + 1 + 1 + 1) rel (fdP a) Hle2) as (E0 & E1 & Ek).
      destruct (old_ok a Ha0 c b fs2 lg2 Hl2 ltac:(lia) ltac:(lia)) as [HA Hl3].
      eapply kstep; [exact N03|exact N13|exact H4|rewrite E1; reflexivity|exact (sh_resume c Hc0)|rewrite E0; reflexivity
                    |apply DHalf_list; exact (DAll_app cf ft [fdP a] [fdP c] _ _ _ [] [] HA (dafdin c [] b (tl' c) _ _ _ Hl3 Hpc))
                    |exact Ek|reflexivity|reflexivity|reflexivity|left; exact (BIA _)|].
      intros y4 N04 N14 H5. rewrite Htlc in H5.
      eapply (o_loop0 a Ha0); [apply le_n| |exact H5| |repeat apply clean_S; exact Hc2'|exact N04|exact N14]; [lia|].
      rewrite lookup_set_node by discriminate. rewrite path_eqb_refl. f_equal. f_equal. apply write_append; lia.
    + destruct (rel_hold (c1 + 1 + 1 + 1 + 1) rel 0 (fdP a) ltac:(lia)) as (E0 & E1 & Ek).
      eapply kstep; [exact N03|exact N13|exact H4|rewrite E1; reflexivity|exact (sh_resume c Hc0)|rewrite E0; reflexivity
                    |apply DHalf_list; exact (dafdin c [] b (tl' c) fs2 lg2 _ Hl2 Hpc)
                    |exact Ek|reflexivity|reflexivity|reflexivity|left; exact (BIA _)|].
      intros y4 N04 N14 H5. rewrite Htlc in H5.
      apply (o_loop a rel Ha0 (Z.to_nat (fsz - nxt' c)) (nxt' c) c _ _ _ _ _ y4 (le_n _) ltac:(lia) ltac:(lia) H5); [|apply clean_S; exact Hc2'|exact N04|exact N14].
      rewrite lookup_set_node by discriminate. rewrite path_eqb_refl. f_equal. f_equal. apply write_append; lia.
Qed.

Lemma main_fd_imm : forall s1 s3 k d,
  pump s1 = (s3, Ok [PMetadata (hdr_of cf TOWARDS_RECEIVER) clo (r_cktype rs) fsz (Some (sn, [x])) []]) ->
  InvAx 0 s3 -> ft = mkFault 0 k 2 d -> 1 <= k <= nfd' - 2 -> 2 <= d -> r_imm_nak rd = true ->
  fin' (ZD ft [] s1 (dst_init cd) [] [] 0 0 [] 0 None None [] []).
Proof.
  intros s1 s3 k d P HI E Hk1 Hd Himm.
  pose proof (nfd_spec data seg Hseg) as HN. assert (HL : 0 <= fsz) by (unfold zlen; lia).
  assert (Hh : forall c, hit ft 0 c = (k =? c)) by (intro c; rewrite E; apply hit_k00).
  destruct (round_md_k cs cd p rs rd sn x data cf seg tick clo fss ft Hm Hrem Hdst Hk s1 s3 P HI
              ltac:(rewrite Hh; apply Z.eqb_neq; lia)) as (y1 & R1 & H1).
  apply (fin_reach cd x data cf tick ft [] _ y1 R1).
  assert (Hc : (k + 1) * seg < fsz) by (unfold nfd in *; nia).
  assert (Hlt : (k - 1) * seg < fsz) by nia.
  destruct (prefix_upto cs cd p rs rd sn x data cf seg tick clo fss ft Hnames Hlook Hseg Hm Hrem Hdst Hackd Hk
              (Z.to_nat (k - 1)) 0 y1 ltac:(lia) ltac:(rewrite Z.mul_0_l, Z.min_l by lia; exact H1)
              ltac:(intros c Hc'; rewrite Hh; apply Z.eqb_neq; lia)
              ltac:(destruct (Z.eq_dec k 1) as [->|?]; [right; reflexivity|left; nia])) as (y2 & R2 & H2).
  apply (fin_reach cd x data cf tick ft [] y1 y2 R2).
  replace (0 + Z.of_nat (Z.to_nat (k - 1))) with (k - 1) in H2 by lia. rewrite Z.min_l in H2 by lia.
  replace (k - 1 + 1) with k in H2 by lia.
  apply (fd_imm_core ((k - 1) * seg) (k * seg) ((k + 1) * seg) k y2); try nia; try exact H2.
  - rewrite Hh. apply Z.eqb_eq. reflexivity.
  - intros c Hc'. rewrite Hh. apply Z.eqb_neq. lia.
  - intros c Hc'. rewrite E. apply hit_k01.
  - rewrite E. exact Hd.
  - exact Himm.
Qed.
End SysB.

(* ================================================================== *)
(* 6. property C03, K = 1: a File Data PDU held back for two or more rounds, immediate NAK mode *)
(* ================================================================== *)
Lemma single_delay_file_data_imm :
  forall (cs cd : lcfg) (seq0 bits : Z) (p : putreq) (rs rd : rcfg) (sn dn : path) (data : bytes) (tick k d : Z) (ft : fault),
  let w := Z.max (l_idw cs) (pr_dstw p) in
  let large := 4294967295 <? zlen data in
  let derived := r_max_packet rs - (4 + 2 * w + bits / 8) - (if large then 8 else 4) - (if r_crc rs then 2 else 0) in
  let seg := match r_max_seg rs with Some m => Z.min m derived | None => derived end in
  get_remote (l_remotes cs) (pr_dst p) = Some rs ->
  pr_names p = Some (sn, dn) -> sn <> [] -> dn <> [] -> pr_msgs p = None ->
  (match pr_mode p with Some m => m | None => r_mode rs end) = ACKED ->
  let n := (zlen data + seg - 1) / seg in
  ft = mkFault 0 k 2 d -> 1 <= k <= n - 2 -> 2 <= d -> r_imm_nak rd = true ->
  0 < r_ack_ms rs -> 0 < r_ack_ms rd ->
  (bits = 8 \/ bits = 16 \/ bits = 32) -> 0 <= seq0 < 2 ^ bits -> 1 <= seg -> 6 <= derived ->
  (r_cktype rs = CK_CRC32 \/ r_cktype rs = CK_CRC32C \/ r_cktype rs = CK_NULL \/ r_cktype rs = CK_MODULAR) ->
  bytes_ok data = true ->
  l_id cd = pr_dst p -> get_remote (l_remotes cd) (l_id cs) = Some rd -> length dn = 1%nat ->
  get_fault_handler (l_faults cd) C_CHECKSUM_FAILURE <> None ->
  l_ind_fin cs = true -> l_ind_fin cd = true ->
  exists fuel,
    let res := transfer cs cd seq0 bits p sn data [ft] fuel tick in
    delivered_ok dn data res = true /\ y_errs (fst res) = [] /\ fault_free_ok dn data res = true.
Proof.
  intros cs cd seq0 bits p rs rd sn dn data tick k d ft w large derived seg
         Hrs Hn Hsn Hdn Hmsgs Hmode n Hft Hk1 Hd Himm Hacks Hackd Hbits Hseq Hseg Hd6 Hck Hbytes Hid Hrd Hlen
         Hfh Hfs Hfd.
  destruct dn as [|x [|x' dn']]; try discriminate Hlen.
  set (fss := [(sn, File data)]).
  assert (Hlook : lookup fss sn = Some (File data)).
  { destruct sn as [|a sn']; [contradiction|]. unfold fss. cbn [lookup lookup_raw].
    rewrite path_eqb_refl. reflexivity. }
  destruct (ck_agree (r_cktype rs) data seg Hck Hseg) as (cks & C1 & C2).
  set (cf := mkSconf (l_id cs) w (pr_dst p) w seq0 (bits / 8) ACKED large (r_crc rs)).
  set (clo := match pr_closure p with Some b => b | None => r_closure rs end).
  destruct (first_call_a cs seq0 bits fss p rs sn [x] data Hrs Hn Hlook Hmode Hbits Hseq Hseg Hd6)
    as (s1 & s3 & P1 & P2 & HI).
  rewrite Hmsgs in P2.
  assert (Hdst : sc_dst cf = l_id cd) by (symmetry; exact Hid).
  assert (Hdstr : sc_dst cf = r_id rs) by (symmetry; exact (get_remote_id _ _ _ Hrs)).
  assert (Hk : ft_kind ft = 2) by (rewrite Hft; reflexivity).
  destruct (main_fd_imm cs cd p rs rd sn x data cks cf seg tick clo fss ft Hn Hlook Hsn Hseg eq_refl C1 C2 Hfs Hfd Hrd Hdst
              Hacks Hackd eq_refl Hdstr Hk s1 s3 k d P2 HI Hft Hk1 Hd Himm) as (fuel & y' & Rr & F).
  exists fuel.
  assert (Et : transfer cs cd seq0 bits p sn data [ft] fuel tick = (y', true)).
  { unfold transfer, sys_init. cbn [y_src]. fold fss. rewrite P1. exact Rr. }
  cbv zeta. rewrite Et.
  destruct (final_verdict_g cd x data _ ft _ y' F) as [V1 V2].
  split; [exact V1|]. split; [exact V2|]. exact (final_fault_free_g cd x data _ ft y' F).
Qed.

(* instances: a file of 17 bytes in segments of 4 (n = 5), immediate NAK mode; File Data PDUs 1, 2, 3 held back for
   2 .. 9 and 30 rounds (the late original arrives with the retransmitted copy, with a later File Data PDU, with the EOF
   PDU, after it, with the ACK (Finished), at the idle receiver): the verdict of the fault-free runs *)
Example delay_imm_examples :
  let run k d := run_case ACKED false CK_CRC32 4 true 2 17 [mkFault 0 k 2 d] in
  forallb (fun k => forallb (fun d => fault_free_ok [2] (test_data 17) (run k d)) [2; 3; 4; 5; 6; 7; 8; 9; 30]) [1; 2; 3] = true.
Proof. vm_compute. reflexivity. Qed.
